import OtelVerif.Common.Line
import OtelVerif.Model.C05Src
/-! driver for C05: models `c05-retry` (retry loop), `c05-err` (error-chain classification), `c05-validate` -/
open OtelVerif OtelVerif.Line OtelVerif.C05

namespace OtelVerif.Drivers.C05

def optNat (s : String) : Option (Option Nat) :=
  if s = "-" then some none else s.toNat?.map some

/-- `e` = empty list, `1,2,3` -/
def idList (s : String) : Option (List Nat) :=
  if s = "e" then some [] else (s.splitOn ",").mapM String.toNat?

def optIdList (s : String) : Option (Option (List Nat)) :=
  if s = "-" then some none else (idList s).map some

def showIds (l : List Nat) : String := if l.isEmpty then "e" else ",".intercalate (l.map toString)

def b01 (b : Bool) : String := if b then "1" else "0"

def kvBool (toks : List String) (k : String) : Option Bool :=
  match kv toks k with
  | some "1" => some true
  | some "0" => some false
  | _ => none

structure RS where
  cfg : Option Cfg := none
  env : Option Env := none
  script : List Attempt := []   -- reversed
  payload : List Nat := []
  sent : Bool := false
  q : Bool := false            -- built with sending_queue{wait_for_result}: the caller is answered when its context ends
  nd : Bool := false           -- the harness sent this request to the monitor (`mode=nd`) instead of the exact diff
  implCalls : List (Nat × List Nat) := []  -- reversed
  implCtx : List (String × String) := []   -- reversed: (dl=…, ek=…) per call
  implRet : Option (Nat × String × Bool × Bool) := none
  bad : Option String := none
  props : List String := []   -- verdicts of the requests of this case that are already complete

def parseCfg (t : List String) : Option Cfg := do
  let en ← kvBool t "en"
  let init ← kvNat t "init"
  let maxint ← kvNat t "maxint"
  let maxel ← kvNat t "maxel"
  let mnum ← kvNat t "mnum"
  let mden ← kvNat t "mden"
  let rfnum ← kvNat t "rfnum"
  let rfden ← kvNat t "rfden"
  let timeout ← kvNat t "timeout"
  if mden = 0 ∨ rfden = 0 then none
  else pure { enabled := en, initial := init, maxInt := maxint, maxElapsed := maxel, mulNum := mnum, mulDen := mden,
              rfNum := rfnum, rfDen := rfden, timeout := timeout }

def parseEnv (t : List String) : Option Env := do
  let dl ← (kv t "dl").bind optNat
  let cn ← (kv t "cn").bind optNat
  let sd ← (kv t "sd").bind optNat
  pure { deadline := dl, cancel := cn, shutdown := sd }

def parseAtt (t : List String) : Option Attempt := do
  let u ← kvBool t "u"
  let dur ← kvNat t "dur"
  let ok ← kvBool t "ok"
  let perm ← kvBool t "perm"
  let th ← (kv t "th").bind optNat
  let rest ← (kv t "rest").bind optIdList
  let drawn ← kvNat t "drawn"
  let sdl ← kvBool t "sdl"
  pure { untilCtx := u, dur := dur, ok := ok, perm := perm, throttle := th, rest := rest, drawn := drawn, sd := sdl }

def reasonOfString (x : String) : Option Reason :=
  [Reason.ok, .perm, .exhausted, .deadline, .cancelled, .shutdown, .raw, .hang].find? (fun r => r.toString == x)

/-- `<tag> call <start> <ids> dl=<ctx.Deadline() seen by the pusher> ek=<c|d|?|->` (`ek`: the `ctx.Err()` a
pusher waiting for its context returns: Canceled / DeadlineExceeded; `?` when both fall on one instant) -/
def callLine (c : Cfg) (e : Env) (script : List Attempt) (tag : String) (t : Nat) (ids : List Nat) (k : Nat) : String :=
  let dl := match pusherDeadline c e t with | some d => toString d | none => "-"
  let a := script.getD k { ok := true }
  let ek := if !a.untilCtx then "-"
    else if e.cancel.isSome && e.cancel == pusherDeadline c e t then "?"
    else if pusherErrCanceled c e t then "c" else "d"
  s!"{tag} call {t} {showIds ids} dl={dl} ek={ek}"

def finalizeReq (s : RS) : List String :=
    if !s.sent then [] else
    match s.bad, s.cfg, s.env, s.implRet with
    | some b, _, _, _ => [s!"prop retry=FAIL sig=C05/retry/unparsable {b}"]
    | none, some c, some e, some (t, reason, p, sd) =>
      let script := s.script.reverse
      let calls := s.implCalls.reverse
      -- queue mode, caller answered by its context: the sender's own verdict is not observed; judge the attempts only
      -- (the clauses that read the verdict get the one the last attempt's outcome implies)
      let early := s.q && reason == "ctxdone"
      let lastOk := (script.getD (calls.length - 1) { ok := true }).ok
      let o : Observed := if early then { calls := calls, tEnd := t, isNil := lastOk, permFlag := false, sdFlag := false }
        else { calls := calls, tEnd := t, isNil := reason == "ok", permFlag := p, sdFlag := sd }
      let p1 := match checkObserved c e s.payload script o with
        | [] => "prop retry=ok"
        | sig :: more => s!"prop retry=FAIL sig={sig} also={more} calls={o.calls.map (·.1)} ret={t}/{reason}"
      -- monitor: the observation is the observation of a trace some scheduling order produces
      let p2 := if early then "prop allowed=ok" else match reasonOfString reason with
        | some r =>
          if accepts c e r t p sd 0 0 s.payload script calls then "prop allowed=ok"
          else s!"prop allowed=FAIL sig=C05/retry/not-an-allowed-behaviour calls={o.calls.map (·.1)} ret={t}/{reason}"
        | none => s!"prop allowed=FAIL sig=C05/retry/unknown-return-reason {reason}"
      -- what the pusher saw of the timeout sender and the request deadline
      let ctxLines := (calls.zip s.implCtx.reverse).zipIdx.filterMap (fun (((ct, _), (dl, ek)), k) =>
        let want := ((callLine c e script "obs" ct [] k).splitOn " ").drop 4
        if want == [dl, ek] || ek == "ek=?" && want.take 1 == [dl] then none else some s!"call{k}:{dl},{ek}≠{want}")
      let p3 := if ctxLines.isEmpty then "prop pusherctx=ok" else s!"prop pusherctx=FAIL sig=C05/timeout/pusher-context-mismatch {ctxLines}"
      -- the library law, evaluated on every draw the real library produced for this script (ties `LibLaw` / `LawAlong`)
      let p4 := if lawAlongB c 0 script then "prop liblaw=ok" else "prop liblaw=FAIL sig=C05/backoff/library-draw-outside-law"
      -- equal-instant classification recomputed from the model: only a real tie may go to the monitor instead of the exact diff
      let p5 := if s.nd && !isTie c e script (send c e s.payload script) then "prop tieclass=FAIL sig=C05/harness/not-a-tie-sent-to-the-monitor"
        else "prop tieclass=ok"
      [p1, p2, p3, p4, p5]
    | none, _, _, _ => ["prop retry=FAIL sig=C05/retry/no-return-observed"]

def retryHandler : Handler RS where
  init := {}
  onOp := fun s toks =>
    match toks with
    | "req" :: _ =>
      -- a further request of the same case (several requests through one retry sender): judge the previous one, start afresh
      ({ props := s.props ++ finalizeReq s }, [])
    | "cfg" :: rest =>
      match parseCfg rest with
      | some c => ({ s with cfg := some c }, [])
      | none => (s, ["obs bad-op"])
    | "env" :: rest =>
      match parseEnv rest with
      | some e => ({ s with env := some e }, [])
      | none => (s, ["obs bad-op"])
    | "att" :: rest =>
      match parseAtt rest with
      | some a => ({ s with script := a :: s.script }, [])
      | none => (s, ["obs bad-op"])
    | "send" :: p :: more =>
      match s.cfg, s.env, (kv [p] "payload").bind idList with
      | some c, some e, some pl =>
        let nd := kv more "mode" == some "nd"
        let script := s.script.reverse
        let tr := send c e pl script
        let q := kv more "q" == some "1"
        -- with the wait_for_result queue the producer is answered with its context's error as soon as that context ends,
        -- the sender's attempts are what they are; a sender verdict "cancelled" on that instant is the same answer
        let retLine := match q, e.ctxDone with
          | true, some x =>
            if x < tr.tEnd then s!"obs ret {x} ctxdone perm=0 sd=0"
            else if tr.reason == .cancelled then s!"obs ret {tr.tEnd} ctxdone perm=0 sd=0"
            else s!"obs ret {tr.tEnd} {tr.reason.toString} perm={b01 tr.permFlag} sd={b01 tr.sdFlag}"
          | _, _ => s!"obs ret {tr.tEnd} {tr.reason.toString} perm={b01 tr.permFlag} sd={b01 tr.sdFlag}"
        let lines := (tr.calls.zipIdx.map (fun (cl, k) => callLine c e script "obs" cl.t cl.payload k)) ++ [retLine]
        -- equal-instant cases are only monitored (`tr` lines of the harness): no model observation to diff
        ({ s with payload := pl, sent := true, nd := nd, q := q }, if nd then [] else lines)
      | _, _, _ => (s, ["obs bad-op"])
    | _ => (s, ["obs bad-op"])
  onObs := fun s toks =>
    match toks with
    | [_, "call", t, ids, dl, ek] =>
      match t.toNat?, idList ids with
      | some t, some ids => { s with implCalls := (t, ids) :: s.implCalls, implCtx := (dl, ek) :: s.implCtx }
      | _, _ => { s with bad := some "unparsable call" }
    | [_, "ret", t, reason, p, sd] =>
      match t.toNat?, kvBool [p] "perm", kvBool [sd] "sd" with
      | some t, some p, some sd => { s with implRet := some (t, reason, p, sd) }
      | _, _, _ => { s with bad := some "unparsable ret" }
    | _ => s
  onEnd := fun s => s.props ++ finalizeReq s

/-! ### error trees: prefix encoding `L | W x | P x | T<d> x | D<ids> x | O x | S x | J<n> x1 … xn` -/

partial def parseErr : List String → Option (Err × List String)
  | [] => none
  | tok :: rest =>
    let one (mk : Err → Err) : Option (Err × List String) :=
      match parseErr rest with
      | some (e, r) => some (mk e, r)
      | none => none
    if tok = "L" then some (.leaf, rest)
    else if tok = "W" then one .wrap
    else if tok = "P" then one .perm
    else if tok = "O" then one .otherSignal
    else if tok = "S" then one .shutdown
    else if tok.startsWith "T" then
      match (tok.drop 1).toString.toNat? with
      | some d => one (.throttle d)
      | none => none
    else if tok.startsWith "D" then
      match idList (tok.drop 1).toString with
      | some ids => one (.partialData ids)
      | none => none
    else if tok.startsWith "J" then
      match (tok.drop 1).toString.toNat? with
      | some n =>
        let rec many (k : Nat) (acc : List Err) (r : List String) : Option (Err × List String) :=
          match k with
          | 0 => some (.join acc.reverse, r)
          | k + 1 =>
            match parseErr r with
            | some (e, r') => many k (e :: acc) r'
            | none => none
        many n [] rest
      | none => none
    else none

def showOptNat : Option Nat → String
  | some n => toString n
  | none => "-"

def errHandler : Handler Unit where
  init := ()
  onOp := fun s toks =>
    match toks with
    | "err" :: rest =>
      match parseErr rest with
      | some (e, []) =>
        (s, [s!"obs cls perm={b01 e.isPermanent} sd={b01 e.isShutdown} th={showOptNat e.throttleDelay} rest={match e.remainder with | some r => showIds r | none => "-"}"])
      | _ => (s, ["obs bad-op"])
    | _ => (s, ["obs bad-op"])

def validateHandler : Handler Unit where
  init := ()
  onOp := fun s toks =>
    match toks with
    | "validate" :: t =>
      match kvBool t "en", kvInt t "init", kvInt t "maxint", kvInt t "maxel", kvInt t "mnum", kvNat t "mden", kvInt t "rfnum", kvNat t "rfden", kvInt t "timeout" with
      | some en, some i, some mi, some me, some mn, some md, some rn, some rd, some to =>
        let r : RawCfg := { enabled := en, initial := i, maxInt := mi, maxElapsed := me, mulNum := mn, mulDen := md, rfNum := rn, rfDen := rd, timeout := to }
        (s, [s!"obs valid {validateBackoff r} {b01 (validateTimeout r)}"])
      | _, _, _, _, _, _, _, _, _ => (s, ["obs bad-op"])
    | ["defaults"] =>
      -- the REGENERATED NewDefaultBackOffConfig / NewDefaultTimeoutConfig, judged by the model's validate
      let r := defaultRaw
      (s, [s!"obs defaults en={b01 r.enabled} init={r.initial} maxint={r.maxInt} maxel={r.maxElapsed} mnum={r.mulNum} mden={r.mulDen} rfnum={r.rfNum} rfden={r.rfDen} timeout={r.timeout} valid={validateBackoff r} {b01 (validateTimeout r)}"])
    | _ => (s, ["obs bad-op"])

structure GS where
  expect : Option (String × Nat) := none
  fails : List String := []

def grpcHandler : Handler GS where
  init := {}
  onOp := fun s toks =>
    match toks with
    | "grpc" :: t =>
      match kvNat t "code", (kv t "ri").bind optNat with
      | some code, some ri =>
        let line := match grpcProcess code ri with
          | none => "obs out nil=1 perm=0 th=-"
          | some e => s!"obs out nil=0 perm={b01 e.isPermanent} th={showOptNat e.throttleDelay}"
        ({ s with expect := some (line, code) }, [line])
      | _, _ => (s, ["obs bad-op"])
    | _ => (s, ["obs bad-op"])
  onObs := fun s toks =>
    -- the OTLP/gRPC retryability table (grpcRetryable = the regenerated shouldRetry on /repo, C05_src_grpc_retryable) and
    -- the hand-over of RetryInfo: what processError returns for a status must be what the specification's table says
    match toks, s.expect with
    | _ :: "out" :: rest, some (line, code) =>
      if "obs out " ++ " ".intercalate rest = line then { s with expect := none }
      else { s with expect := none, fails := s.fails ++ [s!"C05/otlp-grpc/status-not-classified-per-otlp-table code={code} got={" ".intercalate rest}"] }
    | _, _ => s
  onEnd := fun s =>
    match s.fails with
    | [] => ["prop grpc=ok"]
    | f :: more => [s!"prop grpc=FAIL sig={f} more={more.length}"]

end OtelVerif.Drivers.C05

def main : IO UInt32 :=
  runMulti [("c05-retry", run OtelVerif.Drivers.C05.retryHandler),
            ("c05-err", run OtelVerif.Drivers.C05.errHandler),
            ("c05-validate", run OtelVerif.Drivers.C05.validateHandler),
            ("c05-grpc", run OtelVerif.Drivers.C05.grpcHandler)]
