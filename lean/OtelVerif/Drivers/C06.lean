import OtelVerif.Common.Line
import OtelVerif.Model.C06
import OtelVerif.Model.C06Dag
import OtelVerif.Gen.FanoutShape
/-! driver for C06: models `c06-fan` (fan-out consumer) and `c06-graph` (pipeline capabilities) -/
open OtelVerif OtelVerif.Line OtelVerif.C06

namespace OtelVerif.Drivers.C06

def parseBits (s : String) : Option (List Bool) :=
  if s = "-" then some [] else
  s.toList.mapM (fun c => if c = '1' then some true else if c = '0' then some false else none)

def showObj : Obj → String
  | .orig => "o"
  | .clone k => s!"c{k}"

def b01 (b : Bool) : String := if b then "1" else "0"

structure FS where
  caps : List Bool := []
  implCalls : List (Nat × String × Bool) := []   -- consumer, object name, ro flag (current op)
  fails : List String := []

/-- exclusivity and read-only marking judged directly on the implementation's `obs call` lines -/
def judge (s : FS) : List String :=
  let calls := s.implCalls
  let isMut (c : Nat) : Bool := s.caps[c]? == some true
  let dupMut := calls.any (fun a => isMut a.1 && (calls.filter (fun b => b.2.1 == a.2.1)).length > 1)
  let sharedNotRO := calls.any (fun a => !isMut a.1 && !a.2.2 &&
      (calls.filter (fun b => !isMut b.1 && b.2.1 == a.2.1)).length > 1)
  (if dupMut then ["sig=C06/fanout/mutator-object-shared"] else []) ++
  (if sharedNotRO then ["sig=C06/fanout/shared-not-readonly"] else [])

def fanHandler : Handler FS where
  init := {}
  onOp := fun s toks =>
    let s := { s with fails := s.fails ++ judge s, implCalls := [] }
    match toks with
    | "fan" :: rest =>
      match (kv rest "caps").bind parseBits, (kv rest "fail").bind parseBits, (kv rest "syncw").bind parseBits,
            kvNat rest "ro", kvInt rest "undecl" with
      | some caps, some fail, some syncw, some ro, some undecl =>
        let inputRO := ro = 1
        let syncW : Nat → Option Nat := fun c =>
          if ((caps[c]? == some true) && (syncw[c]? == some true)) || (Int.ofNat c == undecl) then some (100 + c) else none
        let ds := deliveries caps inputRO
        let (h, seen) := runFan caps inputRO 0 syncW
        let ws := (List.range caps.length).filterMap (fun i => if caps[i]? == some true then some (i, 200 + i) else none)
        let hf := asyncWrites ds h ws
        let callLines := seen.map (fun x =>
          s!"obs call {x.consumer} {showObj x.obj} ro={b01 x.ro} eq={b01 (x.atCall == some 0)} panic={b01 x.panicked}")
        let nerr := (errorsOf ds (fun c => fail[c]? == some true)).length
        let afters := (List.range caps.length).map (fun i =>
          match objOf ds i with
          | none => s!"obs after {i} missing"
          | some o =>
            if caps[i]? == some true then s!"obs after {i} excl={b01 (hf.read o == some (200 + i))}"
            else s!"obs after {i} eq={b01 (hf.read o == some 0)}")
        ({ s with caps := caps }, [s!"obs cap {b01 (fanCap caps)}"] ++ callLines ++ [s!"obs err {nerr}"] ++ afters)
      | _, _, _, _, _ => (s, ["obs bad-op"])
    | "route" :: rest =>
      let sel : Option (List Nat) := (kv rest "sel").bind (fun v => if v = "-" then some [] else (v.splitOn ",").mapM String.toNat?)
      match kvNat rest "n", sel with
      | some n, some sel => (s, [s!"obs route {if (routerSelect n sel).isSome then "ok" else "error"}"])
      | _, _ => (s, ["obs bad-op"])
    | _ => (s, ["obs bad-op"])
  onObs := fun s toks =>
    match toks with
    | [_, "call", c, obj, ro, _, _] =>
      match c.toNat? with
      | some c => { s with implCalls := s.implCalls ++ [(c, obj, ro == "ro=1")] }
      | none => s
    | _ => s
  onEnd := fun s =>
    let fails := s.fails ++ judge s
    match fails with
    | [] => ["prop isolation=ok"]
    | f :: _ => [s!"prop isolation=FAIL {f}"]

/-! ### `c06-graph` -/

open OtelVerif.C06.Dag in
/-- `n` writers `<id> <m>` -/
def takeWs : Nat → List String → Option (List (Nat × Bool) × List String)
  | 0, rest => some ([], rest)
  | n + 1, id :: m :: rest =>
    match id.toNat?, takeWs n rest with
    | some i, some (ws, r) => some ((i, m == "1") :: ws, r)
    | _, _ => none
  | _, _ => none

open OtelVerif.C06.Dag in
/-- pre-order token list of a forest (the consumers of one fan-out), closed by `]`:
`e <id> <m>` exporter · `p <n> (<id> <m>)×n <kids…> ]` pipeline with `n` processors · `c <id> <m> <kids…> ]` connector -/
def parseForest : Nat → List String → Option (Forest × List String)
  | 0, _ => none
  | _ + 1, "]" :: rest => some (.nil, rest)
  | fuel + 1, "e" :: id :: m :: rest =>
    match id.toNat?, parseForest fuel rest with
    | some i, some (f, r) => some (.exp i (m == "1") f, r)
    | _, _ => none
  | fuel + 1, "c" :: id :: m :: rest =>
    match id.toNat?, parseForest fuel rest with
    | some i, some (kids, r1) =>
      match parseForest fuel r1 with
      | some (sib, r2) => some (.inner .conn [(i, m == "1")] kids sib, r2)
      | none => none
    | _, _ => none
  | fuel + 1, "p" :: n :: rest =>
    match n.toNat?.bind (fun n => takeWs n rest) with
    | some (ws, r0) =>
      match parseForest fuel r0 with
      | some (kids, r1) =>
        match parseForest fuel r1 with
        | some (sib, r2) => some (.inner .pipe ws kids sib, r2)
        | none => none
      | none => none
    | none => none
  | _, _ => none

def showTrail (t : List Nat) : String := if t.isEmpty then "-" else ".".intercalate (t.map toString)

def parseTrail (s : String) : Option (List Nat) :=
  if s = "-" then some [] else (s.splitOn ".").mapM String.toNat?

def sortStrs (l : List String) : List String := (l.toArray.qsort (· < ·)).toList

/-- one exporter call as the harness prints it: `<id>:<ro>:<trail at call>:<trail at the end>:<number of exporter calls holding the same object>` -/
def parseLeaf (s : String) : Option (Nat × Bool × List Nat × List Nat × Nat) :=
  match s.splitOn ":" with
  | [id, ro, t, a, n] =>
    match id.toNat?, parseTrail t, parseTrail a, n.toNat? with
    | some i, some t, some a, some n => some (i, ro == "1", t, a, n)
    | _, _, _, _ => none
  | _ => none

structure GS where
  known : List (String × Bool) := []
  tree : Option OtelVerif.C06.Dag.Forest := none   -- the tree announced by the last `op tree`
  t0 : List Nat := []
  fails : List String := []
  trees : Nat := 0

open OtelVerif.C06.Dag in
/-- declared capability of the exporters of a forest -/
def leafMut : Forest → List (Nat × Bool)
  | .nil => []
  | .exp id m rest => (id, m) :: leafMut rest
  | .inner _ _ kids rest => leafMut kids ++ leafMut rest

open OtelVerif.C06.Dag in
/-- the property itself, judged on the implementation's `obs leaves` line against the ABSTRACT semantics (private copies,
`specAll`; `checkLeaves` is proved sound in `C06_dag_check_sound`), not against the operational model: every exporter call shows
exactly the tags of the declared mutators on its own path; at the very end (after the asynchronous writes of all declared mutators) its object holds that plus its own two tags; a declared mutator
never sees a read-only object -/
def judgeLeaves (f : Forest) (t0 : List Nat) (entries : List (Nat × Bool × List Nat × List Nat × Nat)) : List String :=
  let seen := entries.map (fun e => (e.1, e.2.2.1))
  let muts := leafMut f
  (if checkLeaves f t0 seen then [] else ["sig=C06/dag/exporter-call-not-a-private-copy"]) ++
  (if entries.all (fun e => e.2.2.2.1 == e.2.2.1 ++ (if muts.lookup e.1 == some true then [e.1, e.1] else [])) then []
   else ["sig=C06/dag/exporter-object-changed-after-call"]) ++
  (if entries.all (fun e => !(muts.lookup e.1 == some true && e.2.1)) then [] else ["sig=C06/dag/declared-mutator-handed-readonly-object"]) ++
  -- C06_dag_shared_readonly / C06_dag_exclusive judged on the implementation
  (if entries.all (fun e => e.2.2.2.2 ≤ 1 || e.2.1) then [] else ["sig=C06/dag/shared-object-not-readonly"]) ++
  (if entries.all (fun e => !(muts.lookup e.1 == some true) || e.2.2.2.2 ≤ 1) then [] else ["sig=C06/dag/mutating-exporter-shares-its-object"])

/-- `c06-graph`: pipelines are announced leaves first.
`op pipe id=<name> procs=<bits> exps=<bits of plain exporters> conn=-|<base>:<next1>,<next2>[;<base>:<next>…]` → `obs cap <b>`;
every connector in exporter position contributes `aggregateCap base (caps of its next pipelines)`.
Exporter order inside the fan-out is irrelevant (`C06_fanCap_all`).
`op hop caps=<bits> ro=<b>`: one fan-out call (receiver or connector → pipelines, or pipeline → exporters and connectors) with the
consumers in a canonical (name) order → `obs hop ro=<bits seen at call> origmut=<n>`: the order-independent summary
(`C06_seen_ro`, `C06_origMut`, `C06_summary_perm`).
`op tree ro=<b> <forest tokens>`: ONE payload injected at a receiver whose fan-out serves the given forest (the whole unfolded graph
below that receiver) → `obs leaves <sorted id:ro:trail-at-call:trail-at-end,…>` computed by the operational whole-graph model
`Dag.fan` (refines the private-copy semantics: `C06_dag_refines`, `C06_dag_final`, `C06_dag_no_panic`) + `obs caps <bits>`: the
capability every top-level pipeline advertises (`Dag.caps`). -/
def graphHandler : Handler GS where
  init := {}
  onOp := fun s toks =>
    let known := s.known
    match toks with
    | "pipe" :: rest =>
      match kv rest "id", (kv rest "procs").bind parseBits, (kv rest "exps").bind parseBits, kv rest "conn" with
      | some id, some p, some e, some conn =>
        let one (c : String) : Option Bool :=
          match c.splitOn ":" with
          | [b, nx] =>
            let names := (nx.splitOn ",").filter (· ≠ "")
            (names.mapM (fun n => known.lookup n)).map (fun caps => aggregateCap (b = "1") caps)
          | _ => none
        let connCap : Option (List Bool) :=
          if conn = "-" then some [] else ((conn.splitOn ";").filter (· ≠ "")).mapM one
        match connCap with
        | some cc =>
          let cap := pipelineCap p (e ++ cc)
          ({ s with known := (id, cap) :: known }, [s!"obs cap {b01 cap}"])
        | none => (s, ["obs bad-op"])
      | _, _, _, _ => (s, ["obs bad-op"])
    | "hop" :: rest =>
      match (kv rest "caps").bind parseBits, kvNat rest "ro" with
      | some caps, some ro =>
        let inputRO := ro = 1
        let flags := (List.range caps.length).map (fun c => b01 (seenRO caps inputRO c))
        (s, [s!"obs hop ro={if flags.isEmpty then "-" else String.join flags} origmut={origMut caps inputRO}"])
      | _, _ => (s, ["obs bad-op"])
    | "tree" :: roTok :: failTok :: t0Tok :: rest =>
      let failIds : Option (List Nat) := (kv [failTok] "fail").bind (fun v => if v = "-" then some [] else (v.splitOn ",").mapM String.toNat?)
      -- t0: what the payload holds when it enters (empty at a receiver; the trail so far for a payload created by a cross-signal connector)
      match kvNat [roTok] "ro", failIds, (kv [t0Tok] "t0").bind parseTrail, parseForest (rest.length + 1) rest with
      | some ro, some fails, some t0, some (f, []) =>
        let r := Dag.fan f 0 (Dag.Heap.init t0 (ro = 1))
        -- afterwards every declared mutator writes once more to the object it holds (`Dag.later`, C06_dag_async)
        let hEnd := Dag.later r.2 r.1 ((List.range r.2.length).filterMap (fun i => (r.2[i]?).map (fun ob => (i, ob.id))))
        let entries := r.2.map (fun ob =>
          s!"{ob.id}:{b01 ob.ro}:{showTrail ob.content}:{showTrail (hEnd.content ob.obj)}:{(r.2.filter (fun x => x.obj == ob.obj)).length}")
        let capBits := (Dag.caps f).map b01
        ({ s with tree := some f, t0 := t0, trees := s.trees + 1,
                  fails := s.fails ++ (if r.1.panics.isEmpty then [] else ["sig=C06/dag/model-panics"]) },
          [s!"obs caps {if capBits.isEmpty then "-" else String.join capBits}",
           -- every exporter below is called whatever its siblings returned; the error the receiver gets back aggregates every failing call
           s!"obs errs {(r.2.filter (fun ob => fails.contains ob.id)).length}",
           s!"obs leaves {if entries.isEmpty then "-" else ",".intercalate (sortStrs entries)}"])
      | _, _, _, _ => (s, ["obs bad-op"])
    | _ => (s, ["obs bad-op"])
  onObs := fun s toks =>
    match toks, s.tree with
    | [_, "leaves", l], some f =>
      let parsed := if l = "-" then some [] else (l.splitOn ",").mapM parseLeaf
      match parsed with
      | some es => { s with fails := s.fails ++ judgeLeaves f s.t0 es, tree := none }
      | none => { s with fails := s.fails ++ ["sig=C06/dag/unparsable-leaves"], tree := none }
    | _, _ => s
  onEnd := fun s =>
    if s.trees = 0 then [] else
    match s.fails with
    | [] => ["prop dag-private-copy=ok"]
    | f :: _ => [s!"prop dag-private-copy=FAIL {f}"]

/-- `c06-exp`: `op exp sig=… declared=-|0|1 batching=0|1 opts=…` → `obs cap <b>` -/
def expHandler : Handler Unit where
  init := ()
  onOp := fun s toks =>
    match toks with
    | "exp" :: rest =>
      match kv rest "declared", kvNat rest "batching" with
      | some d, some b =>
        let decl : Option Bool := if d = "1" then some true else if d = "0" then some false else none
        (s, [s!"obs cap {b01 (exporterCap decl (b = 1))}"])
      | _, _ => (s, ["obs bad-op"])
    | "exph" :: rest =>
      -- the exporter's own declarations in option order + whether it batches; constants regenerated from base_exporter.go / consumer
      match (kv rest "decls").bind parseBits, kvNat rest "batching" with
      | some ds, some b =>
        (s, [s!"obs cap {b01 (exporterCapH Gen.FanoutShape.consumerDefaultMutates Gen.FanoutShape.exporterBatchingDeclares ds (b = 1))}"])
      | _, _ => (s, ["obs bad-op"])
    | "proch" :: rest =>
      -- a processor built with the processor helper (x=1: xprocessorhelper, profiles): its own declarations in option order
      match (kv rest "decls").bind parseBits, kvNat rest "x" with
      | some ds, some x =>
        let hd := if x = 1 then Gen.FanoutShape.xprocessorHelperDefaults else Gen.FanoutShape.processorHelperDefaults
        (s, [s!"obs cap {b01 (processorCapH Gen.FanoutShape.consumerDefaultMutates hd ds)}"])
      | _, _ => (s, ["obs bad-op"])
    | _ => (s, ["obs bad-op"])

end OtelVerif.Drivers.C06

def main : IO UInt32 :=
  runMulti [("c06-fan", run OtelVerif.Drivers.C06.fanHandler), ("c06-graph", run OtelVerif.Drivers.C06.graphHandler),
    ("c06-exp", run OtelVerif.Drivers.C06.expHandler)]
