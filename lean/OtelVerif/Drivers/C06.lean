import OtelVerif.Common.Line
import OtelVerif.Model.C06
/-! driver for C06: models `c06-fan` (fan-out consumer) and `c06-graph` (pipeline capabilities) -/
open OtelVerif OtelVerif.Line OtelVerif.C06

namespace OtelVerif.Drivers.C06

def parseBits (s : String) : Option (List Bool) :=
  if s = "-" then some [] else
  s.toList.mapM (fun c => if c = '1' then some true else if c = '0' then some false else none)

def showObj : Obj → String
  | .orig => "o"
  | .clone k => s!"c{k}"

def b01 (b : Bool) : String := if b then "1" else "0"

structure FS where
  caps : List Bool := []
  implCalls : List (Nat × String × Bool) := []   -- consumer, object name, ro flag (current op)
  fails : List String := []

/-- exclusivity and read-only marking judged directly on the implementation's `obs call` lines -/
def judge (s : FS) : List String :=
  let calls := s.implCalls
  let isMut (c : Nat) : Bool := s.caps[c]? == some true
  let dupMut := calls.any (fun a => isMut a.1 && (calls.filter (fun b => b.2.1 == a.2.1)).length > 1)
  let sharedNotRO := calls.any (fun a => !isMut a.1 && !a.2.2 &&
      (calls.filter (fun b => !isMut b.1 && b.2.1 == a.2.1)).length > 1)
  (if dupMut then ["sig=C06/fanout/mutator-object-shared"] else []) ++
  (if sharedNotRO then ["sig=C06/fanout/shared-not-readonly"] else [])

def fanHandler : Handler FS where
  init := {}
  onOp := fun s toks =>
    let s := { s with fails := s.fails ++ judge s, implCalls := [] }
    match toks with
    | "fan" :: rest =>
      match (kv rest "caps").bind parseBits, (kv rest "fail").bind parseBits, (kv rest "syncw").bind parseBits,
            kvNat rest "ro", kvInt rest "undecl" with
      | some caps, some fail, some syncw, some ro, some undecl =>
        let inputRO := ro = 1
        let syncW : Nat → Option Nat := fun c =>
          if ((caps[c]? == some true) && (syncw[c]? == some true)) || (Int.ofNat c == undecl) then some (100 + c) else none
        let ds := deliveries caps inputRO
        let (h, seen) := runFan caps inputRO 0 syncW
        let ws := (List.range caps.length).filterMap (fun i => if caps[i]? == some true then some (i, 200 + i) else none)
        let hf := asyncWrites ds h ws
        let callLines := seen.map (fun x =>
          s!"obs call {x.consumer} {showObj x.obj} ro={b01 x.ro} eq={b01 (x.atCall == some 0)} panic={b01 x.panicked}")
        let nerr := (errorsOf ds (fun c => fail[c]? == some true)).length
        let afters := (List.range caps.length).map (fun i =>
          match objOf ds i with
          | none => s!"obs after {i} missing"
          | some o =>
            if caps[i]? == some true then s!"obs after {i} excl={b01 (hf.read o == some (200 + i))}"
            else s!"obs after {i} eq={b01 (hf.read o == some 0)}")
        ({ s with caps := caps }, [s!"obs cap {b01 (fanCap caps)}"] ++ callLines ++ [s!"obs err {nerr}"] ++ afters)
      | _, _, _, _, _ => (s, ["obs bad-op"])
    | _ => (s, ["obs bad-op"])
  onObs := fun s toks =>
    match toks with
    | [_, "call", c, obj, ro, _, _] =>
      match c.toNat? with
      | some c => { s with implCalls := s.implCalls ++ [(c, obj, ro == "ro=1")] }
      | none => s
    | _ => s
  onEnd := fun s =>
    let fails := s.fails ++ judge s
    match fails with
    | [] => ["prop isolation=ok"]
    | f :: _ => [s!"prop isolation=FAIL {f}"]

/-- `c06-graph`: pipelines are announced leaves first.
`op pipe id=<name> procs=<bits> exps=<bits of plain exporters> conn=-|<base>:<next1>,<next2>[;<base>:<next>…]` → `obs cap <b>`;
every connector in exporter position contributes `aggregateCap base (caps of its next pipelines)`.
Exporter order inside the fan-out is irrelevant (`C06_fanCap_all`).
`op hop caps=<bits> ro=<b>`: one fan-out call (receiver or connector → pipelines, or pipeline → exporters and connectors) with the
consumers in a canonical (name) order → `obs hop ro=<bits seen at call> origmut=<n>`: the order-independent summary
(`C06_seen_ro`, `C06_origMut`, `C06_summary_perm`). -/
def graphHandler : Handler (List (String × Bool)) where
  init := []
  onOp := fun known toks =>
    match toks with
    | "pipe" :: rest =>
      match kv rest "id", (kv rest "procs").bind parseBits, (kv rest "exps").bind parseBits, kv rest "conn" with
      | some id, some p, some e, some conn =>
        let one (c : String) : Option Bool :=
          match c.splitOn ":" with
          | [b, nx] =>
            let names := (nx.splitOn ",").filter (· ≠ "")
            (names.mapM (fun n => known.lookup n)).map (fun caps => aggregateCap (b = "1") caps)
          | _ => none
        let connCap : Option (List Bool) :=
          if conn = "-" then some [] else ((conn.splitOn ";").filter (· ≠ "")).mapM one
        match connCap with
        | some cc =>
          let cap := pipelineCap p (e ++ cc)
          ((id, cap) :: known, [s!"obs cap {b01 cap}"])
        | none => (known, ["obs bad-op"])
      | _, _, _, _ => (known, ["obs bad-op"])
    | "hop" :: rest =>
      match (kv rest "caps").bind parseBits, kvNat rest "ro" with
      | some caps, some ro =>
        let inputRO := ro = 1
        let flags := (List.range caps.length).map (fun c => b01 (seenRO caps inputRO c))
        (known, [s!"obs hop ro={if flags.isEmpty then "-" else String.join flags} origmut={origMut caps inputRO}"])
      | _, _ => (known, ["obs bad-op"])
    | _ => (known, ["obs bad-op"])

/-- `c06-exp`: `op exp sig=… declared=-|0|1 batching=0|1 opts=…` → `obs cap <b>` -/
def expHandler : Handler Unit where
  init := ()
  onOp := fun s toks =>
    match toks with
    | "exp" :: rest =>
      match kv rest "declared", kvNat rest "batching" with
      | some d, some b =>
        let decl : Option Bool := if d = "1" then some true else if d = "0" then some false else none
        (s, [s!"obs cap {b01 (exporterCap decl (b = 1))}"])
      | _, _ => (s, ["obs bad-op"])
    | _ => (s, ["obs bad-op"])

end OtelVerif.Drivers.C06

def main : IO UInt32 :=
  runMulti [("c06-fan", run OtelVerif.Drivers.C06.fanHandler), ("c06-graph", run OtelVerif.Drivers.C06.graphHandler),
    ("c06-exp", run OtelVerif.Drivers.C06.expHandler)]
