import OtelVerif.Common.Line
import OtelVerif.Model.C06
/-! driver for C06 (stub) -/
def main : IO UInt32 := do
  IO.eprintln "drv_c06: not built yet"
  return 2
