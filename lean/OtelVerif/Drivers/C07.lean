import OtelVerif.Common.Line
import OtelVerif.Model.C07
import OtelVerif.Model.C07Map
import OtelVerif.Model.C07Nest
import OtelVerif.Model.C07NestRaw
import OtelVerif.Lemmas.C07NestAll
import OtelVerif.Model.C07Prim
import OtelVerif.Model.C07State
/-! driver for C07: model `c07-ptrslice` (heap model of generated pointer slices) -/
open OtelVerif OtelVerif.Line OtelVerif.C07

namespace OtelVerif.Drivers.C07

def parseVals (s : String) : Option (List Nat) :=
  if s = "-" then some [] else
  -- a nil element (only a defect exposes one) reads as 2^64, which no uint64 field can hold
  (s.splitOn ",").mapM (fun t => if t = "nil" then some 18446744073709551616 else t.toNat?)

def showVals (l : List Nat) : String :=
  if l.isEmpty then "-" else ",".intercalate (l.map toString)

def parseMask (s : String) : Option (List Bool) :=
  if s = "-" then some [] else
  s.toList.mapM (fun c => if c = '1' then some true else if c = '0' then some false else none)

def parseOp (toks : List String) : Option Op :=
  match toks with
  | ["append", a, c] => do some (.append (← a.toNat?) (← kvNat [c] "cap"))
  | ["set", a, i, v] => do some (.set (← a.toNat?) (← i.toNat?) (← v.toNat?))
  | ["removeif", a, m] => do some (.removeIf (← a.toNat?) (← (kv [m] "mask").bind parseMask))
  | ["ensurecap", a, n] => do some (.ensureCap (← a.toNat?) (← n.toNat?))
  | ["sort", a] => do some (.sort (← a.toNat?))
  | ["copy", a, b] => do some (.copyTo (← a.toNat?) (← b.toNat?))
  | ["moveappend", a, b, c] => do some (.moveAndAppendTo (← a.toNat?) (← b.toNat?) (← kvNat [c] "cap"))
  | ["markro", a] => do some (.markRO (← a.toNat?))
  | _ => none

def opKind : Op → String
  | .append .. => "append" | .set .. => "set" | .removeIf .. => "removeif" | .ensureCap .. => "ensurecap"
  | .sort .. => "sort" | .copyTo .. => "copy" | .moveAndAppendTo .. => "moveappend" | .markRO .. => "markro"

def showModel (H : Nat) (s : St) (panicked : Bool) : String :=
  let hs := (List.range H).map (fun a => s!"{showVals ((abs s).val a)}/{(s.hd a).cap}")
  "obs " ++ (if panicked then "panic" else "ok") ++ " " ++ " ".intercalate hs

/-- parse the implementation's `obs ok|panic v/c v/c …` -/
def parseObs (toks : List String) : Option (Bool × List (List Nat)) :=
  match toks with
  | _ :: r :: hs =>
    let p := if r = "panic" then some true else if r = "ok" then some false else none
    p.bind fun p => (hs.mapM (fun h => parseVals ((h.splitOn "/").headD ""))).map (fun l => (p, l))
  | _ => none

/-- The heap is a function in the model; compiled, a chain of `upd`/`assign` closures is re-run on every
lookup.  After each step the driver re-tabulates it (extensionally the same function: ids `≥ next`
are never written and read 0). -/
def normalize (s : St) : St :=
  let arr := ((List.range s.next).map s.objs).toArray
  { s with objs := fun j => arr.getD j 0 }

structure DS where
  H : Nat := 0
  m : St := St.init
  impl : PSt := PSt.init          -- what the implementation showed last (ro flags: by the ops)
  pending : Option Op := none
  step : Nat := 0
  fail : Option String := none

def classify (H : Nat) (before : PSt) (op : Op) (after : Nat → List Nat) (panicked : Bool) : String :=
  let r := pstep before op
  let k := opKind op
  if r.2 != panicked then
    (if panicked then s!"C07/ptrslice/{k}-unexpected-panic" else s!"C07/ptrslice/{k}-missing-panic")
  else if (List.range H).any (fun a => !(targets op).contains a && after a != before.val a) then
    s!"C07/ptrslice/{k}-changed-unrelated-value"
  else if panicked then s!"C07/ptrslice/{k}-panic-changed-state"
  else s!"C07/ptrslice/{k}-result-differs"

def handler : Handler DS where
  init := {}
  onCase := fun s toks => { s with H := (kvNat toks "h").getD 0 }
  onOp := fun s toks =>
    match parseOp toks with
    | some op =>
      let (m', p) := C07.step s.m op
      let m' := normalize m'
      ({ s with m := m', pending := some op, step := s.step + 1 }, [showModel s.H m' p])
    | none => ({ s with pending := none }, ["obs bad-op"])
  onObs := fun s toks =>
    match s.pending, parseObs toks with
    | some op, some (p, l) =>
      let after : Nat → List Nat := fun a => l.getD a []
      let ok := obsStep s.H s.impl op after p
      let fail := match s.fail with
        | some f => some f
        | none => if ok then none else
            some s!"sig={classify s.H s.impl op after p} step={s.step} op={opKind op} expected={(List.range s.H).map (fun a => showVals ((pstep s.impl op).1.val a))} got={l.map showVals}"
      { s with impl := { val := after, ro := (pstep s.impl op).1.ro }, pending := none, fail := fail }
    | _, none => { s with fail := s.fail <|> some "sig=C07/ptrslice/unparsable-observation" }
    | none, _ => s
  onEnd := fun s =>
    match s.fail with
    | some f => [s!"prop valuesem=FAIL {f}"]
    | none => ["prop valuesem=ok"]

/-! ## model `c07-map`: heap model of `pcommon.Map` -/
namespace MapD
open OtelVerif.C07.M

def showAV : AV → String
  | .nil => "n"
  | .scalar k v => s!"c{k}.{v}"
  | .bytes bs => "b" ++ (if bs.isEmpty then "" else hexBytes bs)

def showEntries (l : List Entry) : String :=
  if l.isEmpty then "-" else ",".intercalate (l.map (fun e => s!"{e.1}:{showAV e.2}"))

def parseAV (t : String) : Option AV :=
  if t = "n" then some .nil
  else if t.startsWith "c" then
    match ((t.drop 1).toString.splitOn ".") with
    | [k, v] => do some (.scalar (← k.toNat?) (← v.toNat?))
    | _ => none
  else if t.startsWith "b" then
    let h := (t.drop 1).toString
    if h.isEmpty then some (.bytes []) else (unhexBytes h).map .bytes
  else none

def parseEntries (t : String) : Option (List Entry) :=
  if t = "-" then some [] else
  (t.splitOn ",").mapM (fun e =>
    match e.splitOn ":" with
    | [k, v] => do some ((← k.toNat?), (← parseAV v))
    | _ => none)

def parseOp (toks : List String) : Option M.Op :=
  match toks with
  | ["put", a, k, kind, v, c] => do some (.putScalar (← a.toNat?) (← k.toNat?) (← kind.toNat?) (← v.toNat?) (← kvNat [c] "cap"))
  | ["putempty", a, k, c] => do some (.putEmpty (← a.toNat?) (← k.toNat?) (← kvNat [c] "cap"))
  | ["putb", a, k, h, c] => do some (.putBytes (← a.toNat?) (← k.toNat?) (← unhexBytes h) (← kvNat [c] "cap"))
  | ["bapp", a, k, x] => do some (.bytesAppend (← a.toNat?) (← k.toNat?) (← x.toNat?))
  | ["remove", a, k] => do some (.remove (← a.toNat?) (← k.toNat?))
  | ["removeif", a, m] => do some (.removeIf (← a.toNat?) (← (kv [m] "mask").bind parseMask))
  | ["ensurecap", a, n] => do some (.ensureCap (← a.toNat?) (← n.toNat?))
  | ["clear", a] => do some (.clear (← a.toNat?))
  | ["copy", a, b] => do some (.copyTo (← a.toNat?) (← b.toNat?))
  | ["move", a, b] => do some (.moveTo (← a.toNat?) (← b.toNat?))
  | ["markro", a] => do some (.markRO (← a.toNat?))
  | _ => none

def opKind : M.Op → String
  | .putScalar .. => "put" | .putEmpty .. => "putempty" | .putBytes .. => "putbytes" | .bytesAppend .. => "bytesappend"
  | .remove .. => "remove" | .removeIf .. => "removeif" | .ensureCap .. => "ensurecap" | .clear .. => "clear"
  | .copyTo .. => "copy" | .moveTo .. => "move" | .markRO .. => "markro"

def normalize (s : M.St) : M.St :=
  let arr := ((List.range s.next).map s.w).toArray
  { s with w := fun j => arr.getD j [] }

def showModel (H : Nat) (s : M.St) (panicked : Bool) : String :=
  let hs := (List.range H).map (fun a => s!"{showEntries ((M.abs s).val a)}/{(s.hd a).cap}")
  "obs " ++ (if panicked then "panic" else "ok") ++ " " ++ " ".intercalate hs

def parseObs (toks : List String) : Option (Bool × List (List Entry)) :=
  match toks with
  | _ :: r :: hs =>
    let p := if r = "panic" then some true else if r = "ok" then some false else none
    p.bind fun p => (hs.mapM (fun h => parseEntries ((h.splitOn "/").headD ""))).map (fun l => (p, l))
  | _ => none

structure DS where
  H : Nat := 0
  m : M.St := M.St.init
  impl : M.PSt := M.PSt.init
  pending : Option M.Op := none
  step : Nat := 0
  fail : Option String := none

def classify (H : Nat) (before : M.PSt) (op : M.Op) (after : Nat → List Entry) (panicked : Bool) : String :=
  let r := M.pstep before op
  let k := opKind op
  if r.2 != panicked then
    (if panicked then s!"C07/map/{k}-unexpected-panic" else s!"C07/map/{k}-missing-panic")
  else if (List.range H).any (fun a => !(M.targets op).contains a && after a != before.val a) then
    s!"C07/map/{k}-changed-unrelated-value"
  else if panicked then s!"C07/map/{k}-panic-changed-state"
  else s!"C07/map/{k}-result-differs"

def handler : Handler DS where
  init := {}
  onCase := fun s toks => { s with H := (kvNat toks "h").getD 0 }
  onOp := fun s toks =>
    match parseOp toks with
    | some op =>
      let (m', p) := M.step s.m op
      let m' := normalize m'
      ({ s with m := m', pending := some op, step := s.step + 1 }, [showModel s.H m' p])
    | none => ({ s with pending := none }, ["obs bad-op"])
  onObs := fun s toks =>
    match s.pending, parseObs toks with
    | some op, some (p, l) =>
      let after : Nat → List Entry := fun a => l.getD a []
      let ok := M.obsStep s.H s.impl op after p
      let fail := match s.fail with
        | some f => some f
        | none => if ok then none else
            some s!"sig={classify s.H s.impl op after p} step={s.step} op={opKind op} expected={(List.range s.H).map (fun a => showEntries ((M.pstep s.impl op).1.val a))} got={l.map showEntries}"
      { s with impl := { val := after, ro := (M.pstep s.impl op).1.ro }, pending := none, fail := fail }
    | _, none => { s with fail := s.fail <|> some "sig=C07/map/unparsable-observation" }
    | none, _ => s
  onEnd := fun s =>
    match s.fail with
    | some f => [s!"prop mapvaluesem=FAIL {f}"]
    | none => ["prop mapvaluesem=ok"]

end MapD

/-! ## model `c07-nest`: nested `pcommon.Value` / `Map` / `Slice` (exact differential only) -/
namespace NestD
open OtelVerif.C07.N

/-- dump with capacities: `n`, `c<kind>.<v>`, `b<hex>`, `{cap|k=v,…}`, `[cap|v,…]` -/
def showV : Nat → N.Heap → N.V → String
  | _, _, .nil => "n"
  | _, _, .scalar k v => s!"c{k}.{v}"
  | _, h, .bytes i => "b" ++ (if (h.wb i).isEmpty then "" else hexBytes (h.wb i))
  | d + 1, h, .list km i =>
    let hd := h.wl i
    let items := hd.live.map (fun kv => if km then s!"{kv.key}={showV d h kv.val}" else showV d h kv.val)
    (if km then "{" else "[") ++ s!"{hd.cap}|" ++ ",".intercalate items ++ (if km then "}" else "]")
  | 0, _, .list _ _ => "CUT"

def parseNewV (t : String) : Option NewV :=
  if t = "n" then some .nil
  else if t = "m" then some (.list true)
  else if t = "a" then some (.list false)
  else if t.startsWith "c" then
    match ((t.drop 1).toString.splitOn ".") with
    | [k, v] => do some (.scalar (← k.toNat?) (← v.toNat?))
    | _ => none
  else if t.startsWith "b" then
    let h := (t.drop 1).toString
    if h.isEmpty then some (.bytes []) else (unhexBytes h).map .bytes
  else none

def parseSel (t : String) : Option Sel :=
  if t = "push" then some .push
  else if t.startsWith "k" then ((t.drop 1).toString.toNat?).map .key
  else if t.startsWith "i" then ((t.drop 1).toString.toNat?).map .idx
  else none

def parsePath (t : String) : Option (List Sel) :=
  if t = "-" then some [] else (t.splitOn "/").mapM parseSel

/-- slot index of a path segment in a container -/
def segIdx (hd : N.Hdr) : Sel → Option Nat
  | .key k => N.find hd.live k
  | .idx i => if i < hd.live.length then some i else none
  | .push => none

/-- the `Value` position a path names -/
def resolveLoc (s : N.St) (r : Nat) : List Sel → Option N.Loc
  | [] => some (.root r)
  | p =>
    let rec go (v : N.V) : List Sel → Option N.Loc
      | [] => none
      | [seg] => match v with
        | .list _ o => (segIdx (s.h.wl o) seg).map (fun i => N.Loc.slot o i)
        | _ => none
      | seg :: rest => match v with
        | .list _ o => (segIdx (s.h.wl o) seg).bind fun i => ((s.h.wl o).live[i]?).bind fun kv => go kv.val rest
        | _ => none
    go (s.root r) p

def resolveV (s : N.St) (r : Nat) (p : List Sel) : Option N.V := (resolveLoc s r p).bind (readLoc s)

def resolveObj (s : N.St) (r : Nat) (p : List Sel) : Option Nat :=
  match resolveV s r p with
  | some (.list _ o) => some o
  | _ => none

def parseOp (s : N.St) (toks : List String) : Option N.Op :=
  match toks with
  | ["setroot", r, x] => do some (.setRoot (← r.toNat?) (← parseNewV x))
  | ["setslot", r, p, sel, x, c] => do
    let r ← r.toNat?
    some (.setSlot r (← resolveObj s r (← parsePath p)) (← parseSel sel) (← parseNewV x) (← kvNat [c] "cap"))
  | ["bapp", r, p, x] => do
    let r ← r.toNat?
    match ← resolveV s r (← parsePath p) with
    | .bytes b => some (.bytesAppend r b (← x.toNat?))
    | _ => none
  | ["remove", r, p, k] => do let r ← r.toNat?; some (.remove r (← resolveObj s r (← parsePath p)) (← k.toNat?))
  | ["removeif", r, p, m] => do
    let r ← r.toNat?
    some (.removeIf r (← resolveObj s r (← parsePath p)) (← (kv [m] "mask").bind parseMask))
  | ["ensurecap", r, p, n] => do let r ← r.toNat?; some (.ensureCap r (← resolveObj s r (← parsePath p)) (← n.toNat?))
  | ["clear", r, p] => do let r ← r.toNat?; some (.clear r (← resolveObj s r (← parsePath p)))
  | ["copyval", rs, ps, rd, pd] => do
    let rs ← rs.toNat?; let rd ← rd.toNat?
    some (.copyVal rs (← resolveLoc s rs (← parsePath ps)) rd (← resolveLoc s rd (← parsePath pd)))
  | ["copylist", rs, ps, rd, pd] => do
    let rs ← rs.toNat?; let rd ← rd.toNat?
    some (.copyList rs (← resolveObj s rs (← parsePath ps)) rd (← resolveObj s rd (← parsePath pd)))
  | ["moveappend", rs, ps, rd, pd, c] => do
    let rs ← rs.toNat?; let rd ← rd.toNat?
    some (.moveAppend rs (← resolveObj s rs (← parsePath ps)) rd (← resolveObj s rd (← parsePath pd)) (← kvNat [c] "cap"))
  | ["moveroot", a, b] => do some (.moveRoot (← a.toNat?) (← b.toNat?))
  | ["markro", r] => do some (.markRO (← r.toNat?))
  | _ => none

/-- macro of the `elem` harnesses: `AppendEmpty` of a slice whose elements are RECORDS (generated message
structs: a pointer-slice element or an inline value-slice element), embedded as a fixed-arity array
container whose slots are the record's fields.  Expands to model steps: push, new record, push + set each field. -/
def appendRec (s : N.St) (r : Nat) (p : List Sel) (cap : Nat) (fields : List NewV) : Option (N.St × Bool) := do
  let o ← resolveObj s r p
  let (s1, p1) := N.step s (.setSlot r o .push .nil cap)
  if p1 then return (s, true)
  let idx := (s1.h.wl o).live.length - 1
  let recId := s1.h.next
  let (s2, _) := N.step s1 (.setSlot r o (.idx idx) (.list false) 0)
  let arity := fields.length
  let (s3, _) := fields.foldl (fun (acc : N.St × Nat) x =>
    let (a, _) := N.step acc.1 (.setSlot r recId .push .nil arity)
    let (b, _) := N.step a (.setSlot r recId (.idx acc.2) x 0)
    (b, acc.2 + 1)) (s2, 0)
  return (s3, false)

def parseMacro (s : N.St) (toks : List String) : Option (N.St × Bool) :=
  match toks with
  | "appendrec" :: r :: p :: rest => do
    let fs ← (((kv rest "fields").getD "").splitOn ";").mapM parseNewV
    appendRec s (← r.toNat?) (← parsePath p) (← kvNat rest "cap") fs
  | _ => none

/-! `fromraw <root> <path|-> <raw>`: `Value.FromRaw(raw)` at an existing position; `raw` in prefix form, comma separated:
`n | c<kind>.<v> | b<hex> | m<n>,k<key>,<raw>,… | a<n>,<raw>,…` (map entries in the order the implementation showed) -/
mutual
def parseRaw : Nat → List String → Option (N.Raw × List String)
  | 0, _ => none
  | _, [] => none
  | fuel + 1, t :: rest =>
    if t = "n" then some (.nil, rest)
    else if t.startsWith "c" then
      match ((t.drop 1).toString.splitOn ".") with
      | [k, v] => do some (.scalar (← k.toNat?) (← v.toNat?), rest)
      | _ => none
    else if t.startsWith "b" then
      let h := (t.drop 1).toString
      if h.isEmpty then some (.bytes [], rest) else (unhexBytes h).map (fun bs => (.bytes bs, rest))
    else if t.startsWith "m" then do
      let n ← (t.drop 1).toString.toNat?
      let (kids, rest') ← parseRawL fuel true n rest
      some (.list true kids, rest')
    else if t.startsWith "a" then do
      let n ← (t.drop 1).toString.toNat?
      let (kids, rest') ← parseRawL fuel false n rest
      some (.list false kids, rest')
    else none
def parseRawL : Nat → Bool → Nat → List String → Option (N.RawL × List String)
  | _, _, 0, rest => some (.nil, rest)
  | 0, _, _ + 1, _ => none
  | fuel + 1, true, n + 1, k :: rest =>
    if k.startsWith "k" then do
      let key ← (k.drop 1).toString.toNat?
      let (r, rest1) ← parseRaw fuel rest
      let (l, rest2) ← parseRawL fuel true n rest1
      some (.cons key r l, rest2)
    else none
  | _ + 1, true, _ + 1, [] => none
  | fuel + 1, false, n + 1, toks => do
    let (r, rest1) ← parseRaw fuel toks
    let (l, rest2) ← parseRawL fuel false n rest1
    some (.cons 0 r l, rest2)
end

def headNew : N.Raw → NewV
  | .nil => .nil
  | .scalar k v => .scalar k v
  | .bytes bs => .bytes bs
  | .list km _ => .list km

/-- `Value.FromRaw(raw)` at position `p` of root `r`, as the code does it: `Set*` / `SetEmpty*` on the value (model `setRoot` / `setSlot` of
the existing slot), then `Map.FromRaw` / `Slice.FromRaw` on the container just made (model `stepR (.fromRawList …)`) -/
def fromRawAt (s : N.St) (r : Nat) (p : List Sel) (raw : N.Raw) : Option (N.St × Bool) := do
  let f := s.h.next
  let op : N.Op ← (match p.getLast? with
    | none => some (.setRoot r (headNew raw))
    | some seg => do
      let o ← resolveObj s r p.dropLast
      let _ ← segIdx (s.h.wl o) seg
      some (.setSlot r o seg (headNew raw) 0))
  let (s1, p1) := N.step s op
  if p1 then return (s, true)
  match raw with
  | .list _ kids => some (N.stepR s1 (.fromRawList r f kids))
  | _ => some (s1, false)

def parseFromRaw (s : N.St) (toks : List String) : Option (N.St × Bool) :=
  match toks with
  | ["fromraw", r, p, raw] => do
    let ts := raw.splitOn ","
    let (rw, rest) ← parseRaw (2 * ts.length + 2) ts
    if !rest.isEmpty then none
    fromRawAt s (← r.toNat?) (← parsePath p) rw
  | ["fromrawlist", r, p, raw] => do
    -- `Map.FromRaw` / `Slice.FromRaw` on the existing container at `p`
    let ts := raw.splitOn ","
    let (rw, rest) ← parseRaw (2 * ts.length + 2) ts
    if !rest.isEmpty then none
    let r ← r.toNat?
    match rw, ← resolveV s r (← parsePath p) with
    | .list km kids, .list km' o => if km == km' then some (N.stepR s (.fromRawList r o kids)) else none
    | _, _ => none
  | _ => none

def normalize (s : N.St) : N.St :=
  let ab := ((List.range s.h.next).map s.h.wb).toArray
  let al := ((List.range s.h.next).map s.h.wl).toArray
  { s with h := { s.h with wb := fun j => ab.getD j [], wl := fun j => al.getD j {} } }

structure DS where
  H : Nat := 0
  m : N.St := St.init
  /-- first generated op that is NOT in the domain of `C07_nest_separation_full` / `C07_nest_frame_full` (`N.WfOpX`, decidable) -/
  outside : Option String := none

def handler : Handler DS where
  init := {}
  onCase := fun s toks => { s with H := (kvNat toks "h").getD 0 }
  onOp := fun s toks =>
    let parsed := parseOp s.m toks
    let res : Option (N.St × Bool) :=
      match parsed with
      | some op => some (N.step s.m op)
      | none => (parseMacro s.m toks) <|> (parseFromRaw s.m toks)
    let outside := s.outside <|> (match parsed with
      | some op => if decide (N.WfOpX s.m (.base op)) then none else some (toks.headD "?")
      | none => none)
    match res with
    | some (m', p) =>
      let m' := normalize m'
      let dump := (List.range s.H).map (fun r => showV m'.dep m'.h (m'.root r))
      ({ s with m := m', outside := outside }, ["obs " ++ (if p then "panic" else "ok") ++ " " ++ " ".intercalate dump])
    | none => (s, ["obs bad-op"])
  onEnd := fun s =>
    match s.outside with
    | some k => [s!"prop nestdomain=FAIL sig=C07/nest/generated-{k}-outside-the-theorem-domain"]
    | none => ["prop nestdomain=ok"]

end NestD

/-! ## model `c07-prim`: primitive slices -/
namespace PrimD

def parseOp (toks : List String) : Option P.Op :=
  match toks with
  | ["append", a, xs, c] => do some (.append (← a.toNat?) (← parseVals xs) (← kvNat [c] "cap"))
  | ["setat", a, i, v] => do some (.setAt (← a.toNat?) (← i.toNat?) (← v.toNat?))
  | ["ensurecap", a, n] => do some (.ensureCap (← a.toNat?) (← n.toNat?))
  | ["fromraw", a, xs, c] => do some (.fromRaw (← a.toNat?) (← parseVals xs) (← kvNat [c] "cap"))
  | ["copy", a, b, c] => do some (.copyTo (← a.toNat?) (← b.toNat?) (← kvNat [c] "cap"))
  | ["move", a, b] => do some (.moveTo (← a.toNat?) (← b.toNat?))
  | ["markro", a] => do some (.markRO (← a.toNat?))
  | _ => none

def opKind : P.Op → String
  | .append .. => "append" | .setAt .. => "setat" | .ensureCap .. => "ensurecap" | .fromRaw .. => "fromraw"
  | .copyTo .. => "copy" | .moveTo .. => "move" | .markRO .. => "markro"

structure DS where
  H : Nat := 0
  m : P.St := P.St.init
  impl : P.PSt := P.PSt.init
  pending : Option P.Op := none
  step : Nat := 0
  fail : Option String := none

def handler : Handler DS where
  init := {}
  onCase := fun s toks => { s with H := (kvNat toks "h").getD 0 }
  onOp := fun s toks =>
    match parseOp toks with
    | some op =>
      let (m', p) := P.step s.m op
      let hs := (List.range s.H).map (fun a => s!"{showVals (m'.hd a).live}/{(m'.hd a).cap}")
      ({ s with m := m', pending := some op, step := s.step + 1 },
        ["obs " ++ (if p then "panic" else "ok") ++ " " ++ " ".intercalate hs])
    | none => ({ s with pending := none }, ["obs bad-op"])
  onObs := fun s toks =>
    match s.pending, parseObs toks with
    | some op, some (p, l) =>
      let after : Nat → List Nat := fun a => l.getD a []
      let ok := P.obsStep s.H s.impl op after p
      let r := P.pstep s.impl op
      let fail := match s.fail with
        | some f => some f
        | none => if ok then none else
            let what := if r.2 != p then (if p then "unexpected-panic" else "missing-panic")
              else if (List.range s.H).any (fun a => !(P.targets op).contains a && after a != s.impl.val a) then "changed-unrelated-value"
              else "result-differs"
            some s!"sig=C07/primslice/{opKind op}-{what} step={s.step} expected={(List.range s.H).map (fun a => showVals (r.1.val a))} got={l.map showVals}"
      { s with impl := { val := after, ro := r.1.ro }, pending := none, fail := fail }
    | _, none => { s with fail := s.fail <|> some "sig=C07/primslice/unparsable-observation" }
    | none, _ => s
  onEnd := fun s =>
    match s.fail with
    | some f => [s!"prop primvaluesem=FAIL {f}"]
    | none => ["prop primvaluesem=ok"]

end PrimD


/-! model `c07-state`: the read-only sweep against the state-propagation model (`Model/C07State.lean`) interpreted over the
regenerated method table (`Gen/PdataState.lean`).  `op call root=<pkg.T> path=<A/B/…|-> type=<pkg.T> meth=<M> role=<recv|dest|src> kind=<mut|read>`:
the harness marked a payload of type `root` read-only, followed the accessors `path`, reached a value of type `type` and called `meth`
with that value as receiver (`recv`, `src` = source of a CopyTo into a mutable destination) or as destination (`dest`). -/
namespace StateD
open OtelVerif.Gen.PdataState OtelVerif.C07.S

def shortName (ty : Nat) : String := ((types.getD ty "?.?").splitOn ".").getD 1 "?"

def findMeth (ty : Nat) (name : String) : Option Meth :=
  let full := shortName ty ++ "." ++ name
  meths.find? (fun m => m.typ == ty && m.name == full)

/-- the steps of the access path, each taking the first child wrapper the accessor constructs -/
def stepsOf : Nat → List String → Option (List Step)
  | _, [] => some []
  | t, n :: ns => do
    let m ← findMeth t n
    let c ← m.children.head?
    let rest ← stepsOf c.typ ns
    some (⟨m, c, 1⟩ :: rest)

structure DS where
  pending : Option (Bool × Bool × String) := none     -- predicted panic, kind = mutator, label
  fail : Option String := none
  n : Nat := 0

def predict (root : String) (path : List String) (ty meth role : String) : Option Bool := do
  let rt := types.idxOf root
  if rt ≥ types.length then none
  let steps ← stepsOf rt path
  let cs0 : Cells := { ro := fun _ => false, next := 2 }
  let rootW : W := ⟨rt, 0⟩
  let cs := markRO cs0 rootW
  let w := follow cs rootW steps
  if types.getD w.ty "" != ty then none
  let m ← findMeth w.ty meth
  let out ← (if role == "recv" || role == "src" then some (callD meths cs m w.cell 1)
             else if role == "dest" then some (callD meths cs m 1 w.cell) else none)
  some (match out with | .panicked _ => true | .ran => false)

def handler : Handler DS where
  init := {}
  onOp := fun s toks =>
    match toks with
    | "call" :: rest =>
      match kv rest "root", kv rest "path", kv rest "type", kv rest "meth", kv rest "role", kv rest "kind" with
      | some root, some path, some ty, some meth, some role, some kind =>
        let p := if path == "-" then [] else path.splitOn "/"
        match predict root p ty meth role with
        | some b => ({ s with pending := some (b, kind == "mut", s!"{ty}.{meth}-as-{role}"), n := s.n + 1 }, [s!"obs panicked={if b then 1 else 0}"])
        | none => ({ s with pending := none }, ["obs bad-op"])
      | _, _, _, _, _, _ => ({ s with pending := none }, ["obs bad-op"])
    | _ => ({ s with pending := none }, ["obs bad-op"])
  onObs := fun s toks =>
    match s.pending, kvNat toks "panicked" with
    | some (_, isMut, label), some p =>
      -- the property itself, independent of the table: a mutator on a value reachable from a read-only payload panics, a reader runs
      let bad := if isMut then p == 0 else p == 1
      let fail := s.fail <|> (if bad then some s!"sig=C07/state/{label}-{if isMut then "missing-panic-on-read-only" else "reader-panicked"} call={s.n}" else none)
      { s with pending := none, fail := fail }
    | _, none => { s with fail := s.fail <|> some "sig=C07/state/unparsable-observation" }
    | none, _ => s
  onEnd := fun s =>
    match s.fail with
    | some f => [s!"prop rostate=FAIL {f}"]
    | none => ["prop rostate=ok"]

end StateD

end OtelVerif.Drivers.C07

def main : IO UInt32 :=
  runMulti [("c07-ptrslice", run OtelVerif.Drivers.C07.handler), ("c07-map", run OtelVerif.Drivers.C07.MapD.handler),
    ("c07-nest", run OtelVerif.Drivers.C07.NestD.handler),
    ("c07-prim", run OtelVerif.Drivers.C07.PrimD.handler), ("c07-state", run OtelVerif.Drivers.C07.StateD.handler)]
