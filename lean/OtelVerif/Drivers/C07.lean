import OtelVerif.Common.Line
import OtelVerif.Model.C07
/-! driver for C07 (stub) -/
def main : IO UInt32 := do
  IO.eprintln "drv_c07: not built yet"
  return 2
