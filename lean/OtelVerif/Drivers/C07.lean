import OtelVerif.Common.Line
import OtelVerif.Model.C07
import OtelVerif.Model.C07Map
import OtelVerif.Model.C07Nest
import OtelVerif.Model.C07Prim
/-! driver for C07: model `c07-ptrslice` (heap model of generated pointer slices) -/
open OtelVerif OtelVerif.Line OtelVerif.C07

namespace OtelVerif.Drivers.C07

def parseVals (s : String) : Option (List Nat) :=
  if s = "-" then some [] else
  -- a nil element (only a defect exposes one) reads as 2^64, which no uint64 field can hold
  (s.splitOn ",").mapM (fun t => if t = "nil" then some 18446744073709551616 else t.toNat?)

def showVals (l : List Nat) : String :=
  if l.isEmpty then "-" else ",".intercalate (l.map toString)

def parseMask (s : String) : Option (List Bool) :=
  if s = "-" then some [] else
  s.toList.mapM (fun c => if c = '1' then some true else if c = '0' then some false else none)

def parseOp (toks : List String) : Option Op :=
  match toks with
  | ["append", a, c] => do some (.append (← a.toNat?) (← kvNat [c] "cap"))
  | ["set", a, i, v] => do some (.set (← a.toNat?) (← i.toNat?) (← v.toNat?))
  | ["removeif", a, m] => do some (.removeIf (← a.toNat?) (← (kv [m] "mask").bind parseMask))
  | ["ensurecap", a, n] => do some (.ensureCap (← a.toNat?) (← n.toNat?))
  | ["sort", a] => do some (.sort (← a.toNat?))
  | ["copy", a, b] => do some (.copyTo (← a.toNat?) (← b.toNat?))
  | ["moveappend", a, b, c] => do some (.moveAndAppendTo (← a.toNat?) (← b.toNat?) (← kvNat [c] "cap"))
  | ["markro", a] => do some (.markRO (← a.toNat?))
  | _ => none

def opKind : Op → String
  | .append .. => "append" | .set .. => "set" | .removeIf .. => "removeif" | .ensureCap .. => "ensurecap"
  | .sort .. => "sort" | .copyTo .. => "copy" | .moveAndAppendTo .. => "moveappend" | .markRO .. => "markro"

def showModel (H : Nat) (s : St) (panicked : Bool) : String :=
  let hs := (List.range H).map (fun a => s!"{showVals ((abs s).val a)}/{(s.hd a).cap}")
  "obs " ++ (if panicked then "panic" else "ok") ++ " " ++ " ".intercalate hs

/-- parse the implementation's `obs ok|panic v/c v/c …` -/
def parseObs (toks : List String) : Option (Bool × List (List Nat)) :=
  match toks with
  | _ :: r :: hs =>
    let p := if r = "panic" then some true else if r = "ok" then some false else none
    p.bind fun p => (hs.mapM (fun h => parseVals ((h.splitOn "/").headD ""))).map (fun l => (p, l))
  | _ => none

/-- The heap is a function in the model; compiled, a chain of `upd`/`assign` closures is re-run on every
lookup.  After each step the driver re-tabulates it (extensionally the same function: ids `≥ next`
are never written and read 0). -/
def normalize (s : St) : St :=
  let arr := ((List.range s.next).map s.objs).toArray
  { s with objs := fun j => arr.getD j 0 }

structure DS where
  H : Nat := 0
  m : St := St.init
  impl : PSt := PSt.init          -- what the implementation showed last (ro flags: by the ops)
  pending : Option Op := none
  step : Nat := 0
  fail : Option String := none

def classify (H : Nat) (before : PSt) (op : Op) (after : Nat → List Nat) (panicked : Bool) : String :=
  let r := pstep before op
  let k := opKind op
  if r.2 != panicked then
    (if panicked then s!"C07/ptrslice/{k}-unexpected-panic" else s!"C07/ptrslice/{k}-missing-panic")
  else if (List.range H).any (fun a => !(targets op).contains a && after a != before.val a) then
    s!"C07/ptrslice/{k}-changed-unrelated-value"
  else if panicked then s!"C07/ptrslice/{k}-panic-changed-state"
  else s!"C07/ptrslice/{k}-result-differs"

def handler : Handler DS where
  init := {}
  onCase := fun s toks => { s with H := (kvNat toks "h").getD 0 }
  onOp := fun s toks =>
    match parseOp toks with
    | some op =>
      let (m', p) := C07.step s.m op
      let m' := normalize m'
      ({ s with m := m', pending := some op, step := s.step + 1 }, [showModel s.H m' p])
    | none => ({ s with pending := none }, ["obs bad-op"])
  onObs := fun s toks =>
    match s.pending, parseObs toks with
    | some op, some (p, l) =>
      let after : Nat → List Nat := fun a => l.getD a []
      let ok := obsStep s.H s.impl op after p
      let fail := match s.fail with
        | some f => some f
        | none => if ok then none else
            some s!"sig={classify s.H s.impl op after p} step={s.step} op={opKind op} expected={(List.range s.H).map (fun a => showVals ((pstep s.impl op).1.val a))} got={l.map showVals}"
      { s with impl := { val := after, ro := (pstep s.impl op).1.ro }, pending := none, fail := fail }
    | _, none => { s with fail := s.fail <|> some "sig=C07/ptrslice/unparsable-observation" }
    | none, _ => s
  onEnd := fun s =>
    match s.fail with
    | some f => [s!"prop valuesem=FAIL {f}"]
    | none => ["prop valuesem=ok"]

/-! ## model `c07-map`: heap model of `pcommon.Map` -/
namespace MapD
open OtelVerif.C07.M

def showAV : AV → String
  | .nil => "n"
  | .scalar k v => s!"c{k}.{v}"
  | .bytes bs => "b" ++ (if bs.isEmpty then "" else hexBytes bs)

def showEntries (l : List Entry) : String :=
  if l.isEmpty then "-" else ",".intercalate (l.map (fun e => s!"{e.1}:{showAV e.2}"))

def parseAV (t : String) : Option AV :=
  if t = "n" then some .nil
  else if t.startsWith "c" then
    match ((t.drop 1).toString.splitOn ".") with
    | [k, v] => do some (.scalar (← k.toNat?) (← v.toNat?))
    | _ => none
  else if t.startsWith "b" then
    let h := (t.drop 1).toString
    if h.isEmpty then some (.bytes []) else (unhexBytes h).map .bytes
  else none

def parseEntries (t : String) : Option (List Entry) :=
  if t = "-" then some [] else
  (t.splitOn ",").mapM (fun e =>
    match e.splitOn ":" with
    | [k, v] => do some ((← k.toNat?), (← parseAV v))
    | _ => none)

def parseOp (toks : List String) : Option M.Op :=
  match toks with
  | ["put", a, k, kind, v, c] => do some (.putScalar (← a.toNat?) (← k.toNat?) (← kind.toNat?) (← v.toNat?) (← kvNat [c] "cap"))
  | ["putempty", a, k, c] => do some (.putEmpty (← a.toNat?) (← k.toNat?) (← kvNat [c] "cap"))
  | ["putb", a, k, h, c] => do some (.putBytes (← a.toNat?) (← k.toNat?) (← unhexBytes h) (← kvNat [c] "cap"))
  | ["bapp", a, k, x] => do some (.bytesAppend (← a.toNat?) (← k.toNat?) (← x.toNat?))
  | ["remove", a, k] => do some (.remove (← a.toNat?) (← k.toNat?))
  | ["removeif", a, m] => do some (.removeIf (← a.toNat?) (← (kv [m] "mask").bind parseMask))
  | ["ensurecap", a, n] => do some (.ensureCap (← a.toNat?) (← n.toNat?))
  | ["clear", a] => do some (.clear (← a.toNat?))
  | ["copy", a, b] => do some (.copyTo (← a.toNat?) (← b.toNat?))
  | ["move", a, b] => do some (.moveTo (← a.toNat?) (← b.toNat?))
  | ["markro", a] => do some (.markRO (← a.toNat?))
  | _ => none

def opKind : M.Op → String
  | .putScalar .. => "put" | .putEmpty .. => "putempty" | .putBytes .. => "putbytes" | .bytesAppend .. => "bytesappend"
  | .remove .. => "remove" | .removeIf .. => "removeif" | .ensureCap .. => "ensurecap" | .clear .. => "clear"
  | .copyTo .. => "copy" | .moveTo .. => "move" | .markRO .. => "markro"

def normalize (s : M.St) : M.St :=
  let arr := ((List.range s.next).map s.w).toArray
  { s with w := fun j => arr.getD j [] }

def showModel (H : Nat) (s : M.St) (panicked : Bool) : String :=
  let hs := (List.range H).map (fun a => s!"{showEntries ((M.abs s).val a)}/{(s.hd a).cap}")
  "obs " ++ (if panicked then "panic" else "ok") ++ " " ++ " ".intercalate hs

def parseObs (toks : List String) : Option (Bool × List (List Entry)) :=
  match toks with
  | _ :: r :: hs =>
    let p := if r = "panic" then some true else if r = "ok" then some false else none
    p.bind fun p => (hs.mapM (fun h => parseEntries ((h.splitOn "/").headD ""))).map (fun l => (p, l))
  | _ => none

structure DS where
  H : Nat := 0
  m : M.St := M.St.init
  impl : M.PSt := M.PSt.init
  pending : Option M.Op := none
  step : Nat := 0
  fail : Option String := none

def classify (H : Nat) (before : M.PSt) (op : M.Op) (after : Nat → List Entry) (panicked : Bool) : String :=
  let r := M.pstep before op
  let k := opKind op
  if r.2 != panicked then
    (if panicked then s!"C07/map/{k}-unexpected-panic" else s!"C07/map/{k}-missing-panic")
  else if (List.range H).any (fun a => !(M.targets op).contains a && after a != before.val a) then
    s!"C07/map/{k}-changed-unrelated-value"
  else if panicked then s!"C07/map/{k}-panic-changed-state"
  else s!"C07/map/{k}-result-differs"

def handler : Handler DS where
  init := {}
  onCase := fun s toks => { s with H := (kvNat toks "h").getD 0 }
  onOp := fun s toks =>
    match parseOp toks with
    | some op =>
      let (m', p) := M.step s.m op
      let m' := normalize m'
      ({ s with m := m', pending := some op, step := s.step + 1 }, [showModel s.H m' p])
    | none => ({ s with pending := none }, ["obs bad-op"])
  onObs := fun s toks =>
    match s.pending, parseObs toks with
    | some op, some (p, l) =>
      let after : Nat → List Entry := fun a => l.getD a []
      let ok := M.obsStep s.H s.impl op after p
      let fail := match s.fail with
        | some f => some f
        | none => if ok then none else
            some s!"sig={classify s.H s.impl op after p} step={s.step} op={opKind op} expected={(List.range s.H).map (fun a => showEntries ((M.pstep s.impl op).1.val a))} got={l.map showEntries}"
      { s with impl := { val := after, ro := (M.pstep s.impl op).1.ro }, pending := none, fail := fail }
    | _, none => { s with fail := s.fail <|> some "sig=C07/map/unparsable-observation" }
    | none, _ => s
  onEnd := fun s =>
    match s.fail with
    | some f => [s!"prop mapvaluesem=FAIL {f}"]
    | none => ["prop mapvaluesem=ok"]

end MapD

/-! ## model `c07-nest`: nested `pcommon.Value` / `Map` / `Slice` (exact differential only) -/
namespace NestD
open OtelVerif.C07.N

/-- dump with capacities: `n`, `c<kind>.<v>`, `b<hex>`, `{cap|k=v,…}`, `[cap|v,…]` -/
def showV : Nat → N.Heap → N.V → String
  | _, _, .nil => "n"
  | _, _, .scalar k v => s!"c{k}.{v}"
  | _, h, .bytes i => "b" ++ (if (h.wb i).isEmpty then "" else hexBytes (h.wb i))
  | d + 1, h, .list km i =>
    let hd := h.wl i
    let items := hd.live.map (fun kv => if km then s!"{kv.key}={showV d h kv.val}" else showV d h kv.val)
    (if km then "{" else "[") ++ s!"{hd.cap}|" ++ ",".intercalate items ++ (if km then "}" else "]")
  | 0, _, .list _ _ => "CUT"

def parseNewV (t : String) : Option NewV :=
  if t = "n" then some .nil
  else if t = "m" then some (.list true)
  else if t = "a" then some (.list false)
  else if t.startsWith "c" then
    match ((t.drop 1).toString.splitOn ".") with
    | [k, v] => do some (.scalar (← k.toNat?) (← v.toNat?))
    | _ => none
  else if t.startsWith "b" then
    let h := (t.drop 1).toString
    if h.isEmpty then some (.bytes []) else (unhexBytes h).map .bytes
  else none

def parseSel (t : String) : Option Sel :=
  if t = "push" then some .push
  else if t.startsWith "k" then ((t.drop 1).toString.toNat?).map .key
  else if t.startsWith "i" then ((t.drop 1).toString.toNat?).map .idx
  else none

def parsePath (t : String) : Option (List Sel) :=
  if t = "-" then some [] else (t.splitOn "/").mapM parseSel

/-- slot index of a path segment in a container -/
def segIdx (hd : N.Hdr) : Sel → Option Nat
  | .key k => N.find hd.live k
  | .idx i => if i < hd.live.length then some i else none
  | .push => none

/-- the `Value` position a path names -/
def resolveLoc (s : N.St) (r : Nat) : List Sel → Option N.Loc
  | [] => some (.root r)
  | p =>
    let rec go (v : N.V) : List Sel → Option N.Loc
      | [] => none
      | [seg] => match v with
        | .list _ o => (segIdx (s.h.wl o) seg).map (fun i => N.Loc.slot o i)
        | _ => none
      | seg :: rest => match v with
        | .list _ o => (segIdx (s.h.wl o) seg).bind fun i => ((s.h.wl o).live[i]?).bind fun kv => go kv.val rest
        | _ => none
    go (s.root r) p

def resolveV (s : N.St) (r : Nat) (p : List Sel) : Option N.V := (resolveLoc s r p).bind (readLoc s)

def resolveObj (s : N.St) (r : Nat) (p : List Sel) : Option Nat :=
  match resolveV s r p with
  | some (.list _ o) => some o
  | _ => none

def parseOp (s : N.St) (toks : List String) : Option N.Op :=
  match toks with
  | ["setroot", r, x] => do some (.setRoot (← r.toNat?) (← parseNewV x))
  | ["setslot", r, p, sel, x, c] => do
    let r ← r.toNat?
    some (.setSlot r (← resolveObj s r (← parsePath p)) (← parseSel sel) (← parseNewV x) (← kvNat [c] "cap"))
  | ["bapp", r, p, x] => do
    let r ← r.toNat?
    match ← resolveV s r (← parsePath p) with
    | .bytes b => some (.bytesAppend r b (← x.toNat?))
    | _ => none
  | ["remove", r, p, k] => do let r ← r.toNat?; some (.remove r (← resolveObj s r (← parsePath p)) (← k.toNat?))
  | ["removeif", r, p, m] => do
    let r ← r.toNat?
    some (.removeIf r (← resolveObj s r (← parsePath p)) (← (kv [m] "mask").bind parseMask))
  | ["ensurecap", r, p, n] => do let r ← r.toNat?; some (.ensureCap r (← resolveObj s r (← parsePath p)) (← n.toNat?))
  | ["clear", r, p] => do let r ← r.toNat?; some (.clear r (← resolveObj s r (← parsePath p)))
  | ["copyval", rs, ps, rd, pd] => do
    let rs ← rs.toNat?; let rd ← rd.toNat?
    some (.copyVal rs (← resolveLoc s rs (← parsePath ps)) rd (← resolveLoc s rd (← parsePath pd)))
  | ["copylist", rs, ps, rd, pd] => do
    let rs ← rs.toNat?; let rd ← rd.toNat?
    some (.copyList rs (← resolveObj s rs (← parsePath ps)) rd (← resolveObj s rd (← parsePath pd)))
  | ["moveappend", rs, ps, rd, pd, c] => do
    let rs ← rs.toNat?; let rd ← rd.toNat?
    some (.moveAppend rs (← resolveObj s rs (← parsePath ps)) rd (← resolveObj s rd (← parsePath pd)) (← kvNat [c] "cap"))
  | ["moveroot", a, b] => do some (.moveRoot (← a.toNat?) (← b.toNat?))
  | ["markro", r] => do some (.markRO (← r.toNat?))
  | _ => none

/-- macro of the `elem` harnesses: `AppendEmpty` of a slice whose elements are RECORDS (generated message
structs: a pointer-slice element or an inline value-slice element), embedded as a fixed-arity array
container whose slots are the record's fields.  Expands to model steps: push, new record, push + set each field. -/
def appendRec (s : N.St) (r : Nat) (p : List Sel) (cap : Nat) (fields : List NewV) : Option (N.St × Bool) := do
  let o ← resolveObj s r p
  let (s1, p1) := N.step s (.setSlot r o .push .nil cap)
  if p1 then return (s, true)
  let idx := (s1.h.wl o).live.length - 1
  let recId := s1.h.next
  let (s2, _) := N.step s1 (.setSlot r o (.idx idx) (.list false) 0)
  let arity := fields.length
  let (s3, _) := fields.foldl (fun (acc : N.St × Nat) x =>
    let (a, _) := N.step acc.1 (.setSlot r recId .push .nil arity)
    let (b, _) := N.step a (.setSlot r recId (.idx acc.2) x 0)
    (b, acc.2 + 1)) (s2, 0)
  return (s3, false)

def parseMacro (s : N.St) (toks : List String) : Option (N.St × Bool) :=
  match toks with
  | "appendrec" :: r :: p :: rest => do
    let fs ← (((kv rest "fields").getD "").splitOn ";").mapM parseNewV
    appendRec s (← r.toNat?) (← parsePath p) (← kvNat rest "cap") fs
  | _ => none

def normalize (s : N.St) : N.St :=
  let ab := ((List.range s.h.next).map s.h.wb).toArray
  let al := ((List.range s.h.next).map s.h.wl).toArray
  { s with h := { s.h with wb := fun j => ab.getD j [], wl := fun j => al.getD j {} } }

structure DS where
  H : Nat := 0
  m : N.St := St.init

def handler : Handler DS where
  init := {}
  onCase := fun s toks => { s with H := (kvNat toks "h").getD 0 }
  onOp := fun s toks =>
    let res : Option (N.St × Bool) :=
      match parseOp s.m toks with
      | some op => some (N.step s.m op)
      | none => parseMacro s.m toks
    match res with
    | some (m', p) =>
      let m' := normalize m'
      let dump := (List.range s.H).map (fun r => showV m'.dep m'.h (m'.root r))
      ({ s with m := m' }, ["obs " ++ (if p then "panic" else "ok") ++ " " ++ " ".intercalate dump])
    | none => (s, ["obs bad-op"])

end NestD

/-! ## model `c07-prim`: primitive slices -/
namespace PrimD

def parseOp (toks : List String) : Option P.Op :=
  match toks with
  | ["append", a, xs, c] => do some (.append (← a.toNat?) (← parseVals xs) (← kvNat [c] "cap"))
  | ["setat", a, i, v] => do some (.setAt (← a.toNat?) (← i.toNat?) (← v.toNat?))
  | ["ensurecap", a, n] => do some (.ensureCap (← a.toNat?) (← n.toNat?))
  | ["fromraw", a, xs, c] => do some (.fromRaw (← a.toNat?) (← parseVals xs) (← kvNat [c] "cap"))
  | ["copy", a, b, c] => do some (.copyTo (← a.toNat?) (← b.toNat?) (← kvNat [c] "cap"))
  | ["move", a, b] => do some (.moveTo (← a.toNat?) (← b.toNat?))
  | ["markro", a] => do some (.markRO (← a.toNat?))
  | _ => none

def opKind : P.Op → String
  | .append .. => "append" | .setAt .. => "setat" | .ensureCap .. => "ensurecap" | .fromRaw .. => "fromraw"
  | .copyTo .. => "copy" | .moveTo .. => "move" | .markRO .. => "markro"

structure DS where
  H : Nat := 0
  m : P.St := P.St.init
  impl : P.PSt := P.PSt.init
  pending : Option P.Op := none
  step : Nat := 0
  fail : Option String := none

def handler : Handler DS where
  init := {}
  onCase := fun s toks => { s with H := (kvNat toks "h").getD 0 }
  onOp := fun s toks =>
    match parseOp toks with
    | some op =>
      let (m', p) := P.step s.m op
      let hs := (List.range s.H).map (fun a => s!"{showVals (m'.hd a).live}/{(m'.hd a).cap}")
      ({ s with m := m', pending := some op, step := s.step + 1 },
        ["obs " ++ (if p then "panic" else "ok") ++ " " ++ " ".intercalate hs])
    | none => ({ s with pending := none }, ["obs bad-op"])
  onObs := fun s toks =>
    match s.pending, parseObs toks with
    | some op, some (p, l) =>
      let after : Nat → List Nat := fun a => l.getD a []
      let ok := P.obsStep s.H s.impl op after p
      let r := P.pstep s.impl op
      let fail := match s.fail with
        | some f => some f
        | none => if ok then none else
            let what := if r.2 != p then (if p then "unexpected-panic" else "missing-panic")
              else if (List.range s.H).any (fun a => !(P.targets op).contains a && after a != s.impl.val a) then "changed-unrelated-value"
              else "result-differs"
            some s!"sig=C07/primslice/{opKind op}-{what} step={s.step} expected={(List.range s.H).map (fun a => showVals (r.1.val a))} got={l.map showVals}"
      { s with impl := { val := after, ro := r.1.ro }, pending := none, fail := fail }
    | _, none => { s with fail := s.fail <|> some "sig=C07/primslice/unparsable-observation" }
    | none, _ => s
  onEnd := fun s =>
    match s.fail with
    | some f => [s!"prop primvaluesem=FAIL {f}"]
    | none => ["prop primvaluesem=ok"]

end PrimD

end OtelVerif.Drivers.C07

def main : IO UInt32 :=
  runMulti [("c07-ptrslice", run OtelVerif.Drivers.C07.handler), ("c07-map", run OtelVerif.Drivers.C07.MapD.handler),
    ("c07-nest", run OtelVerif.Drivers.C07.NestD.handler),
    ("c07-prim", run OtelVerif.Drivers.C07.PrimD.handler)]
