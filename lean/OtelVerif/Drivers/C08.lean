import OtelVerif.Common.Line
import OtelVerif.Model.C08
/-! driver for C08 (stub) -/
def main : IO UInt32 := do
  IO.eprintln "drv_c08: not built yet"
  return 2
