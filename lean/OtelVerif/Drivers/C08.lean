import OtelVerif.Common.Line
import OtelVerif.Model.C08Txt
import OtelVerif.Gen.OtlpSchema
/-! driver for C08: model `c08-codec` (line protocol of `harness/c08`) -/
open OtelVerif OtelVerif.Line OtelVerif.Proto OtelVerif.Wire OtelVerif.C08

namespace OtelVerif.Drivers.C08

def S : Schema := Gen.OtlpSchema.schema
def D : List Val := defaults S

/-! ## text formats -/

def isHexC (c : Char) : Bool := (hexVal c).isSome

partial def parseVal : List Char → Option (Val × List Char)
  | 'n' :: cs =>
    let ds := cs.takeWhile Char.isDigit
    (String.ofList ds).toNat?.map (fun n => (.num n, cs.drop ds.length))
  | 'b' :: cs =>
    let hs := cs.takeWhile isHexC
    (if hs.isEmpty then some [] else unhexBytes (String.ofList hs)).map (fun b => (.bytes b, cs.drop hs.length))
  | '[' :: ']' :: cs => some (.nil, cs)
  | '[' :: cs => elems cs
  | _ => none
where
  elems (cs : List Char) : Option (Val × List Char) :=
    match parseVal cs with
    | some (v, ',' :: r) => (elems r).map (fun (tl, r') => (.cons v tl, r'))
    | some (v, ']' :: r) => some (.cons v .nil, r)
    | _ => none

def readVal (s : String) : Option Val :=
  match parseVal s.toList with
  | some (v, []) => some v
  | _ => none

def hexOf (bs : List Nat) : String := String.ofList (bs.flatMap (fun b => [hexDigit (b / 16 % 16), hexDigit (b % 16)]))

partial def showVal : Val → String
  | .num n => s!"n{n}"
  | .bytes b => "b" ++ hexOf b
  | .nil => "[]"
  | v@(.cons _ _) => "[" ++ ",".intercalate (go v) ++ "]"
where
  go : Val → List String
    | .cons h t => showVal h :: go t
    | _ => []

partial def parseJ : List Char → Option (Json × List Char)
  | 'S' :: cs =>
    let hs := cs.takeWhile isHexC
    match cs.drop hs.length with
    | ';' :: r => (if hs.isEmpty then some [] else unhexBytes (String.ofList hs)).map (fun b => (.str b, r))
    | _ => none
  | 'N' :: cs =>
    let ts := cs.takeWhile (· ≠ ';')
    match cs.drop ts.length with
    | ';' :: r => some (.num (ts.map Char.toNat), r)
    | _ => none
  | 'T' :: r => some (.tt, r)
  | 'F' :: r => some (.ff, r)
  | 'Z' :: r => some (.null, r)
  | '[' :: cs => arr cs
  | '{' :: cs => obj cs
  | _ => none
where
  arr (cs : List Char) : Option (Json × List Char) :=
    match cs with
    | ']' :: r => some (.anil, r)
    | _ => match parseJ cs with
      | some (j, r) => (arr r).map (fun (tl, r') => (.acons j tl, r'))
      | none => none
  obj (cs : List Char) : Option (Json × List Char) :=
    match cs with
    | '}' :: r => some (.onil, r)
    | _ =>
      let hs := cs.takeWhile isHexC
      match cs.drop hs.length with
      | ':' :: r =>
        match (if hs.isEmpty then some [] else unhexBytes (String.ofList hs)), parseJ r with
        | some k, some (j, r') => (obj r').map (fun (tl, r'') => (.ocons k j tl, r''))
        | _, _ => none
      | _ => none

def readJ (s : String) : Option Json :=
  match parseJ s.toList with
  | some (j, []) => some j
  | _ => none

def lexLe : List Nat → List Nat → Bool
  | [], _ => true
  | _ :: _, [] => false
  | a :: as, b :: bs => if a < b then true else if a > b then false else lexLe as bs

/-- canonical print; members of every object sorted by key (stable) -/
partial def showJ : Json → String
  | .null => "Z" | .tt => "T" | .ff => "F"
  | .num t => "N" ++ String.ofList (t.map Char.ofNat) ++ ";"
  | .str b => "S" ++ hexOf b ++ ";"
  | .anil => "[]"
  | j@(.acons _ _) => "[" ++ String.join (elems j) ++ "]"
  | .onil => "{}"
  | j@(.ocons _ _ _) =>
    let ms := (members j).mergeSort (fun a b => lexLe a.1 b.1)
    "{" ++ String.join (ms.map (fun (k, v) => hexOf k ++ ":" ++ showJ v)) ++ "}"
where
  elems : Json → List String
    | .acons h t => showJ h :: elems t
    | _ => []
  members : Json → List (List Nat × Json)
    | .ocons k v t => (k, v) :: members t
    | _ => []

/-! ## text codecs: the proved concrete ones of `Model/C08Txt.lean`; float text from the per-case tables -/

def mkTxt (ft : List (Nat × List Nat)) (pf : List (List Nat × Nat)) : Txt :=
  mkTxtF (fun n => (ft.lookup n).getD [63]) (fun t => pf.lookup t)

def splitOnC (s : String) (c : Char) : List String := s.splitOn (String.singleton c)

def parseFt (s : String) : Option (List (Nat × List Nat)) :=
  if s = "-" ∨ s = "" then some [] else
  (splitOnC s ',').mapM (fun e =>
    match splitOnC e ':' with
    | [b, h] => match b.toNat?, (if h = "" then some [] else unhexBytes h) with
      | some n, some t => some (n, t)
      | _, _ => none
    | _ => none)

def parsePf (s : String) : Option (List (List Nat × Nat)) :=
  if s = "-" ∨ s = "" then some [] else
  (splitOnC s ',').mapM (fun e =>
    match splitOnC e ':' with
    | [h, b] => match (if h = "" then some [] else unhexBytes h), b.toNat? with
      | some t, some n => some (t, n)
      | _, _ => none
    | _ => none)

/-! ## handler -/

def rootIdx (name : String) : Option Nat :=
  match S.roots.lookup name with
  | some i => some i
  | none => S.msgs.findIdx? (fun m => m.name == name)

def hasSizer (root : String) : Bool := root == "logs" || root == "metrics" || root == "traces" || root == "profiles"

structure St where
  kind : String := ""
  root : String := ""
  /-- value of the last `enc` op and the bytes the IMPLEMENTATION produced for it -/
  lastVal : Option Val := none
  implPb : Option (List Nat) := none
  pendingDec : Option (List Nat) := none
  pendingJ : Bool := false
  fails : List String := []

def onOp (s : St) (toks : List String) : St × List String :=
  match toks with
  | ["enc", root, v] =>
    match rootIdx root, readVal v with
    | some m, some v =>
      let b := encode S m v
      let sz := if hasSizer root then toString (size S m v) else "-"
      -- non-vacuity / tie of the API predicate: every canonical payload the harness builds in a `value` case satisfies `ApiBuilt`
      -- (and therefore, by `C08_api_jcov`, `jcov`)
      let md := Mode.slots (S.slots m)
      let fails := if s.kind == "value" && conf S false md v && !(apiVal S md v && jcov S m md v) then
          s.fails ++ ["prop apibuilt=FAIL sig=C08/api/harness-value-not-apibuilt"] else s.fails
      ({ s with lastVal := some v, implPb := none, pendingDec := none, fails := fails }, [s!"obs pb {hexBytes b} {sz}"])
    | _, _ => (s, ["obs bad-op"])
  | ["size", name, v] =>
    match rootIdx name, readVal v with
    | some m, some v => ({ s with pendingDec := none }, [s!"obs sz {size S m v}"])
    | _, _ => (s, ["obs bad-op"])
  | ["dec", root, h] =>
    match rootIdx root, unhexBytes h with
    | some m, some bs =>
      let r := (decodeRoot S D root m bs).map (fun v => canon S (.slots (S.slots m)) v)
      ({ s with pendingDec := some bs }, [match r with | some v => s!"obs ok {showVal v}" | none => "obs err"])
    | _, _ => (s, ["obs bad-op"])
  | ["jenc", root, v, ft] =>
    match rootIdx root, readVal v, parseFt ((ft.splitOn "=").getD 1 "") with
    | some m, some v, some ft =>
      ({ s with pendingDec := none }, [s!"obs js {showJ (toJson S (mkTxt ft []) m v)}"])
    | _, _, _ => (s, ["obs bad-op"])
  | ["jdec", root, j, pf] =>
    match rootIdx root, readJ j, parsePf ((pf.splitOn "=").getD 1 "") with
    | some m, some j, some pf =>
      let r := (fromJsonRoot S (mkTxt [] pf) D root m j).map (fun v => canon S (.slots (S.slots m)) v)
      ({ s with pendingDec := none, pendingJ := true }, [match r with | some v => s!"obs ok {showVal v}" | none => "obs err"])
    | _, _, _ => (s, ["obs bad-op"])
  | "fuzz" :: _ => ({ s with pendingDec := none }, ["obs done"])
  | _ => (s, ["obs bad-op"])

/-- search oracle on the IMPLEMENTATION's observations (no model involved):
 * `size`: the reported size equals the length of the bytes the marshaler produced;
 * `pbrt`: when the bytes just produced by the marshaler for value `v` are decoded, the result is `v`. -/
def onObs (s0 : St) (toks : List String) : St :=
  let s := { s0 with pendingJ := false }
  -- `jsonrt`: in a `value` case the document just decoded is the marshaler's own document for the value of the last `enc`:
  -- the result must be that value with NaNs canonicalised (`normV`), as observed (`canon`)
  let s := match toks, s0.pendingJ, s0.lastVal with
    | ["obs", "ok", v], true, some v0 =>
      let m := (rootIdx s0.root).getD 0
      let md := Mode.slots (S.slots m)
      if s0.kind == "value" && conf S false md v0 then
        if readVal v == some (canon S md (normV S md v0)) then s
        else { s with fails := s.fails ++ [s!"prop jsonrt=FAIL sig=C08/json/roundtrip/lean-oracle decoded={v}"] }
      else s
    | ["obs", "err"], true, some v0 =>
      let m := (rootIdx s0.root).getD 0
      if s0.kind == "value" && conf S false (Mode.slots (S.slots m)) v0 then
        { s with fails := s.fails ++ ["prop jsonrt=FAIL sig=C08/json/roundtrip/own-document-rejected"] }
      else s
    | _, _, _ => s
  match toks with
  | ["obs", "pb", h, sz] =>
    match unhexBytes h with
    | some b =>
      let s := { s with implPb := some b }
      if sz ≠ "-" ∧ sz.toNat? ≠ some b.length then
        { s with fails := s.fails ++ [s!"prop size=FAIL sig=C08/pb/size-mismatch size={sz} len={b.length}"] }
      else s
    | none => s
  | ["obs", "ok", v] =>
    match s.pendingDec, s.implPb, s.lastVal with
    | some bs, some pb, some v0 =>
      if bs == pb ∧ s.kind == "value" then
        if readVal v == some v0 then s
        else
          -- classify: a value only the API builds (selected bytes alternative holding a Go-nil slice) vs anything else
          let m := (rootIdx s.root).getD 0
          let apiOnly := conf S true (.slots (S.slots m)) v0 && !conf S false (.slots (S.slots m)) v0
          let sig := if apiOnly then "C08/pb/roundtrip/oneof-nil-bytes-not-encoded" else "C08/pb/roundtrip/lean-oracle"
          { s with fails := s.fails ++ [s!"prop pbrt=FAIL sig={sig} decoded={v}"] }
      else s
    | _, _, _ => s
  | ["obs", "err"] =>
    match s.pendingDec, s.implPb with
    | some bs, some pb =>
      if bs == pb ∧ s.kind == "value" then
        { s with fails := s.fails ++ ["prop pbrt=FAIL sig=C08/pb/roundtrip/own-encoding-rejected"] }
      else s
    | _, _ => s
  | _ => s

def handler : Handler St where
  init := {}
  onCase := fun s toks => { s with kind := (kv toks "kind").getD "", root := (kv toks "root").getD "" }
  onOp := onOp
  onObs := onObs
  onEnd := fun s => if s.fails.isEmpty then ["prop size=ok", "prop pbrt=ok", "prop jsonrt=ok", "prop apibuilt=ok"] else s.fails

end OtelVerif.Drivers.C08

def main : IO UInt32 :=
  runMulti [("c08-codec", run OtelVerif.Drivers.C08.handler)]
