import OtelVerif.Common.Line
import OtelVerif.Model.C09Fmt
/-! driver for C09: model `c09-graph`

ops (see harness/c09/graph_test.go):
  conn <id> <pairs|->                 configured connector, supported pairs like `01,12` (exporter-side, receiver-side signal)
  pipe <sig> <name> <recv> <procs> <exps>   comma separated component ids, `-` = empty
  build                               → obs build ok|err=connector|err=cycle ; obs nodes <key=count …> (sorted)
  inject <sig> <id>                   → obs route <n> <exporter|trail …> (sorted)
-/
open OtelVerif OtelVerif.Line OtelVerif.C09 OtelVerif.C09.Fmt

namespace OtelVerif.Drivers.C09

def deliveryTok (trail : List Node) (e : Node) : String :=
  nodeTok e ++ "|" ++ ">".intercalate (trail.map nodeTok)

def walkTok (w : List Node) : String :=
  match w.getLast? with
  | some e => deliveryTok (trailOf w) e
  | none => "?|"

/-! ### config-level reference, written directly on the configuration (the search oracle) -/

def routesRef (cfg : Cfg) : Nat → Pipeline → List (List Node × Node)
  | 0, _ => []
  | k + 1, p =>
    (dedup p.exps).flatMap (fun e =>
      if cfg.isConn e then
        ((nextPipes cfg p e).filter (fun q => cfg.selects e q.id.name)).flatMap (fun q =>
          (routesRef cfg k q).map (fun te => (procNodes p ++ [Node.conn p.id.sig q.id.sig e] ++ te.1, te.2)))
      else [(procNodes p, Node.exp p.id.sig e)])

def routesFrom (cfg : Cfg) (s : Sig) (r : CompId) : List (List Node × Node) :=
  (cfg.pipes.filter (fun p => p.id.sig = s ∧ r ∈ p.recv ∧ !cfg.isConn r)).flatMap (routesRef cfg (cfg.pipes.length + 1))

def iter {α : Type} (f : α → α) : Nat → α → α
  | 0, a => a
  | k + 1, a => iter f k (f a)

/-- pipeline-level cycle in connector usage: some pipeline reaches itself through `feeds` -/
def pipeCyclic (cfg : Cfg) : Bool :=
  let step (vis : List PipeId) : List PipeId :=
    dedup (vis ++ ((cfg.pipes.filter (fun p => p.id ∈ vis)).flatMap (fun p => (cfg.pipes.filter (feeds cfg p)).map (·.id))))
  cfg.pipes.any (fun p => p.id ∈ iter step cfg.pipes.length ((cfg.pipes.filter (feeds cfg p)).map (·.id)))

/-- some used connector has a use with no supported counterpart -/
def someUnsupported (cfg : Cfg) : Bool :=
  cfg.pipes.any (fun p =>
    p.exps.any (fun c => cfg.isConn c && !(cfg.pipes.any (fun q => (c ∈ q.recv) && cfg.supp c p.id.sig q.id.sig))) ||
    p.recv.any (fun c => cfg.isConn c && !(cfg.pipes.any (fun q => (c ∈ q.exps) && cfg.supp c q.id.sig p.id.sig))))

def expectedKeys (cfg : Cfg) : List String :=
  let r := dedup (cfg.pipes.flatMap (fun p => (p.recv.filter (fun x => !cfg.isConn x)).map (fun x => Node.recv p.id.sig x)))
  let e := dedup (cfg.pipes.flatMap (fun p => (p.exps.filter (fun x => !cfg.isConn x)).map (fun x => Node.exp p.id.sig x)))
  let pr := cfg.pipes.flatMap (fun p => p.procs.map (fun x => Node.proc p.id x))
  let c := dedup (cfg.pipes.flatMap (fun p => p.exps.flatMap (fun x =>
    if cfg.isConn x then (cfg.pipes.filter (fun q => (x ∈ q.recv) && cfg.supp x p.id.sig q.id.sig)).map (fun q => Node.conn p.id.sig q.id.sig x) else [])))
  sortStr ((r ++ e ++ pr ++ c).map (fun n => nodeTok n ++ "=1"))

structure S where
  cfg : Cfg := { pipes := [], conns := [] }
  built : Option (Option BuildErr) := none
  es : Option (List (Node × Node)) := none
  /-- implementation observations: build outcome, node counts, per injection (sig, id, tokens) -/
  implBuild : Option String := none
  implNodes : Option (List String) := none
  implRouters : Option (List String) := none
  pendingInject : Option (Sig × Nat) := none
  implRoutes : List (Sig × Nat × List String) := []
  implCycle : Option (List String) := none
  implConnErr : Option (List String) := none
  failCreate : List Node := []
  valGate : Bool := true
  modelVal : Option String := none
  implVal : Option String := none
  bad : Option String := none

def firstDiff (want got : List String) : String :=
  let missing := want.filter (fun t => want.count t > got.count t)
  let extra := got.filter (fun t => got.count t > want.count t)
  s!"missing={missing.take 3} extra={extra.take 3}"

def handler : Handler S where
  init := {}
  onOp := fun s toks =>
    match toks with
    | ["conn", i, pairs] =>
      match i.toNat?, parsePairs pairs with
      | some i, some ps => ({ s with cfg := { s.cfg with conns := s.cfg.conns ++ [{ id := i, supp := ps }] } }, [])
      | _, _ => (s, ["obs bad-op"])
    | ["conn", i, pairs, sel] =>
      -- `sel=<names|->`: a connector that uses the router API and delivers only to next pipelines with these names
      match i.toNat?, parsePairs pairs, (if sel.startsWith "sel=" then parseIds ((sel.drop 4).toString) else none) with
      | some i, some ps, some names =>
        ({ s with cfg := { s.cfg with conns := s.cfg.conns ++ [{ id := i, supp := ps, sel := some names }] } }, [])
      | _, _, _ => (s, ["obs bad-op"])
    | ["pipe", sg, name, r, p, e] =>
      match sg.toNat?.bind Sig.ofNat?, name.toNat?, parseIds r, parseIds p, parseIds e with
      | some sg, some name, some r, some p, some e =>
        ({ s with cfg := { s.cfg with pipes := s.cfg.pipes ++ [{ id := { sig := sg, name := name }, recv := r, procs := p, exps := e }] } }, [])
      | _, _, _, _, _ => (s, ["obs bad-op"])
    | "validate" :: rest =>
      -- `validate` (feature gate service.profilesSupport on) or `validate gate=0|1`
      let gate? : Option Bool := match rest with
        | [] => some true | ["gate=1"] => some true | ["gate=0"] => some false | _ => none
      match gate? with
      | none => (s, ["obs bad-op"])
      | some gate =>
        let cls (e : ValErr) : String := match e with
          | .noReceivers => "receivers" | .noExporters => "exporters" | .dupProcessor => "dupproc"
          | .noPipelines => "nopipelines" | .profilesGate => "profilesgate"
        let errs := sortStr ((validateAll gate s.cfg).map cls)
        let r := if errs.isEmpty then "ok" else "err=" ++ ",".intercalate errs
        ({ s with valGate := gate, modelVal := some r }, ["obs validate " ++ r])
    | ["failcreate", tok] =>
      match parseNode tok with
      | some n => ({ s with failCreate := s.failCreate ++ [n] }, [])
      | none => (s, ["obs bad-op"])
    -- an exporter / processor whose Consume returns an error (after recording / forwarding): routing does not change
    -- (every next consumer is still called once — fan-out law, property C06), so the model has nothing to do
    | ["failconsume", _] => (s, [])
    -- the context of the injected payload (live / cancelled / expired / cancelled by a component mid-route): routing does
    -- not depend on it, the model has nothing to do
    | ["ctx", _] => (s, [])
    | ["build"] =>
      let b := build s.cfg
      let s := { s with built := some b, es := some (flowEdges s.cfg) }
      match buildWith s.cfg (fun n => s.failCreate.contains n) with
      | some (.build .connector) => (s, ["obs build err=connector"])
      | some (.build .cycle) => (s, ["obs build err=cycle"])
      | some .create => (s, ["obs build err=create"])
      | none =>
        let keys := sortStr (((nodes s.cfg).filter Node.isComp).map (fun n => nodeTok n ++ "=1"))
        -- the router of every connector instance = its successors in the built graph (the next pipelines' capabilities nodes)
        let routers := sortStr (((nodes s.cfg).filter isConnNode).map (fun n =>
          nodeTok n ++ "=" ++ "+".intercalate (sortStr ((succOf (edges s.cfg) n).filterMap (fun m => match m with | .cap q => some (pipeTok q) | _ => none)))))
        (s, ["obs build ok", "obs nodes " ++ " ".intercalate keys, s!"obs routers {routers.length} " ++ " ".intercalate routers])
    | ["inject", sg, i] =>
      match sg.toNat?.bind Sig.ofNat?, i.toNat? with
      | some sg, some i =>
        let s := { s with pendingInject := some (sg, i) }
        let es := s.es.getD (flowEdges s.cfg)
        match deliver (succOf es) (es.length + 2) (Node.recv sg i) with
        | some ws =>
          let toks := sortStr (ws.map walkTok)
          (s, [s!"obs route {toks.length} " ++ " ".intercalate toks])
        | none => (s, ["obs route out-of-fuel"])
      | _, _ => (s, ["obs bad-op"])
    | _ => (s, ["obs bad-op"])
  onObs := fun s toks =>
    match toks with
    | ["obs", "validate", r] => { s with implVal := some r }
    | "obs" :: "build" :: rest => { s with implBuild := some (" ".intercalate rest) }
    | "obs" :: "nodes" :: rest => { s with implNodes := some rest }
    | "obs" :: "routers" :: _ :: rest => { s with implRouters := some rest }
    | "tr" :: "cycle" :: rest => { s with implCycle := some rest }
    | "tr" :: "connerr" :: rest => { s with implConnErr := some rest }
    | "obs" :: "route" :: _ :: rest =>
      match s.pendingInject with
      | some (sg, i) => { s with implRoutes := s.implRoutes ++ [(sg, i, rest)], pendingInject := none }
      | none => { s with bad := some "route observation without inject" }
    | _ => s
  onEnd := fun s =>
    let cfg := s.cfg
    -- The verdicts are computed with the MODEL functions whose meaning `C09_check_sound` fixes on the configuration alone
    -- (build ↔ UnsupportedUse / ConnectorCycle; nodes ↔ the sharing characterisations; deliver over flowEdges ↔ CfgRoute).
    -- The independently written config-level enumerators (`someUnsupported`, `pipeCyclic`, `expectedKeys`, `routesFrom`) are
    -- kept as a cross-check of the model on every case (`prop refagree`).
    let b := build cfg
    let unsup := b == some BuildErr.connector
    let cyc := b == some BuildErr.cycle
    let modelKeys := sortStr (((nodes cfg).filter Node.isComp).map (fun n => nodeTok n ++ "=1"))
    let fes := s.es.getD (flowEdges cfg)
    let modelRoutes (sg : Sig) (i : Nat) : Option (List String) :=
      (deliver (succOf fes) (fes.length + 2) (Node.recv sg i)).map (fun ws => sortStr (ws.map walkTok))
    let refDisagree : Option String :=
      if !(validateAll s.valGate cfg).isEmpty then none   -- not well-formed (never built): the theorems' hypothesis `WF` does not hold
      else if someUnsupported cfg != unsup then some "unsupported-use"
      else if !unsup && pipeCyclic cfg != cyc then some "connector-cycle"
      else if expectedKeys cfg != modelKeys then some "component-keys"
      else if b.isNone then
        (s.implRoutes.findSome? (fun (sg, i, _) =>
          if modelRoutes sg i == some (sortStr ((routesFrom cfg sg i).map (fun te => deliveryTok te.1 te.2))) then none
          else some s!"routes-{sg.toNat}:{i}"))
      else none
    let refProp := match refDisagree with
      | none => "prop refagree=ok"
      | some w => s!"prop refagree=FAIL sig=C09/model/config-level-reference-disagrees-with-model {w}"
    let rejectProp :=
      match s.implBuild with
      | none => "prop reject=ok"
      | some "ok" =>
        if unsup then "prop reject=FAIL sig=C09/reject/accepted-unsupported-connector-use"
        else if cyc then "prop reject=FAIL sig=C09/reject/accepted-connector-cycle"
        -- `C09_build_with_failing_factory`: an accepted configuration with a component that cannot be created (failing factory, id not
        -- configured, no factory for its type) must make Build return that error
        else if (buildWith cfg (fun n => s.failCreate.contains n)) == some BuildErrW.create then
          "prop reject=FAIL sig=C09/reject/built-although-a-component-could-not-be-created"
        else "prop reject=ok"
      | some "err=create" =>
        if unsup || cyc then "prop reject=FAIL sig=C09/reject/factory-called-for-a-rejected-configuration"
        else if s.failCreate.isEmpty then "prop reject=FAIL sig=C09/reject/create-error-without-failing-factory" else "prop reject=ok"
      | some other =>
        if unsup || cyc then
          (if other = "err=connector" && !unsup then "prop reject=FAIL sig=C09/reject/wrong-error-class-connector"
           else if other = "err=cycle" && unsup then "prop reject=FAIL sig=C09/reject/wrong-error-class-cycle"
           else if other = "err=connector" || other = "err=cycle" then "prop reject=ok"
           -- rejected, but with neither of the two errors the property names (a panic, a factory error, …)
           else s!"prop reject=FAIL sig=C09/reject/invalid-configuration-rejected-with-another-error {(other.take 60).toString}")
        else s!"prop reject=FAIL sig=C09/reject/rejected-valid-configuration {other}"
    let sharingProp :=
      match s.implNodes with
      | none => "prop sharing=ok"
      | some got =>
        let want := modelKeys
        if got = want then "prop sharing=ok"
        else
          let kind := match (got.filter (fun t => !(want.contains t)) ++ want.filter (fun t => !(got.contains t))).head? with
            | some t => (t.take 1).toString
            | none => "?"
          s!"prop sharing=FAIL sig=C09/sharing/instances-{kind} {firstDiff want got}"
    let routeFail := s.implRoutes.findSome? (fun (sg, i, got) =>
      let want := (modelRoutes sg i).getD ["out-of-fuel"]
      if got = want then none
      else
        let expOf (t : String) : String := (t.splitOn "|").headD ""
        let cls :=
          if sortStr (got.map expOf) = sortStr (want.map expOf) then "wrong-processor-trail"
          else if (want.map expOf).any (fun e => !((got.map expOf).contains e)) then "exporter-not-reached"
          else if (got.map expOf).any (fun e => !((want.map expOf).contains e)) then "unlisted-exporter-reached"
          else "wrong-multiplicity"
        some s!"prop routing=FAIL sig=C09/routing/{cls} recv={sg.toNat}:{i} {firstDiff want got}")
    -- content of the cycle error: the printed sequence must be a closed walk of the graph starting at a connector
    let cycleProp :=
      match s.implCycle with
      | none => if s.implBuild = some "err=cycle" then "prop cyclemsg=FAIL sig=C09/reject/cycle-error-without-cycle" else "prop cyclemsg=ok"
      | some toks =>
        match toks.mapM parseNode with
        | none => s!"prop cyclemsg=FAIL sig=C09/reject/cycle-message-unparsable {toks}"
        | some l => if cycleMsgOk cfg l then "prop cyclemsg=ok" else s!"prop cyclemsg=FAIL sig=C09/reject/cycle-message-not-a-cycle {toks}"
    -- content of the connector error: the reported use must be a genuine unsupported use and list exactly its pipelines
    let parsePipe (t : String) : Option PipeId :=
      match t.splitOn "." with
      | [a, b] => do let sg ← a.toNat?.bind Sig.ofNat?; let n ← b.toNat?; pure { sig := sg, name := n }
      | _ => none
    let connProp :=
      match s.implConnErr with
      | none => if s.implBuild = some "err=connector" then "prop connmsg=FAIL sig=C09/reject/connector-error-without-parsable-message" else "prop connmsg=ok"
      | some [role, c, sg, pipes] =>
        match (if role = "exp" then some Role.exp else if role = "recv" then some Role.recv else none), c.toNat?, sg.toNat?.bind Sig.ofNat?,
              (pipes.splitOn ",").mapM parsePipe with
        | some role, some c, some sg, some l =>
          if connMsgOk cfg role c sg l then "prop connmsg=ok"
          else s!"prop connmsg=FAIL sig=C09/reject/connector-message-does-not-describe-an-unsupported-use {s.implConnErr.getD []}"
        | _, _, _, _ => s!"prop connmsg=FAIL sig=C09/reject/connector-message-unparsable {s.implConnErr.getD []}"
      | some other => s!"prop connmsg=FAIL sig=C09/reject/connector-message-unparsable {other}"
    -- every connector instance's router holds exactly the next pipelines of the configuration (`C09_sharing_connectors` + `edges`)
    let routerProp := match s.implRouters with
      | none => "prop routers=ok"
      | some got =>
        let want := sortStr (((nodes cfg).filter isConnNode).map (fun n =>
          nodeTok n ++ "=" ++ "+".intercalate (sortStr ((succOf (edges cfg) n).filterMap (fun m => match m with | .cap q => some (pipeTok q) | _ => none)))))
        if got = want then "prop routers=ok"
        else s!"prop routers=FAIL sig=C09/router/router-pipelines-differ-from-the-configured-next-pipelines {firstDiff want got}"
    -- the validation result against `validateAll` (`C09_validate_all`): a direct verdict beside the obs diff
    let valProp := match s.implVal, s.modelVal with
      | some a, some b =>
        if a == b then "prop validate=ok"
        else s!"prop validate=FAIL sig=C09/validate/result-{((a.splitOn ":").headD a)}-where-the-model-says-{b}"
      | _, _ => "prop validate=ok"
    match s.bad with
    | some b => [s!"prop protocol=FAIL sig=C09/harness/unparsable {b}"]
    | none => [valProp, rejectProp, sharingProp, routerProp, routeFail.getD "prop routing=ok", cycleProp, connProp, refProp]

end OtelVerif.Drivers.C09

def main : IO UInt32 :=
  runMulti [("c09-graph", run OtelVerif.Drivers.C09.handler)]
