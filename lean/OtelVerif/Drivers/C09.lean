import OtelVerif.Common.Line
import OtelVerif.Model.C09
/-! driver for C09 (stub) -/
def main : IO UInt32 := do
  IO.eprintln "drv_c09: not built yet"
  return 2
