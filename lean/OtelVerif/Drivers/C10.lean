import OtelVerif.Common.Line
import OtelVerif.Model.C10
/-! driver for C10 (stub) -/
def main : IO UInt32 := do
  IO.eprintln "drv_c10: not built yet"
  return 2
