import OtelVerif.Common.Line
import OtelVerif.Model.C09Fmt
import OtelVerif.Model.C10
import OtelVerif.Model.C10Shape
/-! driver for C10: model `c10-lifecycle`

ops (see harness/c10/service_test.go):
  conn / pipe                 as for C09
  ext <id> <deps|->           extension (order of the service's extension list)
  shared <id>                 receiver id whose per-signal instances wrap one inner component (sharedcomponent)
  failstart <label> / failstop <label>
  run                         → obs start ok|fail ; obs stops … ; obs stoperr … ; obs shutdown ok|err
`obs new …` (result of service.New) is printed before the first failstart/failstop/run op, or at `end`.
`tr ev <start|stop|istart|istop> <label> <ok|fail>` lines of the implementation are monitored with `C10.check`.
-/
open OtelVerif OtelVerif.Line OtelVerif.C09 OtelVerif.C09.Fmt OtelVerif.C10

namespace OtelVerif.Drivers.C10

def compTok : Comp → String
  | .node n => nodeTok n
  | .ext e => s!"x{e}"
  | .inner i => s!"s{i}"
  | .innerExp i => s!"u{i}"
  | .innerConn i => s!"w{i}"

def parseComp (t : String) : Option Comp :=
  match t.toList with
  | 'x' :: rest => (String.ofList rest).toNat?.map Comp.ext
  | 's' :: rest => (String.ofList rest).toNat?.map Comp.inner
  | 'u' :: rest => (String.ofList rest).toNat?.map Comp.innerExp
  | 'w' :: rest => (String.ofList rest).toNat?.map Comp.innerConn
  | _ => (parseNode t).map Comp.node

structure S where
  cfg : Cfg := { pipes := [], conns := [] }
  exts : List Ext := []
  shared : Option Nat := none
  sharedExp : Option Nat := none
  sharedConn : Option Nat := none
  failS : List String := []
  failT : List String := []
  failCreate : List Node := []   -- components whose factory fails inside service.New
  failCreateExt : List Nat := [] -- extensions whose factory fails inside service.New (extensions.New)
  failN : List String := []      -- extensions whose NotifyConfig fails
  failR : List String := []      -- extensions whose Ready fails
  failQ : List String := []      -- extensions whose NotReady fails
  hookFailSeen : Bool := false   -- implementation: some notify/ready event failed
  notReadyFailSeen : Bool := false   -- implementation: some NotReady call failed
  notReadySeen : List Comp := []     -- implementation: extensions whose NotReady was called (reversed)
  newEmitted : Bool := false
  implNew : Option String := none
  implExtMsg : Option (List String) := none   -- content of computeOrder's error (tr extmsg …)
  starts : List (Comp × Bool) := []     -- implementation, reversed; includes inner
  stops : List (Comp × Bool) := []      -- implementation, reversed; includes inner
  implStart : Option Bool := none
  implShutdown : Option Bool := none
  ran : Bool := false
  bad : Option String := none

def newResult (s : S) : String :=
  match newServiceWithX s.cfg s.exts (fun n => s.failCreate.contains n) (fun e => s.failCreateExt.contains e) with
  | some (.new .connector) => "err=connector"
  | some (.new .cycle) => "err=cycle"
  | some (.new .extMissing) => "err=extmissing"
  | some (.new .extCycle) => "err=extcycle"
  | some .create => "err=create"
  | none => "ok"

def emitNew (s : S) : S × List String :=
  if s.newEmitted then (s, []) else ({ s with newEmitted := true }, ["obs new " ++ newResult s])

/-- components built on `sharedcomponent`: (kind, inner component, its instance nodes in the built graph) -/
def groups (s : S) : List (String × Comp × List Node) :=
  let ns := nodes s.cfg
  let g (kind : String) (inner : Comp) (insts : List Node) : List (String × Comp × List Node) :=
    if insts.isEmpty then [] else [(kind, inner, insts)]
  (match s.shared with
   | some i => g "receiver" (Comp.inner i) (ns.filter (fun n => match n with | .recv _ j => j == i | _ => false))
   | none => []) ++
  (match s.sharedExp with
   | some i => g "exporter" (Comp.innerExp i) (ns.filter (fun n => match n with | .exp _ j => j == i | _ => false))
   | none => []) ++
  (match s.sharedConn with
   | some i => g "connector" (Comp.innerConn i) (ns.filter (fun n => match n with | .conn _ _ j => j == i | _ => false))
   | none => [])

def innerComps (s : S) : List Comp := (groups s).map (·.2.1)

def sysOf (s : S) : Sys := { cfg := s.cfg, exts := s.exts, gorderStart := [], gorderStop := [], eorder := [] }

/-! ### reconstruction of the `topo.Sort` results from the observed log

The model takes the three orders as inputs.  They are rebuilt from what the implementation did — the complete stop
log, the (possibly truncated) start log — with capabilities / fan-out nodes put back in; the driver then CHECKS that
the rebuilt orders are topological (`isTopoB`) and runs the model's `Service.Start` / `Service.Shutdown` with them:
the model's logs must equal the observed logs exactly. -/

def insertBefore (l : List Node) (t : Node) (new : List Node) : List Node :=
  match l with
  | [] => new
  | a :: r => if a == t then new ++ a :: r else a :: insertBefore r t new

def insertAfter (l : List Node) (t : Node) (new : List Node) : List Node :=
  match l with
  | [] => new
  | a :: r => if a == t then a :: new ++ r else a :: insertAfter r t new

/-- `seq`: the component nodes, sources first.  Capabilities node right before the first processor, fan-out node right
after the last one; for a pipeline without processors both right before its first exporter-side node. -/
def insertNonComps (cfg : Cfg) (seq : List Node) : List Node :=
  cfg.pipes.foldl (fun acc p =>
    match p.procs.head?, p.procs.getLast? with
    | some f, some l => insertAfter (insertBefore acc (Node.proc p.id f) [Node.cap p.id]) (Node.proc p.id l) [Node.fanout p.id]
    | _, _ =>
      let exps := pipeExpNodes cfg p
      match acc.find? (fun n => exps.contains n) with
      | some t => insertBefore acc t [Node.cap p.id, Node.fanout p.id]
      | none => acc ++ [Node.cap p.id, Node.fanout p.id]) seq

def nodeOf : Comp → Option Node
  | .node n => some n
  | _ => none

def extOf : Comp → Option Nat
  | .ext e => some e
  | _ => none

def evTok (c : Comp × Bool) : String := compTok c.1 ++ (if c.2 then "=ok" else "=fail")

def obsList (head : String) (l : List String) : String :=
  let l := sortStr l
  if l.isEmpty then s!"obs {head} 0" else s!"obs {head} {l.length} " ++ " ".intercalate l

def handler : Handler S where
  init := {}
  onOp := fun s toks =>
    match toks with
    | ["conn", i, pairs] =>
      match i.toNat?, parsePairs pairs with
      | some i, some ps => ({ s with cfg := { s.cfg with conns := s.cfg.conns ++ [{ id := i, supp := ps }] } }, [])
      | _, _ => (s, ["obs bad-op"])
    | ["pipe", sg, name, r, p, e] =>
      match sg.toNat?.bind Sig.ofNat?, name.toNat?, parseIds r, parseIds p, parseIds e with
      | some sg, some name, some r, some p, some e =>
        ({ s with cfg := { s.cfg with pipes := s.cfg.pipes ++ [{ id := { sig := sg, name := name }, recv := r, procs := p, exps := e }] } }, [])
      | _, _, _, _, _ => (s, ["obs bad-op"])
    | ["ext", i, deps] =>
      match i.toNat?, parseIds deps with
      | some i, some d => ({ s with exts := dedupExts (s.exts ++ [{ id := i, deps := d }]) }, [])
      | _, _ => (s, ["obs bad-op"])
    | ["shared", i] =>
      match i.toNat? with
      | some i => ({ s with shared := some i }, [])
      | none => (s, ["obs bad-op"])
    | ["sharedexp", i] =>
      match i.toNat? with
      | some i => ({ s with sharedExp := some i }, [])
      | none => (s, ["obs bad-op"])
    | ["sharedconn", i] =>
      match i.toNat? with
      | some i => ({ s with sharedConn := some i }, [])
      | none => (s, ["obs bad-op"])
    | ["failcreate", l] =>
      match parseNode l, parseComp l with
      | some n, _ => ({ s with failCreate := s.failCreate ++ [n] }, [])
      | none, some (Comp.ext e) => ({ s with failCreateExt := s.failCreateExt ++ [e] }, [])
      | none, _ => (s, ["obs bad-op"])
    | ["failnotify", l] => let (s, o) := emitNew s; ({ s with failN := s.failN ++ [l] }, o)
    | ["failready", l] => let (s, o) := emitNew s; ({ s with failR := s.failR ++ [l] }, o)
    | ["failnotready", l] => let (s, o) := emitNew s; ({ s with failQ := s.failQ ++ [l] }, o)
    | ["failstart", l] => let (s, o) := emitNew s; ({ s with failS := s.failS ++ [l] }, o)
    | ["failstop", l] => let (s, o) := emitNew s; ({ s with failT := s.failT ++ [l] }, o)
    | ["run"] =>
      -- the observations of the run are printed at `end` (the prediction of which instance reports a failing
      -- shared inner Shutdown takes the implementation's stop order as an input)
      let (s, o) := emitNew s
      ({ s with ran := true }, o)
    | _ => (s, ["obs bad-op"])
  onObs := fun s toks =>
    match toks with
    | ["tr", "ev", kind, label, res] =>
      match parseComp label, (if res = "ok" then some true else if res = "fail" then some false else none) with
      | some c, some ok =>
        if kind = "notify" || kind = "ready" then { s with hookFailSeen := s.hookFailSeen || !ok }
        else if kind = "notready" then { s with notReadyFailSeen := s.notReadyFailSeen || !ok, notReadySeen := c :: s.notReadySeen }
        else if kind = "start" || kind = "istart" then { s with starts := (c, ok) :: s.starts }
        else if kind = "stop" || kind = "istop" then { s with stops := (c, ok) :: s.stops }
        else { s with bad := some s!"unknown event kind {kind}" }
      | _, _ => { s with bad := some s!"unparsable event {label} {res}" }
    | "tr" :: "extmsg" :: rest => { s with implExtMsg := some rest }
    | ["tr", "orphan", _] => s   -- instance created for a repeated list entry and dropped by extensions.New (recorded, see report)
    | ["obs", "new", r] => { s with implNew := some r }
    | ["obs", "start", r] => { s with implStart := some (r = "ok") }
    | ["obs", "shutdown", r] => { s with implShutdown := some (r = "ok") }
    | _ => s
  onEnd := fun s =>
    let (s, newLines) := emitNew s
    let isInner (c : Comp) : Bool := match c with | .node _ => false | .ext _ => false | _ => true
    let sys := sysOf s
    let stAll := s.starts.reverse
    let spAll := s.stops.reverse
    let st := stAll.filter (fun e => !isInner e.1)
    let sp := spAll.filter (fun e => !isInner e.1)
    let o : Outcome := { starts := st, startOk := s.implStart.getD true, stops := sp, stopOk := s.implShutdown.getD true }
    let stc := st.map (·.1)
    let spc := sp.map (·.1)
    let clause (name : String) (b : Bool) (sg : String) : Option String := if b then none else some s!"prop {name}=FAIL sig={sg}"
    let lifecycle : List (Option String) :=
      if !s.ran then
        -- service.New failed (or was never run): nothing may have been started
        [clause "rejected" (stAll.isEmpty && spAll.isEmpty) "C10/reject/lifecycle-call-on-rejected-configuration"]
      else [
        clause "start_once" (startsOnce sys stc) "C10/start/started-twice-or-unknown-component",
        clause "start_downstream_first" (startsDownstreamFirst sys stc) "C10/start/started-before-a-component-it-sends-to",
        clause "start_ext_first" (startsExtFirst sys stc) "C10/start/pipeline-component-before-an-extension",
        clause "start_dep_first" (startsDepFirst sys stc) "C10/start/extension-before-its-dependency",
        clause "stop_exactly_once" (stopsExactlyOnce sys spc) "C10/stop/not-exactly-once",
        clause "stop_upstream_first" (stopsUpstreamFirst sys spc) "C10/stop/stopped-before-a-component-that-sends-to-it",
        clause "stop_ext_last" (stopsExtLast sys spc) "C10/stop/extension-before-a-pipeline-component",
        clause "stop_dependent_first" (stopsDependentFirst sys spc) "C10/stop/dependency-before-its-dependent",
        clause "failed_start_last" (failedStartIsLast st) "C10/failure/component-started-after-a-failed-start",
        clause "results" ((o.startOk == (allOk stAll && !s.hookFailSeen)) && (o.stopOk == (allOk spAll && !s.notReadyFailSeen))) "C10/failure/reported-result-differs-from-component-results",
        -- Service.Shutdown: every extension is told `NotReady`, once, before anything is shut down, whatever an earlier call returned
        clause "notready_all" (s.exts.all (fun e => s.notReadySeen.count (Comp.ext e.id) == 1) && s.notReadySeen.length == s.exts.length)
          "C10/stop/notready-not-delivered-once-to-every-extension",
        clause "started_all" (startedAll sys o) "C10/start/successful-start-skipped-a-component" ]
    -- components built on sharedcomponent: the inner component against ALL its instances' neighbours
    let sharedProps : List (Option String) :=
      if !s.ran then [] else
      (groups s).flatMap (fun (kind, inner, insts) =>
        let E := edges s.cfg
        let stA := stAll.map (·.1)
        let spA := spAll.map (·.1)
        let down := C09.dedup (insts.flatMap (compSucc E))
        let up := ((nodes s.cfg).filter Node.isComp).filter (fun b => (compSucc E b).any (fun a => insts.contains a))
        let pre := if kind = "receiver" then "" else kind ++ "-"
        [ clause "shared_start_once" (stA.count inner ≤ 1 &&
              (stA.count inner == 1 || !(stAll.any (fun e => e.2 && insts.any (fun n => Comp.node n == e.1)))))
            s!"C10/shared/{pre}inner-start-count",
          clause "shared_stop_once" (spA.count inner == 1) s!"C10/shared/{pre}inner-stop-count",
          clause "shared_start_after_downstream"
            (!(stA.contains inner) || down.all (fun a => beforeB stA (Comp.node a) inner))
            s!"C10/shared/{pre}inner-started-before-downstream-of-a-sibling-instance",
          clause "shared_stop_before_downstream" (down.all (fun a => beforeB spA inner (Comp.node a)))
            s!"C10/shared/{pre}inner-stopped-after-a-downstream-component",
          clause "shared_stop_after_upstream" (up.all (fun b => beforeB spA (Comp.node b) inner))
            s!"C10/shared/{pre}inner-stopped-before-upstream-of-a-sibling-instance" ])
    let fails := (lifecycle ++ sharedProps).filterMap id
    -- the model, RUN: orders rebuilt from the log, checked, then Service.Start / Service.Shutdown of Model/C10.lean
    let stNodes := st.filterMap (fun e => nodeOf e.1)
    let spNodes := sp.filterMap (fun e => nodeOf e.1)
    let s0 := spNodes.reverse.filter (fun n => !(isRecvN n)) ++ spNodes.reverse.filter isRecvN
    let sSeq := stNodes ++ s0.filter (fun n => !(stNodes.contains n))
    let msys : Sys := { cfg := s.cfg, exts := s.exts, gorderStart := insertNonComps s.cfg sSeq.reverse,
                        gorderStop := insertNonComps s.cfg spNodes, eorder := (sp.filterMap (fun e => extOf e.1)).reverse }
    let admissible := isTopoB (nodes s.cfg) (edges s.cfg) msys.gorderStart && isTopoB (nodes s.cfg) (edges s.cfg) msys.gorderStop &&
      isTopoB (s.exts.map (·.id)) (extEdges s.exts) msys.eorder
    let mgroups : List Group := (groups s).map (fun g => { inner := g.2.1, insts := g.2.2.map Comp.node })
    let isInstC (c : Comp) : Bool := mgroups.any (fun g => g.insts.contains c)
    -- the loops are EXECUTED in the form interpreted from the regenerated shape (`Gen/LifecycleShape.lean`); `C10_loops_as_regenerated`
    -- proves that for the current tree they are `serviceStartH` / `serviceShutdownH` / `startPlan` / `stopPlan`
    let planStart := extPlanShape OtelVerif.Gen.LifecycleShape.extStartReverse msys.eorder ++
      planOfShape OtelVerif.Gen.LifecycleShape.startAllReverse OtelVerif.Gen.LifecycleShape.startAllDeferred msys.gorderStart
    let planStop := planOfShape OtelVerif.Gen.LifecycleShape.shutdownAllReverse OtelVerif.Gen.LifecycleShape.shutdownAllDeferred msys.gorderStop
    -- an injected failure of a shared inner component is reported by the instance whose call reaches it first
    let carrier (plan : List Comp) (fl : List String) (c : Comp) : Bool :=
      mgroups.any (fun g => fl.contains (compTok g.inner) && plan.find? (fun x => g.insts.contains x) == some c)
    let failS (c : Comp) : Bool := s.failS.contains (compTok c) || carrier planStart s.failS c
    -- (the test wrapper of a shared instance has no failure switch of its own for Shutdown)
    let failT (c : Comp) : Bool := (s.failT.contains (compTok c) && !(isInstC c)) || carrier planStop s.failT c
    let failN (e : Nat) : Bool := s.failN.contains (compTok (Comp.ext e))
    let failR (e : Nat) : Bool := s.failR.contains (compTok (Comp.ext e))
    let tr := serviceStartShape msys failS failN failR
    let life := lifetime msys failS failT
    let failQ (e : Nat) : Bool := s.failQ.contains (compTok (Comp.ext e))
    let str := serviceShutdownShape msys failT failQ
    -- without hook failures `Service.Start` is `serviceStart` (= `(lifetime …).starts`)
    let compStartsGraph := tr.graph
    -- the documented model (`lifetime` = `run`: `serviceStart`, `serviceShutdown`) and the shape-interpreted loops must agree on this case
    let shapeAgrees := str.stops == life.stops &&
      (!(s.failN.isEmpty && s.failR.isEmpty) || tr.exts ++ tr.graph == life.starts)
    let initSt : List (Group × Shared) := mgroups.map (fun g => (g, {}))
    let mStart := tr.exts ++
      withInner .start mgroups (fun c => s.failS.contains (compTok c)) (fun c => !(s.failS.contains (compTok c))) initSt compStartsGraph
    let hookToks := fun (pre : String) (l : List (Nat × Bool)) => l.map (fun e => pre ++ evTok (Comp.ext e.1, e.2))
    let mStartToks := (tr.exts.map evTok) ++ hookToks "notify." tr.notifies ++ ((mStart.drop tr.exts.length).map evTok) ++ hookToks "ready." tr.readies
    -- `serviceShutdownH`'s component log is `lifetime`'s (`C10_shutdown_hooks`); both are computed, the hook version is printed
    let mStop := withInner .stop mgroups (fun _ => false) (fun c => !(s.failT.contains (compTok c))) initSt
      str.stops
    let mStopToks := hookToks "notready." str.notreadies ++ mStop.map evTok
    let runLines : List String :=
      if !s.ran then [] else
      [s!"obs start {if tr.ok then "ok" else "fail"}", obsList "stops" (mStop.map (fun e => compTok e.1)),
       obsList "stoperr" ((mStop.filter (fun e => !e.2)).map (fun e => compTok e.1)),
       if mStop.all (·.2) && str.notreadies.all (·.2) then "obs shutdown ok" else "obs shutdown err",
       s!"obs startlog {mStartToks.length} " ++ " ".intercalate mStartToks,
       s!"obs stoplog {mStopToks.length} " ++ " ".intercalate mStopToks]
    -- the result of `service.New` against `newServiceWithX` (C10_new_with_failing_factory / _ext_factory, C10_invalid_pipelines_start_nothing):
    -- a direct verdict beside the obs diff, so that a wrongly accepted / rejected service is reported with its case
    let fails := fails ++ (match s.implNew with
      | some r =>
        let cls := (r.splitOn ":").headD r
        let want := if newResult s == "ok" then "ok" else newResult s
        let got := if cls == "ok" then "ok" else "err=" ++ ((cls.splitOn "=").getD 1 cls)
        if got == want then [] else [s!"prop new=FAIL sig=C10/new/result-{got}-where-the-model-says-{want}"]
      | none => [])
    -- content of `computeOrder`'s errors: a genuine missing dependency / a genuine dependency cycle (`C10_ext_*_message_sound`)
    let fails := fails ++ (match s.implExtMsg with
      | none =>
        if s.implNew == some "err=extcycle" || s.implNew == some "err=extmissing" then
          ["prop extmsg=FAIL sig=C10/new/extension-order-error-without-parsable-message"] else []
      | some ("missing" :: d :: e :: []) =>
        match d.toNat?, e.toNat? with
        | some d, some e => if extMissingMsgOk s.exts d e then [] else
            [s!"prop extmsg=FAIL sig=C10/new/missing-dependency-message-names-no-missing-dependency {d} {e}"]
        | _, _ => ["prop extmsg=FAIL sig=C10/new/extension-order-message-unparsable"]
      | some ("cycle" :: ids) =>
        match ids.mapM String.toNat? with
        | some l => if extCycleMsgOk s.exts l then [] else
            [s!"prop extmsg=FAIL sig=C10/new/extension-cycle-message-is-not-a-dependency-cycle {l}"]
        | none => ["prop extmsg=FAIL sig=C10/new/extension-order-message-unparsable"]
      | some _ => ["prop extmsg=FAIL sig=C10/new/extension-order-message-unparsable"])
    let fails := fails ++ (if s.ran && !shapeAgrees then
      ["prop shape=FAIL sig=C10/model/regenerated-loop-shape-differs-from-the-documented-model"] else [])
    let fails := fails ++ (if s.ran && !admissible then
      ["prop orders_admissible=FAIL sig=C10/model/order-rebuilt-from-the-log-is-not-topological"] else [])
    match s.bad with
    | some b => newLines ++ runLines ++ [s!"prop protocol=FAIL sig=C10/harness/unparsable {b}"]
    | none => newLines ++ runLines ++ (if fails.isEmpty then ["prop lifecycle=ok"] else fails)

end OtelVerif.Drivers.C10

def main : IO UInt32 :=
  runMulti [("c10-lifecycle", run OtelVerif.Drivers.C10.handler)]
