import OtelVerif.Common.Line
import OtelVerif.Model.C09Fmt
import OtelVerif.Model.C10
/-! driver for C10: model `c10-lifecycle`

ops (see harness/c10/service_test.go):
  conn / pipe                 as for C09
  ext <id> <deps|->           extension (order of the service's extension list)
  shared <id>                 receiver id whose per-signal instances wrap one inner component (sharedcomponent)
  failstart <label> / failstop <label>
  run                         → obs start ok|fail ; obs stops … ; obs stoperr … ; obs shutdown ok|err
`obs new …` (result of service.New) is printed before the first failstart/failstop/run op, or at `end`.
`tr ev <start|stop|istart|istop> <label> <ok|fail>` lines of the implementation are monitored with `C10.check`.
-/
open OtelVerif OtelVerif.Line OtelVerif.C09 OtelVerif.C09.Fmt OtelVerif.C10

namespace OtelVerif.Drivers.C10

def compTok : Comp → String
  | .node n => nodeTok n
  | .ext e => s!"x{e}"
  | .inner i => s!"s{i}"
  | .innerExp i => s!"u{i}"
  | .innerConn i => s!"w{i}"

def parseComp (t : String) : Option Comp :=
  match t.toList with
  | 'x' :: rest => (String.ofList rest).toNat?.map Comp.ext
  | 's' :: rest => (String.ofList rest).toNat?.map Comp.inner
  | 'u' :: rest => (String.ofList rest).toNat?.map Comp.innerExp
  | 'w' :: rest => (String.ofList rest).toNat?.map Comp.innerConn
  | _ => (parseNode t).map Comp.node

structure S where
  cfg : Cfg := { pipes := [], conns := [] }
  exts : List Ext := []
  shared : Option Nat := none
  sharedExp : Option Nat := none
  sharedConn : Option Nat := none
  failS : List String := []
  failT : List String := []
  newEmitted : Bool := false
  implNew : Option String := none
  starts : List (Comp × Bool) := []     -- implementation, reversed; includes inner
  stops : List (Comp × Bool) := []      -- implementation, reversed; includes inner
  implStart : Option Bool := none
  implShutdown : Option Bool := none
  ran : Bool := false
  bad : Option String := none

def newResult (s : S) : String :=
  match newService s.cfg s.exts with
  | some .connector => "err=connector"
  | some .cycle => "err=cycle"
  | some .extMissing => "err=extmissing"
  | some .extCycle => "err=extcycle"
  | none => "ok"

def emitNew (s : S) : S × List String :=
  if s.newEmitted then (s, []) else ({ s with newEmitted := true }, ["obs new " ++ newResult s])

/-- components built on `sharedcomponent`: (kind, inner component, its instance nodes in the built graph) -/
def groups (s : S) : List (String × Comp × List Node) :=
  let ns := nodes s.cfg
  let g (kind : String) (inner : Comp) (insts : List Node) : List (String × Comp × List Node) :=
    if insts.isEmpty then [] else [(kind, inner, insts)]
  (match s.shared with
   | some i => g "receiver" (Comp.inner i) (ns.filter (fun n => match n with | .recv _ j => j == i | _ => false))
   | none => []) ++
  (match s.sharedExp with
   | some i => g "exporter" (Comp.innerExp i) (ns.filter (fun n => match n with | .exp _ j => j == i | _ => false))
   | none => []) ++
  (match s.sharedConn with
   | some i => g "connector" (Comp.innerConn i) (ns.filter (fun n => match n with | .conn _ _ j => j == i | _ => false))
   | none => [])

def innerComps (s : S) : List Comp := (groups s).map (·.2.1)

def sysOf (s : S) : Sys := { cfg := s.cfg, exts := s.exts, gorderStart := [], gorderStop := [], eorder := [] }

def obsList (head : String) (l : List String) : String :=
  let l := sortStr l
  if l.isEmpty then s!"obs {head} 0" else s!"obs {head} {l.length} " ++ " ".intercalate l

def handler : Handler S where
  init := {}
  onOp := fun s toks =>
    match toks with
    | ["conn", i, pairs] =>
      match i.toNat?, parsePairs pairs with
      | some i, some ps => ({ s with cfg := { s.cfg with conns := s.cfg.conns ++ [{ id := i, supp := ps }] } }, [])
      | _, _ => (s, ["obs bad-op"])
    | ["pipe", sg, name, r, p, e] =>
      match sg.toNat?.bind Sig.ofNat?, name.toNat?, parseIds r, parseIds p, parseIds e with
      | some sg, some name, some r, some p, some e =>
        ({ s with cfg := { s.cfg with pipes := s.cfg.pipes ++ [{ id := { sig := sg, name := name }, recv := r, procs := p, exps := e }] } }, [])
      | _, _, _, _, _ => (s, ["obs bad-op"])
    | ["ext", i, deps] =>
      match i.toNat?, parseIds deps with
      | some i, some d => ({ s with exts := dedupExts (s.exts ++ [{ id := i, deps := d }]) }, [])
      | _, _ => (s, ["obs bad-op"])
    | ["shared", i] =>
      match i.toNat? with
      | some i => ({ s with shared := some i }, [])
      | none => (s, ["obs bad-op"])
    | ["sharedexp", i] =>
      match i.toNat? with
      | some i => ({ s with sharedExp := some i }, [])
      | none => (s, ["obs bad-op"])
    | ["sharedconn", i] =>
      match i.toNat? with
      | some i => ({ s with sharedConn := some i }, [])
      | none => (s, ["obs bad-op"])
    | ["failstart", l] => let (s, o) := emitNew s; ({ s with failS := s.failS ++ [l] }, o)
    | ["failstop", l] => let (s, o) := emitNew s; ({ s with failT := s.failT ++ [l] }, o)
    | ["run"] =>
      -- the observations of the run are printed at `end` (the prediction of which instance reports a failing
      -- shared inner Shutdown takes the implementation's stop order as an input)
      let (s, o) := emitNew s
      ({ s with ran := true }, o)
    | _ => (s, ["obs bad-op"])
  onObs := fun s toks =>
    match toks with
    | ["tr", "ev", kind, label, res] =>
      match parseComp label, (if res = "ok" then some true else if res = "fail" then some false else none) with
      | some c, some ok =>
        if kind = "start" || kind = "istart" then { s with starts := (c, ok) :: s.starts }
        else if kind = "stop" || kind = "istop" then { s with stops := (c, ok) :: s.stops }
        else { s with bad := some s!"unknown event kind {kind}" }
      | _, _ => { s with bad := some s!"unparsable event {label} {res}" }
    | ["tr", "orphan", _] => s   -- instance created for a repeated list entry and dropped by extensions.New (recorded, see report)
    | ["obs", "new", r] => { s with implNew := some r }
    | ["obs", "start", r] => { s with implStart := some (r = "ok") }
    | ["obs", "shutdown", r] => { s with implShutdown := some (r = "ok") }
    | _ => s
  onEnd := fun s =>
    let (s, newLines) := emitNew s
    let isInner (c : Comp) : Bool := match c with | .node _ => false | .ext _ => false | _ => true
    let sys := sysOf s
    let stAll := s.starts.reverse
    let spAll := s.stops.reverse
    let st := stAll.filter (fun e => !isInner e.1)
    let sp := spAll.filter (fun e => !isInner e.1)
    let o : Outcome := { starts := st, startOk := s.implStart.getD true, stops := sp, stopOk := s.implShutdown.getD true }
    let stc := st.map (·.1)
    let spc := sp.map (·.1)
    let clause (name : String) (b : Bool) (sg : String) : Option String := if b then none else some s!"prop {name}=FAIL sig={sg}"
    let lifecycle : List (Option String) :=
      if !s.ran then
        -- service.New failed (or was never run): nothing may have been started
        [clause "rejected" (stAll.isEmpty && spAll.isEmpty) "C10/reject/lifecycle-call-on-rejected-configuration"]
      else [
        clause "start_once" (startsOnce sys stc) "C10/start/started-twice-or-unknown-component",
        clause "start_downstream_first" (startsDownstreamFirst sys stc) "C10/start/started-before-a-component-it-sends-to",
        clause "start_ext_first" (startsExtFirst sys stc) "C10/start/pipeline-component-before-an-extension",
        clause "start_dep_first" (startsDepFirst sys stc) "C10/start/extension-before-its-dependency",
        clause "stop_exactly_once" (stopsExactlyOnce sys spc) "C10/stop/not-exactly-once",
        clause "stop_upstream_first" (stopsUpstreamFirst sys spc) "C10/stop/stopped-before-a-component-that-sends-to-it",
        clause "stop_ext_last" (stopsExtLast sys spc) "C10/stop/extension-before-a-pipeline-component",
        clause "stop_dependent_first" (stopsDependentFirst sys spc) "C10/stop/dependency-before-its-dependent",
        clause "failed_start_last" (failedStartIsLast st) "C10/failure/component-started-after-a-failed-start",
        clause "results" ((o.startOk == allOk stAll) && (o.stopOk == allOk spAll)) "C10/failure/reported-result-differs-from-component-results",
        clause "started_all" (startedAll sys o) "C10/start/successful-start-skipped-a-component" ]
    -- components built on sharedcomponent: the inner component against ALL its instances' neighbours
    let sharedProps : List (Option String) :=
      if !s.ran then [] else
      (groups s).flatMap (fun (kind, inner, insts) =>
        let E := edges s.cfg
        let stA := stAll.map (·.1)
        let spA := spAll.map (·.1)
        let down := C09.dedup (insts.flatMap (compSucc E))
        let up := ((nodes s.cfg).filter Node.isComp).filter (fun b => (compSucc E b).any (fun a => insts.contains a))
        let pre := if kind = "receiver" then "" else kind ++ "-"
        [ clause "shared_start_once" (stA.count inner ≤ 1 &&
              (stA.count inner == 1 || !(stAll.any (fun e => e.2 && insts.any (fun n => Comp.node n == e.1)))))
            s!"C10/shared/{pre}inner-start-count",
          clause "shared_stop_once" (spA.count inner == 1) s!"C10/shared/{pre}inner-stop-count",
          clause "shared_start_after_downstream"
            (!(stA.contains inner) || down.all (fun a => beforeB stA (Comp.node a) inner))
            s!"C10/shared/{pre}inner-started-before-downstream-of-a-sibling-instance",
          clause "shared_stop_before_downstream" (down.all (fun a => beforeB spA inner (Comp.node a)))
            s!"C10/shared/{pre}inner-stopped-after-a-downstream-component",
          clause "shared_stop_after_upstream" (up.all (fun b => beforeB spA (Comp.node b) inner))
            s!"C10/shared/{pre}inner-stopped-before-upstream-of-a-sibling-instance" ])
    let fails := (lifecycle ++ sharedProps).filterMap id
    -- model's prediction of the order-independent observations
    let runLines : List String :=
      if !s.ran then [] else
      let comps := (allComps sys ++ innerComps s).map compTok
      -- every component exists, so a start fails iff a failure was injected anywhere; every component is shut
      -- down exactly once, so exactly the injected shutdown failures are reported — plus, for a failing shared
      -- inner Shutdown, the instance whose Shutdown ran it (stopOnce: the first instance stopped; from the log)
      let startRes := if s.failS.any (fun l => comps.contains l) then "fail" else "ok"
      let allInsts : List Comp := (groups s).flatMap (fun g => g.2.2.map Comp.node)
      let carrier : List String :=
        (groups s).flatMap (fun (_, inner, insts) =>
          if s.failT.contains (compTok inner) then
            (((spAll.map (·.1)).filter (fun c => insts.any (fun n => Comp.node n == c))).take 1).map compTok
          else [])
      -- (the harness's outer wrapper of a shared instance has no failure switch of its own for Shutdown)
      let instToks := allInsts.map compTok
      let stopErrs := C09.dedup ((s.failT.filter (fun l => comps.contains l && !(instToks.contains l))) ++ carrier)
      [s!"obs start {startRes}", obsList "stops" comps, obsList "stoperr" stopErrs,
        if stopErrs.isEmpty then "obs shutdown ok" else "obs shutdown err"]
    match s.bad with
    | some b => newLines ++ runLines ++ [s!"prop protocol=FAIL sig=C10/harness/unparsable {b}"]
    | none => newLines ++ runLines ++ (if fails.isEmpty then ["prop lifecycle=ok"] else fails)

end OtelVerif.Drivers.C10

def main : IO UInt32 :=
  runMulti [("c10-lifecycle", run OtelVerif.Drivers.C10.handler)]
