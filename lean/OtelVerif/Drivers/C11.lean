import OtelVerif.Common.Line
import OtelVerif.Model.C11
import Std.Data.HashSet
/-! driver for C11: models `c11-reporter` and `c11-shared` -/
open OtelVerif OtelVerif.Line OtelVerif.C11 OtelVerif.Gen

namespace OtelVerif.Drivers.C11

/-- Is there an interleaving of the goroutines' scripts (each a list of reports for ONE instance, in program order) whose run
through the model `step`, starting in `None`, delivers exactly the observed events?  Exhaustive layered search over
(positions, current status, number of events matched); every transition advances one position, so after `total` rounds
only complete interleavings survive.  (A search, not a theorem: a wrong `false` would be a false alarm — the search is
exhaustive —, a wrong `true` only a missed detection.) -/
def linCheck (scripts : List (List Report)) (obs : List St) : Bool :=
  let scr : Array (Array Report) := (scripts.map List.toArray).toArray
  let obsA := obs.toArray
  let total := scripts.foldl (fun a s => a + s.length) 0
  let init : Std.HashSet (List Nat × Nat × Nat) := ({} : Std.HashSet (List Nat × Nat × Nat)).insert (scripts.map (fun _ => 0), St.none.toNat, 0)
  let final := (List.range total).foldl (fun (front : Std.HashSet (List Nat × Nat × Nat)) _ =>
    front.fold (fun acc (st : List Nat × Nat × Nat) =>
      let (pos, cur, k) := st
      (List.range pos.length).foldl (fun acc g =>
        let p := pos.getD g 0
        match (scr.getD g #[])[p]? with
        | Option.none => acc
        | some r =>
          let (cur', ev) := step ((St.ofNat? cur).getD .none) r
          match ev with
          | Option.none => acc.insert (pos.set g (p + 1), cur'.toNat, k)
          | some e => if obsA[k]? == some e then acc.insert (pos.set g (p + 1), cur'.toNat, k + 1) else acc) acc)
      ({} : Std.HashSet (List Nat × Nat × Nat))) init
  final.any (fun st => st.2.2 == obs.length)

structure RS where
  race : Bool := false   -- `mode=race`: nobody reports OK explicitly, so every OK must directly follow Starting
  scripts : List (List (Inst × Report)) := []   -- `mode=conc`: the goroutines' scripts, reversed
  rep : Reporter := {}
  implEvents : List (Inst × St) := []   -- reversed
  bad : Option String := none

def repHandler : Handler RS where
  init := {}
  onCase := fun s toks => { s with race := toks.contains "mode=race" }
  onOp := fun s toks =>
    match toks with
    | ["rep", i, st] =>
      match i.toNat?, st.toNat?.bind St.ofNat? with
      | some i, some st =>
        let (r', ev) := s.rep.report i (.status st)
        ({ s with rep := r' }, [match ev with | some e => s!"obs ev {i} {e.toNat}" | Option.none => "obs invalid"])
      | _, _ => (s, ["obs bad-op"])
    | ["okif", i] =>
      match i.toNat? with
      | some i =>
        let (r', ev) := s.rep.report i .okIfStarting
        ({ s with rep := r' }, [match ev with | some e => s!"obs ev {i} {e.toNat}" | Option.none => "obs nothing"])
      | _ => (s, ["obs bad-op"])
    | _ => (s, ["obs bad-op"])
  onObs := fun s toks =>
    match toks with
    | [_, "ev", i, st] =>
      match i.toNat?, st.toNat?.bind St.ofNat? with
      | some i, some st => { s with implEvents := (i, st) :: s.implEvents }
      | _, _ => { s with bad := some "unparsable event" }
    | _ :: "script" :: _ :: ops =>
      let one (t : String) : Option (Inst × Report) :=
        match t.splitOn ":" with
        | [i, a] =>
          match i.toNat? with
          | some i => if a = "k" then some (i, .okIfStarting) else (a.toNat?.bind St.ofNat?).map (fun st => (i, Report.status st))
          | Option.none => Option.none
        | _ => Option.none
      match ops.mapM one with
      | some l => { s with scripts := l :: s.scripts }
      | Option.none => { s with bad := some "unparsable script" }
    | _ => s
  onEnd := fun s =>
    let evs := s.implEvents.reverse
    let scriptInsts := (s.scripts.flatMap (fun l => l.map (·.1))).eraseDups
    let badLin := if s.scripts.isEmpty then Option.none else
      (scriptInsts ++ (evs.map (·.1))).eraseDups.find? (fun i =>
        !(linCheck (s.scripts.map (fun l => l.filterMap (fun p => if p.1 = i then some p.2 else Option.none))) (evs.filterMap (projEvB i))))
    match badLin with
    | some i => [s!"prop path=FAIL sig=C11/reporter/concurrent-events-not-explained-by-any-interleaving instance={i} events={(evs.filterMap (projEvB i)).map St.toNat}"]
    | Option.none =>
    let insts := (evs.map (·.1)).eraseDups
    let badInst := insts.find? (fun i => !(isPath .none (evs.filterMap (projEvB i))))
    let badDoc := insts.find? (fun i => !(docPathB .none (evs.filterMap (projEvB i))))
    let badOk := if s.race then insts.find? (fun i => !(okPred .none (evs.filterMap (projEvB i)))) else Option.none
    match badOk with
    | some i => [s!"prop path=FAIL sig=C11/reporter/auto-ok-not-from-starting-under-race instance={i} events={(evs.filterMap (projEvB i)).map St.toNat}"]
    | Option.none =>
    match s.bad, badDoc, badInst with
    | some b, _, _ => [s!"prop path=FAIL sig=C11/reporter/unparsable {b}"]
    | Option.none, some i, _ => [s!"prop path=FAIL sig=C11/reporter/violates-documented-machine instance={i} events={(evs.filterMap (projEvB i)).map St.toNat}"]
    | Option.none, Option.none, some i => [s!"prop path=FAIL sig=C11/reporter/not-a-path-of-table instance={i} events={(evs.filterMap (projEvB i)).map St.toNat}"]
    | Option.none, Option.none, Option.none => ["prop path=ok"]
where projEvB (i : Inst) (p : Inst × St) : Option St := if p.1 = i then some p.2 else Option.none

structure SS where
  w : Wrapper := {}
  we : WrapperE := {}   -- the same wrapper, remembering the events shown to every instance's watcher (`C11_shared_events_partial`)
  reportsBeforeLastAttach : Nat := 0
  reports : Nat := 0
  lastImpl : Option (List String) := none

def showSources (w : Wrapper) : String := " ".intercalate (w.sources.map (fun s => toString s.toNat))

def sharedHandler : Handler SS where
  init := {}
  onOp := fun s toks =>
    match toks with
    | ["attach"] =>
      let w := s.w.addSource
      ({ s with w := w, we := s.we.addSource, reportsBeforeLastAttach := s.reports }, [s!"obs src {showSources w}"])
    | ["evs"] =>
      -- every instance's delivered events: the graph's own Starting, then what the wrapper replayed and fanned out
      (s, (List.range s.we.sources.length).map (fun i =>
        s!"obs evs {i} {",".intercalate ((St.starting :: ((s.we.sources.getD i (St.none, [])).2)).map (fun x => toString x.toNat))}"))
    | ["report", st] =>
      match st.toNat?.bind St.ofNat? with
      | some st =>
        let w := s.w.report StatusTable.ringCap st
        ({ s with w := w, we := s.we.report StatusTable.ringCap st, reports := if s.w.sources.isEmpty then s.reports else s.reports + 1 }, [s!"obs src {showSources w}"])
      | Option.none => (s, ["obs bad-op"])
    | _ => (s, ["obs bad-op"])
  onObs := fun s toks =>
    match toks with
    | _ :: "src" :: rest => { s with lastImpl := some rest }
    | _ => s
  onEnd := fun s =>
    match s.lastImpl with
    | Option.none => ["prop shared=ok"]
    | some srcs =>
      if srcs.eraseDups.length ≤ 1 then ["prop shared=ok"]
      -- the recorded finding is exactly the divergence the ring truncation explains: the implementation ends where the
      -- model (whose ring has the regenerated capacity) says it ends; any other divergence is a different violation
      else if s.reportsBeforeLastAttach > StatusTable.ringCap && srcs == s.w.sources.map (fun x => toString x.toNat) then
        [s!"prop shared=FAIL sig=C11/sharedcomponent/ring-overflow-after-sticky sources={srcs}"]
      else [s!"prop shared=FAIL sig=C11/sharedcomponent/instances-diverge-not-explained-by-ring-truncation sources={srcs} model={s.w.sources.map (fun x => x.toNat)}"]

def parseCSV (s : String) : Option (List St) :=
  if s = "-" then some [] else (s.splitOn ",").mapM (fun t => t.toNat?.bind St.ofNat?)

def showCSV (l : List St) : String := if l.isEmpty then "-" else ",".intercalate (l.map (fun s => toString s.toNat))

/-- `c11-life`: per component instance, the events predicted from its life script; the implementation's
event list is additionally judged by the table-independent `docPathB` -/
def lifeHandler : Handler (List String) where
  init := []
  onOp := fun s toks =>
    match toks with
    | "life" :: rest =>
      match kv rest "name", kvNat rest "started", (kv rest "ds").bind parseCSV, kvNat rest "fs", kvNat rest "allok",
            (kv rest "run").bind parseCSV, (kv rest "dstop").bind parseCSV, kvNat rest "fstop" with
      | some name, some st, some ds, some fs, some allok, some rn, some dstop, some fstop =>
        let l : Life := ⟨st = 1, ds, fs = 1, allok = 1, rn, dstop, fstop = 1⟩
        (s, [s!"obs events {name} {showCSV l.events}"])
      | _, _, _, _, _, _, _, _ => (s, ["obs bad-op"])
    | "shared" :: rest =>
      match kv rest "x", kv rest "y", kvNat rest "sx", kvNat rest "sy", (kv rest "ds").bind parseCSV, kvNat rest "allok",
            (kv rest "run").bind parseCSV, kvNat rest "pisx", (kv rest "dstop").bind parseCSV, kvNat rest "fstop" with
      | some x, some y, some sx, some sy, some ds, some allok, some rn, some pisx, some dstop, some fstop =>
        let l : SharedLife := ⟨sx = 1, sy = 1, ds, allok = 1, rn, pisx = 1, dstop, fstop = 1, kvNat rest "fstart" == some 1⟩
        (s, [s!"obs events {x} {showCSV l.eventsX}", s!"obs events {y} {showCSV (l.eventsY StatusTable.ringCap)}"])
      | _, _, _, _, _, _, _, _, _, _ => (s, ["obs bad-op"])
    | _ => (s, ["obs bad-op"])
  onObs := fun s toks =>
    match toks with
    | [_, "events", name, csv] =>
      match parseCSV csv with
      | some evs => if docPathB .none evs then s else s ++ [s!"sig=C11/graph/violates-documented-machine instance={name} events={csv}"]
      | Option.none => s ++ [s!"sig=C11/graph/unparsable {name}"]
    | _ => s
  onEnd := fun s =>
    match s with
    | [] => ["prop path=ok"]
    | f :: _ => [s!"prop path=FAIL {f}"]

end OtelVerif.Drivers.C11

def main : IO UInt32 :=
  runMulti [("c11-reporter", run OtelVerif.Drivers.C11.repHandler), ("c11-shared", run OtelVerif.Drivers.C11.sharedHandler),
    ("c11-life", run OtelVerif.Drivers.C11.lifeHandler)]
