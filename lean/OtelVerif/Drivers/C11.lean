import OtelVerif.Common.Line
import OtelVerif.Model.C11
import OtelVerif.Model.C11Sys
import OtelVerif.Model.C11Inst
import Std.Data.HashSet
/-! driver for C11: models `c11-reporter` and `c11-shared` -/
open OtelVerif OtelVerif.Line OtelVerif.C11 OtelVerif.Gen

namespace OtelVerif.Drivers.C11

/-- Is there an interleaving of the goroutines' scripts (each a list of reports for ONE instance, in program order) whose run
through the model `step`, starting in `None`, delivers exactly the observed events?  Exhaustive layered search over
(positions, current status, number of events matched); every transition advances one position, so after `total` rounds
only complete interleavings survive.  (A search, not a theorem: a wrong `false` would be a false alarm — the search is
exhaustive —, a wrong `true` only a missed detection.) -/
def linCheck (scripts : List (List Report)) (obs : List St) : Bool :=
  let scr : Array (Array Report) := (scripts.map List.toArray).toArray
  let obsA := obs.toArray
  let total := scripts.foldl (fun a s => a + s.length) 0
  let init : Std.HashSet (List Nat × Nat × Nat) := ({} : Std.HashSet (List Nat × Nat × Nat)).insert (scripts.map (fun _ => 0), St.none.toNat, 0)
  let final := (List.range total).foldl (fun (front : Std.HashSet (List Nat × Nat × Nat)) _ =>
    front.fold (fun acc (st : List Nat × Nat × Nat) =>
      let (pos, cur, k) := st
      (List.range pos.length).foldl (fun acc g =>
        let p := pos.getD g 0
        match (scr.getD g #[])[p]? with
        | Option.none => acc
        | some r =>
          let (cur', ev) := step ((St.ofNat? cur).getD .none) r
          match ev with
          | Option.none => acc.insert (pos.set g (p + 1), cur'.toNat, k)
          | some e => if obsA[k]? == some e then acc.insert (pos.set g (p + 1), cur'.toNat, k + 1) else acc) acc)
      ({} : Std.HashSet (List Nat × Nat × Nat))) init
  final.any (fun st => st.2.2 == obs.length)

structure RS where
  race : Bool := false   -- `mode=race`: nobody reports OK explicitly, so every OK must directly follow Starting
  scripts : List (List (Inst × Report)) := []   -- `mode=conc`: the goroutines' scripts, reversed
  rep : Reporter := {}
  implEvents : List (Inst × St) := []   -- reversed
  bad : Option String := none

def repHandler : Handler RS where
  init := {}
  onCase := fun s toks => { s with race := toks.contains "mode=race" }
  onOp := fun s toks =>
    match toks with
    | ["rep", i, st] =>
      match i.toNat?, st.toNat?.bind St.ofNat? with
      | some i, some st =>
        let (r', ev) := s.rep.report i (.status st)
        ({ s with rep := r' }, [match ev with | some e => s!"obs ev {i} {e.toNat}" | Option.none => "obs invalid"])
      | _, _ => (s, ["obs bad-op"])
    | ["okif", i] =>
      match i.toNat? with
      | some i =>
        let (r', ev) := s.rep.report i .okIfStarting
        ({ s with rep := r' }, [match ev with | some e => s!"obs ev {i} {e.toNat}" | Option.none => "obs nothing"])
      | _ => (s, ["obs bad-op"])
    | _ => (s, ["obs bad-op"])
  onObs := fun s toks =>
    match toks with
    | [_, "ev", i, st] =>
      match i.toNat?, st.toNat?.bind St.ofNat? with
      | some i, some st => { s with implEvents := (i, st) :: s.implEvents }
      | _, _ => { s with bad := some "unparsable event" }
    | _ :: "script" :: _ :: ops =>
      let one (t : String) : Option (Inst × Report) :=
        match t.splitOn ":" with
        | [i, a] =>
          match i.toNat? with
          | some i => if a = "k" then some (i, .okIfStarting) else (a.toNat?.bind St.ofNat?).map (fun st => (i, Report.status st))
          | Option.none => Option.none
        | _ => Option.none
      match ops.mapM one with
      | some l => { s with scripts := l :: s.scripts }
      | Option.none => { s with bad := some "unparsable script" }
    | _ => s
  onEnd := fun s =>
    let evs := s.implEvents.reverse
    let scriptInsts := (s.scripts.flatMap (fun l => l.map (·.1))).eraseDups
    let badLin := if s.scripts.isEmpty then Option.none else
      (scriptInsts ++ (evs.map (·.1))).eraseDups.find? (fun i =>
        !(linCheck (s.scripts.map (fun l => l.filterMap (fun p => if p.1 = i then some p.2 else Option.none))) (evs.filterMap (projEvB i))))
    match badLin with
    | some i => [s!"prop path=FAIL sig=C11/reporter/concurrent-events-not-explained-by-any-interleaving instance={i} events={(evs.filterMap (projEvB i)).map St.toNat}"]
    | Option.none =>
    let insts := (evs.map (·.1)).eraseDups
    let badInst := insts.find? (fun i => !(isPath .none (evs.filterMap (projEvB i))))
    let badDoc := insts.find? (fun i => !(docPathB .none (evs.filterMap (projEvB i))))
    let badOk := if s.race then insts.find? (fun i => !(okPred .none (evs.filterMap (projEvB i)))) else Option.none
    match badOk with
    | some i => [s!"prop path=FAIL sig=C11/reporter/auto-ok-not-from-starting-under-race instance={i} events={(evs.filterMap (projEvB i)).map St.toNat}"]
    | Option.none =>
    match s.bad, badDoc, badInst with
    | some b, _, _ => [s!"prop path=FAIL sig=C11/reporter/unparsable {b}"]
    | Option.none, some i, _ => [s!"prop path=FAIL sig=C11/reporter/violates-documented-machine instance={i} events={(evs.filterMap (projEvB i)).map St.toNat}"]
    | Option.none, Option.none, some i => [s!"prop path=FAIL sig=C11/reporter/not-a-path-of-table instance={i} events={(evs.filterMap (projEvB i)).map St.toNat}"]
    | Option.none, Option.none, Option.none => ["prop path=ok"]
where projEvB (i : Inst) (p : Inst × St) : Option St := if p.1 = i then some p.2 else Option.none

structure SS where
  w : Wrapper := {}
  we : WrapperE := {}   -- the same wrapper, remembering the events shown to every instance's watcher (`C11_shared_events_partial`)
  reportsBeforeLastAttach : Nat := 0
  reports : Nat := 0
  lastImpl : Option (List String) := none

def showSources (w : Wrapper) : String := " ".intercalate (w.sources.map (fun s => toString s.toNat))

def sharedHandler : Handler SS where
  init := {}
  onOp := fun s toks =>
    match toks with
    | ["attach"] =>
      let w := s.w.addSource
      ({ s with w := w, we := s.we.addSource, reportsBeforeLastAttach := s.reports }, [s!"obs src {showSources w}"])
    | ["evs"] =>
      -- every instance's delivered events: the graph's own Starting, then what the wrapper replayed and fanned out
      (s, (List.range s.we.sources.length).map (fun i =>
        s!"obs evs {i} {",".intercalate ((St.starting :: ((s.we.sources.getD i (St.none, [])).2)).map (fun x => toString x.toNat))}"))
    | ["report", st] =>
      match st.toNat?.bind St.ofNat? with
      | some st =>
        let w := s.w.report StatusTable.ringCap st
        ({ s with w := w, we := s.we.report StatusTable.ringCap st, reports := if s.w.sources.isEmpty then s.reports else s.reports + 1 }, [s!"obs src {showSources w}"])
      | Option.none => (s, ["obs bad-op"])
    | _ => (s, ["obs bad-op"])
  onObs := fun s toks =>
    match toks with
    | _ :: "src" :: rest => { s with lastImpl := some rest }
    | _ => s
  onEnd := fun s =>
    match s.lastImpl with
    | Option.none => ["prop shared=ok"]
    | some srcs =>
      if srcs.eraseDups.length ≤ 1 then ["prop shared=ok"]
      -- the recorded finding is exactly the divergence the ring truncation explains: the implementation ends where the
      -- model (whose ring has the regenerated capacity) says it ends; any other divergence is a different violation
      else if s.reportsBeforeLastAttach > StatusTable.ringCap && srcs == s.w.sources.map (fun x => toString x.toNat) then
        [s!"prop shared=FAIL sig=C11/sharedcomponent/ring-overflow-after-sticky sources={srcs}"]
      else [s!"prop shared=FAIL sig=C11/sharedcomponent/instances-diverge-not-explained-by-ring-truncation sources={srcs} model={s.w.sources.map (fun x => x.toNat)}"]

def parseCSV (s : String) : Option (List St) :=
  if s = "-" then some [] else (s.splitOn ",").mapM (fun t => t.toNat?.bind St.ofNat?)

def showCSV (l : List St) : String := if l.isEmpty then "-" else ",".intercalate (l.map (fun s => toString s.toNat))

/-- `c11-life`: per component instance, the events predicted from its life script; the implementation's
event list is additionally judged by the table-independent `docPathB` -/
def lifeHandler : Handler (List String) where
  init := []
  onOp := fun s toks =>
    match toks with
    | "life" :: rest =>
      match kv rest "name", kvNat rest "started", (kv rest "ds").bind parseCSV, kvNat rest "fs", kvNat rest "allok",
            (kv rest "run").bind parseCSV, (kv rest "dstop").bind parseCSV, kvNat rest "fstop" with
      | some name, some st, some ds, some fs, some allok, some rn, some dstop, some fstop =>
        let l : Life := ⟨st = 1, ds, fs = 1, allok = 1, rn, dstop, fstop = 1⟩
        (s, [s!"obs events {name} {showCSV l.events}"])
      | _, _, _, _, _, _, _, _ => (s, ["obs bad-op"])
    | "shared" :: rest =>
      match kv rest "x", kv rest "y", kvNat rest "sx", kvNat rest "sy", (kv rest "ds").bind parseCSV, kvNat rest "allok",
            (kv rest "run").bind parseCSV, kvNat rest "pisx", (kv rest "dstop").bind parseCSV, kvNat rest "fstop" with
      | some x, some y, some sx, some sy, some ds, some allok, some rn, some pisx, some dstop, some fstop =>
        let l : SharedLife := ⟨sx = 1, sy = 1, ds, allok = 1, rn, pisx = 1, dstop, fstop = 1, kvNat rest "fstart" == some 1⟩
        (s, [s!"obs events {x} {showCSV l.eventsX}", s!"obs events {y} {showCSV (l.eventsY StatusTable.ringCap)}"])
      | _, _, _, _, _, _, _, _, _, _ => (s, ["obs bad-op"])
    | _ => (s, ["obs bad-op"])
  onObs := fun s toks =>
    match toks with
    | [_, "events", name, csv] =>
      match parseCSV csv with
      | some evs => if docPathB .none evs then s else s ++ [s!"sig=C11/graph/violates-documented-machine instance={name} events={csv}"]
      | Option.none => s ++ [s!"sig=C11/graph/unparsable {name}"]
    | _ => s
  onEnd := fun s =>
    match s with
    | [] => ["prop path=ok"]
    | f :: _ => [s!"prop path=FAIL {f}"]

/-! ## `c11-sys`: a whole service run (extensions, pipeline component instances in start / stop order, shared components with any
number of instances) through the code-shaped glue model `Sys` of `Model/C11Sys.lean` -/

structure YS where
  shared : List Script := []
  exts : List Node := []
  start : List Node := []
  stop : List Inst := []
  names : List (Inst × String) := []
  impl : List (Inst × List St) := []      -- the implementation's events per instance
  model : List (Inst × List St) := []
  allOk : Bool := false
  bad : Option String := none

def parseScript (rest : List String) : Option Script :=
  match (kv rest "ds").bind parseCSV, kvNat rest "fs", (kv rest "run").bind parseCSV, (kv rest "dstop").bind parseCSV, kvNat rest "fstop" with
  | some ds, some fs, some rn, some dstop, some fstop => some ⟨ds, fs = 1, rn, dstop, fstop = 1⟩
  | _, _, _, _, _ => Option.none

def parseNode (rest : List String) : Option Node :=
  match kvNat rest "inst", kv rest "kind" with
  | some i, some "plain" => (parseScript rest).map (fun sc => ⟨i, .plain sc⟩)
  | some i, some "shared" => (kvNat rest "k").map (fun k => ⟨i, .shared k⟩)
  | _, _ => Option.none

def sysHandler : Handler YS where
  init := {}
  onOp := fun s toks =>
    match toks with
    | "shared" :: rest =>
      match parseScript rest with
      | some sc => ({ s with shared := s.shared ++ [sc] }, [])
      | Option.none => (s, ["obs bad-op"])
    | "ext" :: rest =>
      match parseNode rest with
      | some n => ({ s with exts := s.exts ++ [n], names := s.names ++ [(n.inst, (kv rest "name").getD "?")] }, [])
      | Option.none => (s, ["obs bad-op"])
    | "node" :: rest =>
      match parseNode rest with
      | some n => ({ s with start := s.start ++ [n], names := s.names ++ [(n.inst, (kv rest "name").getD "?")] }, [])
      | Option.none => (s, ["obs bad-op"])
    | "stoporder" :: rest =>
      match rest.mapM String.toNat? with
      | some l => ({ s with stop := l }, [])
      | Option.none => (s, ["obs bad-op"])
    | ["sysrun"] =>
      match s.stop.mapM (fun i => s.start.find? (fun n => n.inst == i)) with
      | Option.none => (s, ["obs bad-op"])
      | some stopNodes =>
        if stopNodes.length != s.start.length then (s, ["obs bad-op"]) else
        let sys : Sys := { exts := s.exts, startOrder := s.start, stopOrder := stopNodes, shared := s.shared }
        let insts := ((s.exts ++ s.start).map (·.inst)).eraseDups.mergeSort (· ≤ ·)
        let model := insts.map (fun i => (i, sys.events StatusTable.ringCap i))
        let g0 : GState := { scs := s.shared.map (fun sc => { script := sc }) }
        let ok := (sys.startLayers StatusTable.ringCap StatusGlue.serviceStart g0).2.2
        ({ s with model := model, allOk := ok },
         model.map (fun p => s!"obs events {p.1} {(s.names.lookup p.1).getD "?"} {showCSV p.2}"))
    | _ => (s, ["obs bad-op"])
  onObs := fun s toks =>
    match toks with
    | [_, "events", i, _, csv] =>
      match i.toNat?, parseCSV csv with
      | some i, some evs => { s with impl := s.impl ++ [(i, evs)] }
      | _, _ => { s with bad := some "unparsable events line" }
    | _ => s
  onEnd := fun s =>
    match s.bad with
    | some b => [s!"prop path=FAIL sig=C11/sys/unparsable {b}"]
    | Option.none =>
    let path :=
      match s.impl.find? (fun p => !(docPathB .none p.2)) with
      | some p => s!"prop path=FAIL sig=C11/sys/violates-documented-machine instance={(s.names.lookup p.1).getD "?"} events={showCSV p.2}"
      | Option.none => "prop path=ok"
    -- shared delivery, judged on the IMPLEMENTATION's events: after a successful start-up all instances of one shared component
    -- have been shown the same events until the service starts stopping them one by one
    let ks := (List.range s.shared.length)
    let verdicts := ks.filterMap (fun k =>
      let is := (s.start.filter (fun n => n.kind == .shared k)).map (·.inst)
      let evs := is.map (fun i => beforeStopping ((s.impl.lookup i).getD []))
      if !s.allOk || (evs.eraseDups.length ≤ 1) then Option.none
      else
        let ds := ((s.shared.getD k {}).duringStart).length
        if ds + 1 > StatusTable.ringCap && is.all (fun i => s.impl.lookup i == s.model.lookup i) then
          some s!"prop shared=FAIL sig=C11/sharedcomponent/ring-overflow-after-sticky shared={k} events-before-stopping={evs.map showCSV}"
        else some s!"prop shared=FAIL sig=C11/sys/shared-instances-shown-different-events shared={k} events-before-stopping={evs.map showCSV}")
    path :: (if verdicts.isEmpty then ["prop shared=ok"] else verdicts)

/-! ## `c11-sc`: `sharedcomponent.Component` under arbitrary call sequences (`SC.fire`) -/

def showOps (ops : List Op) : String :=
  if ops.isEmpty then "-" else
  ",".intercalate (ops.map (fun p => match p.2 with
    | .status s => s!"{p.1}:{s.toNat}"
    | .okIfStarting => s!"{p.1}:k"))

structure CS where
  c : Option SC := Option.none
  -- for the direct oracle on the IMPLEMENTATION's lines (the statement of `C11_shared_delivers_after_attach`):
  attached : List Inst := []        -- instances whose Start was called with a reporting host, so far
  everStarted : Bool := false       -- some Start has been called (the inner component has its host)
  pending : Option St := Option.none  -- the inner component has just reported this status
  bad : Option String := Option.none

def scHandler : Handler CS where
  init := {}
  onOp := fun s toks =>
    let line (c : SC) (ops : List Op) (err : Bool) : String :=
      s!"obs reports {showOps ops} err={if err then 1 else 0} starts={c.innerStarts} stops={c.innerStops}"
    match toks, s.c with
    | "script" :: rest, _ =>
      match parseScript rest with
      | some sc => ({ s with c := some { script := sc } }, [])
      | Option.none => (s, ["obs bad-op"])
    | "start" :: rest, some c =>
      match kvNat rest "inst", kvNat rest "rep" with
      | some i, some r =>
        let x := c.start StatusTable.ringCap i (r = 1)
        ({ s with c := some x.1, attached := if r = 1 then s.attached ++ [i] else s.attached, everStarted := true, pending := Option.none },
         [line x.1 x.2.1 x.2.2])
      | _, _ => (s, ["obs bad-op"])
    | ["shutdown"], some c =>
      let x := c.shutdown StatusTable.ringCap
      ({ s with c := some x.1, pending := Option.none }, [line x.1 x.2.1 x.2.2])
    | "report" :: rest, some c =>
      match (kvNat rest "st").bind St.ofNat? with
      | some e =>
        let x := c.fire StatusTable.ringCap (.report e)
        ({ s with c := some x.1, pending := if s.everStarted then some e else Option.none }, [line x.1 x.2 false])
      | Option.none => (s, ["obs bad-op"])
    | _, _ => (s, ["obs bad-op"])
  onObs := fun s toks =>
    match toks, s.pending with
    | _ :: "reports" :: csv :: _, some e =>
      let got := if csv = "-" then [] else csv.splitOn ","
      match s.attached.find? (fun i => !(got.contains s!"{i}:{e.toNat}")) with
      | some i => { s with pending := Option.none, bad := s.bad.orElse (fun _ => some s!"instance={i} status={e.toNat} delivered={csv}") }
      | Option.none => { s with pending := Option.none }
    | _, _ => s
  onEnd := fun s =>
    (match s.bad with
     | some b => [s!"prop delivery=FAIL sig=C11/sharedcomponent/report-not-delivered-to-an-attached-instance {b}"]
     | Option.none => ["prop delivery=ok"]) ++
    (match s.c with
     | some c => if c.innerStarts ≤ 1 && c.innerStops ≤ 1 then ["prop once=ok"] else ["prop once=FAIL sig=C11/sharedcomponent/model-started-inner-twice"]
     | Option.none => ["prop once=ok"])

/-! ## `c11-inst`: `componentstatus.InstanceID` -/

structure IS where
  cur : IID := ⟨0, 0, []⟩

def parseNats (s : String) : Option (List Nat) :=
  if s = "-" then some [] else (s.splitOn ",").mapM String.toNat?

def showNats (l : List Nat) : String := if l.isEmpty then "-" else ",".intercalate (l.map toString)

def instHandler : Handler IS where
  init := {}
  onOp := fun s toks =>
    match toks with
    | "new" :: rest =>
      match (kv rest "pipes").bind parseNats with
      | some ps => let i := IID.new 0 0 ps; ({ cur := i }, [s!"obs pipes {showNats i.pipes}"])
      | Option.none => (s, ["obs bad-op"])
    | "with" :: rest =>
      match (kv rest "pipes").bind parseNats with
      | some ps => let i := s.cur.withPipelines ps; ({ cur := i }, [s!"obs pipes {showNats i.pipes}", s!"obs old {showNats s.cur.pipes}"])
      | Option.none => (s, ["obs bad-op"])
    | "visit" :: rest =>
      match kvNat rest "k" with
      | some k => (s, [s!"obs visited {showNats (s.cur.visit k)}"])
      | Option.none => (s, ["obs bad-op"])
    | "alt" :: rest =>
      match (kv rest "new").bind parseNats, (kv rest "with").bind parseNats with
      | some a, some b => (s, [s!"obs eq {if (IID.new 0 0 a).withPipelines b = s.cur then 1 else 0}"])
      | _, _ => (s, ["obs bad-op"])
    | _ => (s, ["obs bad-op"])
  onEnd := fun _ => ["prop inst=ok"]

end OtelVerif.Drivers.C11

def main : IO UInt32 :=
  runMulti [("c11-reporter", run OtelVerif.Drivers.C11.repHandler), ("c11-shared", run OtelVerif.Drivers.C11.sharedHandler),
    ("c11-life", run OtelVerif.Drivers.C11.lifeHandler), ("c11-sys", run OtelVerif.Drivers.C11.sysHandler),
    ("c11-inst", run OtelVerif.Drivers.C11.instHandler), ("c11-sc", run OtelVerif.Drivers.C11.scHandler)]
