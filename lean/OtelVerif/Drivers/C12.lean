import OtelVerif.Common.Line
import OtelVerif.Model.C12
import OtelVerif.Model.C12Append
import OtelVerif.Model.C12Loc
/-! driver for C12: model `c12-resolve` -/
open OtelVerif OtelVerif.Line OtelVerif.C12

namespace OtelVerif.Drivers.C12

/-! ### value encoding (one token, no spaces)
`n` null · `t`/`f` bool · `i<dec>;` int · `d<hex>;` float bits · `o<hex>;` other atom · `s<hex>;` string ·
`l<n>;` then n values · `m<n>;` then n × (`<keyhex>;` value) · `x<orighex>;` then the value (expandedValue) -/

def takeUntilSemi (cs : List Char) : Option (List Char × List Char) :=
  let a := cs.takeWhile (· != ';')
  match cs.drop a.length with
  | ';' :: rest => some (a, rest)
  | _ => none

def unhexStr (cs : List Char) : Option Str :=
  if cs.isEmpty then some [] else (unhexBytes (String.ofList cs)).map (·.map Char.ofNat)

def hexStr (s : Str) : String :=
  String.ofList (s.flatMap (fun c => [hexDigit (c.toNat / 16 % 16), hexDigit (c.toNat % 16)]))

mutual
partial def parseVal (cs : List Char) : Option (Val × List Char) :=
  match cs with
  | 'n' :: r => some (.null, r)
  | 't' :: r => some (.bool true, r)
  | 'f' :: r => some (.bool false, r)
  | 'i' :: r => do
    let (a, r') ← takeUntilSemi r
    let i ← (String.ofList a).toInt?
    pure (.int i, r')
  | 'd' :: r => do
    let (a, r') ← takeUntilSemi r
    let bs ← unhexStr a
    pure (.float (bs.foldl (fun acc c => acc * 256 + c.toNat) 0), r')
  | 'o' :: r => do
    let (a, r') ← takeUntilSemi r
    pure (.other (← unhexStr a), r')
  | 's' :: r => do
    let (a, r') ← takeUntilSemi r
    pure (.str (← unhexStr a), r')
  | 'x' :: r => do
    let (a, r') ← takeUntilSemi r
    let o ← unhexStr a
    let (v, r'') ← parseVal r'
    pure (.expanded v o, r'')
  | 'l' :: r => do
    let (a, r') ← takeUntilSemi r
    let n ← (String.ofList a).toNat?
    let (xs, r'') ← parseVals n r'
    pure (.list (Vals.ofList xs), r'')
  | 'm' :: r => do
    let (a, r') ← takeUntilSemi r
    let n ← (String.ofList a).toNat?
    let (kvs, r'') ← parseKVs n r'
    pure (.map (KVs.ofList kvs), r'')
  | _ => none
partial def parseVals (n : Nat) (cs : List Char) : Option (List Val × List Char) :=
  if n = 0 then some ([], cs) else do
    let (v, r) ← parseVal cs
    let (vs, r') ← parseVals (n - 1) r
    pure (v :: vs, r')
partial def parseKVs (n : Nat) (cs : List Char) : Option (List (Str × Val) × List Char) :=
  if n = 0 then some ([], cs) else do
    let (a, r) ← takeUntilSemi cs
    let k ← unhexStr a
    let (v, r') ← parseVal r
    let (kvs, r'') ← parseKVs (n - 1) r'
    pure ((k, v) :: kvs, r'')
end

def parseValTok (t : String) : Option Val :=
  match parseVal t.toList with
  | some (v, []) => some v
  | _ => none

def floatHex (bits : Nat) : String :=
  String.ofList ((List.range 8).reverse.flatMap (fun i =>
    let b := bits / (256 ^ i) % 256
    [hexDigit (b / 16), hexDigit (b % 16)]))

partial def showVal : Val → String
  | .null => "n"
  | .bool true => "t"
  | .bool false => "f"
  | .int i => s!"i{i};"
  | .float b => s!"d{floatHex b};"
  | .other t => s!"o{hexStr t};"
  | .str s => s!"s{hexStr s};"
  | .expanded v o => s!"x{hexStr o};" ++ showVal v
  | .list xs => s!"l{xs.toList.length};" ++ String.join (xs.toList.map showVal)
  | .map m =>
    let kvs := m.toList.mergeSort (fun a b => !strLt b.1 a.1)
    s!"m{kvs.length};" ++ String.join (kvs.map (fun kv => s!"{hexStr kv.1};" ++ showVal kv.2))

def showErr : Err → String
  | .dollarInName => "dollar-in-name"
  | .provider => "provider"
  | .invalidURI => "invalid-uri"
  | .unsupportedScheme => "unsupported-scheme"
  | .noString => "no-string"
  | .tooMany => "too-many"
  | .notMap => "not-map"

/-! ### tokens: `L<hex>` lit · `C` close · `E` esc · `D` dollar · `R<schemehex>:<namehex>` · `N<namehex>` -/

def parseTok (t : String) : Option Tok :=
  match t.toList with
  | ['C'] => some .close
  | ['E'] => some .esc
  | ['D'] => some .dollar
  | 'L' :: r => (unhexStr r).map .lit
  | 'N' :: r => (unhexStr r).map (.ref none)
  | 'R' :: r =>
    let a := r.takeWhile (· != ':')
    match r.drop a.length with
    | ':' :: b => do
      let sc ← unhexStr a
      let nm ← unhexStr b
      pure (.ref (some sc) nm)
    | _ => none
  | _ => none

def parseToks (t : String) : Option (List Tok) :=
  if t = "-" then some [] else (t.splitOn ",").mapM parseTok

/-! ### state -/

structure St where
  mode : Mode := .fixed
  gate : Bool := false         -- confmap.enableMergeAppendOption
  defaultScheme : Option Str := none
  schemes : List Str := []
  provs : List ((Str × Str) × Retrieved) := []
  srcs : List Val := []          -- reversed
  toks : List (Str × List Tok) := []
  implRes : Option Val := none   -- the implementation's `obs res ok …`
  implErr : Bool := false
  bad : Option String := none
  tokOnly : Bool := false
  caseIdx : Nat := 0
  retrieved : List (Str × Str) := []          -- `tr retrieved`: provider calls the implementation made
  wantExact : List (Str × String) := []       -- top-level key, encoded value the result must hold exactly
  leafAll : Bool := false
  dname : Bool := false        -- the case holds exactly one reference and its name has a `$`
  implErrClass : String := ""
  wants : List (Str × Bool × Str × String) := []   -- key, nested?, original text, yaml kind
  implTyped : List (Str × List String) := []
  wantc : List (Str × String × String) := []   -- key, expected container (encoded), yaml kind
  implStrmap : Option Val := none

def St.env (s : St) : Env :=
  { mode := s.mode, defaultScheme := s.defaultScheme, schemes := s.schemes,
    prov := fun sc nm => (s.provs.find? (fun e => e.1.1 == sc && e.1.2 == nm)).map (·.2) }

def showOptStr : Option Str → String
  | some s => s!"s{hexStr s};"
  | none => "err"

def showTyped (v : Val) : String :=
  let sv := showOptStr (decodeString v)
  let ps := match decodePtrString v with
    | some (some s) => s!"s{hexStr s};"
    | some none => "nil"
    | none => "err"
  let plain := sanitize false v
  let nv := match plain with
    | .other _ => "skip"
    | _ => showOptStr (decodeNestedString v)
  let iv := match plain with
    | .float _ | .other _ => "skip"
    | _ => match decodeInt v with | some i => s!"{i}" | none => "err"
  let bv := match decodeBool v with | some true => "t" | some false => "f" | none => "err"
  let ss := match plain with
    | .other _ => "skip"
    | _ => match decodeStringSlice v with
      | some l => showVal (.list (Vals.ofList (l.map .str)))
      | none => "err"
  let ms := match plain with
    | .other _ => "skip"
    | _ => match decodeStringMap v with
      | some l => showVal (.map (KVs.ofList (l.map (fun (kv : Str × Str) => (kv.1, Val.str kv.2)))))
      | none => "err"
  let fl := match plain with
    | .other _ => "skip"
    | _ => match decodeFloat v with | some b => s!"B{floatHex b}" | none => "err"
  let tx := match plain with
    | .other _ => "skip"
    | _ => showOptStr (decodeText v)
  s!"s={sv} ns={sv} ps={ps} n={nv} ss={ss} ms={ms} fl={fl} tx={tx} a={showVal (decodeAny v)} i={iv} b={bv}"

partial def hasExpanded : Val → Bool
  | .expanded .. => true
  | .list xs => xs.toList.any hasExpanded
  | .map m => m.toList.any (fun kv => hasExpanded kv.2)
  | _ => false

def isEscCandidate : List Tok → Bool
  | .esc :: .lit ('{' :: _) :: _ => true
  | _ :: ts => isEscCandidate ts
  | [] => false

def hasRef (ts : List Tok) : Bool := numRefs ts > 0

/-- the search oracle for the expansion clause: the implementation's value at `key` must be `sem toks` -/
def checkTok (env : Env) (res : KVs) (key : Str) (toks : List Tok) : Option String :=
  if !(tokOK env toks && numRefs toks < env.fuel) then none else
  match sem env toks with
  | none => none
  | some want =>
    let got := (res.lookup key).bind decodeString
    if got == some want then none else
      let area :=
        if isEscCandidate toks && hasRef toks then "expand/escaped-and-real-reference"
        else if hasRef toks then "expand/reference-value-wrong"
        else "escape/unescape-wrong"
      let gotS := match got with | some g => hexStr g | none => "none"
      some s!"sig=C12/{area} key={hexStr key} want={hexStr want} got={gotS}"

def isInfix (pat : Str) : Str → Bool
  | [] => pat.isEmpty
  | c :: r => pat.isPrefixOf (c :: r) || isInfix pat r

/-- the search oracle for "every reference is replaced, provider values included": when resolution succeeded and no
escape can be involved, no complete reference to an existing provider key is left in any string of the result -/
def checkLeftover (s : St) (res : Val) : Option String :=
  let env := s.env
  let inputs := s.srcs.flatMap valStrings
    ++ s.provs.flatMap (fun e => valStrings e.2.raw ++ (match e.2.strRep with | some r => [r] | none => []))
  if !inputs.all dollarsOpen then none else
  match (valStrings res).findSome? (fun str => (leftoverRef env str).map (fun k => (k, str))) with
  | none => none
  | some ((sc, nm), str) =>
    let self := '$' :: '{' :: sc ++ ':' :: nm ++ ['}']
    let cyc := match (env.prov sc nm).bind Retrieved.asString with
      | some v => isInfix self v
      | none => false
    let sig := if cyc then "C12/cycle/returned-as-fixed-point" else "C12/expand/known-reference-left-in-output"
    some s!"sig={sig} ref={hexStr sc}:{hexStr nm} in={hexStr str}"

/-- the search oracle for "its original text when assigned to a string field": a whole-value reference whose provider
text is `txt` (free of `$`) must show exactly `txt` in every string-kind target, whatever YAML type the text parses to -/
def checkWants (s : St) : Option String :=
  s.wants.findSome? (fun (k, nested, txt, kind) =>
    match s.implTyped.find? (fun e => e.1 == k) with
    | none => none
    | some (_, fields) =>
      let want := s!"s{hexStr txt};"
      let targets : List (String × String) :=
        if nested then [("n", "nested-struct-string")]
        else [("s", "string"), ("ns", "named-string"), ("ps", "ptr-string")]
      targets.findSome? (fun (f, tname) =>
        match kv fields f with
        | some got => if got == want then none else
            some s!"sig=C12/typed/string-field-lost-original-text/{kind}/{tname} key={hexStr k} want={want} got={got}"
        | none => some s!"sig=C12/harness/typed-field-missing {f}"))

/-- stringy containers: every element / value that is a whole-value reference must be its original text -/
def checkContainers (s : St) : Option String :=
  s.wantc.findSome? (fun (k, want, kind) =>
    match s.implTyped.find? (fun e => e.1 == k) with
    | none => none
    | some (_, fields) =>
      let (f, tname) := if want.startsWith "l" then ("ss", "string-slice-element") else ("ms", "string-map-value")
      match kv fields f with
      | some got => if got == want then none else
          some s!"sig=C12/typed/string-field-lost-original-text/{kind}/{tname} key={hexStr k} want={want} got={got}"
      | none => some s!"sig=C12/harness/typed-field-missing {f}")

def checkLeaks (s : St) : Option String :=
  match s.implStrmap with
  | some v => if hasExpanded v then some "sig=C12/typed/expanded-value-leaked/tostringmap" else
      s.implTyped.findSome? (fun (k, fields) =>
        match kv fields "a" with
        | some "panic" => some s!"sig=C12/typed/panic/any-field key={hexStr k}"
        | some a => (match parseValTok a with
            | some v => if hasExpanded v then some s!"sig=C12/typed/expanded-value-leaked/any-field key={hexStr k}" else none
            | none => none)
        | none => none)
  | none => none

partial def uniqueKeys : Val → Bool
  | .map m =>
    let ks := m.toList.map (·.1)
    ks.eraseDups.length == ks.length && m.toList.all (fun kv => uniqueKeys kv.2)
  | _ => true

/-- `C12_resolve_lookup` evaluated on the implementation's result (every 5th case): under every leaf path of the merged
sources the implementation holds `resolveValue` of the merged value -/
def checkLeafPaths (s : St) (res : KVs) : Option String :=
  if s.caseIdx % 5 != 0 && !s.leafAll then none else
  match s.srcs.reverse.mapM asConf with
  | none => none
  | some ms =>
    if !ms.all (fun m => uniqueKeys (.map m)) then none else
    let env := s.env
    (flatten [] (mergeSourcesGate s.gate ms)).findSome? (fun (p, v) =>
      match resolveValue env v with
      | .error _ => none
      | .ok v' =>
        let got := match lookupPath p res with | some x => showVal x | none => "none"
        if got == showVal v' then none else
          some s!"sig=C12/resolve/leaf-path-value-mismatch path={" ".intercalate (p.map hexStr)} want={showVal v'} got={got}")

/-- every `$` starts a plain `${body}` (body without `$ { }`): no reference can be built by concatenation or nesting -/
def simpleRefs : Str → Bool
  | [] => true
  | c :: r =>
    if c = '$' then
      match r with
      | '{' :: r2 =>
        let body := r2.takeWhile (fun x => x != '}')
        body.length < r2.length && !body.any (fun x => x == '$' || x == '{') && simpleRefs (r2.drop (body.length + 1))
      | _ => false
    else simpleRefs r
  termination_by s => s.length
  decreasing_by all_goals simp_wf <;> (try simp [List.length_drop]) <;> omega

/-- the provider keys named by the plain references of a string -/
def refsOf (env : Env) : Str → List (Str × Str)
  | [] => []
  | c :: r =>
    (match refBodyAt (c :: r) with
     | some body =>
       if hasColon body then (match splitColon body with | some k => [k] | none => [])
       else (match env.defaultScheme with | some d => [(d, body)] | none => [])
     | none => []) ++ refsOf env r

/-- merge FIRST, then expand — provider calls: when every string of the case has only plain references, a provider key the
implementation retrieved must be named by a reference that SURVIVES the merge (a leaf string of the merged sources) or by a
provider value; a reference that a later source replaced must not be retrieved at all -/
def checkRetrieved (s : St) : Option String :=
  if s.retrieved.isEmpty then none else
  match s.srcs.reverse.mapM asConf with
  | none => none
  | some ms =>
    let env := s.env
    let provStrs := s.provs.flatMap (fun e => valStrings e.2.raw ++ (match e.2.strRep with | some r => [r] | none => []))
    let srcStrs := s.srcs.flatMap valStrings
    if !(provStrs ++ srcStrs).all simpleRefs then none else
    let alive := ((flatten [] (mergeSourcesGate s.gate ms)).flatMap (fun l => valStrings l.2) ++ provStrs).flatMap (refsOf env)
    match s.retrieved.find? (fun u => !alive.contains u) with
    | some (sc, nm) => some s!"sig=C12/merge/overridden-reference-still-looked-up retrieved={hexStr sc}:{hexStr nm}"
    | none => none

/-- `C12_resolve_error_from_merged_leaf` on the implementation: it failed although no source is a non-map and every value
that survives the merge resolves -/
def checkMergeError (s : St) : Option String :=
  if !s.implErr || (s.caseIdx % 5 != 0 && !s.leafAll) then none else
  match s.srcs.reverse.mapM asConf with
  | none => none
  | some ms =>
    let env := s.env
    if (flatten [] (mergeSourcesGate s.gate ms)).all (fun l => match resolveValue env l.2 with | .ok _ => true | .error _ => false) then
      some "sig=C12/merge/overridden-reference-still-looked-up resolve-failed-though-every-merged-value-resolves"
    else none

/-- the `$`-in-name clause on the implementation (`C12_dollar_in_name_error(_default)`): a string value that survives the
merge and whose first reference — as `findURI` finds it — has a `$` anywhere in its NAME (first and last position included)
makes resolution fail; it can never succeed, and the provider is never consulted for such a name -/
def dollarNameLeaf (s : St) : Option Str :=
  match s.srcs.reverse.mapM asConf with
  | none => none
  | some ms =>
    let env := s.env
    (flatten [] (mergeSourcesGate s.gate ms)).findSome? (fun l =>
      match l.2 with
      | .str str =>
        match findURI env.mode env.defaultScheme.isSome str with
        | some (_, body, _) =>
          let name := if hasColon body then (match splitColon body with | some (sc, nm) => if validScheme sc then some nm else none | none => none)
                      else (match env.defaultScheme with | some _ => some body | none => none)
          (match name with
           | some nm => if hasDollar nm then some str else none
           | none => none)
        | none => none
      | _ => none)

def checkDollarName (s : St) : Option String :=
  match dollarNameLeaf s with
  | none => none
  | some str =>
    if !s.implErr then
      some s!"sig=C12/name/dollar-in-name-not-rejected input={hexStr str} resolved-without-error"
    else if s.dname && s.implErrClass != "dollar-in-name" then
      some s!"sig=C12/name/dollar-in-name-not-rejected input={hexStr str} class={s.implErrClass}"
    else if s.dname && !s.retrieved.isEmpty then
      some s!"sig=C12/name/provider-consulted-for-rejected-name input={hexStr str} retrieved={" ".intercalate (s.retrieved.map (fun u => hexStr u.1 ++ ":" ++ hexStr u.2))}"
    else none

/-- the result holds exactly the later source's value under an overridden key -/
def checkExact (s : St) : Option String :=
  match s.implStrmap with
  | some (.map res) =>
    s.wantExact.findSome? (fun (k, enc) =>
      let got := match res.lookup k with | some v => showVal v | none => "none"
      if got == enc then none else
        some s!"sig=C12/merge/overridden-reference-leaks-into-result key={hexStr k} want={enc} got={got}")
  | _ => none

def handler : Handler St where
  init := {}
  onCase := fun s toks => { s with caseIdx := (toks.head?.bind String.toNat?).getD 0 }
  onOp := fun s toks =>
    match toks with
    | "env" :: rest =>
      let mode := if kv rest "mode" == some "pinned" then Mode.pinned else Mode.fixed
      let ds := (kv rest "default").bind (fun h => unhexStr h.toList)
      let schemes := match kv rest "schemes" with
        | some l => (l.splitOn ",").filterMap (fun h => unhexStr h.toList)
        | none => []
      ({ s with mode := mode, defaultScheme := ds, schemes := schemes }, [])
    | "prov" :: sc :: nm :: v :: rest =>
      match unhexStr sc.toList, (if nm = "-" then some [] else unhexStr nm.toList), parseValTok v with
      | some sc, some nm, some v =>
        let sr := (kv rest "str").bind (fun h => if h = "-" then some [] else unhexStr h.toList)
        ({ s with provs := s.provs ++ [((sc, nm), { raw := v, strRep := sr })] }, [])
      | _, _, _ => (s, ["obs bad-op"])
    | ["gate", g] => ({ s with gate := g == "1" }, if g == "1" || g == "0" then [] else ["obs bad-op"])
    | ["src", v] =>
      match parseValTok v with
      | some v => ({ s with srcs := v :: s.srcs }, [])
      | none => (s, ["obs bad-op"])
    | ["tok", key, ts] =>
      match (if key = "-" then some [] else unhexStr key.toList), parseToks ts with
      | some k, some ts => ({ s with toks := s.toks ++ [(k, ts)] }, [])
      | _, _ => (s, ["obs bad-op"])
    | ["wantexact", key, enc] =>
      match (if key = "-" then some [] else unhexStr key.toList) with
      | some k => ({ s with wantExact := s.wantExact ++ [(k, enc)] }, [])
      | none => (s, ["obs bad-op"])
    | ["wantc", key, enc, kind] =>
      match (if key = "-" then some [] else unhexStr key.toList) with
      | some k => ({ s with wantc := s.wantc ++ [(k, enc, kind)] }, [])
      | none => (s, ["obs bad-op"])
    | "resolvex" :: rest =>
      -- external-package harness (real envprovider): only what the public API shows
      let hint := (kv rest "hint").getD "-"
      match resolveGate s.gate s.env s.srcs.reverse with
      | .error es =>
        let names := es.map showErr
        let pick := if names.contains hint then hint else names.headD "?"
        (s, [s!"obs res err {pick}"])
      | .ok m =>
        let kvs := m.toList.mergeSort (fun a b => !strLt b.1 a.1)
        (s, [s!"obs strmap {showVal (sanitize false (.map m))}"]
            ++ kvs.map (fun kv => s!"obs typedx {hexStr kv.1} s={showOptStr (decodeString kv.2)} a={showVal (decodeAny kv.2)}"))
    | "resolve" :: rest =>
      let hint := (kv rest "hint").getD "-"
      let s := { s with tokOnly := kv rest "tokonly" == some "1", leafAll := kv rest "leaf" == some "1", dname := kv rest "dname" == some "1" }
      match resolveGate s.gate s.env s.srcs.reverse with
      | .error es =>
        let names := es.map showErr
        let pick := if names.contains hint then hint else names.headD "?"
        (s, [s!"obs res err {pick}"])
      | .ok m =>
        let strmap := sanitize false (.map m)
        let kvs := m.toList.mergeSort (fun a b => !strLt b.1 a.1)
        (s, [s!"obs res ok {showVal (.map m)}", s!"obs strmap {showVal strmap}"]
            ++ kvs.map (fun kv => s!"obs typed {hexStr kv.1} {showTyped kv.2}"))
    | [w, key, txt, kind] =>
      if w == "want" || w == "wantn" then
        match (if key = "-" then some [] else unhexStr key.toList), (if txt = "-" then some [] else unhexStr txt.toList) with
        | some k, some t => ({ s with wants := s.wants ++ [(k, w == "wantn", t, kind)] }, [])
        | _, _ => (s, ["obs bad-op"])
      else (s, ["obs bad-op"])
    | _ => (s, ["obs bad-op"])
  onObs := fun s toks =>
    match toks with
    | [_, "res", "ok", v] =>
      match parseValTok v with
      | some v => { s with implRes := some v }
      | none => { s with bad := some "unparsable res" }
    | _ :: "res" :: "err" :: cls => { s with implErr := true, implErrClass := " ".intercalate cls }
    | [_, "retrieved", sc, nm] =>
      match unhexStr sc.toList, (if nm = "-" then some [] else unhexStr nm.toList) with
      | some sc, some nm => { s with retrieved := s.retrieved ++ [(sc, nm)] }
      | _, _ => { s with bad := some "unparsable retrieved" }
    | [_, "strmap", v] =>
      match parseValTok v with
      | some v => { s with implStrmap := some v }
      | none => { s with bad := some "unparsable strmap" }
    | _ :: "typed" :: key :: rest =>
      match unhexStr key.toList with
      | some k => { s with implTyped := s.implTyped ++ [(k, rest)] }
      | none => { s with bad := some "unparsable typed key" }
    | _ => s
  onEnd := fun s =>
    match s.bad with
    | some b => [s!"prop tokens=FAIL sig=C12/harness/unparsable {b}"]
    | none =>
      let env := s.env
      match s.implRes with
      | some (.map res) =>
        (match s.toks.findSome? (fun kt => checkTok env res kt.1 kt.2) with
         | some d => [s!"prop tokens=FAIL {d}"]
         | none => ["prop tokens=ok"])
        ++ (match checkLeftover s (.map res) with
            | some d => [s!"prop leftover=FAIL {d}"]
            | none => ["prop leftover=ok"])
        ++ (match checkWants s with
            | some d => [s!"prop typed=FAIL {d}"]
            | none => ["prop typed=ok"])
        ++ (match checkDollarName s with
            | some d => [s!"prop dollarname=FAIL {d}"]
            | none => ["prop dollarname=ok"])
        ++ (match checkExact s with
            | some d => [s!"prop override=FAIL {d}"]
            | none => ["prop override=ok"])
        ++ (match checkRetrieved s with
            | some d => [s!"prop retrieved=FAIL {d}"]
            | none => ["prop retrieved=ok"])
        ++ (match checkLeafPaths s res with
            | some d => [s!"prop leafpaths=FAIL {d}"]
            | none => ["prop leafpaths=ok"])
        ++ (match checkContainers s with
            | some d => [s!"prop containers=FAIL {d}"]
            | none => ["prop containers=ok"])
        ++ (match checkLeaks s with
            | some d => [s!"prop leaks=FAIL {d}"]
            | none => ["prop leaks=ok"])
      | _ =>
        -- the implementation reported an error: a well-formed token value must not make resolution fail
        (if s.implErr && !s.toks.isEmpty && s.toks.all (fun kt => tokOK env kt.2 && numRefs kt.2 < env.fuel)
           && s.tokOnly then
          ["prop tokens=FAIL sig=C12/expand/error-on-wellformed-tokens"]
        else ["prop tokens=ok"])
        ++ (match checkRetrieved s with
            | some d => [s!"prop retrieved=FAIL {d}"]
            | none => ["prop retrieved=ok"])
        ++ (match checkMergeError s with
            | some d => [s!"prop mergeerr=FAIL {d}"]
            | none => ["prop mergeerr=ok"])
        ++ (match checkDollarName s with
            | some d => [s!"prop dollarname=FAIL {d}"]
            | none => ["prop dollarname=ok"])

/-! ## `c12-life`: `NewResolver` (locations) and the `closers` bookkeeping -/

structure LSt where
  uris : List Str := []
  provs : List Str := []
  dflt : Str := []
  locs : Option (List Loc) := none            -- the model's locations
  implLocs : Option (List Loc) := none        -- `obs ctor ok …` of the implementation
  implRetrieved : Option (List Str) := none
  implRetrievedOk : Bool := false
  life : Life := {}
  failIds : List Nat := []
  implCloses : List (List Nat) := []          -- per op, the `Close` calls the implementation made
  implNs : List Nat := []                     -- per op, the successful `Retrieve` calls
  shutdownLast : Bool := false
  bad : Option String := none

def hexOpt (t : String) : Option Str := if t = "-" then some [] else unhexStr t.toList

def showCtorErr : CtorErr → String
  | .noURIs => "no-uris"
  | .noProviders => "no-providers"
  | .invalidProviderScheme => "invalid-provider-scheme"
  | .duplicateScheme => "duplicate-scheme"
  | .defaultNotFound => "default-not-found"
  | .invalidURI => "invalid-uri"
  | .unsupportedScheme => "unsupported-scheme"

def hexOrDash (s : Str) : String := if s.isEmpty then "-" else hexStr s

def showLoc (l : Loc) : String := s!"{hexOrDash l.scheme}/{hexOrDash l.opq}"

def parseLoc (t : String) : Option Loc :=
  match t.splitOn "/" with
  | [a, b] =>
    match hexOpt a, hexOpt b with
    | some a, some b => some ⟨a, b⟩
    | _, _ => none
  | _ => none

def parseIds (t : String) : Option (List Nat) :=
  if t = "-" then some [] else (t.splitOn ",").mapM String.toNat?

def showIds (l : List Nat) : String := if l.isEmpty then "-" else ",".intercalate (l.map toString)

/-- the statements of `C12_location_verbatim` / `C12_location_file` evaluated on the implementation's locations -/
def checkLocs (s : LSt) : Option String :=
  match s.implLocs with
  | none => none
  | some ls =>
    if ls.length != s.uris.length then some s!"sig=C12/location/uri-list-not-kept-as-given uris={s.uris.length} locations={ls.length}" else
    (s.uris.zip ls).findSome? (fun (u, l) =>
      if driverLetter u || !hasColon u then
        (if l.scheme == OtelVerif.Gen.C12Consts.fileScheme && l.opq == u then none
         else some s!"sig=C12/location/file-fallback-wrong uri={hexStr u} got={showLoc l}")
      else if l.asString != u then some s!"sig=C12/location/uri-not-passed-verbatim uri={hexStr u} got={hexStr l.asString}"
      else if !validScheme l.scheme || !s.provs.contains l.scheme then
        some s!"sig=C12/location/scheme-not-valid-or-not-registered uri={hexStr u} scheme={hexStr l.scheme}"
      else none)

/-- `C12_retrieveAll_in_order` on the implementation: what the providers were asked for is the locations' text, in order -/
def checkRetrieveOrder (s : LSt) : Option String :=
  match s.implLocs, s.implRetrieved with
  | some ls, some got =>
    let want := (retrieveAll s.provs ls).1
    if got == want then none
    else some s!"sig=C12/location/retrieved-not-the-uri-list-in-order want={" ".intercalate (want.map hexStr)} got={" ".intercalate (got.map hexStr)}"
  | _, _ => none

/-- `C12_closers_exactly_once` / `C12_closers_after_shutdown` on the implementation's `Close` calls -/
def checkCloses (s : LSt) : Option String :=
  let rec go (closes : List (List Nat)) (ns : List Nat) (issued : Nat) (seen : List Nat) : Option String :=
    match closes, ns with
    | c :: cs, n :: ns' =>
      match c.find? (fun i => seen.contains i) with
      | some i => some s!"sig=C12/closers/close-called-twice id={i}"
      | none =>
        if !c.eraseDups.length == c.length then some "sig=C12/closers/close-called-twice in-one-call"
        else match c.find? (fun i => i ≥ issued) with
          | some i => some s!"sig=C12/closers/closed-before-retrieved id={i}"
          | none =>
            -- everything issued before this call must be closed by the end of its closeIfNeeded
            match (List.range issued).find? (fun i => !(seen ++ c).contains i) with
            | some i => some s!"sig=C12/closers/close-never-called id={i}"
            | none => go cs ns' (issued + n) (seen ++ c)
    | _, _ => none
  go s.implCloses s.implNs 0 []

def lifeHandler : Handler LSt where
  init := {}
  onOp := fun s toks =>
    match toks with
    | ["uri", u] => (match hexOpt u with | some u => ({ s with uris := s.uris ++ [u] }, []) | none => (s, ["obs bad-op"]))
    | ["prov", p] => (match hexOpt p with | some p => ({ s with provs := s.provs ++ [p] }, []) | none => (s, ["obs bad-op"]))
    | ["default", d] => (match hexOpt d with | some d => ({ s with dflt := d }, []) | none => (s, ["obs bad-op"]))
    | ["new"] =>
      match newResolver ⟨s.uris, s.provs, s.dflt⟩ with
      | .error e => (s, [s!"obs ctor err {showCtorErr e}"])
      | .ok ls => ({ s with locs := some ls }, [" ".intercalate ("obs ctor ok" :: ls.map showLoc)])
    | ["retrieve"] =>
      match s.locs with
      | none => (s, ["obs bad-op"])
      | some ls =>
        let r := retrieveAll s.provs ls
        (s, [" ".intercalate (["obs retrieved", if r.2 then "ok" else "err"] ++ r.1.map hexOrDash)])
    | "resolveall" :: rest =>
      -- `NewResolver` + `Resolve` from the settings; what a top-level provider returns is a fixed function of the location text
      let gate := kv rest "gate" == some "1"
      let fetch : Str → Option Val := fun u =>
        let h := (hexOrDash u).toList
        some (.map (.cons ['l', 'a', 's', 't'] (.str h) (.cons ('u' :: h.take 2) (.str h)
          (.cons ['l'] (.list (.cons (.str (h.take 1)) .nil)) .nil))))
      match resolveSettings gate ⟨s.uris, s.provs, s.dflt⟩ fetch { prov := fun _ _ => none } with
      | .ok m => (s, [s!"obs conf {showVal (sanitize false (.map m))}"])
      | .error (.ctor e) => (s, [s!"obs conf err ctor-{showCtorErr e}"])
      | .error .cannotRetrieve => (s, ["obs conf err cannot-retrieve"])
      | .error (.resolve _) => (s, ["obs conf err resolve"])
    | "life" :: what :: rest =>
      match (kv rest "fail").bind parseIds with
      | none => (s, ["obs bad-op"])
      | some fail =>
        let s := { s with failIds := fail }
        let cf := s.life.pending.any (fun i => fail.contains i)
        if what == "resolve" then
          match kvNat rest "n" with
          | none => (s, ["obs bad-op"])
          | some n =>
            let l' := s.life.fire (.resolve cf n)
            ({ s with life := l', implNs := s.implNs ++ [n], shutdownLast := false },
             [s!"obs life closes={showIds s.life.pending} pending={l'.pending.length} closeerr={if cf then 1 else 0}"])
        else if what == "shutdown" then
          let l' := s.life.fire .shutdown
          ({ s with life := l', implNs := s.implNs ++ [0], shutdownLast := true },
           [s!"obs life closes={showIds s.life.pending} pending={l'.pending.length} closeerr={if cf then 1 else 0}"])
        else (s, ["obs bad-op"])
    | _ => (s, ["obs bad-op"])
  onObs := fun s toks =>
    match toks with
    | _ :: "ctor" :: "ok" :: ls =>
      match ls.mapM parseLoc with
      | some ls => { s with implLocs := some ls }
      | none => { s with bad := some "unparsable ctor" }
    | _ :: "retrieved" :: ok :: us =>
      match us.mapM hexOpt with
      | some us => { s with implRetrieved := some us, implRetrievedOk := ok == "ok" }
      | none => { s with bad := some "unparsable retrieved" }
    | _ :: "life" :: rest =>
      match (kv rest "closes").bind parseIds with
      | some c => { s with implCloses := s.implCloses ++ [c] }
      | none => { s with bad := some "unparsable closes" }
    | _ => s
  onEnd := fun s =>
    match s.bad with
    | some b => [s!"prop locations=FAIL sig=C12/harness/unparsable {b}"]
    | none =>
      [match checkLocs s with | some d => s!"prop locations=FAIL {d}" | none => "prop locations=ok",
       match checkRetrieveOrder s with | some d => s!"prop retrieveorder=FAIL {d}" | none => "prop retrieveorder=ok",
       match checkCloses s with | some d => s!"prop closers=FAIL {d}" | none => "prop closers=ok"]

end OtelVerif.Drivers.C12

def main : IO UInt32 :=
  runMulti [("c12-resolve", run OtelVerif.Drivers.C12.handler), ("c12-life", run OtelVerif.Drivers.C12.lifeHandler)]
