import OtelVerif.Common.Line
import OtelVerif.Model.C12
/-! driver for C12 (stub) -/
def main : IO UInt32 := do
  IO.eprintln "drv_c12: not built yet"
  return 2
