import OtelVerif.Common.Line
import OtelVerif.Model.C13
import OtelVerif.Model.C13Faithful
import OtelVerif.Model.C13HooksGen
import OtelVerif.Model.C13Walk
import OtelVerif.Model.C13Load
import OtelVerif.Gen.ConfigSchemas
/-! driver for C13: models `c13-walk` (validation walk), `c13-refs` (reference checks), `c13-dec` (strict decode) -/
open OtelVerif OtelVerif.Line OtelVerif.C13

namespace OtelVerif.Drivers.C13

def parseErr (s : String) : Option (Option Nat) :=
  if s == "-" then some none else s.toNat?.map some

/-! `F<e>` leaf, `Z` nil, `P v`, `T<e>:<n> (f:<hexname>:<e|u> v)…`, `Q<e>:<n> v…`, `M<e>:<n> (k:<hexkey> kv v)…` -/
mutual
partial def parseVT : List String → Option (VT × List String)
  | [] => none
  | t :: rest =>
    let arg := (t.drop 1).toString
    match t.front with
    | 'F' => (parseErr arg).map fun e => (.leaf e, rest)
    | 'Z' => some (.nilv, rest)
    | 'P' => (parseVT rest).map fun (v, r) => (.ptr v, r)
    | 'T' => match arg.splitOn ":" with
      | [e, n] => (parseErr e).bind fun e => n.toNat?.bind fun n => (parseFs n rest).map fun (fs, r) => (.struct e fs, r)
      | _ => none
    | 'Q' => match arg.splitOn ":" with
      | [e, n] => (parseErr e).bind fun e => n.toNat?.bind fun n => (parseVs n rest).map fun (vs, r) => (.seq e vs, r)
      | _ => none
    | 'M' => match arg.splitOn ":" with
      | [e, n] => (parseErr e).bind fun e => n.toNat?.bind fun n => (parseKVs n rest).map fun (kvs, r) => (.map e kvs, r)
      | _ => none
    | _ => none
partial def parseFs : Nat → List String → Option (List (String × Bool × VT) × List String)
  | 0, r => some ([], r)
  | n + 1, r =>
    match r with
    | ft :: r1 =>
      match ft.splitOn ":" with
      | ["f", hn, ex] =>
        (unhex hn).bind fun name => (parseVT r1).bind fun (v, r2) => (parseFs n r2).map fun (fs, r3) => ((name, ex == "e", v) :: fs, r3)
      | _ => none
    | [] => none
partial def parseVs : Nat → List String → Option (List VT × List String)
  | 0, r => some ([], r)
  | n + 1, r => (parseVT r).bind fun (v, r1) => (parseVs n r1).map fun (vs, r2) => (v :: vs, r2)
partial def parseKVs : Nat → List String → Option (List (String × VT × VT) × List String)
  | 0, r => some ([], r)
  | n + 1, r =>
    match r with
    | kt :: r1 =>
      match kt.splitOn ":" with
      | ["k", hk] =>
        (unhex hk).bind fun k => (parseVT r1).bind fun (kv, r2) => (parseVT r2).bind fun (v, r3) =>
          (parseKVs n r3).map fun (kvs, r4) => ((k, kv, v) :: kvs, r4)
      | _ => none
    | [] => none
end

def insertStr (s : String) : List String → List String
  | [] => [s]
  | x :: xs => if s < x then s :: x :: xs else x :: insertStr s xs

def sortStrs (l : List String) : List String := l.foldr insertStr []

def showErrs (l : List (Path × Nat)) : String :=
  let items := sortStrs (l.map (fun p => "::".intercalate p.1 ++ ":E" ++ toString p.2))
  if items.isEmpty then "-" else ",".intercalate items

def errItems (l : List (Path × Nat)) : List String :=
  sortStrs (l.map (fun p => "::".intercalate p.1 ++ ":E" ++ toString p.2))

mutual
/-- does the tree hold a map with two or more entries (the only source of nondeterministic order in the walk)? -/
def multiMap : VT → Bool
  | .leaf _ => false
  | .nilv => false
  | .ptr v => multiMap v
  | .struct _ fs => multiMapF fs
  | .seq _ vs => multiMapL vs
  | .map _ kvs => kvs.length ≥ 2 || multiMapKV kvs
def multiMapF : List (String × Bool × VT) → Bool
  | [] => false
  | (_, _, v) :: fs => multiMap v || multiMapF fs
def multiMapL : List VT → Bool
  | [] => false
  | v :: vs => multiMap v || multiMapL vs
def multiMapKV : List (String × VT × VT) → Bool
  | [] => false
  | (_, kv, v) :: kvs => multiMap kv || multiMap v || multiMapKV kvs
end

structure WS where
  model : List String := []
  fails : List String := []

/-- the search oracle is `validate` itself: by `C13_validate_complete` it is the executable form of
"exactly the failing validators reachable from the root are reported, with their paths" -/
def walkHandler : Handler WS where
  init := {}
  onOp := fun s toks =>
    match toks with
    | "walk" :: ":" :: rest =>
      match parseVT rest with
      | some (t, []) =>
        -- what the differential compares is the interpreter of the REGENERATED clause table (`C13_walk_regenerated`: equal to
        -- `validate` as long as the source has the reviewed clauses); the property oracle below stays on `validate`, the executable
        -- form of the specification `Fails`
        let g := walkG Gen.ValidateWalk.cases t
        let ord := g.map (fun p => "::".intercalate p.1 ++ ":E" ++ toString p.2)
        ({ s with model := errItems (validate t) },
         ["obs errs " ++ showErrs g] ++ (if multiMap t then [] else ["obs order " ++ (if ord.isEmpty then "-" else ",".intercalate ord)]))
      | _ => (s, ["obs bad-op"])
    | _ => (s, ["obs bad-op"])
  onObs := fun s toks =>
    match toks with
    | ["obs", "errs", l] =>
      let impl := if l == "-" then [] else l.splitOn ","
      let missing := s.model.filter (fun x => !impl.contains x)
      let extra := impl.filter (fun x => !s.model.contains x)
      let f1 := if missing.isEmpty then [] else [s!"sig=C13/walk/failing-nested-validator-not-reported missing={",".intercalate missing}"]
      let f2 := if extra.isEmpty then [] else [s!"sig=C13/walk/error-reported-without-failing-validator extra={",".intercalate extra}"]
      { s with fails := s.fails ++ f1 ++ f2 }
    | _ => s
  onEnd := fun s => if s.fails.isEmpty then ["prop walk=ok"] else s.fails.map (fun f => "prop walk=FAIL " ++ f)

/-! ### refs -/

def parseIds (s : String) : List Nat := if s == "-" then [] else (s.splitOn ",").filterMap String.toNat?

def parseFlagged (s : String) : List (Nat × Bool) :=
  if s == "-" then [] else (s.splitOn ",").filterMap fun t =>
    match t.splitOn ":" with
    | [a, b] => a.toNat?.map fun n => (n, b == "1")
    | _ => none

def parsePipe (t : String) : Option (Nat × Pipe) :=
  match t.splitOn ";" with
  | [pid, r, p, e] =>
    match (pid.drop 2).toString.toNat? with
    | some pid => some (pid, ⟨parseIds r, parseIds p, parseIds e⟩)
    | none => none
  | _ => none

def RErr.show : RErr → String
  | .emptyConfig => "emptyConfig" | .noReceivers => "noReceivers" | .noExporters => "noExporters"
  | .ambiguousExporter c => s!"ambE {c}" | .ambiguousReceiver c => s!"ambR {c}"
  | .danglingExtension r => s!"dext {r}"
  | .danglingReceiver p r => s!"drecv {p} {r}" | .danglingProcessor p r => s!"dproc {p} {r}" | .danglingExporter p r => s!"dexp {p} {r}"
  | .pipeNoReceivers p => s!"pnr{p}" | .pipeNoExporters p => s!"pne{p}" | .dupProcessor p r => s!"dup{p}:{r}"
  | .noPipelines => "noPipelines"

structure RS where
  top : Option Top := none
  fails : List String := []

def refsHandler : Handler RS where
  init := {}
  onOp := fun s toks =>
    match toks with
    | "refs" :: rest =>
      let kvs := rest.takeWhile (· != "|")
      let pipes := ((rest.dropWhile (· != "|")).drop 1).filterMap parsePipe
      let g := fun k => (kv kvs k).getD "-"
      let c : Top := { receivers := parseIds (g "recv"), exporters := parseIds (g "exp"), connectors := parseIds (g "conn"),
                       processors := parseFlagged (g "proc"), extensions := parseFlagged (g "ext"),
                       svcExtensions := parseIds (g "svcext"), pipelines := pipes }
      let root := rootErrs c
      let shape := sortStrs ((shapeErrs c).map RErr.show)
      let o := if root.isEmpty && shape.isEmpty then "obs ok"
        else s!"obs err root={if root.isEmpty then 0 else 1} shape={if shape.isEmpty then "-" else ",".intercalate shape}"
      ({ s with top := some c }, [o])
    | _ => (s, ["obs bad-op"])
  onObs := fun s toks =>
    match toks, s.top with
    | ["obs", "ok"], some c =>
      -- by `C13_refs` / `C13_shape`: acceptance must coincide with the absence of every defect class
      if (rootErrs c).isEmpty && (shapeErrs c).isEmpty then s
      else { s with fails := s!"sig=C13/refs/invalid-config-accepted admissible={(((rootErrs c) ++ (shapeErrs c)).map RErr.show).map (·.replace " " "_")}" :: s.fails }
    | "obs" :: "err" :: rest, some c =>
      let shapeImpl := ((kv rest "shape").getD "-")
      let shapeModel := sortStrs ((shapeErrs c).map RErr.show)
      let sm := if shapeModel.isEmpty then "-" else ",".intercalate shapeModel
      let f1 := if (rootErrs c).isEmpty && (shapeErrs c).isEmpty then ["sig=C13/refs/valid-config-rejected"] else []
      let f2 := if shapeImpl != sm then [s!"sig=C13/refs/pipeline-shape-error-not-reported expected={sm} got={shapeImpl}"] else []
      let f3 := if !(rootErrs c).isEmpty && kvNat rest "root" == some 0 then ["sig=C13/refs/reference-error-not-reported"] else []
      { s with fails := f3 ++ f2 ++ f1 ++ s.fails }
    | "tr" :: "root" :: rest, some c =>
      let got := " ".intercalate rest
      if (rootErrs c).any (fun e => RErr.show e == got) then s
      else { s with fails := s!"sig=C13/refs/reported-error-not-admissible got={got.replace " " "_"}" :: s.fails }
    | _, _ => s
  onEnd := fun s => if s.fails.isEmpty then ["prop rooterr=ok"] else s.fails.reverse.map (fun f => "prop rooterr=FAIL " ++ f)

/-! ### strict decode -/

/-! `s` scalar, `p S`, `l S`, `m S`, `t<n> (f:<hexkey>:<q|-> S)…` -/
mutual
partial def parseSchema : List String → Option (Schema × List String)
  | [] => none
  | t :: rest =>
    match t.front with
    | 's' => some (.scalar, rest)
    | 'p' => (parseSchema rest).map fun (s, r) => (.ptr s, r)
    | 'l' => (parseSchema rest).map fun (s, r) => (.slice s, r)
    | 'm' => (parseSchema rest).map fun (s, r) => (.map s, r)
    | 't' => ((t.drop 1).toString.toNat?).bind fun n => (parseSF n rest).map fun (fs, r) => (.struct fs, r)
    | _ => none
partial def parseSF : Nat → List String → Option (List (String × Bool × Schema) × List String)
  | 0, r => some ([], r)
  | n + 1, r =>
    match r with
    | ft :: r1 =>
      match ft.splitOn ":" with
      | ["f", hk, sq] =>
        (unhex hk).bind fun k => (parseSchema r1).bind fun (s, r2) => (parseSF n r2).map fun (fs, r3) => ((k, sq == "q", s) :: fs, r3)
      | _ => none
    | [] => none
end

/-! `n<k>` scalar, `M<n> (k:<hex> V)…`, `L<n> V…` -/
mutual
partial def parseVal : List String → Option (Val × List String)
  | [] => none
  | t :: rest =>
    let arg := (t.drop 1).toString
    match t.front with
    | 'n' => arg.toNat?.map fun n => (.scalar n, rest)
    | 'M' => arg.toNat?.bind fun n => (parseVKV n rest).map fun (kvs, r) => (.map kvs, r)
    | 'L' => arg.toNat?.bind fun n => (parseVL n rest).map fun (vs, r) => (.list vs, r)
    | _ => none
partial def parseVKV : Nat → List String → Option (List (String × Val) × List String)
  | 0, r => some ([], r)
  | n + 1, r =>
    match r with
    | kt :: r1 =>
      match kt.splitOn ":" with
      | ["k", hk] => (unhex hk).bind fun k => (parseVal r1).bind fun (v, r2) => (parseVKV n r2).map fun (kvs, r3) => ((k, v) :: kvs, r3)
      | _ => none
    | [] => none
partial def parseVL : Nat → List String → Option (List Val × List String)
  | 0, r => some ([], r)
  | n + 1, r => (parseVal r).bind fun (v, r1) => (parseVL n r1).map fun (vs, r2) => (v :: vs, r2)
end

def decHandler : Handler Unit where
  init := ()
  onOp := fun s toks =>
    match toks with
    | "dec" :: ":" :: rest =>
      let st := rest.takeWhile (· != "|")
      let vt := (rest.dropWhile (· != "|")).drop 1
      match parseSchema st, parseVal vt with
      | some (sc, []), some (v, []) => (s, [if decodeOk sc v then "obs ok" else "obs err"])
      | _, _ => (s, ["obs bad-op"])
    | "builtin" :: _ => (s, ["obs checked"])     -- built-in components: direct oracles only (`viol` lines of the harness)
    | _ => (s, ["obs bad-op"])

/-! ### load: several instances through the real collector configuration loading -/

def parsePairs (s : String) : List (String × String) :=
  if s == "-" then [] else (s.splitOn ",").filterMap fun t =>
    match t.splitOn ":" with
    | [k, v] => some (k, v)
    | _ => none

structure LS where
  entries : List (CId × List (String × String)) := []
  defs : List (String × Obj) := []
  secrets : List String := []      -- hex of the secrets written so far in this case
  fails : List String := []

def showObj (o : Obj) : String :=
  let items := sortStrs (o.map (fun p => p.1 ++ ":" ++ p.2))
  if items.isEmpty then "-" else ",".intercalate items

/-- insert a written leaf into a configuration map value -/
partial def insertVal (v : Val) (path : List String) (x : Val) : Val :=
  match path with
  | [] => x
  | k :: rest =>
    let kvs := match v with
      | .map kvs => kvs
      | _ => []
    match kvs.find? (fun p => p.1 == k) with
    | some (_, sub) => .map (kvs.map (fun p => if p.1 == k then (k, insertVal sub rest x) else p))
    | none => .map (kvs ++ [(k, insertVal (.map []) rest x)])

def splitPath (s : String) : List String := if s.isEmpty then [] else s.splitOn "::"

def showEV : Option EV → String
  | some .redacted => "R"
  | some (.val (.scalar n)) => toString n
  | some (.val _) => "M"           -- a written map / slice of a plain kind: shown verbatim (compared by the Go oracles)
  | some .nil => "nil"
  | some (.map kvs) =>
    -- a map of opaque strings: the written keys, every value redacted
    if kvs.all (fun p => match p.2 with | .redacted => true | _ => false)
    then "{" ++ ";".intercalate (sortStrs (kvs.map (fun p => hex p.1 ++ "=R"))) ++ "}" else "M"
  | some (.list xs) => "[" ++ ";".intercalate (xs.map (fun _ => "R")) ++ "]"
  | none => "none"

/-- `op faith comp=<hex section/type> w=<hexpath>:<id>,… q=<hexpath>,…`: decode the written leaves onto the
regenerated factory default of the component's regenerated schema, encode, and show the queried leaves -/
def faithOp (toks : List String) : String :=
  match (kv toks "comp").bind unhex, kv toks "w", kv toks "q" with
  | some comp, some w, some q =>
    match Gen.ConfigSchemas.components.find? (fun c => c.1 == comp) with
    | none => "obs bad-op unknown-component"
    | some (_, S, d) =>
      let written := (parsePairs w).filterMap fun p =>
        match unhex p.1, p.2.toNat? with
        | some path, some id => some (splitPath path, Val.scalar id)
        | _, _ => none
      let v := written.foldl (fun acc p => insertVal acc p.1 p.2) (Val.map [])
      match (componentHooksG Gen.ConfigSchemas.customPositions comp).bind (fun hooks => decodeC hooks S d v) with
      | none => "obs shown decode-failed"
      | some t =>
        let e := encodeV S t
        let qs := if q == "-" then [] else q.splitOn ","
        let items := (sortStrs qs).map fun hp => hp ++ ":" ++ showEV (evGet e (splitPath ((unhex hp).getD "")))
        "obs shown " ++ (if items.isEmpty then "-" else ",".intercalate items)
  | _, _, _ => "obs bad-op"

def loadHandler : Handler LS where
  init := {}
  onOp := fun s toks =>
    match toks with
    | "typedef" :: rest =>
      -- the PRISTINE factory default of a component type (flattened effective form, taken before anything was loaded)
      match kv rest "type", kv rest "def" with
      | some t, some d => ({ s with defs := (t, parsePairs d) :: s.defs.filter (fun p => p.1 != t) }, ["obs typedef"])
      | _, _ => (s, ["obs bad-op"])
    | "inst" :: rest =>
      match kv rest "id", kv rest "type", kv rest "w", kv rest "q" with
      | some id, some ty, some w, some q =>
        -- `loadAll`: every instance = the default of ITS TYPE overlaid by ITS OWN written keys; the model decides what the
        -- instance shows at the queried leaves (written ones and defaults under untouched top-level keys)
        let marker := hex redactionMarker
        let wr := parsePairs w
        let secs := wr.filterMap (fun p => if p.2.startsWith "!" then some (p.2.drop 1).toString else none)
        let wr' := wr.map (fun p => if p.2.startsWith "!" then (p.1, marker) else p)
        let s := { s with entries := s.entries ++ [((ty, id), wr')], secrets := secs ++ s.secrets }
        -- computed by the interpreter of the REGENERATED statements of `Configs.Unmarshal` (`C13_load_regenerated`: = `loadAll`)
        let st := runLoad Gen.ConfigsLoad.before Gen.ConfigsLoad.body (fun t => (s.defs.lookup t).getD []) s.entries
        match st.result (ty, id) with
        | some o =>
          let qs := if q == "-" then [] else q.splitOn ","
          -- z=: the `omitempty` positions that hold the zero value of their Go type (observed on the typed configuration): left out by the encoder
          let zs := match kv rest "z" with
            | some z => if z == "-" then [] else z.splitOn ","
            | none => []
          let shownAt := fun (hp : String) =>
            match o.lookup hp with
            | some v => if zs.contains hp then "absent" else v
            | none => "absent"
          let items := (sortStrs qs).map fun hp => hp ++ ":" ++ shownAt hp     -- sorted by key, like the harness
          (s, ["obs eff " ++ (if items.isEmpty then "-" else ",".intercalate items)])
        | none => (s, ["obs bad-op"])
      | _, _, _, _ => (s, ["obs eff -"])     -- corpus cases without an instance (invalid nested values, defaults probe)
    | "faith" :: rest => (s, [faithOp rest])
    | _ => (s, ["obs bad-op"])
  onObs := fun s toks =>
    match toks with
    | ["obs", "eff", l] =>
      -- "with secrets redacted": no leaf of the effective configuration is a written secret
      let leaves := parsePairs l
      match leaves.find? (fun p => s.secrets.contains p.2) with
      | some p => { s with fails := s!"sig=C13/effective/secret-in-effective-config path={(unhex p.1).getD p.1}" :: s.fails }
      | none => s
    | _ => s
  onEnd := fun s => if s.fails.isEmpty then ["prop redacted=ok"] else s.fails.reverse.map (fun f => "prop redacted=FAIL " ++ f)

end OtelVerif.Drivers.C13

def main : IO UInt32 :=
  runMulti [("c13-walk", run OtelVerif.Drivers.C13.walkHandler), ("c13-refs", run OtelVerif.Drivers.C13.refsHandler),
            ("c13-dec", run OtelVerif.Drivers.C13.decHandler), ("c13-load", run OtelVerif.Drivers.C13.loadHandler)]
