import OtelVerif.Common.Line
import OtelVerif.Model.C13
/-! driver for C13 (stub) -/
def main : IO UInt32 := do
  IO.eprintln "drv_c13: not built yet"
  return 2
