import OtelVerif.Common.Line
import OtelVerif.Model.C14
/-! driver for C14 (stub) -/
def main : IO UInt32 := do
  IO.eprintln "drv_c14: not built yet"
  return 2
