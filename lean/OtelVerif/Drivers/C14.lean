import OtelVerif.Common.Line
import OtelVerif.Model.C14
import OtelVerif.Model.C14Census
import OtelVerif.Model.C14Exp
/-! driver for C14: models `c14-fmt` (fmt dispatch + marshalling paths), `c14-enc` (config-map encoder) and
`c14-builtin-all` (reflected opaque-typed fields of the built-in configuration types against the regenerated census) -/
open OtelVerif OtelVerif.Line OtelVerif.C14 OtelVerif.Gen

namespace OtelVerif.Drivers.C14

/-! ## operand trees in prefix notation
`O<i>` opaque, `S<hex>` string, `N<n>` number, `Z` nil, `P v` pointer, `I v` interface, `L<n> v…` slice,
`l` nil slice, `A<n> v…` array, `M<n> (k v)…` map, `m` nil map, `T<n> (f:<hexname>:<e|u>:<o|->:<q|-> v)…` struct -/

def parseField (t : String) : Option FieldInfo :=
  match t.splitOn ":" with
  | ["f", hn, ex, om, sq] =>
    (unhex hn).map fun n => { name := n, exported := ex == "e", omitEmpty := om == "o", squash := sq == "q" }
  | _ => none

mutual
partial def parseGV : List String → Option (GV × List String)
  | [] => none
  | t :: rest =>
    let arg := (t.drop 1).toString
    match t.front with
    | 'O' => arg.toNat?.map fun i => (.opq i, rest)
    | 'S' => (unhex arg).map fun s => (.str s, rest)
    | 'N' => arg.toNat?.map fun n => (.num n, rest)
    | 'Z' => some (.nilv, rest)
    | 'l' => some (.nilSlice, rest)
    | 'm' => some (.nilMap, rest)
    | 'P' => (parseGV rest).map fun (v, r) => (.ptr v, r)
    | 'I' => (parseGV rest).map fun (v, r) => (.iface v, r)
    | 'L' => arg.toNat?.bind fun n => (parseN n rest).map fun (vs, r) => (.slice vs, r)
    | 'A' => arg.toNat?.bind fun n => (parseN n rest).map fun (vs, r) => (.array vs, r)
    | 'M' => arg.toNat?.bind fun n => (parseKV n rest).map fun (kvs, r) => (.map kvs, r)
    | 'T' => arg.toNat?.bind fun n => (parseF n rest).map fun (fs, r) => (.struct fs, r)
    | 'H' => arg.toNat?.bind fun n => (parseF n rest).map fun (fs, r) => (.sh .marshaler fs, r)   -- confmap.Marshaler
    | 'Y' => arg.toNat?.bind fun n => (parseF n rest).map fun (fs, r) => (.sh .yaml fs, r)        -- yaml-tagged struct
    | 'V' => arg.toNat?.bind fun n => (parseF n rest).map fun (fs, r) => (.tm "tmv" true fs, r)    -- value-receiver MarshalText
    | 'W' => arg.toNat?.bind fun n => (parseF n rest).map fun (fs, r) => (.tm "tmp" false fs, r)   -- pointer-receiver MarshalText
    | _ => none
partial def parseN : Nat → List String → Option (List GV × List String)
  | 0, r => some ([], r)
  | n + 1, r => (parseGV r).bind fun (v, r1) => (parseN n r1).map fun (vs, r2) => (v :: vs, r2)
partial def parseKV : Nat → List String → Option (List (GV × GV) × List String)
  | 0, r => some ([], r)
  | n + 1, r =>
    (parseGV r).bind fun (k, r1) => (parseGV r1).bind fun (v, r2) => (parseKV n r2).map fun (kvs, r3) => ((k, v) :: kvs, r3)
partial def parseF : Nat → List String → Option (List (FieldInfo × GV) × List String)
  | 0, r => some ([], r)
  | n + 1, r =>
    match r with
    | [] => none
    | ft :: r1 =>
      (parseField ft).bind fun fi => (parseGV r1).bind fun (v, r2) => (parseF n r2).map fun (fs, r3) => ((fi, v) :: fs, r3)
end

def parseTree (toks : List String) : Option GV :=
  match parseGV toks with
  | some (v, []) => some v
  | _ => none

/-- twin type descriptor: one letter per method (F Format, G GoString, S String, E Error, T MarshalText,
B MarshalBinary), lower case = pointer receiver; every twin method returns the constant "M" -/
def twinTD (spec : String) : Option TD :=
  if spec == "real" then some Opaque.methods
  else if spec == "-" then some []
  else spec.toList.mapM fun ch =>
    let nm : Option String := match ch.toUpper with
      | 'F' => some "Format" | 'G' => some "GoString" | 'S' => some "String" | 'E' => some "Error"
      | 'T' => some "MarshalText" | 'B' => some "MarshalBinary" | _ => none
    nm.map fun n => { name := n, valueRecv := ch.isUpper, kind := if n == "Format" then .formatDelegate else .ret, result := .lit "M" }

def ρ1 : Nat → String := fun i => "Qa" ++ toString i
def ρ2 : Nat → String := fun i => "Wb" ++ toString i

structure FS where
  lastOp : List String := []
  fails : List String := []   -- reversed
  unexp : Nat := 0

def splitColon (toks : List String) : List String × List String :=
  (toks.takeWhile (· != ":"), (toks.dropWhile (· != ":")).drop 1)

def classify (c : FmtCtx) (v : GV) : String :=
  if c.verb == 'w' then "C14/fmt/verb-w-badverb-raw"
  else if c.verb == 'p' then "C14/fmt/verb-p-badverb-raw"
  else if !v.plainTop then "C14/fmt/nested-pointer-badverb-raw"
  else if stringVerbs.contains c.verb then "C14/fmt/valid-verb-raw"
  else "C14/fmt/invalid-verb-raw"

def fmtHandler : Handler FS where
  init := {}
  onOp := fun s toks =>
    let s := { s with lastOp := toks }
    match toks with
    | "fmt" :: rest =>
      let (kvs, shape) := splitColon rest
      match (kv kvs "td").bind twinTD, kvNat kvs "verb", kvNat kvs "sharp", kvNat kvs "prec0", kvNat kvs "werr", parseTree shape with
      | some td, some verb, some sharp, some prec0, some werr, some v =>
        let c : FmtCtx := { verb := Char.ofNat verb, sharpV := sharp == 1, wrapErrs := werr == 1 }
        let l1 := pa td c ρ1 v
        let l2 := pa td c ρ2 v
        let calls := if kv kvs "td" == some "real" then "?" else
          String.join ((l1.filter (fun l => l.how != .rawKind && l.how != .badVerbRaw)).map (fun l => l.how.tag))
        (s, [s!"obs calls={if calls.isEmpty then "-" else calls} dep={if depends (prec0 == 1) l1 l2 then 1 else 0}"])
      | _, _, _, _, _, _ => (s, ["obs bad-op"])
    | "path" :: rest =>
      match kv rest "name", kv rest "pos" with
      | some name, some pos =>
        let p := if pos == "mapKey" then Pos.mapKey else Pos.value
        let t1 := pathText Opaque.methods name p "Qa"
        let t2 := pathText Opaque.methods name p "Wb"
        (s, [s!"obs dep={if t1 != t2 then 1 else 0} marker={if t1 == Opaque.marker then 1 else 0}"])
      | _, _ => (s, ["obs bad-op"])
    | "misc" :: rest =>
      -- Sprint/Sprintln/Fprint/Errorf("%v") and the `%!(EXTRA type=value)` tail are `printArg(arg, 'v')` outside `erroring`:
      -- answered by the model `pa`; BADINDEX / BADWIDTH / BADPREC print no operand at all
      let viaPa := ["sprint", "sprintln", "sprint_slice", "errorf_v", "extra", "extra_noverb", "noverb", "percent", "fprint", "time_unrelated"]
      let noOperand := ["badindex", "badwidth", "badprec"]
      let consts := ["string_method", "gostring_method", "errors_new"]
      match kv rest "kind" with
      | some k =>
        if viaPa.contains k then
          let v : GV := if k == "sprint_slice" then .slice [.opq 0] else .opq 0
          let c : FmtCtx := { verb := 'v' }
          (s, [s!"obs dep={if depends false (pa Opaque.methods c ρ1 v) (pa Opaque.methods c ρ2 v) then 1 else 0}"])
        else if noOperand.contains k then (s, ["obs dep=0"])
        else if consts.contains k then
          let nm := if k == "gostring_method" then "GoString" else "String"
          match TD.find Opaque.methods nm false with
          | some m => (s, [s!"obs dep={if m.result.eval "Qa" != m.result.eval "Wb" then 1 else 0}"])
          | none => (s, ["obs bad-op no-such-method"])
        else (s, ["obs bad-op unknown-misc-kind"])
      | none => (s, ["obs bad-op"])
    | _ => (s, ["obs bad-op"])
  onObs := fun s toks =>
    match toks with
    | "obs" :: rest =>
      if kvNat rest "dep" == some 1 then
        match s.lastOp with
        | "fmt" :: r =>
          let (kvs, shape) := splitColon r
          if kv kvs "td" != some "real" then s else
          match kvNat kvs "verb", parseTree shape with
          | some verb, some v =>
            if v.hasUnexported then { s with unexp := s.unexp + 1 }
            else { s with fails := s!"sig={classify { verb := Char.ofNat verb } v} op={" ".intercalate s.lastOp}" :: s.fails }
          | _, _ => { s with fails := "sig=C14/fmt/unparsable" :: s.fails }
        | "path" :: r =>
          if kv r "name" == some "conv" then s else
          { s with fails := s!"sig=C14/{(kv r "name").getD "?"}/{(kv r "pos").getD "?"}-raw op={" ".intercalate s.lastOp}" :: s.fails }
        | _ => { s with fails := s!"sig=C14/fmt/wrapper-raw op={" ".intercalate s.lastOp}" :: s.fails }
      else s
    | _ => s
  onEnd := fun s =>
    -- one line per distinct signature (first occurrence)
    let fs := s.fails.reverse
    let sigs := (fs.map (fun f => (f.splitOn " ").headD "")).eraseDups
    let outs := sigs.filterMap (fun sg => fs.find? (fun f => (f.splitOn " ").headD "" == sg))
    if outs.isEmpty then ["prop nointerference=ok"] else outs.map (fun f => s!"prop nointerference=FAIL {f}")

structure ES where
  secrets : List String := []
  strs : List String := []
  bad : Bool := false

def encHandler : Handler ES where
  init := {}
  onOp := fun s toks =>
    match toks with
    | "enc" :: rest =>
      let (kvs, shape) := splitColon rest
      let empt := ((kv kvs "empt").getD "").splitOn "," |>.map (· == "1")
      let secrets := (((kv kvs "sec").getD "").splitOn ",").filterMap unhex |>.filter (· != "")
      match parseTree shape with
      | some v =>
        let ρ : Nat → String := fun i => if empt.getD i false then "" else "x"
        let o := match enc Opaque.methods ρ v with
          | .ok a => "obs ok " ++ a.show
          | .error _ => "obs err"
        ({ s with secrets := secrets }, [o])
      | none => (s, ["obs bad-op"])
    | "builtin" :: _ => (s, ["obs checked"])
    | "unm" :: rest =>
      match (kv rest "sec").bind unhex, kvNat rest "hook" with
      | some sec, some hook =>
        (s, ["obs stored " ++ hex (if hook == 1 then squashHookStored SquashHook.remarshals Opaque.methods sec else plainStored sec)])
      | _, _ => (s, ["obs bad-op"])   -- built-in configurations: direct oracles only (`viol` lines of the harness)
    | _ => (s, ["obs bad-op"])
  onObs := fun s toks =>
    match toks with
    | ["tr", "s", h] => match unhex h with
      | some str => { s with strs := str :: s.strs }
      | none => { s with bad := true }
    | _ => s
  onEnd := fun s =>
    if s.bad then ["prop nosecret=FAIL sig=C14/confmap/unparsable"]
    else if s.strs.all (fun x => !s.secrets.contains x) then ["prop nosecret=ok"]
    else ["prop nosecret=FAIL sig=C14/confmap/raw-secret-in-effective-config"]

/-! ## census: the opaque-typed struct fields found by REFLECTION over the built-in configuration types against the
regenerated go/ast census (`Gen/OpaqueCensus.lean`) -/

structure CS where
  seen : List (String × String × String) := []
  fails : List String := []
  fs : FS := {}
  lastTree : Option GV := none
  lastVerb : Nat := 0
  notExp : Bool := false

def censusHandler : Handler CS where
  init := {}
  onOp := fun s toks =>
    match toks with
    | "cfield" :: rest =>
      match kv rest "pkg", kv rest "owner", kv rest "field" with
      | some pkg, some owner, some field =>
        match censusLookup pkg owner field with
        | some f =>
          let s := { s with seen := (pkg, owner, field) :: s.seen }
          -- `OShape.safe` is the checker proved sound by `C14_safe_shape_values_plain`
          let s := if f.shape.safe then s else { s with fails := s!"sig=C14/census/unsafe-shape/{pkg}.{owner}.{field} shape={f.shape.show}" :: s.fails }
          (s, [s!"obs cfield shape={f.shape.show} key={if f.key.isEmpty then "-" else f.key} exp={if f.exported then 1 else 0} omit={if f.omitEmpty then 1 else 0}"])
        | none =>
          ({ s with fails := s!"sig=C14/census/reflected-field-not-in-census/{pkg}.{owner}.{field}" :: s.fails }, ["obs cfield missing"])
      | _, _, _ => (s, ["obs bad-op"])
    | "fmt" :: rest =>
      -- a REAL built-in configuration value (reflected into the operand-tree notation): the same model `pa` as in `c14-fmt`
      let (fs', outs) := fmtHandler.onOp s.fs toks
      let (kvs, shape) := splitColon rest
      let t := parseTree shape
      let notExp := match t with | some v => !v.dyn.expIn | none => false
      ({ s with fs := fs', lastTree := t, lastVerb := (kvNat kvs "verb").getD 0, notExp := s.notExp || notExp }, outs)
    | ["census-done"] =>
      -- exported census fields the reflection walk never reached: the built-in roots do not cover them
      let un := OpaqueCensus.fields.filter (fun f => f.exported && !s.seen.contains (f.pkg, f.owner, f.field))
      (s, ["obs unvisited " ++ (if un.isEmpty then "-" else ",".intercalate (un.map (fun f => s!"{f.pkg}.{f.owner}.{f.field}")))])
    | _ => (s, ["obs bad-op"])
  onObs := fun s toks =>
    match toks, s.fs.lastOp with
    | "obs" :: rest, "fmt" :: _ =>
      if kvNat rest "dep" == some 1 then
        match s.lastTree with
        | some v =>
          let c : FmtCtx := { verb := Char.ofNat s.lastVerb }
          -- `C14_fmt_pointer_verbs_noninterference_real`: an exported-only tree under a pointer-safe verb must not depend on the
          -- secrets — its own signature (the generic classifier would file it under the known nested-pointer finding)
          let sg := if ptrSafeVerbs.contains c.verb then
                      (if v.dyn.expIn then "C14/fmt/pointer-safe-verb-raw/builtin-config" else "C14/fmt/unexported-field-raw/builtin-config")
                    else classify c v
          { s with fails := s!"sig={sg} verb={c.verb}" :: s.fails }
        | none => { s with fails := "sig=C14/fmt/unparsable" :: s.fails }
      else s
    | _, _ => s
  onEnd := fun s =>
    -- one line per distinct signature
    let fs := s.fails.reverse
    let sigs := (fs.map (fun f => (f.splitOn " ").headD "")).eraseDups
    let outs := sigs.filterMap (fun sg => fs.find? (fun f => (f.splitOn " ").headD "" == sg))
    let (cen, fm) := outs.partition (fun f => f.startsWith "sig=C14/census")
    (if cen.isEmpty then ["prop census=ok"] else cen.map (fun f => s!"prop census=FAIL {f}")) ++
    (if fm.isEmpty then ["prop builtin-fmt=ok"] else fm.map (fun f => s!"prop builtin-fmt=FAIL {f}")) ++
    -- `GV.expIn` is the hypothesis of the pointer-safe-verb theorem: every built-in configuration value must satisfy it
    (if s.notExp then ["prop builtin-tree=FAIL sig=C14/builtin/config-tree-not-exported-only"] else ["prop builtin-tree=ok"])

end OtelVerif.Drivers.C14

def main : IO UInt32 :=
  runMulti [("c14-fmt", run OtelVerif.Drivers.C14.fmtHandler), ("c14-enc", run OtelVerif.Drivers.C14.encHandler),
    ("c14-builtin-all", run OtelVerif.Drivers.C14.censusHandler)]
