import OtelVerif.Common.Line
import OtelVerif.Model.C15
import OtelVerif.Model.C15Route
/-! driver for C15 (model `c15`): the hop model on the harness's ops, and `hopCheck` on what the real hop showed -/
open OtelVerif OtelVerif.Line OtelVerif.C15

namespace OtelVerif.Drivers.C15

def parseOutcome (s : String) : Option Outcome :=
  match s.splitOn ":" with
  | ["ok"] => some .ok
  | ["plain"] => some (.plain false)
  | ["perm"] => some (.plain true)
  | ["st", c, ri] =>
    match c.toNat?, (if ri = "-" then some none else ri.toNat?.map some) with
    | some c, some ri => some (.status c ri)
    | _, _ => none
  | _ => none

def parseAuth (s : String) : Option (Option Bool) :=
  match s with
  | "off" => some none
  | "good" => some (some true)
  | "bad" => some (some false)
  | _ => none

def showOpt : Option Nat → String
  | some n => toString n
  | none => "-"

def showVerdict : Verdict → String
  | .success => "success"
  | .permanent => "permanent"
  | .retryable => "retryable"
  | .throttle d => s!"throttle:{d}"

def parseVerdict (s : String) : Option Verdict :=
  match s.splitOn ":" with
  | ["success"] => some .success
  | ["permanent"] => some .permanent
  | ["retryable"] => some .retryable
  | ["throttle", d] => d.toNat?.map Verdict.throttle
  | _ => none

def parseOptNat (s : String) : Option (Option Nat) :=
  if s = "-" then some none else s.toNat?.map some

def showRoute : RouteResult → String
  | .refused => "refused"
  | .elsewhere => "elsewhere"
  | .notFound => "notfound"
  | .delivered a b => s!"delivered:{a.name}:{b.name}"

/-- structural class of a route result, for signatures -/
def routeKind (g : Signal) : RouteResult → String
  | .refused => "exporter-refused"
  | .elsewhere => "sent-elsewhere"
  | .notFound => "not-found"
  | .delivered a b => if a = g ∧ b = g then "delivered-to-own-consumer" else "delivered-to-another-signals-consumer"

structure S where
  sanitize : Option String := none                -- pending `op sanitize`: the configured path
  route : Option (Signal × RouteResult) := none   -- addressing ops: what the hand SPEC (`specRoute`) prescribes
  cur : Option (Transport × Nat × Outcome × Bool) := none
  wire : Option (Nat × Nat × Option Nat) := none      -- code, http status, retry
  eq : Bool := true
  specX : Option (String × String) := none   -- fake-server ops: (what the SPEC tables prescribe, description)
  fails : List String := []

def handler : Handler S where
  init := {}
  onOp := fun s toks =>
    match toks with
    | "send" :: rest =>
      match kv rest "tr", kv rest "enc", kvNat rest "items", (kv rest "out").bind parseOutcome, (kv rest "auth").bind parseAuth with
      | some tr, some enc, some items, some out, some auth =>
        if tr = "grpc" then
          let (w, calls) := grpcFront ⟨auth, true, items, true, true, true⟩ out
          ({ s with cur := some (.grpc, items, out, auth == some false), wire := none, eq := true },
           [s!"obs wire code={w.code} http=0 retry={showOpt w.retry} calls={calls}",
            s!"obs verdict {showVerdict (expGrpc w)} calls={calls} ecode={expGrpcErrCode w}",
            "obs sink eq=1"])
        else if tr = "http" then
          let ct := if enc = "json" then CType.json else CType.proto
          let (w, calls) := httpFront ⟨auth, true, true, true, ct, true, true, items⟩ out
          ({ s with cur := some (.http, items, out, auth == some false), wire := none, eq := true },
           [s!"obs wire code={w.bodyCode} http={w.status} retry={showOpt w.retryAfter} calls={calls}",
            s!"obs verdict {showVerdict (expHttp w)} calls={calls} ecode={expHttpErrCode w}",
            "obs sink eq=1"])
        else (s, ["obs bad-op"])
      | _, _, _, _, _ => (s, ["obs bad-op"])
    | "xhttp" :: rest =>
      -- the otlphttp exporter against a scripted server: any status, Retry-After form, body
      let ra : Option RetryAfter :=
        match (kv rest "ra").map (fun s => s.splitOn ":") with
        | some ["absent"] => some .absent
        | some ["bad"] => some .unusable
        | some ["s", n] => n.toInt?.map RetryAfter.seconds
        | some ["d", n] => n.toInt?.map (fun d => RetryAfter.date (d * 1000000000))
        | _ => none
      let body : Option SuccessBody :=
        match kv rest "body" with
        | some "empty" => some .empty
        | some "response" => some .response
        | some "partial" => some .response
        | some "other" => some .otherContentType
        | some "undecodable" => some .undecodable
        | some "huge" => some .undecodable
        | some "status" => some .empty      -- outside 2xx the body is irrelevant (`C15_expHttpX_irrelevant_inputs`)
        | some "garbage" => some .empty
        | _ => none
      match kvNat rest "status", ra, body with
      | some st, some ra, some body =>
        let shownOf := fun (v : VerdictI) => match v, ra with
          | .throttle _, .date _ => "throttle-date"       -- `time.Until(date)`: compared up to clock granularity by the harness
          | .success, _ => "success"
          | .permanent, _ => "permanent"
          | .retryable, _ => "retryable"
          | .throttle d, _ => s!"throttle:{d}"
        -- oracle: the trait-free specification wherever the exporter is claimed to follow it (`C15_expHttpX_matches_spec_partial`);
        -- outside that domain (delay-seconds overflow, undecodable 2xx body) the recorded behaviour of the two witnesses
        let r : HttpResp := ⟨st, ra, body⟩
        let (want, tag) := if r.inDomain then (specHttpXPure r, "http-exporter ") else (specHttpX r, "http-exporter-recorded ")
        ({ s with cur := none, specX := some (shownOf want, tag ++ " ".intercalate rest) },
         [s!"obs xverdict {shownOf (expHttpX ⟨st, ra, body⟩)}"])
      | _, _, _ => (s, ["obs bad-op"])
    | "xgrpc" :: rest =>
      let ri : Option (Option Int) := match kv rest "ri" with
        | some "-" => some none
        | some n => n.toInt?.map some
        | none => none
      match kvNat rest "code", ri with
      | some c, some ri =>
        let shownOf := fun (v : VerdictI) => match v with
          | .success => "success"
          | .permanent => "permanent"
          | .retryable => "retryable"
          | .throttle d => s!"throttle:{d}"
        ({ s with cur := none, specX := some (shownOf (specGrpcX c ri), "grpc-exporter " ++ " ".intercalate rest) },
         [s!"obs xverdict {shownOf (expGrpcX c ri)}"])
      | _, _ => (s, ["obs bad-op"])
    | "route" :: rest =>
      -- addressing: the regenerated URL / registration tables (`hopRoute`) predict the observation; the oracle is the hand spec `specRoute`
      match (kv rest "sig").bind Signal.ofName?, (kv rest "ep").bind unhex, (kv rest "base").bind unhex,
            (kv rest "ovt").bind unhex, (kv rest "ovm").bind unhex, (kv rest "ovl").bind unhex,
            (kv rest "tp").bind unhex, (kv rest "mp").bind unhex, (kv rest "lp").bind unhex with
      | some g, some ep, some base, some ovt, some ovm, some ovl, some tp, some mp, some lp =>
        let c : ExpCfg := ⟨ep, [("TracesEndpoint", ovt), ("MetricsEndpoint", ovm), ("LogsEndpoint", ovl)]⟩
        let rc : RecvCfg := [("TracesURLPath", tp), ("MetricsURLPath", mp), ("LogsURLPath", lp)]
        ({ s with cur := none, route := some (g, specRoute g c base rc) }, [s!"obs route {showRoute (hopRoute g c base rc)}"])
      | _, _, _, _, _, _, _, _, _ => (s, ["obs bad-op"])
    | "sanitize" :: rest =>
      match (kv rest "p").bind unhex with
      | some p => ({ s with sanitize := some p }, [s!"obs sanitize {hex (sanitizeURLPath p)}"])
      | none => (s, ["obs bad-op"])
    | "groute" :: rest =>
      match (kv rest "sig").bind Signal.ofName?, (kv rest "ep").bind unhex, (kv rest "addr").bind unhex with
      | some g, some ep, some addr =>
        ({ s with cur := none, route := some (g, specRouteGrpc g ep addr) }, [s!"obs groute {showRoute (hopRouteGrpc g ep addr)}"])
      | _, _, _ => (s, ["obs bad-op"])
    | "conc" :: rest =>
      -- k well-formed requests with an accepting consumer: each is acknowledged and delivered once, as sent
      -- (`C15_consumer_once`, `C15_success_iff_*`, `C15_payload_partial` per request); their overlap in time is
      -- outside the model (monitored)
      match kvNat rest "k" with
      | some k => ({ s with cur := none }, [s!"obs conc sent={k} acked={k} delivered={k} matched={k}"])
      | none => (s, ["obs bad-op"])
    | "raw" :: rest =>
      match kv rest "tr", kv rest "kind", (kv rest "auth").bind parseAuth, (kv rest "out").bind parseOutcome with
      | some "http", some kind, some auth, some out =>
        let base : HttpReq := ⟨auth, true, true, true, .proto, true, true, 1⟩
        let rq : Option HttpReq :=
          (kind.splitOn "+").foldl (fun acc k =>
            acc.bind (fun (r : HttpReq) =>
              match k with
              | "method" => some { r with isPost := false }
              | "ctype" => some { r with ctype := .other }
              | "json" => some { r with ctype := .json }
              | "unreadable" => some { r with bodyReads := false }     -- truncated / corrupt stream / oversized
              | "badbody" => some { r with bodyDecodes := false }
              | "badbodyjson" => some { r with ctype := .json, bodyDecodes := false }
              | "badpath" => some { r with pathKnown := false }
              | "badenc" => some { r with encodingOk := false }
              | "fine" => some r
              | _ => none)) (some base)
        match rq with
        | some rq =>
          let (w, calls) := httpFront rq out
          ({ s with cur := none }, [s!"obs raw status={w.status} calls={calls}"])
        | none => (s, ["obs bad-op"])
      | some "grpc", some kind, some auth, some out =>
        let rq : Option GrpcReq :=
          match kind with
          | "badbody" => some ⟨auth, false, 1, true, true, true⟩
          | "fine" => some ⟨auth, true, 1, true, true, true⟩
          | "badmethod" => some ⟨auth, true, 1, false, true, true⟩
          | "badgrpcenc" => some ⟨auth, true, 1, true, false, true⟩
          | "oversize" => some ⟨auth, true, 1, true, true, false⟩
          | "badmethod+badbody" => some ⟨auth, false, 1, false, true, true⟩
          | "badgrpcenc+badbody" => some ⟨auth, false, 1, true, false, true⟩
          | "oversize+badbody" => some ⟨auth, false, 1, true, true, false⟩
          | _ => none
        match rq with
        | some rq =>
          let (w, calls) := grpcFront rq out
          ({ s with cur := none }, [s!"obs raw code={w.code} calls={calls}"])
        | none => (s, ["obs bad-op"])
      | _, _, _, _ => (s, ["obs bad-op"])
    | _ => (s, ["obs bad-op"])
  onObs := fun s toks =>
    match toks with
    | _ :: "wire" :: rest =>
      match kvNat rest "code", kvNat rest "http", (kv rest "retry").bind parseOptNat with
      | some c, some h, some r => { s with wire := some (c, h, r) }
      | _, _, _ => { s with fails := "sig=C15/harness/unparsable-wire" :: s.fails }
    | _ :: "xverdict" :: v :: _ =>
      -- the sender's classification against the hand-written specification (not the regenerated tables)
      match s.specX with
      | some (want, what) =>
        if v = want then { s with specX := none }
        else
          let t := if what.startsWith "grpc" then "grpc" else "http"
          let kind := if v = "panic" then "panic"
                      else if what.startsWith "http-exporter-recorded" then "behaviour-outside-spec-domain-changed"
                      else if want.startsWith "throttle" then "requested-delay-not-honoured" else "classification-differs-from-spec"
          { s with specX := none, fails := s!"sig=C15/{t}-exporter/{kind} {what} spec={want} exporter={v}" :: s.fails }
      | none => { s with fails := "sig=C15/harness/xverdict-without-op" :: s.fails }
    | _ :: "sanitize" :: got :: _ =>
      -- the path the mux will be given must be absolute, and an absolute configured path must be kept (hand statement, no table)
      match s.sanitize, unhex got with
      | some p, some g =>
        let s := { s with sanitize := none }
        if g.toList.head? ≠ some '/' then { s with fails := s!"sig=C15/route/sanitize/registered-path-is-not-absolute configured={p} registered={g}" :: s.fails }
        else if p.toList.head? = some '/' ∧ g ≠ p then { s with fails := s!"sig=C15/route/sanitize/absolute-path-changed configured={p} registered={g}" :: s.fails }
        else if p.toList.head? ≠ some '/' ∧ g ≠ "/" ++ p then { s with fails := s!"sig=C15/route/sanitize/relative-path-not-rooted configured={p} registered={g}" :: s.fails }
        else s
      | _, _ => { s with sanitize := none, fails := "sig=C15/route/sanitize/unmarshal-failed-or-unparsable" :: s.fails }
    | _ :: "groute" :: got :: _ =>
      match s.route with
      | some (g, want) =>
        if got = showRoute want then { s with route := none }
        else { s with route := none,
                      fails := s!"sig=C15/route-grpc/{g.name}/spec-{routeKind g want}/observed-{(got.splitOn ":").headD "?"} spec={showRoute want} observed={got}" :: s.fails }
      | none => { s with fails := "sig=C15/harness/route-obs-without-op" :: s.fails }
    | _ :: "route" :: got :: _ =>
      match s.route with
      | some (g, want) =>
        if got = showRoute want then { s with route := none }
        else { s with route := none,
                      fails := s!"sig=C15/route/{g.name}/spec-{routeKind g want}/observed-{(got.splitOn ":").headD "?"} spec={showRoute want} observed={got}" :: s.fails }
      | none => { s with fails := "sig=C15/harness/route-obs-without-op" :: s.fails }
    | _ :: "conc" :: rest =>
      match kvNat rest "sent", kvNat rest "acked", kvNat rest "delivered", kvNat rest "matched" with
      | some k, some a, some d, some m =>
        if a ≠ k then { s with fails := s!"sig=C15/concurrency/well-formed-request-not-acknowledged sent={k} acked={a}" :: s.fails }
        else if d ≠ k ∨ m ≠ k then { s with fails := s!"sig=C15/concurrency/payloads-at-consumer-differ-from-sent sent={k} delivered={d} matched={m}" :: s.fails }
        else s
      | _, _, _, _ => { s with fails := "sig=C15/harness/unparsable-conc" :: s.fails }
    | _ :: "sink" :: rest => { s with eq := kv rest "eq" == some "1" }
    | _ :: "verdict" :: v :: rest =>
      match s.cur, s.wire, parseVerdict v, kvNat rest "calls" with
      | some (tr, items, out, af), some (c, h, r), some vd, some calls =>
        -- `sink eq` arrives after `verdict`: checked at the next line; payload handled in `onEnd`-free fashion below
        let x : Hop := { transport := tr, items := items, sink := out, wireCode := c, httpStatus := h, wireRetry := r,
                         verdict := vd, calls := calls, payloadEq := true, authFail := af }
        match hopCheck x with
        | none => s
        | some sig => { s with fails := s!"sig={sig} sink={repr out} items={items} wire=({c},{h},{showOpt r}) verdict={v} calls={calls}" :: s.fails }
      | none, _, _, _ => s   -- raw ops: differential only (plus the harness's own `viol` lines)
      | _, _, _, _ => { s with fails := "sig=C15/harness/unparsable-verdict" :: s.fails }
    | _ => s
  onEnd := fun s =>
    let fs := if s.eq then s.fails else "sig=C15/payload/differs-at-sink" :: s.fails
    match fs.reverse with
    | [] => ["prop hop=ok"]
    | fs => fs.map (fun f => s!"prop hop=FAIL {f}")

end OtelVerif.Drivers.C15

def main : IO UInt32 :=
  runMulti [("c15", run OtelVerif.Drivers.C15.handler)]
