import OtelVerif.Common.Line
import OtelVerif.Model.C15
/-! driver for C15 (stub) -/
def main : IO UInt32 := do
  IO.eprintln "drv_c15: not built yet"
  return 2
