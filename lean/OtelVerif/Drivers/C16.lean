import OtelVerif.Common.Line
import OtelVerif.Model.C16
/-! driver for C16 (stub) -/
def main : IO UInt32 := do
  IO.eprintln "drv_c16: not built yet"
  return 2
