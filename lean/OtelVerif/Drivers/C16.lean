import OtelVerif.Common.Line
import OtelVerif.Model.C16
import OtelVerif.Model.C16Pool
/-!
driver for C16 (model `c16`).

Per request the compression library is instantiated by its *identity-law view*: `enc plain` is an opaque token
of the wire length the implementation showed (`wire=`), `dec` of the intact token is `plain` (the law — the
differential then checks the real library against it), and `dec` of anything else (a stream cut by the wire-side
limit, a hostile stream) is what the implementation showed (`dec=`), because only the library knows it.
Everything else — header, dispatch, rejection, both limits, what the handler reads — is predicted by
`clientSend`/`serve` of `Model/C16.lean`.
-/
open OtelVerif OtelVerif.Line OtelVerif.C16

namespace OtelVerif.Drivers.C16

def lcgBytes (n : Nat) (seed : UInt64) : Bytes :=
  let rec go : Nat → UInt64 → List UInt8 → List UInt8
    | 0, _, acc => acc.reverse
    | k + 1, x, acc =>
      let x' := x * 6364136223846793005 + 1442695040888963407
      go k x' ((x' >>> 56).toUInt8 :: acc)
  go n seed []

/-- bodies shared with the Go harness (`c16Body.bytes`) -/
def mkBody (d : String) : Option Bytes :=
  match d.splitOn ":" with
  | ["z", n] => n.toNat?.map (fun n => List.replicate n 0)
  | ["t", n] => n.toNat?.map (fun n => (List.range n).map (fun i => UInt8.ofNat (97 + (i * 7 + i / 13) % 23)))
  | ["r", n, seed] =>
    match n.toNat?, seed.toNat? with
    | some n, some s => some (lcgBytes n (UInt64.ofNat s))
    | _, _ => none
  | ["x", h] => (unhexBytes h).map (fun bs => bs.map UInt8.ofNat)
  | _ => none

def fnv (b : Bytes) : UInt64 :=
  b.foldl (fun h c => (h ^^^ c.toUInt64) * 1099511628211) 14695981039346656037

inductive DecIn
  | missing
  | fail
  | got (n : Nat) (ok : Bool)

def parseDec (toks : List String) : Option DecIn :=
  match kv toks "dec" with
  | none => some .missing
  | some "fail" => some .fail
  | some s =>
    match s.splitOn ":" with
    | [n, ok] =>
      match n.toNat?, ok with
      | some n, "1" => some (.got n true)
      | some n, "0" => some (.got n false)
      | _, _ => none
    | _ => none

def parseAlgos (s : String) : Option (Option (List String)) :=
  if s = "nil" then some none
  else if s = "empty" then some (some [])
  else ((s.splitOn ",").mapM unhex).map some

structure ReqInfo where
  sent : Option Bytes
  wireLen : Nat
  hashed : Bool
  plainLen : Nat
  plain : Bytes
  /-- the algorithm the CLIENT is configured with, when the client itself encodes the request (no preset header):
  `""` for an uncompressed client. The name on the wire must be exactly this, and the server's verdict is judged by it. -/
  configured : Option String := none

structure S where
  cfg : Cfg := ⟨[], 0⟩
  custom : List (String × String) := []   -- WithDecoder registrations of the current server
  eh : Option (Nat → Nat) := none          -- WithErrorHandler: status the caller's handler answers for the status it is handed
  snap : Proc := Proc.clean               -- process state when the current server was built
  proc : Proc := Proc.clean               -- process state now
  ct : String := ""
  clientOk : Bool := false
  cur : Option ReqInfo := none
  implEnc : String := ""
  implWire : Nat := 0
  fails : List String := []   -- reversed
  pool : PState := PState.init  -- client-side writer pools (Model/C16Pool.lean) of this case
  poolNext : Nat := 0           -- next call id
  poolWant : Option (String × String × Bool) := none   -- (type, `want`, may the call fail?) of the pending pcompress op

def showOutcome (hashed : Bool) : Outcome → String
  | .rejected st => s!"obs rejected {st}"
  | .panicked => "obs panicked"
  | .handled s => s!"obs handled n={s.data.length} h={if hashed then toString (fnv s.data).toNat else "-"} ok={if s.ok then 1 else 0}"

/-- a stream consistent with an observation `(n, h, ok)` of the handler, relative to the body `b` the client was given -/
def streamOfObs (b : Bytes) (n : Nat) (h : Option UInt64) (ok : Bool) : Stream :=
  match h with
  | none => ⟨List.replicate n 0, ok⟩
  | some h =>
    if n ≤ b.length && fnv (b.take n) == h then ⟨b.take n, ok⟩
    else
      -- same length, different content (content differs from every prefix of `b`)
      match b.take n with
      | [] => ⟨List.replicate n 1, ok⟩
      | x :: rest => ⟨(x + 1) :: (rest ++ List.replicate (n - (rest.length + 1)) 0), ok⟩

/-- the pool model's library parameter in the driver: an opaque, key- and input-dependent token (`enc key body`) -/
def poolEnc : PKey → Bytes → Bytes := fun k b => (s!"{k.typ}/{k.level}|").toUTF8.toList ++ b

/-- one `compress` call on the pool model, run to the end on top of the case's pool state; returns the new state, the call's
result and whether ITS buffer holds `enc key body` -/
def poolStep (ps : PState) (t : Nat) (key : PKey) (body : Option Bytes) (failAt : Option Nat) (cf : Bool) :
    PState × Option Bool × Bool :=
  let ps' := runLabels poolEnc ps (seqCall t 0 key body failAt cf)
  (ps', (ps'.calls t).bind (·.result), ps'.bufs t == some (poolEnc key (body.getD [])))

def handler : Handler S where
  init := {}
  onOp := fun s toks =>
    match toks with
    | "pcompress" :: rest =>
      match kv rest "typ", kvInt rest "lvl", kv rest "n", kv rest "h", kvNat rest "nil", kvInt rest "fail", kvNat rest "cf",
            kvNat rest "rt", kv rest "want" with
      | some typ, some lvl, some n, some h, some nl, some fail, some cf, some rt, some want =>
        let key : PKey := ⟨typ, lvl⟩
        let body : Option Bytes := if nl = 1 then none else some (s!"{n}:{h}").toUTF8.toList
        let failAt : Option Nat := if fail < 0 then none else some fail.toNat
        let (ps', res, okBuf) := poolStep s.pool s.poolNext key body failAt (cf = 1)
        -- through the round-tripper the header is the one `clientSend` puts on the request
        let ce := if rt = 1 then ((clientSend (fun _ => ⟨id, fun x => some x⟩) typ "" []).map (·.encoding)).getD "?" else typ
        let s := { s with pool := ps', poolNext := s.poolNext + 1, poolWant := some (typ, want, fail ≥ 0 || cf = 1) }
        match res with
        | some true => (s, [if okBuf then s!"obs pcompress err=0 ce={ce} out={want}" else "obs pcompress err=0 out=model-buffer-is-not-enc-of-own-body"])
        | some false => (s, ["obs pcompress err=1"])
        | none => (s, ["obs bad-op"])
      | _, _, _, _, _, _, _, _, _ => (s, ["obs bad-op"])
    | "cfg" :: rest =>
      match (kv rest "algos").bind parseAlgos, kvInt rest "max", (kv rest "ct").bind unhex with
      | some algos, some mx, some ct =>
        let cfg := (ServerConfig.mk algos mx).eff
        let customNames : Option (List (String × String)) :=
          match kv rest "custom" with
          | none => some []
          | some "-" => some []
          | some cs => (cs.splitOn ",").mapM (fun tok =>
              match tok.splitOn "/" with
              | [h, "xor"] => (unhex h).map (fun n => (n, "xor"))
              | [h, "nil"] => (unhex h).map (fun n => (n, passThroughId))
              | _ => none)
        match customNames with
        | none => (s, ["obs bad-op"])
        | some custom =>
        -- ToClient fails iff a compressed type has no writer
        let ok := !isCompressed ct || (assoc Gen.Compression.writers ct).isSome
        -- a new server in the same process: it sees what earlier constructions left behind, and leaves its own trace
        -- the harness's error handler answers (status it was handed) + eh
        let eh : Option (Nat → Nat) := match kvNat rest "eh" with
          | some 0 => none
          | some d => some (fun st => st + d)
          | none => none
        -- `ClientConfig.Validate`: a compressed type must carry a level `ValidateParams` accepts
        let valid := match kvInt rest "lvl" with
          | some l => !isCompressed ct || levelAccepted ct l
          | none => false
        ({ s with cfg := cfg, custom := custom, eh := eh, snap := s.proc, proc := s.proc.construct ⟨cfg, custom⟩, ct := ct, clientOk := ok,
                  cur := none },
         [if !valid then "obs cfg client=invalid" else if ok then "obs cfg client=ok" else "obs cfg client=err"])
      | _, _, _ => (s, ["obs bad-op"])
    | "getbody" :: rest =>
      -- the request `compressRoundTripper` hands on is built from the compressed buffer (`http.NewRequestWithContext(…, buf)`), so its
      -- GetBody replays exactly its Body, under the configured algorithm's name
      match (kv rest "ct").bind unhex with
      | some ct =>
        if isCompressed ct && (assoc Gen.Compression.writers ct).isSome then (s, [s!"obs getbody equal enc={hex ct}"])
        else (s, ["obs bad-op"])
      | none => (s, ["obs bad-op"])
    | "conc" :: rest =>
      -- overlapping requests through a default server: each is a round trip within the (default) limit, so every
      -- handler reads exactly its own client's bytes (`C16_roundtrip_partial` / `C16_identity_partial` per request);
      -- the interleaving itself is outside the model (monitored)
      match kvNat rest "total", (kv rest "ct").bind unhex with
      | some total, some ct =>
        if Gen.Compression.clientTypes.contains ct then ({ s with cur := none }, [s!"obs conc total={total} exact={total}"])
        else (s, ["obs bad-op"])
      | _, _ => (s, ["obs bad-op"])
    | "req" :: rest =>
      match kv rest "mode", (kv rest "hdr").bind unhex, (kv rest "body").bind mkBody, kvNat rest "wire", parseDec rest with
      | some mode, some hdr, some b, some wire, some decIn =>
        if mode ≠ "client" ∧ mode ≠ "pre" ∧ mode ≠ "garbage" then (s, ["obs bad-op"]) else
        let token : Bytes := List.replicate wire 0xAA
        let garbage := mode == "garbage"
        let decOther : Option Stream :=
          match decIn with
          | .got n ok => some ⟨if garbage then List.replicate n 0 else b.take n, ok⟩
          | _ => none
        let codec : String → Codec := fun _ =>
          { enc := fun _ => token,
            dec := fun st => if !garbage && st == ⟨token, true⟩ then some ⟨b, true⟩ else decOther }
        let given := if mode == "pre" then token else b
        match clientSend codec s.ct hdr given with
        | none => (s, ["obs bad-op client-unavailable"])
        | some rq =>
          let needDec : Bool := rq.encoding != "" && (garbage || decide (s.cfg.limit < rq.wire.data.length))
          let haveDec := match decIn with | .missing => false | _ => true
          -- the library-only input must be present exactly when the model needs it and the decoder is reached
          let srv : Server := ⟨s.cfg, s.custom⟩
          let rdMode : Option ReadMode :=
            match (kv rest "rd").map (fun t => t.splitOn ":") with
            | none => some .all
            | some ["all"] => some .all
            | some ["chunk", _] => some .all
            | some ["partial", k] => k.toNat?.map ReadMode.upTo
            | some ["none"] => some .none
            | _ => none
          match rdMode with
          | none => (s, ["obs bad-op rd"])
          | some rdMode =>
          let out := Outcome.read rdMode <| (serveP s.snap codec srv rq).answeredBy s.eh   -- `serveE` inside the process
          let reached := match decoderFor srv rq.encoding with
            | some (.lib _) => true
            | _ => false
          if needDec && reached && !haveDec then (s, ["obs bad-op dec-input-missing"]) else
          let info : ReqInfo := { sent := if garbage then none else some (handlerReads rdMode ⟨b, true⟩).data, wireLen := rq.wire.data.length,
                                  hashed := !garbage, plainLen := b.length, plain := b,
                                  configured := if mode == "client" && hdr == "" then some (if isCompressed s.ct then s.ct else "") else none }
          -- what the request looks like to the handler (only observable when it runs)
          let clientEncodes := mode == "client" && hdr == "" && isCompressed s.ct
          let known := !(kv rest "chunked" == some "1") || clientEncodes
          let view := handlerView (s.snap.server srv) rq known
          let viewLine := match out with
            | .handled _ => [s!"obs view cl={match view.contentLength with | some n => toString n | none => "-1"} ce={if view.hasEncodingHeader then 1 else 0}"]
            | _ => []
          ({ s with cur := some info },
           viewLine ++ [s!"obs sent enc={hex rq.encoding} n={if rq.encoding = "" then 0 else 1} wire={rq.wire.data.length}", showOutcome (!garbage) out])
      | _, _, _, _, _ => (s, ["obs bad-op"])
    | _ => (s, ["obs bad-op"])
  onObs := fun s toks =>
    match toks with
    | _ :: "sent" :: rest =>
      match (kv rest "enc").bind unhex, kvNat rest "wire" with
      | some e, some w => { s with implEnc := e, implWire := w }
      | _, _ => { s with fails := "sig=C16/harness/unparsable-sent" :: s.fails }
    | _ :: "cfg" :: _ => s
    | _ :: "view" :: _ => s
    | _ :: "pcompress" :: rest =>
      -- `C16_pool_output` evaluated on the implementation: a compress call that returned nil left `enc key body` (the output of a
      -- fresh writer built by the key's constructor, `want=`) in its own buffer, under its own Content-Encoding
      match s.poolWant, kv rest "err" with
      | some (typ, want, canFail), some e =>
        let s := { s with poolWant := none }
        if e = "1" then
          if canFail then s else { s with fails := s!"sig=C16/client/pooled-compress-failed-on-a-healthy-body/{typ}" :: s.fails }
        else if canFail then { s with fails := s!"sig=C16/client/pooled-compress-swallowed-a-body-error/{typ}" :: s.fails }
        else if kv rest "out" ≠ some want then
          { s with fails := s!"sig=C16/client/pooled-writer-output-is-not-the-encoding-of-its-own-body/{typ} want={want} got={(kv rest "out").getD "?"}" :: s.fails }
        else if kv rest "ce" ≠ some typ then
          { s with fails := s!"sig=C16/client/content-encoding-is-not-the-configured-algorithm configured={typ} on-the-wire={(kv rest "ce").getD "?"}" :: s.fails }
        else s
      | _, _ => { s with fails := "sig=C16/harness/pcompress-obs-without-op" :: s.fails }
    | _ :: "getbody" :: v :: _ =>
      if v = "equal" || v = "absent" then s   -- no GetBody = not replayable: a changed tie, not a violated property
      else { s with fails := s!"sig=C16/client/getbody-differs-from-body outgoing-request-getbody={v}" :: s.fails }
    | _ :: "conc" :: rest =>
      match kvNat rest "total", kvNat rest "exact" with
      | some t, some e =>
        if t = e then s else { s with fails := s!"sig=C16/concurrency/not-every-handler-read-its-own-body total={t} exact={e}" :: s.fails }
      | _, _ => { s with fails := "sig=C16/harness/unparsable-conc" :: s.fails }
    | _ :: kind :: rest =>
      match s.cur with
      | none => { s with fails := "sig=C16/harness/outcome-without-request" :: s.fails }
      | some info =>
        let outcome : Option Outcome :=
          match kind, rest with
          | "rejected", [st] => st.toNat?.map Outcome.rejected
          | "panicked", [] => some .panicked
          | "handled", _ =>
            match kvNat rest "n", kv rest "h", kv rest "ok" with
            | some n, some h, some ok =>
              let hv : Option UInt64 := if h = "-" then none else h.toNat?.map UInt64.ofNat
              some (.handled (streamOfObs info.plain n (if info.hashed then hv else none) (ok == "1")))
            | _, _, _ => none
          | _, _ => none
        match outcome with
        | none => { s with cur := none, fails := s!"sig=C16/harness/no-outcome {kind}" :: s.fails }
        | some o =>
          -- names are identities: what the client writes into Content-Encoding is the configured algorithm's own name …
          let s := match info.configured with
            | some t =>
              if s.implEnc = t then s
              else { s with fails := s!"sig=C16/client/content-encoding-is-not-the-configured-algorithm configured={t.quote} on-the-wire={s.implEnc.quote} enabled={s.cfg.enabled}" :: s.fails }
            | none => s
          -- … and whether the server must accept or reject is decided by the CONFIGURED algorithm, not by the label
          let judged := info.configured.getD s.implEnc
          let x : Exchange := { enabled := s.cfg.enabled, limit := s.cfg.limit, encoding := judged,
                                sent := info.sent, wireLen := s.implWire, outcome := o,
                                custom := s.custom.map (·.1) }
          match exchangeCheck x with
          | none => { s with cur := none }
          | some sig =>
            let sig := if judged = s.implEnc then sig
                       else if sig = "C16/roundtrip/rejected" then "C16/names/enabled-algorithm-rejected-under-another-name"
                       else if sig = "C16/reject/disabled-encoding-reached-handler" then "C16/names/disabled-algorithm-accepted-under-another-name"
                       else sig
            { s with cur := none,
                     fails := s!"sig={sig} configured={judged.quote} enabled={s.cfg.enabled} custom={s.custom.map (·.1)} limit={s.cfg.limit} encoding={s.implEnc.quote} body={info.plainLen} wire={s.implWire} saw={" ".intercalate (kind :: rest)}" :: s.fails }
    | _ => s
  onEnd := fun s =>
    match s.fails.reverse with
    | [] => ["prop exchange=ok"]
    | fs => fs.map (fun f => s!"prop exchange=FAIL {f}")

end OtelVerif.Drivers.C16

def main : IO UInt32 :=
  runMulti [("c16", run OtelVerif.Drivers.C16.handler)]
