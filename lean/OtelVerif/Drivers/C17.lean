import OtelVerif.Common.Line
import OtelVerif.Model.C17
/-! driver for C17 (stub) -/
def main : IO UInt32 := do
  IO.eprintln "drv_c17: not built yet"
  return 2
