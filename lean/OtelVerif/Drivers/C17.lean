import OtelVerif.Common.Line
import OtelVerif.Model.C17
import OtelVerif.Model.C17Key
/-! driver for C17: models `c17-split` (split functions, exact differential) and `c17-proc` (processor) -/
open OtelVerif OtelVerif.Line OtelVerif.Payload OtelVerif.C17

namespace OtelVerif.Drivers.C17

inductive Src where
  | none
  | logs (size : Nat) (p : List Res)
  | metrics (size : Nat) (p : List MRes)

structure SS where
  src : Src := .none
  implDest : Option (List String) := none
  implRem : Option (List String) := none
  bad : Option String := none

/-- ids of the items of a flattening, to classify a failure -/
def idsOf (l : List Ctx) : List Nat := l.map (·.2.2.id)
def midsOf (l : List MCtx) : List Nat := l.map (·.2.2.2.id)

/-- the property oracle on the implementation's own output: conservation with context, and exact size -/
def checkLogs (size : Nat) (src dest rem : List Res) : List String :=
  if count src ≤ size then
    [if permB (flatten dest) (flatten src) then "prop conserve=ok" else "prop conserve=FAIL sig=C17/split/whole-payload-changed"]
  else
    let a := flatten dest ++ flatten rem
    let b := flatten src
    [ if permB a b then "prop conserve=ok"
      else if permB (idsOf a) (idsOf b) then
        s!"prop conserve=FAIL sig=C17/split/item-context-changed size={size}"
      else s!"prop conserve=FAIL sig=C17/split/items-lost-or-duplicated size={size}",
      if count dest = size then "prop size=ok" else s!"prop size=FAIL sig=C17/split/wrong-batch-size want={size} got={count dest}" ]

def checkMetrics (size : Nat) (src dest rem : List MRes) : List String :=
  if mcount src ≤ size then
    [if permB (mflatten dest) (mflatten src) then "prop conserve=ok" else "prop conserve=FAIL sig=C17/split/whole-payload-changed"]
  else
    let a := mflatten dest ++ mflatten rem
    let b := mflatten src
    [ if permB a b then "prop conserve=ok"
      else if permB (midsOf a) (midsOf b) then
        s!"prop conserve=FAIL sig=C17/split/point-context-changed size={size}"
      else s!"prop conserve=FAIL sig=C17/split/points-lost-or-duplicated size={size}",
      if mcount dest = size then "prop size=ok" else s!"prop size=FAIL sig=C17/split/wrong-batch-size want={size} got={mcount dest}" ]

def splitHandler : Handler SS where
  init := {}
  onOp := fun s toks =>
    match toks with
    | kind :: sz :: "|" :: rest =>
      match kvNat [sz] "size" with
      | some size =>
        if kind = "splitlogs" ∨ kind = "splittraces" then
          match Codec.parsePayload rest with
          | some p =>
            let r := splitLogs size p
            ({ s with src := .logs size p }, [s!"obs dest | {Codec.showPayload r.1}", s!"obs rem | {Codec.showPayload r.2}"])
          | Option.none => (s, ["obs bad-op"])
        else if kind = "splitmetrics" then
          match Codec.parseMPayload rest with
          | some p =>
            let r := splitMetrics size p
            ({ s with src := .metrics size p }, [s!"obs dest | {Codec.showMPayload r.1}", s!"obs rem | {Codec.showMPayload r.2}"])
          | Option.none => (s, ["obs bad-op"])
        else (s, ["obs bad-op"])
      | Option.none => (s, ["obs bad-op"])
    | _ => (s, ["obs bad-op"])
  onObs := fun s toks =>
    match toks with
    | _ :: "dest" :: "|" :: rest => { s with implDest := some rest }
    | _ :: "rem" :: "|" :: rest => { s with implRem := some rest }
    | _ => s
  onEnd := fun s =>
    match s.src, s.implDest, s.implRem with
    | .logs size p, some d, some r =>
      match Codec.parsePayload d, Codec.parsePayload r with
      | some d, some r => checkLogs size p d r
      | _, _ => ["prop conserve=FAIL sig=C17/split/unparsable-output"]
    | .metrics size p, some d, some r =>
      match Codec.parseMPayload d, Codec.parseMPayload r with
      | some d, some r => checkMetrics size p d r
      | _, _ => ["prop conserve=FAIL sig=C17/split/unparsable-output"]
    | .none, _, _ => []
    | _, _, _ => ["prop conserve=FAIL sig=C17/split/no-output"]

/-! ### processor -/

/-- what the generic processor handler needs from a signal -/
structure Sig (P : Type) where
  ops : BatchOps P
  parse : List String → Option P
  shw : P → String
  /-- (item id, full context as a string) of every item -/
  items : P → List (Nat × String)

def logsSig : Sig (List Res) :=
  { ops := logsBatch, parse := Codec.parsePayload, shw := Codec.showPayload,
    items := fun p => (flatten p).map (fun c => (c.2.2.id, s!"{c.1.attr},{c.1.schema},{c.2.1.name},{c.2.1.ver},{c.2.1.attr},{c.2.1.schema}")) }

def metricsSig : Sig (List MRes) :=
  { ops := metricsBatch, parse := Codec.parseMPayload, shw := Codec.showMPayload,
    items := fun p => (mflatten p).map (fun c =>
      let m := c.2.2.1
      (c.2.2.2.id, s!"{c.1.attr},{c.1.schema},{c.2.1.name},{c.2.1.ver},{c.2.1.attr},{c.2.1.schema},{m.name},{m.unit},{m.desc},{m.ty},{m.temp},{m.mono},{m.md}")) }

def parseKey (s : String) : Option Key :=
  if s = "_" then some [] else
  (s.splitOn "/").mapM (fun part => if part = "-" then some [] else (part.splitOn ".").mapM String.toNat?)

/-- the RAW client metadata of a `Consume` call: `md=Name:1.2,Other:-,X:7` (header names as sent, values interned; `-` =
present with an empty list) or `md=-` (no metadata at all) -/
def parseMd (s : String) : Option Md :=
  if s = "-" then some [] else
  (s.splitOn ",").mapM (fun ent => match ent.splitOn ":" with
    | [name, vs] => (if vs = "-" then some [] else (vs.splitOn ".").mapM String.toNat?).map (fun v => (name, v))
    | _ => Option.none)

def showKey (nkeys : Nat) (k : Key) : String :=
  if nkeys = 0 then "_" else
  "/".intercalate (k.map (fun vs => if vs.isEmpty then "-" else ".".intercalate (vs.map toString)))

/-- accepted item: id, context, group, arrival time -/
structure Acc where
  id : Nat
  ctx : String
  key : String
  t : Nat

/-- emitted item as seen on the implementation side -/
structure Em where
  id : Nat
  ctx : String
  key : String
  t : Nat
  batch : Nat   -- index of the batch
  batchLen : Nat

structure PS (P : Type) where
  cfg : Cfg := { sbs := 0, max := 0, timeout := 0 }
  pr : Proc P := { shards := [] }
  accepted : List Acc := []
  groups : List String := []   -- groups that were accepted at least once (also with empty payloads)
  lastOpArrive : Option (String × List (Nat × String)) := none  -- pending accept decision (key, items)
  pendingKey : Option String := none
  emitted : List Em := []
  nbatch : Nat := 0
  fails : List String := []
  shut : Bool := false
  /-- accepted but not yet processed (still in the shard's `newItem` channel): burst cases -/
  queue : List (Key × P) := []
  burst : Bool := false
  /-- `metadata_keys` as written in the configuration (`op cfgraw keys=`) -/
  rawKeys : List String := []

def sortStrings (l : List String) : List String := l.mergeSort (fun a b => a ≤ b)

def showEmits {P : Type} (sg : Sig P) (nkeys : Nat) (es : List (Emit P)) : List String :=
  -- the export context is built from the group's values of the configured keys only: nothing else of any caller's client.Info
  sortStrings (es.map (fun e => s!"obs emit t={e.t} k={showKey nkeys e.key} ctx=clean | {sg.shw e.p}"))

/-- clauses that can be judged after every label, on the implementation's emits -/
def pendingCheck {P : Type} (s : PS P) : List String :=
  -- items that are only enqueued (burst cases) have not been looked at by the shard yet: judged after shutdown
  if s.burst && !s.shut then [] else
  let keys := (s.accepted.map (·.key)).eraseDups
  keys.filterMap (fun k =>
    let pend := (s.accepted.filter (·.key = k)).length - (s.emitted.filter (·.key = k)).length
    if hasTimer s.cfg then
      if pend ≥ s.cfg.sbs then some s!"prop trigger=FAIL sig=C17/proc/size-trigger-missed group={k} pending={pend} send_batch_size={s.cfg.sbs}" else none
    else if pend ≠ 0 then some s!"prop trigger=FAIL sig=C17/proc/not-sent-immediately group={k} pending={pend}" else none)

def procHandler {P : Type} (sg : Sig P) : Handler (PS P) where
  init := {}
  onOp := fun s toks =>
    match toks with
    | "cfgraw" :: rest =>
      match kvNat rest "sbs", kvNat rest "max", kvInt rest "timeout", kv rest "keys", kvNat rest "limit" with
      | some sbs, some max, some timeout, some keys, some limit =>
        let r : RawCfg := { sbs := sbs, max := max, timeout := timeout, keys := if keys = "-" then [] else keys.splitOn ",", limit := limit }
        -- the verdict of the REGENERATED Validate (`C17_validCfg_matches_source`: equal to `validCfg`)
        ({ s with rawKeys := r.keys }, [s!"obs valid={if validCfgGen r then 1 else 0}"])
      | _, _, _, _, _ => (s, ["obs bad-op"])
    | ["defaults"] =>
      (s, ["obs defaults " ++ " ".intercalate (OtelVerif.Gen.C17Config.defaults.map (fun (k, v) => s!"{k}={v}"))])
    | "cfg" :: rest =>
      match kvNat rest "sbs", kvNat rest "max", kvNat rest "timeout", kvNat rest "nkeys", kvNat rest "limit" with
      | some sbs, some max, some timeout, some nkeys, some limit =>
        let c : Cfg := { sbs := sbs, max := max, timeout := timeout, nkeys := nkeys, limit := limit }
        ({ s with cfg := c, pr := Proc.init sg.ops c }, ["obs done"])
      | _, _, _, _, _ => (s, ["obs bad-op"])
    | "arrive" :: k :: "|" :: rest =>
      -- the group is computed by the MODEL from the raw configured keys and the raw client metadata (`groupOf`)
      match ((kv [k] "md").bind parseMd).map (groupOf s.rawKeys), sg.parse rest with
      | some key, some p =>
        let ks := showKey s.cfg.nkeys key
        match s.pr.arrive sg.ops s.cfg key p with
        | some (pr, es) => ({ s with pr := pr, lastOpArrive := some (ks, sg.items p), pendingKey := some ks }, showEmits sg s.cfg.nkeys es ++ ["obs ok"])
        | Option.none => ({ s with lastOpArrive := some (ks, sg.items p), pendingKey := some ks }, ["obs err toomany"])
      | _, _ => (s, ["obs bad-op"])
    | "enqueue" :: k :: "|" :: rest =>
      -- `Consume` returned (the shard exists / the limit was checked) but the shard goroutine has not taken the item yet:
      -- in the LTS this is `arrive key ∅` now and `arrive key p` when the channel is drained
      match ((kv [k] "md").bind parseMd).map (groupOf s.rawKeys), sg.parse rest with
      | some key, some p =>
        let ks := showKey s.cfg.nkeys key
        match s.pr.arrive sg.ops s.cfg key sg.ops.empty with
        | some (pr, _) => ({ s with pr := pr, queue := s.queue ++ [(key, p)], burst := true,
                                    lastOpArrive := some (ks, sg.items p), pendingKey := some ks }, ["obs ok"])
        | Option.none => ({ s with burst := true, lastOpArrive := some (ks, sg.items p), pendingKey := some ks }, ["obs err toomany"])
      | _, _ => (s, ["obs bad-op"])
    | ["advance", us] =>
      match kvNat [us] "us" with
      | some dt =>
        let r := s.pr.advance sg.ops s.cfg dt
        ({ s with pr := r.1 }, showEmits sg s.cfg.nkeys r.2 ++ ["obs done"])
      | Option.none => (s, ["obs bad-op"])
    | ["shutdown"] =>
      -- the DONE: loop drains what is queued (processItem each, in channel order), then one final send per shard
      let (pr, drained) := s.queue.foldl (fun (acc : Proc P × List (Emit P)) x =>
        match acc.1.arrive sg.ops s.cfg x.1 x.2 with
        | some (pr', es) => (pr', acc.2 ++ es)
        | Option.none => acc) (s.pr, [])
      let r := pr.shutdown sg.ops s.cfg
      ({ s with pr := r.1, shut := true, queue := [] }, showEmits sg s.cfg.nkeys (drained ++ r.2) ++ ["obs done"])
    | _ => (s, ["obs bad-op"])
  onObs := fun s toks =>
    match toks with
    | _ :: "emit" :: t :: k :: cx :: "|" :: rest =>
      let s := if cx = "ctx=clean" then s else
        { s with fails := s.fails ++ [s!"prop isolation=FAIL sig=C17/proc/export-context-carries-foreign-client-info {cx}"] }
      match kvNat [t] "t", kv [k] "k", sg.parse rest with
      | some t, some k, some p =>
        let its := sg.items p
        let ems := its.map (fun (id, ctx) => ({ id := id, ctx := ctx, key := k, t := t, batch := s.nbatch, batchLen := its.length } : Em))
        -- arrival being processed counts as accepted before its own emits are judged
        let s := match s.lastOpArrive with
          | some (ks, items) => { s with accepted := s.accepted ++ items.map (fun (id, ctx) => ({ id := id, ctx := ctx, key := ks, t := s.pr.now } : Acc)), lastOpArrive := Option.none }
          | Option.none => s
        { s with emitted := s.emitted ++ ems, nbatch := s.nbatch + 1 }
      | _, _, _ => { s with fails := s.fails ++ ["prop parse=FAIL sig=C17/proc/unparsable-emit"] }
    | [_, "ok"] =>
      let s := match s.lastOpArrive with
        | some (ks, items) => { s with accepted := s.accepted ++ items.map (fun (id, ctx) => ({ id := id, ctx := ctx, key := ks, t := s.pr.now } : Acc)), lastOpArrive := Option.none }
        | Option.none => s
      let s := match s.pendingKey with
        | some ks =>
          let s := if !s.groups.contains ks && s.cfg.nkeys != 0 && s.cfg.limit != 0 && s.groups.length ≥ s.cfg.limit then
              { s with fails := s.fails ++ [s!"prop cardinality=FAIL sig=C17/proc/accepted-beyond-cardinality-limit groups={s.groups.length} limit={s.cfg.limit}"] }
            else s
          { s with groups := if s.groups.contains ks then s.groups else s.groups ++ [ks], pendingKey := Option.none }
        | Option.none => s
      { s with fails := s.fails ++ pendingCheck s }
    | [_, "err", "toomany"] =>
      -- refusal is legitimate only for a NEW group when the number of groups equals the limit
      match s.pendingKey with
      | some ks =>
        let groups := s.groups
        let s := { s with lastOpArrive := Option.none, pendingKey := Option.none }
        if groups.contains ks then { s with fails := s.fails ++ [s!"prop cardinality=FAIL sig=C17/proc/existing-group-refused group={ks}"] }
        else if s.cfg.limit = 0 ∨ groups.length < s.cfg.limit then
          { s with fails := s.fails ++ [s!"prop cardinality=FAIL sig=C17/proc/refused-below-limit groups={groups.length} limit={s.cfg.limit}"] }
        else s
      | Option.none => s
    | [_, "done"] => { s with fails := s.fails ++ pendingCheck s }
    | _ => s
  onEnd := fun s =>
    let c := s.cfg
    let acc := s.accepted
    let em := s.emitted
    let once :=
      if !s.shut then [] else
      let a := acc.map (fun x => (x.id, x.ctx))
      let e := em.map (fun x => (x.id, x.ctx))
      if permB e a then ["prop exactly_once=ok"]
      else if permB (e.map (·.1)) (a.map (·.1)) then ["prop exactly_once=FAIL sig=C17/proc/item-context-changed"]
      else ["prop exactly_once=FAIL sig=C17/proc/items-lost-duplicated-or-invented"]
    let bound := match em.find? (fun x => c.max > 0 && x.batchLen > c.max) with
      | some x => [s!"prop bound=FAIL sig=C17/proc/batch-exceeds-max items={x.batchLen} max={c.max}"]
      | Option.none => ["prop bound=ok"]
    let iso := match em.find? (fun x => (acc.find? (fun a => a.id = x.id)).any (fun a => a.key ≠ x.key)) with
      | some x => [s!"prop isolation=FAIL sig=C17/proc/item-in-foreign-group item={x.id} sent_as={x.key}"]
      | Option.none => ["prop isolation=ok"]
    let late := match em.find? (fun x => (acc.find? (fun a => a.id = x.id)).any (fun a =>
        if hasTimer c then x.t > a.t + c.timeout else x.t ≠ a.t)) with
      | some x => [s!"prop timeout=FAIL sig=C17/proc/emitted-after-deadline item={x.id} t={x.t}"]
      | Option.none => ["prop timeout=ok"]
    let trig := match s.fails with
      | [] => ["prop trigger=ok"]
      | f :: _ => [f]
    once ++ bound ++ iso ++ late ++ trig

/-! ### concurrent first arrivals against the cardinality limit (monitor only) -/

structure CS where
  limit : Nat := 0
  max : Nat := 0
  overMax : Option Nat := none
  accepted : List (Nat × String) := []   -- record id, group
  refused : List (Nat × String) := []
  emitted : List (Nat × String) := []
  bad : Option String := none

/-- the monitor: what the property says about any accept / refuse / emit log with a cardinality limit, whatever the
interleaving was.  `consume` is one atomic label of the model (`Proc.arrive`, `C17_cardinality`): a log the model can
produce satisfies all four clauses. -/
def cardHandler : Handler CS where
  init := {}
  onOp := fun s toks =>
    match toks with
    | "trial" :: rest =>
      match kvNat rest "limit" with
      | some l => ({ s with limit := l, max := (kvNat rest "max").getD 0 }, [])
      | Option.none => (s, ["obs bad-op"])
    | _ => (s, ["obs bad-op"])
  onObs := fun s toks =>
    match toks with
    | ["tr", "accept", k, id] =>
      match kv [k] "k", kvNat [id] "id" with
      | some k, some id => { s with accepted := s.accepted ++ [(id, k)] }
      | _, _ => { s with bad := some "accept" }
    | ["tr", "refuse", k, id] =>
      match kv [k] "k", kvNat [id] "id" with
      | some k, some id => { s with refused := s.refused ++ [(id, k)] }
      | _, _ => { s with bad := some "refuse" }
    | ["tr", "emit", k, ids] =>
      match kv [k] "k", (kv [ids] "ids").bind (fun x => if x = "" then some [] else (x.splitOn ",").mapM String.toNat?) with
      | some k, some ids => { s with emitted := s.emitted ++ ids.map (fun i => (i, k)),
                                     overMax := if s.max > 0 && ids.length > s.max then some ids.length else s.overMax }
      | _, _ => { s with bad := some "emit" }
    | _ => s
  onEnd := fun s =>
    match s.bad with
    | some b => [s!"prop cardinality=FAIL sig=C17/proc/unparsable-trace {b}"]
    | Option.none =>
      let groups := (s.accepted.map (·.2)).eraseDups
      [ match s.overMax with
        | some k => s!"prop bound=FAIL sig=C17/proc/batch-exceeds-max items={k} max={s.max}"
        | Option.none => "prop bound=ok",
        if s.limit = 0 then "prop cardinality=ok"
        else if groups.length > s.limit then
          s!"prop cardinality=FAIL sig=C17/proc/accepted-beyond-cardinality-limit groups={groups.length} limit={s.limit}"
        else if !s.refused.isEmpty && groups.length < s.limit then
          s!"prop cardinality=FAIL sig=C17/proc/refused-below-limit groups={groups.length} limit={s.limit}"
        else "prop cardinality=ok",
        if permB (s.emitted.map (·.1)) (s.accepted.map (·.1)) then "prop exactly_once=ok"
        else "prop exactly_once=FAIL sig=C17/proc/items-lost-duplicated-or-invented",
        match s.emitted.find? (fun e => (s.accepted.find? (fun a => a.1 = e.1)).any (fun a => a.2 ≠ e.2)) with
        | some e => s!"prop isolation=FAIL sig=C17/proc/item-in-foreign-group item={e.1} sent_as={e.2}"
        | Option.none => "prop isolation=ok" ]

end OtelVerif.Drivers.C17

def main : IO UInt32 :=
  do
  -- the processor model is chosen by `kind=` of the first `op cfg`; two drivers share the line format, so peek
  runMulti [("c17-split", run OtelVerif.Drivers.C17.splitHandler),
            ("c17-proc-logs", run (OtelVerif.Drivers.C17.procHandler OtelVerif.Drivers.C17.logsSig)),
            ("c17-proc-traces", run (OtelVerif.Drivers.C17.procHandler OtelVerif.Drivers.C17.logsSig)),
            ("c17-proc-metrics", run (OtelVerif.Drivers.C17.procHandler OtelVerif.Drivers.C17.metricsSig)),
            ("c17-card", run OtelVerif.Drivers.C17.cardHandler)]
