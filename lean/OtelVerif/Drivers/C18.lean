import OtelVerif.Common.Line
import OtelVerif.Model.C18Src
/-! driver for C18: models `c18-check` (validate, checker construction, CheckMemLimits histories),
`c18-rc` (reference-counted start/stop + ticker), `c18-proc` (processor / extension consume) -/
open OtelVerif OtelVerif.Line OtelVerif.C18

namespace OtelVerif.Drivers.C18

def b01 (b : Bool) : String := if b then "1" else "0"

def kvBool (toks : List String) (k : String) : Option Bool :=
  match kv toks k with
  | some "1" => some true
  | some "0" => some false
  | _ => none

def parseCfg (t : List String) : Option Config := do
  let ci ← kvInt t "ci"
  let gs ← kvInt t "gs"
  let gh ← kvInt t "gh"
  let lm ← kvNat t "lm"
  let sm ← kvNat t "sm"
  let lp ← kvNat t "lp"
  let sp ← kvNat t "sp"
  pure { checkInterval := ci, gcSoft := gs, gcHard := gh, limitMiB := lm, spikeMiB := sm, limitPct := lp, spikePct := sp }

structure CS where
  cfg : Option Config := none
  chk : Option Checker := none
  st : LState := {}
  -- oracle state, from the implementation's own observations
  implLastGC : Int := 0
  pending : Option Reading := none
  fails : List String := []

def checkHandler : Handler CS where
  init := {}
  onOp := fun s toks =>
    match toks with
    | "validate" :: t =>
      match parseCfg t with
      | some c => ({ s with cfg := some c }, [s!"obs valid {validate c}"])
      | none => (s, ["obs bad-op"])
    | "mk" :: t =>
      match s.cfg, kvNat t "total" with
      | some c, some total =>
        let k := mkCheckerSrc c total   -- the percentage formula of the source as it is (regenerated)
        ({ s with chk := some k }, [s!"obs chk limit={k.limit} spike={k.spike}"])
      | _, _ => (s, ["obs bad-op"])
    | "check" :: t =>
      match s.cfg, s.chk, kvInt t "now", kvNat t "r", kvNat t "gcdur", kvNat t "g" with
      | some c, some k, some now, some r, some gd, some g =>
        let rd : Reading := { now := now, alloc := r, gcDur := gd, allocAfterGC := g }
        let o := check k c.gcSoft c.gcHard s.st rd
        ({ s with st := o.st, pending := some rd }, [s!"obs st refuse={b01 o.st.mustRefuse} gc={b01 o.gcRan} lastgc={o.st.lastGC}"])
      | _, _, _, _, _, _ => (s, ["obs bad-op"])
    | _ => (s, ["obs bad-op"])
  onObs := fun s toks =>
    match toks, s.cfg, s.chk, s.pending with
    | [_, "st", rf, gc, lg], some c, some k, some rd =>
      match kvBool [rf] "refuse", kvBool [gc] "gc", kvInt [lg] "lastgc" with
      | some refuse, some gcRan, some lastgc =>
        let fs := (checkObs k c.gcSoft c.gcHard s.implLastGC rd { refuse := refuse, gcRan := gcRan, lastGC := lastgc }).map (fun f => s!"{f} now={rd.now}")
        { s with implLastGC := lastgc, pending := none, fails := s.fails ++ fs }
      | _, _, _ => { s with fails := s.fails ++ ["C18/check/unparsable"] }
    | _, _, _, _ => s
  onEnd := fun s =>
    match s.fails with
    | [] => ["prop check=ok"]
    | f :: more => [s!"prop check=FAIL sig={f} more={more.length}"]

structure RS where
  t : Timed := {}
  gs : Int := 3600000000000
  gh : Int := 3600000000000
  ci : Int := 1000000000
  -- oracle: users = starts − successful shutdowns, from the implementation's observations
  users : Int := 0
  lastOp : String := ""
  /-- the mode the implementation showed last (after the previous tick window / op) -/
  implRefuse : Bool := false
  winLen : Int := 0
  fails : List String := []

/-- the checker of the ref-count harness: 100 MiB / 20 MiB (GC intervals and check interval come with `op rccfg`) -/
def rcChecker : Checker := ⟨104857600, 20971520⟩

def rcHandler : Handler RS where
  init := {}
  onOp := fun s toks =>
    match toks with
    | "rccfg" :: t =>
      match kvInt t "gs", kvInt t "gh", kvInt t "ci" with
      | some gs, some gh, some ci => ({ s with gs := gs, gh := gh, ci := ci }, [])
      | _, _, _ => (s, ["obs bad-op"])
    | "start" :: t =>
      match kvInt t "now", (kvNat t "ctx").bind Ctx.ofKind with
      | some now, some _ctx =>   -- the context is a parameter of the label; the model's step does not depend on it (C18_context_irrelevant)
        let (_, err) := s.t.sys.rc.step .start
        let t' := s.t.start rcChecker s.gs s.gh now
        ({ s with t := t', lastOp := "start" }, [s!"obs rc err={b01 err}", s!"obs mode refuse={b01 t'.sys.st.mustRefuse} meas=0"])
      | _, _ => (s, ["obs bad-op"])
    | "shutdown" :: t =>
      match (kvNat t "ctx").bind Ctx.ofKind with
      | some _ctx =>
        let (_, err) := s.t.sys.rc.step .shutdown
        let t' := s.t.shutdown rcChecker s.gs s.gh
        ({ s with t := t', lastOp := "shutdown" }, [s!"obs rc err={b01 err}", s!"obs mode refuse={b01 t'.sys.st.mustRefuse} meas=0"])
      | none => (s, ["obs bad-op"])
    | "tick" :: t =>
      match kvInt t "a", kvInt t "b", kvNat t "r", kvNat t "g" with
      | some a, some b, some r, some g =>
        let w := s.t.window rcChecker s.gs s.gh s.ci a b r g
        ({ s with t := w.t, lastOp := "tick", winLen := b - a },
         [s!"obs tick checks={w.checks} reads={w.checks + w.gcs} gcs={w.gcs} refuse={b01 w.t.sys.st.mustRefuse}"])
      | _, _, _, _ => (s, ["obs bad-op"])
    | _ => (s, ["obs bad-op"])
  onObs := fun s toks =>
    match toks with
    | [_, "rc", e] =>
      match kvBool [e] "err" with
      | some err =>
        let users := if s.lastOp = "start" then s.users + 1 else if err then s.users else s.users - 1
        { s with users := users, fails := s.fails ++ checkRC s.users s.lastOp err false }
      | none => { s with fails := s.fails ++ ["C18/refcount/unparsable"] }
    | [_, "tick", c, _, _, rf] =>
      match kvNat [c] "checks", kvBool [rf] "refuse" with
      | some checks, some refuse =>
        -- a window of at least one check interval must contain a check while a user is present
        let f := if s.winLen ≥ s.ci || checks > 0 then checkRC s.users "tick" false (decide (checks > 0)) else []
        { s with implRefuse := refuse, fails := s.fails ++ f }
      | _, _ => { s with fails := s.fails ++ ["C18/refcount/unparsable"] }
    | [_, "mode", rf, m] =>
      -- the mode right after a start / shutdown, before any time passes: it may only differ from the last one if a reading was taken
      match kvBool [rf] "refuse", kvNat [m] "meas" with
      | some refuse, some meas =>
        { s with implRefuse := refuse, fails := s.fails ++ (checkMode s.implRefuse refuse meas).map (fun f => s!"{f}/{s.lastOp}") }
      | _, _ => { s with fails := s.fails ++ ["C18/refcount/unparsable"] }
    | _ => s
  onEnd := fun s =>
    match s.fails with
    | [] => ["prop refcount=ok"]
    | f :: more => [s!"prop refcount=FAIL sig={f} more={more.length}"]

def sigOfNat : Nat → Option Sig
  | 0 => some .logs | 1 => some .traces | 2 => some .metrics | 3 => some .profiles | _ => none

structure PS where
  fails : List String := []

def procHandler : Handler PS where
  init := {}
  onOp := fun s toks =>
    match toks with
    | "consume" :: t =>
      match kvBool t "refusing", kv t "next", (kvNat t "sig").bind sigOfNat, kvNat t "n" with
      | some refusing, some nx, some sig, some n =>
        let next : Unit → Res := fun _ => if nx = "ok" then .ok else if nx = "perm" then .downstream 1 true else .downstream 1 false
        let out := consumeFull sig (fun _ => n) refusing () next
        let rs := match out.res with
          | .ok => "ok"
          | .refused => "refused"
          | .downstream _ p => s!"down perm={b01 p}"
        let k := out.counts
        (s, [s!"obs res fwd={b01 out.forwarded.isSome} {rs} permanent={b01 out.res.isPermanent} acc={k.accepted} ref={k.refused} in={k.incoming} out={k.outgoing}"])
      | _, _, _, _ => (s, ["obs bad-op"])
    | "stopsharer" :: _ => (s, ["obs stopped err=0"])   -- whatever context the sharer leaves with
    | "mustrefuse" :: t =>
      match kvBool t "refusing" with
      | some r => (s, [s!"obs ext {b01 (extMustRefuse { mustRefuse := r })}"])
      | none => (s, ["obs bad-op"])
    | _ => (s, ["obs bad-op"])
  onObs := fun s toks =>
    match toks with
    | "tr" :: "oc" :: t =>
      match kvBool t "refusing", kvBool t "fwd", kvBool t "same", kvBool t "nil", kvBool t "refused", kvBool t "perm", kvBool t "eqnext" with
      | some a, some b, some c, some d, some e, some f, some g =>
        { s with fails := s.fails ++ checkConsume { refusing := a, fwd := b, same := c, isNil := d, isRefused := e, isPerm := f, eqNext := g } }
      | _, _, _, _, _, _, _ => { s with fails := s.fails ++ ["C18/processor/unparsable"] }
    | _ => s
  onEnd := fun s =>
    match s.fails with
    | [] => ["prop consume=ok"]
    | f :: more => [s!"prop consume=FAIL sig={f} more={more.length}"]

/-! ### construction (`NewMemoryLimiter` with its error path, `NewDefaultConfig`), total memory, the factory's cache -/

def cfgLine (c : Config) : String :=
  s!"ci={c.checkInterval} gs={c.gcSoft} gh={c.gcHard} lm={c.limitMiB} sm={c.spikeMiB} lp={c.limitPct} sp={c.spikePct}"

def optNat (s : String) : Option (Option Nat) := if s = "err" then some none else s.toNat?.map some

def newHandler : Handler Unit where
  init := ()
  onOp := fun s toks =>
    match toks with
    | "new" :: t =>
      match parseCfg t, (kv t "mem").bind optNat with
      | some c, some mem =>
        match newLimiterSrc c mem 0 with
        | none => (s, ["obs new ok=0"])
        | some l => (s, [s!"obs new ok=1 limit={l.k.limit} spike={l.k.spike} ci={l.checkInterval} gs={l.gcSoft} gh={l.gcHard} refuse={b01 l.st.mustRefuse} lastgcnow=1"])
      | _, _ => (s, ["obs bad-op"])
    | ["default"] =>
      -- the REGENERATED NewDefaultConfig, judged by the model's validate
      let c := Config.ofGo OtelVerif.Gen.MemLimiter.NewDefaultConfig
      (s, [s!"obs default {cfgLine c} valid={validate c}"])
    | _ => (s, ["obs bad-op"])
  onObs := fun s _ => s
  onEnd := fun _ => []

def parseQuota (s : String) : Option Quota :=
  if s = "err" then some none else
  match s.splitOn ":" with
  | [q, d] => match q.toInt?, d with
    | some q, "1" => some (some (q, true))
    | some q, "0" => some (some (q, false))
    | _, _ => none
  | _ => none

structure HS where
  expect : Option (Option Nat) := none
  fails : List String := []

def hostHandler : Handler HS where
  init := {}
  onOp := fun s toks =>
    match toks with
    | "total" :: t =>
      match (kv t "q").bind parseQuota, (kv t "mi").bind optNat with
      | some q, some mi =>
        let r := totalMemory q mi
        ({ s with expect := some r }, [match r with | none => "obs total err" | some n => s!"obs total {n}"])
      | _, _ => (s, ["obs bad-op"])
    | _ => (s, ["obs bad-op"])
  onObs := fun s toks =>
    -- the decision of TotalMemory (cgroup error -> error; undefined / "unlimited" quota -> /proc/meminfo; else the quota)
    match toks, s.expect with
    | [_, "total", v], some e =>
      if optNat v = some e then { s with expect := none }
      else { s with expect := none, fails := s.fails ++ [s!"C18/host/total-memory-decision got={v}"] }
    | _, _ => s
  onEnd := fun s =>
    match s.fails with
    | [] => ["prop total=ok"]
    | f :: more => [s!"prop total=FAIL sig={f} more={more.length}"]

structure FS where
  f : Factory := {}
  /-- mode of each limiter (by id), set by the last measurement made on it -/
  modes : List (Nat × Bool) := []
  -- oracle state (implementation's own observations): key and verdict of the last measurement, key of the last feed,
  -- the answer each key's processors gave last
  measured : Option (Nat × Bool) := none
  feedKey : Option Nat := none
  seen : List (Nat × Bool) := []
  fails : List String := []

def FS.mode (s : FS) (id : Nat) : Bool := ((s.modes.find? (·.1 = id)).map (·.2)).getD false
def FS.lastSeen (s : FS) (k : Nat) : Bool := ((s.seen.find? (·.1 = k)).map (·.2)).getD false

def factoryHandler : Handler FS where
  init := {}
  onOp := fun s toks =>
    match toks with
    | "create" :: t =>
      match kvNat t "key", kvBool t "ok" with
      | some k, some ok =>
        let (f', r) := s.f.get k ok
        ({ s with f := f' }, [match r with | some id => s!"obs lim {id}" | none => "obs lim none"])
      | _, _ => (s, ["obs bad-op"])
    | "measure" :: t =>
      match kvNat t "key", kvBool t "refuse" with
      | some k, some m =>
        match s.f.lookup k with
        | some id => ({ s with modes := (id, m) :: s.modes.filter (·.1 != id), measured := some (k, m) }, [])
        | none => (s, ["obs bad-op"])
      | _, _ => (s, ["obs bad-op"])
    | "feed" :: t =>
      match kvNat t "key" with
      | some k =>
        match s.f.lookup k with
        | some id => ({ s with feedKey := some k }, [s!"obs fed refused={b01 (s.mode id)}"])
        | none => (s, ["obs bad-op"])
      | none => (s, ["obs bad-op"])
    | _ => (s, ["obs bad-op"])
  onObs := fun s toks =>
    -- direct oracle, no reference to the cache model: the processors of the key whose limiter was just measured answer with
    -- that verdict; the processors of every other key answer as they did before (no measurement was made on their limiter)
    match toks, s.feedKey, s.measured with
    | [_, "fed", rf], some q, some (k, m) =>
      match kvBool [rf] "refused" with
      | some refused =>
        let f := if q = k then (if refused != m then [s!"C18/factory/processor-ignores-the-measurement-of-its-limiter key={q}"] else [])
                 else (if refused != s.lastSeen q then [s!"C18/factory/measurement-changed-the-mode-of-another-key key={q} measured={k}"] else [])
        { s with seen := (q, refused) :: s.seen.filter (·.1 != q), feedKey := none, fails := s.fails ++ f }
      | none => { s with fails := s.fails ++ ["C18/factory/unparsable"] }
    | _, _, _ => s
  onEnd := fun s =>
    match s.fails with
    | [] => ["prop factory=ok"]
    | f :: more => [s!"prop factory=FAIL sig={f} more={more.length}"]

/-! ### cgroup v2: `memoryQuotaV2` on a scripted `memory.max` -/

def parseV2File (s : String) : Option V2File :=
  if s = "absent" then some .absent else if s = "unreadable" then some .unreadable
  else (unhex s).map (fun t => .content t.toList)

structure CGS where
  expect : Option String := none
  fails : List String := []

def showQuota : Quota → String
  | none => "err"
  | some (q, d) => s!"{q}:{b01 d}"

def cgHandler : Handler CGS where
  init := {}
  onOp := fun s toks =>
    match toks with
    | "quota" :: t =>
      match (kv t "st").bind parseV2File with
      | some f => ({ s with expect := some (showQuota (memoryQuotaV2 f)) }, [s!"obs quota {showQuota (memoryQuotaV2 f)}"])
      | none => (s, ["obs bad-op"])
    | "quotav1" :: t =>
      match (kv t "st").bind (fun x => if x = "nosubsys" then some none else (parseV2File x).map some) with
      | some f => ({ s with expect := some (showQuota (memoryQuotaV1 f)) }, [s!"obs quota {showQuota (memoryQuotaV1 f)}"])
      | none => (s, ["obs bad-op"])
    | _ => (s, ["obs bad-op"])
  onObs := fun s toks =>
    -- the documented reading of the limit file: absent / max / <= 0 -> not set, a decimal int64 -> that quota, else an error
    match toks, s.expect with
    | [_, "quota", v], some e =>
      if v = e then { s with expect := none }
      else { s with expect := none, fails := s.fails ++ [s!"C18/cgroup/quota-not-as-the-limit-file-says want={e} got={v}"] }
    | _, _ => s
  onEnd := fun s =>
    match s.fails with
    | [] => ["prop quota=ok"]
    | f :: more => [s!"prop quota=FAIL sig={f} more={more.length}"]

end OtelVerif.Drivers.C18

def main : IO UInt32 :=
  runMulti [("c18-check", run OtelVerif.Drivers.C18.checkHandler),
            ("c18-rc", run OtelVerif.Drivers.C18.rcHandler),
            ("c18-proc", run OtelVerif.Drivers.C18.procHandler),
            ("c18-new", run OtelVerif.Drivers.C18.newHandler),
            ("c18-host", run OtelVerif.Drivers.C18.hostHandler),
            ("c18-factory", run OtelVerif.Drivers.C18.factoryHandler),
            ("c18-cgv2", run OtelVerif.Drivers.C18.cgHandler)]
