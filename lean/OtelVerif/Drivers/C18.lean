import OtelVerif.Common.Line
import OtelVerif.Model.C18
/-! driver for C18: models `c18-check` (validate, checker construction, CheckMemLimits histories),
`c18-rc` (reference-counted start/stop + ticker), `c18-proc` (processor / extension consume) -/
open OtelVerif OtelVerif.Line OtelVerif.C18

namespace OtelVerif.Drivers.C18

def b01 (b : Bool) : String := if b then "1" else "0"

def kvBool (toks : List String) (k : String) : Option Bool :=
  match kv toks k with
  | some "1" => some true
  | some "0" => some false
  | _ => none

def parseCfg (t : List String) : Option Config := do
  let ci ← kvInt t "ci"
  let gs ← kvInt t "gs"
  let gh ← kvInt t "gh"
  let lm ← kvNat t "lm"
  let sm ← kvNat t "sm"
  let lp ← kvNat t "lp"
  let sp ← kvNat t "sp"
  pure { checkInterval := ci, gcSoft := gs, gcHard := gh, limitMiB := lm, spikeMiB := sm, limitPct := lp, spikePct := sp }

structure CS where
  cfg : Option Config := none
  chk : Option Checker := none
  st : LState := {}
  -- oracle state, from the implementation's own observations
  implLastGC : Int := 0
  pending : Option Reading := none
  fails : List String := []

def checkHandler : Handler CS where
  init := {}
  onOp := fun s toks =>
    match toks with
    | "validate" :: t =>
      match parseCfg t with
      | some c => ({ s with cfg := some c }, [s!"obs valid {validate c}"])
      | none => (s, ["obs bad-op"])
    | "mk" :: t =>
      match s.cfg, kvNat t "total" with
      | some c, some total =>
        let k := mkChecker c total
        ({ s with chk := some k }, [s!"obs chk limit={k.limit} spike={k.spike}"])
      | _, _ => (s, ["obs bad-op"])
    | "check" :: t =>
      match s.cfg, s.chk, kvInt t "now", kvNat t "r", kvNat t "gcdur", kvNat t "g" with
      | some c, some k, some now, some r, some gd, some g =>
        let rd : Reading := { now := now, alloc := r, gcDur := gd, allocAfterGC := g }
        let o := check k c.gcSoft c.gcHard s.st rd
        ({ s with st := o.st, pending := some rd }, [s!"obs st refuse={b01 o.st.mustRefuse} gc={b01 o.gcRan} lastgc={o.st.lastGC}"])
      | _, _, _, _, _, _ => (s, ["obs bad-op"])
    | _ => (s, ["obs bad-op"])
  onObs := fun s toks =>
    match toks, s.cfg, s.chk, s.pending with
    | [_, "st", rf, gc, lg], some c, some k, some rd =>
      match kvBool [rf] "refuse", kvBool [gc] "gc", kvInt [lg] "lastgc" with
      | some refuse, some gcRan, some lastgc =>
        let fs := (checkObs k c.gcSoft c.gcHard s.implLastGC rd { refuse := refuse, gcRan := gcRan, lastGC := lastgc }).map (fun f => s!"{f} now={rd.now}")
        { s with implLastGC := lastgc, pending := none, fails := s.fails ++ fs }
      | _, _, _ => { s with fails := s.fails ++ ["C18/check/unparsable"] }
    | _, _, _, _ => s
  onEnd := fun s =>
    match s.fails with
    | [] => ["prop check=ok"]
    | f :: more => [s!"prop check=FAIL sig={f} more={more.length}"]

structure RS where
  t : Timed := {}
  gs : Int := 3600000000000
  gh : Int := 3600000000000
  ci : Int := 1000000000
  -- oracle: users = starts − successful shutdowns, from the implementation's observations
  users : Int := 0
  lastOp : String := ""
  /-- the mode the implementation showed last (after the previous tick window / op) -/
  implRefuse : Bool := false
  winLen : Int := 0
  fails : List String := []

/-- the checker of the ref-count harness: 100 MiB / 20 MiB (GC intervals and check interval come with `op rccfg`) -/
def rcChecker : Checker := ⟨104857600, 20971520⟩

def rcHandler : Handler RS where
  init := {}
  onOp := fun s toks =>
    match toks with
    | "rccfg" :: t =>
      match kvInt t "gs", kvInt t "gh", kvInt t "ci" with
      | some gs, some gh, some ci => ({ s with gs := gs, gh := gh, ci := ci }, [])
      | _, _, _ => (s, ["obs bad-op"])
    | "start" :: t =>
      match kvInt t "now", (kvNat t "ctx").bind Ctx.ofKind with
      | some now, some _ctx =>   -- the context is a parameter of the label; the model's step does not depend on it (C18_context_irrelevant)
        let (_, err) := s.t.sys.rc.step .start
        let t' := s.t.start rcChecker s.gs s.gh now
        ({ s with t := t', lastOp := "start" }, [s!"obs rc err={b01 err}", s!"obs mode refuse={b01 t'.sys.st.mustRefuse} meas=0"])
      | _, _ => (s, ["obs bad-op"])
    | "shutdown" :: t =>
      match (kvNat t "ctx").bind Ctx.ofKind with
      | some _ctx =>
        let (_, err) := s.t.sys.rc.step .shutdown
        let t' := s.t.shutdown rcChecker s.gs s.gh
        ({ s with t := t', lastOp := "shutdown" }, [s!"obs rc err={b01 err}", s!"obs mode refuse={b01 t'.sys.st.mustRefuse} meas=0"])
      | none => (s, ["obs bad-op"])
    | "tick" :: t =>
      match kvInt t "a", kvInt t "b", kvNat t "r", kvNat t "g" with
      | some a, some b, some r, some g =>
        let w := s.t.window rcChecker s.gs s.gh s.ci a b r g
        ({ s with t := w.t, lastOp := "tick", winLen := b - a },
         [s!"obs tick checks={w.checks} reads={w.checks + w.gcs} gcs={w.gcs} refuse={b01 w.t.sys.st.mustRefuse}"])
      | _, _, _, _ => (s, ["obs bad-op"])
    | _ => (s, ["obs bad-op"])
  onObs := fun s toks =>
    match toks with
    | [_, "rc", e] =>
      match kvBool [e] "err" with
      | some err =>
        let users := if s.lastOp = "start" then s.users + 1 else if err then s.users else s.users - 1
        { s with users := users, fails := s.fails ++ checkRC s.users s.lastOp err false }
      | none => { s with fails := s.fails ++ ["C18/refcount/unparsable"] }
    | [_, "tick", c, _, _, rf] =>
      match kvNat [c] "checks", kvBool [rf] "refuse" with
      | some checks, some refuse =>
        -- a window of at least one check interval must contain a check while a user is present
        let f := if s.winLen ≥ s.ci || checks > 0 then checkRC s.users "tick" false (decide (checks > 0)) else []
        { s with implRefuse := refuse, fails := s.fails ++ f }
      | _, _ => { s with fails := s.fails ++ ["C18/refcount/unparsable"] }
    | [_, "mode", rf, m] =>
      -- the mode right after a start / shutdown, before any time passes: it may only differ from the last one if a reading was taken
      match kvBool [rf] "refuse", kvNat [m] "meas" with
      | some refuse, some meas =>
        { s with implRefuse := refuse, fails := s.fails ++ (checkMode s.implRefuse refuse meas).map (fun f => s!"{f}/{s.lastOp}") }
      | _, _ => { s with fails := s.fails ++ ["C18/refcount/unparsable"] }
    | _ => s
  onEnd := fun s =>
    match s.fails with
    | [] => ["prop refcount=ok"]
    | f :: more => [s!"prop refcount=FAIL sig={f} more={more.length}"]

def sigOfNat : Nat → Option Sig
  | 0 => some .logs | 1 => some .traces | 2 => some .metrics | 3 => some .profiles | _ => none

structure PS where
  fails : List String := []

def procHandler : Handler PS where
  init := {}
  onOp := fun s toks =>
    match toks with
    | "consume" :: t =>
      match kvBool t "refusing", kv t "next", (kvNat t "sig").bind sigOfNat, kvNat t "n" with
      | some refusing, some nx, some sig, some n =>
        let next : Unit → Res := fun _ => if nx = "ok" then .ok else if nx = "perm" then .downstream 1 true else .downstream 1 false
        let out := consumeFull sig (fun _ => n) refusing () next
        let rs := match out.res with
          | .ok => "ok"
          | .refused => "refused"
          | .downstream _ p => s!"down perm={b01 p}"
        let k := out.counts
        (s, [s!"obs res fwd={b01 out.forwarded.isSome} {rs} permanent={b01 out.res.isPermanent} acc={k.accepted} ref={k.refused} in={k.incoming} out={k.outgoing}"])
      | _, _, _, _ => (s, ["obs bad-op"])
    | "stopsharer" :: _ => (s, ["obs stopped err=0"])   -- whatever context the sharer leaves with
    | "mustrefuse" :: t =>
      match kvBool t "refusing" with
      | some r => (s, [s!"obs ext {b01 (extMustRefuse { mustRefuse := r })}"])
      | none => (s, ["obs bad-op"])
    | _ => (s, ["obs bad-op"])
  onObs := fun s toks =>
    match toks with
    | "tr" :: "oc" :: t =>
      match kvBool t "refusing", kvBool t "fwd", kvBool t "same", kvBool t "nil", kvBool t "refused", kvBool t "perm", kvBool t "eqnext" with
      | some a, some b, some c, some d, some e, some f, some g =>
        { s with fails := s.fails ++ checkConsume { refusing := a, fwd := b, same := c, isNil := d, isRefused := e, isPerm := f, eqNext := g } }
      | _, _, _, _, _, _, _ => { s with fails := s.fails ++ ["C18/processor/unparsable"] }
    | _ => s
  onEnd := fun s =>
    match s.fails with
    | [] => ["prop consume=ok"]
    | f :: more => [s!"prop consume=FAIL sig={f} more={more.length}"]

end OtelVerif.Drivers.C18

def main : IO UInt32 :=
  runMulti [("c18-check", run OtelVerif.Drivers.C18.checkHandler),
            ("c18-rc", run OtelVerif.Drivers.C18.rcHandler),
            ("c18-proc", run OtelVerif.Drivers.C18.procHandler)]
