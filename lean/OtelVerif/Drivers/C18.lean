import OtelVerif.Common.Line
import OtelVerif.Model.C18
/-! driver for C18: models `c18-check` (validate, checker construction, CheckMemLimits histories),
`c18-rc` (reference-counted start/stop + ticker), `c18-proc` (processor / extension consume) -/
open OtelVerif OtelVerif.Line OtelVerif.C18

namespace OtelVerif.Drivers.C18

def b01 (b : Bool) : String := if b then "1" else "0"

def kvBool (toks : List String) (k : String) : Option Bool :=
  match kv toks k with
  | some "1" => some true
  | some "0" => some false
  | _ => none

def parseCfg (t : List String) : Option Config := do
  let ci ← kvInt t "ci"
  let gs ← kvInt t "gs"
  let gh ← kvInt t "gh"
  let lm ← kvNat t "lm"
  let sm ← kvNat t "sm"
  let lp ← kvNat t "lp"
  let sp ← kvNat t "sp"
  pure { checkInterval := ci, gcSoft := gs, gcHard := gh, limitMiB := lm, spikeMiB := sm, limitPct := lp, spikePct := sp }

structure CS where
  cfg : Option Config := none
  chk : Option Checker := none
  st : LState := {}
  -- oracle state, from the implementation's own observations
  implLastGC : Int := 0
  pending : Option Reading := none
  fails : List String := []

def checkHandler : Handler CS where
  init := {}
  onOp := fun s toks =>
    match toks with
    | "validate" :: t =>
      match parseCfg t with
      | some c => ({ s with cfg := some c }, [s!"obs valid {validate c}"])
      | none => (s, ["obs bad-op"])
    | "mk" :: t =>
      match s.cfg, kvNat t "total" with
      | some c, some total =>
        let k := mkChecker c total
        ({ s with chk := some k }, [s!"obs chk limit={k.limit} spike={k.spike}"])
      | _, _ => (s, ["obs bad-op"])
    | "check" :: t =>
      match s.cfg, s.chk, kvInt t "now", kvNat t "r", kvNat t "gcdur", kvNat t "g" with
      | some c, some k, some now, some r, some gd, some g =>
        let rd : Reading := { now := now, alloc := r, gcDur := gd, allocAfterGC := g }
        let o := check k c.gcSoft c.gcHard s.st rd
        ({ s with st := o.st, pending := some rd }, [s!"obs st refuse={b01 o.st.mustRefuse} gc={b01 o.gcRan} lastgc={o.st.lastGC}"])
      | _, _, _, _, _, _ => (s, ["obs bad-op"])
    | _ => (s, ["obs bad-op"])
  onObs := fun s toks =>
    match toks, s.cfg, s.chk, s.pending with
    | [_, "st", rf, gc, lg], some c, some k, some rd =>
      match kvBool [rf] "refuse", kvBool [gc] "gc", kvInt [lg] "lastgc" with
      | some refuse, some gcRan, some lastgc =>
        let fs := (checkObs k c.gcSoft c.gcHard s.implLastGC rd { refuse := refuse, gcRan := gcRan, lastGC := lastgc }).map (fun f => s!"{f} now={rd.now}")
        { s with implLastGC := lastgc, pending := none, fails := s.fails ++ fs }
      | _, _, _ => { s with fails := s.fails ++ ["C18/check/unparsable"] }
    | _, _, _, _ => s
  onEnd := fun s =>
    match s.fails with
    | [] => ["prop check=ok"]
    | f :: more => [s!"prop check=FAIL sig={f} more={more.length}"]

structure RS where
  rc : RC := {}
  -- oracle: users = starts − successful shutdowns, from the implementation's observations
  users : Int := 0
  lastOp : String := ""
  fails : List String := []

def rcHandler : Handler RS where
  init := {}
  onOp := fun s toks =>
    match toks with
    | ["start"] =>
      let (rc, err) := s.rc.step .start
      ({ s with rc := rc, lastOp := "start" }, [s!"obs rc err={b01 err}"])
    | ["shutdown"] =>
      let (rc, err) := s.rc.step .shutdown
      ({ s with rc := rc, lastOp := "shutdown" }, [s!"obs rc err={b01 err}"])
    | ["tick"] => ({ s with lastOp := "tick" }, [s!"obs tick checked={b01 s.rc.checking}"])
    | _ => (s, ["obs bad-op"])
  onObs := fun s toks =>
    match toks with
    | [_, "rc", e] =>
      match kvBool [e] "err" with
      | some err =>
        let users := if s.lastOp = "start" then s.users + 1 else if err then s.users else s.users - 1
        let f := if s.lastOp = "shutdown" && (err != decide (s.users ≤ 0)) then ["C18/refcount/shutdown-error-mismatch"] else []
        { s with users := users, fails := s.fails ++ f }
      | none => { s with fails := s.fails ++ ["C18/refcount/unparsable"] }
    | [_, "tick", c] =>
      match kvBool [c] "checked" with
      | some checked =>
        let f := if checked && s.users ≤ 0 then ["C18/refcount/checking-after-last-shutdown"]
                 else if !checked && s.users > 0 then ["C18/refcount/not-checking-while-users-remain"] else []
        { s with fails := s.fails ++ f }
      | none => { s with fails := s.fails ++ ["C18/refcount/unparsable"] }
    | _ => s
  onEnd := fun s =>
    match s.fails with
    | [] => ["prop refcount=ok"]
    | f :: more => [s!"prop refcount=FAIL sig={f} more={more.length}"]

def procHandler : Handler Unit where
  init := ()
  onOp := fun s toks =>
    match toks with
    | "consume" :: t =>
      match kvBool t "refusing", kv t "next" with
      | some refusing, some nx =>
        let next : Unit → Res := fun _ => if nx = "ok" then .ok else if nx = "perm" then .downstream 1 true else .downstream 1 false
        let (fwd, res) := consume refusing () next
        let rs := match res with
          | .ok => "ok"
          | .refused => "refused"
          | .downstream _ p => s!"down perm={b01 p}"
        (s, [s!"obs res fwd={b01 fwd.isSome} {rs} permanent={b01 res.isPermanent}"])
      | _, _ => (s, ["obs bad-op"])
    | "mustrefuse" :: t =>
      match kvBool t "refusing" with
      | some r => (s, [s!"obs ext {b01 r}"])
      | none => (s, ["obs bad-op"])
    | _ => (s, ["obs bad-op"])

end OtelVerif.Drivers.C18

def main : IO UInt32 :=
  runMulti [("c18-check", run OtelVerif.Drivers.C18.checkHandler),
            ("c18-rc", run OtelVerif.Drivers.C18.rcHandler),
            ("c18-proc", run OtelVerif.Drivers.C18.procHandler)]
