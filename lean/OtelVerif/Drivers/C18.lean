import OtelVerif.Common.Line
import OtelVerif.Model.C18
/-! driver for C18 (stub) -/
def main : IO UInt32 := do
  IO.eprintln "drv_c18: not built yet"
  return 2
