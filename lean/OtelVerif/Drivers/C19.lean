import OtelVerif.Common.Line
import OtelVerif.Model.C19
import OtelVerif.Model.C19Exp
/-! driver for C19: models `c19-recv` (receiverhelper.ObsReport), `c19-scrape` (scraperhelper controllers),
`c19-proc` (processorhelper); the exporter handler is added to the list in `main`.

Every handler prints the model's `obs` lines (exact differential) and, at `end`, evaluates the property's
executable oracle (`recvCheck` / `procCheck`, proved sound in `Props/C19.lean`) on the counters the
IMPLEMENTATION showed. -/
open OtelVerif OtelVerif.Line OtelVerif.C19

namespace OtelVerif.Drivers.C19

def parseSig : String → Option Signal
  | "t" => some .traces
  | "m" => some .metrics
  | "l" => some .logs
  | _ => none

def showSig : Signal → String
  | .traces => "traces"
  | .metrics => "metrics"
  | .logs => "logs"

def parsePair (s : String) : Option (Nat × Nat) :=
  match s.splitOn "/" with
  | [a, b] => match a.toNat?, b.toNat? with
    | some a, some b => some (a, b)
    | _, _ => none
  | _ => none

def bySig (t m l : Nat) : Signal → Nat
  | .traces => t
  | .metrics => m
  | .logs => l

/-- `<t>/<t'>,<m>/<m'>,<l>/<l'>` -/
def parseTriple (s : String) : Option ((Signal → Nat) × (Signal → Nat)) :=
  match (s.splitOn ",").mapM parsePair with
  | some [t, m, l] => some (bySig t.1 m.1 l.1, bySig t.2 m.2 l.2)
  | _ => none

def showTriple (a b : Signal → Nat) : String :=
  ",".intercalate (Signal.all.map (fun s => s!"{a s}/{b s}"))

def parseRecv (s : String) : Option Recv := (parseTriple s).map (fun p => { accepted := p.1, refused := p.2 })
def showRecv (c : Recv) : String := showTriple c.accepted c.refused

def setAt {α : Type} (l : List α) (i : Nat) (x : α) : List α := l.set i x

/-- classify the first step of an observed receiver trace that violates the per-operation clause -/
def recvFirstFail (area : String) (logsCtrl : Bool) : Recv → List (RecvOp × Recv) → Nat → Option String
  | _, [], _ => none
  | before, (op, after) :: rest, k =>
    match recvForeign before after op with
    | some t =>
      let what := if logsCtrl && t == .metrics then "logs-counted-as-metric-points" else "foreign-signal-counter-moved"
      some s!"sig=C19/{area}/{what} step={k} op={showSig op.sig}:{op.n}:err={op.err} moved={showSig t} before={showRecv before} after={showRecv after}"
    | none =>
      if !recvOwnB before after op then
        -- total moved ≠ items offered: imbalance; total right but on the wrong side: wrong split
        let moved := (after.accepted op.sig + after.refused op.sig) - (before.accepted op.sig + before.refused op.sig)
        let what := if moved != op.n || after.accepted op.sig < before.accepted op.sig || after.refused op.sig < before.refused op.sig
          then "accepted-plus-refused-not-offered" else "accepted-refused-split"
        some s!"sig=C19/{area}/{what} step={k} op={showSig op.sig}:{op.n}:err={op.err} before={showRecv before} after={showRecv after}"
      else recvFirstFail area logsCtrl after rest (k + 1)

def judgeRecv (area : String) (logsCtrl : Bool) (name : String) (tr : List (RecvOp × Recv)) : List String :=
  if recvCheck {} tr then [] else
  match recvFirstFail area logsCtrl {} tr 0 with
  | some f => [s!"prop {name}=FAIL {f}"]
  | none => [s!"prop {name}=FAIL sig=C19/{area}/oracle-inconsistent"]

/-! ## c19-recv -/

structure RS where
  model : List Recv := []
  pending : Option (Nat × RecvOp) := none
  impl : List (List (RecvOp × Recv)) := []     -- per receiver, oldest first
  bad : Option String := none

def recvHandler : Handler RS where
  init := {}
  onCase := fun s toks =>
    match kvNat toks "inst" with
    | some k => { s with model := List.replicate k {}, impl := List.replicate k [] }
    | none => { s with bad := some "case line without inst=" }
  onOp := fun s toks =>
    match toks with
    | "end" :: rest =>
      match kvNat rest "i", (kv rest "sig").bind parseSig, kvNat rest "n", kvNat rest "err" with
      | some i, some sig, some n, some e =>
        match s.model[i]? with
        | some c =>
          let op : RecvOp := ⟨sig, n, e = 1⟩
          let model := setAt s.model i (c.endOp op)
          let cnt := " ".intercalate ((List.range model.length).map (fun j => s!"{j}:{showRecv (model.getD j {})}"))
          ({ s with model := model, pending := some (i, op) },
           [s!"obs cnt {cnt}",
            s!"obs span name={spanSuffix sig} {acceptedKey sig}={numAccepted n (e = 1)} {refusedKey sig}={numRefused n (e = 1)} err={e}"])
        | none => (s, ["obs bad-op"])
      | _, _, _, _ => (s, ["obs bad-op"])
    | _ => (s, ["obs bad-op"])
  onObs := fun s toks =>
    match toks with
    | _ :: "cnt" :: rest =>
      match s.pending with
      | none => { s with bad := some "counters without an operation" }
      | some (i, op) =>
        let snaps := rest.mapM (fun tok => match tok.splitOn ":" with
          | [j, tr] => match j.toNat?, parseRecv tr with
            | some j, some r => some (j, r)
            | _, _ => none
          | _ => none)
        match snaps with
        | none => { s with bad := some "unparsable counters", pending := none }
        | some snaps =>
          if snaps.map (·.1) != List.range s.impl.length then { s with bad := some "receiver list mismatch", pending := none } else
          -- the receiver that ran the operation sees `op`; every other receiver sees "nothing offered"
          let impl := (List.range s.impl.length).map (fun j =>
            let step : RecvOp := if j = i then op else ⟨op.sig, 0, false⟩
            match snaps.lookup j with
            | some r => s.impl.getD j [] ++ [(step, r)]
            | none => s.impl.getD j [])
          { s with impl := impl, pending := none }
    | [_, "panic"] => { s with bad := some "panic" }
    | _ => s
  onEnd := fun s =>
    match s.bad with
    | some b => [s!"prop recv=FAIL sig=C19/receiver/unparsable {b}"]
    | none =>
      match (s.impl.flatMap (judgeRecv "receiver" false "recv")) with
      | [] => ["prop recv=ok"]
      | f :: _ => [f]

/-! ## c19-scrape -/

def parseRes (s : String) : Option ScrapeRes :=
  match s.splitOn ":" with
  | ["ok", i, u] => match i.toNat?, u.toNat? with
    | some i, some u => some (.ok i u)
    | _, _ => none
  | ["part", i, u, f] => match i.toNat?, u.toNat?, f.toNat? with
    | some i, some u, some f => some (.partialErr i u f)
    | _, _, _ => none
  | ["fail", i] => i.toNat?.map .fail
  | _ => none

structure SS where
  ctrl : Option Ctrl := none
  scrapers : Nat := 0
  model : Scr := {}
  pending : Option Tick := none
  impl : List (RecvOp × Recv) := []       -- oldest first
  notes : List String := []
  bad : Option String := none

def scrapeHandler : Handler SS where
  init := {}
  onCase := fun s toks =>
    let ctrl := match kv toks "ctrl" with
      | some "metrics" => some Ctrl.metrics
      | some "logs" => some Ctrl.logs
      | _ => none
    match ctrl, kvNat toks "scrapers" with
    | some c, some k => { s with ctrl := some c, scrapers := k }
    | _, _ => { s with bad := some "case line without ctrl=/scrapers=" }
  onOp := fun s toks =>
    match toks, s.ctrl with
    | "tick" :: rest, some ctrl =>
      match (kv rest "res").bind (fun r => (r.splitOn ",").mapM parseRes), kvNat rest "sinkerr" with
      | some res, some se =>
        if res.length != s.scrapers then (s, ["obs bad-op"]) else
        let t : Tick := ⟨res, se = 1⟩
        let m := s.model.scrape ctrl.used t
        let scr := ",".intercalate ((List.range s.scrapers).map (fun i => s!"{m.scraped i}/{m.errored i}"))
        ({ s with model := m, pending := some t }, [s!"obs cnt {showRecv m.recv} scr={scr} other=0 sink={t.count}"])
      | _, _ => (s, ["obs bad-op"])
    | _, _ => (s, ["obs bad-op"])
  onObs := fun s toks =>
    match toks, s.ctrl with
    | _ :: "cnt" :: tr :: rest, some ctrl =>
      match s.pending, parseRecv tr with
      | some t, some r =>
        -- the operation as the property sees it: own signal, items the next consumer actually received, its result
        let sinkN := (kvNat rest "sink").getD 0
        let s := if sinkN != t.count then { s with notes := s.notes ++ [s!"sig=C19/scraper/forwarded-not-kept kept={t.count} received={sinkN}"] } else s
        { s with impl := s.impl ++ [(⟨ctrl.own, sinkN, t.sinkErr⟩, r)], pending := none }
      | _, _ => { s with bad := some "unparsable counters", pending := none }
    | [_, "timeout"], _ => { s with bad := some "timeout" }
    | _, _ => s
  onEnd := fun s =>
    match s.bad with
    | some b => [s!"prop scrape=FAIL sig=C19/scraper/unparsable {b}"]
    | none =>
      match judgeRecv "scraper" (s.ctrl == some Ctrl.logs) "scrape" s.impl ++ s.notes.map (fun n => s!"prop scrape=FAIL {n}") with
      | [] => ["prop scrape=ok"]
      | f :: _ => [f]

/-! ## c19-proc -/

def parseOutcome (s : String) : Option ProcOutcome :=
  match s.splitOn ":" with
  | ["ok", o, e] => match o.toNat?, e.toNat? with
    | some o, some e => some (.ok o (e = 1))
    | _, _ => none
  | ["err"] => some .err
  | ["skip"] => some .skip
  | _ => none

def showRet : ProcRet → String
  | .nil => "nil"
  | .funcErr => "ferr"
  | .nextErr => "nerr"

structure PS where
  model : Proc := {}
  pending : Option ProcOp := none
  impl : List ProcObs := []      -- oldest first
  bad : Option String := none

def showSnap (p : ProcSnap) : String := showTriple p.incoming p.outgoing

def procFirstFail : ProcSnap → List ProcObs → Nat → Option String
  | _, [], _ => none
  | before, o :: rest, k =>
    let ctx := s!"step={k} op={showSig o.sig}:in={o.inp}:sink={o.sink} before={showSnap before} after={showSnap o.after}"
    match procForeign before o with
    | some t => some s!"sig=C19/processor/foreign-signal-counter-moved moved={showSig t} {ctx}"
    | none =>
      if !procIncomingB before o then some s!"sig=C19/processor/incoming-not-given {ctx}"
      else if !procOutgoingB before o then some s!"sig=C19/processor/outgoing-not-forwarded {ctx}"
      else procFirstFail o.after rest (k + 1)

def procHandler : Handler PS where
  init := {}
  onOp := fun s toks =>
    match toks with
    | "proc" :: rest =>
      match (kv rest "sig").bind parseSig, kvNat rest "in", (kv rest "out").bind parseOutcome with
      | some sig, some inp, some oc =>
        let op : ProcOp := ⟨sig, inp, oc⟩
        let (m, ret) := s.model.consume op
        let sink := match oc with
          | .ok o _ => toString o
          | _ => "-"
        ({ s with model := m, pending := some op }, [s!"obs cnt {showTriple m.incoming m.outgoing} sink={sink} ret={showRet ret}"])
      | _, _, _ => (s, ["obs bad-op"])
    | _ => (s, ["obs bad-op"])
  onObs := fun s toks =>
    match toks with
    | _ :: "cnt" :: tr :: rest =>
      match s.pending, parseTriple tr, kv rest "sink" with
      | some op, some (i, o), some sk =>
        let sink : Option (Option Nat) := if sk = "-" then some none else sk.toNat?.map some
        match sink with
        | some sink =>
          { s with impl := s.impl ++ [{ sig := op.sig, inp := op.inp, sink := sink, after := { incoming := i, outgoing := o } }], pending := none }
        | none => { s with bad := some "unparsable sink", pending := none }
      | _, _, _ => { s with bad := some "unparsable counters", pending := none }
    | [_, "panic"] => { s with bad := some "panic" }
    | _ => s
  onEnd := fun s =>
    match s.bad with
    | some b => [s!"prop proc=FAIL sig=C19/processor/unparsable {b}"]
    | none =>
      if procCheck {} s.impl then ["prop proc=ok"] else
      match procFirstFail {} s.impl 0 with
      | some f => [s!"prop proc=FAIL {f}"]
      | none => ["prop proc=FAIL sig=C19/processor/oracle-inconsistent"]


/-! ## exporter clause: model `c19-exp` (trace of the C03 runner + counters read from the real meter provider) -/

def xParseIds (s : String) : Option (List Nat) :=
  if s = "-" then some [] else (s.splitOn ",").mapM String.toNat?

structure XS where
  persistent : Bool := false
  evs : List OtelVerif.C19.XEv := []      -- reversed
  lateAcc : List (List Nat) := []          -- accepted after the shutdown request
  shutReq : Bool := false
  stored : List Nat := []
  impl : Option (Nat × Nat × Nat) := none
  gauges : List (Int × Int × Option Int × Int) := []
  gaugeMissing : Bool := false
  skipped : Bool := false
  bad : Option String := none

def expHandler : Handler XS where
  init := {}
  onOp := fun s toks =>
    match toks with
    | "cfg" :: rest =>
      match kvNat rest "persistent", kvNat rest "queue", kvNat rest "wfr" with
      | some p, some _, some _ => ({ s with persistent := p == 1 }, [])
      | _, _, _ => (s, ["obs bad-op"])
    | ["act", at_, "shutdown"] => if at_.toNat?.isSome then (s, []) else (s, ["obs bad-op"])
    | ["act", at_, "send", rid, n] =>
      if at_.toNat?.isSome && rid.toNat?.isSome && n.toNat?.isSome then (s, []) else (s, ["obs bad-op"])
    | ["backend", i, d, o] =>
      if i.toNat?.isSome && d.toNat?.isSome && o.toNat?.isSome then (s, []) else (s, ["obs bad-op"])
    | _ => (s, ["obs bad-op"])
  onObs := fun s toks =>
    match toks with
    | ["tr", "acc", _, ids] =>
      match xParseIds ids with
      | some is => { s with evs := .acc is :: s.evs, lateAcc := if s.shutReq then is :: s.lateAcc else s.lateAcc }
      | none => { s with bad := some "acc" }
    | ["tr", "rej", _, ids] =>
      match xParseIds ids with
      | some is => { s with evs := .rej is :: s.evs }
      | none => { s with bad := some "rej" }
    | ["tr", "es", c, ids] =>
      match c.toNat?, xParseIds ids with
      | some c, some is => { s with evs := .es c is :: s.evs }
      | _, _ => { s with bad := some "es" }
    | ["tr", "ee", c, f] =>
      match c.toNat?, f.toNat? with
      | some c, some f => { s with evs := .ee c (f == 1) :: s.evs }
      | _, _ => { s with bad := some "ee" }
    | ["tr", "shutreq"] => { s with shutReq := true }
    | ["tr", "stored", ids] =>
      match xParseIds ids with
      | some is => { s with stored := is }
      | none => { s with bad := some "stored" }
    | ["tr", "gauge", "missing"] => { s with gaugeMissing := true }
    | "tr" :: "gauge" :: rest =>
      match kvInt rest "size", kvInt rest "cap", kv rest "expsize", kvInt rest "expcap" with
      | some sz, some cp, some es, some ec => { s with gauges := (sz, cp, es.toInt?, ec) :: s.gauges }
      | _, _, _, _ => { s with bad := some "gauge" }
    | "tr" :: "builderr" :: _ => { s with skipped := true }
    | "tr" :: _ => s
    | "obs" :: "counters" :: rest =>
      match kvNat rest "sent", kvNat rest "failed", kvNat rest "enq" with
      | some a, some b, some c => { s with impl := some (a, b, c) }
      | _, _, _ => { s with bad := some "counters" }
    | _ => s
  onEnd := fun s =>
    if s.skipped then ["obs skipped"] else
    match s.bad with
    | some b => [s!"obs unparsable {b}", s!"prop exporter=FAIL sig=C19/exporter/unparsable {b}"]
    | none =>
      let t := s.evs.reverse
      let p := OtelVerif.C19.predict t
      let obs := s!"obs counters sent={p.sent} failed={p.failed} enq={p.enqFailed}"
      let attempted : Nat → Bool := fun x => (OtelVerif.C19.callsOf t).any (fun c => c.2.contains x)
      let given := (t.map (fun e => match e with | .acc is => is.length | .rej is => is.length | _ => 0)).sum
      let stuckLate := if s.persistent then 0 else ((s.lateAcc.flatMap id).filter (fun x => !attempted x)).length
      let stored := if s.persistent then s.stored.length else 0
      let dblKept := if s.persistent then (s.stored.filter attempted).length else 0
      let dblWfr := ((t.flatMap (fun e => match e with | .rej is => is | _ => [])).filter attempted).length
      let pBal := match s.impl with
        | none => "prop balance=FAIL sig=C19/exporter/no-counters"
        | some (a, b, c) =>
          let lhs := a + b + c
          let rhs := given - stuckLate - stored
          if lhs = rhs then "prop balance=ok"
          else if lhs = rhs + dblKept + dblWfr then
            if dblKept > 0 then s!"prop balance=FAIL sig=C19/exporter/shutdown-interrupted-counted-and-still-stored sent={a} failed={b} enq={c} given={given} stored={stored} twice={dblKept}"
            else s!"prop balance=FAIL sig=C19/exporter/wait-for-result-error-counted-send-failed-and-enqueue-failed sent={a} failed={b} enq={c} given={given} twice={dblWfr}"
          else s!"prop balance=FAIL sig=C19/exporter/imbalance sent={a} failed={b} enq={c} given={given} stored={stored} stucklate={stuckLate}"
      let badGauge := s.gauges.find? (fun g => g.2.1 != g.2.2.2 || (match g.2.2.1 with | some e => g.1 != e | none => false))
      let pGauge := match s.gaugeMissing, badGauge with
        | true, _ => "prop gauges=FAIL sig=C19/exporter/gauge-missing"
        | false, some g =>
          if g.2.1 != g.2.2.2 then s!"prop gauges=FAIL sig=C19/exporter/capacity-gauge-not-configured-capacity got={g.2.1} want={g.2.2.2}"
          else s!"prop gauges=FAIL sig=C19/exporter/size-gauge-not-queue-size got={g.1} want={g.2.2.1.getD 0}"
        | false, none => "prop gauges=ok"
      [obs, pBal, pGauge]

/-- the handlers of the receiver / scraper / processor clauses -/
def handlers : List (String × IO Unit) :=
  [("c19-recv", run recvHandler), ("c19-scrape", run scrapeHandler), ("c19-proc", run procHandler)]

end OtelVerif.Drivers.C19

def main : IO UInt32 :=
  runMulti (OtelVerif.Drivers.C19.handlers ++ [
    ("c19-exp", run OtelVerif.Drivers.C19.expHandler)
  ])
