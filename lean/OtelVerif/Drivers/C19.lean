import OtelVerif.Common.Line
import OtelVerif.Model.C19
import OtelVerif.Drivers.C19Exp
import OtelVerif.Drivers.C19Obs
import OtelVerif.Drivers.C19XExp
/-! driver for C19: models `c19-recv` (receiverhelper.ObsReport), `c19-scrape` (scraperhelper controllers),
`c19-proc` (processorhelper); the exporter handler is added to the list in `main`.

Every handler prints the model's `obs` lines (exact differential) and, at `end`, evaluates the property's
executable oracle (`recvCheck` / `procCheck`, proved sound in `Props/C19.lean`) on the counters the
IMPLEMENTATION showed. -/
open OtelVerif OtelVerif.Line OtelVerif.C19

namespace OtelVerif.Drivers.C19

def parseSig : String → Option Signal
  | "t" => some .traces
  | "m" => some .metrics
  | "l" => some .logs
  | _ => none

def showSig : Signal → String
  | .traces => "traces"
  | .metrics => "metrics"
  | .logs => "logs"

def parsePair (s : String) : Option (Nat × Nat) :=
  match s.splitOn "/" with
  | [a, b] => match a.toNat?, b.toNat? with
    | some a, some b => some (a, b)
    | _, _ => none
  | _ => none

def bySig (t m l : Nat) : Signal → Nat
  | .traces => t
  | .metrics => m
  | .logs => l

/-- `<t>/<t'>,<m>/<m'>,<l>/<l'>` -/
def parseTriple (s : String) : Option ((Signal → Nat) × (Signal → Nat)) :=
  match (s.splitOn ",").mapM parsePair with
  | some [t, m, l] => some (bySig t.1 m.1 l.1, bySig t.2 m.2 l.2)
  | _ => none

def showTriple (a b : Signal → Nat) : String :=
  ",".intercalate (Signal.all.map (fun s => s!"{a s}/{b s}"))

def parseRecv (s : String) : Option Recv := (parseTriple s).map (fun p => { accepted := p.1, refused := p.2 })
def showRecv (c : Recv) : String := showTriple c.accepted c.refused

def setAt {α : Type} (l : List α) (i : Nat) (x : α) : List α := l.set i x

/-- classify the first step of an observed receiver trace that violates the per-operation clause -/
def recvFirstFail (area : String) (logsCtrl : Bool) : Recv → List (RecvOp × Recv) → Nat → Option String
  | _, [], _ => none
  | before, (op, after) :: rest, k =>
    match recvForeign before after op with
    | some t =>
      let what := if logsCtrl && t == .metrics then "logs-counted-as-metric-points" else "foreign-signal-counter-moved"
      some s!"sig=C19/{area}/{what} step={k} op={showSig op.sig}:{op.n}:err={op.err} moved={showSig t} before={showRecv before} after={showRecv after}"
    | none =>
      if !recvOwnB before after op then
        -- total moved ≠ items offered: imbalance; total right but on the wrong side: wrong split
        let moved := (after.accepted op.sig + after.refused op.sig) - (before.accepted op.sig + before.refused op.sig)
        let what := if moved != op.n || after.accepted op.sig < before.accepted op.sig || after.refused op.sig < before.refused op.sig
          then "accepted-plus-refused-not-offered" else "accepted-refused-split"
        some s!"sig=C19/{area}/{what} step={k} op={showSig op.sig}:{op.n}:err={op.err} before={showRecv before} after={showRecv after}"
      else recvFirstFail area logsCtrl after rest (k + 1)

def judgeRecv (area : String) (logsCtrl : Bool) (name : String) (tr : List (RecvOp × Recv)) : List String :=
  if recvCheck {} tr then [] else
  match recvFirstFail area logsCtrl {} tr 0 with
  | some f => [s!"prop {name}=FAIL {f}"]
  | none => [s!"prop {name}=FAIL sig=C19/{area}/oracle-inconsistent"]

/-! ## c19-recv -/

structure RS where
  model : List Recv := []
  pending : Option (Nat × RecvOp) := none
  impl : List (List (RecvOp × Recv)) := []     -- per receiver, oldest first
  bad : Option String := none
  -- concurrent mode (`op cend …` announced for every goroutine, then `op sync`): only the counters after the batch are seen
  conc : Bool := false
  batch : List (List RecvOp) := []             -- per receiver: operations of the running batch
  pendingSync : Bool := false
  last : List Recv := []                       -- per receiver: counters the implementation showed at the last sync
  notes : List String := []

def recvHandler : Handler RS where
  init := {}
  onCase := fun s toks =>
    match kvNat toks "inst" with
    | some k => { s with model := List.replicate k {}, impl := List.replicate k [], batch := List.replicate k [], last := List.replicate k {} }
    | none => { s with bad := some "case line without inst=" }
  onOp := fun s toks =>
    match toks with
    | "cend" :: rest =>
      -- an operation some goroutine is about to perform concurrently with others: applied to the model (the final
      -- counters do not depend on the order, `C19_receiver_perm`), nothing is printed until `sync`
      match kvNat rest "i", (kv rest "sig").bind parseSig, kvNat rest "n", kvNat rest "err" with
      | some i, some sig, some n, some e =>
        match s.model[i]? with
        | some c =>
          let op : RecvOp := ⟨sig, n, e = 1⟩
          ({ s with model := setAt s.model i (c.endOp op), conc := true, batch := setAt s.batch i (s.batch.getD i [] ++ [op]) }, [])
        | none => (s, ["obs bad-op"])
      | _, _, _, _ => (s, ["obs bad-op"])
    | ["sync"] =>
      let cnt := " ".intercalate ((List.range s.model.length).map (fun j => s!"{j}:{showRecv (s.model.getD j {})}"))
      ({ s with pendingSync := true }, [s!"obs cnt {cnt}", s!"obs spans {(s.batch.map List.length).sum}"])
    | "end" :: rest =>
      if s.conc then (s, ["obs bad-op"]) else      -- a case is either sequential or concurrent
      match kvNat rest "i", (kv rest "sig").bind parseSig, kvNat rest "n", kvNat rest "err" with
      | some i, some sig, some n, some e =>
        match s.model[i]? with
        | some c =>
          let op : RecvOp := ⟨sig, n, e = 1⟩
          let model := setAt s.model i (c.endOp op)
          let cnt := " ".intercalate ((List.range model.length).map (fun j => s!"{j}:{showRecv (model.getD j {})}"))
          ({ s with model := model, pending := some (i, op) },
           [s!"obs cnt {cnt}",
            s!"obs span name={spanSuffix sig} {acceptedKey sig}={numAccepted n (e = 1)} {refusedKey sig}={numRefused n (e = 1)} err={e}"])
        | none => (s, ["obs bad-op"])
      | _, _, _, _ => (s, ["obs bad-op"])
    | _ => (s, ["obs bad-op"])
  onObs := fun s toks =>
    match toks with
    | _ :: "cnt" :: rest =>
      let snaps := rest.mapM (fun tok => match tok.splitOn ":" with
        | [j, tr] => match j.toNat?, parseRecv tr with
          | some j, some r => some (j, r)
          | _, _ => none
        | _ => none)
      if s.pendingSync then
        match snaps with
        | none => { s with bad := some "unparsable counters", pendingSync := false }
        | some snaps =>
          if snaps.map (·.1) != List.range s.last.length then { s with bad := some "receiver list mismatch", pendingSync := false } else
          -- the property on the batch: every receiver's counters grew by exactly what its operations offered, split by result
          let fails := (List.range s.last.length).filterMap (fun j =>
            let before := s.last.getD j {}
            let after := (snaps.lookup j).getD {}
            let ops := s.batch.getD j []
            if recvBatchB before after ops then none
            else some s!"sig=C19/receiver/concurrent-total-mismatch receiver={j} ops={ops.length} before={showRecv before} after={showRecv after} expected={showRecv (before.run ops)}")
          { s with notes := s.notes ++ fails, last := snaps.map (·.2), batch := s.batch.map (fun _ => []), pendingSync := false }
      else
      match s.pending with
      | none => { s with bad := some "counters without an operation" }
      | some (i, op) =>
        match snaps with
        | none => { s with bad := some "unparsable counters", pending := none }
        | some snaps =>
          if snaps.map (·.1) != List.range s.impl.length then { s with bad := some "receiver list mismatch", pending := none } else
          -- the receiver that ran the operation sees `op`; every other receiver sees "nothing offered"
          let impl := (List.range s.impl.length).map (fun j =>
            let step : RecvOp := if j = i then op else ⟨op.sig, 0, false⟩
            match snaps.lookup j with
            | some r => s.impl.getD j [] ++ [(step, r)]
            | none => s.impl.getD j [])
          { s with impl := impl, pending := none }
    | [_, "panic"] => { s with bad := some "panic" }
    | _ => s
  onEnd := fun s =>
    match s.bad with
    | some b => [s!"prop recv=FAIL sig=C19/receiver/unparsable {b}"]
    | none =>
      match (s.impl.flatMap (judgeRecv "receiver" false "recv")) ++ s.notes.map (fun n => s!"prop recv=FAIL {n}") with
      | [] => ["prop recv=ok"]
      | f :: _ => [f]

/-! ## c19-scrape -/

def parseRes (s : String) : Option ScrapeRes :=
  match s.splitOn ":" with
  | ["ok", i, u] => match i.toNat?, u.toNat? with
    | some i, some u => some (.ok i u)
    | _, _ => none
  | ["part", i, u, f] => match i.toNat?, u.toNat?, f.toNat? with
    | some i, some u, some f => some (.partialErr i u f)
    | _, _, _ => none
  | ["fail", i] => i.toNat?.map .fail
  | _ => none

structure SS where
  ctrl : Option Ctrl := none
  scrapers : Nat := 0
  model : Scr := {}
  pending : Option Tick := none
  impl : List (RecvOp × Recv) := []       -- oldest first
  notes : List String := []
  bad : Option String := none
  unitsAreItems : Bool := true            -- so far every payload reported as many scraped units as items (`UnitsAreItems`)

def scrapeHandler : Handler SS where
  init := {}
  onCase := fun s toks =>
    let ctrl := match kv toks "ctrl" with
      | some "metrics" => some Ctrl.metrics
      | some "logs" => some Ctrl.logs
      | _ => none
    match ctrl, kvNat toks "scrapers" with
    | some c, some k => { s with ctrl := some c, scrapers := k }
    | _, _ => { s with bad := some "case line without ctrl=/scrapers=" }
  onOp := fun s toks =>
    match toks, s.ctrl with
    | "tick" :: rest, some ctrl =>
      match (kv rest "res").bind (fun r => (r.splitOn ",").mapM parseRes), kvNat rest "sinkerr" with
      | some res, some se =>
        if res.length != s.scrapers then (s, ["obs bad-op"]) else
        let t : Tick := ⟨res, se = 1⟩
        let m := s.model.scrape ctrl.used t
        let scr := ",".intercalate ((List.range s.scrapers).map (fun i => s!"{m.scraped i}/{m.errored i}"))
        let uai := s.unitsAreItems && res.all (fun r => r.scraped == r.kept)
        -- for logs both numbers are `LogRecordCount()` of the same payload
        let s := if ctrl == Ctrl.logs && !uai && s.unitsAreItems
          then { s with notes := s.notes ++ ["sig=C19/scraper/log-units-not-items a logs payload reported different scraped units and items"] } else s
        ({ s with model := m, pending := some t, unitsAreItems := uai }, [s!"obs cnt {showRecv m.recv} scr={scr} other=0 sink={t.count}"])
      | _, _ => (s, ["obs bad-op"])
    | _, _ => (s, ["obs bad-op"])
  onObs := fun s toks =>
    match toks, s.ctrl with
    | _ :: "cnt" :: tr :: rest, some ctrl =>
      match s.pending, parseRecv tr with
      | some t, some r =>
        -- the operation as the property sees it: own signal, items the next consumer actually received, its result
        let sinkN := (kvNat rest "sink").getD 0
        let s := if sinkN != t.count then { s with notes := s.notes ++ [s!"sig=C19/scraper/forwarded-not-kept kept={t.count} received={sinkN}"] } else s
        -- cross-balance (`C19_scraper_cross_balance`) on the implementation's counters, whenever its hypothesis holds
        -- (always for logs; for metrics only while every metric carried exactly one point — watch point otherwise)
        let scrapedSum := ((kv rest "scr").bind (fun x => (x.splitOn ",").mapM parsePair)).map (fun l => (l.map (·.1)).sum)
        let s := match scrapedSum with
          | some tot =>
            if s.unitsAreItems && tot != r.accepted ctrl.own + r.refused ctrl.own
            then { s with notes := s.notes ++ [s!"sig=C19/scraper/scraped-not-accepted-plus-refused scraped={tot} counters={showRecv r}"] } else s
          | none => { s with notes := s.notes ++ ["sig=C19/scraper/unparsable scr="] }
        { s with impl := s.impl ++ [(⟨ctrl.own, sinkN, t.sinkErr⟩, r)], pending := none }
      | _, _ => { s with bad := some "unparsable counters", pending := none }
    | [_, "timeout"], _ => { s with bad := some "timeout" }
    | _, _ => s
  onEnd := fun s =>
    match s.bad with
    | some b => [s!"prop scrape=FAIL sig=C19/scraper/unparsable {b}"]
    | none =>
      match judgeRecv "scraper" (s.ctrl == some Ctrl.logs) "scrape" s.impl ++ s.notes.map (fun n => s!"prop scrape=FAIL {n}") with
      | [] => ["prop scrape=ok"]
      | f :: _ => [f]

/-! ## c19-proc -/

def parseOutcome (s : String) : Option ProcOutcome :=
  match s.splitOn ":" with
  | ["ok", o, e] => match o.toNat?, e.toNat? with
    | some o, some e => some (.ok o (e = 1))
    | _, _ => none
  | ["err"] => some .err
  | ["skip"] => some .skip
  | _ => none

def showRet : ProcRet → String
  | .nil => "nil"
  | .funcErr => "ferr"
  | .nextErr => "nerr"

structure PS where
  model : Proc := {}
  pending : Option XOp := none
  impl : List ProcObs := []      -- oldest first
  bad : Option String := none
  -- `mode=profiles` cases (xprocessorhelper.NewProfiles next to processorhelper.NewLogs): the `obs` lines also carry the sum
  -- over ALL series of the two instruments and the number of series, so that a series for a fourth signal is seen
  ext : Bool := false
  touched : List Signal := []    -- signals that had an operation (each creates its incoming and its outgoing series)
  last : ProcSnap := {}          -- counters the implementation showed after the previous operation
  notes : List String := []

def showSnap (p : ProcSnap) : String := showTriple p.incoming p.outgoing

def procFirstFail : ProcSnap → List ProcObs → Nat → Option String
  | _, [], _ => none
  | before, o :: rest, k =>
    let ctx := s!"step={k} op={showSig o.sig}:in={o.inp}:sink={o.sink} before={showSnap before} after={showSnap o.after}"
    match procForeign before o with
    | some t => some s!"sig=C19/processor/foreign-signal-counter-moved moved={showSig t} {ctx}"
    | none =>
      if !procIncomingB before o then some s!"sig=C19/processor/incoming-not-given {ctx}"
      else if !procOutgoingB before o then some s!"sig=C19/processor/outgoing-not-forwarded {ctx}"
      else procFirstFail o.after rest (k + 1)

def procHandler : Handler PS where
  init := {}
  onCase := fun s toks => { s with ext := kv toks "mode" == some "profiles" }
  onOp := fun s toks =>
    match toks with
    | "proc" :: rest =>
      let x : Option XOp :=
        match kv rest "sig", kvNat rest "in", (kv rest "out").bind parseOutcome with
        | some "p", some inp, some oc => some (.prof inp oc)
        | some sg, some inp, some oc => (parseSig sg).map (fun sig => .sig ⟨sig, inp, oc⟩)
        | _, _, _ => none
      match x with
      | some x =>
        let (m, ret) := s.model.consumeX x
        let oc := match x with
          | .sig op => op.outcome
          | .prof _ oc => oc
        let sink := match oc with
          | .ok o _ => toString o
          | _ => "-"
        let touched := match x with
          | .sig op => if s.touched.contains op.sig then s.touched else op.sig :: s.touched
          | .prof _ _ => s.touched
        let total := (Signal.all.map (fun sg => m.incoming sg + m.outgoing sg)).sum
        let extra := if s.ext then s!" total={total} series={2 * touched.length}" else ""
        ({ s with model := m, pending := some x, touched := touched },
         [s!"obs cnt {showTriple m.incoming m.outgoing} sink={sink} ret={showRet ret}{extra}"])
      | none => (s, ["obs bad-op"])
    | _ => (s, ["obs bad-op"])
  onObs := fun s toks =>
    match toks with
    | _ :: "cnt" :: tr :: rest =>
      match s.pending, parseTriple tr, kv rest "sink" with
      | some x, some (i, o), some sk =>
        let sink : Option (Option Nat) := if sk = "-" then some none else sk.toNat?.map some
        match sink with
        | some sink =>
          let after : ProcSnap := { incoming := i, outgoing := o }
          -- a profiles payload, seen from the counters, is a step in which nothing was given and nothing forwarded
          -- (`C19_profiles_step`): no counter of any signal may move
          let step : ProcObs := match x with
            | .sig op => { sig := op.sig, inp := op.inp, sink := sink, after := after }
            | .prof _ _ => { sig := .traces, inp := 0, sink := none, after := after }
          let isProf := match x with
            | .prof _ _ => true
            | .sig _ => false
          let s := if isProf && !procStepB s.last step
            then { s with notes := s.notes ++ [s!"sig=C19/processor/profiles-moved-a-counter before={showSnap s.last} after={showSnap after}"] } else s
          -- nothing may be recorded outside the three otel.signal series of this processor
          let s := if s.ext then
              match kvNat rest "total", kvNat rest "series" with
              | some tot, some ser =>
                if tot != (Signal.all.map (fun sg => i sg + o sg)).sum || ser != 2 * s.touched.length
                then { s with notes := s.notes ++ [s!"sig=C19/processor/unexpected-series total={tot} series={ser} known={showSnap after}"] } else s
              | _, _ => { s with notes := s.notes ++ ["sig=C19/processor/unparsable total=/series="] }
            else s
          { s with impl := s.impl ++ [step], last := after, pending := none }
        | none => { s with bad := some "unparsable sink", pending := none }
      | _, _, _ => { s with bad := some "unparsable counters", pending := none }
    | [_, "panic"] => { s with bad := some "panic" }
    | _ => s
  onEnd := fun s =>
    match s.bad, s.notes with
    | some b, _ => [s!"prop proc=FAIL sig=C19/processor/unparsable {b}"]
    | none, n :: _ => [s!"prop proc=FAIL {n}"]
    | none, [] =>
      if procCheck {} s.impl then ["prop proc=ok"] else
      match procFirstFail {} s.impl 0 with
      | some f => [s!"prop proc=FAIL {f}"]
      | none => ["prop proc=FAIL sig=C19/processor/oracle-inconsistent"]


/-- the handlers of the receiver / scraper / processor clauses -/
def handlers : List (String × IO Unit) :=
  [("c19-recv", run recvHandler), ("c19-scrape", run scrapeHandler), ("c19-proc", run procHandler)]

end OtelVerif.Drivers.C19

def main : IO UInt32 :=
  runMulti (OtelVerif.Drivers.C19.handlers ++ [
    ("c19-exp", run OtelVerif.Drivers.C19Exp.expHandler),
    ("c19-obs", run OtelVerif.Drivers.C19Obs.handler),
    ("c19-xexp", run OtelVerif.Drivers.C19XExp.handler)
  ])
