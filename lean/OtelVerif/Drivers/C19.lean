import OtelVerif.Common.Line
import OtelVerif.Model.C19
/-! driver for C19 (stub) -/
def main : IO UInt32 := do
  IO.eprintln "drv_c19: not built yet"
  return 2
