import OtelVerif.Common.Line
import OtelVerif.Model.C19Exp
import OtelVerif.Model.C03Replay
import OtelVerif.Model.C19SenderTrace
/-! driver for C19, exporter clause (model `c19-exp`); imported by `Drivers/C19.lean` -/
open OtelVerif OtelVerif.Line

namespace OtelVerif.Drivers.C19Exp

/-! ## exporter clause: model `c19-exp` (trace of the C03 runner + counters read from the real meter provider) -/

def xParseIds (s : String) : Option (List Nat) :=
  if s = "-" then some [] else (s.splitOn ",").mapM String.toNat?

structure XS where
  persistent : Bool := false
  evs : List OtelVerif.C19.XEv := []      -- reversed
  lateAcc : List (List Nat) := []          -- accepted after the shutdown request
  shutReq : Bool := false
  stored : List Nat := []
  impl : Option (Nat × Nat × Nat) := none
  gauges : List (Int × Int × Option Int × Int) := []
  gaugeBounds : List (Int × Int) := []   -- persistent queue: (size gauge, ledger's outstanding sum): gauge ≤ bound (C19_gauge_persistent_le)
  gaugePos : List Nat := []          -- number of trace events before each gauge reading (same order as `gauges`)
  gaugeMissing : Bool := false
  skipped : Bool := false
  bad : Option String := none
  -- for the replay of the trace through the LTS
  batch : Nat := 0
  wrap : Bool := false
  consumers : Nat := 1
  retry : Bool := false
  wfr : Bool := false
  itemsSized : Bool := false
  returned : Bool := false
  bytesSized : Bool := false
  direct : Bool := false   -- no sending queue, no batcher: no obsQueue, every Send passes obsReportSender once
  tevs : List OtelVerif.C03.Replay.TEv := []
  sig : Option OtelVerif.C19.Sig := none   -- the exporter's signal: selects the rows of the REGENERATED instrument switches

def sigOfName : String → Option OtelVerif.C19.Sig
  | "traces" => some .traces | "metrics" => some .metrics | "logs" => some .logs | "profiles" => some .profiles | _ => none

def expHandler : Handler XS where
  init := {}
  onOp := fun s toks =>
    match toks with
    | "cfg" :: rest =>
      match kvNat rest "persistent", kvNat rest "queue", kvNat rest "wfr", (kv rest "signal").bind sigOfName with
      | some p, some q, some w, some sg =>
        ({ s with persistent := p == 1, sig := some sg, batch := (kvNat rest "batch").getD 0, wrap := kvNat rest "wrap" == some 1,
                  direct := q == 0 && (kvNat rest "batch").getD 0 == 0,
                  bytesSized := kv rest "sizer" == some "bytes",
                  consumers := (kvNat rest "consumers").getD 1, retry := kvNat rest "retry" == some 1,
                  wfr := w == 1 || q == 0, itemsSized := kv rest "sizer" == some "items" && q == 1 }, [])
      | _, _, _, _ => (s, ["obs bad-op"])
    | ["act", at_, "shutdown"] => if at_.toNat?.isSome then (s, []) else (s, ["obs bad-op"])
    | ["act", at_, "send", rid, n] =>
      if at_.toNat?.isSome && rid.toNat?.isSome && n.toNat?.isSome then (s, []) else (s, ["obs bad-op"])
    | ["backend", i, d, o] =>
      if i.toNat?.isSome && d.toNat?.isSome && o.toNat?.isSome then (s, []) else (s, ["obs bad-op"])
    | _ => (s, ["obs bad-op"])
  onObs := fun s toks =>
    match toks with
    | ["tr", "acc", rid, ids] =>
      match rid.toNat?, xParseIds ids with
      | some rid, some is =>
        { s with evs := .acc is :: s.evs, lateAcc := if s.shutReq then is :: s.lateAcc else s.lateAcc, tevs := .acc rid is :: s.tevs }
      | _, _ => { s with bad := some "acc" }
    | ["tr", "rej", rid, ids] =>
      match rid.toNat?, xParseIds ids with
      | some rid, some is => { s with evs := .rej is :: s.evs, tevs := .rej rid is :: s.tevs }
      | _, _ => { s with bad := some "rej" }
    | ["tr", "ss", rid, ids] =>
      match rid.toNat?, xParseIds ids with
      | some rid, some is => { s with tevs := .ss rid is :: s.tevs }
      | _, _ => { s with bad := some "ss" }
    | ["tr", "es", c, ids] =>
      match c.toNat?, xParseIds ids with
      | some c, some is => { s with evs := .es c is :: s.evs, tevs := .es c is :: s.tevs }
      | _, _ => { s with bad := some "es" }
    | ["tr", "ee", c, f, pm, lf] =>
      match c.toNat?, f.toNat?, pm.toNat?, lf.toNat? with
      | some c, some f, some pm, some lf =>
        { s with evs := .ee c (f == 1) :: s.evs, tevs := .ee c (f == 1) (pm == 1) (lf == 1) :: s.tevs }
      | _, _, _, _ => { s with bad := some "ee" }
    | "tr" :: "ms" :: rest =>
      match kvNat rest "first", (kv rest "cur").bind xParseIds, (kv rest "req").bind xParseIds, kv rest "res", kvNat rest "keep", kvNat rest "err" with
      | some f, some cur, some req, some res, some k, some er =>
        if er == 1 then s else
        match (if res = "-" then some [] else (res.splitOn ";").mapM xParseIds) with
        | some rl => { s with tevs := .ms (f == 1) cur req rl (k == 1) :: s.tevs }
        | none => { s with bad := some "ms" }
      | _, _, _, _, _, _ => { s with bad := some "ms" }
    | ["tr", "shutreq"] => { s with shutReq := true, tevs := .shutreq :: s.tevs }
    | ["tr", "shutret", _] => { s with returned := true, tevs := .shutret :: s.tevs }
    | ["tr", "wshut"] => { s with tevs := .wshut :: s.tevs }
    | ["tr", "stored", ids] =>
      match xParseIds ids with
      | some is => { s with stored := is }
      | none => { s with bad := some "stored" }
    | ["tr", "gauge", "missing"] => { s with gaugeMissing := true }
    | "tr" :: "gauge" :: rest =>
      match kvInt rest "size", kvInt rest "cap", kv rest "expsize", kvInt rest "expcap" with
      | some sz, some cp, some es, some ec =>
        { s with gauges := (sz, cp, es.toInt?, ec) :: s.gauges, gaugePos := s.tevs.length :: s.gaugePos,
                 gaugeBounds := match (kv rest "maxsize").bind String.toInt? with | some m => (sz, m) :: s.gaugeBounds | none => s.gaugeBounds }
      | _, _, _, _ => { s with bad := some "gauge" }
    | "tr" :: "builderr" :: _ => { s with skipped := true }
    | "tr" :: _ => s
    | "obs" :: "counters" :: rest =>
      match kvNat rest "sent", kvNat rest "failed", kvNat rest "enq" with
      | some a, some b, some c => { s with impl := some (a, b, c) }
      | _, _, _ => { s with bad := some "counters" }
    | _ => s
  onEnd := fun s =>
    if s.skipped then ["obs skipped"] else
    match s.bad with
    | some b => [s!"obs unparsable {b}", s!"prop exporter=FAIL sig=C19/exporter/unparsable {b}"]
    | none =>
      let t := s.evs.reverse
      -- the counters come from the per-call model of obsReportSender.endOp / obsQueue.Offer (Model/C19Sender.lean, instrument rows
      -- regenerated from the source) run over the events of the trace; = `predict` (C19_sender_trace_eq_predict)
      let c := OtelVerif.C19.Sender.run (s.sig.getD .profiles) (OtelVerif.C19.senderEvs t s.direct)
      let obs := s!"obs counters sent={c.sent} failed={c.failed} enq={c.enq}"
      let attempted : Nat → Bool := fun x => (OtelVerif.C19.callsOf t).any (fun c => c.2.contains x)
      let given := (t.map (fun e => match e with | .acc is => is.length | .rej is => is.length | _ => 0)).sum
      let stuckLate := if s.persistent then 0 else ((s.lateAcc.flatMap id).filter (fun x => !attempted x)).length
      let stored := if s.persistent then s.stored.length else 0
      let dblKept := if s.persistent then (s.stored.filter attempted).length else 0
      let dblWfr := if s.direct then 0 else ((t.flatMap (fun e => match e with | .rej is => is | _ => [])).filter attempted).length
      -- the LITERAL clause: sent + send-failed + enqueue-failed = given − stored(persistent).  Three structurally identified
      -- deviations of the code are known; each gets its own line and signature, anything else is an imbalance:
      --  late  = items whose Send was ACCEPTED (nil) after the shutdown request by a memory queue and that were never exported
      --  kept  = items counted (attempted) that are also still stored (shutdown-interrupted request of a persistent queue)
      --  wfr   = items of a refused Send that were exported (wait_for_result: the export error comes back through Offer)
      let pBal : List String := match s.impl with
        | none => ["prop balance=FAIL sig=C19/exporter/no-counters"]
        | some (a, b, c) =>
          let lhs := a + b + c
          let rhs := given - stored
          if lhs = rhs && stuckLate = 0 && dblKept = 0 && dblWfr = 0 then ["prop balance=ok"]
          else if lhs + stuckLate = rhs + dblKept + dblWfr then
            (if stuckLate > 0 then [s!"prop balance_late=FAIL sig=C19/exporter/accepted-after-shutdown-dropped-uncounted sent={a} failed={b} enq={c} given={given} dropped={stuckLate}"] else []) ++
            (if dblKept > 0 then [s!"prop balance_kept=FAIL sig=C19/exporter/shutdown-interrupted-counted-and-still-stored sent={a} failed={b} enq={c} given={given} stored={stored} twice={dblKept}"] else []) ++
            (if dblWfr > 0 then [s!"prop balance_wfr=FAIL sig=C19/exporter/wait-for-result-error-counted-send-failed-and-enqueue-failed sent={a} failed={b} enq={c} given={given} twice={dblWfr}"] else []) ++
            (if stuckLate = 0 && dblKept = 0 && dblWfr = 0 then ["prop balance=ok"] else [])
          else [s!"prop balance=FAIL sig=C19/exporter/imbalance sent={a} failed={b} enq={c} given={given} stored={stored} late={stuckLate} kept={dblKept} wfr={dblWfr}"]
      let badGauge := s.gauges.find? (fun g => g.2.1 != g.2.2.2 || (match g.2.2.1 with | some e => g.1 != e | none => false))
      let pGauge := match s.gaugeMissing, badGauge with
        | true, _ => "prop gauges=FAIL sig=C19/exporter/gauge-missing"
        | false, some g =>
          if g.2.1 != g.2.2.2 then s!"prop gauges=FAIL sig=C19/exporter/capacity-gauge-not-configured-capacity got={g.2.1} want={g.2.2.2}"
          else s!"prop gauges=FAIL sig=C19/exporter/size-gauge-not-queue-size got={g.1} want={g.2.2.1.getD 0}"
        | false, none =>
          -- persistent queue with requests outstanding: the size bookkeeping is lossy (reset when drained, clamp) but never OVER-reports
          match s.gaugeBounds.find? (fun g => decide (g.1 > g.2) || decide (g.1 < 0)) with
          | some g => s!"prop gauges=FAIL sig=C19/exporter/size-gauge-exceeds-outstanding-requests got={g.1} bound={g.2}"
          | none => "prop gauges=ok"
      -- counters as functions of the LTS state reached by replaying the trace through `fire` (sentOf / failedOf / enqFailedWfrOf)
      let batching := s.batch != 0
      let pLts :=
        if !s.returned || (batching && !s.wrap) || s.direct then "prop lts=skipped" else
        let tr := s.tevs.reverse
        let rc : OtelVerif.C03.Replay.RCfg :=
          { cfg := { persistent := s.persistent, batching := batching, retry := s.retry, wfr := s.wfr, itemsSized := s.itemsSized }
            nCons := if batching then 1 else s.consumers
            workers := if batching then 1 else 0
            timer := batching
            stored := s.stored
            sends := tr.filterMap (fun e => match e with | .ss rid ids => some (rid, ids) | _ => none) }
        let rs := OtelVerif.C03.Replay.replay rc tr
        match rs.err, s.impl with
        | some (k, d), _ => s!"prop lts=FAIL sig=C19/exporter/trace-not-a-run-of-the-model/{k} {d.replace " " "_"}"
        | none, none => "prop lts=FAIL sig=C19/exporter/no-counters"
        | none, some (a, b, c) =>
          let refused := ((t.flatMap (fun e => match e with | .rej is => if is.any attempted then [] else is | _ => [])).length)
          let ms := OtelVerif.C19.sentOf rs.s
          let mf := OtelVerif.C19.failedOf rs.s
          let me := OtelVerif.C19.enqFailedOf { s := rs.s, refused := refused }
          -- what the MODEL says is still stored (never-dispatched queue remainder + kept flights) must be in the decoded storage
          let modelStored := (OtelVerif.C03.queueItems rs.s.queue) ++
            (rs.s.flights.filter (fun fl => fl.st == .done && fl.kept)).flatMap (·.batch)
          let missing := if s.persistent then modelStored.filter (fun x => !s.stored.contains x) else []
          if !missing.isEmpty then s!"prop lts=FAIL sig=C19/exporter/lts-stored-item-not-in-storage items={missing} storedOf={OtelVerif.C19.storedOf rs.s}"
          else if s.persistent && OtelVerif.C19.storedOf rs.s != modelStored.length then "prop lts=FAIL sig=C19/exporter/storedOf-inconsistent"
          else if a = ms && b = mf && c = me then "prop lts=ok"
          else s!"prop lts=FAIL sig=C19/exporter/counters-differ-from-lts-state impl={a}/{b}/{c} lts={ms}/{mf}/{me}"
      -- size gauge against the LTS state at the instant it was read (a quiescent point just before the shutdown request):
      -- the model's `qsize` (released by `completedBy`, i.e. when every piece of a request has ended its flight) plus the
      -- requests that sit in the real queue but that the lazy replay has not enqueued yet
      let pGaugeLts :=
        if s.persistent || (batching && !s.wrap) || s.direct || s.bytesSized then "prop gaugelts=skipped" else
        let tr := s.tevs.reverse
        let rc : OtelVerif.C03.Replay.RCfg :=
          { cfg := { persistent := s.persistent, batching := batching, retry := s.retry, wfr := s.wfr, itemsSized := s.itemsSized }
            nCons := if batching then 1 else s.consumers
            workers := if batching then 1 else 0
            timer := batching
            stored := s.stored
            sends := tr.filterMap (fun e => match e with | .ss rid ids => some (rid, ids) | _ => none) }
        -- every comparable reading (ledger known): replay the events before it, look-ahead over the whole trace
        let readings := (s.gauges.zip s.gaugePos).reverse.filter (fun g => g.1.2.2.1.isSome)
        let results := readings.map (fun g =>
          let sz := g.1.1
          let n := g.2
          let rs := OtelVerif.C03.Replay.goN rc n { s := OtelVerif.C03.init rc.cfg rc.nCons rc.workers rc.timer } tr
          match rs.err with
          | some (k, d) => some s!"prop gaugelts=FAIL sig=C19/exporter/trace-not-a-run-of-the-model/{k} {d.replace " " "_"}"
          | none =>
            let pre := tr.take n
            let accepted := pre.filterMap (fun e => match e with | .acc rid ids => some (rid, ids) | _ => none)
            let started := pre.filterMap (fun e => match e with | .ss rid ids => some (rid, ids) | _ => none)
            let rejected := pre.filterMap (fun e => match e with | .rej rid _ => some rid | _ => none)
            let inQueue := if s.wfr then started.filter (fun p => !rejected.contains p.1 && !(accepted.map (·.1)).contains p.1) else accepted
            let waiting := inQueue.filter (fun p => !rs.offered.contains p.1)
            let want : Int := rs.s.qsize + ((waiting.map (fun p => OtelVerif.C03.reqSize rc.cfg p.2)).sum : Nat)
            if sz = want then none
            else some s!"prop gaugelts=FAIL sig=C19/exporter/size-gauge-differs-from-lts-qsize at={n} got={sz} lts={rs.s.qsize} waiting={waiting.length} want={want}")
        match results.findSome? id with
        | some f => f
        | none => if readings.isEmpty then "prop gaugelts=skipped" else s!"prop gaugelts=ok readings={readings.length}"
      [obs] ++ pBal ++ [pGauge, pLts, pGaugeLts]


end OtelVerif.Drivers.C19Exp
