import OtelVerif.Common.Line
import OtelVerif.Model.C19Exp
/-! driver for C19, exporter clause (model `c19-exp`); imported by `Drivers/C19.lean` -/
open OtelVerif OtelVerif.Line

namespace OtelVerif.Drivers.C19Exp

/-! ## exporter clause: model `c19-exp` (trace of the C03 runner + counters read from the real meter provider) -/

def xParseIds (s : String) : Option (List Nat) :=
  if s = "-" then some [] else (s.splitOn ",").mapM String.toNat?

structure XS where
  persistent : Bool := false
  evs : List OtelVerif.C19.XEv := []      -- reversed
  lateAcc : List (List Nat) := []          -- accepted after the shutdown request
  shutReq : Bool := false
  stored : List Nat := []
  impl : Option (Nat × Nat × Nat) := none
  gauges : List (Int × Int × Option Int × Int) := []
  gaugeMissing : Bool := false
  skipped : Bool := false
  bad : Option String := none

def expHandler : Handler XS where
  init := {}
  onOp := fun s toks =>
    match toks with
    | "cfg" :: rest =>
      match kvNat rest "persistent", kvNat rest "queue", kvNat rest "wfr" with
      | some p, some _, some _ => ({ s with persistent := p == 1 }, [])
      | _, _, _ => (s, ["obs bad-op"])
    | ["act", at_, "shutdown"] => if at_.toNat?.isSome then (s, []) else (s, ["obs bad-op"])
    | ["act", at_, "send", rid, n] =>
      if at_.toNat?.isSome && rid.toNat?.isSome && n.toNat?.isSome then (s, []) else (s, ["obs bad-op"])
    | ["backend", i, d, o] =>
      if i.toNat?.isSome && d.toNat?.isSome && o.toNat?.isSome then (s, []) else (s, ["obs bad-op"])
    | _ => (s, ["obs bad-op"])
  onObs := fun s toks =>
    match toks with
    | ["tr", "acc", _, ids] =>
      match xParseIds ids with
      | some is => { s with evs := .acc is :: s.evs, lateAcc := if s.shutReq then is :: s.lateAcc else s.lateAcc }
      | none => { s with bad := some "acc" }
    | ["tr", "rej", _, ids] =>
      match xParseIds ids with
      | some is => { s with evs := .rej is :: s.evs }
      | none => { s with bad := some "rej" }
    | ["tr", "es", c, ids] =>
      match c.toNat?, xParseIds ids with
      | some c, some is => { s with evs := .es c is :: s.evs }
      | _, _ => { s with bad := some "es" }
    | ["tr", "ee", c, f] =>
      match c.toNat?, f.toNat? with
      | some c, some f => { s with evs := .ee c (f == 1) :: s.evs }
      | _, _ => { s with bad := some "ee" }
    | ["tr", "shutreq"] => { s with shutReq := true }
    | ["tr", "stored", ids] =>
      match xParseIds ids with
      | some is => { s with stored := is }
      | none => { s with bad := some "stored" }
    | ["tr", "gauge", "missing"] => { s with gaugeMissing := true }
    | "tr" :: "gauge" :: rest =>
      match kvInt rest "size", kvInt rest "cap", kv rest "expsize", kvInt rest "expcap" with
      | some sz, some cp, some es, some ec => { s with gauges := (sz, cp, es.toInt?, ec) :: s.gauges }
      | _, _, _, _ => { s with bad := some "gauge" }
    | "tr" :: "builderr" :: _ => { s with skipped := true }
    | "tr" :: _ => s
    | "obs" :: "counters" :: rest =>
      match kvNat rest "sent", kvNat rest "failed", kvNat rest "enq" with
      | some a, some b, some c => { s with impl := some (a, b, c) }
      | _, _, _ => { s with bad := some "counters" }
    | _ => s
  onEnd := fun s =>
    if s.skipped then ["obs skipped"] else
    match s.bad with
    | some b => [s!"obs unparsable {b}", s!"prop exporter=FAIL sig=C19/exporter/unparsable {b}"]
    | none =>
      let t := s.evs.reverse
      let p := OtelVerif.C19.predict t
      let obs := s!"obs counters sent={p.sent} failed={p.failed} enq={p.enqFailed}"
      let attempted : Nat → Bool := fun x => (OtelVerif.C19.callsOf t).any (fun c => c.2.contains x)
      let given := (t.map (fun e => match e with | .acc is => is.length | .rej is => is.length | _ => 0)).sum
      let stuckLate := if s.persistent then 0 else ((s.lateAcc.flatMap id).filter (fun x => !attempted x)).length
      let stored := if s.persistent then s.stored.length else 0
      let dblKept := if s.persistent then (s.stored.filter attempted).length else 0
      let dblWfr := ((t.flatMap (fun e => match e with | .rej is => is | _ => [])).filter attempted).length
      let pBal := match s.impl with
        | none => "prop balance=FAIL sig=C19/exporter/no-counters"
        | some (a, b, c) =>
          let lhs := a + b + c
          let rhs := given - stuckLate - stored
          if lhs = rhs then "prop balance=ok"
          else if lhs = rhs + dblKept + dblWfr then
            if dblKept > 0 then s!"prop balance=FAIL sig=C19/exporter/shutdown-interrupted-counted-and-still-stored sent={a} failed={b} enq={c} given={given} stored={stored} twice={dblKept}"
            else s!"prop balance=FAIL sig=C19/exporter/wait-for-result-error-counted-send-failed-and-enqueue-failed sent={a} failed={b} enq={c} given={given} twice={dblWfr}"
          else s!"prop balance=FAIL sig=C19/exporter/imbalance sent={a} failed={b} enq={c} given={given} stored={stored} stucklate={stuckLate}"
      let badGauge := s.gauges.find? (fun g => g.2.1 != g.2.2.2 || (match g.2.2.1 with | some e => g.1 != e | none => false))
      let pGauge := match s.gaugeMissing, badGauge with
        | true, _ => "prop gauges=FAIL sig=C19/exporter/gauge-missing"
        | false, some g =>
          if g.2.1 != g.2.2.2 then s!"prop gauges=FAIL sig=C19/exporter/capacity-gauge-not-configured-capacity got={g.2.1} want={g.2.2.2}"
          else s!"prop gauges=FAIL sig=C19/exporter/size-gauge-not-queue-size got={g.1} want={g.2.2.1.getD 0}"
        | false, none => "prop gauges=ok"
      [obs, pBal, pGauge]


end OtelVerif.Drivers.C19Exp
