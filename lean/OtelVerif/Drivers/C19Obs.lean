import OtelVerif.Common.Line
import OtelVerif.Model.C19Obs
/-! driver for C19, obsconsumer clause (model `c19-obs`); imported by `Drivers/C19.lean` -/
open OtelVerif OtelVerif.Line OtelVerif.C19.Obs

namespace OtelVerif.Drivers.C19Obs

structure S where
  st : St := fun _ => {}
  n : Nat := 0                       -- wrapper instances made
  ops : List Op := []                -- reversed
  impl : List (Nat × Cnt) := []      -- latest implementation counters per instance
  bad : Option String := none

def showCnt (s : St) (n : Nat) : String :=
  " ".intercalate ((List.range n).map (fun i => s!"{i}:{(s i).success}/{(s i).failure}/{(s i).other}"))

def parseCnt (tok : String) : Option (Nat × Cnt) :=
  match tok.splitOn ":" with
  | [i, r] =>
    match i.toNat?, (r.splitOn "/").mapM String.toNat? with
    | some i, some [a, b, c] => some (i, { success := a, failure := b, other := c })
    | _, _ => none
  | _ => none

def handler : Handler S where
  init := {}
  onOp := fun s toks =>
    match toks with
    | "mk" :: rest =>
      match kvNat rest "i", kvNat rest "sig", kvNat rest "attrs" with
      | some i, some _, some _ => if i = s.n then ({ s with n := s.n + 1 }, []) else (s, ["obs bad-op"])
      | _, _, _ => (s, ["obs bad-op"])
    | "consume" :: rest =>
      match kvNat rest "i", kvNat rest "n", kvNat rest "err" with
      | some i, some n, some e =>
        if i < s.n then
          let op : Op := { inst := i, n := n, err := e == 1 }
          let st := consume s.st op
          ({ s with st := st, ops := op :: s.ops }, [s!"obs cnt {showCnt st s.n}"])
        else (s, ["obs bad-op"])
      | _, _, _ => (s, ["obs bad-op"])
    | _ => (s, ["obs bad-op"])
  onObs := fun s toks =>
    match toks with
    | "obs" :: "cnt" :: rest =>
      match rest.mapM parseCnt with
      | some l => { s with impl := l }
      | none => { s with bad := some "cnt" }
    | _ => s
  onEnd := fun s =>
    match s.bad with
    | some b => [s!"prop obsconsumer=FAIL sig=C19/obsconsumer/unparsable {b}"]
    | none =>
      let ops := s.ops.reverse
      match s.impl.find? (fun p => !check p.1 ops p.2) with
      | none => ["prop obsconsumer=ok"]
      | some (i, c) =>
        let ok := okItems i ops
        let er := errItems i ops
        let kind :=
          if c.other != 0 then "unexpected-attribute-set"
          else if c.success + c.failure == ok + er then "counted-under-wrong-outcome"
          else "total-not-offered"
        [s!"prop obsconsumer=FAIL sig=C19/obsconsumer/{kind} instance={i} success={c.success} failure={c.failure} other={c.other} accepted-by-next={ok} refused-by-next={er}"]

end OtelVerif.Drivers.C19Obs
