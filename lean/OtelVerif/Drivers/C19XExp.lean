import OtelVerif.Common.Line
import OtelVerif.Model.C19Sender
/-! driver for C19, profiles exporter (model `c19-xexp`; harness `harness/c03/xprofiles_test.go`, `TestVerifC19XProfiles`); imported by
`Drivers/C19.lean`.

Input: `op cfg sig=<signal> queue=<0|1> cap=<n> …`, then one `op send <items> <accepted>` per `Send` of the real exporter
(= one `obsQueue.Offer` when the exporter has a queue) and one `op flight <items> <failed>` per pass through `obsReportSender.Send`.
The ops are folded through `C19.Sender.run` (the per-call model of `endOp` / `Offer`, instruments chosen by the REGENERATED signal
switches): the driver prints the model's `obs gauge …` and `obs counters …` lines (exact differential) and evaluates on the
IMPLEMENTATION's lines: `prop silent` (a profiles exporter records no item counter at all: no value, no series) and
`prop capacity` (the capacity gauge shows the configured capacity under the exporter's own data type). -/
open OtelVerif OtelVerif.Line OtelVerif.C19

namespace OtelVerif.Drivers.C19XExp

def parseSig : String → Option Sig
  | "traces" => some .traces
  | "metrics" => some .metrics
  | "logs" => some .logs
  | "profiles" => some .profiles
  | _ => none

def sigName : Sig → String
  | .traces => "traces" | .metrics => "metrics" | .logs => "logs" | .profiles => "profiles"

/-- what the implementation showed for the gauges -/
inductive Gauge
  | none                                  -- no capacity data point
  | val (cap : Nat) (datatype : String)
  | unread

structure S where
  sig : Option Sig := none
  queue : Bool := false
  cap : Nat := 0
  evs : List Sender.Ev := []                     -- reversed
  skipped : Bool := false
  bad : Option String := none
  implCtr : Option (Nat × Nat × Nat × Nat) := none   -- sent, failed, enq, series as shown by the implementation
  implGauge : Option Gauge := none

def bit (s : String) : Option Bool :=
  match s with
  | "0" => some false
  | "1" => some true
  | _ => none

def handler : Handler S where
  init := {}
  onOp := fun s toks =>
    match toks with
    | "cfg" :: rest =>
      match (kv rest "sig").bind parseSig, (kv rest "queue").bind bit, kvNat rest "cap" with
      | some sg, some q, some c => ({ s with sig := some sg, queue := q, cap := c }, [])
      | _, _, _ => (s, ["obs bad-op"])
    | ["send", items, acc] =>
      match s.sig, items.toNat?, bit acc with
      | some _, some n, some a =>
        -- without a sending queue there is no obsQueue: `Send` goes straight to obsReportSender
        if s.queue then ({ s with evs := .offerRet n (!a) :: s.evs }, []) else (s, [])
      | _, _, _ => (s, ["obs bad-op"])
    | ["flight", items, failed] =>
      match s.sig, items.toNat?, bit failed with
      | some _, some n, some f => ({ s with evs := .flightEnd n f :: s.evs }, [])
      | _, _, _ => (s, ["obs bad-op"])
    | ["skip"] => ({ s with skipped := true }, ["obs skipped"])
    | _ => (s, ["obs bad-op"])
  onObs := fun s toks =>
    match toks with
    | "obs" :: "counters" :: rest =>
      match kvNat rest "sent", kvNat rest "failed", kvNat rest "enq", kvNat rest "series" with
      | some a, some b, some c, some d => { s with implCtr := some (a, b, c, d) }
      | _, _, _, _ => if rest == ["unread"] then s else { s with bad := some "counters" }
    | ["obs", "gauge", "none"] => { s with implGauge := some .none }
    | ["obs", "gauge", "unread"] => { s with implGauge := some .unread }
    | "obs" :: "gauge" :: rest =>
      match kvNat rest "cap", kv rest "datatype" with
      | some c, some d => { s with implGauge := some (.val c d) }
      | _, _ => { s with bad := some "gauge" }
    | _ => s
  onEnd := fun s =>
    if s.skipped then [] else
    match s.bad, s.sig with
    | some b, _ => [s!"obs unparsable {b}", s!"prop silent=FAIL sig=C19/xexporter/harness-unparsable {b}"]
    | none, none => ["obs bad-op", "prop silent=FAIL sig=C19/xexporter/harness-no-cfg"]
    | none, some sg =>
      let c := Sender.run sg s.evs.reverse
      let gauge := if s.queue then s!"obs gauge cap={s.cap} datatype={sigName sg}" else "obs gauge none"
      let counters := s!"obs counters sent={c.sent} failed={c.failed} enq={c.enq} series={c.series}"
      -- the property's own oracle, on what the implementation showed (independent of the model's tables)
      let pSilent :=
        match s.implCtr with
        | none => "prop silent=FAIL sig=C19/xexporter/counters-not-read"
        | some (a, b, e, n) =>
          if sg != .profiles then "prop silent=skipped"
          else if a == 0 && b == 0 && e == 0 && n == 0 then "prop silent=ok"
          else s!"prop silent=FAIL sig=C19/xexporter/profiles-item-counter-recorded sent={a} failed={b} enq={e} series={n}"
      let pCap :=
        match s.implGauge with
        | some (.val cp d) =>
          if !s.queue then s!"prop capacity=FAIL sig=C19/xexporter/queue-gauge-without-queue cap={cp}"
          else if cp != s.cap then s!"prop capacity=FAIL sig=C19/xexporter/capacity-gauge-not-configured-capacity cap={cp} configured={s.cap}"
          else if d != sigName sg then s!"prop capacity=FAIL sig=C19/xexporter/queue-gauge-data-type-not-{sigName sg} datatype={d}"
          else "prop capacity=ok"
        | some .none =>
          if s.queue then s!"prop capacity=FAIL sig=C19/xexporter/capacity-gauge-not-configured-capacity cap=none configured={s.cap}"
          else "prop capacity=ok"
        | some .unread | none => "prop capacity=FAIL sig=C19/xexporter/gauge-not-read"
      [gauge, counters, pSilent, pCap]

end OtelVerif.Drivers.C19XExp
