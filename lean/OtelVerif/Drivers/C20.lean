import OtelVerif.Common.Line
import OtelVerif.Model.C20
/-! driver for C20 (stub) -/
def main : IO UInt32 := do
  IO.eprintln "drv_c20: not built yet"
  return 2
