import OtelVerif.Common.Line
import OtelVerif.Model.C20
import OtelVerif.Model.C20Sig
/-! driver for C20: model `c20-runloop` (the repaired `Shutdown()` guard, `Variant.fixed`) -/
open OtelVerif OtelVerif.Line OtelVerif.C20

namespace OtelVerif.Drivers.C20

structure DS where
  s : Option S := some init          -- none = the model refused a label of the history
  why : String := ""
  impl : List TEv := []              -- reversed: the implementation's event log
  badTr : Option String := none
  callPanics : Nat := 0              -- `tr callpanic`: a Shutdown() call panicked in its caller's goroutine
  watchErrSent : Nat := 0            -- `tr wsent err`: a provider goroutine sent an error notification
  sawRet : Bool := false             -- `tr ret …`: Run returned
  wedged : Bool := false             -- `tr wedged` before any `tr ret`: the history ended with Run not returned

def variant : Variant := .fixed

/-- pcs at which the harness cannot park the Run goroutine: infallible statements, executed at once -/
def autoPc : Pc → Bool
  | .setup1 _ | .setup4 _ | .initFail | .shut4 => true
  | _ => false

def auto (fuel : Nat) (s : S) : S :=
  match fuel with
  | 0 => s
  | n + 1 => if autoPc s.pc then (match fire variant s (.step true) with | some s' => auto n s' | none => s) else s

/-- the gated harness waits, after every service shutdown, until the stale fatal-error hand-over goroutines have exited
(it looks for them in the goroutine dump): in gated histories every stale hand-over gives up before the next label -/
def drainStale (fuel : Nat) (s : S) : S :=
  match fuel with
  | 0 => s
  | n + 1 => if s.nStale > 0 then (match fire variant s .giveUp with | some s' => drainStale n s' | none => s) else s

def fires (s : S) (ls : List Label) : Option S := ls.foldlM (fun s l => fire variant s l) s

def isort (l : List Nat) : List Nat := l.foldl (fun acc x => (acc.filter (· ≤ x)) ++ [x] ++ (acc.filter (· > x))) []

def showNats (l : List Nat) : String := if l.isEmpty then "-" else ",".intercalate (l.map toString)

def showObs (s : S) : String :=
  let gens := isort s.sdLog.eraseDups
  let sd := if gens.isEmpty then "-" else ",".intercalate (gens.map (fun g => s!"{g}:{s.sdLog.count g}"))
  let ret := match s.ret, s.panic with
    | _, true => "panic"
    | some true, _ => "ok"
    | some false, _ => "err"
    | none, _ => "-"
  s!"obs st={s.st.name} closed={if s.chanClosed then 1 else 0} gen={s.gen} live={showNats (isort s.live)} sd={sd} prov={s.provSd} ret={ret}"

def okOf : String → Option Bool
  | "ok" => some true | "fail" => some false | "getfail" => some false | "newfail" => some false
  -- the configuration fails xconfmap.Validate / does not unmarshal: further early returns of setupConfigurationComponents
  | "invalid" => some false | "badkey" => some false | _ => none

/-- one harness op = a list of labels, then the infallible statements up to the next parking point -/
def opLabels (s : S) : List String → Option (List Label)
  | ["run"] => some [.begin]
  | ["build", o] => if s.pc = .setup2 true ∨ s.pc = .setup2 false then (okOf o).map (fun b => [.step b]) else none
  | ["start", o] => if s.pc = .setup3 true ∨ s.pc = .setup3 false then (okOf o).map (fun b => [.step b]) else none
  | ["sdold", o] => if s.pc = .reload2 then (okOf o).map (fun b => [.step b]) else none
  | ["sdnew", o] => if s.pc = .setupSd true ∨ s.pc = .setupSd false then (okOf o).map (fun b => [.step b]) else none
  | ["sdfinal", o] => if s.pc = .shut3 then (okOf o).map (fun b => [.step b]) else none
  | ["prov", o] => if s.pc = .shut2 then (okOf o).map (fun b => [.step b]) else none
  | ["pick", e] => (Ev.ofName e).map (fun e => [.pick e])
  -- gate right after the select receive: the next statement is `setCollectorState(StateClosing)`
  | ["sel"] => if s.pc = .reload1 ∨ s.pc = .shut1 then some [.step true] else none
  | ["post", "fatal"] => some [.fatal]   -- a component reported StatusFatalError through the real host
  | ["post", e] => (Ev.ofName e).map (fun e => [.post e])
  | ["cancel"] => some [.cancel]
  -- Collector.DryRun before Run: no label — it performs none of the modelled effects (C20_dry_run_and_shutdown_effects_match_source)
  | ["dryrun", _] => if s.pc = .idle then some [] else none
  | "scen" :: _ => some []          -- race cases: scenario descriptor only (monitored, not replayed on the model)
  | _ => none

/-- `op shutdown k`: k goroutines are released through a barrier into Shutdown(). The model lets ALL of them read the guard
before any of them closes (`closers` reaches the number of callers that passed), then lets them close one after the other —
the interleaving in which every later close meets a closed channel. -/
def closeAll (fuel : Nat) (s : S) : Option S :=
  match fuel with
  | 0 => some s
  | n + 1 => if s.closers > 0 then (fire variant s .close).bind (closeAll n) else some s

def shutdownCalls (s : S) (k : Nat) : Option S := do
  let base := s.closers
  let s1 ← (List.replicate k Label.call).foldlM (fun s l => fire variant s l) s
  -- only the callers of this op close; callers that were already inside Shutdown() (none in gated histories) stay
  closeAll (s1.closers - base) s1

def compIdx : String → Nat
  | "recv" => 0 | "exp" => 1 | "ext" => 2 | _ => 9

def stOf : String → Option CState
  | "Starting" => some .starting | "Running" => some .running | "Closing" => some .closing | "Closed" => some .closed | _ => none

def handler : Handler DS where
  init := {}
  onOp := fun d toks =>
    let noobs := toks.getLast? = some "noobs"
    let toks := if noobs then toks.dropLast else toks
    match d.s with
    | none => (d, if noobs then [] else ["obs model-stuck " ++ d.why])
    | some s =>
      let r : Option S :=
        match toks with
        | ["shutdown", k] => k.toNat?.bind (shutdownCalls s)
        | _ => (opLabels s toks).bind (fires s)
      match r with
      | none => ({ d with s := none, why := "-".intercalate toks }, if noobs then [] else ["obs bad-op-or-label-not-enabled " ++ "-".intercalate toks])
      | some s' =>
        let s' := drainStale 8 (auto 8 s')
        ({ d with s := some s' }, if noobs then [] else [showObs s'])
  onObs := fun d toks =>
    match toks with
    | ["tr", "st", x] => match stOf x with
      | some c => { d with impl := .st c :: d.impl }
      | none => { d with badTr := some x }
    | ["tr", "c", g, n] => match g.toNat? with
      | some g => { d with impl := .created g (compIdx n) :: d.impl }
      | none => { d with badTr := some g }
    | ["tr", "s", g, n, "ok"] => match g.toNat? with
      | some g => { d with impl := .started g (compIdx n) :: d.impl }
      | none => { d with badTr := some g }
    | ["tr", "x", g, n, _] => match g.toNat? with
      | some g => { d with impl := .shut g (compIdx n) :: d.impl }
      | none => { d with badTr := some g }
    | ["tr", "prov"] => { d with impl := .prov :: d.impl }
    | "tr" :: "call" :: _ => { d with impl := .call :: d.impl }
    | ["tr", "callpanic"] => { d with callPanics := d.callPanics + 1 }
    | ["tr", "wsent", "err"] => { d with watchErrSent := d.watchErrSent + 1 }
    | ["tr", "wedged"] => { d with wedged := d.wedged || !d.sawRet }
    | ["tr", "quiet"] => { d with impl := .quiet :: d.impl }
    | ["tr", "stop", _] => { d with impl := .stop :: d.impl }
    | ["tr", "stopev", _] => { d with impl := .stop :: d.impl }
    | ["tr", "ret", r] => { d with impl := .ret (r == "ok") :: d.impl, sawRet := true }
    | _ => d
  onEnd := fun d =>
    match d.badTr with
    | some b => [s!"prop trace=FAIL sig=C20/harness/unparsable-trace {b}"]
    | none =>
      (match checkE d.impl.reverse with
      | .ok _ => ["prop trace=ok"]
      | .error b => [s!"prop trace=FAIL sig={b.sig}"]) ++
      -- "safe from any goroutine": the model's `close` never panics in the caller (C20_no_caller_panic); the implementation's did
      -- "a configuration-watch error stops the collector": every history of the harness is run to its end, so a case in
      -- which a provider sent an error notification must contain Run's return (the model: `C20_watch_error_never_lost`)
      (if d.watchErrSent > 0 && (d.wedged || !d.sawRet) then
         [s!"prop watcherr=FAIL sig=C20/runloop/watch-error-notification-lost sent={d.watchErrSent} and Run never returned"]
       else ["prop watcherr=ok"]) ++
      -- the sampled state word (one `tr st` per change, first sample = the state NewCollector stored) is a path of the documented
      -- lifecycle FSM (`fsmLogBad`, sound by `C20_fsm_check_sound`; every log of the model is accepted: `C20_model_state_trace_accepted`)
      (match fsmLogBad d.impl.reverse with
       | none => ["prop fsm=ok"]
       | some (a, b) => [s!"prop fsm=FAIL sig=C20/state/transition-outside-fsm from={a.name} to={b.name}"]) ++
      (if d.callPanics = 0 then ["prop callsafe=ok"]
       else [s!"prop callsafe=FAIL sig=C20/shutdown/concurrent-call-panicked panics={d.callPanics}"])

/-! ## model `c20-sig`: the signal layer `fireS` (Model/C20Sig.lean) around the same run-loop LTS -/

structure DSig where
  ss : Option SS := some {}
  why : String := ""
  d : DS := {}                        -- collects the implementation's trace for the same oracles as `c20-runloop`

def firesS (ss : SS) (ls : List SLabel) : Option SS := ls.foldlM fireS ss

def autoS (fuel : Nat) (ss : SS) : SS :=
  match fuel with
  | 0 => ss
  | n + 1 => if autoPc ss.core.pc then (match fireS ss (.core (.step true)) with | some s' => autoS n s' | none => ss) else ss

/-- the harness lets the Run goroutine reach the select (it waits until that goroutine is parked in `select`) before it
does anything else: the registration step, which lies between StateRunning and the first select, has then been executed -/
def registerS (ss : SS) : SS :=
  if ss.core.pc = .select ∧ ss.regDone = false then (fireS ss .register).getD ss else ss

def drainStaleS (fuel : Nat) (ss : SS) : SS :=
  match fuel with
  | 0 => ss
  | n + 1 => if ss.core.nStale > 0 then (match fireS ss (.core .giveUp) with | some s' => drainStaleS n s' | none => ss) else ss

def closeAllS (fuel : Nat) (ss : SS) : Option SS :=
  match fuel with
  | 0 => some ss
  | n + 1 => if ss.core.closers > 0 then (fireS ss (.core .close)).bind (closeAllS n) else some ss

def shutdownCallsS (ss : SS) (k : Nat) : Option SS := do
  let base := ss.core.closers
  let s1 ← firesS ss (List.replicate k (.core .call))
  closeAllS (s1.core.closers - base) s1

def showObsS (ss : SS) : String := showObs ss.core ++ s!" sigq={ss.q.length}"

def sigHandler : Handler DSig where
  init := {}
  onCase := fun st toks => { st with ss := some (initS (kvNat toks "dg" == some 1)) }
  onOp := fun st toks =>
    let noobs := toks.getLast? = some "noobs"
    let toks := if noobs then toks.dropLast else toks
    match st.ss with
    | none => (st, if noobs then [] else ["obs model-stuck " ++ st.why])
    | some ss =>
      let r : Option SS :=
        match toks with
        | ["ossig", n] => (Sig.ofName n).bind (fun sg => fireS ss (.os sg))
        | ["shutdown", k] => k.toNat?.bind (shutdownCallsS ss)
        | _ => (opLabels ss.core toks).bind (fun ls => firesS ss (ls.map SLabel.core))
      match r with
      | none => ({ st with ss := none, why := "-".intercalate toks }, if noobs then [] else ["obs bad-op-or-label-not-enabled " ++ "-".intercalate toks])
      | some s' =>
        let s' := registerS (drainStaleS 8 (autoS 8 s'))
        ({ st with ss := some s' }, if noobs then [] else [showObsS s'])
  onObs := fun st toks => { st with d := handler.onObs st.d toks }
  onEnd := fun st => handler.onEnd st.d

end OtelVerif.Drivers.C20

def main : IO UInt32 :=
  runMulti [("c20-runloop", run OtelVerif.Drivers.C20.handler), ("c20-race", run OtelVerif.Drivers.C20.handler),
    ("c20-sig", run OtelVerif.Drivers.C20.sigHandler)]
