import OtelVerif.Model.C01
/-!
# C01 — the crash invariant and its preservation by every micro-step

`Inv c` holds in every configuration reachable by ANY label sequence (operations, ticks, crashes in any
order and number).  Its `main` field is the no-loss statement.
-/
namespace OtelVerif.C01

/-- a request can be found again from the durable indexes alone -/
def Recoverable (s : Store) (r : Req) : Prop :=
  ∃ i, s.items i = some r ∧ (i ∈ s.di ∨ (s.R ≤ i ∧ i < s.W))

def InStore (s : Store) (r : Req) : Prop := ∃ i, s.items i = some r

theorem Recoverable.inStore {s : Store} {r : Req} (h : Recoverable s r) : InStore s r :=
  let ⟨i, hi, _⟩ := h; ⟨i, hi⟩

/-! ## `upd`, `swapRemove` -/

@[simp] theorem upd_same (f : Nat → Option Req) (i : Nat) (v : Option Req) : upd f i v i = v := by
  simp [upd]

theorem upd_ne (f : Nat → Option Req) {i j : Nat} (v : Option Req) (h : j ≠ i) : upd f i v j = f j := by
  simp [upd, h]

theorem mem_getLast_or_dropLast {α : Type} : ∀ (l : List α) (h : l ≠ []) (y : α), y ∈ l → y = l.getLast h ∨ y ∈ l.dropLast
  | [], h, _, _ => absurd rfl h
  | [a], _, y, hy => by simp at hy; simp [hy]
  | a :: b :: t, _, y, hy => by
    rw [List.mem_cons] at hy
    rcases hy with rfl | hy
    · right; simp [List.dropLast]
    · rcases mem_getLast_or_dropLast (b :: t) (by simp) y hy with h | h
      · left; simpa [List.getLast_cons] using h
      · right; simp only [List.dropLast_cons_cons, List.mem_cons]; right; exact h

theorem mem_swapRemove_of_ne : ∀ (l : List Nat) (x y : Nat), y ∈ l → y ≠ x → y ∈ swapRemove l x
  | [], _, _, h, _ => by simp at h
  | [a], x, y, h, hne => by
    simp at h; subst h
    simp [swapRemove, hne]
  | a :: b :: t, x, y, h, hne => by
    simp only [swapRemove]
    split
    · next hax =>
      subst hax
      rw [List.mem_cons] at h
      rcases h with rfl | h
      · exact absurd rfl hne
      · rcases mem_getLast_or_dropLast (b :: t) (by simp) y h with h | h
        · rw [List.mem_cons]; left; exact h
        · rw [List.mem_cons]; right; exact h
    · rw [List.mem_cons] at h
      rcases h with rfl | h
      · simp
      · rw [List.mem_cons]; right; exact mem_swapRemove_of_ne (b :: t) x y h hne

theorem mem_of_mem_swapRemove : ∀ (l : List Nat) (x y : Nat), y ∈ swapRemove l x → y ∈ l
  | [], _, _, h => by simp [swapRemove] at h
  | [a], x, y, h => by
    simp only [swapRemove] at h
    split at h
    · simp at h
    · exact h
  | a :: b :: t, x, y, h => by
    simp only [swapRemove] at h
    split at h
    · rw [List.mem_cons] at h
      rcases h with rfl | h
      · exact List.mem_cons_of_mem _ (List.getLast_mem _)
      · exact List.mem_cons_of_mem _ ((List.dropLast_sublist _).subset h)
    · rw [List.mem_cons] at h
      rcases h with rfl | h
      · simp
      · exact List.mem_cons_of_mem _ (mem_of_mem_swapRemove (b :: t) x y h)

theorem dropLast_nodup {α : Type} {l : List α} (h : l.Nodup) : l.dropLast.Nodup :=
  List.Sublist.nodup (List.dropLast_sublist l) h

theorem getLast_not_mem_dropLast {α : Type} : ∀ (l : List α) (h : l ≠ []), l.Nodup → l.getLast h ∉ l.dropLast
  | [], h, _ => absurd rfl h
  | [a], _, _ => by simp
  | a :: b :: t, _, hn => by
    have hn' : (b :: t).Nodup := (List.nodup_cons.mp hn).2
    have ha : a ∉ b :: t := (List.nodup_cons.mp hn).1
    have ih := getLast_not_mem_dropLast (b :: t) (by simp) hn'
    simp only [List.dropLast_cons_cons, List.mem_cons, not_or]
    rw [List.getLast_cons (by simp)]
    refine ⟨?_, ih⟩
    intro heq
    exact ha (heq ▸ List.getLast_mem _)

theorem swapRemove_nodup : ∀ (l : List Nat) (x : Nat), l.Nodup → (swapRemove l x).Nodup
  | [], _, _ => by simp [swapRemove]
  | [a], x, _ => by simp only [swapRemove]; split <;> simp
  | a :: b :: t, x, hn => by
    have hn' : (b :: t).Nodup := (List.nodup_cons.mp hn).2
    have ha : a ∉ b :: t := (List.nodup_cons.mp hn).1
    simp only [swapRemove]
    split
    · exact List.nodup_cons.mpr ⟨getLast_not_mem_dropLast _ _ hn', dropLast_nodup hn'⟩
    · refine List.nodup_cons.mpr ⟨?_, swapRemove_nodup (b :: t) x hn'⟩
      intro hmem
      exact ha (mem_of_mem_swapRemove _ _ _ hmem)

/-! ## the store invariant -/

structure StInv (s : Store) : Prop where
  opt : s.wi = none → s.ri = none
  le : s.R ≤ s.W
  dlt : ∀ i ∈ s.di, i < s.R
  nodup : s.di.Nodup
  full : ∀ j, s.R ≤ j → j < s.W → (s.items j).isSome = true

theorem R_eq {s : Store} (h : s.wi = none → s.ri = none) : s.R = s.ri.getD 0 := by
  unfold Store.R
  cases hw : s.wi with
  | none => simp [h hw]
  | some w => rfl

@[simp] theorem putB_W (s : Store) (w : Nat) (r : Req) : (s.putB w r).W = w + 1 := by simp [Store.putB, Store.W]
theorem putB_R {s : Store} (h : s.wi = none → s.ri = none) (w : Nat) (r : Req) : (s.putB w r).R = s.R := by
  rw [R_eq h]; simp [Store.putB, Store.R]
@[simp] theorem putB_di (s : Store) (w : Nat) (r : Req) : (s.putB w r).di = s.di := rfl
@[simp] theorem putB_items (s : Store) (w : Nat) (r : Req) : (s.putB w r).items = upd s.items w (some r) := rfl

@[simp] theorem moveB_W (s : Store) (w : Nat) (r : Req) (i : Nat) (rest : List Nat) : (s.moveB w r i rest).W = w + 1 := by
  simp [Store.moveB, Store.W]
theorem moveB_R {s : Store} (h : s.wi = none → s.ri = none) (w : Nat) (r : Req) (i : Nat) (rest : List Nat) :
    (s.moveB w r i rest).R = s.R := by
  rw [R_eq h]; simp [Store.moveB, Store.R]
@[simp] theorem moveB_di (s : Store) (w : Nat) (r : Req) (i : Nat) (rest : List Nat) : (s.moveB w r i rest).di = rest := rfl
@[simp] theorem moveB_items (s : Store) (w : Nat) (r : Req) (i : Nat) (rest : List Nat) :
    (s.moveB w r i rest).items = upd (upd s.items w (some r)) i none := rfl

@[simp] theorem finB_W (s : Store) (cdi : List Nat) (i : Nat) : (s.finB cdi i).W = s.W := rfl
@[simp] theorem finB_R (s : Store) (cdi : List Nat) (i : Nat) : (s.finB cdi i).R = s.R := rfl
@[simp] theorem finB_di (s : Store) (cdi : List Nat) (i : Nat) : (s.finB cdi i).di = cdi := rfl
@[simp] theorem finB_items (s : Store) (cdi : List Nat) (i : Nat) : (s.finB cdi i).items = upd s.items i none := rfl

@[simp] theorem setSi_W (s : Store) (v : Nat) : (s.setSi v).W = s.W := rfl
@[simp] theorem setSi_R (s : Store) (v : Nat) : (s.setSi v).R = s.R := rfl
@[simp] theorem setSi_di (s : Store) (v : Nat) : (s.setSi v).di = s.di := rfl
@[simp] theorem setSi_items (s : Store) (v : Nat) : (s.setSi v).items = s.items := rfl

@[simp] theorem getB_W (s : Store) (ri' : Nat) (cdi : List Nat) : (s.getB ri' cdi).W = s.W := rfl
theorem getB_R {s : Store} (hlt : s.R < s.W) (ri' : Nat) (cdi : List Nat) : (s.getB ri' cdi).R = ri' := by
  have : s.wi ≠ none := by
    intro h; simp [Store.W, Store.R, h] at hlt
  unfold Store.R Store.getB
  cases hw : s.wi with
  | none => exact absurd hw this
  | some w => simp
@[simp] theorem getB_di (s : Store) (ri' : Nat) (cdi : List Nat) : (s.getB ri' cdi).di = cdi := rfl
@[simp] theorem getB_items (s : Store) (ri' : Nat) (cdi : List Nat) : (s.getB ri' cdi).items = s.items := rfl

theorem StInv.setSi {s : Store} (h : StInv s) (v : Nat) : StInv (s.setSi v) :=
  ⟨h.opt, h.le, h.dlt, h.nodup, h.full⟩

theorem Recoverable.setSi {s : Store} {q : Req} (h : Recoverable s q) (v : Nat) : Recoverable (s.setSi v) q := h

/-- enqueue batch at the write index -/
theorem StInv.putB {s : Store} (h : StInv s) (r : Req) : StInv (s.putB s.W r) := by
  have hR := putB_R h.opt s.W r
  refine ⟨by simp [Store.putB], ?_, ?_, h.nodup, ?_⟩
  · rw [hR, putB_W]; have := h.le; omega
  · intro i hi; rw [hR]; exact h.dlt i hi
  · intro j h1 h2
    rw [hR] at h1; rw [putB_W] at h2
    by_cases hj : j = s.W
    · subst hj; simp
    · rw [putB_items, upd_ne _ _ hj]; exact h.full j h1 (by omega)

theorem Recoverable.putB_old {s : Store} (h : StInv s) {q : Req} (hq : Recoverable s q) (r : Req) :
    Recoverable (s.putB s.W r) q := by
  obtain ⟨i, hi, hc⟩ := hq
  have hne : i ≠ s.W := by
    rcases hc with hd | ⟨_, h2⟩
    · have := h.dlt i hd; have := h.le; omega
    · omega
  refine ⟨i, by rw [putB_items, upd_ne _ _ hne]; exact hi, ?_⟩
  rcases hc with hd | ⟨h1, h2⟩
  · left; exact hd
  · right; rw [putB_R h.opt, putB_W]; omega

theorem Recoverable.putB_new {s : Store} (h : StInv s) (r : Req) : Recoverable (s.putB s.W r) r :=
  ⟨s.W, by simp, Or.inr (by rw [putB_R h.opt, putB_W]; have := h.le; omega)⟩

/-- dequeue batch: advance `ri`, record the index as dispatched -/
theorem StInv.getB {s : Store} (h : StInv s) (hlt : s.R < s.W) : StInv (s.getB (s.R + 1) (s.di ++ [s.R])) := by
  have hR := getB_R hlt (s.R + 1) (s.di ++ [s.R])
  refine ⟨?_, ?_, ?_, ?_, ?_⟩
  · intro hw
    have : s.wi ≠ none := by intro h'; simp [Store.W, Store.R, h'] at hlt
    exact absurd hw this
  · rw [hR, getB_W]; omega
  · intro i hi
    rw [hR]; rw [getB_di, List.mem_append] at hi
    rcases hi with hi | hi
    · have := h.dlt i hi; omega
    · simp at hi; omega
  · rw [getB_di]
    refine List.nodup_append.mpr ⟨h.nodup, by simp, ?_⟩
    intro a ha b hb
    simp at hb; subst hb
    have := h.dlt a ha; omega
  · intro j h1 h2
    rw [hR] at h1; rw [getB_W] at h2
    exact h.full j (by omega) h2

theorem Recoverable.getB {s : Store} (hlt : s.R < s.W) {q : Req} (hq : Recoverable s q) :
    Recoverable (s.getB (s.R + 1) (s.di ++ [s.R])) q := by
  obtain ⟨i, hi, hc⟩ := hq
  refine ⟨i, hi, ?_⟩
  rw [getB_R hlt, getB_W, getB_di]
  rcases hc with hd | ⟨h1, h2⟩
  · left; simp [hd]
  · by_cases hieq : i = s.R
    · left; simp [hieq]
    · right; omega

/-- completion batch (`itemDispatchingFinish`) for a dispatched index -/
theorem StInv.finB {s : Store} (h : StInv s) (i : Nat) (hi : i < s.R) : StInv (s.finB (swapRemove s.di i) i) := by
  refine ⟨h.opt, h.le, ?_, swapRemove_nodup _ _ h.nodup, ?_⟩
  · intro j hj; exact h.dlt j (mem_of_mem_swapRemove _ _ _ hj)
  · intro j h1 h2
    have hne : j ≠ i := by simp at h1; omega
    rw [finB_items, upd_ne _ _ hne]; exact h.full j h1 h2

theorem Recoverable.finB_ne {s : Store} (h : StInv s) (i : Nat) (hi : i < s.R) {q : Req}
    (hq : Recoverable s q) (hne : s.items i ≠ some q) : Recoverable (s.finB (swapRemove s.di i) i) q := by
  obtain ⟨j, hj, hc⟩ := hq
  have hji : j ≠ i := by intro e; subst e; exact hne hj
  refine ⟨j, by rw [finB_items, upd_ne _ _ hji]; exact hj, ?_⟩
  rcases hc with hd | hr
  · left; exact mem_swapRemove_of_ne _ _ _ hd hji
  · right; exact hr

/-- recovery batch for the head `i` of `di` whose item is missing: drop `i` from `di` -/
theorem StInv.finB_head {s : Store} (h : StInv s) {i : Nat} {rest : List Nat} (hd : s.di = i :: rest) :
    StInv (s.finB rest i) := by
  have hi : i < s.R := h.dlt i (by simp [hd])
  have hn := h.nodup; rw [hd] at hn
  refine ⟨h.opt, h.le, ?_, (List.nodup_cons.mp hn).2, ?_⟩
  · intro j hj; rw [finB_di] at hj; exact h.dlt j (by simp [hd, hj])
  · intro j h1 h2
    have hne : j ≠ i := by simp at h1; omega
    rw [finB_items, upd_ne _ _ hne]; exact h.full j h1 h2

theorem Recoverable.finB_head {s : Store} {i : Nat} {rest : List Nat} (hd : s.di = i :: rest)
    (hnone : s.items i = none) {q : Req} (hq : Recoverable s q) : Recoverable (s.finB rest i) q := by
  obtain ⟨j, hj, hc⟩ := hq
  have hji : j ≠ i := by intro e; subst e; rw [hnone] at hj; cases hj
  refine ⟨j, by rw [finB_items, upd_ne _ _ hji]; exact hj, ?_⟩
  rcases hc with hdj | hr
  · left; rw [hd] at hdj; simp at hdj
    rcases hdj with e | hdj
    · exact absurd e hji
    · exact hdj
  · right; exact hr

/-- recovery batch that moves the head `i` of `di` to the write index (repaired code) -/
theorem StInv.moveB {s : Store} (h : StInv s) {i : Nat} {rest : List Nat} (hd : s.di = i :: rest) (r : Req) :
    StInv (s.moveB s.W r i rest) := by
  have hi : i < s.R := h.dlt i (by simp [hd])
  have hn := h.nodup; rw [hd] at hn
  have hR := moveB_R h.opt s.W r i rest
  have hle := h.le
  refine ⟨by simp [Store.moveB], ?_, ?_, (List.nodup_cons.mp hn).2, ?_⟩
  · rw [hR, moveB_W]; omega
  · intro j hj; rw [moveB_di] at hj; rw [hR]; exact h.dlt j (by simp [hd, hj])
  · intro j h1 h2
    rw [hR] at h1; rw [moveB_W] at h2
    have hne : j ≠ i := by omega
    rw [moveB_items, upd_ne _ _ hne]
    by_cases hj : j = s.W
    · subst hj; simp
    · rw [upd_ne _ _ hj]; exact h.full j h1 (by omega)

theorem Recoverable.moveB {s : Store} (h : StInv s) {i : Nat} {rest : List Nat} (hd : s.di = i :: rest)
    {r : Req} (hr : s.items i = some r) {q : Req} (hq : Recoverable s q) :
    Recoverable (s.moveB s.W r i rest) q := by
  have hi : i < s.R := h.dlt i (by simp [hd])
  have hle := h.le
  obtain ⟨j, hj, hc⟩ := hq
  by_cases hji : j = i
  · subst hji
    have : q = r := by rw [hr] at hj; injection hj with hj; exact hj.symm
    subst this
    have hne : s.W ≠ j := by omega
    refine ⟨s.W, by rw [moveB_items, upd_ne _ _ hne]; simp, Or.inr ?_⟩
    rw [moveB_R h.opt, moveB_W]; omega
  · have hjw : j ≠ s.W := by
      rcases hc with hdj | ⟨_, h2⟩
      · have := h.dlt j hdj; omega
      · omega
    refine ⟨j, by rw [moveB_items, upd_ne _ _ hji, upd_ne _ _ hjw]; exact hj, ?_⟩
    rcases hc with hdj | ⟨h1, h2⟩
    · left; rw [hd] at hdj; simp at hdj
      rcases hdj with e | hdj
      · exact absurd e hji
      · simpa using hdj
    · right; rw [moveB_R h.opt, moveB_W]; omega

end OtelVerif.C01

namespace OtelVerif.C01

/-! ## the configuration invariant -/

def MovInv (s : Store) (m : Mem) (todo : List (Nat × Option Req)) : Prop :=
  todo.map Prod.fst = s.di ∧ (∀ p ∈ todo, s.items p.1 = p.2) ∧ m.cdi = [] ∧ m.outst = []

def PcInv (s : Store) (m : Mem) : Pc → Prop
  | .idle => m.cdi = s.di
  | .backup => m.cdi = s.di
  | .readLoop => m.cdi = s.di
  | .readRet i r => m.cdi = s.di ∧ s.items i = some r ∧ i < s.R
  | .readFin i => m.cdi = s.di ∧ s.items i = none ∧ i < s.R
  | .init1 => m.cdi = [] ∧ m.outst = []
  | .init2 => m.cdi = [] ∧ m.outst = []
  | .init3 ds => ds = s.di ∧ m.cdi = [] ∧ m.outst = []
  | .moving todo => MovInv s m todo
  | .movingBackup todo => MovInv s m todo
  | .fin1 _ _ => False     -- the fallback pcs are unreachable without storage errors
  | .fin2 _ _ => False
  | .fin3 _ _ => False

structure LiveInv (c : Cfg) (m : Mem) (pc : Pc) : Prop where
  ri : m.ri = c.st.R
  wi : m.wi = c.st.W
  outst : ∀ p ∈ m.outst, c.st.items p.1 = some p.2 ∧ p.1 < c.st.R ∧ p.2 ∈ c.handed
  pc : PcInv c.st m pc

structure Inv (c : Cfg) : Prop where
  st : StInv c.st
  main : ∀ r ∈ c.accepted, r ∈ c.finalised ∨ Recoverable c.st r
  fin : ∀ r ∈ c.finalised, r ∈ c.handed
  live : ∀ m pc, c.ph = .live m pc → LiveInv c m pc

theorem Inv.mkLive {c : Cfg} {m : Mem} {pc : Pc} (hph : c.ph = .live m pc) (st : StInv c.st)
    (main : ∀ r ∈ c.accepted, r ∈ c.finalised ∨ Recoverable c.st r) (fin : ∀ r ∈ c.finalised, r ∈ c.handed)
    (lv : LiveInv c m pc) : Inv c :=
  ⟨st, main, fin, by intro m2 pc2 heq; rw [hph] at heq; cases heq; exact lv⟩

theorem Inv.mkDead {c : Cfg} (hph : c.ph = .dead) (st : StInv c.st)
    (main : ∀ r ∈ c.accepted, r ∈ c.finalised ∨ Recoverable c.st r) (fin : ∀ r ∈ c.finalised, r ∈ c.handed) : Inv c :=
  ⟨st, main, fin, by intro m2 pc2 heq; rw [hph] at heq; cases heq⟩

theorem LiveInv.of_eq {c c' : Cfg} {m : Mem} {pc : Pc} (h : LiveInv c m pc) (hst : c'.st = c.st)
    (hh : c'.handed = c.handed) : LiveInv c' m pc :=
  ⟨by rw [hst]; exact h.ri, by rw [hst]; exact h.wi, by rw [hst, hh]; exact h.outst, by rw [hst]; exact h.pc⟩

/-- the invariant does not read `calls`, `res`, `k` -/
theorem Inv.of_eq {c c' : Cfg} (h : Inv c) (hst : c'.st = c.st) (hph : c'.ph = c.ph)
    (ha : c'.accepted = c.accepted) (hh : c'.handed = c.handed) (hf : c'.finalised = c.finalised) : Inv c' :=
  ⟨by rw [hst]; exact h.st, by rw [ha, hf, hst]; exact h.main, by rw [hf, hh]; exact h.fin,
   by intro m pc heq; rw [hph] at heq; exact (h.live m pc heq).of_eq hst hh⟩

theorem pcInv_afterMove {s : Store} {m : Mem} {rest : List (Nat × Option Req)} (h : MovInv s m rest) :
    PcInv s m (afterMove rest) := by
  cases rest with
  | nil =>
    obtain ⟨h1, _, h3, _⟩ := h
    simp only [afterMove, PcInv]; rw [h3]; simpa using h1
  | cons p t => exact h

theorem inv_init (k : Conf) : Inv (init k) := by
  refine Inv.mkDead rfl ⟨fun _ => rfl, ?_, ?_, ?_, ?_⟩ ?_ ?_
  · simp [init, Store.R, Store.W]
  · intro i hi; simp [init] at hi
  · simp [init]
  · intro j h1 h2; simp [init, Store.W] at h2
  · intro r hr; simp [init] at hr
  · intro r hr; simp [init] at hr

theorem LiveInv.waiting {c : Cfg} {m : Mem} {pc : Pc} (hl : LiveInv c m pc) (w : List Req) :
    LiveInv c { m with waiting := w } pc :=
  ⟨hl.ri, hl.wi, hl.outst, by
    have := hl.pc
    cases pc <;> exact this⟩

theorem inv_doPut {c : Cfg} {m : Mem} (h : Inv c) (hl : LiveInv c m .idle) (r : Req) : Inv (doPut c m r) := by
  unfold doPut
  dsimp only
  have hw := hl.wi
  refine Inv.mkLive rfl ?_ ?_ h.fin ⟨?_, ?_, ?_, ?_⟩ <;> dsimp only <;> rw [hw]
  · exact h.st.putB r
  · intro q hq
    rw [List.mem_cons] at hq
    rcases hq with rfl | hq
    · right; exact Recoverable.putB_new h.st q
    · rcases h.main q hq with hf | hrec
      · left; exact hf
      · right; exact hrec.putB_old h.st r
  · rw [putB_R h.st.opt]; exact hl.ri
  · simp
  · intro p hp
    obtain ⟨h1, h2, h3⟩ := hl.outst p hp
    have hle := h.st.le
    refine ⟨?_, by rw [putB_R h.st.opt]; exact h2, h3⟩
    rw [putB_items, upd_ne _ _ (by omega)]; exact h1
  · have : m.cdi = c.st.di := hl.pc
    split <;> exact this

theorem inv_doOfferFull {c : Cfg} {m : Mem} (h : Inv c) (hph : c.ph = .live m .idle) (r : Req) :
    Inv (doOfferFull c m r) := by
  have hl := h.live m _ hph
  unfold doOfferFull
  split
  · exact h.of_eq rfl rfl rfl rfl rfl
  · split
    · exact h.of_eq rfl rfl rfl rfl rfl
    · exact Inv.mkLive rfl h.st h.main h.fin ((hl.waiting _).of_eq rfl rfl)

theorem inv_doOffer {c : Cfg} {m : Mem} (h : Inv c) (hph : c.ph = .live m .idle) (r : Req) : Inv (doOffer c m r) := by
  unfold doOffer
  split
  · exact inv_doOfferFull h hph r
  · exact inv_doPut h (h.live m _ hph) r

theorem inv_doWake {c : Cfg} {m : Mem} (h : Inv c) (hph : c.ph = .live m .idle) : Inv (doWake c m) := by
  have hl := h.live m _ hph
  unfold doWake
  split
  · exact h
  · split
    · exact Inv.mkLive rfl h.st h.main h.fin ((hl.waiting _).of_eq rfl rfl)
    · exact inv_doPut h (hl.waiting _) _

theorem inv_doCancel {c : Cfg} {m : Mem} (h : Inv c) (hph : c.ph = .live m .idle) (j : Nat) : Inv (doCancel c m j) := by
  have hl := h.live m _ hph
  exact Inv.mkLive rfl h.st h.main h.fin ((hl.waiting _).of_eq rfl rfl)

end OtelVerif.C01

namespace OtelVerif.C01

theorem mem_of_lookup {i : Nat} {r : Req} : ∀ {l : List (Nat × Req)}, l.lookup i = some r → (i, r) ∈ l
  | [], h => by simp [List.lookup] at h
  | (j, q) :: t, h => by
    simp only [List.lookup] at h
    split at h
    · next heq =>
      have : i = j := by simpa using heq
      subst this; injection h with h; subst h; simp
    · exact List.mem_cons_of_mem _ (mem_of_lookup h)

theorem inv_doRead {c : Cfg} {m : Mem} (h : Inv c) (hl : LiveInv c m .idle) : Inv (doRead c m) := by
  unfold doRead
  by_cases hs : m.stopped = true
  · rw [if_pos hs]; exact Inv.mkLive rfl h.st h.main h.fin (hl.of_eq rfl rfl)
  · rw [if_neg hs]
    by_cases he : m.ri = m.wi
    · rw [if_pos he]; exact Inv.mkLive rfl h.st h.main h.fin (hl.of_eq rfl rfl)
    · rw [if_neg he]
      have hri := hl.ri
      have hwi := hl.wi
      have hcdi : m.cdi = c.st.di := hl.pc
      have hle := h.st.le
      have hlt : c.st.R < c.st.W := by omega
      dsimp only
      refine Inv.mkLive rfl ?_ ?_ h.fin ⟨?_, ?_, ?_, ?_⟩ <;> dsimp only <;> rw [hri, hcdi]
      · exact h.st.getB hlt
      · intro q hq
        rcases h.main q hq with hf | hrec
        · left; exact hf
        · right; exact hrec.getB hlt
      · rw [getB_R hlt]
      · rw [getB_W]; exact hwi
      · intro p hp
        obtain ⟨h1, h2, h3⟩ := hl.outst p hp
        refine ⟨h1, ?_, h3⟩
        rw [getB_R hlt]; omega
      · cases hitem : c.st.items c.st.R with
        | none => exact ⟨rfl, hitem, by rw [getB_R hlt]; omega⟩
        | some r => exact ⟨rfl, hitem, by rw [getB_R hlt]; omega⟩

theorem inv_doDone {c : Cfg} {m : Mem} (h : Inv c) (hl : LiveInv c m .idle) (i : Nat) (oc : Outcome) :
    Inv (doDone c m i oc) := by
  unfold doDone
  split
  · exact h.of_eq rfl rfl rfl rfl rfl
  · next r hlook =>
    obtain ⟨hit, hiR, hhand⟩ := hl.outst (i, r) (mem_of_lookup hlook)
    have hcdi : m.cdi = c.st.di := hl.pc
    dsimp only at hit hiR hhand ⊢
    cases oc with
    | shutdownErr =>
      dsimp only
      refine Inv.mkLive rfl h.st h.main h.fin ⟨hl.ri, hl.wi, ?_, hcdi⟩
      intro p hp
      exact hl.outst p (List.mem_filter.mp hp).1
    | final =>
      dsimp only
      refine Inv.mkLive rfl ?_ ?_ ?_ ⟨?_, ?_, ?_, ?_⟩ <;> dsimp only <;> (try rw [hcdi])
      · exact h.st.finB i hiR
      · intro q hq
        rcases h.main q hq with hf | hrec
        · left; exact List.mem_cons_of_mem _ hf
        · by_cases hqi : c.st.items i = some q
          · left
            have : q = r := by rw [hit] at hqi; injection hqi with e; exact e.symm
            rw [this]; exact List.mem_cons_self
          · right; exact hrec.finB_ne h.st i hiR hqi
      · intro q hq
        rw [List.mem_cons] at hq
        rcases hq with rfl | hq
        · exact hhand
        · exact h.fin q hq
      · exact hl.ri
      · exact hl.wi
      · intro p hp
        obtain ⟨hp1, hp2⟩ := List.mem_filter.mp hp
        obtain ⟨h1, h2, h3⟩ := hl.outst p hp1
        have hne : p.1 ≠ i := by simpa using hp2
        refine ⟨?_, h2, h3⟩
        rw [finB_items, upd_ne _ _ hne]; exact h1
      · split <;> rfl

theorem inv_doShutdown {c : Cfg} {m : Mem} (h : Inv c) (hl : LiveInv c m .idle) : Inv (doShutdown c m) := by
  unfold doShutdown
  have hcdi : m.cdi = c.st.di := hl.pc
  cases hk : c.k.reqSized with
  | true =>
    simp only [if_true]
    exact Inv.mkLive rfl h.st h.main h.fin ⟨hl.ri, hl.wi, hl.outst, hcdi⟩
  | false =>
    simp only [Bool.false_eq_true, if_false]
    refine Inv.mkLive rfl (h.st.setSi _) ?_ h.fin ⟨hl.ri, hl.wi, hl.outst, hcdi⟩
    intro q hq
    exact h.main q hq

theorem inv_doStart {c : Cfg} (h : Inv c) : Inv (doStart c) := by
  unfold doStart
  refine Inv.mkLive rfl h.st h.main h.fin ⟨rfl, rfl, ?_, ⟨rfl, rfl⟩⟩
  intro p hp; simp at hp

theorem inv_doGetDi {c : Cfg} {m : Mem} (h : Inv c) (hri : m.ri = c.st.R) (hwi : m.wi = c.st.W)
    (hcdi : m.cdi = []) (hout : m.outst = []) : Inv (doGetDi c m) := by
  have ho : ∀ p ∈ m.outst, c.st.items p.1 = some p.2 ∧ p.1 < c.st.R ∧ p.2 ∈ c.handed := by
    intro p hp; rw [hout] at hp; simp at hp
  unfold doGetDi
  split
  · next hd =>
    refine Inv.mkLive rfl h.st h.main h.fin ⟨hri, hwi, ho, ?_⟩
    show m.cdi = c.st.di
    rw [hcdi, hd]
  · next d ds hd =>
    exact Inv.mkLive rfl h.st h.main h.fin ⟨hri, hwi, ho, ⟨hd.symm, hcdi, hout⟩⟩

theorem inv_doMove {c : Cfg} {m : Mem} {todo : List (Nat × Option Req)} (h : Inv c) (hri : m.ri = c.st.R)
    (hwi : m.wi = c.st.W) (hmov : MovInv c.st m todo) : Inv (doMove c m todo) := by
  obtain ⟨hmap, hval, hcdi, hout⟩ := hmov
  have ho : ∀ (s : Store) (l : List Req) (p : Nat × Req), p ∈ m.outst → s.items p.1 = some p.2 ∧ p.1 < s.R ∧ p.2 ∈ l := by
    intro s l p hp; rw [hout] at hp; simp at hp
  unfold doMove
  split
  · refine Inv.mkLive rfl h.st h.main h.fin ⟨hri, hwi, ho _ _, ?_⟩
    show m.cdi = c.st.di
    rw [hcdi, ← hmap]; rfl
  · next i rest =>
    have hd : c.st.di = i :: rest.map Prod.fst := by rw [← hmap]; rfl
    have hnone : c.st.items i = none := hval (i, none) (by simp)
    have hn := h.st.nodup; rw [hd] at hn
    refine Inv.mkLive rfl (h.st.finB_head hd) ?_ h.fin ⟨hri, hwi, ho _ _, ?_⟩
    · intro q hq
      rcases h.main q hq with hf | hrec
      · left; exact hf
      · right; exact hrec.finB_head hd hnone
    · apply pcInv_afterMove
      refine ⟨rfl, ?_, hcdi, hout⟩
      intro p hp
      have hpi : p.1 ≠ i := by
        intro e
        have : p.1 ∈ rest.map Prod.fst := List.mem_map_of_mem hp
        rw [e] at this
        exact (List.nodup_cons.mp hn).1 this
      show upd c.st.items i none p.1 = p.2
      rw [upd_ne _ _ hpi]; exact hval p (List.mem_cons_of_mem _ hp)
  · next i r rest =>
    have hd : c.st.di = i :: rest.map Prod.fst := by rw [← hmap]; rfl
    have hr : c.st.items i = some r := hval (i, some r) (by simp)
    have hn := h.st.nodup; rw [hd] at hn
    have hle := h.st.le
    dsimp only
    have hmov' : ∀ m' : Mem, m'.cdi = [] → m'.outst = [] → MovInv (c.st.moveB c.st.W r i (rest.map Prod.fst)) m' rest := by
      intro m' h1 h2
      refine ⟨rfl, ?_, h1, h2⟩
      intro p hp
      have hmem : p.1 ∈ rest.map Prod.fst := List.mem_map_of_mem hp
      have hpi : p.1 ≠ i := by
        intro e; rw [e] at hmem
        exact (List.nodup_cons.mp hn).1 hmem
      have hpw : p.1 ≠ c.st.W := by
        have := h.st.dlt p.1 (by rw [hd]; exact List.mem_cons_of_mem _ hmem)
        omega
      rw [moveB_items, upd_ne _ _ hpi, upd_ne _ _ hpw]; exact hval p (List.mem_cons_of_mem _ hp)
    refine Inv.mkLive rfl ?_ ?_ h.fin ⟨?_, ?_, ho _ _, ?_⟩ <;> dsimp only <;> rw [hwi]
    · exact h.st.moveB hd r
    · intro q hq
      rcases h.main q hq with hf | hrec
      · left; exact hf
      · right; exact hrec.moveB h.st hd hr
    · rw [moveB_R h.st.opt]; exact hri
    · rw [moveB_W]
    · split
      · exact hmov' _ hcdi hout
      · exact pcInv_afterMove (hmov' _ hcdi hout)

theorem inv_doTick {c : Cfg} {m : Mem} {pc : Pc} (h : Inv c) (hl : LiveInv c m pc) : Inv (doTick c m pc) := by
  cases pc with
  | idle => exact h
  | backup =>
    have hcdi : m.cdi = c.st.di := hl.pc
    simp only [doTick]
    refine Inv.mkLive rfl (h.st.setSi _) ?_ h.fin ⟨hl.ri, hl.wi, hl.outst, hcdi⟩
    intro q hq; exact h.main q hq
  | readRet i r =>
    obtain ⟨hcdi, hit, hiR⟩ := hl.pc
    simp only [doTick]
    refine Inv.mkLive rfl h.st h.main ?_ ⟨hl.ri, hl.wi, ?_, hcdi⟩
    · intro q hq; exact List.mem_cons_of_mem _ (h.fin q hq)
    · intro p hp
      dsimp only at hp ⊢
      rw [List.mem_cons] at hp
      rcases hp with rfl | hp
      · exact ⟨hit, hiR, List.mem_cons_self⟩
      · obtain ⟨h1, h2, h3⟩ := hl.outst p hp
        exact ⟨h1, h2, List.mem_cons_of_mem _ h3⟩
  | readFin i =>
    obtain ⟨hcdi, hit, hiR⟩ := hl.pc
    simp only [doTick]
    refine Inv.mkLive rfl ?_ ?_ h.fin ⟨?_, ?_, ?_, ?_⟩ <;> dsimp only <;> rw [hcdi]
    · exact h.st.finB i hiR
    · intro q hq
      rcases h.main q hq with hf | hrec
      · left; exact hf
      · right; exact hrec.finB_ne h.st i hiR (by rw [hit]; simp)
    · exact hl.ri
    · exact hl.wi
    · intro p hp
      obtain ⟨h1, h2, h3⟩ := hl.outst p hp
      have hne : p.1 ≠ i := by intro e; rw [e, hit] at h1; cases h1
      refine ⟨?_, h2, h3⟩
      rw [finB_items, upd_ne _ _ hne]; exact h1
    · rfl
  | readLoop =>
    simp only [doTick]
    exact inv_doRead h ⟨hl.ri, hl.wi, hl.outst, hl.pc⟩
  | init1 =>
    obtain ⟨hcdi, hout⟩ := hl.pc
    simp only [doTick]
    split
    · refine Inv.mkLive rfl h.st h.main h.fin ⟨hl.ri, hl.wi, ?_, ⟨hcdi, hout⟩⟩
      intro p hp; exact hl.outst p hp
    · exact inv_doGetDi h hl.ri hl.wi hcdi hout
  | init2 =>
    obtain ⟨hcdi, hout⟩ := hl.pc
    simp only [doTick]
    exact inv_doGetDi h hl.ri hl.wi hcdi hout
  | init3 ds =>
    obtain ⟨hds, hcdi, hout⟩ := hl.pc
    simp only [doTick]
    refine Inv.mkLive rfl h.st h.main h.fin ⟨hl.ri, hl.wi, hl.outst, ?_⟩
    refine ⟨?_, ?_, hcdi, hout⟩
    · rw [List.map_map, ← hds]
      show List.map (fun i => i) ds = ds
      simp
    · intro p hp
      obtain ⟨j, _, rfl⟩ := List.mem_map.mp hp
      rfl
  | moving todo =>
    simp only [doTick]
    exact inv_doMove h hl.ri hl.wi hl.pc
  | movingBackup todo =>
    have hmov : MovInv c.st m todo := hl.pc
    simp only [doTick]
    refine Inv.mkLive rfl (h.st.setSi _) ?_ h.fin ⟨hl.ri, hl.wi, hl.outst, ?_⟩
    · intro q hq; exact h.main q hq
    · exact pcInv_afterMove hmov
  | fin1 i k => exact absurd hl.pc id
  | fin2 i k => exact absurd hl.pc id
  | fin3 i k => exact absurd hl.pc id

/-- every label preserves the invariant: operations, continuation ticks and crashes alike -/
theorem inv_fire {c : Cfg} (h : Inv c) (l : Label) : Inv (fire c l) := by
  cases l with
  | crash => exact Inv.mkDead rfl h.st h.main h.fin
  | start =>
    simp only [fire]; split
    · exact inv_doStart h
    · exact h
  | tick =>
    simp only [fire]; split
    · next m pc heq => exact inv_doTick h (h.live m pc heq)
    · exact h
  | offer r =>
    simp only [fire]; split
    · next m heq => exact inv_doOffer h heq r
    · exact h
  | read =>
    simp only [fire]; split
    · next m heq => exact inv_doRead h (h.live m _ heq)
    · exact h
  | done i oc =>
    simp only [fire]; split
    · next m heq => exact inv_doDone h (h.live m _ heq) i oc
    · exact h
  | shutdown =>
    simp only [fire]; split
    · next m heq => exact inv_doShutdown h (h.live m _ heq)
    · exact h
  | wake =>
    simp only [fire]; split
    · next m heq => exact inv_doWake h heq
    · exact h
  | cancel j =>
    simp only [fire]; split
    · next m heq => exact inv_doCancel h heq j
    · exact h
  | promote j =>
    simp only [fire]; split
    · next m heq =>
      unfold doPromote
      split
      · exact h
      · exact Inv.mkLive rfl h.st h.main h.fin (((h.live m _ heq).waiting _).of_eq rfl rfl)
    · exact h

theorem inv_foldl (ls : List Label) : ∀ c, Inv c → Inv (ls.foldl fire c) := by
  induction ls with
  | nil => intro c h; exact h
  | cons l ls ih => intro c h; exact ih _ (inv_fire h l)

theorem inv_run (k : Conf) (ls : List Label) : Inv (run k ls) := inv_foldl ls _ (inv_init k)

end OtelVerif.C01
