import OtelVerif.Lemmas.C01Distinct
/-!
# C01 — the queue machine never inspects the identity of a request

`Req.id` is a ghost identity: `fire` stores, moves and returns requests and looks only at `Req.size` (through the sizer).
Formally: renaming the ids by ANY function commutes with `fire` (`fire_ren`), hence with `run`.  Consequence: every script
is the image, under a renaming, of a script whose offers are pairwise different (`exists_distinct_preimage`) — so the
per-request reading of the theorems (`C01_no_loss_distinct`), proved for scripts with pairwise different offers, loses no
generality.
-/
namespace OtelVerif.C01

def Req.ren (f : Nat → Nat) (r : Req) : Req := ⟨f r.id, r.size⟩

def Store.ren (f : Nat → Nat) (s : Store) : Store := { s with items := fun j => (s.items j).map (Req.ren f) }

def renTodo (f : Nat → Nat) (todo : List (Nat × Option Req)) : List (Nat × Option Req) :=
  todo.map (fun p => (p.1, p.2.map (Req.ren f)))

def Mem.ren (f : Nat → Nat) (m : Mem) : Mem :=
  { m with outst := m.outst.map (fun p => (p.1, p.2.ren f)), waiting := m.waiting.map (Req.ren f) }

def Pc.ren (f : Nat → Nat) : Pc → Pc
  | .readRet i r => .readRet i (r.ren f)
  | .moving todo => .moving (renTodo f todo)
  | .movingBackup todo => .movingBackup (renTodo f todo)
  | pc => pc

def Phase.ren (f : Nat → Nat) : Phase → Phase
  | .dead => .dead
  | .live m pc => .live (m.ren f) (pc.ren f)

def Res.ren (f : Nat → Nat) : Res → Res
  | .readItem i r => .readItem i (r.ren f)
  | x => x

def Cfg.ren (f : Nat → Nat) (c : Cfg) : Cfg :=
  { k := c.k, st := c.st.ren f, ph := c.ph.ren f, accepted := c.accepted.map (Req.ren f),
    handed := c.handed.map (Req.ren f), finalised := c.finalised.map (Req.ren f), calls := c.calls, res := c.res.ren f }

def Label.ren (f : Nat → Nat) : Label → Label
  | .offer r => .offer (r.ren f)
  | l => l

variable (f : Nat → Nat)

@[simp] theorem sizeof_ren (k : Conf) (r : Req) : k.sizeof (r.ren f) = k.sizeof r := rfl

theorem upd_ren (items : Nat → Option Req) (i : Nat) (v : Option Req) :
    upd (fun j => (items j).map (Req.ren f)) i (v.map (Req.ren f)) = fun j => (upd items i v j).map (Req.ren f) := by
  funext j
  unfold upd
  split <;> rfl

theorem lookup_ren (i : Nat) : ∀ l : List (Nat × Req),
    (l.map (fun p => (p.1, p.2.ren f))).lookup i = (l.lookup i).map (Req.ren f)
  | [] => rfl
  | (a, b) :: t => by
    simp only [List.map_cons, List.lookup]
    cases i == a
    · exact lookup_ren i t
    · rfl

theorem filter_ren (i : Nat) (l : List (Nat × Req)) :
    (l.map (fun p => (p.1, p.2.ren f))).filter (fun p => p.1 != i) =
      (l.filter (fun p => p.1 != i)).map (fun p => (p.1, p.2.ren f)) := by
  induction l with
  | nil => rfl
  | cons p t ih =>
    simp only [List.map_cons, List.filter_cons]
    split
    · simp [ih]
    · exact ih

theorem renTodo_fst (todo : List (Nat × Option Req)) : (renTodo f todo).map Prod.fst = todo.map Prod.fst := by
  unfold renTodo; simp [List.map_map, Function.comp_def]

theorem afterMove_ren (todo : List (Nat × Option Req)) : afterMove (renTodo f todo) = (afterMove todo).ren f := by
  cases todo <;> rfl

/-! ### the store operations -/

theorem putB_ren (s : Store) (w : Nat) (r : Req) : (s.ren f).putB w (r.ren f) = (s.putB w r).ren f := by
  unfold Store.putB Store.ren
  simp only
  congr 1
  exact upd_ren f s.items w (some r)

theorem finB_ren (s : Store) (cdi : List Nat) (i : Nat) : (s.ren f).finB cdi i = (s.finB cdi i).ren f := by
  unfold Store.finB Store.ren
  simp only
  congr 1
  exact upd_ren f s.items i none

theorem delB_ren (s : Store) (i : Nat) : (s.ren f).delB i = (s.delB i).ren f := by
  unfold Store.delB Store.ren
  simp only
  congr 1
  exact upd_ren f s.items i none

theorem moveB_ren (s : Store) (w : Nat) (r : Req) (i : Nat) (rest : List Nat) :
    (s.ren f).moveB w (r.ren f) i rest = (s.moveB w r i rest).ren f := by
  unfold Store.moveB Store.ren
  simp only
  congr 1
  have h1 := upd_ren f s.items w (some r)
  simp only [Option.map_some] at h1
  rw [h1]
  exact upd_ren f (upd s.items w (some r)) i none

/-! ### the operations -/

@[simp] theorem ren_R (s : Store) : (s.ren f).R = s.R := rfl
@[simp] theorem ren_W (s : Store) : (s.ren f).W = s.W := rfl

theorem pc_ite_ren (b : Bool) (p q : Pc) : (if b = true then p else q).ren f = if b = true then p.ren f else q.ren f := by
  cases b <;> rfl

theorem doPut_ren (c : Cfg) (m : Mem) (r : Req) : doPut (c.ren f) (m.ren f) (r.ren f) = (doPut c m r).ren f := by
  unfold doPut
  simp only [Cfg.ren, Phase.ren, Res.ren, List.map_cons, sizeof_ren, ← putB_ren, pc_ite_ren]
  rfl

theorem map_eraseIdx' {α β : Type} (g : α → β) : ∀ (l : List α) (j : Nat), (l.map g).eraseIdx j = (l.eraseIdx j).map g
  | [], _ => rfl
  | _ :: _, 0 => rfl
  | a :: t, j + 1 => by simp only [List.map_cons, List.eraseIdx_cons_succ, map_eraseIdx' g t j]

macro "ren_fin" : tactic =>
  `(tactic| first | rfl | (simp [Cfg.ren, Phase.ren, Mem.ren, Pc.ren, Res.ren, Store.ren, renTodo, map_eraseIdx']))

theorem doOfferFull_ren (c : Cfg) (m : Mem) (r : Req) :
    doOfferFull (c.ren f) (m.ren f) (r.ren f) = (doOfferFull c m r).ren f := by
  unfold doOfferFull
  have hk : (c.ren f).k = c.k := rfl
  simp only [hk, sizeof_ren]
  by_cases h1 : c.k.block = false
  · simp only [h1, if_true]; ren_fin
  · simp only [h1, if_false]
    by_cases h2 : c.k.sizeof r > c.k.cap
    · simp only [h2, if_true]; ren_fin
    · simp only [h2, if_false]; ren_fin

theorem doOffer_ren (c : Cfg) (m : Mem) (r : Req) : doOffer (c.ren f) (m.ren f) (r.ren f) = (doOffer c m r).ren f := by
  unfold doOffer
  have hk : (c.ren f).k = c.k := rfl
  have hs : (m.ren f).size = m.size := rfl
  simp only [hk, hs, sizeof_ren]
  by_cases h : m.size + c.k.sizeof r > c.k.cap
  · simp only [h, if_true]; exact doOfferFull_ren f c m r
  · simp only [h, if_false]; exact doPut_ren f c m r

theorem doWake_ren (c : Cfg) (m : Mem) : doWake (c.ren f) (m.ren f) = (doWake c m).ren f := by
  unfold doWake
  have hk : (c.ren f).k = c.k := rfl
  have hs : (m.ren f).size = m.size := rfl
  have hw : (m.ren f).waiting = m.waiting.map (Req.ren f) := rfl
  rw [hw]
  cases hm : m.waiting with
  | nil => rfl
  | cons r rest =>
    simp only [List.map_cons, hk, hs, sizeof_ren]
    by_cases h : m.size + c.k.sizeof r > c.k.cap
    · simp only [h, if_true]; ren_fin
    · simp only [h, if_false]
      have := doPut_ren f c { m with waiting := rest } r
      rw [← this]; rfl

theorem doPromote_ren (c : Cfg) (m : Mem) (j : Nat) : doPromote (c.ren f) (m.ren f) j = (doPromote c m j).ren f := by
  unfold doPromote
  have hw : (m.ren f).waiting = m.waiting.map (Req.ren f) := rfl
  rw [hw, List.getElem?_map]
  cases hm : m.waiting[j]? with
  | none => rfl
  | some r => simp only [Option.map_some]; ren_fin

theorem doCancel_ren (c : Cfg) (m : Mem) (j : Nat) : doCancel (c.ren f) (m.ren f) j = (doCancel c m j).ren f := by
  unfold doCancel; ren_fin

theorem doRead_ren (c : Cfg) (m : Mem) : doRead (c.ren f) (m.ren f) = (doRead c m).ren f := by
  unfold doRead
  have h1 : (m.ren f).stopped = m.stopped := rfl
  have h2 : (m.ren f).ri = m.ri := rfl
  have h3 : (m.ren f).wi = m.wi := rfl
  simp only [h1, h2, h3]
  by_cases hs : m.stopped = true
  · simp only [hs, if_true]; ren_fin
  · simp only [hs, if_false]
    by_cases he : m.ri = m.wi
    · simp only [he, if_true]; ren_fin
    · simp only [he, if_false]
      have hi : (c.ren f).st.items m.ri = (c.st.items m.ri).map (Req.ren f) := rfl
      cases hit : c.st.items m.ri with
      | none => rw [hit] at hi; simp only [hi]; ren_fin
      | some r => rw [hit] at hi; simp only [hi, Option.map_some]; ren_fin

theorem doDone_ren (c : Cfg) (m : Mem) (i : Nat) (oc : Outcome) :
    doDone (c.ren f) (m.ren f) i oc = (doDone c m i oc).ren f := by
  unfold doDone
  have ho : (m.ren f).outst = m.outst.map (fun p => (p.1, p.2.ren f)) := rfl
  rw [ho, lookup_ren]
  cases hl : m.outst.lookup i with
  | none => rfl
  | some r =>
    simp only [Option.map_some]
    cases oc with
    | shutdownErr => simp only [filter_ren]; ren_fin
    | final =>
      have hk : (c.ren f).k = c.k := rfl
      have hst : (c.ren f).st = c.st.ren f := rfl
      simp only [filter_ren, hk, hst, sizeof_ren, finB_ren]
      simp only [Cfg.ren, Phase.ren, Mem.ren, Res.ren, pc_ite_ren, List.map_cons]
      rfl

theorem doShutdown_ren (c : Cfg) (m : Mem) : doShutdown (c.ren f) (m.ren f) = (doShutdown c m).ren f := by
  unfold doShutdown
  have hk : (c.ren f).k = c.k := rfl
  simp only [hk]
  cases c.k.reqSized <;> ren_fin

theorem doStart_ren (c : Cfg) : doStart (c.ren f) = (doStart c).ren f := by
  unfold doStart; ren_fin

theorem doGetDi_ren (c : Cfg) (m : Mem) : doGetDi (c.ren f) (m.ren f) = (doGetDi c m).ren f := by
  unfold doGetDi
  have hd : (c.ren f).st.di = c.st.di := rfl
  rw [hd]
  cases c.st.di <;> ren_fin

theorem doMove_ren (c : Cfg) (m : Mem) (todo : List (Nat × Option Req)) :
    doMove (c.ren f) (m.ren f) (renTodo f todo) = (doMove c m todo).ren f := by
  cases todo with
  | nil => rfl
  | cons p rest =>
    rcases p with ⟨i, o⟩
    have hk : (c.ren f).k = c.k := rfl
    have hst : (c.ren f).st = c.st.ren f := rfl
    cases o with
    | none =>
      simp only [renTodo, List.map_cons, Option.map_none, doMove]
      rw [show List.map (fun p : Nat × Option Req => (p.1, Option.map (Req.ren f) p.2)) rest = renTodo f rest from rfl]
      simp only [hst, renTodo_fst, finB_ren, afterMove_ren]
      ren_fin
    | some r =>
      simp only [renTodo, List.map_cons, Option.map_some, doMove]
      rw [show List.map (fun p : Nat × Option Req => (p.1, Option.map (Req.ren f) p.2)) rest = renTodo f rest from rfl]
      have hw : (m.ren f).wi = m.wi := rfl
      simp only [hk, hst, hw, sizeof_ren, renTodo_fst, moveB_ren, afterMove_ren]
      by_cases hb : writeBackupDue c.k (m.wi + 1) = true
      · simp only [hb, if_true]; ren_fin
      · simp only [hb, if_false]; ren_fin

theorem finCont_ren (k : Conf) (m : Mem) (fk : FinK) : finCont k (m.ren f) fk = (finCont k m fk).ren f := by
  cases fk
  · rfl
  · simp only [finCont]
    have : (m.ren f).ri = m.ri := rfl
    rw [this, pc_ite_ren]; rfl

theorem doTick_ren (c : Cfg) (m : Mem) (pc : Pc) : doTick (c.ren f) (m.ren f) (pc.ren f) = (doTick c m pc).ren f := by
  have hk : (c.ren f).k = c.k := rfl
  have hst : (c.ren f).st = c.st.ren f := rfl
  cases pc with
  | idle => rfl
  | backup => simp only [Pc.ren, doTick]; ren_fin
  | readRet i r => simp only [Pc.ren, doTick]; ren_fin
  | readFin i => simp only [Pc.ren, doTick, hst, finB_ren]; ren_fin
  | readLoop => exact doRead_ren f c m
  | init1 =>
    simp only [Pc.ren, doTick, hk]
    have hs : (m.ren f).size = m.size := rfl
    rw [hs]
    by_cases h : m.size > 0 ∧ c.k.reqSized = false
    · simp only [h, and_self, if_true]; ren_fin
    · simp only [h, if_false]; exact doGetDi_ren f c m
  | init2 => exact doGetDi_ren f c m
  | init3 ds =>
    simp only [Pc.ren, doTick]
    have : ds.map (fun i => (i, (c.ren f).st.items i)) = renTodo f (ds.map (fun i => (i, c.st.items i))) := by
      unfold renTodo; rw [List.map_map]; rfl
    rw [this]; ren_fin
  | moving todo => exact doMove_ren f c m todo
  | movingBackup todo => simp only [Pc.ren, doTick, afterMove_ren]; ren_fin
  | fin1 i fk =>
    simp only [Pc.ren, doTick, hk, hst, finCont_ren]
    have : (m.ren f).cdi = m.cdi := rfl
    rw [this, finB_ren]; ren_fin
  | fin2 i fk => simp only [Pc.ren, doTick, hst, delB_ren]; ren_fin
  | fin3 i fk => simp only [Pc.ren, doTick, hk, finCont_ren]; ren_fin

/-- **Id-blindness.**  Renaming the request ids by any function commutes with every label of the queue machine. -/
theorem fire_ren (c : Cfg) (l : Label) : fire (c.ren f) (l.ren f) = (fire c l).ren f := by
  have hph : (c.ren f).ph = c.ph.ren f := rfl
  cases l with
  | crash => rfl
  | start =>
    simp only [Label.ren, fire, hph]
    cases c.ph with
    | dead => exact doStart_ren f c
    | live m pc => rfl
  | tick =>
    simp only [Label.ren, fire, hph]
    cases c.ph with
    | dead => rfl
    | live m pc => exact doTick_ren f c m pc
  | offer r =>
    simp only [Label.ren, fire, hph]
    cases c.ph with
    | dead => rfl
    | live m pc => cases pc <;> first | exact doOffer_ren f c m r | rfl
  | read =>
    simp only [Label.ren, fire, hph]
    cases c.ph with
    | dead => rfl
    | live m pc => cases pc <;> first | exact doRead_ren f c m | rfl
  | done i oc =>
    simp only [Label.ren, fire, hph]
    cases c.ph with
    | dead => rfl
    | live m pc => cases pc <;> first | exact doDone_ren f c m i oc | rfl
  | shutdown =>
    simp only [Label.ren, fire, hph]
    cases c.ph with
    | dead => rfl
    | live m pc => cases pc <;> first | exact doShutdown_ren f c m | rfl
  | wake =>
    simp only [Label.ren, fire, hph]
    cases c.ph with
    | dead => rfl
    | live m pc => cases pc <;> first | exact doWake_ren f c m | rfl
  | cancel j =>
    simp only [Label.ren, fire, hph]
    cases c.ph with
    | dead => rfl
    | live m pc => cases pc <;> first | exact doCancel_ren f c m j | rfl
  | promote j =>
    simp only [Label.ren, fire, hph]
    cases c.ph with
    | dead => rfl
    | live m pc => cases pc <;> first | exact doPromote_ren f c m j | rfl

theorem foldl_ren (ls : List Label) : ∀ c : Cfg, (ls.map (Label.ren f)).foldl fire (c.ren f) = (ls.foldl fire c).ren f := by
  induction ls with
  | nil => intro c; rfl
  | cons l ls ih => intro c; simp only [List.map_cons, List.foldl_cons]; rw [fire_ren, ih]

theorem run_ren (k : Conf) (ls : List Label) : run k (ls.map (Label.ren f)) = (run k ls).ren f := by
  unfold run
  have : init k = (init k).ren f := rfl
  rw [this, foldl_ren]
  rfl

/-! ### every script is the image of a script with pairwise different offers -/

/-- give the offers the ids `n, n+1, …` in order of appearance -/
def tagOffers : Nat → List Label → List Label
  | _, [] => []
  | n, .offer r :: ls => .offer ⟨n, r.size⟩ :: tagOffers (n + 1) ls
  | n, l :: ls => l :: tagOffers n ls

/-- the renaming that undoes `tagOffers n`: tag `n + j` ↦ id of the j-th offer -/
def untag (n : Nat) (ls : List Label) (t : Nat) : Nat := (((offeredOf ls)[t - n]?).map Req.id).getD 0

theorem offeredOf_tag : ∀ (n : Nat) (ls : List Label),
    (offeredOf (tagOffers n ls)).map Req.id = List.range' n (offeredOf ls).length
  | _, [] => rfl
  | n, l :: ls => by
    cases l with
    | offer r =>
      simp only [tagOffers, offeredOf, List.map_cons, List.length_cons, List.range'_succ]
      rw [offeredOf_tag (n + 1) ls]
    | _ => simp only [tagOffers, offeredOf]; exact offeredOf_tag n ls

theorem tagOffers_nodup (n : Nat) (ls : List Label) : (offeredOf (tagOffers n ls)).Nodup := by
  have h := offeredOf_tag n ls
  have hn : ((offeredOf (tagOffers n ls)).map Req.id).Nodup := by rw [h]; exact List.nodup_range'
  exact List.Pairwise.of_map Req.id (fun a b h e => h (by rw [e])) hn

theorem ren_nonoffer (g : Nat → Nat) (l : Label) (h : ∀ r, l ≠ .offer r) : l.ren g = l := by
  cases l with
  | offer r => exact absurd rfl (h r)
  | _ => rfl

theorem untag_map : ∀ (ls : List Label) (n : Nat) (g : Nat → Nat),
    (∀ j, j < (offeredOf ls).length → g (n + j) = (((offeredOf ls)[j]?).map Req.id).getD 0) →
    (tagOffers n ls).map (Label.ren g) = ls
  | [], _, _, _ => rfl
  | l :: ls, n, g, h => by
    cases l with
    | offer r =>
      simp only [tagOffers, List.map_cons, Label.ren, Req.ren]
      have h0 : g n = r.id := by
        have := h 0 (by simp [offeredOf])
        simpa [offeredOf] using this
      have ht := untag_map ls (n + 1) g (by
        intro j hj
        have := h (j + 1) (by simp [offeredOf]; omega)
        have e : n + 1 + j = n + (j + 1) := by omega
        rw [e, this]; simp [offeredOf])
      rw [h0, ht]
    | crash => simp only [tagOffers, List.map_cons]; rw [untag_map ls n g (by simpa [offeredOf] using h)]; rfl
    | start => simp only [tagOffers, List.map_cons]; rw [untag_map ls n g (by simpa [offeredOf] using h)]; rfl
    | tick => simp only [tagOffers, List.map_cons]; rw [untag_map ls n g (by simpa [offeredOf] using h)]; rfl
    | read => simp only [tagOffers, List.map_cons]; rw [untag_map ls n g (by simpa [offeredOf] using h)]; rfl
    | done i oc => simp only [tagOffers, List.map_cons]; rw [untag_map ls n g (by simpa [offeredOf] using h)]; rfl
    | shutdown => simp only [tagOffers, List.map_cons]; rw [untag_map ls n g (by simpa [offeredOf] using h)]; rfl
    | wake => simp only [tagOffers, List.map_cons]; rw [untag_map ls n g (by simpa [offeredOf] using h)]; rfl
    | cancel j => simp only [tagOffers, List.map_cons]; rw [untag_map ls n g (by simpa [offeredOf] using h)]; rfl
    | promote j => simp only [tagOffers, List.map_cons]; rw [untag_map ls n g (by simpa [offeredOf] using h)]; rfl

/-- every script is the image, under a renaming of the ids, of a script whose offers are pairwise different -/
theorem exists_distinct_preimage (ls : List Label) :
    (offeredOf (tagOffers 0 ls)).Nodup ∧ (tagOffers 0 ls).map (Label.ren (untag 0 ls)) = ls :=
  ⟨tagOffers_nodup 0 ls, untag_map ls 0 (untag 0 ls) (by intro j _; simp [untag])⟩

end OtelVerif.C01
