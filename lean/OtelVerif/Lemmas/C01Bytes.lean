import OtelVerif.Model.C01Bytes
import OtelVerif.Lemmas.C01
import OtelVerif.Lemmas.C01Codec
import Std.Data.String.ToNat
/-! the abstract store is exactly what start-up decodes from the bytes the code writes -/
namespace OtelVerif.C01
open OtelVerif.Gen Codec

/-- the regenerated key names as character lists -/
def genKeyLists : List (List Char) :=
  [PQKeys.readIndexKey.toList, PQKeys.writeIndexKey.toList, PQKeys.queueSizeKey.toList, PQKeys.dispatchedKey.toList]

/-- pairwise different, and each contains a character that is not a decimal digit (so none can be an item key) -/
def genKeysOK : Bool :=
  decide genKeyLists.Nodup && genKeyLists.all (fun k => k.any (fun c => !c.isDigit))

theorem ne_of_toList_ne {a b : String} (h : a.toList ≠ b.toList) : a ≠ b := fun e => h (e ▸ rfl)

theorem itemKey_ne_of_nondigit (i : Nat) (k : String) (hk : k.toList.any (fun c => !c.isDigit) = true) :
    itemKey i ≠ k := by
  intro h
  obtain ⟨c, hc, hnd⟩ := List.any_eq_true.mp hk
  have h1 : (Nat.repr i).toList = k.toList := by unfold itemKey at h; rw [h]
  rw [Nat.toList_repr] at h1
  have hd := Nat.isDigit_of_mem_toDigits (b := 10) (by decide) (by decide) (h1 ▸ hc)
  simp [hd] at hnd

theorem itemKey_toNat (i : Nat) : (itemKey i).toNat? = some i := Nat.toNat?_repr i

structure GenKeysFacts : Prop where
  rw : PQKeys.writeIndexKey ≠ PQKeys.readIndexKey
  sr : PQKeys.queueSizeKey ≠ PQKeys.readIndexKey
  sw : PQKeys.queueSizeKey ≠ PQKeys.writeIndexKey
  dr : PQKeys.dispatchedKey ≠ PQKeys.readIndexKey
  dw : PQKeys.dispatchedKey ≠ PQKeys.writeIndexKey
  ds : PQKeys.dispatchedKey ≠ PQKeys.queueSizeKey
  nr : PQKeys.readIndexKey.toList.any (fun c => !c.isDigit) = true
  nw : PQKeys.writeIndexKey.toList.any (fun c => !c.isDigit) = true
  ns : PQKeys.queueSizeKey.toList.any (fun c => !c.isDigit) = true
  nd : PQKeys.dispatchedKey.toList.any (fun c => !c.isDigit) = true

theorem genKeysFacts : GenKeysFacts :=
  ⟨ne_of_toList_ne (by decide), ne_of_toList_ne (by decide), ne_of_toList_ne (by decide),
   ne_of_toList_ne (by decide), ne_of_toList_ne (by decide), ne_of_toList_ne (by decide),
   by decide, by decide, by decide, by decide⟩

theorem enc_ri (rc : ReqCodec) (s : Store) : encodeStore rc s PQKeys.readIndexKey = s.ri.map itemIndexToBytes := by
  simp [encodeStore]

theorem enc_wi (rc : ReqCodec) (s : Store) : encodeStore rc s PQKeys.writeIndexKey = s.wi.map itemIndexToBytes := by
  simp [encodeStore, genKeysFacts.rw]

theorem enc_di (rc : ReqCodec) (s : Store) : encodeStore rc s PQKeys.dispatchedKey = some (itemIndexArrayToBytes s.di) := by
  simp [encodeStore, genKeysFacts.dr, genKeysFacts.dw, genKeysFacts.ds]

theorem enc_item (rc : ReqCodec) (s : Store) (i : Nat) : encodeStore rc s (itemKey i) = (s.items i).map rc.enc := by
  have g := genKeysFacts
  simp [encodeStore, itemKey_ne_of_nondigit i _ g.nr, itemKey_ne_of_nondigit i _ g.nw,
    itemKey_ne_of_nondigit i _ g.ns, itemKey_ne_of_nondigit i _ g.nd, itemKey_toNat]

theorem readIndexes_encode (rc : ReqCodec) (s : Store) (hopt : s.wi = none → s.ri = none)
    (hr : ∀ v, s.ri = some v → v < 2 ^ 64) (hw : ∀ v, s.wi = some v → v < 2 ^ 64) :
    readIndexes (encodeStore rc s) = (s.R, s.W) := by
  unfold readIndexes
  rw [enc_ri, enc_wi]
  cases hwi : s.wi with
  | none =>
    have hri := hopt hwi
    simp [hri, bytesToItemIndex, Store.R, Store.W, hwi]
  | some w =>
    have hwb := hw w hwi
    cases hri : s.ri with
    | none =>
      have h2 := index_codec w hwb
      simp only [Option.map_none, Option.map_some, h2, Store.R, Store.W, hwi, hri, Option.getD_some, Option.getD_none]
      simp [bytesToItemIndex]
    | some r =>
      have hrb := hr r hri
      have h1 := index_codec r hrb
      have h2 := index_codec w hwb
      simp only [Option.map_some, h1, h2, Store.R, Store.W, hwi, hri, Option.getD_some]

theorem readDi_encode (rc : ReqCodec) (s : Store) (hlen : s.di.length < 2 ^ 32) (hx : ∀ x ∈ s.di, x < 2 ^ 64) :
    readDi (encodeStore rc s) = s.di := by
  unfold readDi
  rw [enc_di]
  simp only [index_array_codec s.di hlen hx]

theorem readItem_encode (rc : ReqCodec) (s : Store) (i : Nat) : readItem rc (encodeStore rc s) i = s.items i := by
  unfold readItem readItemWith
  rw [enc_item]
  cases s.items i with
  | none => rfl
  | some r => simp [rc.law]

end OtelVerif.C01
