import OtelVerif.Model.C01Codec
/-! helper lemmas for the index codecs of C01 -/
namespace OtelVerif.C01.Codec

theorem length_leBytes : ∀ (n v : Nat), (leBytes n v).length = n
  | 0, _ => rfl
  | n + 1, v => by simp [leBytes, length_leBytes n]

theorem leVal_leBytes : ∀ (n v : Nat), leVal (leBytes n v) = v % 256 ^ n
  | 0, v => by simp [leBytes, leVal, Nat.mod_one]
  | n + 1, v => by
    simp only [leBytes, leVal]
    rw [leVal_leBytes n, Nat.pow_succ', Nat.mod_mul]

theorem take_leBytes_append (n v : Nat) (rest : List Nat) : (leBytes n v ++ rest).take n = leBytes n v := by
  have h := length_leBytes n v
  rw [List.take_append_of_le_length (by omega)]
  exact List.take_of_length_le (by omega)

theorem drop_leBytes_append (n v : Nat) (rest : List Nat) : (leBytes n v ++ rest).drop n = rest := by
  have h := length_leBytes n v
  rw [List.drop_append_of_le_length (by omega)]
  rw [List.drop_of_length_le (by omega)]
  rfl

theorem length_flatMap_leBytes : ∀ (xs : List Nat), (xs.flatMap (leBytes 8)).length = xs.length * 8
  | [] => rfl
  | x :: xs => by
    rw [List.flatMap_cons, List.length_append, length_leBytes, length_flatMap_leBytes xs, List.length_cons]
    omega

theorem chunks_flatMap : ∀ (xs : List Nat), (∀ x ∈ xs, x < 2 ^ 64) →
    chunks xs.length (xs.flatMap (leBytes 8)) = xs
  | [], _ => rfl
  | x :: xs, h => by
    rw [List.flatMap_cons, List.length_cons]
    simp only [chunks]
    rw [take_leBytes_append, drop_leBytes_append, leVal_leBytes, chunks_flatMap xs (fun y hy => h y (List.mem_cons_of_mem _ hy))]
    have hx := h x List.mem_cons_self
    have : (256 : Nat) ^ 8 = 2 ^ 64 := by decide
    rw [this, Nat.mod_eq_of_lt hx]

theorem index_codec (v : Nat) (h : v < 2 ^ 64) : bytesToItemIndex (some (itemIndexToBytes v)) = .ok v := by
  unfold bytesToItemIndex itemIndexToBytes
  have hl := length_leBytes 8 v
  simp only [hl, Nat.lt_irrefl, if_false]
  rw [List.take_of_length_le (by omega), leVal_leBytes]
  have : (256 : Nat) ^ 8 = 2 ^ 64 := by decide
  rw [this, Nat.mod_eq_of_lt h]

theorem index_array_codec (xs : List Nat) (hlen : xs.length < 2 ^ 32) (hx : ∀ x ∈ xs, x < 2 ^ 64) :
    bytesToItemIndexArray (itemIndexArrayToBytes xs) = .ok xs := by
  unfold bytesToItemIndexArray itemIndexArrayToBytes
  have h4 := length_leBytes 4 xs.length
  have hlenb : (leBytes 4 xs.length ++ xs.flatMap (leBytes 8)).length = 4 + xs.length * 8 := by
    rw [List.length_append, h4, length_flatMap_leBytes]
  have hsize : leVal ((leBytes 4 xs.length ++ xs.flatMap (leBytes 8)).take 4) = xs.length := by
    rw [take_leBytes_append, leVal_leBytes]
    have : (256 : Nat) ^ 4 = 2 ^ 32 := by decide
    rw [this, Nat.mod_eq_of_lt hlen]
  have hdrop : (leBytes 4 xs.length ++ xs.flatMap (leBytes 8)).drop 4 = xs.flatMap (leBytes 8) :=
    drop_leBytes_append 4 _ _
  rw [if_neg (by omega), if_neg (by omega)]
  dsimp only
  rw [hsize, hdrop]
  cases xs with
  | nil => rfl
  | cons x t =>
    rw [if_neg (by simp), if_neg (by rw [length_flatMap_leBytes]; omega)]
    rw [chunks_flatMap _ hx]


end OtelVerif.C01.Codec
