import OtelVerif.Model.C01Codec
/-! helper lemmas for the index codecs of C01 -/
namespace OtelVerif.C01.Codec

theorem length_leBytes : ∀ (n v : Nat), (leBytes n v).length = n
  | 0, _ => rfl
  | n + 1, v => by simp [leBytes, length_leBytes n]

theorem leVal_leBytes : ∀ (n v : Nat), leVal (leBytes n v) = v % 256 ^ n
  | 0, v => by simp [leBytes, leVal, Nat.mod_one]
  | n + 1, v => by
    simp only [leBytes, leVal]
    rw [leVal_leBytes n, Nat.pow_succ', Nat.mod_mul]

theorem take_leBytes_append (n v : Nat) (rest : List Nat) : (leBytes n v ++ rest).take n = leBytes n v := by
  have h := length_leBytes n v
  rw [List.take_append_of_le_length (by omega)]
  exact List.take_of_length_le (by omega)

theorem drop_leBytes_append (n v : Nat) (rest : List Nat) : (leBytes n v ++ rest).drop n = rest := by
  have h := length_leBytes n v
  rw [List.drop_append_of_le_length (by omega)]
  rw [List.drop_of_length_le (by omega)]
  rfl

theorem length_flatMap_leBytes : ∀ (xs : List Nat), (xs.flatMap (leBytes 8)).length = xs.length * 8
  | [] => rfl
  | x :: xs => by
    rw [List.flatMap_cons, List.length_append, length_leBytes, length_flatMap_leBytes xs, List.length_cons]
    omega

theorem chunks_flatMap : ∀ (xs : List Nat), (∀ x ∈ xs, x < 2 ^ 64) →
    chunks xs.length (xs.flatMap (leBytes 8)) = xs
  | [], _ => rfl
  | x :: xs, h => by
    rw [List.flatMap_cons, List.length_cons]
    simp only [chunks]
    rw [take_leBytes_append, drop_leBytes_append, leVal_leBytes, chunks_flatMap xs (fun y hy => h y (List.mem_cons_of_mem _ hy))]
    have hx := h x List.mem_cons_self
    have : (256 : Nat) ^ 8 = 2 ^ 64 := by decide
    rw [this, Nat.mod_eq_of_lt hx]

end OtelVerif.C01.Codec
