import OtelVerif.Lemmas.C01Drain
/-!
# C01 — identity of requests

The histories `accepted / handed / finalised` are lists of request VALUES (`id`, `size`).  The `id` is the request's
identity: a script that offers pairwise different requests (every real history is one — two equal payloads are still two
requests; the harness always offers fresh ids) has a duplicate-free `accepted`, so "∀ r ∈ accepted" speaks about each
accepted request separately.  This file proves that: distinct offers ⇒ `accepted` (and the blocked offers) duplicate-free.
-/
namespace OtelVerif.C01

def offeredOf : List Label → List Req
  | [] => []
  | .offer r :: ls => r :: offeredOf ls
  | _ :: ls => offeredOf ls

def waitingOf (c : Cfg) : List Req :=
  match c.ph with
  | .live m _ => m.waiting
  | .dead => []

/-- accepted requests and blocked offers together -/
def aw (c : Cfg) : List Req := c.accepted ++ waitingOf c

theorem doRead_waiting (c : Cfg) (m : Mem) : waitingOf (doRead c m) = m.waiting := by
  unfold doRead; split
  · rfl
  · split <;> rfl

theorem doGetDi_waiting (c : Cfg) (m : Mem) : waitingOf (doGetDi c m) = m.waiting := by
  unfold doGetDi; split <;> rfl

theorem doMove_waiting (c : Cfg) (m : Mem) (todo : List (Nat × Option Req)) : waitingOf (doMove c m todo) = m.waiting := by
  unfold doMove; split <;> rfl

theorem doDone_waiting (c : Cfg) (m : Mem) (i : Nat) (oc : Outcome) (h : c.ph = .live m .idle) :
    waitingOf (doDone c m i oc) = m.waiting := by
  unfold doDone; split
  · simp [waitingOf, h]
  · cases oc <;> rfl

theorem doTick_waiting (c : Cfg) (m : Mem) (pc : Pc) (h : c.ph = .live m pc) : waitingOf (doTick c m pc) = m.waiting := by
  cases pc <;> simp only [doTick]
  any_goals rfl
  · simp [waitingOf, h]
  · exact doRead_waiting c m
  · split
    · rfl
    · exact doGetDi_waiting c m
  · exact doGetDi_waiting c m
  · exact doMove_waiting c m _

/-- labels other than `offer`, `wake`, `cancel`, `crash` change neither `accepted` nor the blocked offers -/
theorem aw_plain (c : Cfg) (l : Label) (hl : match l with | .read | .done _ _ | .shutdown | .start | .tick => True | _ => False) :
    aw (fire c l) = aw c := by
  unfold aw
  cases l with
  | offer r => cases hl
  | wake => cases hl
  | cancel j => cases hl
  | promote j => cases hl
  | crash => cases hl
  | read =>
    simp only [fire]; split
    · next m heq => rw [doRead_accepted, doRead_waiting]; simp [waitingOf, heq]
    · rfl
  | done i oc =>
    simp only [fire]; split
    · next m heq => rw [doDone_accepted, doDone_waiting _ _ _ _ heq]; simp [waitingOf, heq]
    · rfl
  | shutdown =>
    simp only [fire]; split
    · next m heq => simp [doShutdown, waitingOf, heq]
    · rfl
  | start =>
    simp only [fire]; split
    · next heq => simp [doStart, waitingOf, heq]
    · rfl
  | tick =>
    simp only [fire]; split
    · next m pc heq => rw [doTick_accepted, doTick_waiting _ _ _ heq]; simp [waitingOf, heq]
    · rfl

theorem cons_eraseIdx_perm {α : Type} : ∀ {l : List α} {j : Nat} {r : α}, l[j]? = some r → (r :: l.eraseIdx j).Perm l
  | [], _, _, h => by simp at h
  | a :: t, 0, r, h => by
    simp at h; subst h; simp
  | a :: t, j + 1, r, h => by
    have ih := cons_eraseIdx_perm (l := t) (j := j) (r := r) (by simpa using h)
    simp only [List.eraseIdx_cons_succ]
    exact (List.Perm.swap a r _).trans (List.Perm.cons a ih)

/-- duplicate-free, and everything comes from the offers seen so far -/
structure DInv (seen : List Req) (c : Cfg) : Prop where
  nodup : (aw c).Nodup
  sub : ∀ r ∈ aw c, r ∈ seen

theorem dinv_of_perm_sub {seen : List Req} {l l' : List Req} (hn : l.Nodup) (hs : ∀ r ∈ l, r ∈ seen)
    (h : ∃ t, l'.Perm t ∧ t.Sublist l) : l'.Nodup ∧ ∀ r ∈ l', r ∈ seen := by
  obtain ⟨t, hp, hsub⟩ := h
  refine ⟨hp.nodup_iff.mpr (hsub.nodup hn), ?_⟩
  intro r hr
  exact hs r (hsub.subset (hp.subset hr))

theorem dinv_step {seen : List Req} {c : Cfg} (h : DInv seen c) (l : Label) :
    match l with
    | .offer r => r ∉ seen → DInv (r :: seen) (fire c l)
    | _ => DInv seen (fire c l) := by
  have hmono : ∀ r, DInv seen (fire c (.offer r)) → DInv (r :: seen) (fire c (.offer r)) :=
    fun r d => ⟨d.nodup, fun x hx => List.mem_cons_of_mem _ (d.sub x hx)⟩
  cases l with
  | read => dsimp only; have := aw_plain c .read trivial; exact ⟨by rw [this]; exact h.nodup, by rw [this]; exact h.sub⟩
  | done i oc => dsimp only; have := aw_plain c (.done i oc) trivial; exact ⟨by rw [this]; exact h.nodup, by rw [this]; exact h.sub⟩
  | shutdown => dsimp only; have := aw_plain c .shutdown trivial; exact ⟨by rw [this]; exact h.nodup, by rw [this]; exact h.sub⟩
  | start => dsimp only; have := aw_plain c .start trivial; exact ⟨by rw [this]; exact h.nodup, by rw [this]; exact h.sub⟩
  | tick => dsimp only; have := aw_plain c .tick trivial; exact ⟨by rw [this]; exact h.nodup, by rw [this]; exact h.sub⟩
  | crash =>
    dsimp only
    have : aw (fire c .crash) = c.accepted := by simp [aw, fire, waitingOf]
    obtain ⟨h1, h2⟩ := dinv_of_perm_sub h.nodup h.sub (l' := c.accepted) ⟨c.accepted, List.Perm.refl _, List.sublist_append_left _ _⟩
    exact ⟨by rw [this]; exact h1, by rw [this]; exact h2⟩
  | cancel j =>
    dsimp only
    simp only [fire]; split
    · next m heq =>
      have e : aw (doCancel c m j) = c.accepted ++ m.waiting.eraseIdx j := rfl
      have e0 : aw c = c.accepted ++ m.waiting := by simp [aw, waitingOf, heq]
      obtain ⟨h1, h2⟩ := dinv_of_perm_sub (seen := seen) (l := aw c) h.nodup h.sub (l' := c.accepted ++ m.waiting.eraseIdx j)
        ⟨_, List.Perm.refl _, by rw [e0]; exact List.Sublist.append_left (List.eraseIdx_sublist _ _) _⟩
      exact ⟨by rw [e]; exact h1, by rw [e]; exact h2⟩
    · exact h
  | promote j =>
    dsimp only
    simp only [fire]; split
    · next m heq =>
      have e0 : aw c = c.accepted ++ m.waiting := by simp [aw, waitingOf, heq]
      unfold doPromote
      split
      · exact h
      · next r hr =>
        have e : aw { c with ph := .live { m with waiting := r :: m.waiting.eraseIdx j } .idle } = c.accepted ++ (r :: m.waiting.eraseIdx j) := rfl
        obtain ⟨h1, h2⟩ := dinv_of_perm_sub (seen := seen) (l := aw c) h.nodup h.sub (l' := c.accepted ++ (r :: m.waiting.eraseIdx j))
          ⟨_, by rw [e0]; exact List.Perm.append_left _ (cons_eraseIdx_perm hr), List.Sublist.refl _⟩
        exact ⟨by rw [e]; exact h1, by rw [e]; exact h2⟩
    · exact h
  | wake =>
    dsimp only
    simp only [fire]; split
    · next m heq =>
      have e0 : aw c = c.accepted ++ m.waiting := by simp [aw, waitingOf, heq]
      unfold doWake
      split
      · exact h
      · next r rest hw =>
        rw [hw] at e0
        split
        · have e : aw { c with ph := .live { m with waiting := rest ++ [r] } .idle, res := .offerBlocked } = c.accepted ++ (rest ++ [r]) := rfl
          obtain ⟨h1, h2⟩ := dinv_of_perm_sub (seen := seen) (l := aw c) h.nodup h.sub (l' := c.accepted ++ (rest ++ [r]))
            ⟨_, by rw [e0]; exact List.Perm.append_left _ (List.perm_append_singleton r rest), List.Sublist.refl _⟩
          exact ⟨by rw [e]; exact h1, by rw [e]; exact h2⟩
        · have e : aw (doPut c { m with waiting := rest } r) = (r :: c.accepted) ++ rest := rfl
          obtain ⟨h1, h2⟩ := dinv_of_perm_sub (seen := seen) (l := aw c) h.nodup h.sub (l' := (r :: c.accepted) ++ rest)
            ⟨_, by rw [e0]; exact (List.perm_middle).symm, List.Sublist.refl _⟩
          exact ⟨by rw [e]; exact h1, by rw [e]; exact h2⟩
    · exact h
  | offer r =>
    dsimp only
    intro hr
    have hraw : r ∉ aw c := fun hm => hr (h.sub r hm)
    have hcons : (r :: aw c).Nodup := List.nodup_cons.mpr ⟨hraw, h.nodup⟩
    have hsubc : ∀ x ∈ r :: aw c, x ∈ r :: seen := by
      intro x hx
      rw [List.mem_cons] at hx ⊢
      rcases hx with e | hx
      · exact Or.inl e
      · exact Or.inr (h.sub x hx)
    simp only [fire]; split
    · next m heq =>
      have e0 : aw c = c.accepted ++ m.waiting := by simp [aw, waitingOf, heq]
      unfold doOffer
      split
      · unfold doOfferFull
        have hsame : DInv (r :: seen) c := ⟨h.nodup, fun x hx => List.mem_cons_of_mem _ (h.sub x hx)⟩
        split
        · exact ⟨hsame.nodup, hsame.sub⟩
        · split
          · exact ⟨hsame.nodup, hsame.sub⟩
          · have e : aw { c with ph := .live { m with waiting := m.waiting ++ [r] } .idle, res := .offerBlocked } = c.accepted ++ (m.waiting ++ [r]) := rfl
            obtain ⟨h1, h2⟩ := dinv_of_perm_sub (seen := r :: seen) (l := r :: aw c) hcons hsubc (l' := c.accepted ++ (m.waiting ++ [r]))
              ⟨_, by
                  rw [e0]
                  exact (List.Perm.append_left _ (List.perm_append_singleton r m.waiting)).trans List.perm_middle,
                List.Sublist.refl _⟩
            exact ⟨by rw [e]; exact h1, by rw [e]; exact h2⟩
      · have e : aw (doPut c m r) = r :: (c.accepted ++ m.waiting) := rfl
        rw [← e0] at e
        exact ⟨by rw [e]; exact hcons, by rw [e]; exact hsubc⟩
    · exact ⟨h.nodup, fun x hx => List.mem_cons_of_mem _ (h.sub x hx)⟩

theorem dinv_foldl : ∀ (ls : List Label) (seen : List Req) (c : Cfg), DInv seen c → (offeredOf ls).Nodup →
    (∀ r ∈ offeredOf ls, r ∉ seen) → ∃ seen', DInv seen' (ls.foldl fire c)
  | [], seen, c, h, _, _ => ⟨seen, h⟩
  | l :: ls, seen, c, h, hn, hs => by
    have step := dinv_step h l
    cases l with
    | offer r =>
      simp only [offeredOf, List.nodup_cons] at hn
      have hr : r ∉ seen := hs r (by simp [offeredOf])
      refine dinv_foldl ls (r :: seen) _ (step hr) hn.2 ?_
      intro x hx
      rw [List.mem_cons, not_or]
      exact ⟨fun e => hn.1 (e ▸ hx), hs x (by simp [offeredOf, hx])⟩
    | read => exact dinv_foldl ls seen _ step hn hs
    | done i oc => exact dinv_foldl ls seen _ step hn hs
    | shutdown => exact dinv_foldl ls seen _ step hn hs
    | start => exact dinv_foldl ls seen _ step hn hs
    | tick => exact dinv_foldl ls seen _ step hn hs
    | crash => exact dinv_foldl ls seen _ step hn hs
    | wake => exact dinv_foldl ls seen _ step hn hs
    | cancel j => exact dinv_foldl ls seen _ step hn hs
    | promote j => exact dinv_foldl ls seen _ step hn hs

theorem accepted_nodup_of_distinct_offers (k : Conf) (ls : List Label) (h : (offeredOf ls).Nodup) :
    (run k ls).accepted.Nodup := by
  obtain ⟨seen, d⟩ := dinv_foldl ls [] (init k) ⟨by simp [aw, init, waitingOf], by intro r hr; simp [aw, init, waitingOf] at hr⟩ h
    (by intro r _ hm; cases hm)
  exact (List.nodup_append.mp d.nodup).1

end OtelVerif.C01
