import OtelVerif.Lemmas.C01
/-!
# C01 — restart and drain: after a (further) death, a complete start-up and a complete drain the durable
queue is empty (`ri = wi`, `di = []`), whatever reachable configuration one starts from.
-/
namespace OtelVerif.C01

def ticks : Nat → Cfg → Cfg
  | 0, c => c
  | n + 1, c => ticks n (fire c .tick)

/-- the process dies (if it is alive), then a new incarnation runs its whole start-up: `2·|di| + 4` ticks
    cover every storage call of `Start` (extra ticks in an idle incarnation do nothing) -/
def restart (c : Cfg) : Cfg := ticks (2 * c.st.di.length + 4) (fire (fire c .crash) .start)

/-- one consumer round: `Read`, its return, `Done(final)`, and the possible size back-up -/
def drainStep (c : Cfg) : Cfg :=
  let c1 := fire (fire c .read) .tick
  match c1.res with
  | .readItem i _ => fire (fire c1 (.done i .final)) .tick
  | _ => c1

def drain : Nat → Cfg → Cfg
  | 0, c => c
  | n + 1, c => drain n (drainStep c)

/-- as many consumer rounds as there are queued items -/
def drainAll (c : Cfg) : Cfg := drain (c.st.W - c.st.R) c

/-- a started, idle, not stopped incarnation with nothing left dispatched -/
def Ready (c : Cfg) : Prop := ∃ m, c.ph = .live m .idle ∧ m.stopped = false ∧ m.outst = [] ∧ c.st.di = []

theorem fire_tick {c : Cfg} {m : Mem} {pc : Pc} (h : c.ph = .live m pc) : fire c .tick = doTick c m pc := by
  simp only [fire, h]

theorem ticks_idle {m : Mem} : ∀ (n : Nat) {c : Cfg}, c.ph = .live m .idle → ticks n c = c
  | 0, _, _ => rfl
  | n + 1, c, h => by
    have : fire c .tick = c := by rw [fire_tick h]; rfl
    simp only [ticks]; rw [this]; exact ticks_idle n h

/-! ### `accepted` is changed by `offer` only -/

theorem doRead_accepted (c : Cfg) (m : Mem) : (doRead c m).accepted = c.accepted := by
  unfold doRead; split
  · rfl
  · split <;> rfl

theorem doGetDi_accepted (c : Cfg) (m : Mem) : (doGetDi c m).accepted = c.accepted := by
  unfold doGetDi; split <;> rfl

theorem doMove_accepted (c : Cfg) (m : Mem) (todo : List (Nat × Option Req)) : (doMove c m todo).accepted = c.accepted := by
  unfold doMove; split <;> rfl

theorem doDone_accepted (c : Cfg) (m : Mem) (i : Nat) (oc : Outcome) : (doDone c m i oc).accepted = c.accepted := by
  unfold doDone; split
  · rfl
  · cases oc <;> rfl

theorem doTick_accepted (c : Cfg) (m : Mem) (pc : Pc) : (doTick c m pc).accepted = c.accepted := by
  cases pc <;> simp only [doTick]
  · exact doRead_accepted c m
  · split
    · rfl
    · exact doGetDi_accepted c m
  · exact doGetDi_accepted c m
  · exact doMove_accepted c m _

theorem tick_accepted (c : Cfg) : (fire c .tick).accepted = c.accepted := by
  simp only [fire]; split
  · exact doTick_accepted c _ _
  · rfl

theorem ticks_accepted : ∀ (n : Nat) (c : Cfg), (ticks n c).accepted = c.accepted
  | 0, _ => rfl
  | n + 1, c => by simp only [ticks]; rw [ticks_accepted n, tick_accepted]

theorem restart_accepted (c : Cfg) : (restart c).accepted = c.accepted := by
  unfold restart
  rw [ticks_accepted]
  simp only [fire]
  rfl

theorem read_accepted (c : Cfg) : (fire c .read).accepted = c.accepted := by
  simp only [fire]; split
  · exact doRead_accepted c _
  · rfl

theorem done_accepted (c : Cfg) (i : Nat) (oc : Outcome) : (fire c (.done i oc)).accepted = c.accepted := by
  simp only [fire]; split
  · exact doDone_accepted c _ i oc
  · rfl

theorem drainStep_accepted (c : Cfg) : (drainStep c).accepted = c.accepted := by
  unfold drainStep
  dsimp only
  split
  · rw [tick_accepted, done_accepted, tick_accepted, read_accepted]
  · rw [tick_accepted, read_accepted]

theorem drain_accepted : ∀ (n : Nat) (c : Cfg), (drain n c).accepted = c.accepted
  | 0, _ => rfl
  | n + 1, c => by simp only [drain]; rw [drain_accepted n, drainStep_accepted]

/-! ### start-up always completes -/

theorem inv_ticks : ∀ (n : Nat) {c : Cfg}, Inv c → Inv (ticks n c)
  | 0, _, h => h
  | n + 1, _, h => inv_ticks n (inv_fire h .tick)

theorem ready_of_idle {c : Cfg} {m : Mem} (hi : Inv c) (h : c.ph = .live m .idle) (hs : m.stopped = false)
    (ho : m.outst = []) (hc : m.cdi = []) : Ready c := by
  refine ⟨m, h, hs, ho, ?_⟩
  have : m.cdi = c.st.di := (hi.live m _ h).pc
  rw [← this, hc]

/-- the recovery loop terminates in a ready incarnation -/
theorem moving_ready : ∀ (todo : List (Nat × Option Req)) (n : Nat) (c : Cfg) (m : Mem), Inv c →
    c.ph = .live m (.moving todo) → m.stopped = false → n ≥ 2 * todo.length + 1 → Ready (ticks n c) := by
  intro todo
  induction todo with
  | nil =>
    intro n c m hi hph hs hn
    obtain ⟨n', rfl⟩ : ∃ n', n = n' + 1 := ⟨n - 1, by omega⟩
    obtain ⟨_, _, hcdi, hout⟩ : MovInv c.st m [] := (hi.live m _ hph).pc
    have hi' := inv_fire hi .tick
    simp only [ticks]
    rw [fire_tick hph] at hi' ⊢
    have hph' : (doTick c m (.moving [])).ph = .live m .idle := rfl
    rw [ticks_idle n' hph']
    exact ready_of_idle hi' hph' hs hout hcdi
  | cons p rest ih =>
    intro n c m hi hph hs hn
    obtain ⟨i, v⟩ := p
    simp only [List.length_cons] at hn
    obtain ⟨n', rfl⟩ : ∃ n', n = n' + 1 := ⟨n - 1, by omega⟩
    obtain ⟨_, _, hcdi, hout⟩ : MovInv c.st m ((i, v) :: rest) := (hi.live m _ hph).pc
    have hi1 := inv_fire hi .tick
    simp only [ticks]
    rw [fire_tick hph] at hi1 ⊢
    -- after the move batch: continue with `rest` (possibly after one size back-up)
    have after : ∀ (c1 : Cfg) (m1 : Mem) (k : Nat), Inv c1 → c1.ph = .live m1 (afterMove rest) → m1.stopped = false →
        m1.cdi = [] → m1.outst = [] → k ≥ 2 * rest.length + 1 → Ready (ticks k c1) := by
      intro c1 m1 k hic hp1 hs1 hc1 ho1 hk
      cases rest with
      | nil =>
        have hp1' : c1.ph = .live m1 .idle := hp1
        rw [ticks_idle k hp1']
        exact ready_of_idle hic hp1' hs1 ho1 hc1
      | cons q t => exact ih k c1 m1 hic hp1 hs1 hk
    cases v with
    | none =>
      have hp1 : (doTick c m (.moving ((i, none) :: rest))).ph = .live m (afterMove rest) := rfl
      exact after _ m n' hi1 hp1 hs hcdi hout (by omega)
    | some r =>
      by_cases hb : writeBackupDue c.k (m.wi + 1) = true
      · have hp1 : (doTick c m (.moving ((i, some r) :: rest))).ph =
            .live { m with wi := m.wi + 1, size := m.size + c.k.sizeof r } (.movingBackup rest) := by
          simp only [doTick, doMove, hb, if_true]
        obtain ⟨n'', rfl⟩ : ∃ n'', n' = n'' + 1 := ⟨n' - 1, by omega⟩
        have hi2 := inv_fire hi1 .tick
        simp only [ticks]
        rw [fire_tick hp1] at hi2 ⊢
        exact after _ _ n'' hi2 rfl hs hcdi hout (by omega)
      · have hp1 : (doTick c m (.moving ((i, some r) :: rest))).ph =
            .live { m with wi := m.wi + 1, size := m.size + c.k.sizeof r } (afterMove rest) := by
          simp only [doTick, doMove, hb]
          rfl
        exact after _ _ n' hi1 hp1 hs hcdi hout (by omega)


theorem getDi_ready {c : Cfg} {m : Mem} (n : Nat) (hi : Inv c) (hri : m.ri = c.st.R) (hwi : m.wi = c.st.W)
    (hs : m.stopped = false) (hcdi : m.cdi = []) (hout : m.outst = []) (hn : n ≥ 2 * c.st.di.length + 2) :
    Ready (ticks n (doGetDi c m)) := by
  have hi1 := inv_doGetDi hi hri hwi hcdi hout
  cases hd : c.st.di with
  | nil =>
    have hp : (doGetDi c m).ph = .live m .idle := by simp only [doGetDi, hd]
    rw [ticks_idle n hp]
    exact ready_of_idle hi1 hp hs hout hcdi
  | cons d ds =>
    have hp : (doGetDi c m).ph = .live m (.init3 (d :: ds)) := by simp only [doGetDi, hd]
    have hst : (doGetDi c m).st = c.st := by simp only [doGetDi, hd]
    rw [hd] at hn
    obtain ⟨n', rfl⟩ : ∃ n', n = n' + 1 := ⟨n - 1, by omega⟩
    have hi2 := inv_fire hi1 .tick
    simp only [ticks]
    rw [fire_tick hp] at hi2 ⊢
    refine moving_ready _ n' _ m hi2 rfl hs ?_
    simp only [List.length_map, List.length_cons] at hn ⊢
    omega

theorem init1_ready {c1 : Cfg} {m0 : Mem} (n : Nat) (hi1 : Inv c1) (hp1 : c1.ph = .live m0 .init1)
    (hm_ri : m0.ri = c1.st.R) (hm_wi : m0.wi = c1.st.W) (hm_s : m0.stopped = false) (hm_c : m0.cdi = [])
    (hm_o : m0.outst = []) (hn : n ≥ 2 * c1.st.di.length + 4) : Ready (ticks n c1) := by
  obtain ⟨n', rfl⟩ : ∃ n', n = n' + 1 := ⟨n - 1, by omega⟩
  have hi2 := inv_fire hi1 .tick
  simp only [ticks]
  rw [fire_tick hp1] at hi2 ⊢
  simp only [doTick] at hi2 ⊢
  by_cases hcond : m0.size > 0 ∧ c1.k.reqSized = false
  · rw [if_pos hcond] at hi2 ⊢
    obtain ⟨n'', rfl⟩ : ∃ n'', n' = n'' + 1 := ⟨n' - 1, by omega⟩
    generalize hc2 : ({ c1 with calls := c1.calls + 1, ph := .live { m0 with size := c1.st.si.getD m0.size } .init2 } : Cfg) = c2 at hi2 ⊢
    have hp2 : c2.ph = .live { m0 with size := c1.st.si.getD m0.size } .init2 := by rw [← hc2]
    have hst2 : c2.st = c1.st := by rw [← hc2]
    simp only [ticks]
    rw [fire_tick hp2]
    simp only [doTick]
    exact getDi_ready _ hi2 (by rw [hst2]; exact hm_ri) (by rw [hst2]; exact hm_wi) hm_s hm_c hm_o (by rw [hst2]; omega)
  · rw [if_neg hcond] at hi2 ⊢
    exact getDi_ready _ hi1 hm_ri hm_wi hm_s hm_c hm_o (by omega)

/-- whatever the reachable configuration: after a death and a complete start-up the incarnation is ready -/
theorem restart_ready {c : Cfg} (hi : Inv c) : Ready (restart c) ∧ Inv (restart c) := by
  refine ⟨?_, inv_ticks _ (inv_fire (inv_fire hi .crash) .start)⟩
  unfold restart
  have hi0 : Inv (fire c .crash) := inv_fire hi .crash
  have hst0 : (fire c .crash).st = c.st := rfl
  have hph0 : (fire c .crash).ph = .dead := rfl
  generalize fire c .crash = c0 at hi0 hst0 hph0
  have hfs : fire c0 .start = doStart c0 := by simp only [fire, hph0]
  rw [hfs, ← hst0]
  exact init1_ready (m0 := { ri := c0.st.R, wi := c0.st.W, size := c0.st.W - c0.st.R }) _ (inv_doStart hi0) rfl rfl rfl rfl rfl rfl
    (by show _ ≥ 2 * c0.st.di.length + 4; omega)

theorem tick_readRet {c : Cfg} {m : Mem} {i : Nat} {r : Req} (h : c.ph = .live m (.readRet i r)) :
    fire c .tick = { c with ph := .live { m with outst := (i, r) :: m.outst } .idle, handed := r :: c.handed, res := .readItem i r } := by
  rw [fire_tick h]; rfl

theorem done_final_single {c : Cfg} {m : Mem} {i : Nat} {r : Req} (h : c.ph = .live m .idle)
    (ho : m.outst = [(i, r)]) (hc : m.cdi = [i]) :
    (fire c (.done i .final)).st = c.st.finB [] i ∧
    ∃ m3 pc3, (fire c (.done i .final)).ph = .live m3 pc3 ∧ (pc3 = .idle ∨ pc3 = .backup) ∧
      m3.stopped = m.stopped ∧ m3.outst = [] ∧ (fire c (.done i .final)).handed = c.handed := by
  have e : fire c (.done i .final) = doDone c m i .final := by simp only [fire, h]
  rw [e]
  have hl : m.outst.lookup i = some r := by rw [ho]; simp [List.lookup]
  have hsw : swapRemove m.cdi i = [] := by rw [hc]; simp [swapRemove]
  have hf : m.outst.filter (fun p => p.1 != i) = [] := by rw [ho]; simp
  simp only [doDone, hl, hsw, hf]
  refine ⟨trivial, _, _, rfl, ?_, rfl, rfl, trivial⟩
  split
  · right; rfl
  · left; rfl

theorem tick_idle_or_backup {c : Cfg} {m : Mem} {pc : Pc} (h : c.ph = .live m pc) (hpc : pc = .idle ∨ pc = .backup) :
    (fire c .tick).ph = .live m .idle ∧ (fire c .tick).st.di = c.st.di ∧ (fire c .tick).st.R = c.st.R ∧
    (fire c .tick).st.W = c.st.W ∧ (fire c .tick).handed = c.handed ∧ (fire c .tick).st.items = c.st.items := by
  rw [fire_tick h]
  rcases hpc with rfl | rfl
  · exact ⟨h, rfl, rfl, rfl, rfl, rfl⟩
  · exact ⟨rfl, rfl, rfl, rfl, rfl, rfl⟩

theorem drainStep_spec {c : Cfg} (hi : Inv c) (hr : Ready c) (hlt : c.st.R < c.st.W) :
    Ready (drainStep c) ∧ (drainStep c).st.R = c.st.R + 1 ∧ (drainStep c).st.W = c.st.W ∧
    (∃ r, c.st.items c.st.R = some r ∧ (drainStep c).handed = r :: c.handed) ∧
    (∀ j, j ≠ c.st.R → (drainStep c).st.items j = c.st.items j) := by
  obtain ⟨m, hph, hs, ho, hdi⟩ := hr
  have hl := hi.live m _ hph
  have hcdi : m.cdi = [] := by have : m.cdi = c.st.di := hl.pc; rw [this, hdi]
  have hri := hl.ri
  have hwi := hl.wi
  obtain ⟨r, hitem⟩ := Option.isSome_iff_exists.mp (hi.st.full c.st.R (Nat.le_refl _) hlt)
  have hne : m.ri ≠ m.wi := by omega
  have hitem' := hitem
  rw [← hri] at hitem
  have e1 : fire c .read = doRead c m := by simp only [fire, hph]
  have hp1 : (doRead c m).ph = .live { m with ri := m.ri + 1, cdi := m.cdi ++ [m.ri], size := if m.ri + 1 = m.wi then 0 else m.size } (.readRet m.ri r) := by
    simp only [doRead, hs, hne, hitem]
    simp
  have hst1 : (doRead c m).st = c.st.getB (m.ri + 1) (m.cdi ++ [m.ri]) := by
    simp only [doRead, hs, hne]
    simp
  have hh1 : (doRead c m).handed = c.handed := by
    simp only [doRead, hs, hne]
    simp
  unfold drainStep
  dsimp only
  rw [e1]
  generalize doRead c m = c1 at hp1 hst1 hh1
  rw [tick_readRet hp1]
  dsimp only
  generalize hc2 : ({ c1 with ph := .live { ri := m.ri + 1, wi := m.wi, cdi := m.cdi ++ [m.ri], size := if m.ri + 1 = m.wi then 0 else m.size, stopped := m.stopped, outst := (m.ri, r) :: m.outst, waiting := m.waiting } .idle, handed := r :: c1.handed, res := .readItem m.ri r } : Cfg) = c2
  have hp2 : c2.ph = .live { ri := m.ri + 1, wi := m.wi, cdi := m.cdi ++ [m.ri], size := if m.ri + 1 = m.wi then 0 else m.size, stopped := m.stopped, outst := (m.ri, r) :: m.outst, waiting := m.waiting } .idle := by rw [← hc2]
  have hst2 : c2.st = c1.st := by rw [← hc2]
  have hh2 : c2.handed = r :: c1.handed := by rw [← hc2]
  obtain ⟨hst3, m3, pc3, hp3, hpc3, hs3, ho3, hh3⟩ := done_final_single hp2 (by rw [ho]) (by rw [hcdi]; rfl)
  obtain ⟨hp4, hdi4, hR4, hW4, hh4, hit4⟩ := tick_idle_or_backup hp3 hpc3
  have hR1 : (c.st.getB (m.ri + 1) (m.cdi ++ [m.ri])).R = m.ri + 1 := getB_R hlt _ _
  refine ⟨⟨m3, hp4, by rw [hs3]; exact hs, ho3, ?_⟩, ?_, ?_, ⟨r, hitem', ?_⟩, ?_⟩
  · rw [hdi4, hst3]; rfl
  · rw [hR4, hst3, finB_R, hst2, hst1, hR1, hri]
  · rw [hW4, hst3, finB_W, hst2, hst1, getB_W]
  · rw [hh4, hh3, hh2, hh1]
  · intro j hj
    rw [hit4, hst3, finB_items, upd_ne _ _ (by rw [hri]; exact hj), hst2, hst1, getB_items]

theorem inv_drainStep {c : Cfg} (hi : Inv c) : Inv (drainStep c) := by
  unfold drainStep
  dsimp only
  split
  · exact inv_fire (inv_fire (inv_fire (inv_fire hi .read) .tick) _) .tick
  · exact inv_fire (inv_fire hi .read) .tick

/-- a complete drain of a ready incarnation empties the durable queue and hands over every queued item -/
theorem drain_spec : ∀ (n : Nat) (c : Cfg), Inv c → Ready c → c.st.W - c.st.R = n →
    Ready (drain n c) ∧ Inv (drain n c) ∧ (drain n c).st.R = (drain n c).st.W ∧
    (∀ q ∈ c.handed, q ∈ (drain n c).handed) ∧
    (∀ j q, c.st.R ≤ j → j < c.st.W → c.st.items j = some q → q ∈ (drain n c).handed) := by
  intro n
  induction n with
  | zero =>
    intro c hi hr hn
    have := hi.st.le
    exact ⟨hr, hi, by show c.st.R = c.st.W; omega, fun q hq => hq, fun j q h1 h2 _ => by omega⟩
  | succ n ih =>
    intro c hi hr hn
    have hlt : c.st.R < c.st.W := by omega
    obtain ⟨hr1, hR1, hW1, ⟨r, hitem, hh1⟩, hit1⟩ := drainStep_spec hi hr hlt
    obtain ⟨hrN, hiN, hRW, hmono, hall⟩ := ih (drainStep c) (inv_drainStep hi) hr1 (by omega)
    refine ⟨hrN, hiN, hRW, ?_, ?_⟩
    · intro q hq; exact hmono q (by rw [hh1]; exact List.mem_cons_of_mem _ hq)
    · intro j q h1 h2 hq
      by_cases hj : j = c.st.R
      · subst hj
        have : q = r := by rw [hitem] at hq; injection hq with e; exact e.symm
        subst this
        exact hmono q (by rw [hh1]; exact List.mem_cons_self)
      · exact hall j q (by omega) (by omega) (by rw [hit1 j hj]; exact hq)

/-! ### recoverable requests stay recoverable while an operation continues -/

theorem recov_doTick {c : Cfg} {m : Mem} {pc : Pc} (h : Inv c) (hl : LiveInv c m pc) {q : Req}
    (hq : Recoverable c.st q) : Recoverable (doTick c m pc).st q := by
  cases pc with
  | idle => exact hq
  | backup => exact hq
  | readRet i r => exact hq
  | readFin i =>
    obtain ⟨hcdi, hit, hiR⟩ := hl.pc
    simp only [doTick]
    rw [hcdi]
    exact hq.finB_ne h.st i hiR (by rw [hit]; simp)
  | readLoop =>
    have hcdi : m.cdi = c.st.di := hl.pc
    simp only [doTick, doRead]
    split
    · exact hq
    · split
      · exact hq
      · next hne =>
        have hle := h.st.le
        have hlt : c.st.R < c.st.W := by have := hl.ri; have := hl.wi; omega
        dsimp only
        rw [hl.ri, hcdi]
        exact hq.getB hlt
  | init1 =>
    simp only [doTick]
    split
    · exact hq
    · unfold doGetDi; split <;> exact hq
  | init2 =>
    simp only [doTick]
    unfold doGetDi; split <;> exact hq
  | init3 ds => exact hq
  | moving todo =>
    obtain ⟨hmap, hval, _, _⟩ : MovInv c.st m todo := hl.pc
    simp only [doTick]
    unfold doMove
    split
    · exact hq
    · next i rest =>
      have hd : c.st.di = i :: rest.map Prod.fst := by rw [← hmap]; rfl
      exact hq.finB_head hd (hval (i, none) (by simp))
    · next i r rest =>
      have hd : c.st.di = i :: rest.map Prod.fst := by rw [← hmap]; rfl
      dsimp only
      rw [hl.wi]
      exact hq.moveB h.st hd (hval (i, some r) (by simp))
  | movingBackup todo => exact hq
  | fin1 i k => exact absurd hl.pc id
  | fin2 i k => exact absurd hl.pc id
  | fin3 i k => exact absurd hl.pc id

theorem recov_tick {c : Cfg} (h : Inv c) {q : Req} (hq : Recoverable c.st q) : Recoverable (fire c .tick).st q := by
  simp only [fire]; split
  · next m pc heq => exact recov_doTick h (h.live m pc heq) hq
  · exact hq

theorem recov_ticks : ∀ (n : Nat) {c : Cfg}, Inv c → ∀ {q : Req}, Recoverable c.st q → Recoverable (ticks n c).st q
  | 0, _, _, _, hq => hq
  | n + 1, _, h, _, hq => recov_ticks n (inv_fire h .tick) (recov_tick h hq)

theorem recov_restart {c : Cfg} (h : Inv c) {q : Req} (hq : Recoverable c.st q) : Recoverable (restart c).st q := by
  unfold restart
  refine recov_ticks _ (inv_fire (inv_fire h .crash) .start) ?_
  have : (fire (fire c .crash) .start).st = c.st := by
    simp only [fire]; rfl
  rw [this]; exact hq

/-- a fresh process on a store that satisfies the store invariant -/
theorem inv_fresh (k : Conf) {s : Store} (hs : StInv s) : Inv { k := k, st := s } := by
  refine Inv.mkDead rfl hs ?_ ?_
  · intro r hr; simp at hr
  · intro r hr; simp at hr

end OtelVerif.C01
