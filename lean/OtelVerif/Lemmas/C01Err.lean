import OtelVerif.Lemmas.C01
import OtelVerif.Model.C01Err
/-!
# C01 — invariant of the queue machine with storage errors (`Model/C01Err.lean`)

Under errors the in-memory state may run ahead of the stored one (`readIndex` advanced although the dequeue batch
failed; `di` in storage lists indexes the in-memory list no longer has, or — after a skipped recovery — indexes it
never had).  `InvR c drp` is what stays true: every accepted request is settled (finalised, or in the ghost list `drp`
of requests the code gave up at one of the four give-up points) or recoverable from storage; whatever the next write
of `di` will forget (`keep`) and whatever the next write of `ri` will skip (`skipped`) is settled already.
-/
namespace OtelVerif.C01

structure StInvE (s : Store) : Prop where
  opt : s.wi = none → s.ri = none
  le : s.R ≤ s.W
  dlt : ∀ i ∈ s.di, i < s.R
  nodup : s.di.Nodup

/-- the owner (if any) of the item stored under `j` is settled: finalised, or given up -/
def OS (s : Store) (fin drp : List Req) (j : Nat) : Prop :=
  ∀ r, s.items j = some r → r ∈ fin ∨ r ∈ drp

/-- the list the next write of `di` is computed from -/
def KL (s : Store) (m : Mem) : Pc → List Nat
  | .init1 => s.di
  | .init2 => s.di
  | .init3 _ => s.di
  | .moving todo => todo.map Prod.fst
  | .movingBackup todo => todo.map Prod.fst
  | .idle => m.cdi
  | .backup => m.cdi
  | .readRet _ _ => m.cdi
  | .readFin _ => m.cdi
  | .readLoop => m.cdi
  | .fin1 _ _ => m.cdi
  | .fin2 _ _ => m.cdi
  | .fin3 _ _ => m.cdi

def MovInvE (s : Store) (m : Mem) (todo : List (Nat × Option Req)) : Prop :=
  (∀ p ∈ todo, p.1 ∈ s.di ∧ s.items p.1 = p.2) ∧ (todo.map Prod.fst).Nodup ∧ m.cdi = [] ∧ m.outst = []

def PcInvE (s : Store) (fin drp : List Req) (m : Mem) : Pc → Prop
  | .idle => True
  | .backup => True
  | .readLoop => True
  | .readRet i r => s.items i = some r ∧ i ∈ m.cdi
  | .readFin i => s.items i = none
  | .fin1 i _ => OS s fin drp i ∧ i ∉ m.cdi
  | .fin2 i _ => OS s fin drp i ∧ i ∉ m.cdi
  | .fin3 i _ => OS s fin drp i ∧ i ∉ m.cdi
  | .init1 => m.cdi = [] ∧ m.outst = []
  | .init2 => m.cdi = [] ∧ m.outst = []
  | .init3 ds => ds = s.di ∧ m.cdi = [] ∧ m.outst = []
  | .moving todo => MovInvE s m todo
  | .movingBackup todo => MovInvE s m todo

structure LiveInvE (s : Store) (fin drp : List Req) (m : Mem) (pc : Pc) : Prop where
  wi : m.wi = s.W
  riLe : s.R ≤ m.ri
  riWi : m.ri ≤ m.wi
  skipped : ∀ j, s.R ≤ j → j < m.ri → OS s fin drp j
  cdiLt : ∀ j ∈ m.cdi, j < s.R
  cdiNodup : m.cdi.Nodup
  outst : ∀ p ∈ m.outst, s.items p.1 = some p.2 ∧ p.1 ∈ m.cdi
  keep : ∀ j ∈ s.di, j ∈ KL s m pc ∨ OS s fin drp j
  pc : PcInvE s fin drp m pc

structure InvR (c : Cfg) (drp : List Req) : Prop where
  st : StInvE c.st
  main : ∀ r ∈ c.accepted, (r ∈ c.finalised ∨ r ∈ drp) ∨ Recoverable c.st r
  live : ∀ m pc, c.ph = .live m pc → LiveInvE c.st c.finalised drp m pc

/-- after `Batch(get ri, get wi)` failed the code runs with fresh indexes over old data: nothing is claimed any more -/
def InvE (ce : CfgE) : Prop := ce.poisoned = true ∨ InvR ce.base ce.dropped

theorem InvR.mkLive {c : Cfg} {drp : List Req} {m : Mem} {pc : Pc} (hph : c.ph = .live m pc) (st : StInvE c.st)
    (main : ∀ r ∈ c.accepted, (r ∈ c.finalised ∨ r ∈ drp) ∨ Recoverable c.st r)
    (lv : LiveInvE c.st c.finalised drp m pc) : InvR c drp :=
  ⟨st, main, by intro m2 pc2 heq; rw [hph] at heq; cases heq; exact lv⟩

theorem InvR.mkDead {c : Cfg} {drp : List Req} (hph : c.ph = .dead) (st : StInvE c.st)
    (main : ∀ r ∈ c.accepted, (r ∈ c.finalised ∨ r ∈ drp) ∨ Recoverable c.st r) : InvR c drp :=
  ⟨st, main, by intro m2 pc2 heq; rw [hph] at heq; cases heq⟩

theorem OS.mono {s s' : Store} {fin fin' drp drp' : List Req} {j : Nat} (h : OS s fin drp j)
    (hit : ∀ r, s'.items j = some r → s.items j = some r)
    (hf : ∀ r, r ∈ fin → r ∈ fin') (hd : ∀ r, r ∈ drp → r ∈ drp') : OS s' fin' drp' j := by
  intro r hr
  rcases h r (hit r hr) with h1 | h1
  · left; exact hf r h1
  · right; exact hd r h1

/-- a step that leaves the store alone: memory, pc, `finalised`, `dropped` may move -/
theorem LiveInvE.mem_step {s : Store} {fin drp fin' drp' : List Req} {m m' : Mem} {pc pc' : Pc}
    (hl : LiveInvE s fin drp m pc)
    (hf : ∀ r, r ∈ fin → r ∈ fin') (hd : ∀ r, r ∈ drp → r ∈ drp')
    (hwi : m'.wi = m.wi) (hri1 : m.ri ≤ m'.ri) (hri2 : m'.ri ≤ m'.wi)
    (hskip : ∀ j, m.ri ≤ j → j < m'.ri → OS s fin' drp' j)
    (hcdi : ∀ j ∈ m'.cdi, j ∈ m.cdi) (hnd : m'.cdi.Nodup)
    (hout : ∀ p ∈ m'.outst, s.items p.1 = some p.2 ∧ p.1 ∈ m'.cdi)
    (hkeep : ∀ j ∈ s.di, j ∈ KL s m pc → j ∈ KL s m' pc' ∨ OS s fin' drp' j)
    (hpc : PcInvE s fin' drp' m' pc') : LiveInvE s fin' drp' m' pc' := by
  refine ⟨by rw [hwi]; exact hl.wi, Nat.le_trans hl.riLe hri1, hri2, ?_, fun j hj => hl.cdiLt j (hcdi j hj), hnd, hout, ?_, hpc⟩
  · intro j h1 h2
    by_cases hj : j < m.ri
    · exact (hl.skipped j h1 hj).mono (fun _ h => h) hf hd
    · exact hskip j (by omega) h2
  · intro j hj
    rcases hl.keep j hj with h | h
    · exact hkeep j hj h
    · right; exact h.mono (fun _ h => h) hf hd

theorem swapRemove_append_self : ∀ (l : List Nat) (i : Nat), i ∉ l → swapRemove (l ++ [i]) i = l
  | [], i, _ => by simp [swapRemove]
  | [a], i, h => by
    have : a ≠ i := by intro e; subst e; simp at h
    simp [swapRemove, this]
  | a :: b :: t, i, h => by
    have ha : a ≠ i := by intro e; subst e; simp at h
    have ht : i ∉ b :: t := fun hm => h (List.mem_cons_of_mem _ hm)
    have ih := swapRemove_append_self (b :: t) i ht
    simp only [List.cons_append] at ih ⊢
    simp only [swapRemove, ha, if_false]
    rw [ih]

/-! ### store lemmas for the weaker store invariant -/

theorem StInvE.putB {s : Store} (h : StInvE s) (r : Req) : StInvE (s.putB s.W r) := by
  have hR := putB_R h.opt s.W r
  refine ⟨by simp [Store.putB], ?_, ?_, h.nodup⟩
  · rw [hR, putB_W]; have := h.le; omega
  · intro i hi; rw [hR]; exact h.dlt i hi

theorem RecE.putB_old {s : Store} (h : StInvE s) {q : Req} (hq : Recoverable s q) (r : Req) :
    Recoverable (s.putB s.W r) q := by
  obtain ⟨i, hi, hc⟩ := hq
  have hne : i ≠ s.W := by
    rcases hc with hd | ⟨_, h2⟩
    · have := h.dlt i hd; have := h.le; omega
    · omega
  refine ⟨i, by rw [putB_items, upd_ne _ _ hne]; exact hi, ?_⟩
  rcases hc with hd | ⟨h1, h2⟩
  · left; exact hd
  · right; rw [putB_R h.opt, putB_W]; omega

theorem RecE.putB_new {s : Store} (h : StInvE s) (r : Req) : Recoverable (s.putB s.W r) r :=
  ⟨s.W, by simp, Or.inr (by rw [putB_R h.opt, putB_W]; have := h.le; omega)⟩

@[simp] theorem delB_W (s : Store) (i : Nat) : (s.delB i).W = s.W := rfl
@[simp] theorem delB_R (s : Store) (i : Nat) : (s.delB i).R = s.R := rfl
@[simp] theorem delB_di (s : Store) (i : Nat) : (s.delB i).di = s.di := rfl
@[simp] theorem delB_items (s : Store) (i : Nat) : (s.delB i).items = upd s.items i none := rfl
@[simp] theorem setDi_W (s : Store) (l : List Nat) : (s.setDi l).W = s.W := rfl
@[simp] theorem setDi_R (s : Store) (l : List Nat) : (s.setDi l).R = s.R := rfl
@[simp] theorem setDi_di (s : Store) (l : List Nat) : (s.setDi l).di = l := rfl
@[simp] theorem setDi_items (s : Store) (l : List Nat) : (s.setDi l).items = s.items := rfl

end OtelVerif.C01

namespace OtelVerif.C01

theorem not_mem_swapRemove_of_nodup : ∀ (l : List Nat) (x : Nat), l.Nodup → x ∉ swapRemove l x
  | [], _, _ => by simp [swapRemove]
  | [a], x, _ => by
    simp only [swapRemove]; split
    · simp
    · next h => simp; exact fun e => h e.symm
  | a :: b :: t, x, hn => by
    have hn' : (b :: t).Nodup := (List.nodup_cons.mp hn).2
    have ha : a ∉ b :: t := (List.nodup_cons.mp hn).1
    simp only [swapRemove]
    split
    · next hax =>
      subst hax
      intro hm
      rw [List.mem_cons] at hm
      rcases hm with h | h
      · exact ha (h ▸ List.getLast_mem _)
      · exact ha ((List.dropLast_sublist _).subset h)
    · next hax =>
      intro hm
      rw [List.mem_cons] at hm
      rcases hm with h | h
      · exact hax h.symm
      · exact not_mem_swapRemove_of_nodup (b :: t) x hn' h

theorem mem_itemsAt {s : Store} {l : List Nat} {j : Nat} {r : Req} (hj : j ∈ l) (hr : s.items j = some r) :
    r ∈ itemsAt s l := by
  unfold itemsAt
  exact List.mem_filterMap.mpr ⟨j, hj, hr⟩

/-- changing the list of blocked offers is invisible to the invariant -/
theorem LiveInvE.waiting {s : Store} {fin drp : List Req} {m : Mem} {pc : Pc} (hl : LiveInvE s fin drp m pc)
    (w : List Req) : LiveInvE s fin drp { m with waiting := w } pc :=
  ⟨hl.wi, hl.riLe, hl.riWi, hl.skipped, hl.cdiLt, hl.cdiNodup, hl.outst,
   by intro j hj; rcases hl.keep j hj with h | h
      · left; cases pc <;> exact h
      · right; exact h,
   by have := hl.pc; cases pc <;> exact this⟩

theorem LiveInvE.setSi {s : Store} {fin drp : List Req} {m : Mem} {pc : Pc} (hl : LiveInvE s fin drp m pc)
    (v : Nat) : LiveInvE (s.setSi v) fin drp m pc :=
  ⟨hl.wi, hl.riLe, hl.riWi, hl.skipped, hl.cdiLt, hl.cdiNodup, hl.outst,
   by intro j hj; rcases hl.keep j hj with h | h
      · left; cases pc <;> exact h
      · right; exact h,
   by have := hl.pc; cases pc <;> exact this⟩

theorem StInvE.setSi {s : Store} (h : StInvE s) (v : Nat) : StInvE (s.setSi v) := ⟨h.opt, h.le, h.dlt, h.nodup⟩

/-- a live state whose pc computes `di` from the in-memory list and carries no obligation: only the pc name changes -/
theorem LiveInvE.repc {s : Store} {fin drp : List Req} {m : Mem} {pc pc' : Pc} (hl : LiveInvE s fin drp m pc)
    (hk : KL s m pc' = KL s m pc) (hp : PcInvE s fin drp m pc') : LiveInvE s fin drp m pc' :=
  ⟨hl.wi, hl.riLe, hl.riWi, hl.skipped, hl.cdiLt, hl.cdiNodup, hl.outst,
   by intro j hj; rw [hk]; exact hl.keep j hj, hp⟩

theorem invR_doPut {c : Cfg} {drp : List Req} {m : Mem} {pc0 : Pc} (h : InvR c drp)
    (hl : LiveInvE c.st c.finalised drp m pc0) (hk : KL c.st m pc0 = m.cdi) (r : Req) : InvR (doPut c m r) drp := by
  have hw := hl.wi
  have hle := h.st.le
  have hriLe := hl.riLe
  have hriWi := hl.riWi
  have hR := putB_R h.st.opt c.st.W r
  have hlive : ∀ pc', KL (c.st.putB c.st.W r) { m with wi := m.wi + 1, size := m.size + c.k.sizeof r } pc' = m.cdi →
        PcInvE (c.st.putB c.st.W r) c.finalised drp
        { m with wi := m.wi + 1, size := m.size + c.k.sizeof r } pc' →
      LiveInvE (c.st.putB c.st.W r) c.finalised drp { m with wi := m.wi + 1, size := m.size + c.k.sizeof r } pc' := by
    intro pc' hk' hp
    refine ⟨by simp [hw], by rw [hR]; exact hriLe, by dsimp only; omega, ?_, ?_, hl.cdiNodup, ?_, ?_, hp⟩
    · intro j h1 h2
      rw [hR] at h1
      dsimp only at h2
      exact (hl.skipped j h1 h2).mono (by intro q hq; rw [putB_items, upd_ne _ _ (by omega)] at hq; exact hq) (fun _ h => h) (fun _ h => h)
    · intro j hj; rw [hR]; exact hl.cdiLt j hj
    · intro p hp
      obtain ⟨h1, h2⟩ := hl.outst p hp
      have := hl.cdiLt p.1 h2
      exact ⟨by rw [putB_items, upd_ne _ _ (by omega)]; exact h1, h2⟩
    · intro j hj
      rw [putB_di] at hj
      have hjR := h.st.dlt j hj
      rcases hl.keep j hj with h1 | h1
      · left
        rw [hk] at h1
        rw [hk']; exact h1
      · right
        exact h1.mono (by intro q hq; rw [putB_items, upd_ne _ _ (by omega)] at hq; exact hq) (fun _ h => h) (fun _ h => h)
  unfold doPut
  dsimp only
  have e : c.st.putB m.wi r = c.st.putB c.st.W r := by rw [hw]
  refine InvR.mkLive rfl ?_ ?_ ?_ <;> dsimp only <;> rw [e]
  · exact h.st.putB r
  · intro q hq
    rw [List.mem_cons] at hq
    rcases hq with rfl | hq
    · right; exact RecE.putB_new h.st q
    · rcases h.main q hq with hf | hrec
      · left; exact hf
      · right; exact RecE.putB_old h.st hrec r
  · split
    · exact hlive .backup rfl trivial
    · exact hlive .idle rfl trivial

/-- steps that only touch fields the invariant does not read (`res`, `calls`) -/
theorem InvR.same {c c' : Cfg} {drp : List Req} (h : InvR c drp) (hst : c'.st = c.st) (hph : c'.ph = c.ph)
    (ha : c'.accepted = c.accepted) (hf : c'.finalised = c.finalised) : InvR c' drp :=
  ⟨by rw [hst]; exact h.st, by rw [ha, hf, hst]; exact h.main,
   by intro m pc heq; rw [hph] at heq; rw [hst, hf]; exact h.live m pc heq⟩

theorem invR_doOfferFull {c : Cfg} {drp : List Req} {m : Mem} (h : InvR c drp) (hph : c.ph = .live m .idle) (r : Req) :
    InvR (doOfferFull c m r) drp := by
  have hl := h.live m _ hph
  unfold doOfferFull
  split
  · exact h.same rfl rfl rfl rfl
  · split
    · exact h.same rfl rfl rfl rfl
    · exact InvR.mkLive rfl h.st h.main (hl.waiting _)

theorem invR_doWake {c : Cfg} {drp : List Req} {m : Mem} (h : InvR c drp) (hph : c.ph = .live m .idle) :
    InvR (doWake c m) drp := by
  have hl := h.live m _ hph
  unfold doWake
  split
  · exact h
  · split
    · exact InvR.mkLive rfl h.st h.main (hl.waiting _)
    · exact invR_doPut h (hl.waiting _) rfl _

theorem invR_doRead {c : Cfg} {drp : List Req} {m : Mem} {pc0 : Pc} (h : InvR c drp)
    (hl : LiveInvE c.st c.finalised drp m pc0) (hk : KL c.st m pc0 = m.cdi) : InvR (doRead c m) drp := by
  have hidle : LiveInvE c.st c.finalised drp m .idle := hl.repc (by rw [hk]; rfl) trivial
  unfold doRead
  by_cases hs : m.stopped = true
  · rw [if_pos hs]; exact InvR.mkLive rfl h.st h.main hidle
  · rw [if_neg hs]
    by_cases he : m.ri = m.wi
    · rw [if_pos he]; exact InvR.mkLive rfl h.st h.main hidle
    · rw [if_neg he]
      have hw := hl.wi
      have hriLe := hl.riLe
      have hriWi := hl.riWi
      have hlt : m.ri < c.st.W := by omega
      have hRW : c.st.R < c.st.W := by omega
      have hR' : (c.st.getB (m.ri + 1) (m.cdi ++ [m.ri])).R = m.ri + 1 := getB_R hRW _ _
      have hnot : m.ri ∉ m.cdi := fun hm => by have := hl.cdiLt _ hm; omega
      have hnd : (m.cdi ++ [m.ri]).Nodup := by
        refine List.nodup_append.mpr ⟨hl.cdiNodup, by simp, ?_⟩
        intro a ha b hb
        simp at hb; subst hb
        intro e; subst e; exact hnot ha
      dsimp only
      refine InvR.mkLive rfl ?_ ?_ ?_ <;> dsimp only
      · refine ⟨?_, by rw [hR', getB_W]; omega, ?_, by rw [getB_di]; exact hnd⟩
        · intro hwn
          have : c.st.wi ≠ none := by intro h'; simp [Store.W, h'] at hlt
          exact absurd hwn this
        · intro j hj
          rw [hR']; rw [getB_di, List.mem_append] at hj
          rcases hj with hj | hj
          · have := hl.cdiLt j hj; omega
          · simp at hj; omega
      · intro q hq
        rcases h.main q hq with hf | ⟨j, hj, hc⟩
        · left; exact hf
        · rcases hc with hd | ⟨h1, h2⟩
          · rcases hl.keep j hd with hk1 | hk1
            · right; rw [hk] at hk1
              exact ⟨j, hj, Or.inl (by rw [getB_di]; simp [hk1])⟩
            · left; exact hk1 q hj
          · by_cases hjr : j < m.ri
            · left; exact hl.skipped j h1 hjr q hj
            · right
              refine ⟨j, hj, ?_⟩
              by_cases hje : j = m.ri
              · left; rw [getB_di]; simp [hje]
              · right; rw [hR', getB_W]; omega
      · have hlive : ∀ pc', KL (c.st.getB (m.ri + 1) (m.cdi ++ [m.ri]))
              { m with ri := m.ri + 1, cdi := m.cdi ++ [m.ri], size := if m.ri + 1 = m.wi then 0 else m.size } pc' = m.cdi ++ [m.ri] →
            PcInvE (c.st.getB (m.ri + 1) (m.cdi ++ [m.ri])) c.finalised drp
              { m with ri := m.ri + 1, cdi := m.cdi ++ [m.ri], size := if m.ri + 1 = m.wi then 0 else m.size } pc' →
            LiveInvE (c.st.getB (m.ri + 1) (m.cdi ++ [m.ri])) c.finalised drp
              { m with ri := m.ri + 1, cdi := m.cdi ++ [m.ri], size := if m.ri + 1 = m.wi then 0 else m.size } pc' := by
          intro pc' hk' hp
          refine ⟨by rw [getB_W]; exact hw, by rw [hR']; exact Nat.le_refl _, by dsimp only; omega, ?_, ?_, hnd, ?_, ?_, hp⟩
          · intro j h1 h2; rw [hR'] at h1; dsimp only at h2; omega
          · intro j hj
            rw [hR']
            dsimp only at hj
            rw [List.mem_append] at hj
            rcases hj with hj | hj
            · have := hl.cdiLt j hj; omega
            · simp at hj; omega
          · intro p hp
            obtain ⟨h1, h2⟩ := hl.outst p hp
            exact ⟨h1, by dsimp only; simp [h2]⟩
          · intro j hj
            left; rw [hk']; rw [getB_di] at hj; exact hj
        cases hitem : c.st.items m.ri with
        | none => exact hlive _ rfl hitem
        | some r => exact hlive _ rfl ⟨hitem, by dsimp only; simp⟩

theorem invR_doDone {c : Cfg} {drp : List Req} {m : Mem} (h : InvR c drp) (hph : c.ph = .live m .idle) (i : Nat)
    (oc : Outcome) : InvR (doDone c m i oc) drp := by
  have hl := h.live m _ hph
  unfold doDone
  split
  · exact h.same rfl rfl rfl rfl
  · next r hlook =>
    obtain ⟨hit, hicdi⟩ := hl.outst (i, r) (mem_of_lookup hlook)
    dsimp only at hit hicdi ⊢
    cases oc with
    | shutdownErr =>
      dsimp only
      refine InvR.mkLive rfl h.st h.main ?_
      exact hl.mem_step (fun _ h => h) (fun _ h => h) rfl (Nat.le_refl _) hl.riWi (fun j h1 h2 => by dsimp only at h2; omega)
        (fun j hj => hj) hl.cdiNodup
        (fun p hp => hl.outst p (List.mem_filter.mp hp).1) (fun j _ hj => Or.inl hj) trivial
    | final =>
      dsimp only
      have hsub : ∀ j ∈ swapRemove m.cdi i, j ∈ m.cdi := fun j hj => mem_of_mem_swapRemove _ _ _ hj
      have hitems : ∀ j, j ≠ i → (c.st.finB (swapRemove m.cdi i) i).items j = c.st.items j := by
        intro j hj; rw [finB_items, upd_ne _ _ hj]
      have hitems' : ∀ j q, (c.st.finB (swapRemove m.cdi i) i).items j = some q → c.st.items j = some q := by
        intro j q hq
        by_cases hj : j = i
        · subst hj; simp at hq
        · rw [hitems j hj] at hq; exact hq
      have hlive : ∀ pc', KL (c.st.finB (swapRemove m.cdi i) i)
            { m with outst := m.outst.filter (fun p => p.1 != i), size := m.size - c.k.sizeof r, cdi := swapRemove m.cdi i } pc'
              = swapRemove m.cdi i →
          PcInvE (c.st.finB (swapRemove m.cdi i) i) (r :: c.finalised) drp
            { m with outst := m.outst.filter (fun p => p.1 != i), size := m.size - c.k.sizeof r, cdi := swapRemove m.cdi i } pc' →
          LiveInvE (c.st.finB (swapRemove m.cdi i) i) (r :: c.finalised) drp
            { m with outst := m.outst.filter (fun p => p.1 != i), size := m.size - c.k.sizeof r, cdi := swapRemove m.cdi i } pc' := by
        intro pc' hk' hp
        refine ⟨hl.wi, hl.riLe, hl.riWi, ?_, fun j hj => hl.cdiLt j (hsub j hj), swapRemove_nodup _ _ hl.cdiNodup, ?_, ?_, hp⟩
        · intro j h1 h2
          exact (hl.skipped j h1 h2).mono (hitems' j) (fun _ h => List.mem_cons_of_mem _ h) (fun _ h => h)
        · intro p hp
          obtain ⟨hp1, hp2⟩ := List.mem_filter.mp hp
          have hne : p.1 ≠ i := by simpa using hp2
          obtain ⟨h1, h2⟩ := hl.outst p hp1
          exact ⟨by rw [hitems _ hne]; exact h1, mem_swapRemove_of_ne _ _ _ h2 hne⟩
        · intro j hj
          left; rw [hk']; rw [finB_di] at hj; exact hj
      refine InvR.mkLive rfl ?_ ?_ ?_ <;> dsimp only
      · exact ⟨h.st.opt, h.st.le, fun j hj => hl.cdiLt j (hsub j hj), swapRemove_nodup _ _ hl.cdiNodup⟩
      · intro q hq
        rcases h.main q hq with (hf | hf) | ⟨j, hj, hc⟩
        · left; left; exact List.mem_cons_of_mem _ hf
        · left; right; exact hf
        · by_cases hji : j = i
          · subst hji
            have : q = r := by rw [hit] at hj; injection hj with e; exact e.symm
            left; left; rw [this]; exact List.mem_cons_self
          · rcases hc with hd | hr
            · rcases hl.keep j hd with hk1 | hk1
              · right; exact ⟨j, by rw [hitems j hji]; exact hj, Or.inl (mem_swapRemove_of_ne _ _ _ hk1 hji)⟩
              · left
                rcases hk1 q hj with h1 | h1
                · left; exact List.mem_cons_of_mem _ h1
                · right; exact h1
            · right; exact ⟨j, by rw [hitems j hji]; exact hj, Or.inr hr⟩
      · split
        · exact hlive .backup rfl trivial
        · exact hlive .idle rfl trivial

theorem invR_doShutdown {c : Cfg} {drp : List Req} {m : Mem} (h : InvR c drp) (hph : c.ph = .live m .idle) :
    InvR (doShutdown c m) drp := by
  have hl := h.live m _ hph
  have hm : ∀ s', LiveInvE s' c.finalised drp m .idle → LiveInvE s' c.finalised drp { m with stopped := true } .idle := by
    intro s' hl'
    exact hl'.mem_step (fun _ h => h) (fun _ h => h) rfl (Nat.le_refl _) hl'.riWi (fun j h1 h2 => by dsimp only at h2; omega)
      (fun j hj => hj) hl'.cdiNodup hl'.outst (fun j _ hj => Or.inl hj) trivial
  unfold doShutdown
  cases hk : c.k.reqSized with
  | true =>
    simp only [if_true]
    exact InvR.mkLive rfl h.st h.main (hm _ hl)
  | false =>
    simp only [Bool.false_eq_true, if_false]
    exact InvR.mkLive rfl (h.st.setSi _) (fun q hq => h.main q hq) (hm _ (hl.setSi _))

theorem invR_doStart {c : Cfg} {drp : List Req} (h : InvR c drp) : InvR (doStart c) drp := by
  unfold doStart
  refine InvR.mkLive rfl h.st h.main ⟨rfl, Nat.le_refl _, h.st.le, ?_, ?_, List.nodup_nil, ?_, fun j hj => Or.inl hj, ⟨rfl, rfl⟩⟩
  · intro j h1 h2; dsimp only at h1 h2; omega
  · intro j hj; simp at hj
  · intro p hp; simp at hp

theorem liveE_afterMove {s : Store} {fin drp : List Req} {m : Mem} {rest : List (Nat × Option Req)}
    (hl : LiveInvE s fin drp m (.moving rest)) : LiveInvE s fin drp m (afterMove rest) := by
  cases rest with
  | cons p t => exact hl
  | nil =>
    obtain ⟨_, _, hc, _⟩ : MovInvE s m [] := hl.pc
    exact hl.repc (by simp only [afterMove, KL, List.map_nil]; exact hc) trivial

theorem invR_doGetDi {c : Cfg} {drp : List Req} {m : Mem} {pc0 : Pc} (h : InvR c drp)
    (hl : LiveInvE c.st c.finalised drp m pc0) (hk : KL c.st m pc0 = c.st.di) (hc : m.cdi = []) (ho : m.outst = []) :
    InvR (doGetDi c m) drp := by
  unfold doGetDi
  split
  · next hd =>
    refine InvR.mkLive rfl h.st h.main ?_
    exact hl.repc (by rw [hk, hd]; show m.cdi = []; exact hc) trivial
  · next d ds hd =>
    refine InvR.mkLive rfl h.st h.main ?_
    exact hl.repc (by rw [hk]; rfl) ⟨hd.symm, hc, ho⟩

theorem invR_doMove {c : Cfg} {drp : List Req} {m : Mem} {todo : List (Nat × Option Req)} (h : InvR c drp)
    (hl : LiveInvE c.st c.finalised drp m (.moving todo)) : InvR (doMove c m todo) drp := by
  obtain ⟨hval, hnd, hc, ho⟩ : MovInvE c.st m todo := hl.pc
  have hle := h.st.le
  unfold doMove
  split
  · refine InvR.mkLive rfl h.st h.main ?_
    exact hl.repc (by simp only [KL, List.map_nil]; exact hc) trivial
  · next i rest =>
    -- the item of a dispatched index is missing: only `di` shrinks
    obtain ⟨hidi, hnone⟩ := hval (i, none) (by simp)
    dsimp only at hidi hnone
    have hnd' : (rest.map Prod.fst).Nodup := by simp only [List.map_cons] at hnd; exact (List.nodup_cons.mp hnd).2
    have hinot : i ∉ rest.map Prod.fst := by simp only [List.map_cons] at hnd; exact (List.nodup_cons.mp hnd).1
    have hitems : ∀ j, (c.st.finB (rest.map Prod.fst) i).items j = c.st.items j := by
      intro j
      by_cases hj : j = i
      · subst hj; rw [finB_items, upd_same, hnone]
      · rw [finB_items, upd_ne _ _ hj]
    have hrestdi : ∀ j ∈ rest.map Prod.fst, j ∈ c.st.di := by
      intro j hj
      obtain ⟨p, hp, rfl⟩ := List.mem_map.mp hj
      exact (hval p (List.mem_cons_of_mem _ hp)).1
    have hl' : LiveInvE (c.st.finB (rest.map Prod.fst) i) c.finalised drp m (.moving rest) := by
      refine ⟨hl.wi, hl.riLe, hl.riWi, ?_, by rw [hc]; simp, by rw [hc]; simp, by rw [ho]; simp, ?_, ?_⟩
      · intro j h1 h2; exact (hl.skipped j h1 h2).mono (by intro q hq; rw [hitems] at hq; exact hq) (fun _ h => h) (fun _ h => h)
      · intro j hj; left; exact hj
      · refine ⟨?_, hnd', hc, ho⟩
        intro p hp
        exact ⟨List.mem_map_of_mem hp, by rw [hitems]; exact (hval p (List.mem_cons_of_mem _ hp)).2⟩
    refine InvR.mkLive rfl ⟨h.st.opt, h.st.le, fun j hj => h.st.dlt j (hrestdi j hj), hnd'⟩ ?_ (liveE_afterMove hl')
    intro q hq
    rcases h.main q hq with hf | ⟨j, hj, hcj⟩
    · left; exact hf
    · rcases hcj with hd | hr
      · rcases hl.keep j hd with hk1 | hk1
        · have hk2 : j = i ∨ j ∈ rest.map Prod.fst := by simpa [KL] using hk1
          rcases hk2 with e | hk2
          · subst e; rw [hnone] at hj; cases hj
          · right; exact ⟨j, by rw [hitems]; exact hj, Or.inl hk2⟩
        · left; exact hk1 q hj
      · right; exact ⟨j, by rw [hitems]; exact hj, Or.inr hr⟩
  · next i r rest =>
    obtain ⟨hidi, hir⟩ := hval (i, some r) (by simp)
    dsimp only at hidi hir
    have hiR := h.st.dlt i hidi
    have hw := hl.wi
    have hnd' : (rest.map Prod.fst).Nodup := by simp only [List.map_cons] at hnd; exact (List.nodup_cons.mp hnd).2
    have hinot : i ∉ rest.map Prod.fst := by simp only [List.map_cons] at hnd; exact (List.nodup_cons.mp hnd).1
    have hrestdi : ∀ j ∈ rest.map Prod.fst, j ∈ c.st.di := by
      intro j hj
      obtain ⟨p, hp, rfl⟩ := List.mem_map.mp hj
      exact (hval p (List.mem_cons_of_mem _ hp)).1
    have hR := moveB_R h.st.opt c.st.W r i (rest.map Prod.fst)
    have hitems : ∀ j, j ≠ i → j ≠ c.st.W → (c.st.moveB c.st.W r i (rest.map Prod.fst)).items j = c.st.items j := by
      intro j h1 h2; rw [moveB_items, upd_ne _ _ h1, upd_ne _ _ h2]
    have hlive : LiveInvE (c.st.moveB c.st.W r i (rest.map Prod.fst)) c.finalised drp
        { m with wi := m.wi + 1, size := m.size + c.k.sizeof r } (.moving rest) := by
      refine ⟨by simp [hw], by rw [hR]; exact hl.riLe, by dsimp only; have := hl.riWi; omega, ?_, by rw [hc]; simp,
        by rw [hc]; simp, by rw [ho]; simp, ?_, ?_⟩
      · intro j h1 h2
        rw [hR] at h1; dsimp only at h2
        have := hl.riWi
        exact (hl.skipped j h1 h2).mono (by intro q hq; rw [hitems j (by omega) (by omega)] at hq; exact hq) (fun _ h => h) (fun _ h => h)
      · intro j hj; left; exact hj
      · refine ⟨?_, hnd', hc, ho⟩
        intro p hp
        have hm : p.1 ∈ rest.map Prod.fst := List.mem_map_of_mem hp
        have hpR := h.st.dlt p.1 (hrestdi _ hm)
        refine ⟨hm, ?_⟩
        rw [hitems p.1 (fun e => hinot (e ▸ hm)) (by omega)]
        exact (hval p (List.mem_cons_of_mem _ hp)).2
    dsimp only
    have e : c.st.moveB m.wi r i (rest.map Prod.fst) = c.st.moveB c.st.W r i (rest.map Prod.fst) := by rw [hw]
    refine InvR.mkLive rfl ?_ ?_ ?_ <;> dsimp only <;> rw [e]
    · refine ⟨by simp [Store.moveB], by rw [hR, moveB_W]; omega, ?_, hnd'⟩
      intro j hj; rw [hR]; exact h.st.dlt j (hrestdi j hj)
    · intro q hq
      rcases h.main q hq with hf | ⟨j, hj, hcj⟩
      · left; exact hf
      · by_cases hji : j = i
        · subst hji
          have : q = r := by rw [hir] at hj; injection hj with e; exact e.symm
          subst this
          right
          refine ⟨c.st.W, by rw [moveB_items, upd_ne _ _ (by omega)]; simp, Or.inr ?_⟩
          rw [hR, moveB_W]; omega
        · rcases hcj with hd | ⟨h1, h2⟩
          · have hjR := h.st.dlt j hd
            rcases hl.keep j hd with hk1 | hk1
            · have hk2 : j = i ∨ j ∈ rest.map Prod.fst := by simpa [KL] using hk1
              rcases hk2 with e | hk2
              · exact absurd e hji
              · right; exact ⟨j, by rw [hitems j hji (by omega)]; exact hj, Or.inl hk2⟩
            · left; exact hk1 q hj
          · right; exact ⟨j, by rw [hitems j hji (by omega)]; exact hj, Or.inr (by rw [hR, moveB_W]; omega)⟩
    · split
      · exact hlive.repc rfl hlive.pc
      · exact liveE_afterMove hlive

theorem KL_finCont (s : Store) (k : Conf) (m : Mem) (fk : FinK) : KL s m (finCont k m fk) = m.cdi := by
  cases fk with
  | read => rfl
  | done => simp only [finCont]; split <;> rfl

theorem pcInvE_finCont (s : Store) (fin drp : List Req) (k : Conf) (m : Mem) (fk : FinK) :
    PcInvE s fin drp m (finCont k m fk) := by
  cases fk with
  | read => trivial
  | done => simp only [finCont]; split <;> trivial

theorem invR_doTick {c : Cfg} {drp : List Req} {m : Mem} {pc : Pc} (h : InvR c drp) (hph : c.ph = .live m pc) :
    InvR (doTick c m pc) drp := by
  have hl := h.live m pc hph
  cases pc with
  | idle => exact h
  | backup =>
    simp only [doTick]
    exact InvR.mkLive rfl (h.st.setSi _) (fun q hq => h.main q hq) ((hl.setSi _).repc rfl trivial)
  | readRet i r =>
    obtain ⟨hit, hic⟩ : c.st.items i = some r ∧ i ∈ m.cdi := hl.pc
    simp only [doTick]
    refine InvR.mkLive rfl h.st h.main ?_
    refine hl.mem_step (fun _ h => h) (fun _ h => h) rfl (Nat.le_refl _) hl.riWi (fun j h1 h2 => by dsimp only at h2; omega)
      (fun j hj => hj) hl.cdiNodup ?_ (fun j _ hj => Or.inl hj) trivial
    intro p hp
    dsimp only at hp
    rw [List.mem_cons] at hp
    rcases hp with rfl | hp
    · exact ⟨hit, hic⟩
    · exact hl.outst p hp
  | readFin i =>
    have hnone : c.st.items i = none := hl.pc
    simp only [doTick]
    have hsub : ∀ j ∈ swapRemove m.cdi i, j ∈ m.cdi := fun j hj => mem_of_mem_swapRemove _ _ _ hj
    have hitems : ∀ j, (c.st.finB (swapRemove m.cdi i) i).items j = c.st.items j := by
      intro j
      by_cases hj : j = i
      · subst hj; rw [finB_items, upd_same, hnone]
      · rw [finB_items, upd_ne _ _ hj]
    refine InvR.mkLive rfl ⟨h.st.opt, h.st.le, fun j hj => hl.cdiLt j (hsub j hj), swapRemove_nodup _ _ hl.cdiNodup⟩ ?_ ?_
    · intro q hq
      rcases h.main q hq with hf | ⟨j, hj, hc⟩
      · left; exact hf
      · have hji : j ≠ i := by intro e; subst e; rw [hnone] at hj; cases hj
        rcases hc with hd | hr
        · rcases hl.keep j hd with hk1 | hk1
          · right; exact ⟨j, by rw [hitems]; exact hj, Or.inl (mem_swapRemove_of_ne _ _ _ hk1 hji)⟩
          · left; exact hk1 q hj
        · right; exact ⟨j, by rw [hitems]; exact hj, Or.inr hr⟩
    · refine ⟨hl.wi, hl.riLe, hl.riWi, ?_, fun j hj => hl.cdiLt j (hsub j hj), swapRemove_nodup _ _ hl.cdiNodup, ?_,
        fun j hj => Or.inl hj, trivial⟩
      · intro j h1 h2
        exact (hl.skipped j h1 h2).mono (by intro q hq; rw [hitems] at hq; exact hq) (fun _ h => h) (fun _ h => h)
      · intro p hp
        obtain ⟨h1, h2⟩ := hl.outst p hp
        have hne : p.1 ≠ i := by intro e; rw [e, hnone] at h1; cases h1
        exact ⟨by rw [hitems]; exact h1, mem_swapRemove_of_ne _ _ _ h2 hne⟩
  | readLoop =>
    simp only [doTick]
    exact invR_doRead h hl rfl
  | init1 =>
    obtain ⟨hc, ho⟩ : m.cdi = [] ∧ m.outst = [] := hl.pc
    simp only [doTick]
    split
    · refine InvR.mkLive rfl h.st h.main ?_
      exact hl.mem_step (fun _ h => h) (fun _ h => h) rfl (Nat.le_refl _) hl.riWi (fun j h1 h2 => by dsimp only at h2; omega)
        (fun j hj => hj) hl.cdiNodup hl.outst (fun j _ hj => Or.inl hj) ⟨hc, ho⟩
    · exact invR_doGetDi h hl rfl hc ho
  | init2 =>
    obtain ⟨hc, ho⟩ : m.cdi = [] ∧ m.outst = [] := hl.pc
    simp only [doTick]
    exact invR_doGetDi h hl rfl hc ho
  | init3 ds =>
    obtain ⟨hds, hc, ho⟩ : ds = c.st.di ∧ m.cdi = [] ∧ m.outst = [] := hl.pc
    simp only [doTick]
    refine InvR.mkLive rfl h.st h.main ?_
    have hmap : (ds.map (fun i => (i, c.st.items i))).map Prod.fst = c.st.di := by
      rw [List.map_map, ← hds]
      show List.map (fun i => i) ds = ds
      simp
    refine hl.repc (by show _ = c.st.di; exact hmap) ⟨?_, by rw [hmap]; exact h.st.nodup, hc, ho⟩
    intro p hp
    obtain ⟨j, hj, rfl⟩ := List.mem_map.mp hp
    exact ⟨by rw [← hds]; exact hj, rfl⟩
  | moving todo =>
    simp only [doTick]
    exact invR_doMove h hl
  | movingBackup todo =>
    simp only [doTick]
    have hl2 : LiveInvE (c.st.setSi m.size) c.finalised drp m (.moving todo) := (hl.setSi _).repc rfl (hl.setSi _).pc
    exact InvR.mkLive rfl (h.st.setSi _) (fun q hq => h.main q hq) (liveE_afterMove hl2)
  | fin1 i k =>
    obtain ⟨hos, hni⟩ : OS c.st c.finalised drp i ∧ i ∉ m.cdi := hl.pc
    simp only [doTick]
    have hitems' : ∀ j q, (c.st.finB m.cdi i).items j = some q → c.st.items j = some q := by
      intro j q hq
      by_cases hj : j = i
      · subst hj; simp at hq
      · rw [finB_items, upd_ne _ _ hj] at hq; exact hq
    refine InvR.mkLive rfl ⟨h.st.opt, h.st.le, hl.cdiLt, hl.cdiNodup⟩ ?_ ?_
    · intro q hq
      rcases h.main q hq with hf | ⟨j, hj, hc⟩
      · left; exact hf
      · by_cases hji : j = i
        · subst hji; left; exact hos q hj
        · rcases hc with hd | hr
          · rcases hl.keep j hd with hk1 | hk1
            · right; exact ⟨j, by rw [finB_items, upd_ne _ _ hji]; exact hj, Or.inl hk1⟩
            · left; exact hk1 q hj
          · right; exact ⟨j, by rw [finB_items, upd_ne _ _ hji]; exact hj, Or.inr hr⟩
    · refine ⟨hl.wi, hl.riLe, hl.riWi, ?_, hl.cdiLt, hl.cdiNodup, ?_, ?_, pcInvE_finCont _ _ _ _ _ _⟩
      · intro j h1 h2
        exact (hl.skipped j h1 h2).mono (hitems' j) (fun _ h => h) (fun _ h => h)
      · intro p hp
        obtain ⟨h1, h2⟩ := hl.outst p hp
        have hne : p.1 ≠ i := fun e => hni (e ▸ h2)
        exact ⟨by rw [finB_items, upd_ne _ _ hne]; exact h1, h2⟩
      · intro j hj; left; rw [KL_finCont]; exact hj
  | fin2 i k =>
    obtain ⟨hos, hni⟩ : OS c.st c.finalised drp i ∧ i ∉ m.cdi := hl.pc
    simp only [doTick]
    have hitems' : ∀ j q, (c.st.delB i).items j = some q → c.st.items j = some q := by
      intro j q hq
      by_cases hj : j = i
      · subst hj; simp at hq
      · rw [delB_items, upd_ne _ _ hj] at hq; exact hq
    refine InvR.mkLive rfl ⟨h.st.opt, h.st.le, h.st.dlt, h.st.nodup⟩ ?_ ?_
    · intro q hq
      rcases h.main q hq with hf | ⟨j, hj, hc⟩
      · left; exact hf
      · by_cases hji : j = i
        · subst hji; left; exact hos q hj
        · right; exact ⟨j, by rw [delB_items, upd_ne _ _ hji]; exact hj, hc⟩
    · refine ⟨hl.wi, hl.riLe, hl.riWi, ?_, hl.cdiLt, hl.cdiNodup, ?_, ?_, ⟨?_, hni⟩⟩
      · intro j h1 h2
        exact (hl.skipped j h1 h2).mono (hitems' j) (fun _ h => h) (fun _ h => h)
      · intro p hp
        obtain ⟨h1, h2⟩ := hl.outst p hp
        have hne : p.1 ≠ i := fun e => hni (e ▸ h2)
        exact ⟨by rw [delB_items, upd_ne _ _ hne]; exact h1, h2⟩
      · intro j hj
        rcases hl.keep j hj with hk1 | hk1
        · left; exact hk1
        · right; exact hk1.mono (hitems' j) (fun _ h => h) (fun _ h => h)
      · intro q hq; simp at hq
  | fin3 i k =>
    obtain ⟨hos, hni⟩ : OS c.st c.finalised drp i ∧ i ∉ m.cdi := hl.pc
    simp only [doTick]
    refine InvR.mkLive rfl ⟨h.st.opt, h.st.le, hl.cdiLt, hl.cdiNodup⟩ ?_ ?_
    · intro q hq
      rcases h.main q hq with hf | ⟨j, hj, hc⟩
      · left; exact hf
      · rcases hc with hd | hr
        · rcases hl.keep j hd with hk1 | hk1
          · right; exact ⟨j, hj, Or.inl hk1⟩
          · left; exact hk1 q hj
        · right; exact ⟨j, hj, Or.inr hr⟩
    · exact ⟨hl.wi, hl.riLe, hl.riWi, hl.skipped, hl.cdiLt, hl.cdiNodup, hl.outst,
        fun j hj => Or.inl (by rw [KL_finCont]; exact hj), pcInvE_finCont _ _ _ _ _ _⟩

/-- every label of the error-free machine preserves the weaker invariant too (from ANY state satisfying it, also states
    only reachable through storage errors) -/
theorem invR_fire {c : Cfg} {drp : List Req} (h : InvR c drp) (l : Label) : InvR (fire c l) drp := by
  cases l with
  | crash => exact InvR.mkDead rfl h.st h.main
  | start =>
    simp only [fire]; split
    · exact invR_doStart h
    · exact h
  | tick =>
    simp only [fire]; split
    · next m pc heq => exact invR_doTick h heq
    · exact h
  | offer r =>
    simp only [fire]; split
    · next m heq =>
      unfold doOffer
      split
      · exact invR_doOfferFull h heq r
      · exact invR_doPut h (h.live m _ heq) rfl r
    · exact h
  | read =>
    simp only [fire]; split
    · next m heq => exact invR_doRead h (h.live m _ heq) rfl
    · exact h
  | done i oc =>
    simp only [fire]; split
    · next m heq => exact invR_doDone h heq i oc
    · exact h
  | shutdown =>
    simp only [fire]; split
    · next m heq => exact invR_doShutdown h heq
    · exact h
  | wake =>
    simp only [fire]; split
    · next m heq => exact invR_doWake h heq
    · exact h
  | cancel j =>
    simp only [fire]; split
    · next m heq => exact InvR.mkLive rfl h.st h.main ((h.live m _ heq).waiting _)
    · exact h
  | promote j =>
    simp only [fire]; split
    · next m heq =>
      unfold doPromote
      split
      · exact h
      · exact InvR.mkLive rfl h.st h.main ((h.live m _ heq).waiting _)
    · exact h

/-! ### the error branches -/

theorem InvR.dropMore {c : Cfg} {drp : List Req} (h : InvR c drp) (dr : List Req) : InvR c (dr ++ drp) := by
  have hd : ∀ r, r ∈ drp → r ∈ dr ++ drp := fun r hr => List.mem_append_right _ hr
  refine ⟨h.st, ?_, ?_⟩
  · intro q hq
    rcases h.main q hq with (hf | hf) | hrec
    · left; left; exact hf
    · left; right; exact hd q hf
    · right; exact hrec
  · intro m pc heq
    have hl := h.live m pc heq
    exact hl.mem_step (fun _ h => h) hd rfl (Nat.le_refl _) hl.riWi (fun j h1 h2 => by omega) (fun j hj => hj)
      hl.cdiNodup hl.outst (fun j _ hj => Or.inl hj)
      (by
        have hp := hl.pc
        cases pc with
        | fin1 i k => exact ⟨hp.1.mono (fun _ h => h) (fun _ h => h) hd, hp.2⟩
        | fin2 i k => exact ⟨hp.1.mono (fun _ h => h) (fun _ h => h) hd, hp.2⟩
        | fin3 i k => exact ⟨hp.1.mono (fun _ h => h) (fun _ h => h) hd, hp.2⟩
        | idle => exact hp
        | backup => exact hp
        | readRet i r => exact hp
        | readFin i => exact hp
        | readLoop => exact hp
        | init1 => exact hp
        | init2 => exact hp
        | init3 ds => exact hp
        | moving todo => exact hp
        | movingBackup todo => exact hp)

/-- replace the live part of a state whose store, `accepted` and `finalised` stay -/
theorem InvR.relive {c : Cfg} {drp : List Req} (h : InvR c drp) {m' : Mem} {pc' : Pc} {res : Res}
    (hl : LiveInvE c.st c.finalised drp m' pc') : InvR { c with ph := .live m' pc', res := res } drp :=
  InvR.mkLive rfl h.st h.main hl

theorem invR_readErr {c : Cfg} {drp : List Req} {m : Mem} {pc0 : Pc} (h : InvR c drp)
    (hl : LiveInvE c.st c.finalised drp m pc0) (hk : KL c.st m pc0 = m.cdi) (hne : m.ri ≠ m.wi) :
    InvR { c with ph := .live { m with ri := m.ri + 1, cdi := swapRemove (m.cdi ++ [m.ri]) m.ri,
                                       size := if m.ri + 1 = m.wi then 0 else m.size } (.fin1 m.ri .read), res := .none }
      (itemsAt c.st [m.ri] ++ drp) := by
  have hnot : m.ri ∉ m.cdi := fun hm => by have := hl.cdiLt _ hm; have := hl.riLe; omega
  have hsw : swapRemove (m.cdi ++ [m.ri]) m.ri = m.cdi := swapRemove_append_self _ _ hnot
  have hriWi := hl.riWi
  have h2 := h.dropMore (itemsAt c.st [m.ri])
  have hd : ∀ r, r ∈ drp → r ∈ itemsAt c.st [m.ri] ++ drp := fun r hr => List.mem_append_right _ hr
  have hos : OS c.st c.finalised (itemsAt c.st [m.ri] ++ drp) m.ri := by
    intro q hq; right; exact List.mem_append_left _ (mem_itemsAt (by simp) hq)
  refine InvR.mkLive rfl h2.st h2.main ?_
  refine hl.mem_step (fun _ h => h) hd rfl (by dsimp only; omega) (by dsimp only; omega) ?_ ?_ ?_ ?_ ?_ ⟨hos, ?_⟩
  · intro j h1 h2'
    dsimp only at h2'
    have : j = m.ri := by omega
    rw [this]; exact hos
  · intro j hj; dsimp only at hj; rw [hsw] at hj; exact hj
  · dsimp only; rw [hsw]; exact hl.cdiNodup
  · intro p hp
    obtain ⟨h1, h3⟩ := hl.outst p hp
    exact ⟨h1, by dsimp only; rw [hsw]; exact h3⟩
  · intro j _ hj; left; rw [hk] at hj; show j ∈ swapRemove (m.cdi ++ [m.ri]) m.ri; rw [hsw]; exact hj
  · dsimp only; rw [hsw]; exact hnot

theorem invR_doneErr {c : Cfg} {drp : List Req} {m : Mem} (h : InvR c drp) (hl : LiveInvE c.st c.finalised drp m .idle)
    {i : Nat} {r : Req} (hlook : m.outst.lookup i = some r) :
    InvR { c with finalised := r :: c.finalised,
                  ph := .live { m with outst := m.outst.filter (fun p => p.1 != i), size := m.size - c.k.sizeof r,
                                       cdi := swapRemove m.cdi i } (.fin2 i .done), res := .doneOk } drp := by
  obtain ⟨hit, hicdi⟩ := hl.outst (i, r) (mem_of_lookup hlook)
  dsimp only at hit hicdi
  have hf : ∀ q, q ∈ c.finalised → q ∈ r :: c.finalised := fun q hq => List.mem_cons_of_mem _ hq
  have hos : OS c.st (r :: c.finalised) drp i := by
    intro q hq; left
    have : q = r := by rw [hit] at hq; injection hq with e; exact e.symm
    rw [this]; exact List.mem_cons_self
  refine InvR.mkLive rfl h.st ?_ ?_
  · intro q hq
    rcases h.main q hq with (h1 | h1) | h1
    · left; left; exact hf q h1
    · left; right; exact h1
    · right; exact h1
  · refine hl.mem_step hf (fun _ h => h) rfl (Nat.le_refl _) hl.riWi (fun j h1 h2 => by dsimp only at h2; omega)
      (fun j hj => mem_of_mem_swapRemove _ _ _ hj) (swapRemove_nodup _ _ hl.cdiNodup) ?_ ?_
      ⟨hos, not_mem_swapRemove_of_nodup _ _ hl.cdiNodup⟩
    · intro p hp
      obtain ⟨hp1, hp2⟩ := List.mem_filter.mp hp
      have hne : p.1 ≠ i := by simpa using hp2
      obtain ⟨h1, h2⟩ := hl.outst p hp1
      exact ⟨h1, mem_swapRemove_of_ne _ _ _ h2 hne⟩
    · intro j _ hj
      by_cases hji : j = i
      · right; rw [hji]; exact hos
      · left; exact mem_swapRemove_of_ne _ _ _ hj hji

/-- recovery is skipped (`Get di` or the retrieve batch failed): everything listed in `di` is given up -/
theorem invR_skipRecovery {c : Cfg} {drp : List Req} {m : Mem} {pc0 : Pc} (h : InvR c drp)
    (hl : LiveInvE c.st c.finalised drp m pc0) (hc : m.cdi = []) :
    InvR { c with ph := .live m .idle } (itemsAt c.st c.st.di ++ drp) := by
  have h2 := h.dropMore (itemsAt c.st c.st.di)
  have hd : ∀ r, r ∈ drp → r ∈ itemsAt c.st c.st.di ++ drp := fun r hr => List.mem_append_right _ hr
  refine InvR.mkLive rfl h2.st h2.main ?_
  refine hl.mem_step (fun _ h => h) hd rfl (Nat.le_refl _) hl.riWi (fun j h1 h2 => by omega) (fun j hj => hj)
    hl.cdiNodup hl.outst ?_ trivial
  intro j hj _
  right
  intro q hq
  right; exact List.mem_append_left _ (mem_itemsAt hj hq)

theorem invR_moveErr {c : Cfg} {drp : List Req} {m : Mem} {i : Nat} {v : Option Req} {rest : List (Nat × Option Req)}
    (h : InvR c drp) (hl : LiveInvE c.st c.finalised drp m (.moving ((i, v) :: rest))) :
    InvR { c with ph := .live m (afterMove rest) } (v.toList ++ drp) := by
  obtain ⟨hval, hnd, hc, ho⟩ : MovInvE c.st m ((i, v) :: rest) := hl.pc
  obtain ⟨_, hiv⟩ := hval (i, v) (by simp)
  dsimp only at hiv
  have h2 := h.dropMore v.toList
  have hd : ∀ r, r ∈ drp → r ∈ v.toList ++ drp := fun r hr => List.mem_append_right _ hr
  have hnd' : (rest.map Prod.fst).Nodup := by simp only [List.map_cons] at hnd; exact (List.nodup_cons.mp hnd).2
  refine InvR.mkLive rfl h2.st h2.main (liveE_afterMove ?_)
  refine hl.mem_step (fun _ h => h) hd rfl (Nat.le_refl _) hl.riWi (fun j h1 h2 => by omega) (fun j hj => hj)
    hl.cdiNodup hl.outst ?_ ⟨fun p hp => hval p (List.mem_cons_of_mem _ hp), hnd', hc, ho⟩
  intro j _ hj
  have hk2 : j = i ∨ j ∈ rest.map Prod.fst := by simpa [KL] using hj
  rcases hk2 with e | hk2
  · right
    intro q hq
    right
    rw [e, hiv] at hq
    exact List.mem_append_left _ (by simp [hq])
  · left; exact hk2

theorem invR_doTickErr {c : Cfg} {drp : List Req} {m : Mem} {pc : Pc} (ce : CfgE) (hb : ce.base = c) (hdp : ce.dropped = drp)
    (h : InvR c drp) (hph : c.ph = .live m pc) :
    InvR (doTickErr ce m pc).base (doTickErr ce m pc).dropped := by
  subst hb hdp
  have hl := h.live m pc hph
  cases pc with
  | idle => exact h
  | backup =>
    simp only [doTickErr, CfgE.failed]
    have hl2 := (h.dropMore []).live m _ hph
    exact InvR.mkLive rfl h.st (fun q hq => (h.dropMore []).main q hq) (hl2.repc rfl trivial)
  | readRet i r =>
    simp only [doTickErr]
    exact invR_doTick h hph
  | readFin i =>
    have hnone : ce.base.st.items i = none := hl.pc
    simp only [doTickErr, CfgE.failed]
    refine InvR.mkLive rfl h.st (fun q hq => h.main q hq) ?_
    refine hl.mem_step (fun _ h => h) (fun _ h => h) rfl (Nat.le_refl _) hl.riWi (fun j h1 h2 => by dsimp only at h2; omega)
      (fun j hj => mem_of_mem_swapRemove _ _ _ hj) (swapRemove_nodup _ _ hl.cdiNodup) ?_ ?_
      ⟨(fun q hq => by rw [hnone] at hq; cases hq), not_mem_swapRemove_of_nodup _ _ hl.cdiNodup⟩
    · intro p hp
      obtain ⟨h1, h2⟩ := hl.outst p hp
      have hne : p.1 ≠ i := by intro e; rw [e, hnone] at h1; cases h1
      exact ⟨h1, mem_swapRemove_of_ne _ _ _ h2 hne⟩
    · intro j _ hj
      by_cases hji : j = i
      · right; intro q hq; rw [hji, hnone] at hq; cases hq
      · left; exact mem_swapRemove_of_ne _ _ _ hj hji
  | readLoop =>
    simp only [doTickErr, doReadErr]
    split
    · next hs =>
      have : doRead ce.base m = { ce.base with ph := .live m .idle, res := .readStopped } := by simp [doRead, hs]
      rw [this]; exact InvR.mkLive rfl h.st h.main (hl.repc rfl trivial)
    · split
      · next hs he =>
        have : doRead ce.base m = { ce.base with ph := .live m .idle, res := .readEmpty } := by simp [doRead, hs, he]
        rw [this]; exact InvR.mkLive rfl h.st h.main (hl.repc rfl trivial)
      · next hs he =>
        simp only [CfgE.failed]
        exact (invR_readErr h hl rfl he).same rfl rfl rfl rfl
  | init1 =>
    obtain ⟨hc, ho⟩ : m.cdi = [] ∧ m.outst = [] := hl.pc
    simp only [doTickErr]
    split
    · simp only [CfgE.failed]
      exact InvR.mkLive rfl h.st (fun q hq => (h.dropMore []).main q hq) ((h.dropMore []).live m _ hph |>.repc rfl ⟨hc, ho⟩)
    · simp only [doGetDiErr, CfgE.failed]
      exact (invR_skipRecovery h hl hc).same rfl rfl rfl rfl
  | init2 =>
    obtain ⟨hc, ho⟩ : m.cdi = [] ∧ m.outst = [] := hl.pc
    simp only [doTickErr, doGetDiErr, CfgE.failed]
    exact (invR_skipRecovery h hl hc).same rfl rfl rfl rfl
  | init3 ds =>
    obtain ⟨hds, hc, ho⟩ : ds = ce.base.st.di ∧ m.cdi = [] ∧ m.outst = [] := hl.pc
    simp only [doTickErr, CfgE.failed]
    rw [hds]
    exact (invR_skipRecovery h hl hc).same rfl rfl rfl rfl
  | moving todo =>
    simp only [doTickErr, doMoveErr]
    split
    · exact invR_doMove h hl
    · next i rest =>
      simp only [CfgE.failed]
      exact (invR_moveErr (v := none) h hl).same rfl rfl rfl rfl
    · next i r rest =>
      simp only [CfgE.failed]
      exact (invR_moveErr (v := some r) h hl).same rfl rfl rfl rfl
  | movingBackup todo =>
    simp only [doTickErr, CfgE.failed]
    have hl2 : LiveInvE ce.base.st ce.base.finalised ([] ++ ce.dropped) m (.moving todo) :=
      ((h.dropMore []).live m _ hph).repc rfl ((h.dropMore []).live m _ hph).pc
    exact InvR.mkLive rfl h.st (fun q hq => (h.dropMore []).main q hq) (liveE_afterMove hl2)
  | fin1 i k =>
    simp only [doTickErr, CfgE.failed]
    have hl2 := (h.dropMore []).live m _ hph
    exact InvR.mkLive rfl h.st (fun q hq => (h.dropMore []).main q hq) (hl2.repc rfl hl2.pc)
  | fin2 i k =>
    simp only [doTickErr, CfgE.failed]
    have hl2 := (h.dropMore []).live m _ hph
    exact InvR.mkLive rfl h.st (fun q hq => (h.dropMore []).main q hq) (hl2.repc (KL_finCont _ _ _ _) (pcInvE_finCont _ _ _ _ _ _))
  | fin3 i k =>
    simp only [doTickErr, CfgE.failed]
    have hl2 := (h.dropMore []).live m _ hph
    exact InvR.mkLive rfl h.st (fun q hq => (h.dropMore []).main q hq) (hl2.repc (KL_finCont _ _ _ _) (pcInvE_finCont _ _ _ _ _ _))

/-! ### assembling: every label of the machine with storage errors preserves `InvE` -/

theorem invR_fireErr (ce : CfgE) (h : InvR ce.base ce.dropped) (l : Label) :
    (fireErr ce l).poisoned = true ∨ InvR (fireErr ce l).base (fireErr ce l).dropped := by
  cases l with
  | crash => right; exact InvR.mkDead rfl h.st h.main
  | start =>
    simp only [fireErr]; split
    · left; rfl
    · right; exact h
  | tick =>
    simp only [fireErr]; split
    · next m pc heq => right; exact invR_doTickErr ce rfl rfl h heq
    · right; exact h
  | offer r =>
    simp only [fireErr]; split
    · next m heq =>
      right
      simp only [doOfferErr]
      split
      · unfold doOffer
        next hfull => rw [if_pos hfull]; exact invR_doOfferFull h heq r
      · simp only [CfgE.failed]
        exact (h.dropMore []).same rfl rfl rfl rfl
    · right; exact h
  | read =>
    simp only [fireErr]; split
    · next m heq =>
      right
      have hl := h.live m _ heq
      simp only [doReadErr]
      split
      · next hs =>
        have : doRead ce.base m = { ce.base with ph := .live m .idle, res := .readStopped } := by simp [doRead, hs]
        rw [this]; exact InvR.mkLive rfl h.st h.main hl
      · split
        · next hs he =>
          have : doRead ce.base m = { ce.base with ph := .live m .idle, res := .readEmpty } := by simp [doRead, hs, he]
          rw [this]; exact InvR.mkLive rfl h.st h.main hl
        · next hs he =>
          simp only [CfgE.failed]
          exact (invR_readErr h hl rfl he).same rfl rfl rfl rfl
    · right; exact h
  | done i oc =>
    simp only [fireErr]; split
    · next m heq =>
      right
      have hl := h.live m _ heq
      simp only [doDoneErr]
      split
      · exact invR_doDone h heq i oc
      · next r hlook =>
        cases oc with
        | shutdownErr => exact invR_doDone h heq i .shutdownErr
        | final =>
          simp only [CfgE.failed]
          exact ((invR_doneErr h hl hlook).dropMore []).same rfl rfl rfl rfl
    · right; exact h
  | shutdown =>
    simp only [fireErr]; split
    · next m heq =>
      right
      have hl := h.live m _ heq
      simp only [doShutdownErr]
      split
      · exact invR_doShutdown h heq
      · simp only [CfgE.failed]
        have hl2 := (h.dropMore []).live m _ heq
        refine InvR.mkLive rfl h.st (fun q hq => (h.dropMore []).main q hq) ?_
        exact hl2.mem_step (fun _ h => h) (fun _ h => h) rfl (Nat.le_refl _) hl2.riWi (fun j h1 h2 => by dsimp only at h2; omega)
          (fun j hj => hj) hl2.cdiNodup hl2.outst (fun j _ hj => Or.inl hj) trivial
    · right; exact h
  | wake =>
    simp only [fireErr]; split
    · next m heq =>
      right
      have hl := h.live m _ heq
      simp only [doWakeErr]
      split
      · exact h
      · split
        · exact invR_doWake h heq
        · simp only [CfgE.failed]
          have hl2 := (h.dropMore []).live m _ heq
          exact InvR.mkLive rfl h.st (fun q hq => (h.dropMore []).main q hq) (hl2.waiting _)
    · right; exact h
  | cancel j =>
    right
    simp only [fireErr]
    exact invR_fire h (.cancel j)
  | promote j =>
    right
    simp only [fireErr]
    exact invR_fire h (.promote j)

theorem poisoned_fireErr (ce : CfgE) (hp : ce.poisoned = true) (l : Label) : (fireErr ce l).poisoned = true := by
  cases l with
  | crash => exact hp
  | start => simp only [fireErr]; split <;> first | rfl | exact hp
  | tick =>
    simp only [fireErr]; split
    · next m pc _ =>
      cases pc <;> simp only [doTickErr, CfgE.failed, doReadErr, doGetDiErr, doMoveErr] <;>
        (repeat' split) <;> exact hp
    · exact hp
  | offer r =>
    simp only [fireErr]; split
    · simp only [doOfferErr, CfgE.failed]; split <;> exact hp
    · exact hp
  | read =>
    simp only [fireErr]; split
    · simp only [doReadErr, CfgE.failed]; (repeat' split) <;> exact hp
    · exact hp
  | done i oc =>
    simp only [fireErr]; split
    · simp only [doDoneErr, CfgE.failed]; (repeat' split) <;> exact hp
    · exact hp
  | shutdown =>
    simp only [fireErr]; split
    · simp only [doShutdownErr, CfgE.failed]; split <;> exact hp
    · exact hp
  | wake =>
    simp only [fireErr]; split
    · simp only [doWakeErr, CfgE.failed]; (repeat' split) <;> exact hp
    · exact hp
  | cancel j => exact hp
  | promote j => exact hp

theorem invE_fireE {ce : CfgE} (h : InvE ce) (l : LabelE) : InvE (fireE ce l) := by
  cases l with
  | fail b =>
    rcases h with hp | hr
    · left; exact hp
    · right; exact hr
  | op l =>
    simp only [fireE]
    split
    · rcases h with hp | hr
      · left; exact poisoned_fireErr ce hp l
      · exact invR_fireErr ce hr l
    · rcases h with hp | hr
      · left; exact hp
      · right; exact invR_fire hr l

theorem invE_initE (k : Conf) : InvE (initE k) := by
  right
  refine InvR.mkDead rfl ⟨fun _ => rfl, ?_, ?_, ?_⟩ ?_
  · simp [initE, init, Store.R, Store.W]
  · intro i hi; simp [initE, init] at hi
  · simp [initE, init]
  · intro r hr; simp [initE, init] at hr

theorem invE_runE (k : Conf) (ls : List LabelE) : InvE (runE k ls) := by
  unfold runE
  suffices ∀ ce, InvE ce → InvE (ls.foldl fireE ce) from this _ (invE_initE k)
  induction ls with
  | nil => intro ce h; exact h
  | cons l ls ih => intro ce h; exact ih _ (invE_fireE h l)

/-- without failing calls the machine with storage errors IS the base machine -/
theorem runE_ops (k : Conf) (ls : List Label) :
    (runE k (ls.map .op)).base = run k ls ∧ (runE k (ls.map .op)).dropped = [] ∧
    (runE k (ls.map .op)).poisoned = false ∧ (runE k (ls.map .op)).failNext = false := by
  unfold runE run
  suffices ∀ (ce : CfgE), ce.failNext = false →
      ((ls.map LabelE.op).foldl fireE ce).base = ls.foldl fire ce.base ∧
      ((ls.map LabelE.op).foldl fireE ce).dropped = ce.dropped ∧
      ((ls.map LabelE.op).foldl fireE ce).poisoned = ce.poisoned ∧
      ((ls.map LabelE.op).foldl fireE ce).failNext = false from this (initE k) rfl
  induction ls with
  | nil => intro ce h; exact ⟨rfl, rfl, rfl, h⟩
  | cons l ls ih =>
    intro ce h
    simp only [List.map_cons, List.foldl_cons]
    have e : fireE ce (.op l) = { ce with base := fire ce.base l } := by simp [fireE, h]
    rw [e]
    exact ih _ h

/-- executable form of `Recoverable` (the indexes that can matter are those in `di` and below `wi`) -/
def recoverableB (s : Store) (r : Req) : Bool :=
  (s.di ++ (List.range s.W).filter (fun j => decide (s.R ≤ j))).any (fun j => s.items j == some r)

theorem recoverableB_of_recoverable {s : Store} {r : Req} (h : Recoverable s r) : recoverableB s r = true := by
  obtain ⟨j, hj, hc⟩ := h
  unfold recoverableB
  rw [List.any_eq_true]
  refine ⟨j, ?_, by simp [hj]⟩
  rw [List.mem_append]
  rcases hc with hd | ⟨h1, h2⟩
  · left; exact hd
  · right; simp [List.mem_filter, h1, h2]

end OtelVerif.C01
