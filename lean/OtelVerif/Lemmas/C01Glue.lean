import OtelVerif.Model.C01Glue
import OtelVerif.Lemmas.C01
/-!
# C01 — lemmas for the glue machine (`Model/C01Glue.lean`)

1. facts about the QUEUE machine that the glue needs: how `outst` (the pending hand-offs) and `finalised` evolve under
   every label, and that the indexes of the pending hand-offs are pairwise different (`OutInv`);
2. the glue invariant `GInv`: what the consumer goroutines hold is exactly backed by `outst`.
-/
namespace OtelVerif.C01

def outstOf (c : Cfg) : List (Nat × Req) :=
  match c.ph with
  | .live m _ => m.outst
  | .dead => []

/-! ## 1. the queue machine: evolution of `outst` -/

theorem doRead_outst (c : Cfg) (m : Mem) : outstOf (doRead c m) = m.outst := by
  unfold doRead; split
  · rfl
  · split <;> rfl

theorem doGetDi_outst (c : Cfg) (m : Mem) : outstOf (doGetDi c m) = m.outst := by
  unfold doGetDi; split <;> rfl

theorem doMove_outst (c : Cfg) (m : Mem) (todo : List (Nat × Option Req)) : outstOf (doMove c m todo) = m.outst := by
  unfold doMove; split <;> rfl

theorem doOffer_outst (c : Cfg) (m : Mem) (r : Req) (h : c.ph = .live m .idle) : outstOf (doOffer c m r) = m.outst := by
  unfold doOffer doOfferFull doPut
  split
  · split
    · simp [outstOf, h]
    · split
      · simp [outstOf, h]
      · rfl
  · rfl

theorem doWake_outst (c : Cfg) (m : Mem) (h : c.ph = .live m .idle) : outstOf (doWake c m) = m.outst := by
  unfold doWake doPut
  split
  · simp [outstOf, h]
  · split <;> rfl

theorem doPromote_outst (c : Cfg) (m : Mem) (j : Nat) (h : c.ph = .live m .idle) : outstOf (doPromote c m j) = m.outst := by
  unfold doPromote
  split
  · simp [outstOf, h]
  · rfl

/-- a tick other than the return of `Read` does not change the pending hand-offs -/
theorem doTick_outst (c : Cfg) (m : Mem) (pc : Pc) (h : c.ph = .live m pc) (hpc : ∀ i r, pc ≠ .readRet i r) :
    outstOf (doTick c m pc) = m.outst := by
  cases pc <;> simp only [doTick]
  any_goals rfl
  · simp [outstOf, h]
  · exact absurd rfl (hpc _ _)
  · exact doRead_outst c m
  · split
    · rfl
    · exact doGetDi_outst c m
  · exact doGetDi_outst c m
  · exact doMove_outst c m _

theorem doDone_outst (c : Cfg) (m : Mem) (i : Nat) (oc : Outcome) (h : c.ph = .live m .idle) :
    outstOf (doDone c m i oc) = m.outst.filter (fun p => p.1 != i) := by
  unfold doDone
  split
  · next hn =>
    -- nothing outstanding under i: the filter removes nothing
    have : m.outst.filter (fun p => p.1 != i) = m.outst := by
      rw [List.filter_eq_self]
      intro p hp
      rcases p with ⟨a, b⟩
      by_cases hai : a = i
      · subst hai
        have : m.outst.lookup a ≠ none := by
          intro hl
          rw [List.lookup_eq_none_iff] at hl
          have := hl (a, b) hp
          simp at this
        exact absurd hn this
      · simp [hai]
    simp [outstOf, h, this]
  · cases oc <;> rfl

/-- how the pending hand-offs evolve under ANY label of the queue machine -/
theorem outst_fire (c : Cfg) (l : Label) :
    outstOf (fire c l) = outstOf c ∨
    (∃ m i r, l = .tick ∧ c.ph = .live m (.readRet i r) ∧ outstOf (fire c l) = (i, r) :: outstOf c) ∨
    (∃ m i oc, l = .done i oc ∧ c.ph = .live m .idle ∧ outstOf (fire c l) = (outstOf c).filter (fun p => p.1 != i)) ∨
    (outstOf (fire c l) = [] ∧ (l = .crash ∨ (l = .start ∧ c.ph = .dead))) := by
  cases l with
  | crash => right; right; right; simp [fire, outstOf]
  | start =>
    simp only [fire]
    split
    · next h => right; right; right; exact ⟨rfl, by simp [h]⟩
    · left; rfl
  | tick =>
    simp only [fire]
    split
    · next m pc h =>
      by_cases hpc : ∃ i r, pc = .readRet i r
      · obtain ⟨i, r, rfl⟩ := hpc
        right; left
        exact ⟨m, i, r, trivial, h, by simp [doTick, outstOf, h]⟩
      · left
        rw [doTick_outst c m pc h (fun i r e => hpc ⟨i, r, e⟩)]
        simp [outstOf, h]
    · left; rfl
  | offer r =>
    left; simp only [fire]
    split
    · next m h => rw [doOffer_outst c m r h]; simp [outstOf, h]
    · rfl
  | read =>
    left; simp only [fire]
    split
    · next m h => rw [doRead_outst c m]; simp [outstOf, h]
    · rfl
  | done i oc =>
    simp only [fire]
    split
    · next m h =>
      right; right; left
      refine ⟨m, i, oc, rfl, h, ?_⟩
      rw [doDone_outst c m i oc h]; simp [outstOf, h]
    · left; rfl
  | shutdown =>
    left; simp only [fire]
    split
    · next m h => simp [doShutdown, outstOf, h]
    · rfl
  | wake =>
    left; simp only [fire]
    split
    · next m h => rw [doWake_outst c m h]; simp [outstOf, h]
    · rfl
  | cancel j =>
    left; simp only [fire]
    split
    · next m h => simp [doCancel, outstOf, h]
    · rfl
  | promote j =>
    left; simp only [fire]
    split
    · next m h => rw [doPromote_outst c m j h]; simp [outstOf, h]
    · rfl

/-! ## the indexes of the pending hand-offs are pairwise different

`Read` hands out index `readIndex` and increments it, so a pending hand-off always has an index below `readIndex`, and
the index about to be returned (`pc = readRet i r`) is above every pending one. -/

def OutOK (m : Mem) (pc : Pc) : Prop :=
  (m.outst.map Prod.fst).Nodup ∧ (∀ p ∈ m.outst, p.1 < m.ri) ∧
  (match pc with
   | .readRet i _ => i < m.ri ∧ ∀ p ∈ m.outst, p.1 < i
   | _ => True)

def OutInv (c : Cfg) : Prop :=
  match c.ph with
  | .dead => True
  | .live m pc => OutOK m pc

theorem OutInv.mk {c : Cfg} {m : Mem} {pc : Pc} (hph : c.ph = .live m pc) (h : OutOK m pc) : OutInv c := by
  unfold OutInv; rw [hph]; exact h

/-- same pending hand-offs, read index not smaller, and the new pc is not `readRet` -/
theorem OutOK.keep {m m' : Mem} {pc pc' : Pc} (h : OutOK m pc) (ho : m'.outst = m.outst) (hr : m.ri ≤ m'.ri)
    (hpc : ∀ i r, pc' ≠ .readRet i r) : OutOK m' pc' := by
  refine ⟨by rw [ho]; exact h.1, ?_, ?_⟩
  · intro p hp; rw [ho] at hp; have := h.2.1 p hp; omega
  · cases pc' <;> first | trivial | exact absurd rfl (hpc _ _)

/-- close `OutInv`/`OutOK` goals whose memory keeps `outst`, does not lower `ri`, and whose pc is visibly not `readRet` -/
macro "keep_ok " h:term : tactic =>
  `(tactic| (refine OutInv.mk rfl ?_; exact OutOK.keep $h rfl (by first | exact Nat.le_refl _ | exact Nat.le_succ _) (by intro i r e; cases e)))

theorem outInv_doRead {c : Cfg} {m : Mem} {pc : Pc} (h : OutOK m pc) : OutInv (doRead c m) := by
  unfold doRead
  split
  · keep_ok h
  · split
    · keep_ok h
    · cases hitem : c.st.items m.ri with
      | none =>
        keep_ok h
      | some r =>
        refine OutInv.mk rfl ?_
        refine ⟨h.1, ?_, ?_⟩
        · intro p hp; have := h.2.1 p hp; show p.1 < m.ri + 1; omega
        · exact ⟨Nat.lt_succ_self _, h.2.1⟩

theorem outInv_doGetDi {c : Cfg} {m : Mem} {pc : Pc} (h : OutOK m pc) : OutInv (doGetDi c m) := by
  unfold doGetDi
  split <;> keep_ok h

theorem outInv_doMove {c : Cfg} {m : Mem} {pc : Pc} (h : OutOK m pc) (todo : List (Nat × Option Req)) :
    OutInv (doMove c m todo) := by
  unfold doMove
  split
  · keep_ok h
  · refine OutInv.mk rfl ?_
    refine h.keep rfl (Nat.le_refl _) ?_
    intro i r e; unfold afterMove at e; split at e <;> cases e
  · refine OutInv.mk rfl ?_
    refine h.keep rfl (Nat.le_refl _) ?_
    intro i r e
    split at e
    · cases e
    · unfold afterMove at e; split at e <;> cases e

theorem outInv_doPut {c : Cfg} {m : Mem} {pc : Pc} (h : OutOK m pc) (r : Req) : OutInv (doPut c m r) := by
  unfold doPut
  refine OutInv.mk rfl ?_
  refine h.keep rfl (Nat.le_refl _) ?_
  intro i r e; split at e <;> cases e

theorem finCont_ne (k : Conf) (m : Mem) (fk : FinK) : ∀ i r, finCont k m fk ≠ .readRet i r := by
  intro i r e
  cases fk
  · cases e
  · simp only [finCont] at e; split at e <;> cases e

theorem outInv_doTick {c : Cfg} {m : Mem} {pc : Pc} (hph : c.ph = .live m pc) (h : OutOK m pc) : OutInv (doTick c m pc) := by
  cases pc <;> simp only [doTick]
  · exact OutInv.mk hph h
  · keep_ok h
  · next i r =>
    -- `Read` returns: the index becomes pending; it is above every pending one
    obtain ⟨hn, hb, hi, hlt⟩ := h
    refine OutInv.mk rfl ?_
    refine ⟨?_, ?_, trivial⟩
    · simp only [List.map_cons, List.nodup_cons]
      refine ⟨?_, hn⟩
      intro hmem
      obtain ⟨p, hp, hpe⟩ := List.mem_map.mp hmem
      have := hlt p hp
      omega
    · intro p hp
      rcases List.mem_cons.mp hp with rfl | hp
      · exact hi
      · exact hb p hp
  · keep_ok h
  · exact outInv_doRead h
  · split
    · keep_ok h
    · exact outInv_doGetDi h
  · exact outInv_doGetDi h
  · keep_ok h
  · exact outInv_doMove h _
  · refine OutInv.mk rfl ?_
    refine h.keep rfl (Nat.le_refl _) ?_
    intro i r e; unfold afterMove at e; split at e <;> cases e
  · refine OutInv.mk rfl ?_
    exact h.keep rfl (Nat.le_refl _) (finCont_ne _ _ _)
  · keep_ok h
  · refine OutInv.mk rfl ?_
    exact h.keep rfl (Nat.le_refl _) (finCont_ne _ _ _)

theorem outInv_doDone {c : Cfg} {m : Mem} (h : OutOK m .idle) (i : Nat) (oc : Outcome) (hph : c.ph = .live m .idle) :
    OutInv (doDone c m i oc) := by
  have hsub : ∀ p ∈ m.outst.filter (fun p => p.1 != i), p ∈ m.outst := fun p hp => (List.mem_filter.mp hp).1
  have hnd : ((m.outst.filter (fun p => p.1 != i)).map Prod.fst).Nodup :=
    List.Sublist.nodup (List.Sublist.map _ List.filter_sublist) h.1
  unfold doDone
  split
  · simp only [OutInv, hph]; exact h
  · cases oc
    · refine OutInv.mk rfl ?_
      refine ⟨hnd, fun p hp => h.2.1 p (hsub p hp), ?_⟩
      cases hb : readBackupDue c.k m.ri <;> simp
    · refine OutInv.mk rfl ?_
      exact ⟨hnd, fun p hp => h.2.1 p (hsub p hp), trivial⟩

theorem outInv_fire {c : Cfg} (h : OutInv c) (l : Label) : OutInv (fire c l) := by
  cases l with
  | crash => trivial
  | start =>
    simp only [fire]
    split
    · refine OutInv.mk rfl ?_
      exact ⟨by simp, by simp, trivial⟩
    · exact h
  | tick =>
    simp only [fire]
    split
    · next m pc hph => simp only [OutInv, hph] at h; exact outInv_doTick hph h
    · exact h
  | offer r =>
    simp only [fire]
    split
    · next m hph =>
      simp only [OutInv, hph] at h
      unfold doOffer doOfferFull
      split
      · split
        · simp only [OutInv, hph]; exact h
        · split
          · simp only [OutInv, hph]; exact h
          · keep_ok h
      · exact outInv_doPut h r
    · exact h
  | read =>
    simp only [fire]
    split
    · next m hph => simp only [OutInv, hph] at h; exact outInv_doRead h
    · exact h
  | done i oc =>
    simp only [fire]
    split
    · next m hph => simp only [OutInv, hph] at h; exact outInv_doDone h i oc hph
    · exact h
  | shutdown =>
    simp only [fire]
    split
    · next m hph =>
      simp only [OutInv, hph] at h
      keep_ok h
    · exact h
  | wake =>
    simp only [fire]
    split
    · next m hph =>
      simp only [OutInv, hph] at h
      unfold doWake
      split
      · simp only [OutInv, hph]; exact h
      · split
        · keep_ok h
        · next r rest _ _ =>
          exact outInv_doPut (pc := .idle) (m := { m with waiting := rest })
            (h.keep rfl (Nat.le_refl _) (by intro i r e; cases e)) _
    · exact h
  | cancel j =>
    simp only [fire]
    split
    · next m hph =>
      simp only [OutInv, hph] at h
      keep_ok h
    · exact h
  | promote j =>
    simp only [fire]
    split
    · next m hph =>
      simp only [OutInv, hph] at h
      unfold doPromote
      split
      · simp only [OutInv, hph]; exact h
      · keep_ok h
    · exact h

theorem outInv_foldl (ls : List Label) : ∀ c, OutInv c → OutInv (ls.foldl fire c) := by
  induction ls with
  | nil => intro c h; exact h
  | cons l ls ih => intro c h; exact ih _ (outInv_fire h l)

theorem outInv_run (k : Conf) (ls : List Label) : OutInv (run k ls) := outInv_foldl ls _ trivial

/-! ## the queue machine: evolution of `finalised` and of the result `doneUnknown` -/

theorem doRead_fin (c : Cfg) (m : Mem) : (doRead c m).finalised = c.finalised ∧ (doRead c m).res ≠ .doneUnknown := by
  unfold doRead; split
  · exact ⟨rfl, by simp⟩
  · split
    · exact ⟨rfl, by simp⟩
    · exact ⟨rfl, by simp⟩

theorem doGetDi_fin (c : Cfg) (m : Mem) : (doGetDi c m).finalised = c.finalised ∧ (doGetDi c m).res = c.res := by
  unfold doGetDi; split <;> exact ⟨rfl, rfl⟩

theorem doMove_fin (c : Cfg) (m : Mem) (todo : List (Nat × Option Req)) :
    (doMove c m todo).finalised = c.finalised ∧ (doMove c m todo).res = c.res := by
  unfold doMove; split <;> exact ⟨rfl, rfl⟩

theorem doTick_fin (c : Cfg) (m : Mem) (pc : Pc) :
    (doTick c m pc).finalised = c.finalised ∧ ((doTick c m pc).res = .doneUnknown → c.res = .doneUnknown) := by
  cases pc with
  | readRet i r => exact ⟨rfl, fun h => by cases h⟩
  | readLoop => exact ⟨(doRead_fin c m).1, fun h => absurd h (doRead_fin c m).2⟩
  | init1 =>
    show (if m.size > 0 ∧ c.k.reqSized = false then _ else doGetDi c m).finalised = _ ∧
      ((if m.size > 0 ∧ c.k.reqSized = false then _ else doGetDi c m).res = _ → _)
    split
    · exact ⟨rfl, fun h => h⟩
    · exact ⟨(doGetDi_fin c m).1, fun h => by rw [(doGetDi_fin c m).2] at h; exact h⟩
  | init2 => exact ⟨(doGetDi_fin c m).1, fun h => by
      have h' : (doGetDi c m).res = .doneUnknown := h
      rw [(doGetDi_fin c m).2] at h'; exact h'⟩
  | moving todo => exact ⟨(doMove_fin c m _).1, fun h => by
      have h' : (doMove c m todo).res = .doneUnknown := h
      rw [(doMove_fin c m _).2] at h'; exact h'⟩
  | _ => exact ⟨rfl, fun h => h⟩

theorem doOffer_fin (c : Cfg) (m : Mem) (r : Req) :
    (doOffer c m r).finalised = c.finalised ∧ (doOffer c m r).res ≠ .doneUnknown := by
  unfold doOffer doOfferFull doPut
  split
  · split
    · exact ⟨rfl, by simp⟩
    · split <;> exact ⟨rfl, by simp⟩
  · exact ⟨rfl, by simp⟩

theorem doWake_fin (c : Cfg) (m : Mem) :
    (doWake c m).finalised = c.finalised ∧ ((doWake c m).res = .doneUnknown → c.res = .doneUnknown) := by
  unfold doWake doPut
  split
  · exact ⟨rfl, fun h => h⟩
  · split <;> exact ⟨rfl, fun h => by cases h⟩

theorem doPromote_fin (c : Cfg) (m : Mem) (j : Nat) :
    (doPromote c m j).finalised = c.finalised ∧ (doPromote c m j).res = c.res := by
  unfold doPromote; split <;> exact ⟨rfl, rfl⟩

/-- every label other than `done` leaves `finalised` alone and cannot produce the result `doneUnknown` -/
theorem fin_fire_other (c : Cfg) (l : Label) (hl : ∀ i oc, l ≠ .done i oc) :
    (fire c l).finalised = c.finalised ∧ ((fire c l).res = .doneUnknown → c.res = .doneUnknown) := by
  cases l with
  | crash => exact ⟨rfl, fun h => h⟩
  | start =>
    simp only [fire]; split
    · exact ⟨rfl, fun h => by cases h⟩
    · exact ⟨rfl, fun h => h⟩
  | tick =>
    simp only [fire]; split
    · exact doTick_fin c _ _
    · exact ⟨rfl, fun h => h⟩
  | offer r =>
    simp only [fire]; split
    · exact ⟨(doOffer_fin c _ r).1, fun h => absurd h (doOffer_fin c _ r).2⟩
    · exact ⟨rfl, fun h => h⟩
  | read =>
    simp only [fire]; split
    · exact ⟨(doRead_fin c _).1, fun h => absurd h (doRead_fin c _).2⟩
    · exact ⟨rfl, fun h => h⟩
  | done i oc => exact absurd rfl (hl i oc)
  | shutdown =>
    simp only [fire]; split
    · exact ⟨rfl, fun h => by cases h⟩
    · exact ⟨rfl, fun h => h⟩
  | wake =>
    simp only [fire]; split
    · exact doWake_fin c _
    · exact ⟨rfl, fun h => h⟩
  | cancel j =>
    simp only [fire]; split
    · exact ⟨rfl, fun h => by cases h⟩
    · exact ⟨rfl, fun h => h⟩
  | promote j =>
    simp only [fire]; split
    · exact ⟨(doPromote_fin c _ j).1, fun h => by rw [(doPromote_fin c _ j).2] at h; exact h⟩
    · exact ⟨rfl, fun h => h⟩

/-- `done i oc` on an index that IS pending: the result is `doneOk`, and `finalised` grows by the pending request exactly
    when the outcome is final -/
theorem done_pending {c : Cfg} {m : Mem} {i : Nat} {r : Req} (oc : Outcome) (h : c.ph = .live m .idle)
    (hl : m.outst.lookup i = some r) :
    (fire c (.done i oc)).res = .doneOk ∧
    (fire c (.done i oc)).finalised = (match oc with | .final => r :: c.finalised | .shutdownErr => c.finalised) := by
  have e : fire c (.done i oc) = doDone c m i oc := by simp only [fire, h]
  rw [e]
  unfold doDone
  rw [hl]
  cases oc <;> exact ⟨rfl, rfl⟩

theorem lookup_of_mem_nodup {i : Nat} {r : Req} : ∀ {l : List (Nat × Req)}, (l.map Prod.fst).Nodup → (i, r) ∈ l →
    l.lookup i = some r
  | [], _, h => by cases h
  | (a, b) :: t, hn, h => by
    simp only [List.map_cons, List.nodup_cons] at hn
    rcases List.mem_cons.mp h with e | h'
    · cases e; simp [List.lookup]
    · have hai : i ≠ a := by
        intro e; subst e
        exact hn.1 (List.mem_map.mpr ⟨(i, r), h', rfl⟩)
      have : (i == a) = false := by simp [hai]
      simp only [List.lookup, this]
      exact lookup_of_mem_nodup hn.2 h'

/-! ## 2. the glue invariant -/

/-- what the consumer goroutines hold is backed by the pending hand-offs of the queue, and no two goroutines hold the
    same index -/
structure HeldOK (cs : List CPc) (out : List (Nat × Req)) : Prop where
  mem : ∀ (j : Nat) (p : CPc) (h : Nat × Req), cs[j]? = some p → p.held = some h → h ∈ out
  inj : ∀ (j1 j2 : Nat) (p1 p2 : CPc) (h1 h2 : Nat × Req), cs[j1]? = some p1 → cs[j2]? = some p2 →
    p1.held = some h1 → p2.held = some h2 → h1.1 = h2.1 → j1 = j2

theorem getElem?_set_cases {cs : List CPc} {j j' : Nat} {p' p : CPc} (h : (cs.set j p')[j']? = some p) :
    (j' = j ∧ p = p') ∨ (j' ≠ j ∧ cs[j']? = some p) := by
  rw [List.getElem?_set] at h
  split at h
  · next e =>
    subst e
    split at h
    · left; exact ⟨rfl, by injection h with h; exact h.symm⟩
    · cases h
  · next e => right; exact ⟨fun e' => e e'.symm, h⟩

theorem HeldOK.nil (out : List (Nat × Req)) : HeldOK [] out :=
  ⟨fun j p h hj _ => by simp at hj, fun j1 j2 p1 p2 h1 h2 hj _ _ _ _ => by simp at hj⟩

theorem HeldOK.replicate (n : Nat) (out : List (Nat × Req)) : HeldOK (List.replicate n CPc.idle) out := by
  have : ∀ (j : Nat) (p : CPc), (List.replicate n CPc.idle)[j]? = some p → p = CPc.idle := by
    intro j p hj
    rw [List.getElem?_replicate] at hj
    split at hj
    · injection hj with hj; exact hj.symm
    · cases hj
  constructor
  · intro j p h hj hh
    have e := this j p hj
    subst e
    cases hh
  · intro j1 j2 p1 p2 h1 h2 hj _ hh _ _
    have e := this j1 p1 hj
    subst e
    cases hh

/-- the goroutine's new state holds nothing -/
theorem HeldOK.set_none {cs : List CPc} {out : List (Nat × Req)} (h : HeldOK cs out) (j : Nat) {p' : CPc}
    (hp : p'.held = none) : HeldOK (cs.set j p') out := by
  constructor
  · intro j' p hh hj hheld
    rcases getElem?_set_cases hj with ⟨_, rfl⟩ | ⟨_, hj⟩
    · rw [hp] at hheld; cases hheld
    · exact h.mem j' p hh hj hheld
  · intro j1 j2 p1 p2 h1 h2 hj1 hj2 hh1 hh2 he
    rcases getElem?_set_cases hj1 with ⟨_, rfl⟩ | ⟨_, hk1⟩
    · rw [hp] at hh1; cases hh1
    · rcases getElem?_set_cases hj2 with ⟨_, rfl⟩ | ⟨_, hk2⟩
      · rw [hp] at hh2; cases hh2
      · exact h.inj j1 j2 p1 p2 h1 h2 hk1 hk2 hh1 hh2 he

/-- the goroutine's new state holds what its old state held -/
theorem HeldOK.set_same {cs : List CPc} {out : List (Nat × Req)} (h : HeldOK cs out) {j : Nat} {p0 p' : CPc}
    (hj0 : cs[j]? = some p0) (hp : p'.held = p0.held) : HeldOK (cs.set j p') out := by
  constructor
  · intro j' p hh hj hheld
    rcases getElem?_set_cases hj with ⟨_, rfl⟩ | ⟨_, hj⟩
    · rw [hp] at hheld; exact h.mem j p0 hh hj0 hheld
    · exact h.mem j' p hh hj hheld
  · intro j1 j2 p1 p2 h1 h2 hj1 hj2 hh1 hh2 he
    rcases getElem?_set_cases hj1 with ⟨e1, rfl⟩ | ⟨n1, hk1⟩
    · rcases getElem?_set_cases hj2 with ⟨e2, rfl⟩ | ⟨n2, hk2⟩
      · rw [e1, e2]
      · rw [hp] at hh1; rw [e1]; exact h.inj j j2 p0 p2 h1 h2 hj0 hk2 hh1 hh2 he
    · rcases getElem?_set_cases hj2 with ⟨e2, rfl⟩ | ⟨n2, hk2⟩
      · rw [hp] at hh2; rw [e2]; exact h.inj j1 j p1 p0 h1 h2 hk1 hj0 hh1 hh2 he
      · exact h.inj j1 j2 p1 p2 h1 h2 hk1 hk2 hh1 hh2 he

theorem HeldOK.mono {cs : List CPc} {out out' : List (Nat × Req)} (h : HeldOK cs out) (hs : ∀ x ∈ out, x ∈ out') :
    HeldOK cs out' :=
  ⟨fun j p hh hj hheld => hs _ (h.mem j p hh hj hheld), h.inj⟩

/-- `Read` returns (i, r) to goroutine j: the index is new among the pending ones -/
theorem HeldOK.set_new {cs : List CPc} {out : List (Nat × Req)} (h : HeldOK cs out) (j : Nat) {p' : CPc} {i : Nat} {r : Req}
    (hnew : ∀ x ∈ out, x.1 ≠ i) (hp : p'.held = some (i, r)) : HeldOK (cs.set j p') ((i, r) :: out) := by
  constructor
  · intro j' p hh hj hheld
    rcases getElem?_set_cases hj with ⟨_, rfl⟩ | ⟨_, hj⟩
    · rw [hp] at hheld; injection hheld with e; rw [← e]; exact List.mem_cons_self
    · exact List.mem_cons_of_mem _ (h.mem j' p hh hj hheld)
  · intro j1 j2 p1 p2 h1 h2 hj1 hj2 hh1 hh2 he
    rcases getElem?_set_cases hj1 with ⟨e1, rfl⟩ | ⟨n1, hk1⟩
    · rcases getElem?_set_cases hj2 with ⟨e2, rfl⟩ | ⟨n2, hk2⟩
      · rw [e1, e2]
      · rw [hp] at hh1; injection hh1 with e; subst e
        exact absurd he.symm (hnew h2 (h.mem j2 p2 h2 hk2 hh2))
    · rcases getElem?_set_cases hj2 with ⟨e2, rfl⟩ | ⟨n2, hk2⟩
      · rw [hp] at hh2; injection hh2 with e; subst e
        exact absurd he (hnew h1 (h.mem j1 p1 h1 hk1 hh1))
      · exact h.inj j1 j2 p1 p2 h1 h2 hk1 hk2 hh1 hh2 he

/-- goroutine j hands (i, r) back (`OnDone`): the pending hand-offs lose index i, nobody else held it -/
theorem HeldOK.set_done {cs : List CPc} {out : List (Nat × Req)} (h : HeldOK cs out) {j : Nat} {p0 p' : CPc} {i : Nat} {r : Req}
    (hj0 : cs[j]? = some p0) (hp0 : p0.held = some (i, r)) (hp : p'.held = none) :
    HeldOK (cs.set j p') (out.filter (fun p => p.1 != i)) := by
  constructor
  · intro j' p hh hj hheld
    rcases getElem?_set_cases hj with ⟨_, rfl⟩ | ⟨n, hj⟩
    · rw [hp] at hheld; cases hheld
    · refine List.mem_filter.mpr ⟨h.mem j' p hh hj hheld, ?_⟩
      have : hh.1 ≠ i := fun e => n (h.inj j' j p p0 hh (i, r) hj hj0 hheld hp0 e)
      simp [this]
  · exact ((h.set_none j hp).mono (fun x hx => hx)).inj

/-- which histories back the goroutine states: a request being exported was `invoked`; one whose export came back
    (waiting in the back-off, or about to be reported to `OnDone`) is in `returned` -/
def CPc.backed (inv ret : List Req) : CPc → Prop
  | .sending _ r => r ∈ inv
  | .backoff _ r _ => r ∈ ret
  | .ret _ r _ => r ∈ ret
  | _ => True

structure GInv (g : GCfg) : Prop where
  out : OutInv g.q
  held : HeldOK g.cons (outstOf g.q)
  backed : ∀ (j : Nat) (p : CPc), g.cons[j]? = some p → p.backed g.invoked g.returned
  sub : ∀ r ∈ g.returned, r ∈ g.invoked
  fin : ∀ r ∈ g.q.finalised, r ∈ g.returned
  unk : g.q.res ≠ .doneUnknown

theorem settle_q (g : GCfg) : (settle g).q = g.q ∧ (settle g).emitted = g.emitted ∧ (settle g).invoked = g.invoked ∧
    (settle g).returned = g.returned ∧ (settle g).stopCh = g.stopCh ∧ (settle g).gk = g.gk := by
  unfold settle
  split
  · exact ⟨rfl, rfl, rfl, rfl, rfl, rfl⟩
  · split <;> exact ⟨rfl, rfl, rfl, rfl, rfl, rfl⟩

theorem settle_cons (g : GCfg) : (settle g).cons = g.cons ∨ ∃ j p, (settle g).cons = g.cons.set j p ∧ (p = .idle ∨ p = .exited) := by
  unfold settle
  split
  · left; rfl
  · next j k _ =>
    split
    · right
      refine ⟨j, _, rfl, ?_⟩
      split
      · right; rfl
      · left; rfl
    · left; rfl

theorem backed_set {cs : List CPc} {inv ret : List Req} (h : ∀ (j : Nat) (p : CPc), cs[j]? = some p → p.backed inv ret) (j : Nat) {p' : CPc}
    (hp : p'.backed inv ret) : ∀ (j' : Nat) (p : CPc), (cs.set j p')[j']? = some p → p.backed inv ret := by
  intro j' p hj
  rcases getElem?_set_cases hj with ⟨_, rfl⟩ | ⟨_, hj⟩
  · exact hp
  · exact h j' p hj

theorem CPc.backed_mono {inv ret inv' ret' : List Req} (hi : ∀ r ∈ inv, r ∈ inv') (hr : ∀ r ∈ ret, r ∈ ret') :
    ∀ {p : CPc}, p.backed inv ret → p.backed inv' ret'
  | .idle, _ => trivial
  | .inQueue, _ => trivial
  | .got _ _, _ => trivial
  | .sending _ _, h => hi _ h
  | .backoff _ _ _, h => hr _ h
  | .ret _ _ _, h => hr _ h
  | .exited, _ => trivial

theorem GInv.settle {g : GCfg} (h : GInv g) : GInv (settle g) := by
  obtain ⟨hq, he, hi, hr, _, _⟩ := settle_q g
  have hc := settle_cons g
  refine ⟨by rw [hq]; exact h.out, ?_, ?_, by rw [hi, hr]; exact h.sub, by rw [hq, hr]; exact h.fin, by rw [hq]; exact h.unk⟩
  · rw [hq]
    rcases hc with e | ⟨j, p, e, hp⟩
    · rw [e]; exact h.held
    · rw [e]; exact h.held.set_none j (by rcases hp with rfl | rfl <;> rfl)
  · rw [hi, hr]
    rcases hc with e | ⟨j, p, e, hp⟩
    · rw [e]; exact h.backed
    · rw [e]; exact backed_set h.backed j (by rcases hp with rfl | rfl <;> trivial)

/-- a label of the queue machine other than `done`, `crash`, `start`, fired without touching the goroutines: the glue
    invariant survives (the return of `Read` with nobody to take the item only adds a pending hand-off) -/
theorem GInv.qfire_plain {g : GCfg} (h : GInv g) (l : Label) (hl : ∀ i oc, l ≠ .done i oc) (hc : l ≠ .crash)
    (hs : l ≠ .start) : GInv (qfire g l) := by
  have hout : ∀ x ∈ outstOf g.q, x ∈ outstOf (fire g.q l) := by
    rcases outst_fire g.q l with e | ⟨m, i, r, _, _, e⟩ | ⟨m, i, oc, e, _⟩ | ⟨_, e | ⟨e, _⟩⟩
    · rw [e]; exact fun x hx => hx
    · rw [e]; exact fun x hx => List.mem_cons_of_mem _ hx
    · exact absurd e (hl i oc)
    · exact absurd e hc
    · exact absurd e hs
  have hf := fin_fire_other g.q l hl
  refine ⟨outInv_fire h.out l, h.held.mono hout, h.backed, h.sub, ?_, ?_⟩
  · show ∀ r ∈ (fire g.q l).finalised, r ∈ g.returned; rw [hf.1]; exact h.fin
  · exact fun e => h.unk (hf.2 e)

end OtelVerif.C01
