import OtelVerif.Lemmas.C01Glue
/-!
# C01 — the glue invariant is preserved by every glue label; the queue component of a glue run is a run of the queue machine
-/
namespace OtelVerif.C01

/-! ### unfolding `fireG` one label at a time -/

theorem fireG_crash (g : GCfg) : fireG g (.env .crash) = { qfire g .crash with cons := [], inOp := none } := rfl
theorem fireG_start (g : GCfg) : fireG g (.env .start) =
    (match g.q.ph with
     | .dead => { qfire g .start with cons := List.replicate g.gk.n .idle, inOp := none, stopCh := false }
     | _ => g) := rfl
theorem fireG_tick (g : GCfg) : fireG g (.env .tick) =
    (match g.q.ph, g.inOp with
     | .live _ (.readRet i r), some (j, .read) => { qfire g .tick with inOp := none, cons := g.cons.set j (.got i r) }
     | _, _ => settle (qfire g .tick)) := rfl
theorem fireG_offer (g : GCfg) (r : Req) : fireG g (.env (.offer r)) = settle (qfire g (.offer r)) := rfl
theorem fireG_shutdown (g : GCfg) : fireG g (.env .shutdown) = settle (qfire g .shutdown) := rfl
theorem fireG_wake (g : GCfg) : fireG g (.env .wake) = settle (qfire g .wake) := rfl
theorem fireG_cancel (g : GCfg) (j : Nat) : fireG g (.env (.cancel j)) = settle (qfire g (.cancel j)) := rfl
theorem fireG_promote (g : GCfg) (j : Nat) : fireG g (.env (.promote j)) = settle (qfire g (.promote j)) := rfl
theorem fireG_cRead (g : GCfg) (j : Nat) : fireG g (.cRead j) =
    (if g.inOp = none ∧ g.q.idle = true ∧ g.cons[j]? = some .idle then
       settle { qfire g .read with inOp := some (j, .read), cons := g.cons.set j .inQueue }
     else g) := rfl
theorem fireG_cInvoke (g : GCfg) (j : Nat) : fireG g (.cInvoke j) =
    (match g.cons[j]? with
     | some (.got i r) => { g with cons := g.cons.set j (.sending i r), invoked := r :: g.invoked }
     | _ => g) := rfl
theorem fireG_expRet (g : GCfg) (j : Nat) (res : ExpRes) : fireG g (.expRet j res) =
    (match g.cons[j]? with
     | some (.sending i r) =>
       let g1 := { g with returned := r :: g.returned }
       match res with
       | .ok => { g1 with cons := g.cons.set j (.ret i r none) }
       | .err t perm =>
         if g.gk.retry = false ∨ perm = true then { g1 with cons := g.cons.set j (.ret i r (some (permErr g.gk.retry t))) }
         else { g1 with cons := g.cons.set j (.backoff i r t) }
     | _ => g) := rfl
theorem fireG_backoffEnd (g : GCfg) (j : Nat) (why : BackoffEnd) : fireG g (.backoffEnd j why) =
    (match g.cons[j]? with
     | some (.backoff i r t) =>
       match why with
       | .exhausted => { g with cons := g.cons.set j (.ret i r (some (.wrap t))) }
       | .ctxDone => { g with cons := g.cons.set j (.ret i r (some (.wrap t))) }
       | .stop => if g.stopCh then { g with cons := g.cons.set j (.ret i r (some (.shutdown t))) } else g
       | .timer => { g with cons := g.cons.set j (.sending i r), invoked := r :: g.invoked }
     | _ => g) := rfl
theorem fireG_cDone (g : GCfg) (j : Nat) : fireG g (.cDone j) =
    (if g.inOp = none ∧ g.q.idle = true then
      match g.cons[j]? with
      | some (.ret i _ e) =>
        settle { qfire g (.done i (outcomeOf e)) with inOp := some (j, .done), cons := g.cons.set j .inQueue }
      | _ => g
    else g) := rfl

/-! ### the queue component -/

/-- one glue label fires at most one label of the queue machine, and records it -/
def QStep (g g' : GCfg) : Prop :=
  (g'.q = g.q ∧ g'.emitted = g.emitted) ∨ ∃ l, g'.q = fire g.q l ∧ g'.emitted = l :: g.emitted

theorem QStep.settle {g g' : GCfg} (h : QStep g g') : QStep g (settle g') := by
  obtain ⟨hq, he, _⟩ := settle_q g'
  unfold QStep; rw [hq, he]; exact h

theorem qstep_qfire (g : GCfg) (l : Label) : QStep g (qfire g l) := Or.inr ⟨l, rfl, rfl⟩

theorem qstep_fireG (g : GCfg) (l : GLabel) : QStep g (fireG g l) := by
  cases l with
  | env l =>
    cases l with
    | read => exact Or.inl ⟨rfl, rfl⟩
    | done i oc => exact Or.inl ⟨rfl, rfl⟩
    | crash => rw [fireG_crash]; exact Or.inr ⟨.crash, rfl, rfl⟩
    | start =>
      rw [fireG_start]
      split
      · exact Or.inr ⟨.start, rfl, rfl⟩
      · exact Or.inl ⟨rfl, rfl⟩
    | tick =>
      rw [fireG_tick]
      split
      · exact Or.inr ⟨.tick, rfl, rfl⟩
      · exact (qstep_qfire g .tick).settle
    | offer r => rw [fireG_offer]; exact (qstep_qfire g _).settle
    | shutdown => rw [fireG_shutdown]; exact (qstep_qfire g _).settle
    | wake => rw [fireG_wake]; exact (qstep_qfire g _).settle
    | cancel j => rw [fireG_cancel]; exact (qstep_qfire g _).settle
    | promote j => rw [fireG_promote]; exact (qstep_qfire g _).settle
  | cRead j =>
    rw [fireG_cRead]
    split
    · exact QStep.settle (Or.inr ⟨.read, rfl, rfl⟩)
    · exact Or.inl ⟨rfl, rfl⟩
  | cInvoke j =>
    rw [fireG_cInvoke]
    split <;> exact Or.inl ⟨rfl, rfl⟩
  | expRet j res =>
    rw [fireG_expRet]
    split
    · cases res with
      | ok => exact Or.inl ⟨rfl, rfl⟩
      | err t perm => dsimp only; split <;> exact Or.inl ⟨rfl, rfl⟩
    · exact Or.inl ⟨rfl, rfl⟩
  | backoffEnd j why =>
    rw [fireG_backoffEnd]
    split
    · cases why with
      | stop => dsimp only; split <;> exact Or.inl ⟨rfl, rfl⟩
      | _ => exact Or.inl ⟨rfl, rfl⟩
    · exact Or.inl ⟨rfl, rfl⟩
  | cDone j =>
    rw [fireG_cDone]
    split
    · split
      · exact QStep.settle (Or.inr ⟨_, rfl, rfl⟩)
      · exact Or.inl ⟨rfl, rfl⟩
    · exact Or.inl ⟨rfl, rfl⟩
  | rsShutdown => exact Or.inl ⟨rfl, rfl⟩

theorem refines_foldl (k : Conf) (ls : List GLabel) : ∀ g : GCfg, g.q = run k g.emitted.reverse →
    (ls.foldl fireG g).q = run k (ls.foldl fireG g).emitted.reverse := by
  induction ls with
  | nil => intro g h; exact h
  | cons l ls ih =>
    intro g h
    apply ih
    rcases qstep_fireG g l with ⟨hq, he⟩ | ⟨l', hq, he⟩
    · rw [hq, he]; exact h
    · rw [hq, he, h]; simp [run, List.foldl_append]

/-! ### the glue invariant -/

theorem GInv.init (gk : GConf) (k : Conf) : GInv (initG gk k) :=
  ⟨trivial, HeldOK.nil _, fun j p hj => (by simp [initG] at hj), fun r hr => (by cases hr),
   fun r hr => (by simp [initG, OtelVerif.C01.init] at hr), (by simp [initG, OtelVerif.C01.init])⟩

theorem GInv.fireG {g : GCfg} (h : GInv g) (l : GLabel) : GInv (fireG g l) := by
  cases l with
  | env l =>
    cases l with
    | read => exact h
    | done i oc => exact h
    | crash =>
      rw [fireG_crash]
      have hf := fin_fire_other g.q .crash (by intro i oc e; cases e)
      exact ⟨outInv_fire h.out .crash, HeldOK.nil _, fun j p hj => by simp at hj, h.sub,
             fun r hr => h.fin r hr, fun e => h.unk (hf.2 e)⟩
    | start =>
      rw [fireG_start]
      split
      · have hf := fin_fire_other g.q .start (by intro i oc e; cases e)
        refine ⟨outInv_fire h.out .start, HeldOK.replicate _ _, ?_, h.sub, ?_, fun e => h.unk (hf.2 e)⟩
        rotate_left
        · intro r hr
          have hr' : r ∈ (fire g.q .start).finalised := hr
          rw [hf.1] at hr'; exact h.fin r hr'
        intro j p hj
        have hj' : (List.replicate g.gk.n CPc.idle)[j]? = some p := hj
        rw [List.getElem?_replicate] at hj'
        split at hj'
        · injection hj' with hj'; rw [← hj']; trivial
        · cases hj'
      · exact h
    | tick =>
      rw [fireG_tick]
      split
      · next m i r j hph _ =>
        -- `Read` returns (i, r) to goroutine j
        have hout : outstOf (fire g.q .tick) = (i, r) :: outstOf g.q := by
          rcases outst_fire g.q .tick with e | ⟨m', i', r', _, hph', e⟩ | ⟨_, _, _, e, _⟩ | ⟨_, e | ⟨e, _⟩⟩
          · exfalso
            have : outstOf (fire g.q .tick) = (i, r) :: m.outst := by
              rw [show fire g.q .tick = doTick g.q m (.readRet i r) by simp only [fire, hph]]; rfl
            rw [this] at e
            have : outstOf g.q = m.outst := by unfold outstOf; rw [hph]
            rw [this] at e
            exact absurd (congrArg List.length e) (by simp)
          · rw [hph] at hph'; cases hph'; exact e
          · cases e
          · cases e
          · cases e
        have hf := fin_fire_other g.q .tick (by intro i oc e; cases e)
        have hnew : ∀ x ∈ outstOf g.q, x.1 ≠ i := by
          have hok : OutOK m (.readRet i r) := by have := h.out; unfold OutInv at this; rw [hph] at this; exact this
          intro x hx
          have hx' : x ∈ m.outst := by unfold outstOf at hx; rw [hph] at hx; exact hx
          have := hok.2.2.2 x hx'
          omega
        refine ⟨outInv_fire h.out .tick, ?_, backed_set h.backed j trivial, h.sub, ?_, fun e => h.unk (hf.2 e)⟩
        · show HeldOK (g.cons.set j (.got i r)) (outstOf (fire g.q .tick))
          rw [hout]; exact h.held.set_new j hnew rfl
        · show ∀ r ∈ (fire g.q .tick).finalised, r ∈ g.returned; rw [hf.1]; exact h.fin
      · exact (h.qfire_plain .tick (by intro i oc e; cases e) (by intro e; cases e) (by intro e; cases e)).settle
    | offer r =>
      rw [fireG_offer]
      exact (h.qfire_plain (.offer r) (by intro i oc e; cases e) (by intro e; cases e) (by intro e; cases e)).settle
    | shutdown =>
      rw [fireG_shutdown]
      exact (h.qfire_plain .shutdown (by intro i oc e; cases e) (by intro e; cases e) (by intro e; cases e)).settle
    | wake =>
      rw [fireG_wake]
      exact (h.qfire_plain .wake (by intro i oc e; cases e) (by intro e; cases e) (by intro e; cases e)).settle
    | cancel j =>
      rw [fireG_cancel]
      exact (h.qfire_plain (.cancel j) (by intro i oc e; cases e) (by intro e; cases e) (by intro e; cases e)).settle
    | promote j =>
      rw [fireG_promote]
      exact (h.qfire_plain (.promote j) (by intro i oc e; cases e) (by intro e; cases e) (by intro e; cases e)).settle
  | cRead j =>
    rw [fireG_cRead]
    split
    · apply GInv.settle
      have h1 := h.qfire_plain .read (by intro i oc e; cases e) (by intro e; cases e) (by intro e; cases e)
      exact ⟨h1.out, h1.held.set_none j rfl, backed_set h1.backed j trivial, h1.sub, h1.fin, h1.unk⟩
    · exact h
  | cInvoke j =>
    rw [fireG_cInvoke]
    split
    · next i r hj =>
      refine ⟨h.out, h.held.set_same hj rfl, ?_, fun x hx => List.mem_cons_of_mem _ (h.sub x hx), h.fin, h.unk⟩
      refine backed_set (fun j' p hp => CPc.backed_mono (fun x hx => List.mem_cons_of_mem _ hx) (fun x hx => hx) (h.backed j' p hp)) j ?_
      exact List.mem_cons_self
    · exact h
  | expRet j res =>
    rw [fireG_expRet]
    split
    · next i r hj =>
      have hb : ∀ (j' : Nat) (p : CPc), g.cons[j']? = some p → p.backed g.invoked (r :: g.returned) :=
        fun j' p hp => CPc.backed_mono (fun x hx => hx) (fun x hx => List.mem_cons_of_mem _ hx) (h.backed j' p hp)
      have hsub : ∀ x ∈ r :: g.returned, x ∈ g.invoked := by
        intro x hx
        rcases List.mem_cons.mp hx with rfl | hx
        · exact h.backed j _ hj
        · exact h.sub x hx
      have hfin : ∀ x ∈ g.q.finalised, x ∈ r :: g.returned := fun x hx => List.mem_cons_of_mem _ (h.fin x hx)
      cases res with
      | ok => exact ⟨h.out, h.held.set_same hj rfl, backed_set hb j List.mem_cons_self, hsub, hfin, h.unk⟩
      | err t perm =>
        dsimp only
        split
        · exact ⟨h.out, h.held.set_same hj rfl, backed_set hb j List.mem_cons_self, hsub, hfin, h.unk⟩
        · exact ⟨h.out, h.held.set_same hj rfl, backed_set hb j List.mem_cons_self, hsub, hfin, h.unk⟩
    · exact h
  | backoffEnd j why =>
    rw [fireG_backoffEnd]
    split
    · next i r t hj =>
      have hr : r ∈ g.returned := h.backed j _ hj
      cases why with
      | exhausted => exact ⟨h.out, h.held.set_same hj rfl, backed_set h.backed j hr, h.sub, h.fin, h.unk⟩
      | ctxDone => exact ⟨h.out, h.held.set_same hj rfl, backed_set h.backed j hr, h.sub, h.fin, h.unk⟩
      | stop =>
        dsimp only
        split
        · exact ⟨h.out, h.held.set_same hj rfl, backed_set h.backed j hr, h.sub, h.fin, h.unk⟩
        · exact h
      | timer =>
        refine ⟨h.out, h.held.set_same hj rfl, ?_, fun x hx => List.mem_cons_of_mem _ (h.sub x hx), h.fin, h.unk⟩
        refine backed_set (fun j' p hp => CPc.backed_mono (fun x hx => List.mem_cons_of_mem _ hx) (fun x hx => hx) (h.backed j' p hp)) j ?_
        exact List.mem_cons_self
    · exact h
  | cDone j =>
    rw [fireG_cDone]
    split
    · next hg =>
      split
      · next i r e hj =>
        apply GInv.settle
        -- goroutine j holds (i, r): it is pending, so `done` finds it
        obtain ⟨_, hidle⟩ := hg
        have hmem : (i, r) ∈ outstOf g.q := h.held.mem j _ (i, r) hj rfl
        obtain ⟨m, hph⟩ : ∃ m, g.q.ph = .live m .idle := by
          unfold Cfg.idle at hidle
          split at hidle
          · next m heq => exact ⟨m, heq⟩
          · cases hidle
        have hom : outstOf g.q = m.outst := by unfold outstOf; rw [hph]
        have hok : OutOK m .idle := by have := h.out; unfold OutInv at this; rw [hph] at this; exact this
        have hlk : m.outst.lookup i = some r := lookup_of_mem_nodup hok.1 (by rw [← hom]; exact hmem)
        obtain ⟨hres, hfin⟩ := done_pending (outcomeOf e) hph hlk
        have hout : outstOf (fire g.q (.done i (outcomeOf e))) = (outstOf g.q).filter (fun p => p.1 != i) := by
          rw [show fire g.q (.done i (outcomeOf e)) = doDone g.q m i (outcomeOf e) by simp only [fire, hph]]
          rw [doDone_outst g.q m i _ hph, hom]
        refine ⟨outInv_fire h.out _, ?_, backed_set h.backed j trivial, h.sub, ?_, ?_⟩
        · show HeldOK (g.cons.set j .inQueue) (outstOf (fire g.q (.done i (outcomeOf e))))
          rw [hout]; exact h.held.set_done hj rfl rfl
        · show ∀ x ∈ (fire g.q (.done i (outcomeOf e))).finalised, x ∈ g.returned
          rw [hfin]
          cases outcomeOf e with
          | final =>
            intro x hx
            rcases List.mem_cons.mp hx with rfl | hx
            · exact h.backed j _ hj
            · exact h.fin x hx
          | shutdownErr => exact h.fin
        · show (fire g.q (.done i (outcomeOf e))).res ≠ .doneUnknown
          rw [hres]; simp
      · exact h
    · exact h
  | rsShutdown => exact ⟨h.out, h.held, h.backed, h.sub, h.fin, h.unk⟩

theorem ginv_foldl (ls : List GLabel) : ∀ g, GInv g → GInv (ls.foldl fireG g) := by
  induction ls with
  | nil => intro g h; exact h
  | cons l ls ih => intro g h; exact ih _ (h.fireG l)

theorem ginv_runG (gk : GConf) (k : Conf) (ls : List GLabel) : GInv (runG gk k ls) :=
  ginv_foldl ls _ (GInv.init gk k)

end OtelVerif.C01
