import OtelVerif.Lemmas.C01GlueInv
import OtelVerif.Lemmas.C01Drain
/-!
# C01 — liveness of the glue machine under an explicit fair schedule

`restartG` / `drainAllG` are total functions that run a concrete FAIR continuation of any glue configuration: the process
dies, a new incarnation runs its whole start-up, and then consumer goroutine 0 is scheduled round after round — `Read`,
the export function is invoked and returns nil, `OnDone` — without a further death.  Their queue component is exactly
`drainAll (restart q)` of `Lemmas/C01Drain.lean`, so the liveness theorem of the queue machine lifts: every accepted
request has then been passed to the export function.
-/
namespace OtelVerif.C01

def ticksG : Nat → GCfg → GCfg
  | 0, g => g
  | n + 1, g => ticksG n (fireG g (.env .tick))

def restartG (g : GCfg) : GCfg :=
  ticksG (2 * g.q.st.di.length + 4) (fireG (fireG g (.env .crash)) (.env .start))

/-- one fair round of consumer goroutine 0 with a destination that accepts the request -/
def drainStepG (g : GCfg) : GCfg :=
  let g1 := fireG (fireG g (.cRead 0)) (.env .tick)
  match g1.q.res with
  | .readItem _ _ => fireG (fireG (fireG (fireG g1 (.cInvoke 0)) (.expRet 0 .ok)) (.cDone 0)) (.env .tick)
  | _ => g1

def drainG : Nat → GCfg → GCfg
  | 0, g => g
  | n + 1, g => drainG n (drainStepG g)

def drainAllG (g : GCfg) : GCfg := drainG (g.q.st.W - g.q.st.R) g

/-- no goroutine is inside a queue operation and goroutine 0 is at the head of its loop -/
def Quiet (g : GCfg) : Prop := g.inOp = none ∧ g.cons[0]? = some .idle

/-! ### the invariant travels along -/

theorem ginv_ticksG : ∀ (n : Nat) {g : GCfg}, GInv g → GInv (ticksG n g)
  | 0, _, h => h
  | n + 1, _, h => ginv_ticksG n (h.fireG _)

theorem ginv_restartG {g : GCfg} (h : GInv g) : GInv (restartG g) := ginv_ticksG _ ((h.fireG _).fireG _)

theorem ginv_drainStepG {g : GCfg} (h : GInv g) : GInv (drainStepG g) := by
  unfold drainStepG
  dsimp only
  split
  · exact ((((((h.fireG _).fireG _).fireG _).fireG _).fireG _).fireG _)
  · exact (h.fireG _).fireG _

theorem ginv_drainG : ∀ (n : Nat) {g : GCfg}, GInv g → GInv (drainG n g)
  | 0, _, h => h
  | n + 1, _, h => ginv_drainG n (ginv_drainStepG h)

/-! ### ticks of a quiet configuration -/

theorem tickG_quiet {g : GCfg} (h : g.inOp = none) : fireG g (.env .tick) = qfire g .tick := by
  rw [fireG_tick]
  split
  · next heq => rw [h] at heq; cases heq
  · unfold settle
    have : (qfire g .tick).inOp = none := h
    rw [this]

theorem ticksG_quiet : ∀ (n : Nat) {g : GCfg}, Quiet g →
    (ticksG n g).q = ticks n g.q ∧ Quiet (ticksG n g)
  | 0, _, h => ⟨rfl, h⟩
  | n + 1, g, h => by
    have e := tickG_quiet h.1
    have hq : Quiet (fireG g (.env .tick)) := by rw [e]; exact h
    obtain ⟨h1, h2⟩ := ticksG_quiet n hq
    refine ⟨?_, h2⟩
    show (ticksG n (fireG g (.env .tick))).q = ticks n (fire g.q .tick)
    rw [h1, e]; rfl

theorem restartG_spec (g : GCfg) (hn : 0 < g.gk.n) : (restartG g).q = restart g.q ∧ Quiet (restartG g) := by
  have e1 : fireG g (.env .crash) = { qfire g .crash with cons := [], inOp := none } := fireG_crash g
  have hd : (fireG g (.env .crash)).q.ph = .dead := by rw [e1]; rfl
  have e2 : fireG (fireG g (.env .crash)) (.env .start) =
      { qfire (fireG g (.env .crash)) .start with
          cons := List.replicate (fireG g (.env .crash)).gk.n .idle, inOp := none, stopCh := false } := by
    rw [fireG_start]; rw [hd]
  have hq : Quiet (fireG (fireG g (.env .crash)) (.env .start)) := by
    rw [e2]
    refine ⟨rfl, ?_⟩
    show (List.replicate (fireG g (.env .crash)).gk.n CPc.idle)[0]? = some CPc.idle
    have : (fireG g (.env .crash)).gk.n = g.gk.n := by rw [e1]; rfl
    rw [this, List.getElem?_replicate]; simp [hn]
  obtain ⟨h1, h2⟩ := ticksG_quiet (2 * g.q.st.di.length + 4) hq
  refine ⟨?_, h2⟩
  unfold restartG restart
  rw [h1, e2, e1]; rfl

/-! ### one fair round -/

theorem read_of_ready {c : Cfg} (hi : Inv c) (hr : Ready c) (hlt : c.st.R < c.st.W) :
    ∃ m m' r, c.ph = .live m .idle ∧ (fire c .read).ph = .live m' (.readRet m.ri r) := by
  obtain ⟨m, hph, hs, ho, hdi⟩ := hr
  have hl := hi.live m _ hph
  obtain ⟨r, hitem⟩ := Option.isSome_iff_exists.mp (hi.st.full c.st.R (Nat.le_refl _) hlt)
  have hne : m.ri ≠ m.wi := by have := hl.ri; have := hl.wi; omega
  rw [← hl.ri] at hitem
  refine ⟨m, { m with ri := m.ri + 1, cdi := m.cdi ++ [m.ri], size := if m.ri + 1 = m.wi then 0 else m.size }, r, hph, ?_⟩
  have e1 : fire c .read = doRead c m := by simp only [fire, hph]
  rw [e1]
  simp only [doRead, hs, hne, hitem]
  simp

theorem idle_of_ph {c : Cfg} {m : Mem} (h : c.ph = .live m .idle) : c.idle = true := by
  unfold Cfg.idle; rw [h]

theorem not_idle_of_readRet {c : Cfg} {m : Mem} {i : Nat} {r : Req} (h : c.ph = .live m (.readRet i r)) : c.idle = false := by
  unfold Cfg.idle; rw [h]

theorem fire_done_idle {c : Cfg} {m : Mem} (h : c.ph = .live m .idle) (i : Nat) (oc : Outcome) :
    fire c (.done i oc) = doDone c m i oc := by
  simp only [fire, h]

/-- goroutine 0 calls `Read` on a queue whose head item exists: it is inside `Read`, the dequeue batch is done -/
theorem step_cRead {g : GCfg} {m m' : Mem} {i : Nat} {r : Req} (hq : Quiet g) (hph : g.q.ph = .live m .idle)
    (hp1 : (fire g.q .read).ph = .live m' (.readRet i r)) :
    (fireG g (.cRead 0)).q = fire g.q .read ∧ (fireG g (.cRead 0)).inOp = some (0, .read) ∧
    (fireG g (.cRead 0)).cons.length = g.cons.length := by
  rw [fireG_cRead, if_pos ⟨hq.1, idle_of_ph hph, hq.2⟩]
  unfold settle
  dsimp only
  have : (qfire g .read).q.idle = false := not_idle_of_readRet hp1
  rw [this]
  exact ⟨rfl, rfl, List.length_set⟩

/-- `Read` returns the item to goroutine 0 -/
theorem step_tick_ret {g : GCfg} {m : Mem} {i : Nat} {r : Req} (hph : g.q.ph = .live m (.readRet i r))
    (hop : g.inOp = some (0, .read)) (hlen : 0 < g.cons.length) :
    (fireG g (.env .tick)).q = fire g.q .tick ∧ (fireG g (.env .tick)).inOp = none ∧
    (fireG g (.env .tick)).cons[0]? = some (.got i r) := by
  rw [fireG_tick]
  split
  · next m2 i2 r2 j2 h1 h2 =>
    rw [hph] at h1; rw [hop] at h2
    cases h1; cases h2
    exact ⟨rfl, rfl, List.getElem?_set_self hlen⟩
  · next hne => exact absurd hop (fun h => hne m i r 0 hph h)

theorem step_cInvoke {g : GCfg} {i : Nat} {r : Req} (h0 : g.cons[0]? = some (.got i r)) :
    (fireG g (.cInvoke 0)).q = g.q ∧ (fireG g (.cInvoke 0)).inOp = g.inOp ∧
    (fireG g (.cInvoke 0)).cons[0]? = some (.sending i r) := by
  have hlen : 0 < g.cons.length := by
    rcases List.getElem?_eq_some_iff.mp h0 with ⟨h, _⟩; exact h
  rw [fireG_cInvoke, h0]
  exact ⟨rfl, rfl, List.getElem?_set_self hlen⟩

theorem step_expRet_ok {g : GCfg} {i : Nat} {r : Req} (h0 : g.cons[0]? = some (.sending i r)) :
    (fireG g (.expRet 0 .ok)).q = g.q ∧ (fireG g (.expRet 0 .ok)).inOp = g.inOp ∧
    (fireG g (.expRet 0 .ok)).cons[0]? = some (.ret i r none) := by
  have hlen : 0 < g.cons.length := by
    rcases List.getElem?_eq_some_iff.mp h0 with ⟨h, _⟩; exact h
  rw [fireG_expRet, h0]
  exact ⟨rfl, rfl, List.getElem?_set_self hlen⟩

/-- goroutine 0 reports success: the completion batch is done; if the size back-up is still due the goroutine is
    still inside `onDone` -/
theorem step_cDone {g : GCfg} {m : Mem} {i : Nat} {r : Req} (hop : g.inOp = none) (hph : g.q.ph = .live m .idle)
    (h0 : g.cons[0]? = some (.ret i r none)) :
    (fireG g (.cDone 0)).q = fire g.q (.done i .final) ∧
    (((fireG g (.cDone 0)).q.idle = true ∧ Quiet (fireG g (.cDone 0))) ∨
     ((fireG g (.cDone 0)).q.idle = false ∧ (fireG g (.cDone 0)).inOp = some (0, .done) ∧
       0 < (fireG g (.cDone 0)).cons.length)) := by
  have hlen : 0 < g.cons.length := by
    rcases List.getElem?_eq_some_iff.mp h0 with ⟨h, _⟩; exact h
  rw [fireG_cDone, if_pos ⟨hop, idle_of_ph hph⟩, h0]
  dsimp only
  have hoc : outcomeOf none = .final := rfl
  rw [hoc]
  unfold settle
  dsimp only
  cases hidle : (fire g.q (.done i .final)).idle with
  | true =>
    have : (qfire g (.done i .final)).q.idle = true := hidle
    rw [this]
    refine ⟨rfl, Or.inl ⟨hidle, rfl, ?_⟩⟩
    show ((g.cons.set 0 .inQueue).set 0 _)[0]? = some .idle
    rw [List.getElem?_set_self (by rw [List.length_set]; exact hlen)]
  | false =>
    have : (qfire g (.done i .final)).q.idle = false := hidle
    rw [this]
    exact ⟨rfl, Or.inr ⟨hidle, rfl, by show 0 < (g.cons.set 0 .inQueue).length; rw [List.length_set]; exact hlen⟩⟩

/-- the tick that ends `onDone` (size back-up) brings goroutine 0 back to the head of its loop -/
theorem step_tick_done {g : GCfg} {m : Mem} (hph : g.q.ph = .live m .backup) (hop : g.inOp = some (0, .done))
    (hlen : 0 < g.cons.length) :
    (fireG g (.env .tick)).q = fire g.q .tick ∧ Quiet (fireG g (.env .tick)) := by
  rw [fireG_tick]
  split
  · next m2 i2 r2 j2 h1 h2 => rw [hph] at h1; cases h1
  · have hi : (fire g.q .tick).idle = true := by
      rw [fire_tick hph]; rfl
    unfold settle
    have e1 : (qfire g .tick).inOp = some (0, .done) := hop
    have e2 : (qfire g .tick).q.idle = true := hi
    rw [e1]
    dsimp only
    rw [e2]
    refine ⟨rfl, rfl, ?_⟩
    show ((qfire g .tick).cons.set 0 _)[0]? = some .idle
    exact List.getElem?_set_self (l := (qfire g .tick).cons) hlen

theorem drainStepG_spec {g : GCfg} (hq : Quiet g) (hi : Inv g.q) (hr : Ready g.q) (hlt : g.q.st.R < g.q.st.W) :
    (drainStepG g).q = drainStep g.q ∧ Quiet (drainStepG g) := by
  obtain ⟨m, m', r, hph, hp1⟩ := read_of_ready hi hr hlt
  obtain ⟨a1, a2, a3⟩ := step_cRead hq hph hp1
  have hlen0 : 0 < g.cons.length := by
    rcases List.getElem?_eq_some_iff.mp hq.2 with ⟨h, _⟩; exact h
  have hp1' : (fireG g (.cRead 0)).q.ph = .live m' (.readRet m.ri r) := by rw [a1]; exact hp1
  obtain ⟨b1, b2, b3⟩ := step_tick_ret hp1' a2 (by rw [a3]; exact hlen0)
  -- the configuration after `Read` returned
  have hc1 : (fireG (fireG g (.cRead 0)) (.env .tick)).q = fire (fire g.q .read) .tick := by rw [b1, a1]
  have htr := tick_readRet hp1
  have hres : (fire (fire g.q .read) .tick).res = .readItem m.ri r := by rw [htr]
  have hph2 : (fire (fire g.q .read) .tick).ph = .live { m' with outst := (m.ri, r) :: m'.outst } .idle := by rw [htr]
  unfold drainStepG drainStep
  dsimp only
  rw [hc1, hres]
  dsimp only
  generalize hg1 : fireG (fireG g (.cRead 0)) (.env .tick) = g1 at b2 b3 hc1
  obtain ⟨c1, c2, c3⟩ := step_cInvoke b3
  obtain ⟨d1, d2, d3⟩ := step_expRet_ok c3
  have hop3 : (fireG (fireG g1 (.cInvoke 0)) (.expRet 0 .ok)).inOp = none := by rw [d2, c2, b2]
  have hq3 : (fireG (fireG g1 (.cInvoke 0)) (.expRet 0 .ok)).q = fire (fire g.q .read) .tick := by rw [d1, c1, hc1]
  have hph3 : (fireG (fireG g1 (.cInvoke 0)) (.expRet 0 .ok)).q.ph = .live { m' with outst := (m.ri, r) :: m'.outst } .idle := by
    rw [hq3]; exact hph2
  obtain ⟨e1, e2⟩ := step_cDone hop3 hph3 d3
  generalize hg4 : fireG (fireG (fireG g1 (.cInvoke 0)) (.expRet 0 .ok)) (.cDone 0) = g4 at e1 e2
  rw [hq3] at e1
  rcases e2 with ⟨hidle, hquiet⟩ | ⟨hnidle, hop4, hlen4⟩
  · -- `onDone` returned at once
    have e5 := tickG_quiet hquiet.1
    refine ⟨by rw [e5]; show fire g4.q .tick = _; rw [e1], by rw [e5]; exact hquiet⟩
  · -- the size back-up is still to be written
    obtain ⟨m4, pc4, hph4⟩ : ∃ m4 pc4, g4.q.ph = .live m4 pc4 := by
      cases hp : g4.q.ph with
      | dead =>
        exfalso
        have hd : (fire (fire (fire g.q .read) .tick) (.done m.ri .final)).ph = .dead := by rw [← e1]; exact hp
        have e : fire (fire (fire g.q .read) .tick) (.done m.ri .final) =
            doDone (fire (fire g.q .read) .tick) { m' with outst := (m.ri, r) :: m'.outst } m.ri .final :=
          fire_done_idle hph2 _ _
        rw [e] at hd
        unfold doDone at hd
        split at hd <;> first | (rw [hph2] at hd; cases hd) | cases hd
      | live m4 pc4 => exact ⟨m4, pc4, rfl⟩
    have hpc : pc4 = .backup := by
      have e : fire (fire (fire g.q .read) .tick) (.done m.ri .final) =
          doDone (fire (fire g.q .read) .tick) { m' with outst := (m.ri, r) :: m'.outst } m.ri .final :=
        fire_done_idle hph2 _ _
      have hph4' : (doDone (fire (fire g.q .read) .tick) { m' with outst := (m.ri, r) :: m'.outst } m.ri .final).ph = .live m4 pc4 := by
        rw [← e, ← e1]; exact hph4
      have hni : pc4 ≠ .idle := by
        intro hpi; subst hpi
        have : g4.q.idle = true := idle_of_ph hph4
        rw [this] at hnidle; cases hnidle
      unfold doDone at hph4'
      split at hph4'
      · rw [hph2] at hph4'; injection hph4' with _ hpc; exact absurd hpc.symm hni
      · dsimp only at hph4'
        split at hph4'
        · injection hph4' with _ hpc; exact hpc.symm
        · injection hph4' with _ hpc; exact absurd hpc.symm hni
    subst hpc
    obtain ⟨f1, f2⟩ := step_tick_done hph4 hop4 hlen4
    exact ⟨by rw [f1, e1], f2⟩

theorem drainG_spec : ∀ (n : Nat) (g : GCfg), Quiet g → Inv g.q → Ready g.q → g.q.st.W - g.q.st.R = n →
    (drainG n g).q = drain n g.q
  | 0, _, _, _, _, _ => rfl
  | n + 1, g, hq, hi, hr, hn => by
    have hlt : g.q.st.R < g.q.st.W := by omega
    obtain ⟨e, hq'⟩ := drainStepG_spec hq hi hr hlt
    obtain ⟨hr1, hR1, hW1, _, _⟩ := drainStep_spec hi hr hlt
    have ih := drainG_spec n (drainStepG g) hq' (by rw [e]; exact inv_drainStep hi) (by rw [e]; exact hr1)
      (by rw [e]; omega)
    show (drainG n (drainStepG g)).q = drain n (drainStep g.q)
    rw [ih, e]

/-- the queue component of the fair continuation is `drainAll (restart q)` -/
theorem drainAllG_restartG_q (g : GCfg) (hn : 0 < g.gk.n) (hi : Inv g.q) :
    (drainAllG (restartG g)).q = drainAll (restart g.q) := by
  obtain ⟨e, hq⟩ := restartG_spec g hn
  obtain ⟨hready, hi'⟩ := restart_ready hi
  unfold drainAllG drainAll
  rw [drainG_spec _ (restartG g) hq (by rw [e]; exact hi') (by rw [e]; exact hready) rfl, e]

/-- after the fair continuation every accepted request is finalised (queue machine) -/
theorem accepted_finalised_after_drain {c : Cfg} (hi : Inv c) :
    ∀ r ∈ c.accepted, r ∈ (drainAll (restart c)).finalised := by
  intro r hr
  obtain ⟨hready, hi'⟩ := restart_ready hi
  obtain ⟨hrN, hiN, hRW, _, _⟩ := drain_spec _ (restart c) hi' hready rfl
  have hacc : r ∈ (drainAll (restart c)).accepted := by
    unfold drainAll; rw [drain_accepted, restart_accepted]; exact hr
  rcases hiN.main r hacc with hf | ⟨i, _, hc⟩
  · exact hf
  · exfalso
    obtain ⟨_, _, _, _, hdi⟩ := hrN
    rcases hc with hd | ⟨h1, h2⟩
    · rw [hdi] at hd; simp at hd
    · omega

theorem fireG_gk (g : GCfg) (l : GLabel) : (fireG g l).gk = g.gk := by
  have hs : ∀ g' : GCfg, (settle g').gk = g'.gk := fun g' => (settle_q g').2.2.2.2.2
  cases l with
  | env l =>
    cases l with
    | read => rfl
    | done i oc => rfl
    | crash => rfl
    | start => rw [fireG_start]; split <;> rfl
    | tick =>
      rw [fireG_tick]
      split
      · rfl
      · rw [hs]; rfl
    | offer r => rw [fireG_offer, hs]; rfl
    | shutdown => rw [fireG_shutdown, hs]; rfl
    | wake => rw [fireG_wake, hs]; rfl
    | cancel j => rw [fireG_cancel, hs]; rfl
    | promote j => rw [fireG_promote, hs]; rfl
  | cRead j =>
    rw [fireG_cRead]
    split
    · rw [hs]; rfl
    · rfl
  | cInvoke j => rw [fireG_cInvoke]; split <;> rfl
  | expRet j res =>
    rw [fireG_expRet]; split
    · cases res with
      | ok => rfl
      | err t perm => dsimp only; split <;> rfl
    · rfl
  | backoffEnd j why =>
    rw [fireG_backoffEnd]; split
    · cases why with
      | stop => dsimp only; split <;> rfl
      | _ => rfl
    · rfl
  | cDone j =>
    rw [fireG_cDone]; split
    · split
      · rw [hs]; rfl
      · rfl
    · rfl
  | rsShutdown => rfl

theorem foldl_gk (ls : List GLabel) : ∀ g : GCfg, (ls.foldl fireG g).gk = g.gk := by
  induction ls with
  | nil => intro g; rfl
  | cons l ls ih => intro g; rw [List.foldl_cons, ih, fireG_gk]

end OtelVerif.C01
