import OtelVerif.Lemmas.C01GlueInv
/-!
# C01 — glue: a hand-off is reported as shutdown-interrupted only while the retry sender is shut down

Hypothesis on the environment: the export function itself never returns a shutdown-classified error (`NoShutExport`).
Then the only source of a shutdown-classified outcome is `retrySender.Send` leaving its back-off through `stopCh`.
-/
namespace OtelVerif.C01

/-- the export function does not itself return an error that contains a shutdown error -/
def NoShutExport : GLabel → Prop
  | .expRet _ (.err t _) => t.isShutdown = false
  | _ => True

def CPc.stopOK (stop : Bool) : CPc → Prop
  | .backoff _ _ t => t.isShutdown = false
  | .ret _ _ e => outcomeOf e = .shutdownErr → stop = true
  | _ => True

def StopInv (g : GCfg) : Prop := ∀ (j : Nat) (p : CPc), g.cons[j]? = some p → p.stopOK g.stopCh

theorem stopOK_set {cs : List CPc} {stop : Bool} (h : ∀ (j : Nat) (p : CPc), cs[j]? = some p → p.stopOK stop) (j : Nat)
    {p' : CPc} (hp : p'.stopOK stop) : ∀ (j' : Nat) (p : CPc), (cs.set j p')[j']? = some p → p.stopOK stop := by
  intro j' p hj
  rcases getElem?_set_cases hj with ⟨_, rfl⟩ | ⟨_, hj⟩
  · exact hp
  · exact h j' p hj

theorem StopInv.settle {g : GCfg} (h : StopInv g) : StopInv (settle g) := by
  obtain ⟨_, _, _, _, hs, _⟩ := settle_q g
  unfold StopInv
  rw [hs]
  rcases settle_cons g with e | ⟨j, p, e, hp⟩
  · rw [e]; exact h
  · rw [e]; exact stopOK_set h j (by rcases hp with rfl | rfl <;> trivial)

theorem StopInv.qfire {g : GCfg} (h : StopInv g) (l : Label) : StopInv (qfire g l) := h

theorem outcome_wrap (t : ErrTree) (h : t.isShutdown = false) : outcomeOf (some (.wrap t)) ≠ .shutdownErr := by
  simp [outcomeOf, ErrTree.isShutdown, h]

theorem outcome_permErr (b : Bool) (t : ErrTree) (h : t.isShutdown = false) : outcomeOf (some (permErr b t)) ≠ .shutdownErr := by
  cases b <;> simp [permErr, outcomeOf, ErrTree.isShutdown, h]

theorem StopInv.fireG {g : GCfg} (h : StopInv g) (l : GLabel) (hl : NoShutExport l) : StopInv (fireG g l) := by
  cases l with
  | env l =>
    cases l with
    | read => exact h
    | done i oc => exact h
    | crash => rw [fireG_crash]; intro j p hj; simp at hj
    | start =>
      rw [fireG_start]
      split
      · intro j p hj
        have hj' : (List.replicate g.gk.n CPc.idle)[j]? = some p := hj
        rw [List.getElem?_replicate] at hj'
        split at hj'
        · injection hj' with hj'; rw [← hj']; trivial
        · cases hj'
      · exact h
    | tick =>
      rw [fireG_tick]
      split
      · exact stopOK_set h _ trivial
      · exact (h.qfire .tick).settle
    | offer r => rw [fireG_offer]; exact (h.qfire _).settle
    | shutdown => rw [fireG_shutdown]; exact (h.qfire _).settle
    | wake => rw [fireG_wake]; exact (h.qfire _).settle
    | cancel j => rw [fireG_cancel]; exact (h.qfire _).settle
    | promote j => rw [fireG_promote]; exact (h.qfire _).settle
  | cRead j =>
    rw [fireG_cRead]
    split
    · apply StopInv.settle
      exact stopOK_set h j trivial
    · exact h
  | cInvoke j =>
    rw [fireG_cInvoke]
    split
    · exact stopOK_set h j trivial
    · exact h
  | expRet j res =>
    rw [fireG_expRet]
    split
    · cases res with
      | ok => exact stopOK_set h j (fun e => by simp [outcomeOf] at e)
      | err t perm =>
        have ht : t.isShutdown = false := hl
        dsimp only
        split
        · exact stopOK_set h j (fun e => absurd e (outcome_permErr _ t ht))
        · exact stopOK_set h j ht
    · exact h
  | backoffEnd j why =>
    rw [fireG_backoffEnd]
    split
    · next i r t hj =>
      have ht : t.isShutdown = false := h j _ hj
      cases why with
      | exhausted => exact stopOK_set h j (fun e => absurd e (outcome_wrap t ht))
      | ctxDone => exact stopOK_set h j (fun e => absurd e (outcome_wrap t ht))
      | stop =>
        dsimp only
        split
        · next hs => exact stopOK_set h j (fun _ => hs)
        · exact h
      | timer => exact stopOK_set h j trivial
    · exact h
  | cDone j =>
    rw [fireG_cDone]
    split
    · split
      · apply StopInv.settle
        exact stopOK_set h j trivial
      · exact h
    · exact h
  | rsShutdown =>
    intro j p hj
    have := h j p hj
    cases p <;> first | trivial | exact this | exact fun _ => rfl

theorem stopInv_foldl (ls : List GLabel) : ∀ g, StopInv g → (∀ l ∈ ls, NoShutExport l) → StopInv (ls.foldl fireG g) := by
  induction ls with
  | nil => intro g h _; exact h
  | cons l ls ih =>
    intro g h hl
    exact ih _ (h.fireG l (hl l List.mem_cons_self)) (fun l' hl' => hl l' (List.mem_cons_of_mem _ hl'))

theorem stopInv_runG (gk : GConf) (k : Conf) (ls : List GLabel) (hl : ∀ l ∈ ls, NoShutExport l) : StopInv (runG gk k ls) :=
  stopInv_foldl ls _ (fun j p hj => by simp [initG] at hj) hl

end OtelVerif.C01
