import OtelVerif.Lemmas.C01
/-!
# C01 — size bookkeeping of a request-sized queue (`queueSize` across start-up, recovery and running)

For `request.RequestsSizer` the code recomputes `queueSize = wi - ri` on start and adds one per recovered item.
`SizeInv`: while start-up/recovery runs `queueSize = writeIndex - readIndex` exactly; afterwards
`queueSize ≤ (writeIndex - readIndex) + len(currentlyDispatchedItems)` — the counter never claims more than what is
queued or dispatched, so capacity is never leaked (the re-synchronisation to 0 and the clamp at 0 only lower it).
-/
namespace OtelVerif.C01

theorem swapRemove_length : ∀ (l : List Nat) (x : Nat), l.length ≤ (swapRemove l x).length + 1
  | [], _ => by simp [swapRemove]
  | [a], x => by simp only [swapRemove]; split <;> simp
  | a :: b :: t, x => by
    simp only [swapRemove]
    split
    · simp [List.length_dropLast]
    · have := swapRemove_length (b :: t) x
      simp only [List.length_cons] at this ⊢
      omega

def startupPc : Pc → Bool
  | .init1 | .init2 | .init3 _ | .moving _ | .movingBackup _ => true
  | _ => false

def deadPc : Pc → Bool
  | .readFin _ | .readLoop | .fin1 _ _ | .fin2 _ _ | .fin3 _ _ => true
  | _ => false

structure SizeLive (m : Mem) (pc : Pc) : Prop where
  notDead : deadPc pc = false
  startup : startupPc pc = true → m.size = m.wi - m.ri ∧ m.cdi = []
  running : m.size ≤ m.wi - m.ri + m.cdi.length

def SizeInv (c : Cfg) : Prop := ∀ m pc, c.ph = .live m pc → SizeLive m pc

theorem SizeInv.mkLive {c : Cfg} {m : Mem} {pc : Pc} (hph : c.ph = .live m pc) (h : SizeLive m pc) : SizeInv c := by
  intro m2 pc2 heq; rw [hph] at heq; cases heq; exact h

theorem sizeof_reqSized {k : Conf} (hk : k.reqSized = true) (r : Req) : k.sizeof r = 1 := by simp [Conf.sizeof, hk]

theorem sizeLive_afterMove {m : Mem} {rest : List (Nat × Option Req)} (h1 : m.size = m.wi - m.ri) (h2 : m.cdi = []) :
    SizeLive m (afterMove rest) := by
  cases rest with
  | nil => exact ⟨rfl, fun h => by simp [afterMove, startupPc] at h, by rw [h1, h2]; simp⟩
  | cons p t => exact ⟨rfl, fun _ => ⟨h1, h2⟩, by rw [h1, h2]; simp⟩

theorem size_doRead {c : Cfg} {m : Mem} (hi : Inv c) (hl : LiveInv c m .idle)
    (hs : SizeLive m .idle) : SizeInv (doRead c m) := by
  have hle : m.ri ≤ m.wi := by rw [hl.ri, hl.wi]; exact hi.st.le
  have hrun := hs.running
  unfold doRead
  by_cases hst : m.stopped = true
  · rw [if_pos hst]; exact SizeInv.mkLive rfl ⟨rfl, fun h => by simp [startupPc] at h, hrun⟩
  · rw [if_neg hst]
    by_cases he : m.ri = m.wi
    · rw [if_pos he]; exact SizeInv.mkLive rfl ⟨rfl, fun h => by simp [startupPc] at h, hrun⟩
    · rw [if_neg he]
      have hlt : c.st.R < c.st.W := by have := hl.ri; have := hl.wi; omega
      obtain ⟨r, hitem⟩ := Option.isSome_iff_exists.mp (hi.st.full c.st.R (Nat.le_refl _) hlt)
      rw [← hl.ri] at hitem
      dsimp only
      rw [hitem]
      refine SizeInv.mkLive rfl ⟨rfl, fun h => by simp [startupPc] at h, ?_⟩
      dsimp only
      rw [List.length_append, List.length_singleton]
      split <;> omega

theorem size_doGetDi {c : Cfg} {m : Mem} (h1 : m.size = m.wi - m.ri) (h2 : m.cdi = []) : SizeInv (doGetDi c m) := by
  unfold doGetDi
  split
  · exact SizeInv.mkLive rfl ⟨rfl, fun h => by simp [startupPc] at h, by rw [h1, h2]; simp⟩
  · exact SizeInv.mkLive rfl ⟨rfl, fun _ => ⟨h1, h2⟩, by rw [h1, h2]; simp⟩

theorem size_doTick {c : Cfg} {m : Mem} {pc : Pc} (hk : c.k.reqSized = true) (hi : Inv c) (hph : c.ph = .live m pc)
    (hs : SizeLive m pc) : SizeInv (doTick c m pc) := by
  have hl := hi.live m pc hph
  cases pc with
  | idle => exact SizeInv.mkLive hph hs
  | backup => exact SizeInv.mkLive rfl ⟨rfl, fun h => by simp [startupPc] at h, hs.running⟩
  | readRet i r =>
    exact SizeInv.mkLive rfl ⟨rfl, fun h => by simp [startupPc] at h, hs.running⟩
  | readFin i => exact absurd hs.notDead (by simp [deadPc])
  | readLoop => exact absurd hs.notDead (by simp [deadPc])
  | fin1 i k => exact absurd hs.notDead (by simp [deadPc])
  | fin2 i k => exact absurd hs.notDead (by simp [deadPc])
  | fin3 i k => exact absurd hs.notDead (by simp [deadPc])
  | init1 =>
    obtain ⟨h1, h2⟩ := hs.startup rfl
    simp only [doTick]
    have : ¬ (m.size > 0 ∧ c.k.reqSized = false) := by simp [hk]
    rw [if_neg this]
    exact size_doGetDi h1 h2
  | init2 =>
    obtain ⟨h1, h2⟩ := hs.startup rfl
    exact size_doGetDi h1 h2
  | init3 ds =>
    obtain ⟨h1, h2⟩ := hs.startup rfl
    exact SizeInv.mkLive rfl ⟨rfl, fun _ => ⟨h1, h2⟩, by rw [h1, h2]; simp⟩
  | moving todo =>
    obtain ⟨h1, h2⟩ := hs.startup rfl
    have hle : m.ri ≤ m.wi := by rw [hl.ri, hl.wi]; exact hi.st.le
    simp only [doTick]
    unfold doMove
    split
    · exact SizeInv.mkLive rfl ⟨rfl, fun h => by simp [startupPc] at h, by rw [h1, h2]; simp⟩
    · exact SizeInv.mkLive rfl (sizeLive_afterMove h1 h2)
    · next i r rest =>
      dsimp only
      have hsz : m.size + c.k.sizeof r = m.wi + 1 - m.ri := by rw [sizeof_reqSized hk, h1]; omega
      split
      · exact SizeInv.mkLive rfl ⟨rfl, fun _ => ⟨hsz, h2⟩, by dsimp only; rw [hsz, h2]; simp⟩
      · exact SizeInv.mkLive rfl (sizeLive_afterMove (m := { m with wi := m.wi + 1, size := m.size + c.k.sizeof r }) hsz h2)
  | movingBackup todo =>
    obtain ⟨h1, h2⟩ := hs.startup rfl
    exact SizeInv.mkLive rfl (sizeLive_afterMove h1 h2)

theorem size_doPut {c : Cfg} {m : Mem} (hk : c.k.reqSized = true) (hi : Inv c) (hl : LiveInv c m .idle)
    (hs : SizeLive m .idle) (r : Req) : SizeInv (doPut c m r) := by
  have hrun := hs.running
  have hle : m.ri ≤ m.wi := by rw [hl.ri, hl.wi]; exact hi.st.le
  unfold doPut
  dsimp only
  have hb : ∀ pc', deadPc pc' = false → startupPc pc' = false →
      SizeLive { m with wi := m.wi + 1, size := m.size + c.k.sizeof r } pc' := by
    intro pc' h1 h2
    refine ⟨h1, (fun h => by rw [h2] at h; cases h), ?_⟩
    dsimp only
    rw [sizeof_reqSized hk]; omega
  split
  · exact SizeInv.mkLive rfl (hb _ rfl rfl)
  · exact SizeInv.mkLive rfl (hb _ rfl rfl)

theorem size_doOfferFull {c : Cfg} {m : Mem} (hph : c.ph = .live m .idle) (hs : SizeLive m .idle) (r : Req) :
    SizeInv (doOfferFull c m r) := by
  unfold doOfferFull
  split
  · exact SizeInv.mkLive hph hs
  · split
    · exact SizeInv.mkLive hph hs
    · exact SizeInv.mkLive rfl ⟨rfl, fun h => by simp [startupPc] at h, hs.running⟩

theorem size_fire {c : Cfg} (hk : c.k.reqSized = true) (hi : Inv c) (hs : SizeInv c) (l : Label) : SizeInv (fire c l) := by
  cases l with
  | crash => intro m pc heq; cases heq
  | start =>
    simp only [fire]; split
    · exact SizeInv.mkLive rfl ⟨rfl, fun _ => ⟨rfl, rfl⟩, by simp⟩
    · exact hs
  | tick =>
    simp only [fire]; split
    · next m pc heq => exact size_doTick hk hi heq (hs m pc heq)
    · exact hs
  | offer r =>
    simp only [fire]; split
    · next m heq =>
      unfold doOffer
      split
      · exact size_doOfferFull heq (hs m _ heq) r
      · exact size_doPut hk hi (hi.live m _ heq) (hs m _ heq) r
    · exact hs
  | wake =>
    simp only [fire]; split
    · next m heq =>
      have hl := hi.live m _ heq
      have hsl := hs m _ heq
      unfold doWake
      split
      · exact hs
      · next r rest _ =>
        split
        · exact SizeInv.mkLive rfl ⟨rfl, fun h => by simp [startupPc] at h, hsl.running⟩
        · exact size_doPut hk hi (hl.waiting rest) ⟨rfl, fun h => by simp [startupPc] at h, hsl.running⟩ r
    · exact hs
  | cancel j =>
    simp only [fire]; split
    · next m heq =>
      exact SizeInv.mkLive rfl ⟨rfl, fun h => by simp [startupPc] at h, (hs m _ heq).running⟩
    · exact hs
  | promote j =>
    simp only [fire]; split
    · next m heq =>
      unfold doPromote
      split
      · exact hs
      · exact SizeInv.mkLive rfl ⟨rfl, fun h => by simp [startupPc] at h, (hs m _ heq).running⟩
    · exact hs
  | read =>
    simp only [fire]; split
    · next m heq => exact size_doRead hi (hi.live m _ heq) (hs m _ heq)
    · exact hs
  | done i oc =>
    simp only [fire]; split
    · next m heq =>
      have hrun := (hs m _ heq).running
      unfold doDone
      split
      · exact SizeInv.mkLive heq (hs m _ heq)
      · next r hlook =>
        dsimp only
        cases oc with
        | shutdownErr =>
          dsimp only
          refine SizeInv.mkLive rfl ⟨rfl, fun h => by simp [startupPc] at h, ?_⟩
          dsimp only; omega
        | final =>
          dsimp only
          have hsw := swapRemove_length m.cdi i
          have hb : ∀ pc', deadPc pc' = false → startupPc pc' = false →
              SizeLive { m with outst := m.outst.filter (fun p => p.1 != i), size := m.size - c.k.sizeof r,
                                cdi := swapRemove m.cdi i } pc' := by
            intro pc' h1 h2
            refine ⟨h1, (fun h => by rw [h2] at h; cases h), ?_⟩
            dsimp only
            rw [sizeof_reqSized hk]; omega
          split
          · exact SizeInv.mkLive rfl (hb _ rfl rfl)
          · exact SizeInv.mkLive rfl (hb _ rfl rfl)
    · exact hs
  | shutdown =>
    simp only [fire]; split
    · next m heq =>
      unfold doShutdown
      exact SizeInv.mkLive rfl ⟨rfl, fun h => by simp [startupPc] at h, (hs m _ heq).running⟩
    · exact hs

/-- no firing changes the queue settings -/
theorem fire_k (c : Cfg) (l : Label) : (fire c l).k = c.k := by
  cases l <;> simp only [fire]
  · split
    · unfold doOffer doOfferFull doPut; dsimp only; split
      · split
        · rfl
        · split <;> rfl
      · rfl
    · rfl
  · split
    · unfold doRead; split
      · rfl
      · split <;> rfl
    · rfl
  · split
    · unfold doDone; split
      · rfl
      · next oc _ _ _ => split <;> rfl
    · rfl
  · split
    · rfl
    · rfl
  · split
    · rfl
    · rfl
  · split
    · next m pc _ =>
      cases pc <;> simp only [doTick]
      all_goals first
        | rfl
        | (unfold doRead; split; rfl; split <;> rfl)
        | (unfold doGetDi; split <;> rfl)
        | (split; rfl; unfold doGetDi; split <;> rfl)
        | (unfold doMove; split <;> rfl)
    · rfl
  · split
    · unfold doWake; split
      · rfl
      · split
        · rfl
        · rfl
    · rfl
  · split
    · unfold doPromote; split <;> rfl
    · rfl
  · split
    · rfl
    · rfl

theorem run_k (k : Conf) (ls : List Label) : (run k ls).k = k := by
  unfold run
  suffices ∀ c, (ls.foldl fire c).k = c.k from this _
  induction ls with
  | nil => intro c; rfl
  | cons l ls ih => intro c; rw [List.foldl_cons, ih, fire_k]

theorem sizeInv_run (k : Conf) (hk : k.reqSized = true) (ls : List Label) : SizeInv (run k ls) := by
  suffices ∀ (ls : List Label) (c : Cfg), c.k.reqSized = true → Inv c → SizeInv c → SizeInv (ls.foldl fire c) from
    this ls (init k) hk (inv_init k) (by intro m pc heq; cases heq)
  intro ls
  induction ls with
  | nil => intro c _ _ h; exact h
  | cons l ls ih =>
    intro c hk hi hs
    exact ih (fire c l) (by rw [fire_k]; exact hk) (inv_fire hi l) (size_fire hk hi hs l)

/-- the step that completes start-up hands over an exact counter -/
theorem size_exact_on_completion {c : Cfg} {m : Mem} {pc : Pc} (hk : c.k.reqSized = true) (hi : Inv c)
    (hph : c.ph = .live m pc) (hs : SizeLive m pc) (hsu : startupPc pc = true) {m' : Mem}
    (hidle : (fire c .tick).ph = .live m' .idle) : m'.size = m'.wi - m'.ri ∧ m'.cdi = [] := by
  have hsz := size_fire hk hi (by intro m2 pc2 heq; rw [hph] at heq; cases heq; exact hs) .tick m' .idle hidle
  obtain ⟨h1, h2⟩ := hs.startup hsu
  have hl := hi.live m pc hph
  have hle : m.ri ≤ m.wi := by rw [hl.ri, hl.wi]; exact hi.st.le
  simp only [fire, hph] at hidle
  have same : ∀ {c' : Cfg}, c'.ph = .live m' .idle → c'.ph = .live m .idle → m'.size = m'.wi - m'.ri ∧ m'.cdi = [] := by
    intro c' e1 e2; rw [e1] at e2; cases e2; exact ⟨h1, h2⟩
  have am : ∀ (mm : Mem) (rest : List (Nat × Option Req)), mm.size = mm.wi - mm.ri → mm.cdi = [] →
      Phase.live mm (afterMove rest) = .live m' .idle → m'.size = m'.wi - m'.ri ∧ m'.cdi = [] := by
    intro mm rest e1 e2 e
    cases rest with
    | nil => simp only [afterMove] at e; cases e; exact ⟨e1, e2⟩
    | cons p t => simp only [afterMove] at e; cases e
  cases pc with
  | idle => simp [startupPc] at hsu
  | backup => simp [startupPc] at hsu
  | readRet i r => simp [startupPc] at hsu
  | readFin i => simp [startupPc] at hsu
  | readLoop => simp [startupPc] at hsu
  | fin1 i k => simp [startupPc] at hsu
  | fin2 i k => simp [startupPc] at hsu
  | fin3 i k => simp [startupPc] at hsu
  | init1 =>
    simp only [doTick] at hidle
    have : ¬ (m.size > 0 ∧ c.k.reqSized = false) := by simp [hk]
    rw [if_neg this] at hidle
    unfold doGetDi at hidle
    split at hidle
    · exact same hidle rfl
    · cases hidle
  | init2 =>
    simp only [doTick] at hidle
    unfold doGetDi at hidle
    split at hidle
    · exact same hidle rfl
    · cases hidle
  | init3 ds => simp only [doTick] at hidle; cases hidle
  | moving todo =>
    simp only [doTick] at hidle
    unfold doMove at hidle
    split at hidle
    · exact same hidle rfl
    · exact am m _ h1 h2 hidle
    · next i r rest =>
      dsimp only at hidle
      have hsz' : m.size + c.k.sizeof r = m.wi + 1 - m.ri := by rw [sizeof_reqSized hk, h1]; omega
      split at hidle
      · cases hidle
      · exact am { m with wi := m.wi + 1, size := m.size + c.k.sizeof r } _ hsz' h2 hidle
  | movingBackup todo =>
    simp only [doTick] at hidle
    exact am m _ h1 h2 hidle

end OtelVerif.C01
