import OtelVerif.Model.C01Trace
/-! soundness of the executable trace checker of C01 w.r.t. the declarative trace-level statement -/
namespace OtelVerif.C01

/-- clause 2 on a trace: whenever the store is dumped, every request accepted so far was finalised or is still
    stored-and-reachable -/
def StoredOK (t : List Ev) : Prop :=
  ∀ pre ids post, t = pre ++ Ev.dump ids :: post → ∀ id, Ev.accept id ∈ pre → Ev.final id ∈ pre ∨ id ∈ ids

/-- clause 1 on a (drained) trace: every accepted request was handed over -/
def HandedOK (t : List Ev) : Prop := ∀ id, Ev.accept id ∈ t → Ev.hand id ∈ t

theorem step_lost_mono (s : TState) (e : Ev) (h : s.lost ≠ none) : (s.step e).lost ≠ none := by
  cases e with
  | accept id => exact h
  | hand id => exact h
  | final id => exact h
  | dump ids =>
    simp only [TState.step]
    split
    · next hl _ => exact absurd hl h
    · exact h

theorem foldl_lost_mono : ∀ (t : List Ev) (s : TState), s.lost ≠ none → (t.foldl TState.step s).lost ≠ none
  | [], _, h => h
  | e :: t, s, h => foldl_lost_mono t _ (step_lost_mono s e h)

theorem mem_accepted_foldl : ∀ (t : List Ev) (s : TState) (id : Nat),
    id ∈ (t.foldl TState.step s).accepted ↔ id ∈ s.accepted ∨ Ev.accept id ∈ t
  | [], s, id => by simp
  | e :: t, s, id => by
    rw [List.foldl_cons, mem_accepted_foldl t]
    cases e with
    | accept j =>
      simp only [TState.step, List.mem_cons, Ev.accept.injEq]
      constructor
      · rintro ((h | h) | h)
        · right; left; exact h
        · left; exact h
        · right; right; exact h
      · rintro (h | h | h)
        · left; right; exact h
        · left; left; exact h
        · right; exact h
    | hand j => simp [TState.step]
    | final j => simp [TState.step]
    | dump ids =>
      simp only [TState.step]
      split <;> simp

theorem mem_finalised_foldl : ∀ (t : List Ev) (s : TState) (id : Nat),
    id ∈ (t.foldl TState.step s).finalised ↔ id ∈ s.finalised ∨ Ev.final id ∈ t
  | [], s, id => by simp
  | e :: t, s, id => by
    rw [List.foldl_cons, mem_finalised_foldl t]
    cases e with
    | final j =>
      simp only [TState.step, List.mem_cons, Ev.final.injEq]
      constructor
      · rintro ((h | h) | h)
        · right; left; exact h
        · left; exact h
        · right; right; exact h
      · rintro (h | h | h)
        · left; right; exact h
        · left; left; exact h
        · right; exact h
    | hand j => simp [TState.step]
    | accept j => simp [TState.step]
    | dump ids =>
      simp only [TState.step]
      split <;> simp

theorem mem_handed_foldl : ∀ (t : List Ev) (s : TState) (id : Nat),
    id ∈ (t.foldl TState.step s).handed ↔ id ∈ s.handed ∨ Ev.hand id ∈ t
  | [], s, id => by simp
  | e :: t, s, id => by
    rw [List.foldl_cons, mem_handed_foldl t]
    cases e with
    | hand j =>
      simp only [TState.step, List.mem_cons, Ev.hand.injEq]
      constructor
      · rintro ((h | h) | h)
        · right; left; exact h
        · left; exact h
        · right; right; exact h
      · rintro (h | h | h)
        · left; right; exact h
        · left; left; exact h
        · right; exact h
    | final j => simp [TState.step]
    | accept j => simp [TState.step]
    | dump ids =>
      simp only [TState.step]
      split <;> simp

theorem checkStored_sound (t : List Ev) (h : checkStored t = true) : StoredOK t := by
  intro pre ids post ht id hacc
  unfold checkStored traceState at h
  rw [ht, List.foldl_append, List.foldl_cons] at h
  generalize hs1 : pre.foldl TState.step {} = s1 at h
  -- the dump step must have kept `lost = none`
  have hd : (s1.step (.dump ids)).lost = none := by
    cases hl : (s1.step (.dump ids)).lost with
    | none => rfl
    | some v =>
      exfalso
      have := foldl_lost_mono post (s1.step (.dump ids)) (by rw [hl]; simp)
      rw [Option.isNone_iff_eq_none] at h
      exact this h
  have hacc1 : id ∈ s1.accepted := by
    rw [← hs1, mem_accepted_foldl]; right; exact hacc
  simp only [TState.step] at hd
  split at hd
  · cases hd
  · next hnot =>
    cases hl : s1.lost with
    | some v =>
      -- lost already before: impossible since it stays and hd says none
      rw [hl] at hd; cases hd
    | none =>
      cases hf : s1.accepted.find? (fun id => !(s1.finalised.contains id) && !(ids.contains id)) with
      | some v => exact absurd hf (hnot v hl)
      | none =>
        have := List.find?_eq_none.mp hf id hacc1
        simp only [Bool.and_eq_true, Bool.not_eq_true', not_and, Bool.not_eq_false] at this
        by_cases hfin : s1.finalised.contains id = true
        · left
          have : id ∈ s1.finalised := by simpa using hfin
          rw [← hs1, mem_finalised_foldl] at this
          rcases this with h0 | h0
          · simp at h0
          · exact h0
        · right
          have := this (by simpa using hfin)
          simpa using this

theorem checkHanded_sound (t : List Ev) (h : checkHanded t = true) : HandedOK t := by
  intro id hacc
  unfold checkHanded traceState at h
  simp only [List.all_eq_true] at h
  have h1 : id ∈ (t.foldl TState.step {}).accepted := by
    rw [mem_accepted_foldl]; right; exact hacc
  have h2 := h id h1
  have h3 : id ∈ (t.foldl TState.step {}).handed := by simpa using h2
  rw [mem_handed_foldl] at h3
  rcases h3 with h0 | h0
  · simp at h0
  · exact h0

end OtelVerif.C01
