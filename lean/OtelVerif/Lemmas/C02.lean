import OtelVerif.Model.C02
/-! helper lemmas and step-preserved invariants for C02 (core Lean only) -/
namespace OtelVerif.C02

/-! ### field lemmas of the state transformers -/

@[simp] theorem setP_ps (s : St) (p : Nat) (x : P) : (setP s p x).ps = upd s.ps p x := rfl

theorem condSignal_ph (s : St) (q : Nat) : ((condSignal s).ps q).ph = (s.ps q).ph := by
  unfold condSignal
  cases h : s.waiters with
  | nil => rfl
  | cons w ws =>
    simp only []
    by_cases hq : q = w
    · subst hq; simp
    · simp [upd_other _ _ _ _ hq]

theorem condSignal_el (s : St) (q : Nat) : ((condSignal s).ps q).el = (s.ps q).el := by
  unfold condSignal
  cases h : s.waiters with
  | nil => rfl
  | cons w ws =>
    simp only []
    by_cases hq : q = w
    · subst hq; simp
    · simp [upd_other _ _ _ _ hq]

theorem condSignal_canc (s : St) (q : Nat) : ((condSignal s).ps q).canc = (s.ps q).canc := by
  unfold condSignal
  cases h : s.waiters with
  | nil => rfl
  | cons w ws =>
    simp only []
    by_cases hq : q = w
    · subst hq; simp
    · simp [upd_other _ _ _ _ hq]

/-- everything except `waiters` and the `sig` flags is untouched by `condSignal` -/
theorem condSignal_fields (s : St) :
    (condSignal s).items = s.items ∧ (condSignal s).inflight = s.inflight ∧ (condSignal s).size = s.size ∧
    (condSignal s).stopped = s.stopped ∧ (condSignal s).cwait = s.cwait ∧ (condSignal s).results = s.results ∧
    (condSignal s).accepted = s.accepted ∧ (condSignal s).refused = s.refused ∧ (condSignal s).handed = s.handed ∧
    (condSignal s).finished = s.finished ∧ (condSignal s).outcomes = s.outcomes := by
  unfold condSignal
  cases s.waiters <;> simp

theorem condBroadcast_ph (s : St) (q : Nat) : ((condBroadcast s).ps q).ph = (s.ps q).ph := by
  unfold condBroadcast; simp only []; split <;> rfl

theorem condBroadcast_el (s : St) (q : Nat) : ((condBroadcast s).ps q).el = (s.ps q).el := by
  unfold condBroadcast; simp only []; split <;> rfl

theorem condBroadcast_canc (s : St) (q : Nat) : ((condBroadcast s).ps q).canc = (s.ps q).canc := by
  unfold condBroadcast; simp only []; split <;> rfl

/-- same shape as `condSignal_fields` -/
theorem condBroadcast_fields (s : St) :
    (condBroadcast s).items = s.items ∧ (condBroadcast s).inflight = s.inflight ∧ (condBroadcast s).size = s.size ∧
    (condBroadcast s).stopped = s.stopped ∧ (condBroadcast s).cwait = s.cwait ∧ (condBroadcast s).results = s.results ∧
    (condBroadcast s).accepted = s.accepted ∧ (condBroadcast s).refused = s.refused ∧ (condBroadcast s).handed = s.handed ∧
    (condBroadcast s).finished = s.finished ∧ (condBroadcast s).outcomes = s.outcomes :=
  ⟨rfl, rfl, rfl, rfl, rfl, rfl, rfl, rfl, rfl, rfl, rfl⟩

theorem pop_some {s s' : St} (h : pop s = some s') :
    ∃ id el t, s.items = (id, el) :: t ∧
      s' = { s with items := t, inflight := s.inflight ++ [(id, el)], handed := s.handed ++ [id] } := by
  unfold pop at h
  cases hi : s.items with
  | nil => simp [hi] at h
  | cons x t =>
    obtain ⟨id, el⟩ := x
    simp [hi] at h
    exact ⟨id, el, t, rfl, h.symm⟩

theorem pop_none {s : St} (h : pop s = none) : s.items = [] := by
  unfold pop at h
  cases hi : s.items with
  | nil => rfl
  | cons x t => obtain ⟨id, el⟩ := x; simp [hi] at h

/-! ### schedules -/

theorem runSched_append (k : Cfg) (s : St) (a b : List Label) :
    runSched k s (a ++ b) = (runSched k s a).bind (fun s' => runSched k s' b) := by
  induction a generalizing s with
  | nil => simp [runSched]
  | cons l ls ih =>
    simp only [List.cons_append, runSched]
    cases fire k s l with
    | none => simp
    | some s' => simpa using ih s'

/-- invariant principle: true initially, preserved by every enabled label ⇒ true in every reachable state -/
theorem reachable_induction (k : Cfg) (I : St → Prop) (h0 : I {})
    (hstep : ∀ s l s', I s → fire k s l = some s' → I s') : ∀ s, Reachable k s → I s := by
  intro s ⟨ls, hr⟩
  have : ∀ (ls : List Label) (s0 : St), I s0 → runSched k s0 ls = some s → I s := by
    intro ls
    induction ls with
    | nil => intro s0 h0 hr; simp [runSched] at hr; exact hr ▸ h0
    | cons l ls ih =>
      intro s0 h0 hr
      simp only [runSched] at hr
      cases hf : fire k s0 l with
      | none => simp [hf] at hr
      | some s1 => simp [hf] at hr; exact ih s1 (hstep s0 l s1 h0 hf) hr
  exact this ls {} h0 hr

theorem reachable_step {k : Cfg} {s s' : St} {l : Label} (hr : Reachable k s) (hf : fire k s l = some s') : Reachable k s' := by
  obtain ⟨ls, h⟩ := hr
  refine ⟨ls ++ [l], ?_⟩
  rw [runSched_append, h]
  simp [runSched, hf]

end OtelVerif.C02

namespace OtelVerif.C02

/-! ### group H: histories, FIFO, phases of accepted / refused producers -/

structure InvH (s : St) : Prop where
  fifo : s.handed ++ s.items.map Prod.fst = s.accepted
  accPh : ∀ p ∈ s.accepted, (s.ps p).ph = .waitRes ∨ ∃ r, (s.ps p).ph = .done r
  refPh : ∀ p ∈ s.refused, ∃ r, (s.ps p).ph = .done r
  accNodup : s.accepted.Nodup
  refAcc : ∀ p ∈ s.refused, p ∉ s.accepted

/-- not yet through `add`: neither enqueued nor returned -/
def Ph.open (x : Ph) : Prop := x ≠ .waitRes ∧ ∀ r, x ≠ .done r

theorem InvH.of_ps {s s' : St} (h : InvH s) (h1 : s'.handed = s.handed) (h2 : s'.items = s.items)
    (h3 : s'.accepted = s.accepted) (h4 : s'.refused = s.refused)
    (hp : ∀ p, (s'.ps p).ph = (s.ps p).ph ∨ (s.ps p).ph.open ∨ ∃ r, (s'.ps p).ph = .done r) : InvH s' := by
  refine ⟨by rw [h1, h2, h3]; exact h.fifo, ?_, ?_, by rw [h3]; exact h.accNodup, by rw [h3, h4]; exact h.refAcc⟩
  · intro p hpa
    rw [h3] at hpa
    rcases hp p with e | o | d
    · rw [e]; exact h.accPh p hpa
    · rcases h.accPh p hpa with a | ⟨r, a⟩
      · exact absurd a o.1
      · exact absurd a (o.2 r)
    · exact Or.inr d
  · intro p hpr
    rw [h4] at hpr
    rcases hp p with e | o | d
    · rw [e]; exact h.refPh p hpr
    · obtain ⟨r, a⟩ := h.refPh p hpr
      exact absurd a (o.2 r)
    · exact d

theorem InvH.open_not_acc {s : St} (h : InvH s) {p : Nat} (ho : (s.ps p).ph.open) : p ∉ s.accepted ∧ p ∉ s.refused := by
  constructor
  · intro ha
    rcases h.accPh p ha with a | ⟨r, a⟩
    · exact ho.1 a
    · exact ho.2 r a
  · intro hr
    obtain ⟨r, a⟩ := h.refPh p hr
    exact ho.2 r a

theorem InvH.accept {k : Cfg} {s : St} {p : Nat} {el : Int} (h : InvH s) (ho : (s.ps p).ph.open) : InvH (accept k s p el) := by
  obtain ⟨hna, hnr⟩ := h.open_not_acc ho
  refine ⟨?_, ?_, ?_, ?_, ?_⟩
  · simp only [OtelVerif.C02.accept, List.map_append, List.map_cons, List.map_nil, ← List.append_assoc, h.fifo]
  · intro q hq
    simp only [OtelVerif.C02.accept, List.mem_append, List.mem_singleton] at hq ⊢
    by_cases hqp : q = p
    · subst hqp
      simp only [upd_same]
      cases k.wfr <;> simp
    · rw [upd_other _ _ _ _ hqp]
      rcases hq with hq | hq
      · exact h.accPh q hq
      · exact absurd hq hqp
  · intro q hq
    simp only [OtelVerif.C02.accept] at hq ⊢
    have hqp : q ≠ p := fun e => hnr (e ▸ hq)
    rw [upd_other _ _ _ _ hqp]
    exact h.refPh q hq
  · simp only [OtelVerif.C02.accept]
    exact List.nodup_append.mpr ⟨h.accNodup, by simp, by
      intro a ha b hb
      simp at hb
      subst hb
      exact fun e => hna (e ▸ ha)⟩
  · intro q hq
    simp only [OtelVerif.C02.accept, List.mem_append, List.mem_singleton, not_or] at hq ⊢
    exact ⟨h.refAcc q hq, fun e => hnr (e ▸ hq)⟩

theorem InvH.refuse {s : St} {p : Nat} {r : Res} (h : InvH s) (ho : (s.ps p).ph.open) : InvH (refuse s p r) := by
  obtain ⟨hna, _⟩ := h.open_not_acc ho
  refine ⟨h.fifo, ?_, ?_, h.accNodup, ?_⟩
  · intro q hq
    simp only [OtelVerif.C02.refuse] at hq ⊢
    have hqp : q ≠ p := fun e => hna (e ▸ hq)
    rw [upd_other _ _ _ _ hqp]
    exact h.accPh q hq
  · intro q hq
    simp only [OtelVerif.C02.refuse, List.mem_append, List.mem_singleton] at hq ⊢
    by_cases hqp : q = p
    · subst hqp; simp
    · rw [upd_other _ _ _ _ hqp]
      rcases hq with hq | hq
      · exact h.refPh q hq
      · exact absurd hq hqp
  · intro q hq
    simp only [OtelVerif.C02.refuse, List.mem_append, List.mem_singleton] at hq ⊢
    rcases hq with hq | hq
    · exact h.refAcc q hq
    · exact hq ▸ hna

theorem InvH.register {s : St} {p : Nat} {el : Int} (h : InvH s) (ho : (s.ps p).ph.open) : InvH (register s p el) := by
  refine h.of_ps rfl rfl rfl rfl ?_
  intro q
  by_cases hqp : q = p
  · subst hqp; exact Or.inr (Or.inl ho)
  · left; simp only [OtelVerif.C02.register]; rw [upd_other _ _ _ _ hqp]

theorem InvH.tryAdd {k : Cfg} {s : St} {p : Nat} {el : Int} (h : InvH s) (ho : (s.ps p).ph.open) : InvH (tryAdd k s p el) := by
  unfold OtelVerif.C02.tryAdd
  split
  · split
    · split
      · exact h.refuse ho
      · exact h.register ho
    · exact h.refuse ho
  · split
    · exact h.refuse ho
    · exact h.accept ho

theorem InvH.condSignal {s : St} (h : InvH s) : InvH (condSignal s) := by
  obtain ⟨h1, _, _, _, _, _, h7, h8, h9, _, _⟩ := condSignal_fields s
  exact h.of_ps h9 h1 h7 h8 (fun q => Or.inl (condSignal_ph s q))

theorem InvH.condBroadcast {s : St} (h : InvH s) : InvH (condBroadcast s) :=
  h.of_ps rfl rfl rfl rfl (fun q => Or.inl (condBroadcast_ph s q))

theorem InvH.setPh {s : St} {p : Nat} {x : P} (h : InvH s)
    (hx : x.ph = (s.ps p).ph ∨ (s.ps p).ph.open ∨ ∃ r, x.ph = .done r) : InvH (setP s p x) := by
  refine h.of_ps rfl rfl rfl rfl ?_
  intro q
  by_cases hqp : q = p
  · subst hqp; simpa using hx
  · left; simp [upd_other _ _ _ _ hqp]

theorem InvH.pop {s s' : St} (h : InvH s) (hp : pop s = some s') : InvH s' := by
  obtain ⟨id, el, t, hi, rfl⟩ := pop_some hp
  refine ⟨?_, h.accPh, h.refPh, h.accNodup, h.refAcc⟩
  have := h.fifo
  rw [hi] at this
  simpa using this

theorem Ph.open_idle : Ph.open .idle := ⟨by simp, by simp⟩
theorem Ph.open_sel : Ph.open .sel := ⟨by simp, by simp⟩
theorem Ph.open_wokenTok : Ph.open .wokenTok := ⟨by simp, by simp⟩
theorem Ph.open_wokenCtx : Ph.open .wokenCtx := ⟨by simp, by simp⟩

theorem InvH.finish {k : Cfg} {s : St} {id : Nat} {el : Int} {e : Nat} (h : InvH s) : InvH (finish k s id el e) := by
  unfold OtelVerif.C02.finish
  have h0 : InvH { s with size := s.size - el, inflight := s.inflight.filter (fun x => x.1 != id),
                          finished := s.finished ++ [id], outcomes := s.outcomes ++ [(id, e)] } :=
    h.of_ps rfl rfl rfl rfl (fun q => Or.inl rfl)
  have h1 := h0.condBroadcast
  simp only []
  split
  · exact h1.of_ps rfl rfl rfl rfl (fun q => Or.inl rfl)
  · exact h1

theorem InvH.step {k : Cfg} {s s' : St} {l : Label} (h : InvH s) (hf : fire k s l = some s') : InvH s' := by
  cases l with
  | offer p el =>
    simp only [fire] at hf
    split at hf
    · rename_i hidle
      have ho : (s.ps p).ph.open := hidle ▸ Ph.open_idle
      split at hf
      · cases hf; exact h.setPh (Or.inr (Or.inr ⟨_, rfl⟩))
      · split at hf
        · cases hf; exact h.refuse ho
        · split at hf
          · cases hf; exact h.refuse ho
          · cases hf; exact h.tryAdd ho
    · cases hf
  | cancel p => simp only [fire] at hf; cases hf; exact h.setPh (Or.inl rfl)
  | wakeTok p =>
    simp only [fire] at hf
    split at hf
    · rename_i hc; cases hf; exact h.setPh (Or.inr (Or.inl (hc.1 ▸ Ph.open_sel)))
    · cases hf
  | wakeCtx p =>
    simp only [fire] at hf
    split at hf
    · rename_i hc; cases hf; exact h.setPh (Or.inr (Or.inl (hc.1 ▸ Ph.open_sel)))
    · cases hf
  | relockTok p =>
    simp only [fire] at hf
    split at hf
    · rename_i hc; cases hf; exact h.tryAdd (hc ▸ Ph.open_wokenTok)
    · cases hf
  | relockCtx p =>
    simp only [fire] at hf
    split at hf
    · rename_i hc
      cases hf
      have h1 : InvH (ctxCleanup s p) := by
        unfold ctxCleanup
        split
        · exact h.of_ps rfl rfl rfl rfl (fun q => Or.inl rfl)
        · exact h.condSignal
      refine h1.refuse ?_
      have : ((ctxCleanup s p).ps p).ph = (s.ps p).ph := by
        unfold ctxCleanup
        split
        · rfl
        · exact condSignal_ph s p
      rw [this, hc]; exact Ph.open_wokenCtx
    · cases hf
  | getRes p =>
    simp only [fire] at hf
    split at hf
    · split at hf
      · cases hf
        refine h.of_ps rfl rfl rfl rfl ?_
        intro q
        by_cases hqp : q = p
        · subst hqp; right; right; exact ⟨_, by simp only [upd_same]; rfl⟩
        · left; simp [upd_other _ _ _ _ hqp]
      · cases hf
    · cases hf
  | resCtx p =>
    simp only [fire] at hf
    split at hf
    · cases hf; exact h.setPh (Or.inr (Or.inr ⟨_, rfl⟩))
    · cases hf
  | read c =>
    simp only [fire] at hf
    split at hf
    · cases hf
    · split at hf
      · rename_i s1 hp; cases hf; exact h.pop hp
      · split at hf
        · cases hf; exact h
        · cases hf; exact h.of_ps rfl rfl rfl rfl (fun q => Or.inl rfl)
  | recheck c =>
    simp only [fire] at hf
    split at hf
    · split at hf
      · rename_i s1 hp; cases hf
        exact (h.pop hp).of_ps rfl rfl rfl rfl (fun q => Or.inl rfl)
      · split at hf
        · cases hf; exact h.of_ps rfl rfl rfl rfl (fun q => Or.inl rfl)
        · cases hf; exact h.of_ps rfl rfl rfl rfl (fun q => Or.inl rfl)
    · cases hf
  | complete id e =>
    simp only [fire] at hf
    split at hf
    · cases hf; exact h.finish
    · cases hf
  | shutdown =>
    simp only [fire] at hf; cases hf
    have h0 : InvH { s with stopped := true, cwait := [], cwoken := s.cwoken ++ s.cwait } :=
      h.of_ps rfl rfl rfl rfl (fun q => Or.inl rfl)
    exact h0.condBroadcast

theorem InvH.init : InvH {} := ⟨rfl, by simp, by simp, by simp, by simp⟩

end OtelVerif.C02

namespace OtelVerif.C02

/-! ### group C: the condition variable -/

/-- inside `cond.Wait` -/
def Ph.inCond (x : Ph) : Prop := x = .sel ∨ x = .wokenTok ∨ x = .wokenCtx

structure InvC (k : Cfg) (s : St) : Prop where
  wIff : ∀ p, p ∈ s.waiters ↔ (((s.ps p).ph = .sel ∨ (s.ps p).ph = .wokenCtx) ∧ (s.ps p).sig = false)
  wNodup : s.waiters.Nodup
  sigPh : ∀ p, (s.ps p).sig = true → (s.ps p).ph.inCond
  tokSig : ∀ p, (s.ps p).ph = .wokenTok → (s.ps p).sig = true
  elOk : ∀ p, (s.ps p).ph.inCond → 0 < (s.ps p).el ∧ (s.ps p).el ≤ k.cap ∧ k.block = true

theorem InvC.congr {k : Cfg} {s s' : St} (h : InvC k s) (h1 : s'.ps = s.ps) (h2 : s'.waiters = s.waiters) : InvC k s' :=
  ⟨by rw [h1, h2]; exact h.wIff, by rw [h2]; exact h.wNodup, by rw [h1]; exact h.sigPh, by rw [h1]; exact h.tokSig,
   by rw [h1]; exact h.elOk⟩

/-- one thread changes, the waiter list does not -/
theorem InvC.upd1 {k : Cfg} {s s' : St} {p : Nat} {x : P} (h : InvC k s) (h2 : s'.waiters = s.waiters)
    (h1 : s'.ps = upd s.ps p x)
    (ha : p ∈ s.waiters ↔ ((x.ph = .sel ∨ x.ph = .wokenCtx) ∧ x.sig = false))
    (hb : x.sig = true → x.ph.inCond) (hc : x.ph = .wokenTok → x.sig = true)
    (hd : x.ph.inCond → 0 < x.el ∧ x.el ≤ k.cap ∧ k.block = true) : InvC k s' := by
  refine ⟨?_, by rw [h2]; exact h.wNodup, ?_, ?_, ?_⟩ <;> intro q <;> rw [h1] <;> (try rw [h2]) <;> by_cases hq : q = p
  · subst hq; simpa using ha
  · rw [upd_other _ _ _ _ hq]; exact h.wIff q
  · subst hq; simpa using hb
  · rw [upd_other _ _ _ _ hq]; exact h.sigPh q
  · subst hq; simpa using hc
  · rw [upd_other _ _ _ _ hq]; exact h.tokSig q
  · subst hq; simpa using hd
  · rw [upd_other _ _ _ _ hq]; exact h.elOk q

theorem InvC.not_waiter {k : Cfg} {s : St} {p : Nat} (h : InvC k s)
    (hp : ¬ ((s.ps p).ph = .sel ∨ (s.ps p).ph = .wokenCtx) ∨ (s.ps p).sig = true) : p ∉ s.waiters := by
  intro hw
  have := (h.wIff p).mp hw
  rcases hp with hp | hp
  · exact hp this.1
  · rw [this.2] at hp; cases hp

/-- leave the cond for good (returned or enqueued) -/
theorem InvC.retire {k : Cfg} {s s' : St} {p : Nat} {x : P} (h : InvC k s) (h2 : s'.waiters = s.waiters)
    (h1 : s'.ps = upd s.ps p x) (hw : p ∉ s.waiters) (hx : ¬ x.ph.inCond) (hs : x.sig = false) : InvC k s' := by
  refine h.upd1 h2 h1 ?_ ?_ ?_ ?_
  · constructor
    · intro a; exact absurd a hw
    · intro ⟨a, _⟩
      rcases a with a | a
      · exact absurd (Or.inl a) hx
      · exact absurd (Or.inr (Or.inr a)) hx
  · intro a; rw [hs] at a; cases a
  · intro a; exact absurd (Or.inr (Or.inl a)) hx
  · intro a; exact absurd a hx

theorem InvC.register {k : Cfg} {s : St} {p : Nat} {el : Int} (h : InvC k s) (hw : p ∉ s.waiters)
    (hel : 0 < el ∧ el ≤ k.cap ∧ k.block = true) : InvC k (register s p el) := by
  refine ⟨?_, ?_, ?_, ?_, ?_⟩
  · intro q
    simp only [OtelVerif.C02.register, List.mem_append, List.mem_singleton]
    by_cases hq : q = p
    · subst hq; simp
    · rw [upd_other _ _ _ _ hq]
      simp [hq, h.wIff q]
  · simp only [OtelVerif.C02.register]
    exact List.nodup_append.mpr ⟨h.wNodup, by simp, by
      intro a ha b hb
      simp at hb
      subst hb
      exact fun e => hw (e ▸ ha)⟩
  · intro q
    simp only [OtelVerif.C02.register]
    by_cases hq : q = p
    · subst hq; simp
    · rw [upd_other _ _ _ _ hq]; exact h.sigPh q
  · intro q
    simp only [OtelVerif.C02.register]
    by_cases hq : q = p
    · subst hq; simp
    · rw [upd_other _ _ _ _ hq]; exact h.tokSig q
  · intro q
    simp only [OtelVerif.C02.register]
    by_cases hq : q = p
    · subst hq; simpa using fun _ => hel
    · rw [upd_other _ _ _ _ hq]; exact h.elOk q

theorem InvC.condSignal {k : Cfg} {s : St} (h : InvC k s) : InvC k (condSignal s) := by
  unfold OtelVerif.C02.condSignal
  cases hw : s.waiters with
  | nil => simpa using h
  | cons w ws =>
    have hnd := h.wNodup
    rw [hw] at hnd
    have hwn : w ∉ ws := (List.nodup_cons.mp hnd).1
    have hww := (h.wIff w).mp (by rw [hw]; simp)
    simp only []
    refine ⟨?_, (List.nodup_cons.mp hnd).2, ?_, ?_, ?_⟩ <;> intro q <;> dsimp only <;> by_cases hq : q = w
    · subst hq; simp [hwn]
    · rw [upd_other _ _ _ _ hq]
      have := h.wIff q
      rw [hw] at this
      simpa [hq] using this
    · subst hq
      intro _
      simp only [upd_same]
      rcases hww.1 with a | a
      · exact Or.inl a
      · exact Or.inr (Or.inr a)
    · rw [upd_other _ _ _ _ hq]; exact h.sigPh q
    · subst hq; simp
    · rw [upd_other _ _ _ _ hq]; exact h.tokSig q
    · subst hq; simpa using h.elOk q
    · rw [upd_other _ _ _ _ hq]; exact h.elOk q

theorem InvC.condBroadcast {k : Cfg} {s : St} (h : InvC k s) : InvC k (condBroadcast s) := by
  unfold OtelVerif.C02.condBroadcast
  refine ⟨?_, by simp, ?_, ?_, ?_⟩ <;> intro q <;> dsimp only <;> by_cases hq : q ∈ s.waiters
  · simp [hq]
  · simp only [hq, if_false]
    have := h.wIff q
    simp [hq] at this ⊢
    exact this
  · intro _
    simp only [hq, if_true]
    rcases ((h.wIff q).mp hq).1 with a | a
    · exact Or.inl a
    · exact Or.inr (Or.inr a)
  · simp only [hq, if_false]; exact h.sigPh q
  · simp [hq]
  · simp only [hq, if_false]; exact h.tokSig q
  · simp only [hq, if_true]; exact h.elOk q
  · simp only [hq, if_false]; exact h.elOk q

/-- ctx branch of `cond.Wait` after re-locking, followed by the error return -/
theorem InvC.relockCtx {k : Cfg} {s : St} {p : Nat} {r : Res} (h : InvC k s) (hp : (s.ps p).ph = .wokenCtx) :
    InvC k (refuse (ctxCleanup s p) p r) := by
  unfold OtelVerif.C02.ctxCleanup
  split
  · -- still registered: remove
    rename_i hw
    have hsig := ((h.wIff p).mp hw).2
    refine ⟨?_, ?_, ?_, ?_, ?_⟩
    · intro q
      simp only [OtelVerif.C02.refuse]
      by_cases hq : q = p
      · subst hq
        simp only [upd_same]
        constructor
        · intro a; exact absurd a (List.Nodup.not_mem_erase h.wNodup)
        · intro ⟨a, _⟩; simp at a
      · rw [upd_other _ _ _ _ hq]
        rw [← h.wIff q]
        exact List.mem_erase_of_ne hq
    · simp only [OtelVerif.C02.refuse]; exact h.wNodup.erase p
    · intro q
      simp only [OtelVerif.C02.refuse]
      by_cases hq : q = p
      · subst hq; simp
      · rw [upd_other _ _ _ _ hq]; exact h.sigPh q
    · intro q
      simp only [OtelVerif.C02.refuse]
      by_cases hq : q = p
      · subst hq; simp
      · rw [upd_other _ _ _ _ hq]; exact h.tokSig q
    · intro q
      simp only [OtelVerif.C02.refuse]
      by_cases hq : q = p
      · subst hq; simp [Ph.inCond]
      · rw [upd_other _ _ _ _ hq]; exact h.elOk q
  · -- already signalled: forward the signal
    rename_i hw
    have h1 := h.condSignal
    have hw1 : p ∉ (OtelVerif.C02.condSignal s).waiters := by
      unfold OtelVerif.C02.condSignal
      cases hws : s.waiters with
      | nil => simp [hws]
      | cons w ws =>
        simp only []
        intro a
        exact hw (by rw [hws]; exact List.mem_cons_of_mem _ a)
    exact h1.retire (x := { (OtelVerif.C02.condSignal s).ps p with ph := .done r, sig := false }) rfl rfl hw1
      (by simp [Ph.inCond]) rfl

theorem InvC.init (k : Cfg) : InvC k {} := ⟨by simp, by simp, by simp, by simp, by simp [Ph.inCond]⟩

end OtelVerif.C02

namespace OtelVerif.C02

theorem InvC.sig_false {k : Cfg} {s : St} {p : Nat} (h : InvC k s) (hp : ¬ (s.ps p).ph.inCond) : (s.ps p).sig = false := by
  cases hs : (s.ps p).sig with
  | false => rfl
  | true => exact absurd (h.sigPh p hs) hp

theorem InvC.sameP {k : Cfg} {s s' : St} {p : Nat} {x : P} (h : InvC k s) (h2 : s'.waiters = s.waiters)
    (h1 : s'.ps = upd s.ps p x) (e1 : x.ph = (s.ps p).ph) (e2 : x.sig = (s.ps p).sig) (e3 : x.el = (s.ps p).el) : InvC k s' :=
  h.upd1 h2 h1 (by rw [e1, e2]; exact h.wIff p) (by rw [e1, e2]; exact h.sigPh p) (by rw [e1, e2]; exact h.tokSig p)
    (by rw [e1, e3]; exact h.elOk p)

theorem InvC.tryAdd {k : Cfg} {s : St} {p : Nat} {el : Int} (h : InvC k s) (hw : p ∉ s.waiters)
    (h0 : 0 < el) (h1 : el ≤ k.cap) : InvC k (tryAdd k s p el) := by
  unfold OtelVerif.C02.tryAdd
  split
  · split
    · rename_i hb
      split
      · exact h.retire (x := { s.ps p with ph := .done .stopped, sig := false }) rfl rfl hw (by simp [Ph.inCond]) rfl
      · exact h.register hw ⟨h0, h1, hb⟩
    · exact h.retire (x := { s.ps p with ph := .done .full, sig := false }) rfl rfl hw (by simp [Ph.inCond]) rfl
  · split
    · exact h.retire (x := { s.ps p with ph := .done .stopped, sig := false }) rfl rfl hw (by simp [Ph.inCond]) rfl
    · exact h.retire (x := { s.ps p with ph := if k.wfr then .waitRes else .done .ok, el := el, sig := false }) rfl rfl hw
        (by cases k.wfr <;> simp [Ph.inCond]) rfl

theorem InvC.finish {k : Cfg} {s : St} {id : Nat} {el : Int} {e : Nat} (h : InvC k s) : InvC k (finish k s id el e) := by
  unfold OtelVerif.C02.finish
  have h0 : InvC k { s with size := s.size - el, inflight := s.inflight.filter (fun x => x.1 != id),
                            finished := s.finished ++ [id], outcomes := s.outcomes ++ [(id, e)] } := h.congr rfl rfl
  have h1 := h0.condBroadcast
  simp only []
  split
  · exact h1.congr rfl rfl
  · exact h1

theorem InvC.step {k : Cfg} {s s' : St} {l : Label} (h : InvC k s) (hf : fire k s l = some s') : InvC k s' := by
  cases l with
  | offer p el =>
    simp only [fire] at hf
    split at hf
    · rename_i hidle
      have hnc : ¬ (s.ps p).ph.inCond := by rw [hidle]; simp [Ph.inCond]
      have hw : p ∉ s.waiters := h.not_waiter (Or.inl (by rw [hidle]; simp))
      split at hf
      · cases hf
        exact h.retire (x := { s.ps p with ph := .done .ok }) rfl rfl hw (by simp [Ph.inCond]) (h.sig_false hnc)
      · split at hf
        · cases hf
          exact h.retire (x := { s.ps p with ph := .done .invalid, sig := false }) rfl rfl hw (by simp [Ph.inCond]) rfl
        · split at hf
          · cases hf
            exact h.retire (x := { s.ps p with ph := .done .tooLarge, sig := false }) rfl rfl hw (by simp [Ph.inCond]) rfl
          · cases hf
            rename_i h0 h1 h2
            exact h.tryAdd hw (by omega) (by omega)
    · cases hf
  | cancel p => simp only [fire] at hf; cases hf; exact h.sameP (x := { s.ps p with canc := true }) rfl rfl rfl rfl rfl
  | wakeTok p =>
    simp only [fire] at hf
    split at hf
    · rename_i hc
      cases hf
      have hw : p ∉ s.waiters := h.not_waiter (Or.inr hc.2)
      refine h.upd1 (x := { s.ps p with ph := .wokenTok }) rfl rfl ?_ ?_ ?_ ?_
      · simp [hw]
      · intro _; simp [Ph.inCond]
      · intro _; exact hc.2
      · intro _; exact h.elOk p (Or.inl hc.1)
    · cases hf
  | wakeCtx p =>
    simp only [fire] at hf
    split at hf
    · rename_i hc
      cases hf
      refine h.upd1 (x := { s.ps p with ph := .wokenCtx }) rfl rfl ?_ ?_ ?_ ?_
      · have := h.wIff p
        rw [hc.1] at this
        simpa using this
      · intro _; simp [Ph.inCond]
      · intro a; simp at a
      · intro _; exact h.elOk p (Or.inl hc.1)
    · cases hf
  | relockTok p =>
    simp only [fire] at hf
    split at hf
    · rename_i hc
      cases hf
      have hel := h.elOk p (Or.inr (Or.inl hc))
      exact h.tryAdd (h.not_waiter (Or.inr (h.tokSig p hc))) hel.1 hel.2.1
    · cases hf
  | relockCtx p =>
    simp only [fire] at hf
    split at hf
    · rename_i hc; cases hf; exact h.relockCtx hc
    · cases hf
  | getRes p =>
    simp only [fire] at hf
    split at hf
    · rename_i hc
      split at hf
      · cases hf
        rename_i e _
        have hnc : ¬ (s.ps p).ph.inCond := by rw [hc]; simp [Ph.inCond]
        exact h.retire (x := { s.ps p with ph := .done (.result e) }) rfl rfl
          (h.not_waiter (Or.inl (by rw [hc]; simp))) (by simp [Ph.inCond]) (h.sig_false hnc)
      · cases hf
    · cases hf
  | resCtx p =>
    simp only [fire] at hf
    split at hf
    · rename_i hc
      cases hf
      have hnc : ¬ (s.ps p).ph.inCond := by rw [hc.1]; simp [Ph.inCond]
      exact h.retire (x := { s.ps p with ph := .done .ctxErr }) rfl rfl
        (h.not_waiter (Or.inl (by rw [hc.1]; simp))) (by simp [Ph.inCond]) (h.sig_false hnc)
    · cases hf
  | read c =>
    simp only [fire] at hf
    split at hf
    · cases hf
    · split at hf
      · rename_i s1 hp; cases hf
        obtain ⟨id, el, t, _, rfl⟩ := pop_some hp
        exact h.congr rfl rfl
      · split at hf
        · cases hf; exact h
        · cases hf; exact h.congr rfl rfl
  | recheck c =>
    simp only [fire] at hf
    split at hf
    · split at hf
      · rename_i s1 hp; cases hf
        obtain ⟨id, el, t, _, rfl⟩ := pop_some hp
        exact h.congr rfl rfl
      · split at hf
        · cases hf; exact h.congr rfl rfl
        · cases hf; exact h.congr rfl rfl
    · cases hf
  | complete id e =>
    simp only [fire] at hf
    split at hf
    · cases hf; exact h.finish
    · cases hf
  | shutdown =>
    simp only [fire] at hf; cases hf
    have h0 : InvC k { s with stopped := true, cwait := [], cwoken := s.cwoken ++ s.cwait } := h.congr rfl rfl
    exact h0.condBroadcast

end OtelVerif.C02

namespace OtelVerif.C02

/-! ### group Z: size accounting -/

def sumSz : List (Nat × Int) → Int
  | [] => 0
  | x :: xs => x.2 + sumSz xs

theorem sumSz_append (a b : List (Nat × Int)) : sumSz (a ++ b) = sumSz a + sumSz b := by
  induction a with
  | nil => simp [sumSz]
  | cons x xs ih => simp only [List.cons_append, sumSz, ih]; omega

theorem sumSz_nonneg (l : List (Nat × Int)) (h : ∀ x ∈ l, 0 < x.2) : 0 ≤ sumSz l := by
  induction l with
  | nil => simp [sumSz]
  | cons x xs ih =>
    have h1 := h x (by simp)
    have h2 := ih (fun y hy => h y (by simp [hy]))
    simp only [sumSz]; omega

theorem filter_ne_self (l : List (Nat × Int)) (a : Nat) (h : a ∉ l.map Prod.fst) : l.filter (fun x => x.1 != a) = l := by
  induction l with
  | nil => rfl
  | cons x xs ih =>
    simp only [List.map_cons, List.mem_cons, not_or] at h
    have : (x.1 != a) = true := by simpa using fun e => h.1 e.symm
    simp only [List.filter, this, ih h.2]

/-- removing the (unique) entry of key `id` -/
theorem remove_key (l : List (Nat × Int)) (id : Nat) (el : Int) (hn : (l.map Prod.fst).Nodup) (hl : l.lookup id = some el) :
    sumSz (l.filter (fun x => x.1 != id)) = sumSz l - el ∧
    (l.map Prod.fst).Perm (id :: (l.filter (fun x => x.1 != id)).map Prod.fst) ∧ (id, el) ∈ l := by
  induction l with
  | nil => simp [List.lookup] at hl
  | cons x xs ih =>
    obtain ⟨a, b⟩ := x
    simp only [List.map_cons, List.nodup_cons] at hn
    by_cases hia : id = a
    · subst hia
      simp only [List.lookup, beq_self_eq_true] at hl
      have hf : ((id, b) :: xs).filter (fun x => x.1 != id) = xs := by
        simp only [List.filter, bne_self_eq_false]
        exact filter_ne_self xs id hn.1
      rw [hf]
      cases hl
      exact ⟨by simp only [sumSz]; omega, by simp, by simp⟩
    · have hne : (id == a) = false := by simpa using hia
      simp only [List.lookup, hne] at hl
      have hk : ((a, b).1 != id) = true := by simpa using fun e => hia e.symm
      obtain ⟨i1, i2, i3⟩ := ih hn.2 hl
      simp only [List.filter, hk, sumSz, List.map_cons]
      exact ⟨by omega, (List.Perm.cons a i2).trans (List.Perm.swap id a _), List.mem_cons_of_mem _ i3⟩

structure InvZ (k : Cfg) (s : St) : Prop where
  sizeEq : s.size = sumSz s.items + sumSz s.inflight
  posI : ∀ x ∈ s.items, 0 < x.2
  posF : ∀ x ∈ s.inflight, 0 < x.2
  le : s.size ≤ k.cap
  hperm : s.handed.Perm (s.finished ++ s.inflight.map Prod.fst)

theorem InvZ.congr {k : Cfg} {s s' : St} (h : InvZ k s) (e1 : s'.items = s.items) (e2 : s'.inflight = s.inflight)
    (e3 : s'.size = s.size) (e4 : s'.handed = s.handed) (e5 : s'.finished = s.finished) : InvZ k s' :=
  ⟨by rw [e1, e2, e3]; exact h.sizeEq, by rw [e1]; exact h.posI, by rw [e2]; exact h.posF, by rw [e3]; exact h.le,
   by rw [e2, e4, e5]; exact h.hperm⟩

theorem InvZ.size_nonneg {k : Cfg} {s : St} (h : InvZ k s) : 0 ≤ s.size := by
  have := sumSz_nonneg _ h.posI
  have := sumSz_nonneg _ h.posF
  have := h.sizeEq
  omega

theorem InvZ.tryAdd {k : Cfg} {s : St} {p : Nat} {el : Int} (h : InvZ k s) (h0 : 0 < el) : InvZ k (tryAdd k s p el) := by
  unfold OtelVerif.C02.tryAdd
  split
  · split
    · split
      · exact h.congr rfl rfl rfl rfl rfl
      · exact h.congr rfl rfl rfl rfl rfl
    · exact h.congr rfl rfl rfl rfl rfl
  · rename_i hle
    split
    · exact h.congr rfl rfl rfl rfl rfl
    · refine ⟨?_, ?_, h.posF, ?_, h.hperm⟩
      · simp only [OtelVerif.C02.accept, sumSz_append, sumSz]
        have := h.sizeEq
        omega
      · intro x hx
        simp only [OtelVerif.C02.accept, List.mem_append, List.mem_singleton] at hx
        rcases hx with hx | hx
        · exact h.posI x hx
        · subst hx; exact h0
      · simp only [OtelVerif.C02.accept]; omega

theorem InvZ.pop {k : Cfg} {s s' : St} (h : InvZ k s) (hp : pop s = some s') : InvZ k s' := by
  obtain ⟨id, el, t, hi, rfl⟩ := pop_some hp
  have hpi := h.posI
  rw [hi] at hpi
  refine ⟨?_, fun x hx => hpi x (by simp [hx]), ?_, h.le, ?_⟩
  · have := h.sizeEq
    rw [hi] at this
    simp only [sumSz_append, sumSz] at this ⊢
    omega
  · intro x hx
    simp only [List.mem_append, List.mem_singleton] at hx
    rcases hx with hx | hx
    · exact h.posF x hx
    · subst hx; exact hpi (id, el) (by simp)
  · simp only [List.map_append, List.map_cons, List.map_nil, ← List.append_assoc]
    exact h.hperm.append_right [id]

theorem InvH.handed_nodup {s : St} (h : InvH s) : s.handed.Nodup := by
  have := h.accNodup
  rw [← h.fifo] at this
  exact (List.nodup_append.mp this).1

theorem InvZ.inflight_keys_nodup {k : Cfg} {s : St} (h : InvZ k s) (hH : InvH s) : (s.inflight.map Prod.fst).Nodup := by
  have := (h.hperm.nodup_iff).mp hH.handed_nodup
  exact (List.nodup_append.mp this).2.1

theorem InvZ.finish {k : Cfg} {s : St} {id : Nat} {el : Int} {e : Nat} (h : InvZ k s) (hH : InvH s)
    (hl : s.inflight.lookup id = some el) : InvZ k (finish k s id el e) := by
  obtain ⟨r1, r2, r3⟩ := remove_key s.inflight id el (h.inflight_keys_nodup hH) hl
  have hel : 0 < el := h.posF _ r3
  have h0 : InvZ k { s with size := s.size - el, inflight := s.inflight.filter (fun x => x.1 != id),
                            finished := s.finished ++ [id], outcomes := s.outcomes ++ [(id, e)] } := by
    refine ⟨?_, h.posI, ?_, ?_, ?_⟩
    · simp only [r1]
      have := h.sizeEq
      omega
    · intro x hx
      exact h.posF x (List.mem_filter.mp hx).1
    · have := h.le
      simp only []
      omega
    · simp only [List.append_assoc, List.singleton_append]
      exact h.hperm.trans (List.Perm.append_left _ r2)
  unfold OtelVerif.C02.finish
  obtain ⟨c1, c2, c3, _, _, _, _, _, c9, c10, _⟩ := condBroadcast_fields
    { s with size := s.size - el, inflight := s.inflight.filter (fun x => x.1 != id),
             finished := s.finished ++ [id], outcomes := s.outcomes ++ [(id, e)] }
  have h1 := h0.congr c1 c2 c3 c9 c10
  simp only []
  split
  · exact h1.congr rfl rfl rfl rfl rfl
  · exact h1

theorem ctxCleanup_fields (s : St) (p : Nat) :
    (ctxCleanup s p).items = s.items ∧ (ctxCleanup s p).inflight = s.inflight ∧ (ctxCleanup s p).size = s.size ∧
    (ctxCleanup s p).handed = s.handed ∧ (ctxCleanup s p).finished = s.finished ∧ (ctxCleanup s p).results = s.results ∧
    (ctxCleanup s p).outcomes = s.outcomes := by
  unfold ctxCleanup
  split
  · simp
  · obtain ⟨c1, c2, c3, _, _, c6, _, _, c9, c10, c11⟩ := condSignal_fields s
    exact ⟨c1, c2, c3, c9, c10, c6, c11⟩

theorem InvZ.step {k : Cfg} {s s' : St} {l : Label} (h : InvZ k s) (hH : InvH s) (hC : InvC k s)
    (hf : fire k s l = some s') : InvZ k s' := by
  cases l with
  | offer p el =>
    simp only [fire] at hf
    split at hf
    · split at hf
      · cases hf; exact h.congr rfl rfl rfl rfl rfl
      · split at hf
        · cases hf; exact h.congr rfl rfl rfl rfl rfl
        · split at hf
          · cases hf; exact h.congr rfl rfl rfl rfl rfl
          · cases hf; exact h.tryAdd (by omega)
    · cases hf
  | cancel p => simp only [fire] at hf; cases hf; exact h.congr rfl rfl rfl rfl rfl
  | wakeTok p =>
    simp only [fire] at hf
    split at hf
    · cases hf; exact h.congr rfl rfl rfl rfl rfl
    · cases hf
  | wakeCtx p =>
    simp only [fire] at hf
    split at hf
    · cases hf; exact h.congr rfl rfl rfl rfl rfl
    · cases hf
  | relockTok p =>
    simp only [fire] at hf
    split at hf
    · rename_i hc; cases hf; exact h.tryAdd (hC.elOk p (Or.inr (Or.inl hc))).1
    · cases hf
  | relockCtx p =>
    simp only [fire] at hf
    split at hf
    · cases hf
      obtain ⟨c1, c2, c3, c4, c5, _, _⟩ := ctxCleanup_fields s p
      exact h.congr c1 c2 c3 c4 c5
    · cases hf
  | getRes p =>
    simp only [fire] at hf
    split at hf
    · split at hf
      · cases hf; exact h.congr rfl rfl rfl rfl rfl
      · cases hf
    · cases hf
  | resCtx p =>
    simp only [fire] at hf
    split at hf
    · cases hf; exact h.congr rfl rfl rfl rfl rfl
    · cases hf
  | read c =>
    simp only [fire] at hf
    split at hf
    · cases hf
    · split at hf
      · rename_i s1 hp; cases hf; exact h.pop hp
      · split at hf
        · cases hf; exact h
        · cases hf; exact h.congr rfl rfl rfl rfl rfl
  | recheck c =>
    simp only [fire] at hf
    split at hf
    · split at hf
      · rename_i s1 hp; cases hf; exact (h.pop hp).congr rfl rfl rfl rfl rfl
      · split at hf
        · cases hf; exact h.congr rfl rfl rfl rfl rfl
        · cases hf; exact h.congr rfl rfl rfl rfl rfl
    · cases hf
  | complete id e =>
    simp only [fire] at hf
    split at hf
    · rename_i el hl; cases hf; exact h.finish hH hl
    · cases hf
  | shutdown => simp only [fire] at hf; cases hf; exact h.congr rfl rfl rfl rfl rfl

theorem InvZ.init (k : Cfg) (hk : 0 ≤ k.cap) : InvZ k {} := ⟨by simp [sumSz], by simp, by simp, hk, by simp⟩

end OtelVerif.C02

namespace OtelVerif.C02

/-! ### group W: a registered waiter is never left behind an empty queue -/

/-- if somebody is still registered on the cond, either the queue is not empty (a future `onDone` will
signal) or a signal is already on its way (some waiter's channel is closed and it has not re-evaluated yet) -/
def InvW (s : St) : Prop := s.waiters ≠ [] → 0 < s.size ∨ (∃ p, (s.ps p).sig = true) ∨ s.stopped = true

theorem InvW.of_sig {s s' : St} (h : InvW s) (h1 : s'.waiters = s.waiters) (h2 : s'.size = s.size)
    (h3 : ∀ q, (s.ps q).sig = true → (s'.ps q).sig = true) (h4 : s.stopped = true → s'.stopped = true := by exact fun a => a) :
    InvW s' := by
  intro hw
  rw [h1] at hw
  rcases h hw with a | ⟨q, a⟩ | a
  · left; rw [h2]; exact a
  · right; left; exact ⟨q, h3 q a⟩
  · right; right; exact h4 a

theorem InvW.of_pos {s' : St} (h : 0 < s'.size ∨ s'.stopped = true) : InvW s' := fun _ => by
  rcases h with a | a
  · exact Or.inl a
  · exact Or.inr (Or.inr a)

/-- after the overflow loop the queue is non-empty, unless it was stopped (then the producer is refused and the
queue stays as it is: after `Shutdown` nobody is promised a wake-up any more) -/
theorem tryAdd_size_pos {k : Cfg} {s : St} {p : Nat} {el : Int} (h0 : 0 < el) (h1 : el ≤ k.cap) (h2 : 0 ≤ s.size) :
    0 < (tryAdd k s p el).size ∨ (tryAdd k s p el).stopped = true := by
  unfold tryAdd
  split
  · split
    · split
      · rename_i hst; right; simpa [refuse] using hst
      · left; simp only [register]; omega
    · left; simp only [refuse]; omega
  · split
    · rename_i hst; right; simpa [refuse] using hst
    · left; simp only [accept]; omega

theorem condSignal_W (s : St) : (condSignal s).waiters ≠ [] → ∃ w, w ∈ s.waiters ∧ ((condSignal s).ps w).sig = true := by
  unfold condSignal
  cases hw : s.waiters with
  | nil => intro a; simp [hw] at a
  | cons w ws => intro _; exact ⟨w, by simp, by simp⟩

theorem InvW.step {k : Cfg} {s s' : St} {l : Label} (h : InvW s) (hC : InvC k s) (hZ : InvZ k s)
    (hf : fire k s l = some s') : InvW s' := by
  cases l with
  | offer p el =>
    simp only [fire] at hf
    split at hf
    · rename_i hidle
      have hsf : (s.ps p).sig = false := hC.sig_false (by rw [hidle]; simp [Ph.inCond])
      split at hf
      · cases hf
        refine h.of_sig rfl rfl ?_
        intro q hq
        by_cases hqp : q = p
        · subst hqp; simpa using hq
        · simpa [upd_other _ _ _ _ hqp] using hq
      · have hr : ∀ r, InvW (refuse s p r) := by
          intro r
          refine h.of_sig rfl rfl ?_
          intro q hq
          by_cases hqp : q = p
          · subst hqp; rw [hsf] at hq; cases hq
          · simpa [refuse, upd_other _ _ _ _ hqp] using hq
        split at hf
        · cases hf; exact hr _
        · split at hf
          · cases hf; exact hr _
          · cases hf; exact InvW.of_pos (tryAdd_size_pos (by omega) (by omega) hZ.size_nonneg)
    · cases hf
  | cancel p =>
    simp only [fire] at hf; cases hf
    refine h.of_sig rfl rfl ?_
    intro q hq
    by_cases hqp : q = p
    · subst hqp; simpa using hq
    · simpa [upd_other _ _ _ _ hqp] using hq
  | wakeTok p =>
    simp only [fire] at hf
    split at hf
    · cases hf
      refine h.of_sig rfl rfl ?_
      intro q hq
      by_cases hqp : q = p
      · subst hqp; simpa using hq
      · simpa [upd_other _ _ _ _ hqp] using hq
    · cases hf
  | wakeCtx p =>
    simp only [fire] at hf
    split at hf
    · cases hf
      refine h.of_sig rfl rfl ?_
      intro q hq
      by_cases hqp : q = p
      · subst hqp; simpa using hq
      · simpa [upd_other _ _ _ _ hqp] using hq
    · cases hf
  | relockTok p =>
    simp only [fire] at hf
    split at hf
    · rename_i hc; cases hf
      have hel := hC.elOk p (Or.inr (Or.inl hc))
      exact InvW.of_pos (tryAdd_size_pos hel.1 hel.2.1 hZ.size_nonneg)
    · cases hf
  | relockCtx p =>
    simp only [fire] at hf
    split at hf
    · rename_i hc; cases hf
      unfold ctxCleanup
      split
      · rename_i hw
        have hsf := ((hC.wIff p).mp hw).2
        intro _
        rcases h (List.ne_nil_of_mem hw) with a | ⟨q, a⟩ | a
        · exact Or.inl a
        · right; left
          have hqp : q ≠ p := by intro e; rw [e, hsf] at a; cases a
          exact ⟨q, by simpa [refuse, upd_other _ _ _ _ hqp] using a⟩
        · right; right; exact a
      · rename_i hw
        intro hne
        obtain ⟨w, hw1, hw2⟩ := condSignal_W s hne
        right; left
        have hwp : w ≠ p := fun e => hw (e ▸ hw1)
        exact ⟨w, by simpa [refuse, upd_other _ _ _ _ hwp] using hw2⟩
    · cases hf
  | getRes p =>
    simp only [fire] at hf
    split at hf
    · split at hf
      · cases hf
        refine h.of_sig rfl rfl ?_
        intro q hq
        by_cases hqp : q = p
        · subst hqp; simpa using hq
        · simpa [upd_other _ _ _ _ hqp] using hq
      · cases hf
    · cases hf
  | resCtx p =>
    simp only [fire] at hf
    split at hf
    · cases hf
      refine h.of_sig rfl rfl ?_
      intro q hq
      by_cases hqp : q = p
      · subst hqp; simpa using hq
      · simpa [upd_other _ _ _ _ hqp] using hq
    · cases hf
  | read c =>
    simp only [fire] at hf
    split at hf
    · cases hf
    · split at hf
      · rename_i s1 hp; cases hf
        obtain ⟨id, el, t, _, rfl⟩ := pop_some hp
        exact h.of_sig rfl rfl (fun _ a => a)
      · split at hf
        · cases hf; exact h
        · cases hf; exact h.of_sig rfl rfl (fun _ a => a)
  | recheck c =>
    simp only [fire] at hf
    split at hf
    · split at hf
      · rename_i s1 hp; cases hf
        obtain ⟨id, el, t, _, rfl⟩ := pop_some hp
        exact h.of_sig rfl rfl (fun _ a => a)
      · split at hf
        · cases hf; exact h.of_sig rfl rfl (fun _ a => a)
        · cases hf; exact h.of_sig rfl rfl (fun _ a => a)
    · cases hf
  | complete id e =>
    simp only [fire] at hf
    split at hf
    · rename_i el _; cases hf
      unfold finish
      simp only []
      -- `Broadcast`: nobody stays registered
      split
      · intro hne; exact absurd rfl hne
      · intro hne; exact absurd rfl hne
    · cases hf
  | shutdown => simp only [fire] at hf; cases hf; exact fun hne => absurd rfl hne

theorem InvW.init : InvW {} := by intro h; simp at h

/-! ### all invariants together -/

structure Inv (k : Cfg) (s : St) : Prop where
  H : InvH s
  C : InvC k s
  Z : InvZ k s
  W : InvW s

theorem Inv.reachable {k : Cfg} (hk : 0 ≤ k.cap) {s : St} (hr : Reachable k s) : Inv k s := by
  refine reachable_induction k (Inv k) ⟨InvH.init, InvC.init k, InvZ.init k hk, InvW.init⟩ ?_ s hr
  intro s l s' h hf
  exact ⟨h.H.step hf, h.C.step hf, h.Z.step h.H h.C hf, h.W.step h.C h.Z hf⟩

end OtelVerif.C02

namespace OtelVerif.C02

/-! ### group R: wait_for_result routing -/

structure InvR (s : St) : Prop where
  resOut : ∀ x ∈ s.results, x ∈ s.outcomes
  outFin : s.outcomes.map Prod.fst = s.finished
  routed : ∀ p e, (s.ps p).ph = .done (.result e) → (p, e) ∈ s.outcomes

theorem lookup_mem (l : List (Nat × Nat)) (p e : Nat) (h : l.lookup p = some e) : (p, e) ∈ l := by
  induction l with
  | nil => simp [List.lookup] at h
  | cons x xs ih =>
    obtain ⟨a, b⟩ := x
    by_cases hpa : p = a
    · subst hpa; simp only [List.lookup, beq_self_eq_true] at h; cases h; simp
    · have : (p == a) = false := by simpa using hpa
      simp only [List.lookup, this] at h
      exact List.mem_cons_of_mem _ (ih h)

theorem InvR.of_ps {s s' : St} (h : InvR s) (h1 : s'.results = s.results) (h2 : s'.outcomes = s.outcomes)
    (h3 : s'.finished = s.finished)
    (hp : ∀ q e, (s'.ps q).ph = .done (.result e) → (s.ps q).ph = .done (.result e)) : InvR s' :=
  ⟨by rw [h1, h2]; exact h.resOut, by rw [h2, h3]; exact h.outFin, fun p e a => by rw [h2]; exact h.routed p e (hp p e a)⟩

theorem InvR.upd {s s' : St} {p : Nat} {x : P} (h : InvR s) (h1 : s'.results = s.results) (h2 : s'.outcomes = s.outcomes)
    (h3 : s'.finished = s.finished) (h4 : s'.ps = upd s.ps p x) (hx : ∀ e, x.ph ≠ .done (.result e)) : InvR s' := by
  refine h.of_ps h1 h2 h3 ?_
  intro q e a
  rw [h4] at a
  by_cases hqp : q = p
  · subst hqp; simp only [upd_same] at a; exact absurd a (hx e)
  · rwa [upd_other _ _ _ _ hqp] at a

theorem InvR.condSignal {s : St} (h : InvR s) : InvR (condSignal s) := by
  obtain ⟨_, _, _, _, _, c6, _, _, _, c10, c11⟩ := condSignal_fields s
  exact h.of_ps c6 c11 c10 (fun q e a => by rwa [condSignal_ph] at a)

theorem InvR.condBroadcast {s : St} (h : InvR s) : InvR (condBroadcast s) :=
  h.of_ps rfl rfl rfl (fun q e a => by rwa [condBroadcast_ph] at a)

theorem InvR.tryAdd {k : Cfg} {s : St} {p : Nat} {el : Int} (h : InvR s) : InvR (tryAdd k s p el) := by
  unfold OtelVerif.C02.tryAdd
  split
  · split
    · split
      · exact h.upd (x := { s.ps p with ph := .done .stopped, sig := false }) rfl rfl rfl rfl (by simp)
      · exact h.upd (x := { s.ps p with ph := .sel, el := el, sig := false }) rfl rfl rfl rfl (by simp)
    · exact h.upd (x := { s.ps p with ph := .done .full, sig := false }) rfl rfl rfl rfl (by simp)
  · split
    · exact h.upd (x := { s.ps p with ph := .done .stopped, sig := false }) rfl rfl rfl rfl (by simp)
    · exact h.upd (x := { s.ps p with ph := if k.wfr then .waitRes else .done .ok, el := el, sig := false }) rfl rfl rfl rfl
        (by cases k.wfr <;> simp)

theorem InvR.step {k : Cfg} {s s' : St} {l : Label} (h : InvR s) (hf : fire k s l = some s') : InvR s' := by
  cases l with
  | offer p el =>
    simp only [fire] at hf
    split at hf
    · split at hf
      · cases hf; exact h.upd (x := { s.ps p with ph := .done .ok }) rfl rfl rfl rfl (by simp)
      · split at hf
        · cases hf; exact h.upd (x := { s.ps p with ph := .done .invalid, sig := false }) rfl rfl rfl rfl (by simp)
        · split at hf
          · cases hf; exact h.upd (x := { s.ps p with ph := .done .tooLarge, sig := false }) rfl rfl rfl rfl (by simp)
          · cases hf; exact h.tryAdd
    · cases hf
  | cancel p =>
    simp only [fire] at hf; cases hf
    refine h.of_ps rfl rfl rfl ?_
    intro q e a
    by_cases hqp : q = p
    · subst hqp; simpa using a
    · simpa [upd_other _ _ _ _ hqp] using a
  | wakeTok p =>
    simp only [fire] at hf
    split at hf
    · cases hf; exact h.upd (x := { s.ps p with ph := .wokenTok }) rfl rfl rfl rfl (by simp)
    · cases hf
  | wakeCtx p =>
    simp only [fire] at hf
    split at hf
    · cases hf; exact h.upd (x := { s.ps p with ph := .wokenCtx }) rfl rfl rfl rfl (by simp)
    · cases hf
  | relockTok p =>
    simp only [fire] at hf
    split at hf
    · cases hf; exact h.tryAdd
    · cases hf
  | relockCtx p =>
    simp only [fire] at hf
    split at hf
    · cases hf
      have h1 : InvR (ctxCleanup s p) := by
        unfold ctxCleanup
        split
        · exact h.of_ps rfl rfl rfl (fun _ _ a => a)
        · exact h.condSignal
      exact h1.upd (x := { (ctxCleanup s p).ps p with ph := .done .ctxErr, sig := false }) rfl rfl rfl rfl (by simp)
    · cases hf
  | getRes p =>
    simp only [fire] at hf
    split at hf
    · split at hf
      · rename_i e hl
        cases hf
        refine ⟨fun x hx => h.resOut x (List.mem_filter.mp hx).1, h.outFin, ?_⟩
        intro q e' a
        by_cases hqp : q = p
        · subst hqp
          simp only [upd_same, Ph.done.injEq, Res.result.injEq] at a
          subst a
          exact h.resOut _ (lookup_mem _ _ _ hl)
        · simp only [upd_other _ _ _ _ hqp] at a
          exact h.routed q e' a
      · cases hf
    · cases hf
  | resCtx p =>
    simp only [fire] at hf
    split at hf
    · cases hf; exact h.upd (x := { s.ps p with ph := .done .ctxErr }) rfl rfl rfl rfl (by simp)
    · cases hf
  | read c =>
    simp only [fire] at hf
    split at hf
    · cases hf
    · split at hf
      · rename_i s1 hp; cases hf
        obtain ⟨id, el, t, _, rfl⟩ := pop_some hp
        exact h.of_ps rfl rfl rfl (fun _ _ a => a)
      · split at hf
        · cases hf; exact h
        · cases hf; exact h.of_ps rfl rfl rfl (fun _ _ a => a)
  | recheck c =>
    simp only [fire] at hf
    split at hf
    · split at hf
      · rename_i s1 hp; cases hf
        obtain ⟨id, el, t, _, rfl⟩ := pop_some hp
        exact h.of_ps rfl rfl rfl (fun _ _ a => a)
      · split at hf
        · cases hf; exact h.of_ps rfl rfl rfl (fun _ _ a => a)
        · cases hf; exact h.of_ps rfl rfl rfl (fun _ _ a => a)
    · cases hf
  | complete id e =>
    simp only [fire] at hf
    split at hf
    · rename_i el _; cases hf
      unfold finish
      have h0 : InvR { s with size := s.size - el, inflight := s.inflight.filter (fun x => x.1 != id),
                              finished := s.finished ++ [id], outcomes := s.outcomes ++ [(id, e)] } :=
        ⟨fun x hx => List.mem_append_left _ (h.resOut x hx), by simp [h.outFin],
         fun p e' a => List.mem_append_left _ (h.routed p e' a)⟩
      have h1 := h0.condBroadcast
      simp only []
      split
      · refine ⟨?_, h1.outFin, h1.routed⟩
        intro x hx
        simp only [List.mem_append, List.mem_singleton] at hx
        rcases hx with hx | hx
        · exact h1.resOut x hx
        · subst hx
          obtain ⟨_, _, _, _, _, _, _, _, _, _, c11⟩ := condBroadcast_fields
            { s with size := s.size - el, inflight := s.inflight.filter (fun x => x.1 != id),
                     finished := s.finished ++ [id], outcomes := s.outcomes ++ [(id, e)] }
          rw [c11]; simp
      · exact h1
    · cases hf
  | shutdown =>
    simp only [fire] at hf; cases hf
    have h0 : InvR { s with stopped := true, cwait := [], cwoken := s.cwoken ++ s.cwait } := h.of_ps rfl rfl rfl (fun _ _ a => a)
    exact h0.condBroadcast

theorem InvR.init : InvR {} := ⟨by simp, by simp, by simp⟩

theorem InvR.reachable {k : Cfg} {s : St} (hr : Reachable k s) : InvR s :=
  reachable_induction k InvR InvR.init (fun _ _ _ h hf => h.step hf) s hr

/-- an association list with distinct keys is a function -/
theorem keys_nodup_functional (l : List (Nat × Nat)) (h : (l.map Prod.fst).Nodup) (p e e' : Nat)
    (h1 : (p, e) ∈ l) (h2 : (p, e') ∈ l) : e = e' := by
  induction l with
  | nil => simp at h1
  | cons x xs ih =>
    simp only [List.map_cons, List.nodup_cons] at h
    simp only [List.mem_cons] at h1 h2
    rcases h1 with h1 | h1 <;> rcases h2 with h2 | h2
    · rw [← h1] at h2; exact (Prod.mk.inj h2).2.symm
    · subst h1; exact absurd (List.mem_map_of_mem (f := Prod.fst) h2) h.1
    · subst h2; exact absurd (List.mem_map_of_mem (f := Prod.fst) h1) h.1
    · exact ih h.2 h1 h2

end OtelVerif.C02

namespace OtelVerif.C02

/-! ### cond.go alone -/

def CPh.inCond (x : CPh) : Prop := x = .sel ∨ x = .wokenTok ∨ x = .wokenCtx

structure InvA (s : CSt) : Prop where
  wIff : ∀ i, i ∈ s.waiters ↔ (((s.ws i).ph = .sel ∨ (s.ws i).ph = .wokenCtx) ∧ (s.ws i).sig = false)
  wNodup : s.waiters.Nodup
  sigPh : ∀ i, (s.ws i).sig = true → (s.ws i).ph.inCond
  tokSig : ∀ i, (s.ws i).ph = .wokenTok → (s.ws i).sig = true

theorem InvA.upd1 {s s' : CSt} {p : Nat} {x : W} (h : InvA s) (h2 : s'.waiters = s.waiters)
    (h1 : s'.ws = upd s.ws p x)
    (ha : p ∈ s.waiters ↔ ((x.ph = .sel ∨ x.ph = .wokenCtx) ∧ x.sig = false))
    (hb : x.sig = true → x.ph.inCond) (hc : x.ph = .wokenTok → x.sig = true) : InvA s' := by
  refine ⟨?_, by rw [h2]; exact h.wNodup, ?_, ?_⟩ <;> intro q <;> rw [h1] <;> (try rw [h2]) <;> by_cases hq : q = p
  · subst hq; simpa using ha
  · rw [upd_other _ _ _ _ hq]; exact h.wIff q
  · subst hq; simpa using hb
  · rw [upd_other _ _ _ _ hq]; exact h.sigPh q
  · subst hq; simpa using hc
  · rw [upd_other _ _ _ _ hq]; exact h.tokSig q

theorem InvA.signal {s : CSt} (h : InvA s) : InvA s.signal := by
  unfold CSt.signal
  cases hw : s.waiters with
  | nil => simpa using h
  | cons w ws =>
    have hnd := h.wNodup
    rw [hw] at hnd
    have hwn : w ∉ ws := (List.nodup_cons.mp hnd).1
    have hww := (h.wIff w).mp (by rw [hw]; simp)
    simp only []
    refine ⟨?_, (List.nodup_cons.mp hnd).2, ?_, ?_⟩ <;> intro q <;> dsimp only <;> by_cases hq : q = w
    · subst hq; simp [hwn]
    · rw [upd_other _ _ _ _ hq]
      have := h.wIff q
      rw [hw] at this
      simpa [hq] using this
    · subst hq
      intro _
      simp only [upd_same]
      rcases hww.1 with a | a
      · exact Or.inl a
      · exact Or.inr (Or.inr a)
    · rw [upd_other _ _ _ _ hq]; exact h.sigPh q
    · subst hq; simp
    · rw [upd_other _ _ _ _ hq]; exact h.tokSig q

theorem InvA.step {s s' : CSt} {l : CLabel} (h : InvA s) (hf : cfire s l = some s') : InvA s' := by
  have hnw : ∀ i, (¬ ((s.ws i).ph = .sel ∨ (s.ws i).ph = .wokenCtx) ∨ (s.ws i).sig = true) → i ∉ s.waiters := by
    intro i hp hw
    have := (h.wIff i).mp hw
    rcases hp with hp | hp
    · exact hp this.1
    · rw [this.2] at hp; cases hp
  cases l with
  | wait i =>
    simp only [cfire] at hf
    split at hf
    · rename_i hidle
      cases hf
      have hw : i ∉ s.waiters := hnw i (Or.inl (by rw [hidle]; simp))
      refine ⟨?_, ?_, ?_, ?_⟩
      · intro q
        simp only [List.mem_append, List.mem_singleton]
        by_cases hq : q = i
        · subst hq; simp
        · rw [upd_other _ _ _ _ hq]; simp [hq, h.wIff q]
      · exact List.nodup_append.mpr ⟨h.wNodup, by simp, by
          intro a ha b hb
          simp at hb
          subst hb
          exact fun e => hw (e ▸ ha)⟩
      · intro q
        dsimp only
        by_cases hq : q = i
        · subst hq; simp
        · rw [upd_other _ _ _ _ hq]; exact h.sigPh q
      · intro q
        dsimp only
        by_cases hq : q = i
        · subst hq; simp
        · rw [upd_other _ _ _ _ hq]; exact h.tokSig q
    · cases hf
  | cancel i =>
    simp only [cfire] at hf; cases hf
    exact h.upd1 (x := { s.ws i with canc := true }) rfl rfl (h.wIff i) (h.sigPh i) (h.tokSig i)
  | wakeTok i =>
    simp only [cfire] at hf
    split at hf
    · rename_i hc; cases hf
      have hw : i ∉ s.waiters := hnw i (Or.inr hc.2)
      exact h.upd1 (x := { s.ws i with ph := .wokenTok }) rfl rfl (by simp [hw]) (fun _ => by simp [CPh.inCond]) (fun _ => hc.2)
    · cases hf
  | wakeCtx i =>
    simp only [cfire] at hf
    split at hf
    · rename_i hc; cases hf
      refine h.upd1 (x := { s.ws i with ph := .wokenCtx }) rfl rfl ?_ (fun _ => by simp [CPh.inCond]) (fun a => by simp at a)
      have := h.wIff i
      rw [hc.1] at this
      simpa using this
    · cases hf
  | relockTok i =>
    simp only [cfire] at hf
    split at hf
    · rename_i hc; cases hf
      have hw : i ∉ s.waiters := hnw i (Or.inr (h.tokSig i hc))
      exact h.upd1 (x := { s.ws i with ph := .done .nil, sig := false }) rfl rfl (by simp [hw]) (fun a => by simp at a) (fun a => by simp at a)
    · cases hf
  | relockCtx i =>
    simp only [cfire] at hf
    split at hf
    · rename_i hc; cases hf
      split
      · rename_i hw
        refine ⟨?_, h.wNodup.erase i, ?_, ?_⟩ <;> intro q <;> dsimp only <;> by_cases hq : q = i
        · subst hq
          simp only [upd_same]
          constructor
          · intro a; exact absurd a (List.Nodup.not_mem_erase h.wNodup)
          · intro ⟨a, _⟩; simp at a
        · rw [upd_other _ _ _ _ hq, ← h.wIff q]; exact List.mem_erase_of_ne hq
        · subst hq; simp
        · rw [upd_other _ _ _ _ hq]; exact h.sigPh q
        · subst hq; simp
        · rw [upd_other _ _ _ _ hq]; exact h.tokSig q
      · rename_i hw
        have h1 := h.signal
        have hw1 : i ∉ s.signal.waiters := by
          unfold CSt.signal
          cases hws : s.waiters with
          | nil => simp [hws]
          | cons w ws =>
            simp only []
            intro a
            exact hw (by rw [hws]; exact List.mem_cons_of_mem _ a)
        exact h1.upd1 (x := { s.signal.ws i with ph := .done .ctx, sig := false }) rfl rfl (by simp [hw1]) (fun a => by simp at a) (fun a => by simp at a)
    · cases hf
  | signal => simp only [cfire] at hf; cases hf; exact h.signal
  | broadcast =>
    simp only [cfire] at hf; cases hf
    unfold CSt.broadcast
    refine ⟨?_, by simp, ?_, ?_⟩ <;> intro q <;> dsimp only <;> by_cases hq : q ∈ s.waiters
    · simp [hq]
    · simp only [hq, if_false]
      have := h.wIff q
      simp [hq] at this ⊢
      exact this
    · intro _
      simp only [hq, if_true]
      rcases ((h.wIff q).mp hq).1 with a | a
      · exact Or.inl a
      · exact Or.inr (Or.inr a)
    · simp only [hq, if_false]; exact h.sigPh q
    · simp [hq]
    · simp only [hq, if_false]; exact h.tokSig q

theorem InvA.init : InvA {} := ⟨by simp, by simp, by simp, by simp⟩

theorem InvA.run {s s' : CSt} (ls : List CLabel) (h : InvA s) (hr : crun s ls = some s') : InvA s' := by
  induction ls generalizing s with
  | nil => simp [crun] at hr; exact hr ▸ h
  | cons l ls ih =>
    simp only [crun] at hr
    cases hf : cfire s l with
    | none => simp [hf] at hr
    | some s1 => simp [hf] at hr; exact ih (h.step hf) hr

end OtelVerif.C02
