import OtelVerif.Model.C02A
import OtelVerif.Lemmas.C02Cons
/-!
# C02: the consumer pool (`Model/C02A.lean`) — what every queue label does to the parked / notified consumers, the pool
invariant, refinement of the queue LTS
-/
namespace OtelVerif.C02.A

open OtelVerif.C02

/-- nothing happened on the consumer side -/
def Same (s s' : St) : Prop := s'.cwait = s.cwait ∧ s'.cwoken = s.cwoken ∧ s'.stopped = s.stopped ∧ s'.handed = s.handed

/-- a push notified the longest-parked consumer -/
def Push (s s' : St) : Prop :=
  s'.cwait = s.cwait.drop 1 ∧ s'.cwoken = s.cwoken ++ s.cwait.take 1 ∧ s'.stopped = s.stopped ∧ s'.handed = s.handed

/-- the effect of one queue label on `hasMoreElements`' waiters, on `stopped` and on `handed` — the same for `fire` and `pfire` -/
def Eff (s s' : St) : Label → Prop
  | .read c => c ∉ s.cwait ++ s.cwoken ∧ s'.cwoken = s.cwoken ∧ s'.stopped = s.stopped ∧
      ((s'.cwait = s.cwait ∧ ((∃ x, s'.handed = s.handed ++ [x]) ∨ (s'.handed = s.handed ∧ s.stopped = true))) ∨
       (s'.cwait = s.cwait ++ [c] ∧ s'.handed = s.handed))
  | .recheck c => c ∈ s.cwoken ∧ s'.cwoken = s.cwoken.erase c ∧ s'.stopped = s.stopped ∧
      ((s'.cwait = s.cwait ∧ ((∃ x, s'.handed = s.handed ++ [x]) ∨ (s'.handed = s.handed ∧ s.stopped = true))) ∨
       (s'.cwait = s.cwait ++ [c] ∧ s'.handed = s.handed))
  | .shutdown => s'.cwait = [] ∧ s'.cwoken = s.cwoken ++ s.cwait ∧ s'.stopped = true ∧ s'.handed = s.handed
  | _ => Same s s' ∨ Push s s'

theorem same_refl (s : St) : Same s s := ⟨rfl, rfl, rfl, rfl⟩

theorem condBroadcast_same (s : St) : Same s (condBroadcast s) := ⟨rfl, rfl, rfl, rfl⟩

theorem condSignal_same (s : St) : Same s (condSignal s) := by
  obtain ⟨_, b, c, d⟩ := condSignal_cons s
  exact ⟨b, c, d, (condSignal_fields s).2.2.2.2.2.2.2.2.1⟩

theorem ctxCleanup_same (s : St) (p : Nat) : Same s (ctxCleanup s p) := by
  unfold ctxCleanup
  split
  · exact ⟨rfl, rfl, rfl, rfl⟩
  · exact condSignal_same s

theorem tryAdd_eff (k : Cfg) (s : St) (p : Nat) (el : Int) : Same s (tryAdd k s p el) ∨ Push s (tryAdd k s p el) := by
  unfold tryAdd refuse register accept
  split
  · split
    · split
      · exact Or.inl ⟨rfl, rfl, rfl, rfl⟩
      · exact Or.inl ⟨rfl, rfl, rfl, rfl⟩
    · exact Or.inl ⟨rfl, rfl, rfl, rfl⟩
  · split
    · exact Or.inl ⟨rfl, rfl, rfl, rfl⟩
    · exact Or.inr ⟨rfl, rfl, rfl, rfl⟩

theorem ptryAdd_eff (k : Cfg) (s : St) (p : Nat) (el : Int) : Same s (ptryAdd k s p el) ∨ Push s (ptryAdd k s p el) := by
  unfold ptryAdd refuse register paccept
  split
  · split
    · split
      · exact Or.inl ⟨rfl, rfl, rfl, rfl⟩
      · exact Or.inl ⟨rfl, rfl, rfl, rfl⟩
    · exact Or.inl ⟨rfl, rfl, rfl, rfl⟩
  · exact Or.inr ⟨rfl, rfl, rfl, rfl⟩

theorem ctxRefuse_eff (s : St) (p : Nat) (r : Res) : Same s (refuse (ctxCleanup s p) p r) := by
  obtain ⟨a, b, c, d⟩ := ctxCleanup_same s p
  exact ⟨a, b, c, d⟩

theorem finish_same (k : Cfg) (s : St) (id : Nat) (el : Int) (e : Nat) : Same s (finish k s id el e) := by
  unfold finish
  simp only []
  split <;> exact ⟨rfl, rfl, rfl, rfl⟩

theorem pfinish_same (s : St) (id : Nat) (el : Int) (e : Nat) : Same s (pfinish s id el e) := ⟨rfl, rfl, rfl, rfl⟩

theorem pop_eff {s s1 : St} (h : pop s = some s1) :
    s1.cwait = s.cwait ∧ s1.cwoken = s.cwoken ∧ s1.stopped = s.stopped ∧ ∃ x, s1.handed = s.handed ++ [x] := by
  obtain ⟨id, el, t, _, rfl⟩ := pop_some h
  exact ⟨rfl, rfl, rfl, id, rfl⟩

theorem ppop_eff {s s1 : St} (h : ppop s = some s1) :
    s1.cwait = s.cwait ∧ s1.cwoken = s.cwoken ∧ s1.stopped = s.stopped ∧ ∃ x, s1.handed = s.handed ++ [x] := by
  obtain ⟨s0, hp, e⟩ := ppop_some h
  obtain ⟨a, b, c, d⟩ := pop_eff hp
  rcases e with rfl | ⟨_, rfl⟩
  · exact ⟨a, b, c, d⟩
  · exact ⟨a, b, c, d⟩

theorem fire_eff {k : Cfg} {s s' : St} {l : Label} (hf : fire k s l = some s') : Eff s s' l := by
  cases l with
  | offer p el =>
    simp only [fire] at hf
    split at hf
    · split at hf
      · cases hf; exact Or.inl ⟨rfl, rfl, rfl, rfl⟩
      · split at hf
        · cases hf; exact Or.inl ⟨rfl, rfl, rfl, rfl⟩
        · split at hf
          · cases hf; exact Or.inl ⟨rfl, rfl, rfl, rfl⟩
          · cases hf; exact tryAdd_eff _ _ _ _
    · cases hf
  | cancel p => simp only [fire] at hf; cases hf; exact Or.inl ⟨rfl, rfl, rfl, rfl⟩
  | wakeTok p =>
    simp only [fire] at hf
    split at hf
    · cases hf; exact Or.inl ⟨rfl, rfl, rfl, rfl⟩
    · cases hf
  | wakeCtx p =>
    simp only [fire] at hf
    split at hf
    · cases hf; exact Or.inl ⟨rfl, rfl, rfl, rfl⟩
    · cases hf
  | relockTok p =>
    simp only [fire] at hf
    split at hf
    · cases hf; exact tryAdd_eff _ _ _ _
    · cases hf
  | relockCtx p =>
    simp only [fire] at hf
    split at hf
    · cases hf; exact Or.inl (ctxRefuse_eff _ _ _)
    · cases hf
  | getRes p =>
    simp only [fire] at hf
    split at hf
    · split at hf
      · cases hf; exact Or.inl ⟨rfl, rfl, rfl, rfl⟩
      · cases hf
    · cases hf
  | resCtx p =>
    simp only [fire] at hf
    split at hf
    · cases hf; exact Or.inl ⟨rfl, rfl, rfl, rfl⟩
    · cases hf
  | read c =>
    simp only [fire] at hf
    split at hf
    · cases hf
    · rename_i hc
      split at hf
      · rename_i s1 hp; cases hf
        obtain ⟨a, b, c', d⟩ := pop_eff hp
        exact ⟨hc, b, c', Or.inl ⟨a, Or.inl d⟩⟩
      · split at hf
        · rename_i hs; cases hf
          exact ⟨hc, rfl, rfl, Or.inl ⟨rfl, Or.inr ⟨rfl, hs⟩⟩⟩
        · cases hf
          exact ⟨hc, rfl, rfl, Or.inr ⟨rfl, rfl⟩⟩
  | recheck c =>
    simp only [fire] at hf
    split at hf
    · rename_i hc
      split at hf
      · rename_i s1 hp; cases hf
        obtain ⟨a, b, c', d⟩ := pop_eff hp
        exact ⟨hc, by simp only []; rw [b], c', Or.inl ⟨a, Or.inl d⟩⟩
      · split at hf
        · rename_i hs; cases hf
          exact ⟨hc, rfl, rfl, Or.inl ⟨rfl, Or.inr ⟨rfl, hs⟩⟩⟩
        · cases hf
          exact ⟨hc, rfl, rfl, Or.inr ⟨rfl, rfl⟩⟩
    · cases hf
  | complete id e =>
    simp only [fire] at hf
    split at hf
    · cases hf; exact Or.inl (finish_same _ _ _ _ _)
    · cases hf
  | shutdown => simp only [fire] at hf; cases hf; exact ⟨rfl, rfl, rfl, rfl⟩

theorem pfire_eff {k : Cfg} {s s' : St} {l : Label} (hf : pfire k s l = some s') : Eff s s' l := by
  cases l with
  | offer p el =>
    simp only [pfire] at hf
    split at hf
    · cases hf; exact ptryAdd_eff _ _ _ _
    · cases hf
  | cancel p => simp only [pfire] at hf; cases hf; exact Or.inl ⟨rfl, rfl, rfl, rfl⟩
  | wakeTok p =>
    simp only [pfire] at hf
    split at hf
    · cases hf; exact Or.inl ⟨rfl, rfl, rfl, rfl⟩
    · cases hf
  | wakeCtx p =>
    simp only [pfire] at hf
    split at hf
    · cases hf; exact Or.inl ⟨rfl, rfl, rfl, rfl⟩
    · cases hf
  | relockTok p =>
    simp only [pfire] at hf
    split at hf
    · cases hf; exact ptryAdd_eff _ _ _ _
    · cases hf
  | relockCtx p =>
    simp only [pfire] at hf
    split at hf
    · cases hf; exact Or.inl (ctxRefuse_eff _ _ _)
    · cases hf
  | getRes p => simp only [pfire] at hf; cases hf
  | resCtx p => simp only [pfire] at hf; cases hf
  | read c =>
    simp only [pfire] at hf
    split at hf
    · cases hf
    · rename_i hc
      split at hf
      · rename_i hs; cases hf
        exact ⟨hc, rfl, rfl, Or.inl ⟨rfl, Or.inr ⟨rfl, hs⟩⟩⟩
      · split at hf
        · rename_i s1 hp; cases hf
          obtain ⟨a, b, c', d⟩ := ppop_eff hp
          exact ⟨hc, b, c', Or.inl ⟨a, Or.inl d⟩⟩
        · cases hf
          exact ⟨hc, rfl, rfl, Or.inr ⟨rfl, rfl⟩⟩
  | recheck c =>
    simp only [pfire] at hf
    split at hf
    · rename_i hc
      split at hf
      · rename_i hs; cases hf
        exact ⟨hc, rfl, rfl, Or.inl ⟨rfl, Or.inr ⟨rfl, hs⟩⟩⟩
      · split at hf
        · rename_i s1 hp; cases hf
          obtain ⟨a, b, c', d⟩ := ppop_eff hp
          exact ⟨hc, by simp only []; rw [b], c', Or.inl ⟨a, Or.inl d⟩⟩
        · cases hf
          exact ⟨hc, rfl, rfl, Or.inr ⟨rfl, rfl⟩⟩
    · cases hf
  | complete id e =>
    simp only [pfire] at hf
    split at hf
    · cases hf; exact Or.inl (pfinish_same _ _ _ _)
    · cases hf
  | shutdown => simp only [pfire] at hf; cases hf; exact ⟨rfl, rfl, rfl, rfl⟩

theorem fireQ_eff {k : Cfg} {pl : Pool} {s s' : St} {l : Label} (hf : fireQ k pl s l = some s') : Eff s s' l := by
  unfold fireQ at hf
  split at hf
  · exact pfire_eff hf
  · exact fire_eff hf

/-! ## the pool invariant -/

/-- every consumer that sleeps in `Read` (parked or notified) is a consumer of the pool in phase `parked`, and vice versa;
nobody sleeps twice; a consumer has left only if the queue was shut down -/
structure AInv (pl : Pool) (a : ASt) : Prop where
  inW : ∀ c, c ∈ a.q.cwait ++ a.q.cwoken → a.cs c = .parked ∧ c < pl.n
  parked : ∀ c, a.cs c = .parked → c ∈ a.q.cwait ++ a.q.cwoken
  nodup : (a.q.cwait ++ a.q.cwoken).Nodup
  exited : ∀ c, a.cs c = .exited → a.q.stopped = true

theorem AInv.init (pl : Pool) : AInv pl {} := by
  refine ⟨?_, ?_, ?_, ?_⟩
  · intro c h
    have h' : c ∈ ([] : List Nat) ++ [] := h
    simp at h'
  · intro c h
    have h' : CPh.loop = CPh.parked := h
    cases h'
  · show (([] : List Nat) ++ []).Nodup
    simp
  · intro c h
    have h' : CPh.loop = CPh.exited := h
    cases h'

theorem take_drop_mem (l : List Nat) (c : Nat) : c ∈ l.drop 1 ++ l.take 1 ↔ c ∈ l := by
  cases l with
  | nil => simp
  | cons x t => simp [or_comm]

/-- a queue label other than `read` / `recheck`: the set of sleeping consumers does not change, `stopped` only grows -/
theorem AInv.qstep {pl : Pool} {a : ASt} {q' : St} {l : Label} (h : AInv pl a) (he : Eff a.q q' l)
    (h1 : ∀ c, l ≠ .read c) (h2 : ∀ c, l ≠ .recheck c) : AInv pl { a with q := q' } := by
  have key : (∀ c, c ∈ q'.cwait ++ q'.cwoken ↔ c ∈ a.q.cwait ++ a.q.cwoken) ∧ (q'.cwait ++ q'.cwoken).Nodup ∧
      (a.q.stopped = true → q'.stopped = true) := by
    have same : Same a.q q' → (∀ c, c ∈ q'.cwait ++ q'.cwoken ↔ c ∈ a.q.cwait ++ a.q.cwoken) ∧ (q'.cwait ++ q'.cwoken).Nodup ∧
        (a.q.stopped = true → q'.stopped = true) := by
      intro ⟨e1, e2, e3, _⟩
      rw [e1, e2, e3]
      exact ⟨fun _ => Iff.rfl, h.nodup, fun x => x⟩
    have push : Push a.q q' → (∀ c, c ∈ q'.cwait ++ q'.cwoken ↔ c ∈ a.q.cwait ++ a.q.cwoken) ∧ (q'.cwait ++ q'.cwoken).Nodup ∧
        (a.q.stopped = true → q'.stopped = true) := by
      intro ⟨e1, e2, e3, _⟩
      rw [e1, e2, e3]
      have hperm : (a.q.cwait.drop 1 ++ (a.q.cwoken ++ a.q.cwait.take 1)).Perm (a.q.cwait ++ a.q.cwoken) := by
        have p1 : (a.q.cwait.drop 1 ++ (a.q.cwoken ++ a.q.cwait.take 1)).Perm ((a.q.cwoken ++ a.q.cwait.take 1) ++ a.q.cwait.drop 1) :=
          List.perm_append_comm
        have p2 : (a.q.cwoken ++ a.q.cwait.take 1) ++ a.q.cwait.drop 1 = a.q.cwoken ++ a.q.cwait := by
          rw [List.append_assoc, List.take_append_drop]
        rw [p2] at p1
        exact p1.trans List.perm_append_comm
      exact ⟨fun c => hperm.mem_iff, hperm.nodup_iff.mpr h.nodup, fun x => x⟩
    cases l with
    | read c => exact absurd rfl (h1 c)
    | recheck c => exact absurd rfl (h2 c)
    | shutdown =>
      obtain ⟨e1, e2, e3, _⟩ := he
      rw [e1, e2, e3]
      have hperm : ([] ++ (a.q.cwoken ++ a.q.cwait)).Perm (a.q.cwait ++ a.q.cwoken) := by
        simp only [List.nil_append]; exact List.perm_append_comm
      exact ⟨fun c => hperm.mem_iff, hperm.nodup_iff.mpr h.nodup, fun _ => rfl⟩
    | offer p el => rcases he with x | x; exact same x; exact push x
    | cancel p => rcases he with x | x; exact same x; exact push x
    | wakeTok p => rcases he with x | x; exact same x; exact push x
    | wakeCtx p => rcases he with x | x; exact same x; exact push x
    | relockTok p => rcases he with x | x; exact same x; exact push x
    | relockCtx p => rcases he with x | x; exact same x; exact push x
    | getRes p => rcases he with x | x; exact same x; exact push x
    | resCtx p => rcases he with x | x; exact same x; exact push x
    | complete id e => rcases he with x | x; exact same x; exact push x
  obtain ⟨k1, k2, k3⟩ := key
  exact ⟨fun c hc => h.inW c ((k1 c).mp hc), fun c hc => (k1 c).mpr (h.parked c hc), k2, fun c hc => k3 (h.exited c hc)⟩

/-- a consumer of the pool goes through `Read` once (`read c` from the top of its loop, or `recheck c` after a notification) -/
theorem AInv.cstep {pl : Pool} {a : ASt} {q' : St} {c : Nat} (h : AInv pl a) (hc : c < pl.n)
    (he : (c ∉ a.q.cwait ++ a.q.cwoken ∧ a.cs c = .loop ∧ q'.cwoken = a.q.cwoken) ∨
          (c ∈ a.q.cwoken ∧ a.cs c = .parked ∧ q'.cwoken = a.q.cwoken.erase c))
    (hst : q'.stopped = a.q.stopped)
    (hw : (q'.cwait = a.q.cwait ∧ ((∃ x, q'.handed = a.q.handed ++ [x]) ∨ (q'.handed = a.q.handed ∧ a.q.stopped = true))) ∨
          (q'.cwait = a.q.cwait ++ [c] ∧ q'.handed = a.q.handed)) :
    AInv pl { q := q', cs := upd a.cs c (after a.q q' c) } := by
  -- `c` is not among the sleepers once it is taken out of `cwoken`
  have hnd := h.nodup
  have hcw : c ∉ a.q.cwait ∨ c ∉ a.q.cwoken := by
    rcases he with ⟨x, _, _⟩ | ⟨x, _, _⟩
    · left; intro y; exact x (List.mem_append_left _ y)
    · left; intro y
      exact (List.nodup_append.mp hnd).2.2 c y c x rfl
  have hcw' : c ∉ a.q.cwait := by
    rcases he with ⟨x, _, _⟩ | ⟨x, _, _⟩
    · intro y; exact x (List.mem_append_left _ y)
    · intro y; exact (List.nodup_append.mp hnd).2.2 c y c x rfl
  have hwok : c ∉ q'.cwoken := by
    rcases he with ⟨x, _, e⟩ | ⟨x, _, e⟩
    · rw [e]; intro y; exact x (List.mem_append_right _ y)
    · rw [e]; exact fun y => (List.Nodup.mem_erase_iff (List.nodup_append.mp hnd).2.1).mp y |>.1 rfl
  have hother : ∀ c', c' ≠ c → (c' ∈ q'.cwoken ↔ c' ∈ a.q.cwoken) := by
    intro c' hne
    rcases he with ⟨_, _, e⟩ | ⟨_, _, e⟩
    · rw [e]
    · rw [e]; exact List.mem_erase_of_ne hne
  have hndw : q'.cwoken.Nodup ∧ ∀ x ∈ q'.cwoken, x ∈ a.q.cwoken := by
    rcases he with ⟨_, _, e⟩ | ⟨_, _, e⟩
    · rw [e]; exact ⟨(List.nodup_append.mp hnd).2.1, fun x hx => hx⟩
    · rw [e]; exact ⟨(List.nodup_append.mp hnd).2.1.erase c, fun x hx => List.mem_of_mem_erase hx⟩
  rcases hw with ⟨e1, hh⟩ | ⟨e1, e2⟩
  · -- did not park: busy or exited
    have hph : after a.q q' c = .exited ∧ a.q.stopped = true ∨ ∃ id, after a.q q' c = .busy id := by
      unfold after
      rcases hh with ⟨x, hh⟩ | ⟨hh, hs⟩
      · right; rw [if_pos (by rw [hh]; simp)]; exact ⟨_, rfl⟩
      · left
        rw [if_neg (by rw [hh]; exact Nat.lt_irrefl _), e1, if_neg hcw']
        exact ⟨rfl, hs⟩
    have hnp : after a.q q' c ≠ .parked := by
      rcases hph with ⟨x, _⟩ | ⟨id, x⟩ <;> rw [x] <;> simp
    refine ⟨?_, ?_, ?_, ?_⟩
    · intro c' hc'
      simp only [] at hc'
      rw [e1] at hc'
      have hne : c' ≠ c := by
        intro e; subst e
        rcases List.mem_append.mp hc' with y | y
        · exact hcw' y
        · exact hwok y
      have : c' ∈ a.q.cwait ++ a.q.cwoken := by
        rcases List.mem_append.mp hc' with y | y
        · exact List.mem_append_left _ y
        · exact List.mem_append_right _ ((hother c' hne).mp y)
      simp only [upd_other _ _ _ _ hne]
      exact h.inW c' this
    · intro c' hc'
      simp only [] at hc' ⊢
      by_cases hne : c' = c
      · subst hne; simp only [upd_same] at hc'; exact absurd hc' hnp
      · simp only [upd_other _ _ _ _ hne] at hc'
        rw [e1]
        rcases List.mem_append.mp (h.parked c' hc') with y | y
        · exact List.mem_append_left _ y
        · exact List.mem_append_right _ ((hother c' hne).mpr y)
    · simp only []
      rw [e1]
      refine List.nodup_append.mpr ⟨(List.nodup_append.mp hnd).1, hndw.1, ?_⟩
      intro x hx y hy
      exact (List.nodup_append.mp hnd).2.2 x hx y (hndw.2 y hy)
    · intro c' hc'
      simp only [] at hc' ⊢
      rw [hst]
      by_cases hne : c' = c
      · subst hne; simp only [upd_same] at hc'
        rcases hph with ⟨_, x⟩ | ⟨id, x⟩
        · exact x
        · rw [x] at hc'; cases hc'
      · simp only [upd_other _ _ _ _ hne] at hc'
        exact h.exited c' hc'
  · -- parked (again)
    have hph : after a.q q' c = .parked := by
      unfold after
      rw [if_neg (by rw [e2]; exact Nat.lt_irrefl _), e1, if_pos (by simp)]
    refine ⟨?_, ?_, ?_, ?_⟩
    · intro c' hc'
      simp only [] at hc' ⊢
      by_cases hne : c' = c
      · subst hne; simp only [upd_same]; exact ⟨hph, hc⟩
      · simp only [upd_other _ _ _ _ hne]
        rw [e1] at hc'
        have : c' ∈ a.q.cwait ++ a.q.cwoken := by
          rcases List.mem_append.mp hc' with y | y
          · rcases List.mem_append.mp y with z | z
            · exact List.mem_append_left _ z
            · simp at z; exact absurd z hne
          · exact List.mem_append_right _ ((hother c' hne).mp y)
        exact h.inW c' this
    · intro c' hc'
      simp only [] at hc' ⊢
      rw [e1]
      by_cases hne : c' = c
      · subst hne; exact List.mem_append_left _ (by simp)
      · simp only [upd_other _ _ _ _ hne] at hc'
        rcases List.mem_append.mp (h.parked c' hc') with y | y
        · exact List.mem_append_left _ (List.mem_append_left _ y)
        · exact List.mem_append_right _ ((hother c' hne).mpr y)
    · simp only []
      rw [e1]
      refine List.nodup_append.mpr ⟨?_, hndw.1, ?_⟩
      · refine List.nodup_append.mpr ⟨(List.nodup_append.mp hnd).1, by simp, ?_⟩
        intro x hx y hy
        simp at hy; subst hy
        intro e; subst e; exact hcw' hx
      · intro x hx y hy
        rcases List.mem_append.mp hx with z | z
        · exact (List.nodup_append.mp hnd).2.2 x z y (hndw.2 y hy)
        · simp at z; subst z
          intro e; subst e; exact hwok hy
    · intro c' hc'
      simp only [] at hc' ⊢
      rw [hst]
      by_cases hne : c' = c
      · subst hne; simp only [upd_same] at hc'; rw [hph] at hc'; cases hc'
      · simp only [upd_other _ _ _ _ hne] at hc'
        exact h.exited c' hc'

theorem AInv.step {k : Cfg} {pl : Pool} {a a' : ASt} {l : ALabel} (h : AInv pl a) (hf : afire k pl a l = some a') : AInv pl a' := by
  cases l with
  | q l =>
    cases l with
    | read c => simp [afire] at hf
    | recheck c => simp [afire] at hf
    | offer p el =>
      simp only [afire, Option.map_eq_some_iff] at hf
      obtain ⟨q', hq, rfl⟩ := hf
      exact h.qstep (fireQ_eff hq) (fun _ e => by cases e) (fun _ e => by cases e)
    | cancel p =>
      simp only [afire, Option.map_eq_some_iff] at hf
      obtain ⟨q', hq, rfl⟩ := hf
      exact h.qstep (fireQ_eff hq) (fun _ e => by cases e) (fun _ e => by cases e)
    | wakeTok p =>
      simp only [afire, Option.map_eq_some_iff] at hf
      obtain ⟨q', hq, rfl⟩ := hf
      exact h.qstep (fireQ_eff hq) (fun _ e => by cases e) (fun _ e => by cases e)
    | wakeCtx p =>
      simp only [afire, Option.map_eq_some_iff] at hf
      obtain ⟨q', hq, rfl⟩ := hf
      exact h.qstep (fireQ_eff hq) (fun _ e => by cases e) (fun _ e => by cases e)
    | relockTok p =>
      simp only [afire, Option.map_eq_some_iff] at hf
      obtain ⟨q', hq, rfl⟩ := hf
      exact h.qstep (fireQ_eff hq) (fun _ e => by cases e) (fun _ e => by cases e)
    | relockCtx p =>
      simp only [afire, Option.map_eq_some_iff] at hf
      obtain ⟨q', hq, rfl⟩ := hf
      exact h.qstep (fireQ_eff hq) (fun _ e => by cases e) (fun _ e => by cases e)
    | getRes p =>
      simp only [afire, Option.map_eq_some_iff] at hf
      obtain ⟨q', hq, rfl⟩ := hf
      exact h.qstep (fireQ_eff hq) (fun _ e => by cases e) (fun _ e => by cases e)
    | resCtx p =>
      simp only [afire, Option.map_eq_some_iff] at hf
      obtain ⟨q', hq, rfl⟩ := hf
      exact h.qstep (fireQ_eff hq) (fun _ e => by cases e) (fun _ e => by cases e)
    | complete id e =>
      simp only [afire, Option.map_eq_some_iff] at hf
      obtain ⟨q', hq, rfl⟩ := hf
      exact h.qstep (fireQ_eff hq) (fun _ e => by cases e) (fun _ e => by cases e)
    | shutdown =>
      simp only [afire, Option.map_eq_some_iff] at hf
      obtain ⟨q', hq, rfl⟩ := hf
      exact h.qstep (fireQ_eff hq) (fun _ e => by cases e) (fun _ e => by cases e)
  | cread c =>
    simp only [afire] at hf
    split at hf
    · rename_i hg
      simp only [Option.map_eq_some_iff] at hf
      obtain ⟨q', hq, rfl⟩ := hf
      obtain ⟨e0, e1, e2, e3⟩ := fireQ_eff hq
      exact h.cstep hg.1 (Or.inl ⟨e0, hg.2, e1⟩) e2 e3
    · cases hf
  | crecheck c =>
    simp only [afire] at hf
    split at hf
    · rename_i hg
      simp only [Option.map_eq_some_iff] at hf
      obtain ⟨q', hq, rfl⟩ := hf
      obtain ⟨e0, e1, e2, e3⟩ := fireQ_eff hq
      exact h.cstep hg.1 (Or.inr ⟨e0, hg.2, e1⟩) e2 e3
    · cases hf
  | cret c =>
    simp only [afire] at hf
    split at hf
    · rename_i id hb
      split at hf
      · cases hf
        refine ⟨?_, ?_, h.nodup, ?_⟩
        · intro c' hc'
          have := h.inW c' hc'
          have hne : c' ≠ c := by intro e; subst e; rw [hb] at this; cases this.1
          simp only [upd_other _ _ _ _ hne]; exact this
        · intro c' hc'
          simp only [] at hc'
          by_cases hne : c' = c
          · subst hne; simp only [upd_same] at hc'; cases hc'
          · simp only [upd_other _ _ _ _ hne] at hc'; exact h.parked c' hc'
        · intro c' hc'
          simp only [] at hc'
          by_cases hne : c' = c
          · subst hne; simp only [upd_same] at hc'; cases hc'
          · simp only [upd_other _ _ _ _ hne] at hc'; exact h.exited c' hc'
      · cases hf
    · cases hf

theorem areachable_induction (k : Cfg) (pl : Pool) (I : ASt → Prop) (h0 : I {})
    (hstep : ∀ a l a', I a → afire k pl a l = some a' → I a') : ∀ a, AReachable k pl a → I a := by
  intro a ⟨ls, hr⟩
  have : ∀ (ls : List ALabel) (a0 : ASt), I a0 → arun k pl a0 ls = some a → I a := by
    intro ls
    induction ls with
    | nil => intro a0 h0 hr; simp [arun] at hr; exact hr ▸ h0
    | cons l ls ih =>
      intro a0 h0 hr
      simp only [arun] at hr
      cases hf : afire k pl a0 l with
      | none => simp [hf] at hr
      | some a1 => simp [hf] at hr; exact ih a1 (hstep a0 l a1 h0 hf) hr
  exact this ls {} h0 hr

theorem AInv.reachable {k : Cfg} {pl : Pool} {a : ASt} (hr : AReachable k pl a) : AInv pl a :=
  areachable_induction k pl (AInv pl) (AInv.init pl) (fun _ _ _ h hf => h.step hf) a hr

/-- every pool step is a step of the queue LTS (or invisible to it) -/
theorem afire_proj {k : Cfg} {pl : Pool} {a a' : ASt} {l : ALabel} (hf : afire k pl a l = some a') :
    match l.proj with
    | some ql => fireQ k pl a.q ql = some a'.q
    | none => a'.q = a.q := by
  cases l with
  | q l =>
    cases l <;> simp only [afire, Option.map_eq_some_iff, ALabel.proj] at hf ⊢ <;>
      first
        | (obtain ⟨q', hq, rfl⟩ := hf; exact hq)
        | cases hf
  | cread c =>
    simp only [afire] at hf
    split at hf
    · simp only [Option.map_eq_some_iff] at hf
      obtain ⟨q', hq, rfl⟩ := hf
      exact hq
    · cases hf
  | crecheck c =>
    simp only [afire] at hf
    split at hf
    · simp only [Option.map_eq_some_iff] at hf
      obtain ⟨q', hq, rfl⟩ := hf
      exact hq
    · cases hf
  | cret c =>
    simp only [afire] at hf
    split at hf
    · split at hf
      · cases hf; rfl
      · cases hf
    · cases hf

theorem prunSched_append (k : Cfg) (s : St) (x y : List Label) :
    prunSched k s (x ++ y) = (prunSched k s x).bind (fun s' => prunSched k s' y) := by
  induction x generalizing s with
  | nil => simp [prunSched]
  | cons l ls ih =>
    simp only [List.cons_append, prunSched]
    cases pfire k s l with
    | none => simp
    | some s' => simpa using ih s'

theorem preachable_step {k : Cfg} {s s' : St} {l : Label} (hr : PReachable k s) (hf : pfire k s l = some s') : PReachable k s' := by
  obtain ⟨ls, h⟩ := hr
  refine ⟨ls ++ [l], ?_⟩
  rw [prunSched_append, h]
  simp [prunSched, hf]

/-- the queue behind a pool is a reachable state of the queue LTS: every theorem about `fire` / `pfire` holds behind the pool -/
theorem areach_queue {k : Cfg} {pl : Pool} {a : ASt} (hr : AReachable k pl a) :
    (pl.persistent = false → Reachable k a.q) ∧ (pl.persistent = true → PReachable k a.q) := by
  refine areachable_induction k pl (fun a => (pl.persistent = false → Reachable k a.q) ∧ (pl.persistent = true → PReachable k a.q))
    ⟨fun _ => ⟨[], rfl⟩, fun _ => ⟨[], rfl⟩⟩ ?_ a hr
  intro a l a' ⟨h1, h2⟩ hf
  have hp := afire_proj hf
  cases hl : l.proj with
  | none =>
    rw [hl] at hp
    simp only [] at hp
    rw [hp]; exact ⟨h1, h2⟩
  | some ql =>
    rw [hl] at hp
    simp only [] at hp
    refine ⟨fun hn => ?_, fun hn => ?_⟩
    · simp only [fireQ, hn] at hp
      exact reachable_step (h1 hn) hp
    · simp only [fireQ, hn] at hp
      exact preachable_step (h2 hn) hp

theorem read_enabled (k : Cfg) (pl : Pool) (s : St) (c : Nat) (h : c ∉ s.cwait ++ s.cwoken) : (fireQ k pl s (.read c)).isSome = true := by
  unfold fireQ
  split
  · simp only [pfire, h, if_false]
    split
    · rfl
    · cases ppop s <;> rfl
  · simp only [fire, h, if_false]
    cases pop s with
    | some s1 => rfl
    | none => cases s.stopped <;> rfl

theorem recheck_enabled (k : Cfg) (pl : Pool) (s : St) (c : Nat) (h : c ∈ s.cwoken) : (fireQ k pl s (.recheck c)).isSome = true := by
  unfold fireQ
  split
  · simp only [pfire, h, if_true]
    split
    · rfl
    · cases ppop s <;> rfl
  · simp only [fire, h, if_true]
    cases pop s with
    | some s1 => rfl
    | none => cases s.stopped <;> rfl

/-- **the pool is work-conserving**: at rest (no consumer or producer goroutine can take a step of its own), on a running
queue, a request is queued only while EVERY consumer of the pool is inside `consumeFunc` -/
theorem work_conserving {k : Cfg} {pl : Pool} {a : ASt} (hr : AReachable k pl a) (hq : AQuiescent k pl a)
    (hs : a.q.stopped = false) (hi : a.q.items ≠ []) : ∀ c, c < pl.n → ∃ id, a.cs c = .busy id := by
  have hI := AInv.reachable hr
  have hK : InvK a.q := by
    cases hp : pl.persistent with
    | false => exact InvK.reachable ((areach_queue hr).1 hp)
    | true => exact InvK.preachable ((areach_queue hr).2 hp)
  have hwk : a.q.cwoken = [] := by
    cases hw : a.q.cwoken with
    | nil => rfl
    | cons c cs =>
      have hc : c ∈ a.q.cwoken := by rw [hw]; simp
      obtain ⟨h1, h2⟩ := hI.inW c (List.mem_append_right _ hc)
      have := hq (.crecheck c) rfl
      simp only [afire, h1, h2, and_self, if_true, Option.map_eq_none_iff] at this
      have := recheck_enabled k pl a.q c hc
      simp_all
  intro c hc
  cases hcs : a.cs c with
  | busy id => exact ⟨id, rfl⟩
  | loop =>
    have hnw : c ∉ a.q.cwait ++ a.q.cwoken := by
      intro hw; have := (hI.inW c hw).1; rw [hcs] at this; cases this
    have := hq (.cread c) rfl
    simp only [afire, hc, hcs, and_self, if_true, Option.map_eq_none_iff] at this
    have := read_enabled k pl a.q c hnw
    simp_all
  | parked =>
    have hw := hI.parked c hcs
    rw [hwk, List.append_nil] at hw
    rcases hK.woken with x | x
    · rw [x] at hw; cases hw
    · rw [hwk] at x
      exact absurd (List.length_eq_zero_iff.mp (Nat.le_zero.mp x)) hi
  | exited =>
    have := hI.exited c hcs
    rw [hs] at this; cases this

/-! ## exactly-once at the level of `consumeFunc` -/

/-- whoever is inside `consumeFunc` holds a request that was handed over, and no two consumers hold the same one -/
structure BInv (a : ASt) : Prop where
  sub : ∀ c id, a.cs c = .busy id → id ∈ a.q.handed
  inj : ∀ c c' id, a.cs c = .busy id → a.cs c' = .busy id → c = c'

theorem eff_handed_q {s s' : St} {l : Label} (he : Eff s s' l) (h1 : ∀ c, l ≠ .read c) (h2 : ∀ c, l ≠ .recheck c) :
    s'.handed = s.handed := by
  cases l with
  | read c => exact absurd rfl (h1 c)
  | recheck c => exact absurd rfl (h2 c)
  | shutdown => exact he.2.2.2
  | offer p el => rcases he with x | x <;> exact x.2.2.2
  | cancel p => rcases he with x | x <;> exact x.2.2.2
  | wakeTok p => rcases he with x | x <;> exact x.2.2.2
  | wakeCtx p => rcases he with x | x <;> exact x.2.2.2
  | relockTok p => rcases he with x | x <;> exact x.2.2.2
  | relockCtx p => rcases he with x | x <;> exact x.2.2.2
  | getRes p => rcases he with x | x <;> exact x.2.2.2
  | resCtx p => rcases he with x | x <;> exact x.2.2.2
  | complete id e => rcases he with x | x <;> exact x.2.2.2

/-- a consumer went through `Read` once -/
theorem BInv.cstep {a : ASt} {q' : St} {c : Nat} (h : BInv a) (hnd : q'.handed.Nodup)
    (hw : (∃ x, q'.handed = a.q.handed ++ [x]) ∨ q'.handed = a.q.handed) :
    BInv { q := q', cs := upd a.cs c (after a.q q' c) } := by
  rcases hw with ⟨x, hx⟩ | hx
  · have hph : after a.q q' c = .busy x := by
      unfold after
      rw [if_pos (by rw [hx]; simp), hx]
      simp
    have hxn : x ∉ a.q.handed := by
      rw [hx] at hnd
      intro hm
      exact (List.nodup_append.mp hnd).2.2 x hm x (by simp) rfl
    refine ⟨?_, ?_⟩
    · intro c1 id hb
      simp only [] at hb ⊢
      by_cases h1 : c1 = c
      · subst h1; simp only [upd_same, hph] at hb; cases hb; rw [hx]; simp
      · simp only [upd_other _ _ _ _ h1] at hb
        rw [hx]; exact List.mem_append_left _ (h.sub c1 id hb)
    · intro c1 c2 id hb1 hb2
      simp only [] at hb1 hb2
      by_cases h1 : c1 = c <;> by_cases h2 : c2 = c
      · rw [h1, h2]
      · subst h1
        simp only [upd_same, hph] at hb1; cases hb1
        simp only [upd_other _ _ _ _ h2] at hb2
        exact absurd (h.sub c2 x hb2) hxn
      · subst h2
        simp only [upd_same, hph] at hb2; cases hb2
        simp only [upd_other _ _ _ _ h1] at hb1
        exact absurd (h.sub c1 x hb1) hxn
      · simp only [upd_other _ _ _ _ h1] at hb1
        simp only [upd_other _ _ _ _ h2] at hb2
        exact h.inj c1 c2 id hb1 hb2
  · have hnb : ∀ id, after a.q q' c ≠ .busy id := by
      intro id
      unfold after
      rw [if_neg (by rw [hx]; exact Nat.lt_irrefl _)]
      split <;> simp
    refine ⟨?_, ?_⟩
    · intro c1 id hb
      simp only [] at hb ⊢
      by_cases h1 : c1 = c
      · subst h1; simp only [upd_same] at hb; exact absurd hb (hnb id)
      · simp only [upd_other _ _ _ _ h1] at hb
        rw [hx]; exact h.sub c1 id hb
    · intro c1 c2 id hb1 hb2
      simp only [] at hb1 hb2
      by_cases h1 : c1 = c
      · subst h1; simp only [upd_same] at hb1; exact absurd hb1 (hnb id)
      · by_cases h2 : c2 = c
        · subst h2; simp only [upd_same] at hb2; exact absurd hb2 (hnb id)
        · simp only [upd_other _ _ _ _ h1] at hb1
          simp only [upd_other _ _ _ _ h2] at hb2
          exact h.inj c1 c2 id hb1 hb2

theorem handed_nodup_of {k : Cfg} {pl : Pool} {a : ASt} (hk : 0 ≤ k.cap) (hr : AReachable k pl a) : a.q.handed.Nodup := by
  cases hp : pl.persistent with
  | false => exact (Inv.reachable hk ((areach_queue hr).1 hp)).H.handed_nodup
  | true => exact (Invp.reachable hk ((areach_queue hr).2 hp)).H.handed_nodup

theorem areachable_step {k : Cfg} {pl : Pool} {a a' : ASt} {l : ALabel} (hr : AReachable k pl a) (hf : afire k pl a l = some a') :
    AReachable k pl a' := by
  obtain ⟨ls, h⟩ := hr
  refine ⟨ls ++ [l], ?_⟩
  have : ∀ (xs : List ALabel) (a0 : ASt), arun k pl a0 (xs ++ [l]) = (arun k pl a0 xs).bind (fun a1 => afire k pl a1 l) := by
    intro xs
    induction xs with
    | nil => intro a0; simp [arun]; cases afire k pl a0 l <;> rfl
    | cons x xs ih =>
      intro a0
      simp only [List.cons_append, arun]
      cases afire k pl a0 x with
      | none => rfl
      | some a1 => exact ih a1
  rw [this, h]
  simpa using hf

theorem BInv.init : BInv {} := by
  refine ⟨?_, ?_⟩
  · intro c id h
    have h' : CPh.loop = CPh.busy id := h
    cases h'
  · intro c c' id h _
    have h' : CPh.loop = CPh.busy id := h
    cases h'

theorem afire_q {k : Cfg} {pl : Pool} {a a' : ASt} {l : Label} (hf : afire k pl a (.q l) = some a') :
    ∃ q', fireQ k pl a.q l = some q' ∧ a' = { a with q := q' } ∧ (∀ c, l ≠ .read c) ∧ (∀ c, l ≠ .recheck c) := by
  cases l with
  | read c => simp [afire] at hf
  | recheck c => simp [afire] at hf
  | offer p el =>
    simp only [afire, Option.map_eq_some_iff] at hf
    obtain ⟨q', hq, e⟩ := hf
    exact ⟨q', hq, e.symm, fun _ e => (by cases e), fun _ e => (by cases e)⟩
  | cancel p =>
    simp only [afire, Option.map_eq_some_iff] at hf
    obtain ⟨q', hq, e⟩ := hf
    exact ⟨q', hq, e.symm, fun _ e => (by cases e), fun _ e => (by cases e)⟩
  | wakeTok p =>
    simp only [afire, Option.map_eq_some_iff] at hf
    obtain ⟨q', hq, e⟩ := hf
    exact ⟨q', hq, e.symm, fun _ e => (by cases e), fun _ e => (by cases e)⟩
  | wakeCtx p =>
    simp only [afire, Option.map_eq_some_iff] at hf
    obtain ⟨q', hq, e⟩ := hf
    exact ⟨q', hq, e.symm, fun _ e => (by cases e), fun _ e => (by cases e)⟩
  | relockTok p =>
    simp only [afire, Option.map_eq_some_iff] at hf
    obtain ⟨q', hq, e⟩ := hf
    exact ⟨q', hq, e.symm, fun _ e => (by cases e), fun _ e => (by cases e)⟩
  | relockCtx p =>
    simp only [afire, Option.map_eq_some_iff] at hf
    obtain ⟨q', hq, e⟩ := hf
    exact ⟨q', hq, e.symm, fun _ e => (by cases e), fun _ e => (by cases e)⟩
  | getRes p =>
    simp only [afire, Option.map_eq_some_iff] at hf
    obtain ⟨q', hq, e⟩ := hf
    exact ⟨q', hq, e.symm, fun _ e => (by cases e), fun _ e => (by cases e)⟩
  | resCtx p =>
    simp only [afire, Option.map_eq_some_iff] at hf
    obtain ⟨q', hq, e⟩ := hf
    exact ⟨q', hq, e.symm, fun _ e => (by cases e), fun _ e => (by cases e)⟩
  | complete id e' =>
    simp only [afire, Option.map_eq_some_iff] at hf
    obtain ⟨q', hq, e⟩ := hf
    exact ⟨q', hq, e.symm, fun _ e => (by cases e), fun _ e => (by cases e)⟩
  | shutdown =>
    simp only [afire, Option.map_eq_some_iff] at hf
    obtain ⟨q', hq, e⟩ := hf
    exact ⟨q', hq, e.symm, fun _ e => (by cases e), fun _ e => (by cases e)⟩

theorem BInv.reachable {k : Cfg} {pl : Pool} {a : ASt} (hk : 0 ≤ k.cap) (hr : AReachable k pl a) : BInv a := by
  have : AReachable k pl a ∧ BInv a := by
    refine areachable_induction k pl (fun a => AReachable k pl a ∧ BInv a) ⟨⟨[], rfl⟩, BInv.init⟩ ?_ a hr
    intro a l a' ⟨hra, hb⟩ hf
    have hra' := areachable_step hra hf
    refine ⟨hra', ?_⟩
    have hnd := handed_nodup_of hk hra'
    cases l with
    | q l =>
      obtain ⟨q', hq, rfl, n1, n2⟩ := afire_q hf
      have hh := eff_handed_q (fireQ_eff hq) n1 n2
      exact ⟨fun c id hc => by simp only []; rw [hh]; exact hb.sub c id hc, hb.inj⟩
    | cread c =>
      simp only [afire] at hf
      split at hf
      · simp only [Option.map_eq_some_iff] at hf
        obtain ⟨q', hq, rfl⟩ := hf
        obtain ⟨_, _, _, e3⟩ := fireQ_eff hq
        refine hb.cstep hnd ?_
        rcases e3 with ⟨_, x | ⟨x, _⟩⟩ | ⟨_, x⟩
        · exact Or.inl x
        · exact Or.inr x
        · exact Or.inr x
      · cases hf
    | crecheck c =>
      simp only [afire] at hf
      split at hf
      · simp only [Option.map_eq_some_iff] at hf
        obtain ⟨q', hq, rfl⟩ := hf
        obtain ⟨_, _, _, e3⟩ := fireQ_eff hq
        refine hb.cstep hnd ?_
        rcases e3 with ⟨_, x | ⟨x, _⟩⟩ | ⟨_, x⟩
        · exact Or.inl x
        · exact Or.inr x
        · exact Or.inr x
      · cases hf
    | cret c =>
      simp only [afire] at hf
      split at hf
      · split at hf
        · cases hf
          refine ⟨?_, ?_⟩
          · intro c1 id h1
            simp only [] at h1
            by_cases e : c1 = c
            · subst e; simp only [upd_same] at h1; cases h1
            · simp only [upd_other _ _ _ _ e] at h1; exact hb.sub c1 id h1
          · intro c1 c2 id h1 h2
            simp only [] at h1 h2
            by_cases e1 : c1 = c
            · subst e1; simp only [upd_same] at h1; cases h1
            · by_cases e2 : c2 = c
              · subst e2; simp only [upd_same] at h2; cases h2
              · simp only [upd_other _ _ _ _ e1] at h1
                simp only [upd_other _ _ _ _ e2] at h2
                exact hb.inj c1 c2 id h1 h2
        · cases hf
      · cases hf
  exact this.2

end OtelVerif.C02.A
