import OtelVerif.Lemmas.C02Cons
import OtelVerif.Lemmas.C02Cond
/-! audit follow-up: wait_for_result converse, persistent queue from an arbitrary start, quiescence criterion (core Lean only) -/
namespace OtelVerif.C02

/-! ### wait_for_result, converse: a finished request's outcome waits in the channel for its producer -/

def InvRA (k : Cfg) (s : St) : Prop :=
  k.wfr = true → ∀ p, (s.ps p).ph = .waitRes → p ∈ s.finished → (s.results.lookup p).isSome = true

theorem lookup_append_isSome (l x : List (Nat × Nat)) (p : Nat) (h : (l.lookup p).isSome = true) :
    ((l ++ x).lookup p).isSome = true := by
  induction l with
  | nil => simp [List.lookup] at h
  | cons a t ih =>
    obtain ⟨a1, a2⟩ := a
    by_cases hp : p = a1
    · subst hp; simp [List.lookup]
    · have : (p == a1) = false := by simpa using hp
      simp only [List.cons_append, List.lookup, this] at h ⊢
      exact ih h

theorem lookup_append_self (l : List (Nat × Nat)) (p e : Nat) : ((l ++ [(p, e)]).lookup p).isSome = true := by
  induction l with
  | nil => simp [List.lookup]
  | cons a t ih =>
    obtain ⟨a1, a2⟩ := a
    by_cases hp : p = a1
    · subst hp; simp [List.lookup]
    · have : (p == a1) = false := by simpa using hp
      simp only [List.cons_append, List.lookup, this]
      exact ih

theorem lookup_filter_ne' (l : List (Nat × Nat)) (q p : Nat) (h : p ≠ q) :
    (l.filter (fun x => x.1 != q)).lookup p = l.lookup p := by
  induction l with
  | nil => rfl
  | cons a t ih =>
    obtain ⟨a1, a2⟩ := a
    by_cases ha : a1 = q
    · have h1 : (p == a1) = false := by simpa [ha] using h
      have h2 : ((a1, a2).1 != q) = false := by simpa using ha
      simp only [List.filter, h2, List.lookup, h1, ih]
    · have h2 : ((a1, a2).1 != q) = true := by simpa using ha
      simp only [List.filter, h2, List.lookup]
      cases (p == a1) <;> simp [ih]

theorem InvRA.of {k : Cfg} {s s' : St} (h : InvRA k s) (e1 : s'.results = s.results) (e2 : s'.finished = s.finished)
    (hp : ∀ p, (s'.ps p).ph = .waitRes → (s.ps p).ph = .waitRes) : InvRA k s' := by
  intro hw p hph hf
  rw [e1]; rw [e2] at hf
  exact h hw p (hp p hph) hf

theorem InvRA.upd {k : Cfg} {s s' : St} {p : Nat} {x : P} (h : InvRA k s) (e1 : s'.results = s.results)
    (e2 : s'.finished = s.finished) (e3 : s'.ps = upd s.ps p x) (hx : x.ph ≠ .waitRes) : InvRA k s' := by
  refine h.of e1 e2 ?_
  intro q hq
  rw [e3] at hq
  by_cases hqp : q = p
  · subst hqp; simp only [upd_same] at hq; exact absurd hq hx
  · rwa [upd_other _ _ _ _ hqp] at hq

theorem Inv.not_finished_of_open {k : Cfg} {s : St} (hI : Inv k s) {p : Nat} (ho : (s.ps p).ph.open) : p ∉ s.finished := by
  intro hf
  have hh : p ∈ s.handed := (hI.Z.hperm.mem_iff).mpr (List.mem_append_left _ hf)
  have : p ∈ s.accepted := by rw [← hI.H.fifo]; exact List.mem_append_left _ hh
  exact (hI.H.open_not_acc ho).1 this

theorem InvRA.tryAdd {k : Cfg} {s : St} {p : Nat} {el : Int} (h : InvRA k s) (hI : Inv k s) (ho : (s.ps p).ph.open) :
    InvRA k (tryAdd k s p el) := by
  unfold OtelVerif.C02.tryAdd
  split
  · split
    · split
      · exact h.upd (x := { s.ps p with ph := .done .stopped, sig := false }) rfl rfl rfl (by simp)
      · exact h.upd (x := { s.ps p with ph := .sel, el := el, sig := false }) rfl rfl rfl (by simp)
    · exact h.upd (x := { s.ps p with ph := .done .full, sig := false }) rfl rfl rfl (by simp)
  · split
    · exact h.upd (x := { s.ps p with ph := .done .stopped, sig := false }) rfl rfl rfl (by simp)
    · intro hw q hq hf
      simp only [OtelVerif.C02.accept] at hq hf ⊢
      by_cases hqp : q = p
      · subst hqp; exact absurd hf (hI.not_finished_of_open ho)
      · rw [upd_other _ _ _ _ hqp] at hq
        exact h hw q hq hf

theorem InvRA.step {k : Cfg} {s s' : St} {l : Label} (h : InvRA k s) (hI : Inv k s) (hf : fire k s l = some s') :
    InvRA k s' := by
  cases l with
  | offer p el =>
    simp only [fire] at hf
    split at hf
    · rename_i hidle
      split at hf
      · cases hf; exact h.upd (x := { s.ps p with ph := .done .ok }) rfl rfl rfl (by simp)
      · split at hf
        · cases hf; exact h.upd (x := { s.ps p with ph := .done .invalid, sig := false }) rfl rfl rfl (by simp)
        · split at hf
          · cases hf; exact h.upd (x := { s.ps p with ph := .done .tooLarge, sig := false }) rfl rfl rfl (by simp)
          · cases hf; exact h.tryAdd hI (hidle ▸ Ph.open_idle)
    · cases hf
  | cancel p =>
    simp only [fire] at hf; cases hf
    refine h.of rfl rfl ?_
    intro q hq
    by_cases hqp : q = p
    · subst hqp; simpa [setP] using hq
    · simpa [setP, upd_other _ _ _ _ hqp] using hq
  | wakeTok p =>
    simp only [fire] at hf
    split at hf
    · cases hf; exact h.upd (x := { s.ps p with ph := .wokenTok }) rfl rfl rfl (by simp)
    · cases hf
  | wakeCtx p =>
    simp only [fire] at hf
    split at hf
    · cases hf; exact h.upd (x := { s.ps p with ph := .wokenCtx }) rfl rfl rfl (by simp)
    · cases hf
  | relockTok p =>
    simp only [fire] at hf
    split at hf
    · rename_i hc; cases hf; exact h.tryAdd hI (hc ▸ Ph.open_wokenTok)
    · cases hf
  | relockCtx p =>
    simp only [fire] at hf
    split at hf
    · cases hf
      have h1 : InvRA k (ctxCleanup s p) := by
        obtain ⟨_, _, _, _, c5, c6, _⟩ := ctxCleanup_fields s p
        refine h.of c6 c5 ?_
        intro q hq
        unfold ctxCleanup at hq
        split at hq
        · exact hq
        · rwa [condSignal_ph] at hq
      exact h1.upd (x := { (ctxCleanup s p).ps p with ph := .done .ctxErr, sig := false }) rfl rfl rfl (by simp)
    · cases hf
  | getRes p =>
    simp only [fire] at hf
    split at hf
    · split at hf
      · cases hf
        intro hw q hq hfin
        by_cases hqp : q = p
        · subst hqp; simp at hq
        · simp only [upd_other _ _ _ _ hqp] at hq
          simp only []
          rw [lookup_filter_ne' _ _ _ hqp]
          exact h hw q hq hfin
      · cases hf
    · cases hf
  | resCtx p =>
    simp only [fire] at hf
    split at hf
    · cases hf; exact h.upd (x := { s.ps p with ph := .done .ctxErr }) rfl rfl rfl (by simp)
    · cases hf
  | read c =>
    simp only [fire] at hf
    split at hf
    · cases hf
    · split at hf
      · rename_i s1 hp; cases hf
        obtain ⟨id, el, t, _, rfl⟩ := pop_some hp
        exact h.of rfl rfl (fun _ a => a)
      · split at hf
        · cases hf; exact h
        · cases hf; exact h.of rfl rfl (fun _ a => a)
  | recheck c =>
    simp only [fire] at hf
    split at hf
    · split at hf
      · rename_i s1 hp; cases hf
        obtain ⟨id, el, t, _, rfl⟩ := pop_some hp
        exact h.of rfl rfl (fun _ a => a)
      · split at hf
        · cases hf; exact h.of rfl rfl (fun _ a => a)
        · cases hf; exact h.of rfl rfl (fun _ a => a)
    · cases hf
  | complete id e =>
    simp only [fire] at hf
    split at hf
    · rename_i el _; cases hf
      intro hw q hq hfin
      unfold finish at hq hfin ⊢
      simp only [hw, if_true] at hq hfin ⊢
      rw [condBroadcast_ph] at hq
      obtain ⟨_, _, _, _, _, c6, _, _, _, c10, _⟩ := condBroadcast_fields
        { s with size := s.size - el, inflight := s.inflight.filter (fun x => x.1 != id),
                 finished := s.finished ++ [id], outcomes := s.outcomes ++ [(id, e)] }
      rw [c10] at hfin
      rw [c6]
      simp only [List.mem_append, List.mem_singleton] at hfin
      rcases hfin with a | a
      · exact lookup_append_isSome _ _ _ (h hw q hq a)
      · subst a; exact lookup_append_self _ _ _
    · cases hf
  | shutdown =>
    simp only [fire] at hf; cases hf
    exact h.of rfl rfl (fun q a => by rwa [condBroadcast_ph] at a)

/-! ### persistent queue (re)started on existing storage: arbitrary stored items, arbitrary (stale) restored size -/

def PReachableFrom (k : Cfg) (s0 s : St) : Prop := ∃ ls, prunSched k s0 ls = some s

/-- what `initPersistentContiguousStorage` may leave behind: any stored items (accepted in an earlier life, their
producers long gone), any non-negative restored `queueSize` (the `si` snapshot may be stale in either direction, the
capacity may have been lowered), 0 when nothing is stored (`wi = ri`); nobody inside the queue yet -/
structure PStart (s0 : St) : Prop where
  H : InvH s0
  quiet : ∀ p, ¬ (s0.ps p).ph.inCond ∧ (s0.ps p).sig = false
  waiters : s0.waiters = []
  inflight : s0.inflight = []
  finished : s0.finished = []
  handed : s0.handed = []
  sizes : ∀ x ∈ s0.items, 0 ≤ x.2
  nonneg : 0 ≤ s0.size
  emptyZero : s0.items = [] → s0.size = 0

/-- what survives an arbitrary start (`m` = the restored size) -/
structure InvS (k : Cfg) (m : Int) (s : St) : Prop where
  nonneg : 0 ≤ s.size
  posI : ∀ x ∈ s.items, 0 ≤ x.2
  posF : ∀ x ∈ s.inflight, 0 ≤ x.2
  elNN : ∀ p, (s.ps p).ph.inCond → 0 ≤ (s.ps p).el
  bound : s.size ≤ k.cap ∨ s.size ≤ m
  emptied : s.items = [] → s.size ≤ sumSz s.inflight
  hperm : s.handed.Perm (s.finished ++ s.inflight.map Prod.fst)

theorem InvS.congr {k : Cfg} {m : Int} {s s' : St} (h : InvS k m s) (e1 : s'.items = s.items) (e2 : s'.inflight = s.inflight)
    (e3 : s'.size = s.size) (e4 : s'.handed = s.handed) (e5 : s'.finished = s.finished)
    (hp : ∀ q, (s'.ps q).ph.inCond → (s.ps q).ph.inCond ∧ (s'.ps q).el = (s.ps q).el) : InvS k m s' :=
  ⟨by rw [e3]; exact h.nonneg, by rw [e1]; exact h.posI, by rw [e2]; exact h.posF,
   fun q hq => by rw [(hp q hq).2]; exact h.elNN q (hp q hq).1,
   by rw [e3]; exact h.bound, by rw [e1, e2, e3]; exact h.emptied, by rw [e2, e4, e5]; exact h.hperm⟩

theorem InvS.upd {k : Cfg} {m : Int} {s s' : St} {p : Nat} {x : P} (h : InvS k m s) (e1 : s'.items = s.items)
    (e2 : s'.inflight = s.inflight) (e3 : s'.size = s.size) (e4 : s'.handed = s.handed) (e5 : s'.finished = s.finished)
    (e6 : s'.ps = upd s.ps p x) (hx : x.ph.inCond → 0 ≤ x.el) : InvS k m s' :=
  ⟨by rw [e3]; exact h.nonneg, by rw [e1]; exact h.posI, by rw [e2]; exact h.posF,
   fun q hq => by
     rw [e6] at hq ⊢
     by_cases hqp : q = p
     · subst hqp; simp only [upd_same] at hq ⊢; exact hx hq
     · rw [upd_other _ _ _ _ hqp] at hq ⊢; exact h.elNN q hq,
   by rw [e3]; exact h.bound, by rw [e1, e2, e3]; exact h.emptied, by rw [e2, e4, e5]; exact h.hperm⟩

theorem InvS.condSignal {k : Cfg} {m : Int} {s : St} (h : InvS k m s) : InvS k m (condSignal s) := by
  obtain ⟨c1, c2, c3, _, _, _, _, _, c9, c10, _⟩ := condSignal_fields s
  exact h.congr c1 c2 c3 c9 c10 (fun q hq => ⟨by rwa [condSignal_ph] at hq, condSignal_el s q⟩)

theorem InvS.condBroadcast {k : Cfg} {m : Int} {s : St} (h : InvS k m s) : InvS k m (condBroadcast s) :=
  h.congr rfl rfl rfl rfl rfl (fun q hq => ⟨by rwa [condBroadcast_ph] at hq, condBroadcast_el s q⟩)

theorem InvS.ptryAdd {k : Cfg} {m : Int} {s : St} {p : Nat} {el : Int} (h : InvS k m s) (h0 : 0 ≤ el) :
    InvS k m (ptryAdd k s p el) := by
  unfold OtelVerif.C02.ptryAdd
  split
  · split
    · split
      · exact h.upd (x := { s.ps p with ph := .done .tooLarge, sig := false }) rfl rfl rfl rfl rfl rfl (by simp [Ph.inCond])
      · exact h.upd (x := { s.ps p with ph := .sel, el := el, sig := false }) rfl rfl rfl rfl rfl rfl (fun _ => h0)
    · exact h.upd (x := { s.ps p with ph := .done .full, sig := false }) rfl rfl rfl rfl rfl rfl (by simp [Ph.inCond])
  · rename_i hle
    refine ⟨?_, ?_, h.posF, ?_, ?_, ?_, h.hperm⟩
    · simp only [OtelVerif.C02.paccept]; have := h.nonneg; omega
    · intro x hx
      simp only [OtelVerif.C02.paccept, List.mem_append, List.mem_singleton] at hx
      rcases hx with hx | hx
      · exact h.posI x hx
      · subst hx; exact h0
    · intro q hq
      simp only [OtelVerif.C02.paccept] at hq ⊢
      by_cases hqp : q = p
      · subst hqp; simp [Ph.inCond] at hq
      · rw [upd_other _ _ _ _ hqp] at hq ⊢; exact h.elNN q hq
    · left; simp only [OtelVerif.C02.paccept]; omega
    · intro hi; simp [OtelVerif.C02.paccept] at hi

theorem ppop_some' {s s' : St} (h : ppop s = some s') :
    ∃ s1, pop s = some s1 ∧ ((s1.items ≠ [] ∧ s' = s1) ∨ (s1.items = [] ∧ s' = condBroadcast { s1 with size := 0 })) := by
  unfold ppop at h
  cases hp : pop s with
  | none => simp [hp] at h
  | some s1 =>
    simp only [hp, Option.some.injEq] at h
    refine ⟨s1, rfl, ?_⟩
    by_cases he : s1.items.isEmpty = true
    · right; rw [if_pos he] at h; exact ⟨List.isEmpty_iff.mp he, h.symm⟩
    · left; rw [if_neg he] at h; exact ⟨fun e => he (List.isEmpty_iff.mpr e), h.symm⟩

theorem InvS.ppop {k : Cfg} {m : Int} {s s' : St} (hk : 0 ≤ k.cap) (h : InvS k m s) (hp : ppop s = some s') : InvS k m s' := by
  obtain ⟨s1, h1, hcase⟩ := ppop_some' hp
  obtain ⟨id, el, t, hi, rfl⟩ := pop_some h1
  have hpi := h.posI
  rw [hi] at hpi
  have hposF : ∀ x ∈ s.inflight ++ [(id, el)], 0 ≤ x.2 := by
    intro x hx
    simp only [List.mem_append, List.mem_singleton] at hx
    rcases hx with hx | hx
    · exact h.posF x hx
    · subst hx; exact hpi (id, el) (by simp)
  have hperm' : (s.handed ++ [id]).Perm (s.finished ++ (s.inflight ++ [(id, el)]).map Prod.fst) := by
    simp only [List.map_append, List.map_cons, List.map_nil, ← List.append_assoc]
    exact h.hperm.append_right [id]
  rcases hcase with ⟨hne, rfl⟩ | ⟨_, rfl⟩
  · exact ⟨h.nonneg, fun x hx => hpi x (by simp [hx]), hposF, h.elNN, h.bound, fun e => absurd e hne, hperm'⟩
  · have h0 : InvS k m { ({ s with items := t, inflight := s.inflight ++ [(id, el)], handed := s.handed ++ [id] } : St) with size := 0 } :=
      ⟨Int.le_refl 0, fun x hx => hpi x (by simp [hx]), hposF, h.elNN, Or.inl hk,
       fun _ => sumSz_nonneg0 _ hposF, hperm'⟩
    exact h0.condBroadcast

theorem InvS.pfinish {k : Cfg} {m : Int} {s : St} {id : Nat} {el : Int} {e : Nat} (hk : 0 ≤ k.cap) (h : InvS k m s) (hH : InvH s)
    (hl : s.inflight.lookup id = some el) : InvS k m (pfinish s id el e) := by
  have hkeys : (s.inflight.map Prod.fst).Nodup :=
    (List.nodup_append.mp ((h.hperm.nodup_iff).mp hH.handed_nodup)).2.1
  obtain ⟨r1, r2, r3⟩ := remove_key s.inflight id el hkeys hl
  have hel : 0 ≤ el := h.posF _ r3
  have hposF' : ∀ x ∈ s.inflight.filter (fun x => x.1 != id), 0 ≤ x.2 := fun x hx => h.posF x (List.mem_filter.mp hx).1
  have h0 : InvS k m { s with size := (if s.size - el < 0 then 0 else s.size - el),
                              inflight := s.inflight.filter (fun x => x.1 != id),
                              finished := s.finished ++ [id], outcomes := s.outcomes ++ [(id, e)] } := by
    have hs2 := sumSz_nonneg0 _ hposF'
    have hnn := h.nonneg
    refine ⟨?_, h.posI, hposF', h.elNN, ?_, ?_, ?_⟩
    · simp only []; split <;> omega
    · rcases h.bound with b | b
      · left; simp only []; split <;> omega
      · by_cases hc : s.size - el < 0
        · left; simp only [hc, if_true]; exact hk
        · right; simp only [hc, if_false]; omega
    · intro hi
      have := h.emptied hi
      simp only [r1]; split <;> omega
    · simp only [List.append_assoc, List.singleton_append]
      exact h.hperm.trans (List.Perm.append_left _ r2)
  unfold OtelVerif.C02.pfinish
  exact h0.condBroadcast

theorem InvS.pstep {k : Cfg} {m : Int} {s s' : St} {l : Label} (hk : 0 ≤ k.cap) (h : InvS k m s) (hH : InvH s)
    (hf : pfire k s l = some s') : InvS k m s' := by
  cases l with
  | offer p el =>
    simp only [pfire] at hf
    split at hf
    · rename_i hc; cases hf; exact h.ptryAdd hc.2.1
    · cases hf
  | cancel p =>
    simp only [pfire] at hf; cases hf
    exact h.upd (x := { s.ps p with canc := true }) rfl rfl rfl rfl rfl rfl (fun a => h.elNN p a)
  | wakeTok p =>
    simp only [pfire] at hf
    split at hf
    · rename_i hc; cases hf
      exact h.upd (x := { s.ps p with ph := .wokenTok }) rfl rfl rfl rfl rfl rfl (fun _ => h.elNN p (Or.inl hc.1))
    · cases hf
  | wakeCtx p =>
    simp only [pfire] at hf
    split at hf
    · rename_i hc; cases hf
      exact h.upd (x := { s.ps p with ph := .wokenCtx }) rfl rfl rfl rfl rfl rfl (fun _ => h.elNN p (Or.inl hc.1))
    · cases hf
  | relockTok p =>
    simp only [pfire] at hf
    split at hf
    · rename_i hc; cases hf; exact h.ptryAdd (h.elNN p (Or.inr (Or.inl hc)))
    · cases hf
  | relockCtx p =>
    simp only [pfire] at hf
    split at hf
    · cases hf
      have h1 : InvS k m (ctxCleanup s p) := by
        unfold ctxCleanup
        split
        · exact h.congr rfl rfl rfl rfl rfl (fun q hq => ⟨hq, rfl⟩)
        · exact h.condSignal
      exact h1.upd (x := { (ctxCleanup s p).ps p with ph := .done .ctxErr, sig := false }) rfl rfl rfl rfl rfl rfl (by simp [Ph.inCond])
    · cases hf
  | getRes p => simp [pfire] at hf
  | resCtx p => simp [pfire] at hf
  | read c =>
    simp only [pfire] at hf
    split at hf
    · cases hf
    · split at hf
      · cases hf; exact h
      · split at hf
        · rename_i s1 hp; cases hf; exact h.ppop hk hp
        · cases hf; exact h.congr rfl rfl rfl rfl rfl (fun q hq => ⟨hq, rfl⟩)
  | recheck c =>
    simp only [pfire] at hf
    split at hf
    · split at hf
      · cases hf; exact h.congr rfl rfl rfl rfl rfl (fun q hq => ⟨hq, rfl⟩)
      · split at hf
        · rename_i s1 hp; cases hf; exact (h.ppop hk hp).congr rfl rfl rfl rfl rfl (fun q hq => ⟨hq, rfl⟩)
        · cases hf; exact h.congr rfl rfl rfl rfl rfl (fun q hq => ⟨hq, rfl⟩)
    · cases hf
  | complete id e =>
    simp only [pfire] at hf
    split at hf
    · rename_i el hl; cases hf; exact h.pfinish hk hH hl
    · cases hf
  | shutdown => simp only [pfire] at hf; cases hf; exact h.congr rfl rfl rfl rfl rfl (fun q hq => ⟨hq, rfl⟩)

theorem PStart.invS {k : Cfg} {s0 : St} (h : PStart s0) : InvS k s0.size s0 :=
  ⟨h.nonneg, h.sizes, by rw [h.inflight]; simp, fun p hp => absurd hp (h.quiet p).1, Or.inr (Int.le_refl _),
   fun hi => by rw [h.emptyZero hi, h.inflight]; simp [sumSz], by rw [h.handed, h.finished, h.inflight]; simp⟩

theorem from_start {k : Cfg} (hk : 0 ≤ k.cap) {s0 s : St} (h0 : PStart s0) (hr : PReachableFrom k s0 s) :
    InvH s ∧ InvS k s0.size s := by
  obtain ⟨ls, hrun⟩ := hr
  have : ∀ (ls : List Label) (s1 : St), InvH s1 ∧ InvS k s0.size s1 → prunSched k s1 ls = some s → InvH s ∧ InvS k s0.size s := by
    intro ls
    induction ls with
    | nil => intro s1 h1 hr; simp [prunSched] at hr; exact hr ▸ h1
    | cons l rest ih =>
      intro s1 h1 hr
      simp only [prunSched] at hr
      cases hf : pfire k s1 l with
      | none => simp [hf] at hr
      | some s2 =>
        simp only [hf] at hr
        exact ih s2 ⟨h1.1.pstep hf, h1.2.pstep hk h1.1 hf⟩ hr
  exact this ls s0 ⟨h0.H, h0.invS⟩ hrun

/-- sufficient condition for rest: every thread is idle, returned, or asleep in the select (not signalled, context alive),
nobody waits for a result, no consumer has been notified -/
theorem quiescent_of {k : Cfg} {s : St}
    (h1 : ∀ p, (s.ps p).ph = .idle ∨ (∃ r, (s.ps p).ph = .done r) ∨ ((s.ps p).ph = .sel ∧ (s.ps p).sig = false ∧ (s.ps p).canc = false))
    (h2 : s.cwoken = []) : Quiescent k s := by
  intro l hl
  cases l with
  | offer p el => simp [Label.internal] at hl
  | cancel p => simp [Label.internal] at hl
  | read c => simp [Label.internal] at hl
  | complete id e => simp [Label.internal] at hl
  | shutdown => simp [Label.internal] at hl
  | wakeTok p => rcases h1 p with a | ⟨r, a⟩ | ⟨a, b, c⟩ <;> simp [fire, a, *]
  | wakeCtx p => rcases h1 p with a | ⟨r, a⟩ | ⟨a, b, c⟩ <;> simp [fire, a, *]
  | relockTok p => rcases h1 p with a | ⟨r, a⟩ | ⟨a, b, c⟩ <;> simp [fire, a]
  | relockCtx p => rcases h1 p with a | ⟨r, a⟩ | ⟨a, b, c⟩ <;> simp [fire, a]
  | getRes p => rcases h1 p with a | ⟨r, a⟩ | ⟨a, b, c⟩ <;> simp [fire, a]
  | resCtx p => rcases h1 p with a | ⟨r, a⟩ | ⟨a, b, c⟩ <;> simp [fire, a]
  | recheck c => simp [fire, h2]

theorem idle_run {k : Cfg} (ls : List Label) (s s' : St) (q : Nat) (hr : runSched k s ls = some s')
    (hq : (s.ps q).ph = .idle) (hl : ∀ l ∈ ls, ∀ el, l ≠ .offer q el) : (s'.ps q).ph = .idle := by
  induction ls generalizing s with
  | nil => simp [runSched] at hr; exact hr ▸ hq
  | cons l rest ih =>
    simp only [runSched] at hr
    cases hf : fire k s l with
    | none => simp [hf] at hr
    | some s1 =>
      simp only [hf] at hr
      exact ih s1 hr (idle_step hf q hq (hl l (by simp))) (fun l' hl' => hl l' (List.mem_cons_of_mem _ hl'))

end OtelVerif.C02

namespace OtelVerif.C02

/-! ### the literal release clause (after the Broadcast repair): whoever is registered on `hasMoreSpace` does not fit -/

/-- every registered waiter's request does not fit into the current size -/
def InvF (k : Cfg) (s : St) : Prop := ∀ p ∈ s.waiters, s.size + (s.ps p).el > k.cap

/-- memory queue: nobody is registered on a stopped queue (`Shutdown` broadcasts, a stopped queue refuses before `Wait`) -/
def InvFs (s : St) : Prop := s.stopped = true → s.waiters = []

theorem InvF.of {k : Cfg} {s s' : St} (h : InvF k s) (e1 : ∀ p ∈ s'.waiters, p ∈ s.waiters) (e2 : s.size ≤ s'.size)
    (e4 : ∀ p ∈ s'.waiters, (s'.ps p).el = (s.ps p).el) : InvF k s' := by
  intro p hp
  have := h p (e1 p hp)
  rw [e4 p hp]
  omega

theorem InvF.upd {k : Cfg} {s s' : St} {p : Nat} {x : P} (h : InvF k s) (e1 : s'.waiters = s.waiters) (e2 : s'.size = s.size)
    (e3 : s'.ps = OtelVerif.C02.upd s.ps p x) (hx : x.el = (s.ps p).el) : InvF k s' := by
  refine h.of (by rw [e1]; exact fun _ a => a) (by omega) ?_
  intro q _
  rw [e3]
  by_cases hqp : q = p
  · subst hqp; simpa using hx
  · rw [upd_other _ _ _ _ hqp]

theorem InvF.condSignal {k : Cfg} {s : St} (h : InvF k s) : InvF k (condSignal s) := by
  refine h.of ?_ (by rw [(condSignal_fields s).2.2.1]; exact Int.le_refl _) (fun q _ => condSignal_el s q)
  intro p hp
  unfold OtelVerif.C02.condSignal at hp
  cases hw : s.waiters with
  | nil => simp [hw] at hp
  | cons w ws => simp only [hw] at hp; exact List.mem_cons_of_mem _ hp

theorem InvF.condBroadcast {k : Cfg} (s : St) : InvF k (condBroadcast s) := by
  intro p hp; simp [OtelVerif.C02.condBroadcast] at hp

theorem InvF.ctxCleanupRefuse {k : Cfg} {s : St} {p : Nat} {r : Res} (h : InvF k s) : InvF k (refuse (ctxCleanup s p) p r) := by
  have h1 : InvF k (ctxCleanup s p) := by
    unfold ctxCleanup
    split
    · exact h.of (fun q hq => List.mem_of_mem_erase hq) (Int.le_refl _) (fun _ _ => rfl)
    · exact h.condSignal
  exact h1.upd (x := { (ctxCleanup s p).ps p with ph := .done r, sig := false }) rfl rfl rfl rfl

theorem InvF.push {k : Cfg} {s s' : St} {p : Nat} {x : P} {el : Int} (h : InvF k s) (hw : p ∉ s.waiters) (h0 : 0 ≤ el)
    (e1 : s'.waiters = s.waiters) (e2 : s'.size = s.size + el) (e3 : s'.ps = OtelVerif.C02.upd s.ps p x) : InvF k s' := by
  refine h.of (by rw [e1]; exact fun _ a => a) (by omega) ?_
  intro q hq
  rw [e1] at hq
  have hqp : q ≠ p := fun e => hw (e ▸ hq)
  rw [e3, upd_other _ _ _ _ hqp]

theorem InvF.registerStep {k : Cfg} {s : St} {p : Nat} {el : Int} (h : InvF k s) (hw : p ∉ s.waiters)
    (hgt : s.size + el > k.cap) : InvF k (register s p el) := by
  intro q hq
  simp only [OtelVerif.C02.register, List.mem_append, List.mem_singleton] at hq ⊢
  by_cases hqp : q = p
  · subst hqp; simpa using hgt
  · rw [upd_other _ _ _ _ hqp]
    rcases hq with a | a
    · exact h q a
    · exact absurd a hqp

theorem InvF.tryAdd {k : Cfg} {s : St} {p : Nat} {el : Int} (h : InvF k s) (hw : p ∉ s.waiters) (h0 : 0 ≤ el) :
    InvF k (tryAdd k s p el) := by
  unfold OtelVerif.C02.tryAdd
  split
  · rename_i hgt
    split
    · split
      · exact h.upd (x := { s.ps p with ph := .done .stopped, sig := false }) rfl rfl rfl rfl
      · exact h.registerStep hw hgt
    · exact h.upd (x := { s.ps p with ph := .done .full, sig := false }) rfl rfl rfl rfl
  · split
    · exact h.upd (x := { s.ps p with ph := .done .stopped, sig := false }) rfl rfl rfl rfl
    · exact h.push (x := { s.ps p with ph := if k.wfr then .waitRes else .done .ok, el := el, sig := false }) hw h0 rfl rfl rfl

theorem InvF.ptryAdd {k : Cfg} {s : St} {p : Nat} {el : Int} (h : InvF k s) (hw : p ∉ s.waiters) (h0 : 0 ≤ el) :
    InvF k (ptryAdd k s p el) := by
  unfold OtelVerif.C02.ptryAdd
  split
  · rename_i hgt
    split
    · split
      · exact h.upd (x := { s.ps p with ph := .done .tooLarge, sig := false }) rfl rfl rfl rfl
      · exact h.registerStep hw hgt
    · exact h.upd (x := { s.ps p with ph := .done .full, sig := false }) rfl rfl rfl rfl
  · exact h.push (x := { s.ps p with ph := .done .ok, el := el, sig := false }) hw h0 rfl rfl rfl

theorem InvF.step {k : Cfg} {s s' : St} {l : Label} (h : InvF k s) (hC : InvC k s) (hf : fire k s l = some s') : InvF k s' := by
  cases l with
  | offer p el =>
    simp only [fire] at hf
    split at hf
    · rename_i hidle
      have hw : p ∉ s.waiters := hC.not_waiter (Or.inl (by rw [hidle]; simp))
      split at hf
      · cases hf; exact h.upd (x := { s.ps p with ph := .done .ok }) rfl rfl rfl rfl
      · split at hf
        · cases hf; exact h.upd (x := { s.ps p with ph := .done .invalid, sig := false }) rfl rfl rfl rfl
        · split at hf
          · cases hf; exact h.upd (x := { s.ps p with ph := .done .tooLarge, sig := false }) rfl rfl rfl rfl
          · cases hf; exact h.tryAdd hw (by omega)
    · cases hf
  | cancel p => simp only [fire] at hf; cases hf; exact h.upd (x := { s.ps p with canc := true }) rfl rfl rfl rfl
  | wakeTok p =>
    simp only [fire] at hf
    split at hf
    · cases hf; exact h.upd (x := { s.ps p with ph := .wokenTok }) rfl rfl rfl rfl
    · cases hf
  | wakeCtx p =>
    simp only [fire] at hf
    split at hf
    · cases hf; exact h.upd (x := { s.ps p with ph := .wokenCtx }) rfl rfl rfl rfl
    · cases hf
  | relockTok p =>
    simp only [fire] at hf
    split at hf
    · rename_i hc; cases hf
      exact h.tryAdd (hC.not_waiter (Or.inr (hC.tokSig p hc))) (Int.le_of_lt (hC.elOk p (Or.inr (Or.inl hc))).1)
    · cases hf
  | relockCtx p =>
    simp only [fire] at hf
    split at hf
    · cases hf; exact h.ctxCleanupRefuse
    · cases hf
  | getRes p =>
    simp only [fire] at hf
    split at hf
    · split at hf
      · rename_i e _; cases hf
        exact h.upd (s' := { s with results := s.results.filter (fun x => x.1 != p), ps := OtelVerif.C02.upd s.ps p { s.ps p with ph := .done (.result e) } })
          (x := { s.ps p with ph := .done (.result e) }) rfl rfl rfl rfl
      · cases hf
    · cases hf
  | resCtx p =>
    simp only [fire] at hf
    split at hf
    · cases hf; exact h.upd (x := { s.ps p with ph := .done .ctxErr }) rfl rfl rfl rfl
    · cases hf
  | read c =>
    simp only [fire] at hf
    split at hf
    · cases hf
    · split at hf
      · rename_i s1 hp; cases hf
        obtain ⟨id, el, t, _, rfl⟩ := pop_some hp
        exact h.of (fun _ a => a) (Int.le_refl _) (fun _ _ => rfl)
      · split at hf
        · cases hf; exact h
        · cases hf; exact h.of (fun _ a => a) (Int.le_refl _) (fun _ _ => rfl)
  | recheck c =>
    simp only [fire] at hf
    split at hf
    · split at hf
      · rename_i s1 hp; cases hf
        obtain ⟨id, el, t, _, rfl⟩ := pop_some hp
        exact h.of (fun _ a => a) (Int.le_refl _) (fun _ _ => rfl)
      · split at hf
        · cases hf; exact h.of (fun _ a => a) (Int.le_refl _) (fun _ _ => rfl)
        · cases hf; exact h.of (fun _ a => a) (Int.le_refl _) (fun _ _ => rfl)
    · cases hf
  | complete id e =>
    simp only [fire] at hf
    split at hf
    · cases hf
      unfold finish
      simp only []
      split
      · intro p hp; simp [OtelVerif.C02.condBroadcast] at hp
      · exact InvF.condBroadcast _
    · cases hf
  | shutdown => simp only [fire] at hf; cases hf; exact InvF.condBroadcast _

theorem InvF.pstep {k : Cfg} {s s' : St} {l : Label} (h : InvF k s) (hC : InvC k s) (hf : pfire k s l = some s') : InvF k s' := by
  cases l with
  | offer p el =>
    simp only [pfire] at hf
    split at hf
    · rename_i hc; cases hf
      exact h.ptryAdd (hC.not_waiter (Or.inl (by rw [hc.1]; simp))) hc.2.1
    · cases hf
  | cancel p => simp only [pfire] at hf; cases hf; exact h.upd (x := { s.ps p with canc := true }) rfl rfl rfl rfl
  | wakeTok p =>
    simp only [pfire] at hf
    split at hf
    · cases hf; exact h.upd (x := { s.ps p with ph := .wokenTok }) rfl rfl rfl rfl
    · cases hf
  | wakeCtx p =>
    simp only [pfire] at hf
    split at hf
    · cases hf; exact h.upd (x := { s.ps p with ph := .wokenCtx }) rfl rfl rfl rfl
    · cases hf
  | relockTok p =>
    simp only [pfire] at hf
    split at hf
    · rename_i hc; cases hf
      exact h.ptryAdd (hC.not_waiter (Or.inr (hC.tokSig p hc))) (Int.le_of_lt (hC.elOk p (Or.inr (Or.inl hc))).1)
    · cases hf
  | relockCtx p =>
    simp only [pfire] at hf
    split at hf
    · cases hf; exact h.ctxCleanupRefuse
    · cases hf
  | getRes p => simp [pfire] at hf
  | resCtx p => simp [pfire] at hf
  | read c =>
    simp only [pfire] at hf
    split at hf
    · cases hf
    · split at hf
      · cases hf; exact h
      · split at hf
        · rename_i s1 hp; cases hf
          obtain ⟨s2, h1, h2 | ⟨_, h2⟩⟩ := ppop_some hp
          · obtain ⟨id, el, t, _, rfl⟩ := pop_some h1
            rw [h2]; exact h.of (fun _ a => a) (Int.le_refl _) (fun _ _ => rfl)
          · rw [h2]; exact InvF.condBroadcast _
        · cases hf; exact h.of (fun _ a => a) (Int.le_refl _) (fun _ _ => rfl)
  | recheck c =>
    simp only [pfire] at hf
    split at hf
    · split at hf
      · cases hf; exact h.of (fun _ a => a) (Int.le_refl _) (fun _ _ => rfl)
      · split at hf
        · rename_i s1 hp; cases hf
          obtain ⟨s2, h1, h2 | ⟨_, h2⟩⟩ := ppop_some hp
          · obtain ⟨id, el, t, _, rfl⟩ := pop_some h1
            rw [h2]; exact h.of (fun _ a => a) (Int.le_refl _) (fun _ _ => rfl)
          · rw [h2]; intro p hp; simp [OtelVerif.C02.condBroadcast] at hp
        · cases hf; exact h.of (fun _ a => a) (Int.le_refl _) (fun _ _ => rfl)
    · cases hf
  | complete id e =>
    simp only [pfire] at hf
    split at hf
    · cases hf; unfold pfinish; exact InvF.condBroadcast _
    · cases hf
  | shutdown => simp only [pfire] at hf; cases hf; exact h.of (fun _ a => a) (Int.le_refl _) (fun _ _ => rfl)

/-- memory queue: `stopped → waiters = []` -/
theorem InvFs.step {k : Cfg} {s s' : St} {l : Label} (h : InvFs s) (hf : fire k s l = some s') : InvFs s' := by
  by_cases hl : l = .shutdown
  · subst hl; simp only [fire] at hf; cases hf; intro _; rfl
  have hst := stopped_step hf hl
  intro hs'
  rw [hst] at hs'
  have hw := h hs'
  -- on a stopped queue with nobody registered, no label registers anybody
  have hta : ∀ p el, (tryAdd k s p el).waiters = [] := by
    intro p el
    unfold tryAdd register refuse accept
    simp only [hs', if_true]
    split
    · split <;> exact hw
    · exact hw
  cases l with
  | shutdown => exact absurd rfl hl
  | offer p el =>
    simp only [fire] at hf
    split at hf
    · split at hf
      · cases hf; exact hw
      · split at hf
        · cases hf; exact hw
        · split at hf
          · cases hf; exact hw
          · cases hf; exact hta p el
    · cases hf
  | cancel p => simp only [fire] at hf; cases hf; exact hw
  | wakeTok p => simp only [fire] at hf; split at hf <;> cases hf; exact hw
  | wakeCtx p => simp only [fire] at hf; split at hf <;> cases hf; exact hw
  | relockTok p => simp only [fire] at hf; split at hf <;> cases hf; exact hta p _
  | relockCtx p =>
    simp only [fire] at hf
    split at hf
    · cases hf
      simp only [refuse]
      unfold ctxCleanup
      split
      · simp [hw]
      · unfold condSignal; simp [hw]
    · cases hf
  | getRes p =>
    simp only [fire] at hf
    split at hf
    · split at hf <;> cases hf; exact hw
    · cases hf
  | resCtx p => simp only [fire] at hf; split at hf <;> cases hf; exact hw
  | read c =>
    simp only [fire] at hf
    split at hf
    · cases hf
    · split at hf
      · rename_i s1 hp; cases hf
        obtain ⟨id, el, t, _, rfl⟩ := pop_some hp
        exact hw
      · first | (cases hf; exact hw) | (split at hf <;> cases hf <;> exact hw)
  | recheck c =>
    simp only [fire] at hf
    split at hf
    · split at hf
      · rename_i s1 hp; cases hf
        obtain ⟨id, el, t, _, rfl⟩ := pop_some hp
        exact hw
      · first | (cases hf; exact hw) | (split at hf <;> cases hf <;> exact hw)
    · cases hf
  | complete id e =>
    simp only [fire] at hf
    split at hf
    · cases hf; unfold finish; simp only []; split <;> rfl
    · cases hf

theorem InvF.reachable {k : Cfg} (hk : 0 ≤ k.cap) {s : St} (hr : Reachable k s) : InvF k s ∧ InvFs s := by
  have : Inv k s ∧ InvF k s ∧ InvFs s := by
    refine reachable_induction k (fun s => Inv k s ∧ InvF k s ∧ InvFs s)
      ⟨Inv.reachable hk ⟨[], rfl⟩, by intro p hp; simp at hp, fun _ => rfl⟩ ?_ s hr
    intro s l s' ⟨hI, hF, hS⟩ hf
    exact ⟨⟨hI.H.step hf, hI.C.step hf, hI.Z.step hI.H hI.C hf, hI.W.step hI.C hI.Z hf⟩, hF.step hI.C hf, hS.step hf⟩
  exact this.2

theorem InvF.preachable {k : Cfg} (hk : 0 ≤ k.cap) {s : St} (hr : PReachable k s) : InvF k s := by
  have : Invp k s ∧ InvF k s := by
    refine preachable_induction k (fun s => Invp k s ∧ InvF k s)
      ⟨Invp.reachable hk ⟨[], rfl⟩, by intro p hp; simp at hp⟩ ?_ s hr
    intro s l s' ⟨hI, hF⟩ hf
    exact ⟨⟨hI.H.pstep hf, hI.C.pstep hI.Z.le hf, hI.Z.pstep hI.H hI.C hf, hI.W.pstep hI.C hI.Z hf⟩, hF.pstep hI.C hf⟩
  exact this.2

end OtelVerif.C02
