import OtelVerif.Lemmas.C02
/-! signal conservation of cond.go alone (core Lean only) -/
namespace OtelVerif.C02

/-! ### cond alone: signal conservation (what the cond-level oracle `CMon` simulates) -/

def cntF (g : W → Nat) (f : Nat → W) : List Nat → Nat
  | [] => 0
  | p :: ps => g (f p) + cntF g f ps

theorem cntF_upd_notin (g : W → Nat) (f : Nat → W) (L : List Nat) (p : Nat) (x : W) (h : p ∉ L) :
    cntF g (upd f p x) L = cntF g f L := by
  induction L with
  | nil => rfl
  | cons q qs ih =>
    simp only [List.mem_cons, not_or] at h
    simp only [cntF, upd_other _ _ _ _ (fun e => h.1 e.symm), ih h.2]

theorem cntF_upd (g : W → Nat) (f : Nat → W) (L : List Nat) (p : Nat) (x : W) (hn : L.Nodup) (h : p ∈ L) :
    cntF g (upd f p x) L + g (f p) = cntF g f L + g x := by
  induction L with
  | nil => simp at h
  | cons q qs ih =>
    simp only [List.nodup_cons] at hn
    by_cases hq : q = p
    · subst hq
      simp only [cntF, upd_same, cntF_upd_notin g f qs q x hn.1]
      omega
    · have hp : p ∈ qs := by
        rcases List.mem_cons.mp h with e | e
        · exact absurd e.symm hq
        · exact e
      have := ih hn.2 hp
      simp only [cntF, upd_other _ _ _ _ hq]
      omega

theorem cntF_upd_same (g : W → Nat) (f : Nat → W) (L : List Nat) (p : Nat) (x : W) (h : g x = g (f p)) :
    cntF g (upd f p x) L = cntF g f L := by
  induction L with
  | nil => rfl
  | cons q qs ih =>
    by_cases hq : q = p
    · subst hq; simp only [cntF, upd_same, h, ih]
    · simp only [cntF, upd_other _ _ _ _ hq, ih]

/-- 1 while inside `cond.Wait` -/
def insideW (x : W) : Nat := match x.ph with
  | .sel => 1
  | .wokenTok => 1
  | .wokenCtx => 1
  | _ => 0

/-- 1 while this waiter's channel is closed and it has not returned yet: an unconsumed signal -/
def creditW (x : W) : Nat := if x.sig then 1 else 0

/-- signal conservation, as a state predicate over every finite cover `L` of the threads that have called Wait -/
def Conserved (s : CSt) : Prop :=
  ∀ L : List Nat, L.Nodup → (∀ i, (s.ws i).ph ≠ .idle → i ∈ L) →
    s.waiters.length + cntF creditW s.ws L = cntF insideW s.ws L

theorem signal_ph (s : CSt) (i : Nat) : (s.signal.ws i).ph = (s.ws i).ph := by
  unfold CSt.signal
  cases s.waiters with
  | nil => rfl
  | cons w ws =>
    by_cases hi : i = w
    · subst hi; simp
    · simp [upd_other _ _ _ _ hi]

theorem signal_sig_mono (s : CSt) (i : Nat) (h : (s.ws i).sig = true) : (s.signal.ws i).sig = true := by
  unfold CSt.signal
  cases s.waiters with
  | nil => exact h
  | cons w ws =>
    by_cases hi : i = w
    · subst hi; simp
    · simpa [upd_other _ _ _ _ hi] using h

theorem cfire_nonidle_mono {s s' : CSt} {l : CLabel} (hf : cfire s l = some s') (j : Nat) (hj : (s.ws j).ph ≠ .idle) :
    (s'.ws j).ph ≠ .idle := by
  have one : ∀ (i : Nat) (x : W), x.ph ≠ .idle → (upd s.ws i x j).ph ≠ .idle := by
    intro i x hx
    by_cases hji : j = i
    · subst hji; simpa using hx
    · rw [upd_other _ _ _ _ hji]; exact hj
  cases l with
  | wait i =>
    simp only [cfire] at hf
    split at hf
    · cases hf; exact one i _ (by simp)
    · cases hf
  | cancel i =>
    simp only [cfire] at hf; cases hf
    by_cases hji : j = i
    · subst hji; simpa using hj
    · simpa [upd_other _ _ _ _ hji] using hj
  | wakeTok i =>
    simp only [cfire] at hf
    split at hf
    · cases hf; exact one i _ (by simp)
    · cases hf
  | wakeCtx i =>
    simp only [cfire] at hf
    split at hf
    · cases hf; exact one i _ (by simp)
    · cases hf
  | relockTok i =>
    simp only [cfire] at hf
    split at hf
    · cases hf; exact one i _ (by simp)
    · cases hf
  | relockCtx i =>
    simp only [cfire] at hf
    split at hf
    · cases hf
      split
      · exact one i _ (by simp)
      · by_cases hji : j = i
        · subst hji; simp
        · simp only [upd_other _ _ _ _ hji]; rw [signal_ph]; exact hj
    · cases hf
  | signal => simp only [cfire] at hf; cases hf; rw [signal_ph]; exact hj
  | broadcast =>
    simp only [cfire] at hf; cases hf
    unfold CSt.broadcast
    simp only []
    split <;> simpa using hj

theorem signal_conserved {s : CSt} (hA : InvA s) (L : List Nat) (hn : L.Nodup) (hc : ∀ i, (s.ws i).ph ≠ .idle → i ∈ L) :
    s.signal.waiters.length + cntF creditW s.signal.ws L = s.waiters.length + cntF creditW s.ws L ∧
    cntF insideW s.signal.ws L = cntF insideW s.ws L := by
  unfold CSt.signal
  cases hw : s.waiters with
  | nil => simp [hw]
  | cons w ws =>
    have hww := (hA.wIff w).mp (by rw [hw]; simp)
    have hni : (s.ws w).ph ≠ .idle := by rcases hww.1 with a | a <;> rw [a] <;> simp
    have h1 := cntF_upd creditW s.ws L w ⟨(s.ws w).ph, true, (s.ws w).canc⟩ hn (hc w hni)
    have h2 : creditW (s.ws w) = 0 := by simp [creditW, hww.2]
    have h3 : creditW ⟨(s.ws w).ph, true, (s.ws w).canc⟩ = 1 := by simp [creditW]
    have h4 := cntF_upd_same insideW s.ws L w ⟨(s.ws w).ph, true, (s.ws w).canc⟩ (by simp [insideW])
    refine ⟨?_, h4⟩
    simp only [List.length_cons]; omega

theorem Conserved.step {s s' : CSt} {l : CLabel} (hA : InvA s) (h : Conserved s) (hl : l ≠ .broadcast)
    (hf : cfire s l = some s') : Conserved s' := by
  intro L hn hc'
  have hc : ∀ i, (s.ws i).ph ≠ .idle → i ∈ L := fun i hi => hc' i (cfire_nonidle_mono hf i hi)
  have ih := h L hn hc
  cases l with
  | broadcast => exact absurd rfl hl
  | signal =>
    simp only [cfire] at hf; cases hf
    obtain ⟨a, b⟩ := signal_conserved hA L hn hc
    omega
  | wait i =>
    simp only [cfire] at hf
    split at hf
    · rename_i hidle; cases hf
      have hiL : i ∈ L := hc' i (by simp)
      have hs0 : (s.ws i).sig = false := by
        cases hs : (s.ws i).sig with
        | false => rfl
        | true => have := hA.sigPh i hs; rw [hidle] at this; simp [CPh.inCond] at this
      have c1 := cntF_upd_same creditW s.ws L i ⟨.sel, false, (s.ws i).canc⟩ (by simp [creditW, hs0])
      have c2 := cntF_upd insideW s.ws L i ⟨.sel, false, (s.ws i).canc⟩ hn hiL
      have c3 : insideW (s.ws i) = 0 := by simp [insideW, hidle]
      have c4 : insideW ⟨.sel, false, (s.ws i).canc⟩ = 1 := by simp [insideW]
      simp only [List.length_append, List.length_cons, List.length_nil]
      omega
    · cases hf
  | cancel i =>
    simp only [cfire] at hf; cases hf
    have c1 := cntF_upd_same creditW s.ws L i ⟨(s.ws i).ph, (s.ws i).sig, true⟩ (by simp [creditW])
    have c2 := cntF_upd_same insideW s.ws L i ⟨(s.ws i).ph, (s.ws i).sig, true⟩ (by simp [insideW])
    simp only []
    omega
  | wakeTok i =>
    simp only [cfire] at hf
    split at hf
    · rename_i hc0; cases hf
      have c1 := cntF_upd_same creditW s.ws L i ⟨.wokenTok, (s.ws i).sig, (s.ws i).canc⟩ (by simp [creditW])
      have c2 := cntF_upd_same insideW s.ws L i ⟨.wokenTok, (s.ws i).sig, (s.ws i).canc⟩ (by simp [insideW, hc0.1])
      simp only []
      omega
    · cases hf
  | wakeCtx i =>
    simp only [cfire] at hf
    split at hf
    · rename_i hc0; cases hf
      have c1 := cntF_upd_same creditW s.ws L i ⟨.wokenCtx, (s.ws i).sig, (s.ws i).canc⟩ (by simp [creditW])
      have c2 := cntF_upd_same insideW s.ws L i ⟨.wokenCtx, (s.ws i).sig, (s.ws i).canc⟩ (by simp [insideW, hc0.1])
      simp only []
      omega
    · cases hf
  | relockTok i =>
    simp only [cfire] at hf
    split at hf
    · rename_i hc0; cases hf
      have hiL : i ∈ L := hc i (by rw [hc0]; simp)
      have c1 := cntF_upd creditW s.ws L i ⟨.done .nil, false, (s.ws i).canc⟩ hn hiL
      have c2 := cntF_upd insideW s.ws L i ⟨.done .nil, false, (s.ws i).canc⟩ hn hiL
      have c3 : creditW (s.ws i) = 1 := by simp [creditW, hA.tokSig i hc0]
      have c4 : insideW (s.ws i) = 1 := by simp [insideW, hc0]
      have c5 : creditW ⟨.done .nil, false, (s.ws i).canc⟩ = 0 := by simp [creditW]
      have c6 : insideW ⟨.done .nil, false, (s.ws i).canc⟩ = 0 := by simp [insideW]
      simp only []
      omega
    · cases hf
  | relockCtx i =>
    simp only [cfire] at hf
    split at hf
    · rename_i hc0; cases hf
      have hiL : i ∈ L := hc i (by rw [hc0]; simp)
      split
      · rename_i hw
        have hs0 := ((hA.wIff i).mp hw).2
        have c1 := cntF_upd_same creditW s.ws L i ⟨.done .ctx, false, (s.ws i).canc⟩ (by simp [creditW, hs0])
        have c2 := cntF_upd insideW s.ws L i ⟨.done .ctx, false, (s.ws i).canc⟩ hn hiL
        have c4 : insideW (s.ws i) = 1 := by simp [insideW, hc0]
        have c6 : insideW ⟨.done .ctx, false, (s.ws i).canc⟩ = 0 := by simp [insideW]
        have hlen : (s.waiters.erase i).length + 1 = s.waiters.length := by
          rw [List.length_erase_of_mem hw]
          have := List.length_pos_of_mem hw
          omega
        simp only []
        omega
      · rename_i hw
        have hs1 : (s.ws i).sig = true := by
          cases hs : (s.ws i).sig with
          | true => rfl
          | false => exact absurd ((hA.wIff i).mpr ⟨Or.inr hc0, hs⟩) hw
        obtain ⟨a, b⟩ := signal_conserved hA L hn hc
        have hph1 : (s.signal.ws i).ph = .wokenCtx := by rw [signal_ph]; exact hc0
        have c1 := cntF_upd creditW s.signal.ws L i ⟨.done .ctx, false, (s.signal.ws i).canc⟩ hn hiL
        have c2 := cntF_upd insideW s.signal.ws L i ⟨.done .ctx, false, (s.signal.ws i).canc⟩ hn hiL
        have c3 : creditW (s.signal.ws i) = 1 := by simp [creditW, signal_sig_mono s i hs1]
        have c4 : insideW (s.signal.ws i) = 1 := by simp [insideW, hph1]
        have c5 : creditW ⟨.done .ctx, false, (s.signal.ws i).canc⟩ = 0 := by simp [creditW]
        have c6 : insideW ⟨.done .ctx, false, (s.signal.ws i).canc⟩ = 0 := by simp [insideW]
        simp only []
        omega
    · cases hf

theorem Conserved.run {s s' : CSt} (ls : List CLabel) (hA : InvA s) (h : Conserved s) (hl : ∀ l ∈ ls, l ≠ .broadcast)
    (hr : crun s ls = some s') : Conserved s' := by
  induction ls generalizing s with
  | nil => simp [crun] at hr; exact hr ▸ h
  | cons l ls ih =>
    simp only [crun] at hr
    cases hf : cfire s l with
    | none => simp [hf] at hr
    | some s1 =>
      simp [hf] at hr
      exact ih (hA.step hf) (h.step hA (hl l (by simp)) hf) (fun l' hl' => hl l' (List.mem_cons_of_mem _ hl')) hr

end OtelVerif.C02
