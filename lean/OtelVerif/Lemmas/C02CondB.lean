import OtelVerif.Lemmas.C02Cond
/-!
# C02: signal conservation of `cond.go` INCLUDING `Broadcast`

Since the repair "space is freed with Broadcast" the queues do broadcast on `hasMoreSpace`; the conservation theorem of
`Lemmas/C02Cond.lean` excluded that label.  Here the missing step: `Broadcast` turns every registered waiter into an unconsumed
signal, so `#registered + #unconsumed signals = #inside Wait` survives it.
-/
namespace OtelVerif.C02

theorem cntF_congr (g : W → Nat) (f f' : Nat → W) (L : List Nat) (h : ∀ j, g (f' j) = g (f j)) : cntF g f' L = cntF g f L := by
  induction L with
  | nil => rfl
  | cons q qs ih => simp only [cntF, h q, ih]

/-- marking a duplicate-free set `ws ⊆ L` of unsignalled waiters as signalled adds `|ws|` credits -/
theorem cnt_mark (ws : List Nat) : ∀ (f : Nat → W) (L : List Nat), L.Nodup → ws.Nodup → (∀ i ∈ ws, i ∈ L) →
    (∀ i ∈ ws, (f i).sig = false) →
    cntF creditW (fun j => if j ∈ ws then ⟨(f j).ph, true, (f j).canc⟩ else f j) L = cntF creditW f L + ws.length := by
  induction ws with
  | nil => intro f L _ _ _ _; simp
  | cons w ws ih =>
    intro f L hL hws hsub hsig
    have hw : w ∉ ws := (List.nodup_cons.mp hws).1
    have h1 := cntF_upd creditW f L w ⟨(f w).ph, true, (f w).canc⟩ hL (hsub w (by simp))
    have h0 : creditW (f w) = 0 := by simp [creditW, hsig w (by simp)]
    have h1' : creditW (⟨(f w).ph, true, (f w).canc⟩ : W) = 1 := by simp [creditW]
    have ih' := ih (upd f w ⟨(f w).ph, true, (f w).canc⟩) L hL (List.nodup_cons.mp hws).2
      (fun i hi => hsub i (List.mem_cons_of_mem _ hi))
      (fun i hi => by
        have hne : i ≠ w := fun e => hw (e ▸ hi)
        rw [upd_other _ _ _ _ hne]; exact hsig i (List.mem_cons_of_mem _ hi))
    have hcong : cntF creditW (fun j => if j ∈ w :: ws then ⟨(f j).ph, true, (f j).canc⟩ else f j) L =
        cntF creditW (fun j => if j ∈ ws then ⟨((upd f w ⟨(f w).ph, true, (f w).canc⟩) j).ph, true, ((upd f w ⟨(f w).ph, true, (f w).canc⟩) j).canc⟩ else (upd f w ⟨(f w).ph, true, (f w).canc⟩) j) L := by
      apply cntF_congr
      intro j
      by_cases hj : j = w
      · subst hj; simp [hw, creditW]
      · simp only [List.mem_cons, hj, false_or, upd_other _ _ _ _ hj]
    have h1'' : creditW (⟨(f w).ph, true, (f w).canc⟩ : W) = 1 := h1'
    rw [hcong, ih']
    simp only [List.length_cons]
    omega

theorem broadcast_conserved {s : CSt} (hA : InvA s) (L : List Nat) (hn : L.Nodup) (hc : ∀ i, (s.ws i).ph ≠ .idle → i ∈ L) :
    s.broadcast.waiters.length + cntF creditW s.broadcast.ws L = s.waiters.length + cntF creditW s.ws L ∧
    cntF insideW s.broadcast.ws L = cntF insideW s.ws L := by
  have hsub : ∀ i ∈ s.waiters, i ∈ L := by
    intro i hi
    have := (hA.wIff i).mp hi
    exact hc i (by rcases this.1 with a | a <;> rw [a] <;> simp)
  have hsig : ∀ i ∈ s.waiters, (s.ws i).sig = false := fun i hi => ((hA.wIff i).mp hi).2
  have hm := cnt_mark s.waiters s.ws L hn hA.wNodup hsub hsig
  refine ⟨?_, ?_⟩
  · show ([] : List Nat).length + cntF creditW (fun j => if j ∈ s.waiters then ⟨(s.ws j).ph, true, (s.ws j).canc⟩ else s.ws j) L = _
    rw [hm]; simp; omega
  · apply cntF_congr
    intro j
    show insideW (if j ∈ s.waiters then ⟨(s.ws j).ph, true, (s.ws j).canc⟩ else s.ws j) = _
    split <;> rfl

/-- conservation is kept by EVERY label of `cond.go`, `Broadcast` included -/
theorem Conserved.stepAll {s s' : CSt} {l : CLabel} (hA : InvA s) (h : Conserved s) (hf : cfire s l = some s') : Conserved s' := by
  by_cases hl : l = .broadcast
  · subst hl
    intro L hn hc'
    have hc : ∀ i, (s.ws i).ph ≠ .idle → i ∈ L := fun i hi => hc' i (cfire_nonidle_mono hf i hi)
    have ih := h L hn hc
    simp only [cfire] at hf; cases hf
    obtain ⟨a, b⟩ := broadcast_conserved hA L hn hc
    omega
  · exact h.step hA hl hf

theorem Conserved.runAll {s s' : CSt} (ls : List CLabel) (hA : InvA s) (h : Conserved s) (hr : crun s ls = some s') : Conserved s' := by
  induction ls generalizing s with
  | nil => simp [crun] at hr; exact hr ▸ h
  | cons l ls ih =>
    simp only [crun] at hr
    cases hf : cfire s l with
    | none => simp [hf] at hr
    | some s1 =>
      simp [hf] at hr
      exact ih (hA.step hf) (h.stepAll hA hf) hr

end OtelVerif.C02
