import OtelVerif.Lemmas.C02P
import OtelVerif.Lemmas.C02Live
/-! consumer side (`hasMoreElements`): every queued request has a notified consumer on its way, or nobody is parked -/
namespace OtelVerif.C02

/-- the consumer-side counterpart of signal conservation: as long as somebody is parked in `Read`, at least as many
consumers have been notified (and have not re-taken the lock yet) as there are queued requests; after `Shutdown`
nobody is parked -/
structure InvK (s : St) : Prop where
  woken : s.cwait = [] ∨ s.items.length ≤ s.cwoken.length
  stop : s.stopped = true → s.cwait = []

theorem InvK.congr {s s' : St} (h : InvK s) (e1 : s'.items = s.items) (e2 : s'.cwait = s.cwait)
    (e3 : s'.cwoken = s.cwoken) (e4 : s'.stopped = s.stopped) : InvK s' :=
  ⟨by rw [e1, e2, e3]; exact h.woken, by rw [e2, e4]; exact h.stop⟩

theorem condSignal_cons (s : St) : (condSignal s).items = s.items ∧ (condSignal s).cwait = s.cwait ∧
    (condSignal s).cwoken = s.cwoken ∧ (condSignal s).stopped = s.stopped := by
  obtain ⟨c1, _, _, c4, c5, _⟩ := condSignal_fields s
  exact ⟨c1, c5, condSignal_cwoken s, c4⟩

theorem ctxCleanup_cons (s : St) (p : Nat) : (ctxCleanup s p).items = s.items ∧ (ctxCleanup s p).cwait = s.cwait ∧
    (ctxCleanup s p).cwoken = s.cwoken ∧ (ctxCleanup s p).stopped = s.stopped := by
  unfold ctxCleanup
  split
  · exact ⟨rfl, rfl, rfl, rfl⟩
  · exact condSignal_cons s

theorem InvK.condSignal {s : St} (h : InvK s) : InvK (condSignal s) := by
  obtain ⟨a, b, c, d⟩ := condSignal_cons s
  exact h.congr a b c d

/-- the push + `hasMoreElements.Signal()` -/
theorem InvK.push {s s' : St} (h : InvK s) (x : Nat × Int) (e1 : s'.items = s.items ++ [x]) (e2 : s'.cwait = s.cwait.drop 1)
    (e3 : s'.cwoken = s.cwoken ++ s.cwait.take 1) (e4 : s'.stopped = s.stopped) : InvK s' := by
  refine ⟨?_, ?_⟩
  · rw [e1, e2, e3]
    cases hc : s.cwait with
    | nil => left; rfl
    | cons c cs =>
      right
      rcases h.woken with a | a
      · rw [hc] at a; cases a
      · simp only [List.length_append, List.length_cons, List.length_nil, List.take_succ_cons, List.take_zero]
        omega
  · intro hs
    rw [e4] at hs
    rw [e2, h.stop hs]; rfl

theorem InvK.tryAdd {k : Cfg} {s : St} {p : Nat} {el : Int} (h : InvK s) : InvK (tryAdd k s p el) := by
  unfold OtelVerif.C02.tryAdd
  split
  · split
    · split
      · exact h.congr rfl rfl rfl rfl
      · exact h.congr rfl rfl rfl rfl
    · exact h.congr rfl rfl rfl rfl
  · split
    · exact h.congr rfl rfl rfl rfl
    · exact h.push (p, el) rfl rfl rfl rfl

theorem InvK.condBroadcast {s : St} (h : InvK s) : InvK (condBroadcast s) := h.congr rfl rfl rfl rfl

theorem InvK.ptryAdd {k : Cfg} {s : St} {p : Nat} {el : Int} (h : InvK s) : InvK (ptryAdd k s p el) := by
  unfold OtelVerif.C02.ptryAdd
  split
  · split
    · split
      · exact h.congr rfl rfl rfl rfl
      · exact h.congr rfl rfl rfl rfl
    · exact h.congr rfl rfl rfl rfl
  · exact h.push (p, el) rfl rfl rfl rfl

/-- a consumer that holds the lock takes the head -/
theorem InvK.pop {s s' : St} (h : InvK s) (hp : pop s = some s') :
    s'.cwait = s.cwait ∧ s'.cwoken = s.cwoken ∧ s'.stopped = s.stopped ∧ s'.items.length + 1 = s.items.length := by
  obtain ⟨id, el, t, hi, rfl⟩ := pop_some hp
  exact ⟨rfl, rfl, rfl, by simp [hi]⟩

theorem InvK.ppop {s s' : St} (h : InvK s) (hp : ppop s = some s') :
    s'.cwait = s.cwait ∧ s'.cwoken = s.cwoken ∧ s'.stopped = s.stopped ∧ s'.items.length + 1 = s.items.length := by
  obtain ⟨s1, h1, h2 | ⟨_, h2⟩⟩ := ppop_some hp
  · rw [h2]; exact h.pop h1
  · obtain ⟨a, b, c, d⟩ := h.pop h1
    rw [h2]
    exact ⟨a, b, c, d⟩

/-- shared tail of `Read`: fresh consumer -/
theorem InvK.readStep {s s' : St} (h : InvK s) (c : Nat)
    (hs : (s'.cwait = s.cwait ∧ s'.cwoken = s.cwoken ∧ s'.stopped = s.stopped ∧ s'.items.length + 1 = s.items.length) ∨
          (s' = s) ∨ (s.items = [] ∧ s.stopped = false ∧ s' = { s with cwait := s.cwait ++ [c] })) : InvK s' := by
  rcases hs with ⟨a, b, c, d⟩ | rfl | ⟨hi, hst, rfl⟩
  · refine ⟨?_, by rw [a, c]; exact h.stop⟩
    rw [a, b]
    rcases h.woken with w | w
    · exact Or.inl w
    · exact Or.inr (by omega)
  · exact h
  · refine ⟨Or.inr (by simp [hi]), ?_⟩
    intro hs; simp only [] at hs; rw [hst] at hs; cases hs

/-- shared tail of `Read`: notified consumer `c` re-evaluates -/
theorem InvK.recheckStep {s s' : St} (h : InvK s) (c : Nat) (hc : c ∈ s.cwoken)
    (hs : (s'.cwait = s.cwait ∧ s'.cwoken = s.cwoken.erase c ∧ s'.stopped = s.stopped ∧ s'.items.length + 1 = s.items.length) ∨
          (s.stopped = true ∧ s' = { s with cwoken := s.cwoken.erase c }) ∨
          (s.items = [] ∧ s.stopped = false ∧ s' = { s with cwoken := s.cwoken.erase c, cwait := s.cwait ++ [c] })) : InvK s' := by
  have hlen : (s.cwoken.erase c).length + 1 = s.cwoken.length := by
    rw [List.length_erase_of_mem hc]
    have := List.length_pos_of_mem hc
    omega
  rcases hs with ⟨a, b, c', d⟩ | ⟨hst, rfl⟩ | ⟨hi, hst, rfl⟩
  · refine ⟨?_, by rw [a, c']; exact h.stop⟩
    rw [a, b]
    rcases h.woken with w | w
    · exact Or.inl w
    · exact Or.inr (by omega)
  · exact ⟨Or.inl (h.stop hst), fun _ => h.stop hst⟩
  · refine ⟨Or.inr (by simp [hi]), ?_⟩
    intro hs; simp only [] at hs; rw [hst] at hs; cases hs

theorem InvK.step {k : Cfg} {s s' : St} {l : Label} (h : InvK s) (hf : fire k s l = some s') : InvK s' := by
  cases l with
  | offer p el =>
    simp only [fire] at hf
    split at hf
    · split at hf
      · cases hf; exact h.congr rfl rfl rfl rfl
      · split at hf
        · cases hf; exact h.congr rfl rfl rfl rfl
        · split at hf
          · cases hf; exact h.congr rfl rfl rfl rfl
          · cases hf; exact h.tryAdd
    · cases hf
  | cancel p => simp only [fire] at hf; cases hf; exact h.congr rfl rfl rfl rfl
  | wakeTok p =>
    simp only [fire] at hf
    split at hf
    · cases hf; exact h.congr rfl rfl rfl rfl
    · cases hf
  | wakeCtx p =>
    simp only [fire] at hf
    split at hf
    · cases hf; exact h.congr rfl rfl rfl rfl
    · cases hf
  | relockTok p =>
    simp only [fire] at hf
    split at hf
    · cases hf; exact h.tryAdd
    · cases hf
  | relockCtx p =>
    simp only [fire] at hf
    split at hf
    · cases hf
      obtain ⟨a, b, c, d⟩ := ctxCleanup_cons s p
      exact h.congr a b c d
    · cases hf
  | getRes p =>
    simp only [fire] at hf
    split at hf
    · split at hf
      · cases hf; exact h.congr rfl rfl rfl rfl
      · cases hf
    · cases hf
  | resCtx p =>
    simp only [fire] at hf
    split at hf
    · cases hf; exact h.congr rfl rfl rfl rfl
    · cases hf
  | read c =>
    simp only [fire] at hf
    split at hf
    · cases hf
    · split at hf
      · rename_i s1 hp; cases hf; exact h.readStep c (Or.inl (h.pop hp))
      · rename_i hp
        split at hf
        · cases hf; exact h
        · rename_i hst; cases hf
          exact h.readStep c (Or.inr (Or.inr ⟨pop_none hp, by simpa using hst, rfl⟩))
  | recheck c =>
    simp only [fire] at hf
    split at hf
    · rename_i hc
      split at hf
      · rename_i s1 hp; cases hf
        obtain ⟨a, b, c', d⟩ := h.pop hp
        exact h.recheckStep c hc (Or.inl ⟨a, by simp [b], c', d⟩)
      · rename_i hp
        split at hf
        · rename_i hst; cases hf; exact h.recheckStep c hc (Or.inr (Or.inl ⟨hst, rfl⟩))
        · rename_i hst; cases hf
          exact h.recheckStep c hc (Or.inr (Or.inr ⟨pop_none hp, by simpa using hst, rfl⟩))
    · cases hf
  | complete id e =>
    simp only [fire] at hf
    split at hf
    · rename_i el _; cases hf
      unfold finish
      have h0 : InvK { s with size := s.size - el, inflight := s.inflight.filter (fun x => x.1 != id),
                              finished := s.finished ++ [id], outcomes := s.outcomes ++ [(id, e)] } := h.congr rfl rfl rfl rfl
      have h1 := h0.condBroadcast
      simp only []
      split
      · exact h1.congr rfl rfl rfl rfl
      · exact h1
    · cases hf
  | shutdown => simp only [fire] at hf; cases hf; exact ⟨Or.inl rfl, fun _ => rfl⟩

theorem InvK.pstep {k : Cfg} {s s' : St} {l : Label} (h : InvK s) (hf : pfire k s l = some s') : InvK s' := by
  cases l with
  | offer p el =>
    simp only [pfire] at hf
    split at hf
    · cases hf; exact h.ptryAdd
    · cases hf
  | cancel p => simp only [pfire] at hf; cases hf; exact h.congr rfl rfl rfl rfl
  | wakeTok p =>
    simp only [pfire] at hf
    split at hf
    · cases hf; exact h.congr rfl rfl rfl rfl
    · cases hf
  | wakeCtx p =>
    simp only [pfire] at hf
    split at hf
    · cases hf; exact h.congr rfl rfl rfl rfl
    · cases hf
  | relockTok p =>
    simp only [pfire] at hf
    split at hf
    · cases hf; exact h.ptryAdd
    · cases hf
  | relockCtx p =>
    simp only [pfire] at hf
    split at hf
    · cases hf
      obtain ⟨a, b, c, d⟩ := ctxCleanup_cons s p
      exact h.congr a b c d
    · cases hf
  | getRes p => simp [pfire] at hf
  | resCtx p => simp [pfire] at hf
  | read c =>
    simp only [pfire] at hf
    split at hf
    · cases hf
    · split at hf
      · cases hf; exact h
      · rename_i hst
        split at hf
        · rename_i s1 hp; cases hf; exact h.readStep c (Or.inl (h.ppop hp))
        · rename_i hp; cases hf
          exact h.readStep c (Or.inr (Or.inr ⟨ppop_none hp, by simpa using hst, rfl⟩))
  | recheck c =>
    simp only [pfire] at hf
    split at hf
    · rename_i hc
      split at hf
      · rename_i hst; cases hf; exact h.recheckStep c hc (Or.inr (Or.inl ⟨hst, rfl⟩))
      · rename_i hst
        split at hf
        · rename_i s1 hp; cases hf
          obtain ⟨a, b, c', d⟩ := h.ppop hp
          exact h.recheckStep c hc (Or.inl ⟨a, by simp [b], c', d⟩)
        · rename_i hp; cases hf
          exact h.recheckStep c hc (Or.inr (Or.inr ⟨ppop_none hp, by simpa using hst, rfl⟩))
    · cases hf
  | complete id e =>
    simp only [pfire] at hf
    split at hf
    · rename_i el _; cases hf
      unfold pfinish
      have h0 : InvK { s with size := (if s.size - el < 0 then 0 else s.size - el),
                              inflight := s.inflight.filter (fun x => x.1 != id),
                              finished := s.finished ++ [id], outcomes := s.outcomes ++ [(id, e)] } := h.congr rfl rfl rfl rfl
      exact h0.condBroadcast
    · cases hf
  | shutdown => simp only [pfire] at hf; cases hf; exact ⟨Or.inl rfl, fun _ => rfl⟩

theorem InvK.init : InvK {} := ⟨Or.inl rfl, fun _ => rfl⟩

theorem InvK.reachable {k : Cfg} {s : St} (hr : Reachable k s) : InvK s :=
  reachable_induction k InvK InvK.init (fun _ _ _ h hf => h.step hf) s hr

theorem InvK.preachable {k : Cfg} {s : St} (hr : PReachable k s) : InvK s :=
  preachable_induction k InvK InvK.init (fun _ _ _ h hf => h.pstep hf) s hr

end OtelVerif.C02
