import OtelVerif.Lemmas.C02Audit
/-!
# C02: infinite runs of the memory-queue LTS and explicit fairness hypotheses

Definitions (`IsRun`, `SchedFair`, `ConsFair`, `OnlyFrom`) and the measure bookkeeping along a run that the
liveness theorems `C02_fair_run_comes_to_rest` / `C02_fair_run_releases_all` (`Props/C02.lean`) rest on.
-/
namespace OtelVerif.C02

/-- one instant of a run: nothing happens (`none`, a stutter) or one label fires -/
def Step (k : Cfg) (s : St) (ol : Option Label) (s' : St) : Prop :=
  (ol = none ∧ s' = s) ∨ (∃ l, ol = some l ∧ fire k s l = some s')

/-- an infinite run of the queue LTS from a reachable state -/
def IsRun (k : Cfg) (ρ : Nat → St) (lab : Nat → Option Label) : Prop :=
  Reachable k (ρ 0) ∧ ∀ n, Step k (ρ n) (lab n) (ρ (n+1))

/-- fairness of the Go scheduler and of `sync.Mutex` in its weakest form (minimal progress): whenever some goroutine
can take a step of its own, eventually some goroutine does take one -/
def SchedFair (k : Cfg) (ρ : Nat → St) (lab : Nat → Option Label) : Prop :=
  ∀ n, ¬ Quiescent k (ρ n) → ∃ m, n ≤ m ∧ ∃ l, lab m = some l ∧ l.internal = true

/-- number of hand-overs plus completions so far -/
def served (s : St) : Nat := s.handed.length + s.finished.length

/-- the consumers keep working: whenever a request is queued or in flight, eventually a request is taken or completed -/
def ConsFair (ρ : Nat → St) : Prop :=
  ∀ n, (ρ n).items ++ (ρ n).inflight ≠ [] → ∃ m, n ≤ m ∧ served (ρ m) < served (ρ (m+1))

/-- from instant `n0` on every label of the run satisfies `ok` -/
def OnlyFrom (lab : Nat → Option Label) (n0 : Nat) (ok : Label → Bool) : Prop :=
  ∀ m, n0 ≤ m → ∀ l, lab m = some l → ok l = true

theorem run_reachable {k : Cfg} {ρ : Nat → St} {lab : Nat → Option Label} (hr : IsRun k ρ lab) : ∀ n, Reachable k (ρ n) := by
  intro n
  induction n with
  | zero => exact hr.1
  | succ n ih =>
    rcases hr.2 n with ⟨_, e⟩ | ⟨l, _, hf⟩
    · rw [e]; exact ih
    · exact reachable_step ih hf

/-! ## frame of `handed` / `finished` -/

theorem tryAdd_served (k : Cfg) (s : St) (p : Nat) (el : Int) : served (tryAdd k s p el) = served s := by
  unfold tryAdd register refuse accept served
  split
  · split
    · split <;> rfl
    · rfl
  · split <;> rfl

theorem ctxRefuse_served (s : St) (p : Nat) (r : Res) : served (refuse (ctxCleanup s p) p r) = served s := by
  unfold refuse ctxCleanup served
  split
  · rfl
  · simp only []
    rw [(condSignal_fields s).2.2.2.2.2.2.2.2.1, (condSignal_fields s).2.2.2.2.2.2.2.2.2.1]

/-- what one step of a drain (goroutine steps, reads, completions; no Offer, cancel, shutdown) does to the measures:
`Omega` never grows; when it does not drop, `Phi` does not grow and nothing was handed over or completed; a goroutine's own
step strictly decreases `Phi` -/
theorem drain_step_measure {k : Cfg} {L : List Nat} {s s' : St} {l : Label} (hC : InvC k s) (hc : Covers L s)
    (hl : l.drain = true) (hf : fire k s l = some s') :
    Covers L s' ∧ Omega L s' ≤ Omega L s ∧ (Omega L s' < Omega L s ∨ (Phi L s' ≤ Phi L s ∧ served s' = served s)) ∧
    (l.internal = true → Phi L s' < Phi L s) := by
  have viaInternal : l.internal = true → served s' = served s →
      Covers L s' ∧ Omega L s' ≤ Omega L s ∧ (Omega L s' < Omega L s ∨ (Phi L s' ≤ Phi L s ∧ served s' = served s)) ∧
      (l.internal = true → Phi L s' < Phi L s) := by
    intro hi hs
    obtain ⟨a, b, c⟩ := internal_step_measure hC hc hi hf
    exact ⟨a, c, Or.inr ⟨Nat.le_of_lt b, hs⟩, fun _ => b⟩
  cases l with
  | offer p el => simp [Label.drain] at hl
  | cancel p => simp [Label.drain] at hl
  | shutdown => simp [Label.drain] at hl
  | wakeTok p =>
    refine viaInternal rfl ?_
    simp only [fire] at hf
    split at hf
    · cases hf; rfl
    · cases hf
  | wakeCtx p =>
    refine viaInternal rfl ?_
    simp only [fire] at hf
    split at hf
    · cases hf; rfl
    · cases hf
  | relockTok p =>
    refine viaInternal rfl ?_
    simp only [fire] at hf
    split at hf
    · cases hf; exact tryAdd_served _ _ _ _
    · cases hf
  | relockCtx p =>
    refine viaInternal rfl ?_
    simp only [fire] at hf
    split at hf
    · cases hf; exact ctxRefuse_served _ _ _
    · cases hf
  | getRes p =>
    refine viaInternal rfl ?_
    simp only [fire] at hf
    split at hf
    · split at hf
      · cases hf; rfl
      · cases hf
    · cases hf
  | resCtx p =>
    refine viaInternal rfl ?_
    simp only [fire] at hf
    split at hf
    · cases hf; rfl
    · cases hf
  | recheck c =>
    obtain ⟨a, b, c'⟩ := internal_step_measure hC hc rfl hf
    refine ⟨a, c', ?_, fun _ => b⟩
    simp only [fire] at hf
    split at hf
    · split at hf
      · rename_i s1 hp; cases hf
        left
        have := (pop_measure hc hp).2
        simpa [Omega] using this
      · split at hf
        · cases hf; exact Or.inr ⟨Nat.le_of_lt b, rfl⟩
        · cases hf; exact Or.inr ⟨Nat.le_of_lt b, rfl⟩
    · cases hf
  | read c =>
    simp only [fire] at hf
    split at hf
    · cases hf
    · split at hf
      · rename_i s1 hp; cases hf
        obtain ⟨a, b⟩ := pop_measure hc hp
        exact ⟨a, Nat.le_of_lt b, Or.inl b, fun h => by simp [Label.internal] at h⟩
      · split at hf
        · cases hf
          exact ⟨hc, Nat.le_refl _, Or.inr ⟨Nat.le_refl _, rfl⟩, fun h => by simp [Label.internal] at h⟩
        · cases hf
          exact ⟨hc, Nat.le_refl _, Or.inr ⟨Nat.le_refl _, rfl⟩, fun h => by simp [Label.internal] at h⟩
  | complete id e =>
    simp only [fire] at hf
    split at hf
    · rename_i el hl'; cases hf
      obtain ⟨a, b⟩ := finish_measure (k := k) (e := e) hc hl'
      exact ⟨a, Nat.le_of_lt b, Or.inl b, fun h => by simp [Label.internal] at h⟩
    · cases hf

/-! ## along a run -/

/-- what is carried along the drain part of a run -/
structure DrainInv (k : Cfg) (L : List Nat) (s : St) : Prop where
  reach : Reachable k s
  cov : Covers L s

variable {k : Cfg} {ρ : Nat → St} {lab : Nat → Option Label}

/-- one instant of a run whose label (if any) is a drain label -/
theorem step_measure (hk : 0 ≤ k.cap) {L : List Nat} {s s' : St} {ol : Option Label} (hi : DrainInv k L s)
    (hst : Step k s ol s') (hd : ∀ l, ol = some l → l.drain = true) :
    DrainInv k L s' ∧ Omega L s' ≤ Omega L s ∧ (Omega L s' < Omega L s ∨ (Phi L s' ≤ Phi L s ∧ served s' = served s)) ∧
    (∀ l, ol = some l → l.internal = true → Phi L s' < Phi L s) ∧ (s.stopped = false → s'.stopped = false) := by
  rcases hst with ⟨e1, e2⟩ | ⟨l, e1, hf⟩
  · subst e2
    refine ⟨hi, Nat.le_refl _, Or.inr ⟨Nat.le_refl _, rfl⟩, ?_, fun h => h⟩
    intro l hl; rw [e1] at hl; cases hl
  · have hld := hd l e1
    obtain ⟨a, b, c, d⟩ := drain_step_measure (Inv.reachable hk hi.reach).C hi.cov hld hf
    refine ⟨⟨reachable_step hi.reach hf, a⟩, b, c, ?_, ?_⟩
    · intro l' hl' hint
      rw [e1] at hl'; cases hl'
      exact d hint
    · intro hs
      have hns : l ≠ .shutdown := by intro e; subst e; simp [Label.drain] at hld
      rw [stopped_step hf hns]; exact hs

theorem drainInv_along (hk : 0 ≤ k.cap) (hr : IsRun k ρ lab) {n0 : Nat} (hq : OnlyFrom lab n0 Label.drain) {L : List Nat}
    (h0 : DrainInv k L (ρ n0)) : ∀ d, DrainInv k L (ρ (n0 + d)) := by
  intro d
  induction d with
  | zero => exact h0
  | succ d ih =>
    exact (step_measure hk ih (hr.2 (n0 + d)) (fun l hl => hq (n0 + d) (Nat.le_add_right _ _) l hl)).1

theorem drainInv_at (hk : 0 ≤ k.cap) (hr : IsRun k ρ lab) {n0 : Nat} (hq : OnlyFrom lab n0 Label.drain) {L : List Nat}
    (h0 : DrainInv k L (ρ n0)) (n : Nat) (hn : n0 ≤ n) : DrainInv k L (ρ n) := by
  have := drainInv_along hk hr hq h0 (n - n0)
  rwa [Nat.add_sub_cancel' hn] at this

theorem running_along (hk : 0 ≤ k.cap) (hr : IsRun k ρ lab) {n0 : Nat} (hq : OnlyFrom lab n0 Label.drain) {L : List Nat}
    (h0 : DrainInv k L (ρ n0)) (hs : (ρ n0).stopped = false) (n : Nat) (hn : n0 ≤ n) : (ρ n).stopped = false := by
  have key : ∀ d, (ρ (n0 + d)).stopped = false := by
    intro d
    induction d with
    | zero => exact hs
    | succ d ih =>
      exact (step_measure hk (drainInv_along hk hr hq h0 d) (hr.2 (n0 + d))
        (fun l hl => hq (n0 + d) (Nat.le_add_right _ _) l hl)).2.2.2.2 ih
  have := key (n - n0)
  rwa [Nat.add_sub_cancel' hn] at this

theorem tracked_along (hk : 0 ≤ k.cap) (hr : IsRun k ρ lab) {n0 : Nat} (hq : OnlyFrom lab n0 Label.drain) (p : Nat)
    (ht : Tracked (ρ n0) p) (n : Nat) (hn : n0 ≤ n) : Tracked (ρ n) p := by
  have key : ∀ d, Tracked (ρ (n0 + d)) p := by
    intro d
    induction d with
    | zero => exact ht
    | succ d ih =>
      rcases hr.2 (n0 + d) with ⟨_, e⟩ | ⟨l, e1, hf⟩
      · show Tracked (ρ (n0 + d + 1)) p
        rw [e]; exact ih
      · exact tracked_step (Inv.reachable hk (run_reachable hr (n0 + d))).C (hq (n0 + d) (Nat.le_add_right _ _) l e1) hf ih
  have := key (n - n0)
  rwa [Nat.add_sub_cancel' hn] at this

/-- over a stretch of a drain: `Omega` dropped strictly somewhere, or neither `Omega` nor `Phi` grew and nothing was served -/
theorem segment (hk : 0 ≤ k.cap) (hr : IsRun k ρ lab) {n0 : Nat} (hq : OnlyFrom lab n0 Label.drain) {L : List Nat}
    (h0 : DrainInv k L (ρ n0)) (n : Nat) (hn : n0 ≤ n) : ∀ d,
    (∃ j, n ≤ j ∧ j ≤ n + d ∧ Omega L (ρ j) < Omega L (ρ n)) ∨
    (Omega L (ρ (n + d)) ≤ Omega L (ρ n) ∧ Phi L (ρ (n + d)) ≤ Phi L (ρ n) ∧ served (ρ (n + d)) = served (ρ n)) := by
  intro d
  induction d with
  | zero => exact Or.inr ⟨Nat.le_refl _, Nat.le_refl _, rfl⟩
  | succ d ih =>
    rcases ih with ⟨j, a, b, c⟩ | ⟨a, b, c⟩
    · exact Or.inl ⟨j, a, by omega, c⟩
    · have hnd : n0 ≤ n + d := by omega
      obtain ⟨_, o1, o2, _, _⟩ := step_measure hk (drainInv_at hk hr hq h0 (n + d) hnd) (hr.2 (n + d))
        (fun l hl => hq (n + d) hnd l hl)
      rcases o2 with o2 | ⟨o2, o3⟩
      · exact Or.inl ⟨n + d + 1, by omega, by omega, by show Omega L (ρ (n + d + 1)) < _; omega⟩
      · refine Or.inr ⟨?_, ?_, ?_⟩
        · show Omega L (ρ (n + d + 1)) ≤ _; omega
        · show Phi L (ρ (n + d + 1)) ≤ _; omega
        · show served (ρ (n + d + 1)) = _; omega

/-- `Omega` never grows along a drain -/
theorem omega_mono (hk : 0 ≤ k.cap) (hr : IsRun k ρ lab) {n0 : Nat} (hq : OnlyFrom lab n0 Label.drain) {L : List Nat}
    (h0 : DrainInv k L (ρ n0)) (n : Nat) (hn : n0 ≤ n) : ∀ d, Omega L (ρ (n + d)) ≤ Omega L (ρ n) := by
  intro d
  induction d with
  | zero => exact Nat.le_refl _
  | succ d ih =>
    have hnd : n0 ≤ n + d := by omega
    obtain ⟨_, o1, _⟩ := step_measure hk (drainInv_at hk hr hq h0 (n + d) hnd) (hr.2 (n + d)) (fun l hl => hq (n + d) hnd l hl)
    show Omega L (ρ (n + d + 1)) ≤ _
    omega

theorem internal_is_drain (l : Label) (h : l.internal = true) : l.drain = true := by
  cases l <;> simp [Label.internal] at h <;> rfl

theorem onlyFrom_internal_drain {n0 : Nat} (hq : OnlyFrom lab n0 Label.internal) : OnlyFrom lab n0 Label.drain :=
  fun m hm l hl => internal_is_drain l (hq m hm l hl)

/-- when only goroutine steps and stutters happen, `Phi` never grows -/
theorem phi_mono_internal (hk : 0 ≤ k.cap) (hr : IsRun k ρ lab) {n0 : Nat} (hq : OnlyFrom lab n0 Label.internal) {L : List Nat}
    (h0 : DrainInv k L (ρ n0)) (n : Nat) (hn : n0 ≤ n) : ∀ d, Phi L (ρ (n + d)) ≤ Phi L (ρ n) := by
  have hqd := onlyFrom_internal_drain hq
  intro d
  induction d with
  | zero => exact Nat.le_refl _
  | succ d ih =>
    have hnd : n0 ≤ n + d := by omega
    have hi := drainInv_at hk hr hqd h0 (n + d) hnd
    show Phi L (ρ (n + d + 1)) ≤ _
    rcases hr.2 (n + d) with ⟨_, e⟩ | ⟨l, e1, hf⟩
    · rw [e]; exact ih
    · obtain ⟨_, b, _⟩ := internal_step_measure (Inv.reachable hk hi.reach).C hi.cov (hq (n + d) hnd l e1) hf
      omega

/-- a quiescent state of a run in which only goroutine steps or stutters follow is final -/
theorem rest_forever (hr : IsRun k ρ lab) {n0 : Nat} (hq : OnlyFrom lab n0 Label.internal) (n : Nat) (hn : n0 ≤ n)
    (hqu : Quiescent k (ρ n)) : ∀ d, ρ (n + d) = ρ n := by
  intro d
  induction d with
  | zero => rfl
  | succ d ih =>
    show ρ (n + d + 1) = ρ n
    rcases hr.2 (n + d) with ⟨_, e⟩ | ⟨l, e1, hf⟩
    · rw [e]; exact ih
    · have hi := hq (n + d) (by omega) l e1
      rw [ih, hqu l hi] at hf
      cases hf

/-! ## the run that plays a finite schedule and then stutters for ever (for non-vacuity examples) -/

def playStates (k : Cfg) : St → List Label → Nat → St
  | s, _, 0 => s
  | s, [], _+1 => s
  | s, l :: ls, n+1 => match fire k s l with
    | some s1 => playStates k s1 ls n
    | none => s

def playLabs (ls : List Label) (n : Nat) : Option Label := ls[n]?

theorem play_step (k : Cfg) (ls : List Label) : ∀ (s : St) (n : Nat), (runSched k s ls).isSome = true →
    Step k (playStates k s ls n) (playLabs ls n) (playStates k s ls (n+1)) := by
  induction ls with
  | nil =>
    intro s n _
    left
    refine ⟨by simp [playLabs], ?_⟩
    cases n <;> simp [playStates]
  | cons l ls ih =>
    intro s n h
    simp only [runSched] at h
    cases hf : fire k s l with
    | none => simp [hf] at h
    | some s1 =>
      simp only [hf] at h
      cases n with
      | zero =>
        right
        refine ⟨l, by simp [playLabs], ?_⟩
        simp [playStates, hf]
      | succ n =>
        have := ih s1 n h
        simpa [playStates, hf, playLabs] using this

theorem play_isRun {k : Cfg} {s : St} {ls : List Label} (hr : Reachable k s) (h : (runSched k s ls).isSome = true) :
    IsRun k (playStates k s ls) (playLabs ls) :=
  ⟨by simpa [playStates] using hr, fun n => play_step k ls s n h⟩

/-- the state at instant `n` is the state after the first `n` labels of the schedule -/
theorem play_take (k : Cfg) (ls : List Label) : ∀ (s : St) (n : Nat), (runSched k s ls).isSome = true →
    runSched k s (ls.take n) = some (playStates k s ls n) := by
  induction ls with
  | nil => intro s n _; cases n <;> simp [playStates, runSched]
  | cons l ls ih =>
    intro s n h
    simp only [runSched] at h
    cases hf : fire k s l with
    | none => simp [hf] at h
    | some s1 =>
      simp only [hf] at h
      cases n with
      | zero => simp [playStates, runSched]
      | succ n => simpa [playStates, runSched, hf] using ih s1 n h

/-- after the schedule is over the run stays in its final state -/
theorem play_after {k : Cfg} {s s' : St} {ls : List Label} (h : runSched k s ls = some s') (n : Nat) (hn : ls.length ≤ n) :
    playStates k s ls n = s' := by
  have h1 := play_take k ls s n (by simp [h])
  rw [List.take_of_length_le hn, h] at h1
  exact (Option.some.inj h1).symm

theorem play_labs_after (ls : List Label) (n : Nat) (hn : ls.length ≤ n) : playLabs ls n = none := by
  simp [playLabs, hn]

theorem onlyFrom_play (ls : List Label) (n0 : Nat) (ok : Label → Bool) (h : ∀ l ∈ ls.drop n0, ok l = true) :
    OnlyFrom (playLabs ls) n0 ok := by
  intro m hm l hl
  apply h
  simp only [playLabs] at hl
  have : (ls.drop n0)[m - n0]? = some l := by
    rw [List.getElem?_drop, Nat.add_sub_cancel' hm]; exact hl
  exact List.mem_of_getElem? this

/-! ## per-producer liveness under weak fairness of the producer's own goroutine -/

/-- producer `p` has been signalled or cancelled and has not re-taken the lock yet -/
def Pending (s : St) (p : Nat) : Prop :=
  ((s.ps p).ph = .sel ∧ ((s.ps p).sig = true ∨ (s.ps p).canc = true)) ∨ (s.ps p).ph = .wokenTok ∨ (s.ps p).ph = .wokenCtx

/-- some step of producer `p`'s own goroutine is enabled -/
def OwnEnabled (k : Cfg) (s : St) (p : Nat) : Prop := ∃ l, l.tid = some p ∧ l.internal = true ∧ (fire k s l).isSome = true

/-- weak fairness for the goroutine of producer `p`: a step of its own that stays enabled is eventually taken -/
def ProdFair (k : Cfg) (ρ : Nat → St) (lab : Nat → Option Label) (p : Nat) : Prop :=
  ∀ n, (∀ m, n ≤ m → OwnEnabled k (ρ m) p) → ∃ m, n ≤ m ∧ ∃ l, lab m = some l ∧ l.tid = some p ∧ l.internal = true

theorem pending_enabled (k : Cfg) (s : St) (p : Nat) (h : Pending s p) : OwnEnabled k s p := by
  rcases h with ⟨a, b | b⟩ | a | a
  · exact ⟨.wakeTok p, rfl, rfl, by simp [fire, a, b]⟩
  · exact ⟨.wakeCtx p, rfl, rfl, by simp [fire, a, b]⟩
  · exact ⟨.relockTok p, rfl, rfl, by simp [fire, a]⟩
  · exact ⟨.relockCtx p, rfl, rfl, by simp [fire, a]⟩

theorem condSignal_sig_mono (s : St) (q : Nat) (h : (s.ps q).sig = true) : ((condSignal s).ps q).sig = true := by
  unfold condSignal
  cases hw : s.waiters with
  | nil => exact h
  | cons w ws =>
    simp only []
    by_cases hq : q = w
    · subst hq; simp
    · simp [upd_other _ _ _ _ hq, h]

theorem condBroadcast_sig_mono (s : St) (q : Nat) (h : (s.ps q).sig = true) : ((condBroadcast s).ps q).sig = true := by
  unfold condBroadcast; simp only []; split
  · rfl
  · exact h

/-- a label of another thread (or of the environment) never takes a closed channel back: `sig` stays true -/
theorem sig_mono_step {k : Cfg} {s s' : St} {l : Label} (hf : fire k s l = some s') (p : Nat) (hl : l.tid ≠ some p)
    (h : (s.ps p).sig = true) : (s'.ps p).sig = true := by
  have other : ∀ (q : Nat) (x : P), some q ≠ some p → (upd s.ps q x) p = s.ps p := by
    intro q x hne
    exact upd_other _ _ _ _ (fun e => hne (by rw [e]))
  cases l with
  | offer q el =>
    have hqp : p ≠ q := fun e => hl (by rw [e]; rfl)
    simp only [fire] at hf
    split at hf
    · split at hf
      · cases hf; simp [setP, upd_other _ _ _ _ hqp, h]
      · split at hf
        · cases hf; simp [refuse, upd_other _ _ _ _ hqp, h]
        · split at hf
          · cases hf; simp [refuse, upd_other _ _ _ _ hqp, h]
          · cases hf; rw [tryAdd_ps_other _ _ _ _ _ hqp]; exact h
    · cases hf
  | cancel q =>
    simp only [fire] at hf; cases hf
    by_cases hqp : p = q
    · subst hqp; simpa [setP] using h
    · simp [setP, upd_other _ _ _ _ hqp, h]
  | wakeTok q =>
    have hqp : p ≠ q := fun e => hl (by rw [e]; rfl)
    simp only [fire] at hf
    split at hf
    · cases hf; simp [setP, upd_other _ _ _ _ hqp, h]
    · cases hf
  | wakeCtx q =>
    have hqp : p ≠ q := fun e => hl (by rw [e]; rfl)
    simp only [fire] at hf
    split at hf
    · cases hf; simp [setP, upd_other _ _ _ _ hqp, h]
    · cases hf
  | relockTok q =>
    have hqp : p ≠ q := fun e => hl (by rw [e]; rfl)
    simp only [fire] at hf
    split at hf
    · cases hf; rw [tryAdd_ps_other _ _ _ _ _ hqp]; exact h
    · cases hf
  | relockCtx q =>
    have hqp : p ≠ q := fun e => hl (by rw [e]; rfl)
    simp only [fire] at hf
    split at hf
    · cases hf
      simp only [refuse, upd_other _ _ _ _ hqp]
      unfold ctxCleanup
      split
      · exact h
      · exact condSignal_sig_mono s p h
    · cases hf
  | getRes q =>
    have hqp : p ≠ q := fun e => hl (by rw [e]; rfl)
    simp only [fire] at hf
    split at hf
    · split at hf
      · cases hf; simp [upd_other _ _ _ _ hqp, h]
      · cases hf
    · cases hf
  | resCtx q =>
    have hqp : p ≠ q := fun e => hl (by rw [e]; rfl)
    simp only [fire] at hf
    split at hf
    · cases hf; simp [setP, upd_other _ _ _ _ hqp, h]
    · cases hf
  | read c =>
    simp only [fire] at hf
    split at hf
    · cases hf
    · split at hf
      · rename_i s1 hp; cases hf
        obtain ⟨id, el, t, _, rfl⟩ := pop_some hp
        exact h
      · split at hf <;> cases hf <;> exact h
  | recheck c =>
    simp only [fire] at hf
    split at hf
    · split at hf
      · rename_i s1 hp; cases hf
        obtain ⟨id, el, t, _, rfl⟩ := pop_some hp
        exact h
      · split at hf
        · cases hf; exact h
        · cases hf; exact h
    · cases hf
  | complete id e =>
    simp only [fire] at hf
    split at hf
    · cases hf
      unfold finish
      simp only []
      split
      · simp only []; exact condBroadcast_sig_mono _ p h
      · exact condBroadcast_sig_mono _ p h
    · cases hf
  | shutdown => simp only [fire] at hf; cases hf; exact condBroadcast_sig_mono _ p h

/-- `Pending` is kept by every step that is not a goroutine step of `p` itself -/
theorem pending_step {k : Cfg} {s s' : St} {l : Label} (hf : fire k s l = some s') (p : Nat)
    (hl : ¬ (l.tid = some p ∧ l.internal = true)) (h : Pending s p) : Pending s' p := by
  by_cases ht : l.tid = some p
  · -- `offer p` (disabled: p is not idle) or `cancel p`
    cases l with
    | offer q el =>
      have : q = p := by simpa [Label.tid] using ht
      subst this
      have hni : (s.ps q).ph ≠ .idle := by
        rcases h with ⟨a, _⟩ | a | a <;> rw [a] <;> simp
      simp [fire, hni] at hf
    | cancel q =>
      have : q = p := by simpa [Label.tid] using ht
      subst this
      simp only [fire] at hf; cases hf
      rcases h with ⟨a, b⟩ | a | a
      · exact Or.inl ⟨by simpa [setP] using a, Or.inr (by simp [setP])⟩
      · exact Or.inr (Or.inl (by simpa [setP] using a))
      · exact Or.inr (Or.inr (by simpa [setP] using a))
    | wakeTok q => exact absurd ⟨ht, rfl⟩ hl
    | wakeCtx q => exact absurd ⟨ht, rfl⟩ hl
    | relockTok q => exact absurd ⟨ht, rfl⟩ hl
    | relockCtx q => exact absurd ⟨ht, rfl⟩ hl
    | getRes q => exact absurd ⟨ht, rfl⟩ hl
    | resCtx q => exact absurd ⟨ht, rfl⟩ hl
    | read c => simp [Label.tid] at ht
    | recheck c => simp [Label.tid] at ht
    | complete id e => simp [Label.tid] at ht
    | shutdown => simp [Label.tid] at ht
  · obtain ⟨_, hfr⟩ := frame_step hf
    obtain ⟨e1, e2⟩ := hfr p ht
    rcases h with ⟨a, b | b⟩ | a | a
    · exact Or.inl ⟨by rw [e1]; exact a, Or.inl (sig_mono_step hf p ht b)⟩
    · exact Or.inl ⟨by rw [e1]; exact a, Or.inr (by rw [e2]; exact b)⟩
    · exact Or.inr (Or.inl (by rw [e1]; exact a))
    · exact Or.inr (Or.inr (by rw [e1]; exact a))

theorem own_internal_cases (l : Label) (p : Nat) (ht : l.tid = some p) (hi : l.internal = true) :
    l = .wakeTok p ∨ l = .wakeCtx p ∨ l = .relockTok p ∨ l = .relockCtx p ∨ l = .getRes p ∨ l = .resCtx p := by
  cases l <;> simp [Label.tid, Label.internal] at ht hi <;> subst ht <;> simp

end OtelVerif.C02
