import OtelVerif.Lemmas.C02
/-! liveness-flavoured facts for C02: a measure that decreases under every step the goroutines take on their own,
and a potential that decreases when the environment drains the queue (core Lean only) -/
namespace OtelVerif.C02

/-- sum of a per-thread weight over a finite list of threads -/
def sumF (g : P → Nat) (f : Nat → P) : List Nat → Nat
  | [] => 0
  | p :: ps => g (f p) + sumF g f ps

theorem sumF_upd_notin (g : P → Nat) (f : Nat → P) (L : List Nat) (p : Nat) (x : P) (h : p ∉ L) :
    sumF g (upd f p x) L = sumF g f L := by
  induction L with
  | nil => rfl
  | cons q qs ih =>
    simp only [List.mem_cons, not_or] at h
    simp only [sumF, upd_other _ _ _ _ (fun e => h.1 e.symm), ih h.2]

theorem sumF_upd (g : P → Nat) (f : Nat → P) (L : List Nat) (p : Nat) (x : P) (hn : L.Nodup) (h : p ∈ L) :
    sumF g (upd f p x) L + g (f p) = sumF g f L + g x := by
  induction L with
  | nil => simp at h
  | cons q qs ih =>
    simp only [List.nodup_cons] at hn
    by_cases hq : q = p
    · subst hq
      simp only [sumF, upd_same, sumF_upd_notin g f qs q x hn.1]
      omega
    · have hp : p ∈ qs := by
        rcases List.mem_cons.mp h with e | e
        · exact absurd e.symm hq
        · exact e
      have := ih hn.2 hp
      simp only [sumF, upd_other _ _ _ _ hq]
      omega

theorem sumF_congr (g : P → Nat) (f f' : Nat → P) (L : List Nat) (h : ∀ p, g (f' p) = g (f p)) :
    sumF g f' L = sumF g f L := by
  induction L with
  | nil => rfl
  | cons q qs ih => simp only [sumF, h q, ih]

/-- weight of a thread for the inner measure: how many steps of its own it can still take before it needs the
environment (a completion, a cancellation) again; +2 for a closed channel not yet noticed -/
def phi (x : P) : Nat :=
  match x.ph with
  | .idle => 0
  | .done _ => 0
  | .waitRes => 1
  | .sel => if x.sig then 6 else 4
  | .wokenTok => 5
  | .wokenCtx => 3

/-- weight for the outer potential: 3 while inside cond.Wait -/
def omg (x : P) : Nat :=
  match x.ph with
  | .sel => 3
  | .wokenTok => 3
  | .wokenCtx => 3
  | _ => 0

/-- `L` lists (without repetition) every thread that has called Offer -/
def Covers (L : List Nat) (s : St) : Prop := L.Nodup ∧ ∀ p, (s.ps p).ph ≠ .idle → p ∈ L

def Phi (L : List Nat) (s : St) : Nat := sumF phi s.ps L + s.cwoken.length
def Omega (L : List Nat) (s : St) : Nat := sumF omg s.ps L + 2 * s.items.length + s.inflight.length

theorem phi_le (x : P) : phi x ≤ 6 := by
  unfold phi; cases x.ph <;> simp <;> split <;> omega

/-- single-thread update: both sums move by the difference of the weights -/
theorem upd_sums {L : List Nat} {s : St} (hc : Covers L s) (p : Nat) (x : P) (hp : (s.ps p).ph ≠ .idle) (g : P → Nat) :
    sumF g (upd s.ps p x) L + g (s.ps p) = sumF g s.ps L + g x :=
  sumF_upd g s.ps L p x hc.1 (hc.2 p hp)

theorem covers_upd {L : List Nat} {s : St} (hc : Covers L s) (p : Nat) (x : P) (hp : (s.ps p).ph ≠ .idle) (f' : Nat → P)
    (hf : f' = upd s.ps p x) : L.Nodup ∧ ∀ q, (f' q).ph ≠ .idle → q ∈ L := by
  refine ⟨hc.1, ?_⟩
  intro q hq
  by_cases hqp : q = p
  · subst hqp; exact hc.2 q hp
  · rw [hf, upd_other _ _ _ _ hqp] at hq; exact hc.2 q hq

/-- `condSignal`: phases unchanged; the inner sum grows by at most 2 -/
theorem condSignal_sums {k : Cfg} {L : List Nat} {s : St} (hC : InvC k s) (hc : Covers L s) :
    sumF phi (condSignal s).ps L ≤ sumF phi s.ps L + 2 ∧ sumF omg (condSignal s).ps L = sumF omg s.ps L ∧
    (∀ q, ((condSignal s).ps q).ph ≠ .idle → q ∈ L) := by
  refine ⟨?_, ?_, ?_⟩
  · unfold condSignal
    cases hw : s.waiters with
    | nil => simp
    | cons w ws =>
      have hww := (hC.wIff w).mp (by rw [hw]; simp)
      have hni : (s.ps w).ph ≠ .idle := by rcases hww.1 with a | a <;> rw [a] <;> simp
      have := upd_sums hc w ⟨(s.ps w).ph, (s.ps w).el, true, (s.ps w).canc⟩ hni phi
      have h1 : phi ⟨(s.ps w).ph, (s.ps w).el, true, (s.ps w).canc⟩ ≤ phi (s.ps w) + 2 := by
        unfold phi
        rcases hww.1 with a | a <;> simp [a, hww.2]
      simp only []
      omega
  · exact sumF_congr omg _ _ L (fun p => by unfold omg; rw [condSignal_ph])
  · intro q hq; rw [condSignal_ph] at hq; exact hc.2 q hq

end OtelVerif.C02

namespace OtelVerif.C02

theorem condSignal_cwoken (s : St) : (condSignal s).cwoken = s.cwoken := by
  unfold condSignal; cases s.waiters <;> rfl

theorem one_thread {L : List Nat} {s s' : St} {p : Nat} {x : P} {a b c d : Nat} (hc : Covers L s) (hp : (s.ps p).ph ≠ .idle)
    (h1 : s'.ps = upd s.ps p x) (ha : phi (s.ps p) = a) (hb : phi x = b) (hc' : omg (s.ps p) = c) (hd : omg x = d) :
    Covers L s' ∧ sumF phi s'.ps L + a = sumF phi s.ps L + b ∧ sumF omg s'.ps L + c = sumF omg s.ps L + d := by
  refine ⟨covers_upd hc p x hp _ h1, ?_, ?_⟩
  · rw [h1, ← ha, ← hb]; exact upd_sums hc p x hp phi
  · rw [h1, ← hc', ← hd]; exact upd_sums hc p x hp omg

theorem tryAdd_measure {k : Cfg} {L : List Nat} {s : St} {p : Nat} {el : Int} (hc : Covers L s)
    (hp : (s.ps p).ph = .wokenTok) :
    Covers L (tryAdd k s p el) ∧ Phi L (tryAdd k s p el) < Phi L s ∧ Omega L (tryAdd k s p el) ≤ Omega L s := by
  have hni : (s.ps p).ph ≠ .idle := by rw [hp]; simp
  have h5 : phi (s.ps p) = 5 := by simp [phi, hp]
  have h3 : omg (s.ps p) = 3 := by simp [omg, hp]
  unfold tryAdd
  split
  · split
    · split
      · obtain ⟨a, b, c⟩ := one_thread (s' := refuse s p .stopped) (x := ⟨.done .stopped, (s.ps p).el, false, (s.ps p).canc⟩) hc hni rfl h5
          (b := 0) (by simp [phi]) h3 (d := 0) (by simp [omg])
        exact ⟨a, by simp only [Phi, refuse] at b ⊢; omega, by simp only [Omega, refuse] at c ⊢; omega⟩
      obtain ⟨a, b, c⟩ := one_thread (s' := register s p el) (x := ⟨.sel, el, false, (s.ps p).canc⟩) hc hni rfl h5
        (b := 4) (by simp [phi]) h3 (d := 3) (by simp [omg])
      exact ⟨a, by simp only [Phi, register] at b ⊢; omega, by simp only [Omega, register] at c ⊢; omega⟩
    · obtain ⟨a, b, c⟩ := one_thread (s' := refuse s p .full) (x := ⟨.done .full, (s.ps p).el, false, (s.ps p).canc⟩) hc hni rfl h5
        (b := 0) (by simp [phi]) h3 (d := 0) (by simp [omg])
      exact ⟨a, by simp only [Phi, refuse] at b ⊢; omega, by simp only [Omega, refuse] at c ⊢; omega⟩
  · split
    · obtain ⟨a, b, c⟩ := one_thread (s' := refuse s p .stopped) (x := ⟨.done .stopped, (s.ps p).el, false, (s.ps p).canc⟩) hc hni rfl h5
        (b := 0) (by simp [phi]) h3 (d := 0) (by simp [omg])
      exact ⟨a, by simp only [Phi, refuse] at b ⊢; omega, by simp only [Omega, refuse] at c ⊢; omega⟩
    have ht : (s.cwoken ++ s.cwait.take 1).length ≤ s.cwoken.length + 1 := by
      simp only [List.length_append, List.length_take]; omega
    cases hw : k.wfr with
    | true =>
      obtain ⟨a, b, c⟩ := one_thread (s' := accept k s p el) (x := ⟨.waitRes, el, false, (s.ps p).canc⟩) hc hni
        (by simp [accept, hw]) h5 (b := 1) (by simp [phi]) h3 (d := 0) (by simp [omg])
      exact ⟨a, by simp only [Phi, accept] at b ⊢; omega,
        by simp only [Omega, accept, List.length_append, List.length_cons, List.length_nil] at c ⊢; omega⟩
    | false =>
      obtain ⟨a, b, c⟩ := one_thread (s' := accept k s p el) (x := ⟨.done .ok, el, false, (s.ps p).canc⟩) hc hni
        (by simp [accept, hw]) h5 (b := 0) (by simp [phi]) h3 (d := 0) (by simp [omg])
      exact ⟨a, by simp only [Phi, accept] at b ⊢; omega,
        by simp only [Omega, accept, List.length_append, List.length_cons, List.length_nil] at c ⊢; omega⟩

/-- every step a goroutine takes on its own strictly decreases `Phi` and does not increase `Omega` -/
theorem internal_step_measure {k : Cfg} {L : List Nat} {s s' : St} {l : Label} (hC : InvC k s) (hc : Covers L s)
    (hl : l.internal = true) (hf : fire k s l = some s') :
    Covers L s' ∧ Phi L s' < Phi L s ∧ Omega L s' ≤ Omega L s := by
  cases l with
  | offer p el => simp [Label.internal] at hl
  | cancel p => simp [Label.internal] at hl
  | read c => simp [Label.internal] at hl
  | complete id e => simp [Label.internal] at hl
  | shutdown => simp [Label.internal] at hl
  | wakeTok p =>
    simp only [fire] at hf
    split at hf
    · rename_i h; cases hf
      have hni : (s.ps p).ph ≠ .idle := by rw [h.1]; simp
      obtain ⟨a, b, c⟩ := one_thread (s' := setP s p { s.ps p with ph := .wokenTok })
        (x := ⟨.wokenTok, (s.ps p).el, (s.ps p).sig, (s.ps p).canc⟩) hc hni rfl
        (a := 6) (by simp [phi, h.1, h.2]) (b := 5) (by simp [phi]) (c := 3) (by simp [omg, h.1]) (d := 3) (by simp [omg])
      exact ⟨a, by simp only [Phi, setP] at b ⊢; omega, by simp only [Omega, setP] at c ⊢; omega⟩
    · cases hf
  | wakeCtx p =>
    simp only [fire] at hf
    split at hf
    · rename_i h; cases hf
      have hni : (s.ps p).ph ≠ .idle := by rw [h.1]; simp
      by_cases hs : (s.ps p).sig = true
      · obtain ⟨a, b, c⟩ := one_thread (s' := setP s p { s.ps p with ph := .wokenCtx })
          (x := ⟨.wokenCtx, (s.ps p).el, (s.ps p).sig, (s.ps p).canc⟩) hc hni rfl
          (a := 6) (by simp [phi, h.1, hs]) (b := 3) (by simp [phi]) (c := 3) (by simp [omg, h.1]) (d := 3) (by simp [omg])
        exact ⟨a, by simp only [Phi, setP] at b ⊢; omega, by simp only [Omega, setP] at c ⊢; omega⟩
      · obtain ⟨a, b, c⟩ := one_thread (s' := setP s p { s.ps p with ph := .wokenCtx })
          (x := ⟨.wokenCtx, (s.ps p).el, (s.ps p).sig, (s.ps p).canc⟩) hc hni rfl
          (a := 4) (by simp [phi, h.1, hs]) (b := 3) (by simp [phi]) (c := 3) (by simp [omg, h.1]) (d := 3) (by simp [omg])
        exact ⟨a, by simp only [Phi, setP] at b ⊢; omega, by simp only [Omega, setP] at c ⊢; omega⟩
    · cases hf
  | relockTok p =>
    simp only [fire] at hf
    split at hf
    · rename_i h; cases hf; exact tryAdd_measure hc h
    · cases hf
  | relockCtx p =>
    simp only [fire] at hf
    split at hf
    · rename_i h; cases hf
      have hni : (s.ps p).ph ≠ .idle := by rw [h]; simp
      unfold ctxCleanup
      split
      · obtain ⟨a, b, c⟩ := one_thread (L := L) (s := s) (s' := refuse { s with waiters := s.waiters.erase p } p .ctxErr)
          (x := ⟨.done .ctxErr, (s.ps p).el, false, (s.ps p).canc⟩) hc hni rfl
          (a := 3) (by simp [phi, h]) (b := 0) (by simp [phi]) (c := 3) (by simp [omg, h]) (d := 0) (by simp [omg])
        exact ⟨a, by simp only [Phi, refuse] at b ⊢; omega, by simp only [Omega, refuse] at c ⊢; omega⟩
      · obtain ⟨s1, s2, s3⟩ := condSignal_sums hC hc
        have hc1 : Covers L (condSignal s) := ⟨hc.1, s3⟩
        have hph : ((condSignal s).ps p).ph = .wokenCtx := by rw [condSignal_ph]; exact h
        have hni1 : ((condSignal s).ps p).ph ≠ .idle := by rw [hph]; simp
        obtain ⟨a, b, c⟩ := one_thread (s' := refuse (condSignal s) p .ctxErr)
          (x := ⟨.done .ctxErr, ((condSignal s).ps p).el, false, ((condSignal s).ps p).canc⟩) hc1 hni1 rfl
          (a := 3) (by simp [phi, hph]) (b := 0) (by simp [phi]) (c := 3) (by simp [omg, hph]) (d := 0) (by simp [omg])
        obtain ⟨f1, f2, _, _, f5, _⟩ := condSignal_fields s
        exact ⟨a, by simp only [Phi, refuse] at b ⊢; rw [condSignal_cwoken]; omega, by simp only [Omega, refuse] at c ⊢; rw [f1, f2]; omega⟩
    · cases hf
  | getRes p =>
    simp only [fire] at hf
    split at hf
    · rename_i h
      split at hf
      · rename_i e _; cases hf
        have hni : (s.ps p).ph ≠ .idle := by rw [h]; simp
        obtain ⟨a, b, c⟩ := one_thread (L := L) (s := s)
          (s' := { s with results := s.results.filter (fun x => x.1 != p), ps := upd s.ps p { s.ps p with ph := .done (.result e) } })
          (x := ⟨.done (.result e), (s.ps p).el, (s.ps p).sig, (s.ps p).canc⟩) hc hni rfl
          (a := 1) (by simp [phi, h]) (b := 0) (by simp [phi]) (c := 0) (by simp [omg, h]) (d := 0) (by simp [omg])
        exact ⟨a, by simp only [Phi] at b ⊢; omega, by simp only [Omega] at c ⊢; omega⟩
      · cases hf
    · cases hf
  | resCtx p =>
    simp only [fire] at hf
    split at hf
    · rename_i h; cases hf
      have hni : (s.ps p).ph ≠ .idle := by rw [h.1]; simp
      obtain ⟨a, b, c⟩ := one_thread (s' := setP s p { s.ps p with ph := .done .ctxErr })
        (x := ⟨.done .ctxErr, (s.ps p).el, (s.ps p).sig, (s.ps p).canc⟩) hc hni rfl
        (a := 1) (by simp [phi, h.1]) (b := 0) (by simp [phi]) (c := 0) (by simp [omg, h.1]) (d := 0) (by simp [omg])
      exact ⟨a, by simp only [Phi, setP] at b ⊢; omega, by simp only [Omega, setP] at c ⊢; omega⟩
    · cases hf
  | recheck c =>
    simp only [fire] at hf
    split at hf
    · rename_i hcw
      have hlen : (s.cwoken.erase c).length + 1 = s.cwoken.length := by
        rw [List.length_erase_of_mem hcw]
        have := List.length_pos_of_mem hcw
        omega
      split at hf
      · rename_i s1 hp; cases hf
        obtain ⟨id, el, t, hi, rfl⟩ := pop_some hp
        refine ⟨hc, ?_, ?_⟩
        · simp only [Phi]; omega
        · simp only [Omega, hi, List.length_append, List.length_cons, List.length_nil]; omega
      · split at hf
        · cases hf
          refine ⟨hc, ?_, ?_⟩
          · simp only [Phi]; omega
          · simp only [Omega]; omega
        · cases hf
          refine ⟨hc, ?_, ?_⟩
          · simp only [Phi]; omega
          · simp only [Omega]; omega
    · cases hf

end OtelVerif.C02

namespace OtelVerif.C02

theorem tryAdd_ps_other (k : Cfg) (s : St) (p q : Nat) (el : Int) (h : q ≠ p) : (tryAdd k s p el).ps q = s.ps q := by
  unfold tryAdd register refuse accept
  split
  · split
    · split <;> simp [upd_other _ _ _ _ h]
    · simp [upd_other _ _ _ _ h]
  · split <;> simp [upd_other _ _ _ _ h]

/-- a thread that has not called Offer stays idle under every label except its own `offer` -/
theorem idle_step {k : Cfg} {s s' : St} {l : Label} (hf : fire k s l = some s') (q : Nat) (hq : (s.ps q).ph = .idle)
    (hl : ∀ el, l ≠ .offer q el) : (s'.ps q).ph = .idle := by
  cases l with
  | offer p el =>
    have hqp : q ≠ p := fun e => hl el (by rw [e])
    simp only [fire] at hf
    split at hf
    · split at hf
      · cases hf; simp [setP, upd_other _ _ _ _ hqp, hq]
      · split at hf
        · cases hf; simp [refuse, upd_other _ _ _ _ hqp, hq]
        · split at hf
          · cases hf; simp [refuse, upd_other _ _ _ _ hqp, hq]
          · cases hf; rw [tryAdd_ps_other _ _ _ _ _ hqp]; exact hq
    · cases hf
  | cancel p =>
    simp only [fire] at hf; cases hf
    by_cases hqp : q = p
    · subst hqp; simpa [setP] using hq
    · simp [setP, upd_other _ _ _ _ hqp, hq]
  | wakeTok p =>
    simp only [fire] at hf
    split at hf
    · rename_i h; cases hf
      have hqp : q ≠ p := by intro e; rw [e, h.1] at hq; cases hq
      simp [setP, upd_other _ _ _ _ hqp, hq]
    · cases hf
  | wakeCtx p =>
    simp only [fire] at hf
    split at hf
    · rename_i h; cases hf
      have hqp : q ≠ p := by intro e; rw [e, h.1] at hq; cases hq
      simp [setP, upd_other _ _ _ _ hqp, hq]
    · cases hf
  | relockTok p =>
    simp only [fire] at hf
    split at hf
    · rename_i h; cases hf
      have hqp : q ≠ p := by intro e; rw [e, h] at hq; cases hq
      rw [tryAdd_ps_other _ _ _ _ _ hqp]; exact hq
    · cases hf
  | relockCtx p =>
    simp only [fire] at hf
    split at hf
    · rename_i h; cases hf
      have hqp : q ≠ p := by intro e; rw [e, h] at hq; cases hq
      simp only [refuse, upd_other _ _ _ _ hqp]
      unfold ctxCleanup
      split
      · exact hq
      · rw [condSignal_ph]; exact hq
    · cases hf
  | getRes p =>
    simp only [fire] at hf
    split at hf
    · rename_i h
      split at hf
      · cases hf
        have hqp : q ≠ p := by intro e; rw [e, h] at hq; cases hq
        simp [upd_other _ _ _ _ hqp, hq]
      · cases hf
    · cases hf
  | resCtx p =>
    simp only [fire] at hf
    split at hf
    · rename_i h; cases hf
      have hqp : q ≠ p := by intro e; rw [e, h.1] at hq; cases hq
      simp [setP, upd_other _ _ _ _ hqp, hq]
    · cases hf
  | read c =>
    simp only [fire] at hf
    split at hf
    · cases hf
    · split at hf
      · rename_i s1 hp; cases hf
        obtain ⟨id, el, t, _, rfl⟩ := pop_some hp
        exact hq
      · split at hf <;> cases hf <;> exact hq
  | recheck c =>
    simp only [fire] at hf
    split at hf
    · split at hf
      · rename_i s1 hp; cases hf
        obtain ⟨id, el, t, _, rfl⟩ := pop_some hp
        exact hq
      · split at hf
        · cases hf; exact hq
        · cases hf; exact hq
    · cases hf
  | complete id e =>
    simp only [fire] at hf
    split at hf
    · cases hf
      unfold finish
      simp only []
      split
      · simp only []; rw [condBroadcast_ph]; exact hq
      · rw [condBroadcast_ph]; exact hq
    · cases hf
  | shutdown => simp only [fire] at hf; cases hf; rw [condBroadcast_ph]; exact hq

/-- in every reachable state only finitely many threads have called Offer -/
theorem covers_exists {k : Cfg} {s : St} (hr : Reachable k s) : ∃ L, Covers L s := by
  refine reachable_induction k (fun s => ∃ L, Covers L s) ⟨[], by simp, by intro p hp; simp at hp⟩ ?_ s hr
  intro s l s' ⟨L, hc⟩ hf
  have key : ∀ (p : Nat), (∀ q, q ≠ p → (s.ps q).ph = .idle → (s'.ps q).ph = .idle) →
      ∃ L', Covers L' s' := by
    intro p hp
    by_cases hpl : p ∈ L
    · refine ⟨L, hc.1, ?_⟩
      intro q hq
      by_cases hqp : q = p
      · exact hqp ▸ hpl
      · exact hc.2 q (fun hi => hq (hp q hqp hi))
    · refine ⟨p :: L, List.nodup_cons.mpr ⟨hpl, hc.1⟩, ?_⟩
      intro q hq
      by_cases hqp : q = p
      · simp [hqp]
      · exact List.mem_cons_of_mem _ (hc.2 q (fun hi => hq (hp q hqp hi)))
  cases l with
  | offer p el => exact key p (fun q hqp hi => idle_step hf q hi (by intro el' e; cases e; exact hqp rfl))
  | cancel p => exact key 0 (fun q _ hi => idle_step hf q hi (by intro el e; cases e))
  | wakeTok p => exact key 0 (fun q _ hi => idle_step hf q hi (by intro el e; cases e))
  | wakeCtx p => exact key 0 (fun q _ hi => idle_step hf q hi (by intro el e; cases e))
  | relockTok p => exact key 0 (fun q _ hi => idle_step hf q hi (by intro el e; cases e))
  | relockCtx p => exact key 0 (fun q _ hi => idle_step hf q hi (by intro el e; cases e))
  | getRes p => exact key 0 (fun q _ hi => idle_step hf q hi (by intro el e; cases e))
  | resCtx p => exact key 0 (fun q _ hi => idle_step hf q hi (by intro el e; cases e))
  | read c => exact key 0 (fun q _ hi => idle_step hf q hi (by intro el e; cases e))
  | recheck c => exact key 0 (fun q _ hi => idle_step hf q hi (by intro el e; cases e))
  | complete id e => exact key 0 (fun q _ hi => idle_step hf q hi (by intro el e'; cases e'))
  | shutdown => exact key 0 (fun q _ hi => idle_step hf q hi (by intro el e; cases e))

/-- bound on what the goroutines can do on their own: at most `Phi L s` internal steps -/
theorem internal_run_bounded {k : Cfg} (hk : 0 ≤ k.cap) {L : List Nat} (ls : List Label) (s : St) (hr : Reachable k s)
    (hc : Covers L s) (hi : ∀ l ∈ ls, Label.internal l = true) (hs : (runSched k s ls).isSome = true) :
    ls.length ≤ Phi L s := by
  induction ls generalizing s with
  | nil => simp
  | cons l rest ih =>
    simp only [runSched] at hs
    cases hf : fire k s l with
    | none => simp [hf] at hs
    | some s1 =>
      simp only [hf] at hs
      obtain ⟨c1, c2, _⟩ := internal_step_measure (Inv.reachable hk hr).C hc (hi l (by simp)) hf
      have := ih s1 (reachable_step hr hf) c1 (fun l' hl' => hi l' (List.mem_cons_of_mem _ hl')) hs
      simp only [List.length_cons]
      omega

def Quiescent (k : Cfg) (s : St) : Prop := ∀ l, l.internal = true → fire k s l = none

/-- the goroutines' own activity always comes to rest -/
theorem exists_quiesce {k : Cfg} (hk : 0 ≤ k.cap) {L : List Nat} (n : Nat) (s : St) (hr : Reachable k s) (hc : Covers L s)
    (hn : Phi L s ≤ n) :
    ∃ ls s', (∀ l ∈ ls, Label.internal l = true) ∧ runSched k s ls = some s' ∧ Quiescent k s' ∧ Covers L s' ∧
      Omega L s' ≤ Omega L s := by
  induction n generalizing s with
  | zero =>
    refine ⟨[], s, by simp, rfl, ?_, hc, Nat.le_refl _⟩
    intro l hl
    cases hf : fire k s l with
    | none => rfl
    | some s1 =>
      obtain ⟨_, c2, _⟩ := internal_step_measure (Inv.reachable hk hr).C hc hl hf
      omega
  | succ n ih =>
    by_cases hq : Quiescent k s
    · exact ⟨[], s, by simp, rfl, hq, hc, Nat.le_refl _⟩
    · unfold Quiescent at hq
      obtain ⟨l, hl⟩ := Classical.not_forall.mp hq
      obtain ⟨hli, hne⟩ := Classical.not_imp.mp hl
      cases hf : fire k s l with
      | none => exact absurd hf hne
      | some s1 =>
        obtain ⟨c1, c2, c3⟩ := internal_step_measure (Inv.reachable hk hr).C hc hli hf
        obtain ⟨ls, s', h1, h2, h3, h4, h5⟩ := ih s1 (reachable_step hr hf) c1 (by omega)
        refine ⟨l :: ls, s', ?_, by simp [runSched, hf, h2], h3, h4, by omega⟩
        intro l' hl'
        rcases List.mem_cons.mp hl' with e | e
        · exact e ▸ hli
        · exact h1 l' e

end OtelVerif.C02

namespace OtelVerif.C02

theorem filter_lookup_length (l : List (Nat × Int)) (id : Nat) (el : Int) (h : l.lookup id = some el) :
    (l.filter (fun x => x.1 != id)).length < l.length := by
  induction l with
  | nil => simp [List.lookup] at h
  | cons x xs ih =>
    obtain ⟨a, b⟩ := x
    by_cases hia : id = a
    · subst hia
      simp only [List.filter, bne_self_eq_false, List.length_cons]
      have := List.length_filter_le (fun x : Nat × Int => x.1 != id) xs
      omega
    · have hne : (id == a) = false := by simpa using hia
      simp only [List.lookup, hne] at h
      have hk : ((a, b).1 != id) = true := by simpa using fun e => hia e.symm
      simp only [List.filter, hk, List.length_cons]
      have := ih h
      omega

theorem pop_measure {L : List Nat} {s s1 : St} (hc : Covers L s) (hp : pop s = some s1) :
    Covers L s1 ∧ Omega L s1 < Omega L s := by
  obtain ⟨id, el, t, hi, rfl⟩ := pop_some hp
  refine ⟨hc, ?_⟩
  simp only [Omega, hi, List.length_append, List.length_cons, List.length_nil]
  omega

theorem finish_measure {k : Cfg} {L : List Nat} {s : St} {id : Nat} {el : Int} {e : Nat} (hc : Covers L s)
    (hl : s.inflight.lookup id = some el) : Covers L (finish k s id el e) ∧ Omega L (finish k s id el e) < Omega L s := by
  have hlen := filter_lookup_length _ _ _ hl
  have key : ∀ s0 : St, s0.ps = s.ps → s0.items = s.items → s0.inflight = s.inflight.filter (fun x => x.1 != id) →
      Covers L (condBroadcast s0) ∧ Omega L (condBroadcast s0) < Omega L s := by
    intro s0 e1 e2 e3
    obtain ⟨f1, f2, _⟩ := condBroadcast_fields s0
    refine ⟨⟨hc.1, ?_⟩, ?_⟩
    · intro q hq; rw [condBroadcast_ph, e1] at hq; exact hc.2 q hq
    · have : sumF omg (condBroadcast s0).ps L = sumF omg s.ps L :=
        sumF_congr omg _ _ L (fun p => by unfold omg; rw [condBroadcast_ph, e1])
      simp only [Omega, this, f1, f2, e2, e3]
      omega
  unfold finish
  simp only []
  split
  · exact key _ rfl rfl rfl
  · exact key _ rfl rfl rfl

end OtelVerif.C02

namespace OtelVerif.C02

/-- the producer goroutine a label belongs to -/
def Label.tid : Label → Option Nat
  | .offer p _ | .cancel p | .wakeTok p | .wakeCtx p | .relockTok p | .relockCtx p | .getRes p | .resCtx p => some p
  | _ => none

theorem condSignal_accepted (s : St) : (condSignal s).accepted = s.accepted := (condSignal_fields s).2.2.2.2.2.2.1

theorem tryAdd_accepted_mono (k : Cfg) (s : St) (p : Nat) (el : Int) : ∀ q ∈ s.accepted, q ∈ (tryAdd k s p el).accepted := by
  intro q hq
  unfold tryAdd register refuse accept
  split
  · split
    · split <;> exact hq
    · exact hq
  · split
    · exact hq
    · simp [hq]

theorem tryAdd_canc (k : Cfg) (s : St) (p q : Nat) (el : Int) : ((tryAdd k s p el).ps q).canc = (s.ps q).canc := by
  by_cases h : q = p
  · subst h
    unfold tryAdd register refuse accept
    split
    · split
      · split <;> simp
      · simp
    · split <;> simp
  · rw [tryAdd_ps_other _ _ _ _ _ h]

theorem tryAdd_stopped (k : Cfg) (s : St) (p : Nat) (el : Int) : (tryAdd k s p el).stopped = s.stopped := by
  unfold tryAdd register refuse accept
  split
  · split
    · split <;> rfl
    · rfl
  · split <;> rfl

/-- only `Shutdown` changes `stopped` -/
theorem stopped_step {k : Cfg} {s s' : St} {l : Label} (hf : fire k s l = some s') (hl : l ≠ .shutdown) :
    s'.stopped = s.stopped := by
  cases l with
  | shutdown => exact absurd rfl hl
  | offer p el =>
    simp only [fire] at hf
    split at hf
    · split at hf
      · cases hf; rfl
      · split at hf
        · cases hf; rfl
        · split at hf
          · cases hf; rfl
          · cases hf; exact tryAdd_stopped _ _ _ _
    · cases hf
  | cancel p => simp only [fire] at hf; cases hf; rfl
  | wakeTok p => simp only [fire] at hf; split at hf <;> cases hf; rfl
  | wakeCtx p => simp only [fire] at hf; split at hf <;> cases hf; rfl
  | relockTok p => simp only [fire] at hf; split at hf <;> cases hf; exact tryAdd_stopped _ _ _ _
  | relockCtx p =>
    simp only [fire] at hf
    split at hf
    · cases hf
      simp only [refuse]
      unfold ctxCleanup
      split
      · rfl
      · exact (condSignal_fields s).2.2.2.1
    · cases hf
  | getRes p =>
    simp only [fire] at hf
    split at hf
    · split at hf <;> cases hf; rfl
    · cases hf
  | resCtx p => simp only [fire] at hf; split at hf <;> cases hf; rfl
  | read c =>
    simp only [fire] at hf
    split at hf
    · cases hf
    · split at hf
      · rename_i s1 hp; cases hf
        obtain ⟨id, el, t, _, rfl⟩ := pop_some hp
        rfl
      · split at hf <;> cases hf <;> rfl
  | recheck c =>
    simp only [fire] at hf
    split at hf
    · split at hf
      · rename_i s1 hp; cases hf
        obtain ⟨id, el, t, _, rfl⟩ := pop_some hp
        rfl
      · split at hf <;> cases hf <;> rfl
    · cases hf
  | complete id e =>
    simp only [fire] at hf
    split at hf
    · cases hf
      unfold finish
      simp only []
      split
      · rfl
      · rfl
    · cases hf

/-- frame: a label changes phase and cancellation flag only of its own thread; `accepted` only grows -/
theorem frame_step {k : Cfg} {s s' : St} {l : Label} (hf : fire k s l = some s') :
    (∀ q ∈ s.accepted, q ∈ s'.accepted) ∧
    (∀ p, l.tid ≠ some p → (s'.ps p).ph = (s.ps p).ph ∧ (s'.ps p).canc = (s.ps p).canc) := by
  have other : ∀ (p q : Nat) (x : P), some q ≠ some p → (upd s.ps q x p) = s.ps p := by
    intro p q x h
    exact upd_other _ _ _ _ (fun e => h (by rw [e]))
  cases l with
  | offer p el =>
    simp only [fire] at hf
    split at hf
    · split at hf
      · cases hf; exact ⟨fun q hq => hq, fun r hr => by simp [setP, other r p _ hr]⟩
      · split at hf
        · cases hf; exact ⟨fun q hq => hq, fun r hr => by simp [refuse, other r p _ hr]⟩
        · split at hf
          · cases hf; exact ⟨fun q hq => hq, fun r hr => by simp [refuse, other r p _ hr]⟩
          · cases hf
            refine ⟨tryAdd_accepted_mono _ _ _ _, fun r hr => ?_⟩
            rw [tryAdd_ps_other _ _ _ _ _ (fun e => hr (by simp [Label.tid, e]))]; simp
    · cases hf
  | cancel p => simp only [fire] at hf; cases hf; exact ⟨fun q hq => hq, fun r hr => by simp [setP, other r p _ hr]⟩
  | wakeTok p =>
    simp only [fire] at hf
    split at hf
    · cases hf; exact ⟨fun q hq => hq, fun r hr => by simp [setP, other r p _ hr]⟩
    · cases hf
  | wakeCtx p =>
    simp only [fire] at hf
    split at hf
    · cases hf; exact ⟨fun q hq => hq, fun r hr => by simp [setP, other r p _ hr]⟩
    · cases hf
  | relockTok p =>
    simp only [fire] at hf
    split at hf
    · cases hf
      refine ⟨tryAdd_accepted_mono _ _ _ _, fun r hr => ?_⟩
      rw [tryAdd_ps_other _ _ _ _ _ (fun e => hr (by simp [Label.tid, e]))]; simp
    · cases hf
  | relockCtx p =>
    simp only [fire] at hf
    split at hf
    · cases hf
      have hacc : (ctxCleanup s p).accepted = s.accepted := by
        unfold ctxCleanup; split
        · rfl
        · exact condSignal_accepted s
      refine ⟨fun q hq => by simpa [refuse, hacc] using hq, fun r hr => ?_⟩
      have hrp : r ≠ p := fun e => hr (by simp [Label.tid, e])
      simp only [refuse, upd_other _ _ _ _ hrp]
      unfold ctxCleanup
      split
      · simp
      · exact ⟨condSignal_ph s r, condSignal_canc s r⟩
    · cases hf
  | getRes p =>
    simp only [fire] at hf
    split at hf
    · split at hf
      · cases hf; exact ⟨fun q hq => hq, fun r hr => by simp [other r p _ hr]⟩
      · cases hf
    · cases hf
  | resCtx p =>
    simp only [fire] at hf
    split at hf
    · cases hf; exact ⟨fun q hq => hq, fun r hr => by simp [setP, other r p _ hr]⟩
    · cases hf
  | read c =>
    simp only [fire] at hf
    split at hf
    · cases hf
    · split at hf
      · rename_i s1 hp; cases hf
        obtain ⟨id, el, t, _, rfl⟩ := pop_some hp
        exact ⟨fun q hq => hq, fun r _ => ⟨rfl, rfl⟩⟩
      · split at hf <;> cases hf <;> exact ⟨fun q hq => hq, fun r _ => ⟨rfl, rfl⟩⟩
  | recheck c =>
    simp only [fire] at hf
    split at hf
    · split at hf
      · rename_i s1 hp; cases hf
        obtain ⟨id, el, t, _, rfl⟩ := pop_some hp
        exact ⟨fun q hq => hq, fun r _ => ⟨rfl, rfl⟩⟩
      · split at hf
        · cases hf; exact ⟨fun q hq => hq, fun r _ => ⟨rfl, rfl⟩⟩
        · cases hf; exact ⟨fun q hq => hq, fun r _ => ⟨rfl, rfl⟩⟩
    · cases hf
  | complete id e =>
    simp only [fire] at hf
    split at hf
    · cases hf
      unfold finish
      simp only []
      split
      · exact ⟨fun q hq => hq, fun r _ => ⟨condBroadcast_ph _ r, condBroadcast_canc _ r⟩⟩
      · exact ⟨fun q hq => hq, fun r _ => ⟨condBroadcast_ph _ r, condBroadcast_canc _ r⟩⟩
    · cases hf
  | shutdown =>
    simp only [fire] at hf; cases hf
    exact ⟨fun q hq => hq, fun r _ => ⟨condBroadcast_ph _ r, condBroadcast_canc _ r⟩⟩

/-- labels of a drain: the goroutines' own steps plus consumers reading and completing; no new Offer, no
cancellation, no shutdown -/
def Label.drain : Label → Bool
  | .offer _ _ | .cancel _ | .shutdown => false
  | _ => true

/-- a producer waiting for space whose context has not ended, or already enqueued -/
def Tracked (s : St) (p : Nat) : Prop :=
  (((s.ps p).ph = .sel ∨ (s.ps p).ph = .wokenTok) ∧ (s.ps p).canc = false ∧ s.stopped = false) ∨ p ∈ s.accepted

theorem tracked_step {k : Cfg} {s s' : St} {l : Label} {p : Nat} (hC : InvC k s) (hl : l.drain = true)
    (hf : fire k s l = some s') (ht : Tracked s p) : Tracked s' p := by
  obtain ⟨hmono, hframe⟩ := frame_step hf
  cases ht with
  | inr hacc => exact Or.inr (hmono p hacc)
  | inl hh =>
  obtain ⟨hph, hcn, hrun⟩ := hh
  have hnsd : l ≠ .shutdown := by intro e; subst e; simp [Label.drain] at hl
  have hrun' : s'.stopped = false := by rw [stopped_step hf hnsd]; exact hrun
  have hother : l.tid ≠ some p → Tracked s' p := by
    intro htid
    obtain ⟨e1, e2⟩ := hframe p htid
    exact Or.inl ⟨by rw [e1]; exact hph, by rw [e2]; exact hcn, hrun'⟩
  cases Classical.em (l.tid = some p) with
  | inr htid => exact hother htid
  | inl htid =>
  cases l with
  | offer q el => simp [Label.drain] at hl
  | cancel q => simp [Label.drain] at hl
  | shutdown => simp [Label.tid] at htid
  | read c => simp [Label.tid] at htid
  | recheck c => simp [Label.tid] at htid
  | complete id e => simp [Label.tid] at htid
  | wakeTok q =>
    simp only [Label.tid, Option.some.injEq] at htid; subst htid
    simp only [fire] at hf
    split at hf
    · cases hf; exact Or.inl ⟨by simp [setP], by simpa [setP] using hcn, hrun⟩
    · cases hf
  | wakeCtx q =>
    simp only [Label.tid, Option.some.injEq] at htid; subst htid
    simp only [fire] at hf
    split at hf
    · rename_i h; rw [hcn] at h; simp at h
    · cases hf
  | relockTok q =>
    simp only [Label.tid, Option.some.injEq] at htid; subst htid
    simp only [fire] at hf
    split at hf
    · rename_i h; cases hf
      have hb := (hC.elOk q (Or.inr (Or.inl h))).2.2
      unfold tryAdd
      simp only [hrun, Bool.false_eq_true, if_false]
      split
      · exact Or.inl ⟨by simp [register], by simpa [register] using hcn, hrun⟩
      · exact Or.inr (by simp [accept])
    · cases hf
  | relockCtx q =>
    simp only [Label.tid, Option.some.injEq] at htid; subst htid
    simp only [fire] at hf
    split at hf
    · rename_i h; rcases hph with a | a <;> rw [a] at h <;> cases h
    · cases hf
  | getRes q =>
    simp only [Label.tid, Option.some.injEq] at htid; subst htid
    simp only [fire] at hf
    split at hf
    · rename_i h; rcases hph with a | a <;> rw [a] at h <;> cases h
    · cases hf
  | resCtx q =>
    simp only [Label.tid, Option.some.injEq] at htid; subst htid
    simp only [fire] at hf
    split at hf
    · rename_i h; have h1 := h.1; rcases hph with a | a <;> rw [a] at h1 <;> cases h1
    · cases hf

end OtelVerif.C02
