import OtelVerif.Model.C02P
import OtelVerif.Lemmas.C02
/-! invariants of the persistent-queue LTS (`pfire`), reusing the transformer lemmas of the memory queue -/
namespace OtelVerif.C02

theorem preachable_induction (k : Cfg) (I : St → Prop) (h0 : I {})
    (hstep : ∀ s l s', I s → pfire k s l = some s' → I s') : ∀ s, PReachable k s → I s := by
  intro s ⟨ls, hr⟩
  have : ∀ (ls : List Label) (s0 : St), I s0 → prunSched k s0 ls = some s → I s := by
    intro ls
    induction ls with
    | nil => intro s0 h0 hr; simp [prunSched] at hr; exact hr ▸ h0
    | cons l ls ih =>
      intro s0 h0 hr
      simp only [prunSched] at hr
      cases hf : pfire k s0 l with
      | none => simp [hf] at hr
      | some s1 => simp [hf] at hr; exact ih s1 (hstep s0 l s1 h0 hf) hr
  exact this ls {} h0 hr

theorem ppop_some {s s' : St} (h : ppop s = some s') :
    ∃ s1, pop s = some s1 ∧ (s' = s1 ∨ (s1.items = [] ∧ s' = condBroadcast { s1 with size := 0 })) := by
  unfold ppop at h
  cases hp : pop s with
  | none => simp [hp] at h
  | some s1 =>
    simp only [hp, Option.some.injEq] at h
    refine ⟨s1, rfl, ?_⟩
    by_cases he : s1.items.isEmpty = true
    · right; rw [if_pos he] at h; exact ⟨List.isEmpty_iff.mp he, h.symm⟩
    · left; rw [if_neg he] at h; exact h.symm

theorem ppop_none {s : St} (h : ppop s = none) : s.items = [] := by
  unfold ppop at h
  cases hp : pop s with
  | none => exact pop_none hp
  | some s1 => simp [hp] at h

/-! ### group H -/

theorem InvH.paccept {s : St} {p : Nat} {el : Int} (h : InvH s) (ho : (s.ps p).ph.open) : InvH (paccept s p el) := by
  obtain ⟨hna, hnr⟩ := h.open_not_acc ho
  refine ⟨?_, ?_, ?_, ?_, ?_⟩
  · simp only [OtelVerif.C02.paccept, List.map_append, List.map_cons, List.map_nil, ← List.append_assoc, h.fifo]
  · intro q hq
    simp only [OtelVerif.C02.paccept, List.mem_append, List.mem_singleton] at hq ⊢
    by_cases hqp : q = p
    · subst hqp; simp
    · rw [upd_other _ _ _ _ hqp]
      rcases hq with hq | hq
      · exact h.accPh q hq
      · exact absurd hq hqp
  · intro q hq
    simp only [OtelVerif.C02.paccept] at hq ⊢
    have hqp : q ≠ p := fun e => hnr (e ▸ hq)
    rw [upd_other _ _ _ _ hqp]
    exact h.refPh q hq
  · simp only [OtelVerif.C02.paccept]
    exact List.nodup_append.mpr ⟨h.accNodup, by simp, by
      intro a ha b hb
      simp at hb
      subst hb
      exact fun e => hna (e ▸ ha)⟩
  · intro q hq
    simp only [OtelVerif.C02.paccept, List.mem_append, List.mem_singleton, not_or] at hq ⊢
    exact ⟨h.refAcc q hq, fun e => hnr (e ▸ hq)⟩

theorem InvH.ptryAdd {k : Cfg} {s : St} {p : Nat} {el : Int} (h : InvH s) (ho : (s.ps p).ph.open) : InvH (ptryAdd k s p el) := by
  unfold OtelVerif.C02.ptryAdd
  split
  · split
    · split
      · exact h.refuse ho
      · exact h.register ho
    · exact h.refuse ho
  · exact h.paccept ho

theorem InvH.ppop {s s' : St} (h : InvH s) (hp : ppop s = some s') : InvH s' := by
  obtain ⟨s1, h1, h2 | ⟨_, h2⟩⟩ := ppop_some hp
  · rw [h2]; exact h.pop h1
  · rw [h2]
    have h0 : InvH { s1 with size := 0 } := (h.pop h1).of_ps rfl rfl rfl rfl (fun q => Or.inl rfl)
    exact h0.condBroadcast

theorem InvH.pfinish {s : St} {id : Nat} {el : Int} {e : Nat} (h : InvH s) : InvH (pfinish s id el e) := by
  unfold OtelVerif.C02.pfinish
  have h0 : InvH { s with size := (if s.size - el < 0 then 0 else s.size - el),
                          inflight := s.inflight.filter (fun x => x.1 != id), finished := s.finished ++ [id],
                          outcomes := s.outcomes ++ [(id, e)] } := h.of_ps rfl rfl rfl rfl (fun q => Or.inl rfl)
  exact h0.condBroadcast

theorem InvH.pstep {k : Cfg} {s s' : St} {l : Label} (h : InvH s) (hf : pfire k s l = some s') : InvH s' := by
  cases l with
  | offer p el =>
    simp only [pfire] at hf
    split at hf
    · rename_i hc; cases hf; exact h.ptryAdd (hc.1 ▸ Ph.open_idle)
    · cases hf
  | cancel p => simp only [pfire] at hf; cases hf; exact h.setPh (Or.inl rfl)
  | wakeTok p =>
    simp only [pfire] at hf
    split at hf
    · rename_i hc; cases hf; exact h.setPh (Or.inr (Or.inl (hc.1 ▸ Ph.open_sel)))
    · cases hf
  | wakeCtx p =>
    simp only [pfire] at hf
    split at hf
    · rename_i hc; cases hf; exact h.setPh (Or.inr (Or.inl (hc.1 ▸ Ph.open_sel)))
    · cases hf
  | relockTok p =>
    simp only [pfire] at hf
    split at hf
    · rename_i hc; cases hf; exact h.ptryAdd (hc ▸ Ph.open_wokenTok)
    · cases hf
  | relockCtx p =>
    simp only [pfire] at hf
    split at hf
    · rename_i hc
      cases hf
      have h1 : InvH (ctxCleanup s p) := by
        unfold ctxCleanup
        split
        · exact h.of_ps rfl rfl rfl rfl (fun q => Or.inl rfl)
        · exact h.condSignal
      refine h1.refuse ?_
      have : ((ctxCleanup s p).ps p).ph = (s.ps p).ph := by
        unfold ctxCleanup
        split
        · rfl
        · exact condSignal_ph s p
      rw [this, hc]; exact Ph.open_wokenCtx
    · cases hf
  | getRes p => simp [pfire] at hf
  | resCtx p => simp [pfire] at hf
  | read c =>
    simp only [pfire] at hf
    split at hf
    · cases hf
    · split at hf
      · cases hf; exact h
      · split at hf
        · rename_i s1 hp; cases hf; exact h.ppop hp
        · cases hf; exact h.of_ps rfl rfl rfl rfl (fun q => Or.inl rfl)
  | recheck c =>
    simp only [pfire] at hf
    split at hf
    · split at hf
      · cases hf; exact h.of_ps rfl rfl rfl rfl (fun q => Or.inl rfl)
      · split at hf
        · rename_i s1 hp; cases hf
          exact (h.ppop hp).of_ps rfl rfl rfl rfl (fun q => Or.inl rfl)
        · cases hf; exact h.of_ps rfl rfl rfl rfl (fun q => Or.inl rfl)
    · cases hf
  | complete id e =>
    simp only [pfire] at hf
    split at hf
    · cases hf; exact h.pfinish
    · cases hf
  | shutdown => simp only [pfire] at hf; cases hf; exact h.of_ps rfl rfl rfl rfl (fun q => Or.inl rfl)

end OtelVerif.C02

namespace OtelVerif.C02

/-! ### group C -/

theorem InvC.ptryAdd {k : Cfg} {s : St} {p : Nat} {el : Int} (h : InvC k s) (hw : p ∉ s.waiters)
    (hsz : s.size ≤ k.cap) : InvC k (ptryAdd k s p el) := by
  unfold OtelVerif.C02.ptryAdd
  split
  · split
    · rename_i hb
      split
      · exact h.retire (x := { s.ps p with ph := .done .tooLarge, sig := false }) rfl rfl hw (by simp [Ph.inCond]) rfl
      · exact h.register hw ⟨by omega, by omega, hb⟩
    · exact h.retire (x := { s.ps p with ph := .done .full, sig := false }) rfl rfl hw (by simp [Ph.inCond]) rfl
  · exact h.retire (x := { s.ps p with ph := .done .ok, el := el, sig := false }) rfl rfl hw (by simp [Ph.inCond]) rfl

theorem InvC.ppop {k : Cfg} {s s' : St} (h : InvC k s) (hp : ppop s = some s') : InvC k s' := by
  obtain ⟨s1, h1, h2 | ⟨_, h2⟩⟩ := ppop_some hp
  · obtain ⟨id, el, t, _, rfl⟩ := pop_some h1
    rw [h2]; exact h.congr rfl rfl
  · obtain ⟨id, el, t, _, rfl⟩ := pop_some h1
    rw [h2]
    have h0 : InvC k { ({ s with items := t, inflight := s.inflight ++ [(id, el)], handed := s.handed ++ [id] } : St) with size := 0 } :=
      h.congr rfl rfl
    exact h0.condBroadcast

theorem InvC.pfinish {k : Cfg} {s : St} {id : Nat} {el : Int} {e : Nat} (h : InvC k s) : InvC k (pfinish s id el e) := by
  unfold OtelVerif.C02.pfinish
  have h0 : InvC k { s with size := (if s.size - el < 0 then 0 else s.size - el),
                            inflight := s.inflight.filter (fun x => x.1 != id), finished := s.finished ++ [id],
                            outcomes := s.outcomes ++ [(id, e)] } := h.congr rfl rfl
  exact h0.condBroadcast

theorem InvC.pstep {k : Cfg} {s s' : St} {l : Label} (h : InvC k s) (hsz : s.size ≤ k.cap)
    (hf : pfire k s l = some s') : InvC k s' := by
  cases l with
  | offer p el =>
    simp only [pfire] at hf
    split at hf
    · rename_i hc; cases hf
      exact h.ptryAdd (h.not_waiter (Or.inl (by rw [hc.1]; simp))) hsz
    · cases hf
  | cancel p => simp only [pfire] at hf; cases hf; exact h.sameP (x := { s.ps p with canc := true }) rfl rfl rfl rfl rfl
  | wakeTok p =>
    simp only [pfire] at hf
    split at hf
    · rename_i hc
      cases hf
      have hw : p ∉ s.waiters := h.not_waiter (Or.inr hc.2)
      refine h.upd1 (x := { s.ps p with ph := .wokenTok }) rfl rfl ?_ ?_ ?_ ?_
      · simp [hw]
      · intro _; simp [Ph.inCond]
      · intro _; exact hc.2
      · intro _; exact h.elOk p (Or.inl hc.1)
    · cases hf
  | wakeCtx p =>
    simp only [pfire] at hf
    split at hf
    · rename_i hc
      cases hf
      refine h.upd1 (x := { s.ps p with ph := .wokenCtx }) rfl rfl ?_ ?_ ?_ ?_
      · have := h.wIff p
        rw [hc.1] at this
        simpa using this
      · intro _; simp [Ph.inCond]
      · intro a; simp at a
      · intro _; exact h.elOk p (Or.inl hc.1)
    · cases hf
  | relockTok p =>
    simp only [pfire] at hf
    split at hf
    · rename_i hc
      cases hf
      exact h.ptryAdd (h.not_waiter (Or.inr (h.tokSig p hc))) hsz
    · cases hf
  | relockCtx p =>
    simp only [pfire] at hf
    split at hf
    · rename_i hc; cases hf; exact h.relockCtx hc
    · cases hf
  | getRes p => simp [pfire] at hf
  | resCtx p => simp [pfire] at hf
  | read c =>
    simp only [pfire] at hf
    split at hf
    · cases hf
    · split at hf
      · cases hf; exact h
      · split at hf
        · rename_i s1 hp; cases hf; exact h.ppop hp
        · cases hf; exact h.congr rfl rfl
  | recheck c =>
    simp only [pfire] at hf
    split at hf
    · split at hf
      · cases hf; exact h.congr rfl rfl
      · split at hf
        · rename_i s1 hp; cases hf; exact (h.ppop hp).congr rfl rfl
        · cases hf; exact h.congr rfl rfl
    · cases hf
  | complete id e =>
    simp only [pfire] at hf
    split at hf
    · cases hf; exact h.pfinish
    · cases hf
  | shutdown => simp only [pfire] at hf; cases hf; exact h.congr rfl rfl

/-! ### group Z (persistent): the reported size is a lower bound of the unfinished total, within [0, cap] -/

theorem sumSz_nonneg0 (l : List (Nat × Int)) (h : ∀ x ∈ l, 0 ≤ x.2) : 0 ≤ sumSz l := by
  induction l with
  | nil => simp [sumSz]
  | cons x xs ih =>
    have h1 := h x (by simp)
    have h2 := ih (fun y hy => h y (by simp [hy]))
    simp only [sumSz]; omega

structure InvZp (k : Cfg) (s : St) : Prop where
  szLe : s.size ≤ sumSz s.items + sumSz s.inflight
  nonneg : 0 ≤ s.size
  posI : ∀ x ∈ s.items, 0 ≤ x.2
  posF : ∀ x ∈ s.inflight, 0 ≤ x.2
  le : s.size ≤ k.cap
  hperm : s.handed.Perm (s.finished ++ s.inflight.map Prod.fst)

theorem InvZp.congr {k : Cfg} {s s' : St} (h : InvZp k s) (e1 : s'.items = s.items) (e2 : s'.inflight = s.inflight)
    (e3 : s'.size = s.size) (e4 : s'.handed = s.handed) (e5 : s'.finished = s.finished) : InvZp k s' :=
  ⟨by rw [e1, e2, e3]; exact h.szLe, by rw [e3]; exact h.nonneg, by rw [e1]; exact h.posI, by rw [e2]; exact h.posF,
   by rw [e3]; exact h.le, by rw [e2, e4, e5]; exact h.hperm⟩

theorem InvZp.ptryAdd {k : Cfg} {s : St} {p : Nat} {el : Int} (h : InvZp k s) (h0 : 0 ≤ el) : InvZp k (ptryAdd k s p el) := by
  unfold OtelVerif.C02.ptryAdd
  split
  · split
    · split
      · exact h.congr rfl rfl rfl rfl rfl
      · exact h.congr rfl rfl rfl rfl rfl
    · exact h.congr rfl rfl rfl rfl rfl
  · rename_i hle
    refine ⟨?_, ?_, ?_, h.posF, ?_, h.hperm⟩
    · simp only [OtelVerif.C02.paccept, sumSz_append, sumSz]
      have := h.szLe
      omega
    · simp only [OtelVerif.C02.paccept]; have := h.nonneg; omega
    · intro x hx
      simp only [OtelVerif.C02.paccept, List.mem_append, List.mem_singleton] at hx
      rcases hx with hx | hx
      · exact h.posI x hx
      · subst hx; exact h0
    · simp only [OtelVerif.C02.paccept]; omega

theorem InvZp.pop {k : Cfg} {s s' : St} (h : InvZp k s) (hp : pop s = some s') : InvZp k s' := by
  obtain ⟨id, el, t, hi, rfl⟩ := pop_some hp
  have hpi := h.posI
  rw [hi] at hpi
  refine ⟨?_, h.nonneg, fun x hx => hpi x (by simp [hx]), ?_, h.le, ?_⟩
  · have := h.szLe
    rw [hi] at this
    simp only [sumSz_append, sumSz] at this ⊢
    omega
  · intro x hx
    simp only [List.mem_append, List.mem_singleton] at hx
    rcases hx with hx | hx
    · exact h.posF x hx
    · subst hx; exact hpi (id, el) (by simp)
  · simp only [List.map_append, List.map_cons, List.map_nil, ← List.append_assoc]
    exact h.hperm.append_right [id]

theorem InvZp.ppop {k : Cfg} {s s' : St} (h : InvZp k s) (hp : ppop s = some s') : InvZp k s' := by
  obtain ⟨s1, h1, h2 | ⟨_, h2⟩⟩ := ppop_some hp
  · rw [h2]; exact h.pop h1
  · rw [h2]
    have hz := h.pop h1
    have h0 : InvZp k { s1 with size := 0 } := by
      refine ⟨?_, Int.le_refl 0, hz.posI, hz.posF, ?_, hz.hperm⟩
      · have := sumSz_nonneg0 _ hz.posI
        have := sumSz_nonneg0 _ hz.posF
        simp only []; omega
      · have := hz.nonneg; have := hz.le; simp only []; omega
    obtain ⟨c1, c2, c3, _, _, _, _, _, c9, c10, _⟩ := condBroadcast_fields { s1 with size := 0 }
    exact h0.congr c1 c2 c3 c9 c10

theorem InvZp.inflight_keys_nodup {k : Cfg} {s : St} (h : InvZp k s) (hH : InvH s) : (s.inflight.map Prod.fst).Nodup := by
  have := (h.hperm.nodup_iff).mp hH.handed_nodup
  exact (List.nodup_append.mp this).2.1

theorem InvZp.pfinish {k : Cfg} {s : St} {id : Nat} {el : Int} {e : Nat} (h : InvZp k s) (hH : InvH s)
    (hl : s.inflight.lookup id = some el) : InvZp k (pfinish s id el e) := by
  obtain ⟨r1, r2, r3⟩ := remove_key s.inflight id el (h.inflight_keys_nodup hH) hl
  have hel : 0 ≤ el := h.posF _ r3
  have hposF' : ∀ x ∈ s.inflight.filter (fun x => x.1 != id), 0 ≤ x.2 := fun x hx => h.posF x (List.mem_filter.mp hx).1
  have h0 : InvZp k { s with size := (if s.size - el < 0 then 0 else s.size - el),
                             inflight := s.inflight.filter (fun x => x.1 != id),
                             finished := s.finished ++ [id], outcomes := s.outcomes ++ [(id, e)] } := by
    have hs1 := sumSz_nonneg0 _ h.posI
    have hs2 := sumSz_nonneg0 _ hposF'
    have hszle := h.szLe
    have hle := h.le
    have hnn := h.nonneg
    refine ⟨?_, ?_, h.posI, hposF', ?_, ?_⟩
    · simp only [r1]; split <;> omega
    · simp only []; split <;> omega
    · simp only []; split <;> omega
    · simp only [List.append_assoc, List.singleton_append]
      exact h.hperm.trans (List.Perm.append_left _ r2)
  unfold OtelVerif.C02.pfinish
  obtain ⟨c1, c2, c3, _, _, _, _, _, c9, c10, _⟩ := condBroadcast_fields
    { s with size := (if s.size - el < 0 then 0 else s.size - el), inflight := s.inflight.filter (fun x => x.1 != id),
             finished := s.finished ++ [id], outcomes := s.outcomes ++ [(id, e)] }
  exact h0.congr c1 c2 c3 c9 c10

theorem InvZp.pstep {k : Cfg} {s s' : St} {l : Label} (h : InvZp k s) (hH : InvH s) (hC : InvC k s)
    (hf : pfire k s l = some s') : InvZp k s' := by
  cases l with
  | offer p el =>
    simp only [pfire] at hf
    split at hf
    · rename_i hc; cases hf; exact h.ptryAdd hc.2.1
    · cases hf
  | cancel p => simp only [pfire] at hf; cases hf; exact h.congr rfl rfl rfl rfl rfl
  | wakeTok p =>
    simp only [pfire] at hf
    split at hf
    · cases hf; exact h.congr rfl rfl rfl rfl rfl
    · cases hf
  | wakeCtx p =>
    simp only [pfire] at hf
    split at hf
    · cases hf; exact h.congr rfl rfl rfl rfl rfl
    · cases hf
  | relockTok p =>
    simp only [pfire] at hf
    split at hf
    · rename_i hc; cases hf; exact h.ptryAdd (Int.le_of_lt (hC.elOk p (Or.inr (Or.inl hc))).1)
    · cases hf
  | relockCtx p =>
    simp only [pfire] at hf
    split at hf
    · cases hf
      obtain ⟨c1, c2, c3, c4, c5, _, _⟩ := ctxCleanup_fields s p
      exact h.congr c1 c2 c3 c4 c5
    · cases hf
  | getRes p => simp [pfire] at hf
  | resCtx p => simp [pfire] at hf
  | read c =>
    simp only [pfire] at hf
    split at hf
    · cases hf
    · split at hf
      · cases hf; exact h
      · split at hf
        · rename_i s1 hp; cases hf; exact h.ppop hp
        · cases hf; exact h.congr rfl rfl rfl rfl rfl
  | recheck c =>
    simp only [pfire] at hf
    split at hf
    · split at hf
      · cases hf; exact h.congr rfl rfl rfl rfl rfl
      · split at hf
        · rename_i s1 hp; cases hf; exact (h.ppop hp).congr rfl rfl rfl rfl rfl
        · cases hf; exact h.congr rfl rfl rfl rfl rfl
    · cases hf
  | complete id e =>
    simp only [pfire] at hf
    split at hf
    · rename_i el hl; cases hf; exact h.pfinish hH hl
    · cases hf
  | shutdown => simp only [pfire] at hf; cases hf; exact h.congr rfl rfl rfl rfl rfl

theorem InvZp.init (k : Cfg) (hk : 0 ≤ k.cap) : InvZp k {} :=
  ⟨by simp [sumSz], Int.le_refl 0, by simp, by simp, hk, by simp⟩

end OtelVerif.C02

namespace OtelVerif.C02

/-! ### group W (persistent): a registered waiter always has a completion or a signal still to come -/

def InvWp (s : St) : Prop := s.waiters ≠ [] → (s.items ≠ [] ∨ s.inflight ≠ []) ∨ ∃ p, (s.ps p).sig = true

theorem InvWp.of_sig {s s' : St} (h : InvWp s) (h1 : s'.waiters = s.waiters)
    (h2 : (s.items ≠ [] ∨ s.inflight ≠ []) → (s'.items ≠ [] ∨ s'.inflight ≠ []))
    (h3 : ∀ q, (s.ps q).sig = true → (s'.ps q).sig = true) : InvWp s' := by
  intro hw
  rw [h1] at hw
  rcases h hw with a | ⟨q, a⟩
  · exact Or.inl (h2 a)
  · exact Or.inr ⟨q, h3 q a⟩

theorem unfinished_of_pos {k : Cfg} {s : St} (hZ : InvZp k s) (h : 0 < s.size) : s.items ≠ [] ∨ s.inflight ≠ [] := by
  cases hi : s.items with
  | cons x t => exact Or.inl (by simp)
  | nil =>
    cases hf : s.inflight with
    | cons x t => exact Or.inr (by simp)
    | nil =>
      have := hZ.szLe
      rw [hi, hf] at this
      simp [sumSz] at this
      omega

theorem InvWp.ptryAdd_pos {k : Cfg} {s : St} {p : Nat} {el : Int} (hZ : InvZp k s) (h : InvWp s)
    (hsf : (s.ps p).sig = false ∨ (k.block = true ∧ el ≤ k.cap)) : InvWp (ptryAdd k s p el) := by
  have keep : ∀ r, (s.ps p).sig = false → InvWp (refuse s p r) := by
    intro r hs
    refine h.of_sig rfl (fun a => a) ?_
    intro q hq
    by_cases hqp : q = p
    · subst hqp; rw [hs] at hq; cases hq
    · simpa [refuse, upd_other _ _ _ _ hqp] using hq
  unfold ptryAdd
  split
  · rename_i hgt
    split
    · rename_i hb
      split
      · rename_i hbig
        rcases hsf with a | ⟨_, a⟩
        · exact keep _ a
        · omega
      · intro _
        exact Or.inl (by
          have : 0 < s.size := by omega
          simpa [register] using unfinished_of_pos hZ this)
    · rename_i hb
      rcases hsf with a | ⟨a, _⟩
      · exact keep _ a
      · exact absurd a hb
  · intro _
    exact Or.inl (Or.inl (by simp [paccept]))

theorem InvWp.pstep {k : Cfg} {s s' : St} {l : Label} (h : InvWp s) (hC : InvC k s) (hZ : InvZp k s)
    (hf : pfire k s l = some s') : InvWp s' := by
  have sameSig : ∀ (p : Nat) (x : P), x.sig = (s.ps p).sig → InvWp (setP s p x) := by
    intro p x hx
    refine h.of_sig rfl (fun a => a) ?_
    intro q hq
    by_cases hqp : q = p
    · subst hqp; simpa [setP, hx] using hq
    · simpa [setP, upd_other _ _ _ _ hqp] using hq
  cases l with
  | offer p el =>
    simp only [pfire] at hf
    split at hf
    · rename_i hc; cases hf
      exact InvWp.ptryAdd_pos hZ h (Or.inl (hC.sig_false (by rw [hc.1]; simp [Ph.inCond])))
    · cases hf
  | cancel p => simp only [pfire] at hf; cases hf; exact sameSig p _ rfl
  | wakeTok p =>
    simp only [pfire] at hf
    split at hf
    · cases hf; exact sameSig p _ rfl
    · cases hf
  | wakeCtx p =>
    simp only [pfire] at hf
    split at hf
    · cases hf; exact sameSig p _ rfl
    · cases hf
  | relockTok p =>
    simp only [pfire] at hf
    split at hf
    · rename_i hc; cases hf
      have hel := hC.elOk p (Or.inr (Or.inl hc))
      exact InvWp.ptryAdd_pos hZ h (Or.inr ⟨hel.2.2, hel.2.1⟩)
    · cases hf
  | relockCtx p =>
    simp only [pfire] at hf
    split at hf
    · rename_i hc; cases hf
      unfold ctxCleanup
      split
      · rename_i hw
        have hsf := ((hC.wIff p).mp hw).2
        intro _
        rcases h (List.ne_nil_of_mem hw) with a | ⟨q, a⟩
        · exact Or.inl a
        · right
          have hqp : q ≠ p := by intro e; rw [e, hsf] at a; cases a
          exact ⟨q, by simpa [refuse, upd_other _ _ _ _ hqp] using a⟩
      · rename_i hw
        intro hne
        obtain ⟨w, hw1, hw2⟩ := condSignal_W s hne
        right
        have hwp : w ≠ p := fun e => hw (e ▸ hw1)
        exact ⟨w, by simpa [refuse, upd_other _ _ _ _ hwp] using hw2⟩
    · cases hf
  | getRes p => simp [pfire] at hf
  | resCtx p => simp [pfire] at hf
  | read c =>
    simp only [pfire] at hf
    split at hf
    · cases hf
    · split at hf
      · cases hf; exact h
      · split at hf
        · rename_i s1 hp; cases hf
          obtain ⟨s2, h1, h2 | ⟨_, h2⟩⟩ := ppop_some hp
          · obtain ⟨id, el, t, _, rfl⟩ := pop_some h1
            rw [h2]; intro _; exact Or.inl (Or.inr (by simp))
          · obtain ⟨id, el, t, _, rfl⟩ := pop_some h1
            rw [h2]; intro _
            refine Or.inl (Or.inr ?_)
            rw [(condBroadcast_fields _).2.1]; simp
        · cases hf; exact h.of_sig rfl (fun a => a) (fun _ a => a)
  | recheck c =>
    simp only [pfire] at hf
    split at hf
    · split at hf
      · cases hf; exact h.of_sig rfl (fun a => a) (fun _ a => a)
      · split at hf
        · rename_i s1 hp; cases hf
          obtain ⟨s2, h1, h2 | ⟨_, h2⟩⟩ := ppop_some hp
          · obtain ⟨id, el, t, _, rfl⟩ := pop_some h1
            rw [h2]; intro _; exact Or.inl (Or.inr (by simp))
          · obtain ⟨id, el, t, _, rfl⟩ := pop_some h1
            rw [h2]; intro _
            refine Or.inl (Or.inr ?_)
            simp only []
            rw [(condBroadcast_fields _).2.1]; simp
        · cases hf; exact h.of_sig rfl (fun a => a) (fun _ a => a)
    · cases hf
  | complete id e =>
    simp only [pfire] at hf
    split at hf
    · rename_i el _; cases hf
      unfold pfinish
      intro hne
      exact absurd rfl hne
    · cases hf
  | shutdown => simp only [pfire] at hf; cases hf; exact h.of_sig rfl (fun a => a) (fun _ a => a)

theorem InvWp.init : InvWp {} := by intro h; simp at h

structure Invp (k : Cfg) (s : St) : Prop where
  H : InvH s
  C : InvC k s
  Z : InvZp k s
  W : InvWp s

theorem Invp.reachable {k : Cfg} (hk : 0 ≤ k.cap) {s : St} (hr : PReachable k s) : Invp k s := by
  refine preachable_induction k (Invp k) ⟨InvH.init, InvC.init k, InvZp.init k hk, InvWp.init⟩ ?_ s hr
  intro s l s' h hf
  exact ⟨h.H.pstep hf, h.C.pstep h.Z.le hf, h.Z.pstep h.H h.C hf, h.W.pstep h.C h.Z hf⟩

/-- the persistent queue is at rest: no goroutine can take a step of its own (moved here from `Props/C02.lean` so that
lemma files can use it; definition unchanged) -/
def PQuiescent (k : Cfg) (s : St) : Prop := ∀ l, Label.internal l = true → pfire k s l = none

end OtelVerif.C02
