import OtelVerif.Lemmas.C02PLive
import OtelVerif.Lemmas.C02A
import OtelVerif.Lemmas.C02Fair
/-!
# C02, persistent queue: the drain potential along fair runs

`Omega` (3 per producer inside `cond.Wait`, 2 per queued request, 1 per request in flight) never grows under the goroutines' own
steps, consumer reads and completions of `pfire`, and strictly drops when a request is taken or completed; between two drops the
ranking `PPhi` of `Lemmas/C02PLive.lean` does not grow and strictly drops at every goroutine step.
-/
namespace OtelVerif.C02

/-- queued requests count twice (they still have to be taken and completed), requests in flight once -/
def backlog (s : St) : Nat := 2 * s.items.length + s.inflight.length

theorem omega_eq (L : List Nat) (s : St) : Omega L s = sumF omg s.ps L + backlog s := by
  simp only [Omega, backlog]; omega

/-- one thread changes: bookkeeping for `omg` -/
theorem one_othread {L : List Nat} {s s' : St} {p : Nat} {x : P} {c d : Nat} (hc : Covers L s) (hp : (s.ps p).ph ≠ .idle)
    (h1 : s'.ps = upd s.ps p x) (hc' : omg (s.ps p) = c) (hd : omg x = d) :
    sumF omg s'.ps L + c = sumF omg s.ps L + d := by
  rw [h1, ← hc', ← hd]; exact upd_sums hc p x hp omg

theorem ptryAdd_omg {k : Cfg} {L : List Nat} {s : St} {p : Nat} {el : Int} (hc : Covers L s) (hp : (s.ps p).ph = .wokenTok) :
    sumF omg (ptryAdd k s p el).ps L ≤ sumF omg s.ps L ∧ Omega L (ptryAdd k s p el) ≤ Omega L s := by
  have hni : (s.ps p).ph ≠ .idle := by rw [hp]; simp
  have h3 : omg (s.ps p) = 3 := by simp [omg, hp]
  unfold ptryAdd
  split
  · split
    · split
      · have b := one_othread (s' := refuse s p .tooLarge) (x := ⟨.done .tooLarge, (s.ps p).el, false, (s.ps p).canc⟩) hc hni rfl h3
          (d := 0) (by simp [omg])
        exact ⟨by omega, by simp only [Omega, refuse] at b ⊢; omega⟩
      · have b := one_othread (s' := register s p el) (x := ⟨.sel, el, false, (s.ps p).canc⟩) hc hni rfl h3 (d := 3) (by simp [omg])
        exact ⟨by omega, by simp only [Omega, register] at b ⊢; omega⟩
    · have b := one_othread (s' := refuse s p .full) (x := ⟨.done .full, (s.ps p).el, false, (s.ps p).canc⟩) hc hni rfl h3
        (d := 0) (by simp [omg])
      exact ⟨by omega, by simp only [Omega, refuse] at b ⊢; omega⟩
  · have b := one_othread (s' := paccept s p el) (x := ⟨.done .ok, el, false, (s.ps p).canc⟩) hc hni rfl h3 (d := 0) (by simp [omg])
    exact ⟨by omega, by simp only [Omega, paccept, List.length_append, List.length_cons, List.length_nil] at b ⊢; omega⟩

theorem condBroadcast_omg (L : List Nat) (s : St) : sumF omg (condBroadcast s).ps L = sumF omg s.ps L :=
  sumF_congr omg _ _ L (fun p => by unfold omg; rw [condBroadcast_ph])

/-- `ppop`: one request moves from the queue into flight -/
theorem ppop_omega {L : List Nat} {s s1 : St} (hc : Covers L s) (hp : ppop s = some s1) :
    Covers L s1 ∧ sumF omg s1.ps L = sumF omg s.ps L ∧ backlog s1 + 1 = backlog s ∧ s1.cwoken = s.cwoken := by
  obtain ⟨s0, hp0, e⟩ := ppop_some hp
  obtain ⟨id, el, t, hi, rfl⟩ := pop_some hp0
  rcases e with rfl | ⟨_, rfl⟩
  · exact ⟨hc, rfl, by simp only [backlog, hi, List.length_append, List.length_cons, List.length_nil]; omega, rfl⟩
  · refine ⟨⟨hc.1, fun q hq => ?_⟩, condBroadcast_omg L _, ?_, rfl⟩
    · rw [condBroadcast_ph] at hq; exact hc.2 q hq
    · show 2 * t.length + (s.inflight ++ [(id, el)]).length + 1 = backlog s
      simp only [backlog, hi, List.length_append, List.length_cons, List.length_nil]; omega

/-- the goroutines' own steps never raise `Omega` nor the number of producers inside `cond.Wait` -/
theorem pinternal_step_omega {k : Cfg} {L : List Nat} {s s' : St} {l : Label} (hC : InvC k s) (hc : Covers L s)
    (hl : l.internal = true) (hf : pfire k s l = some s') :
    sumF omg s'.ps L ≤ sumF omg s.ps L ∧ Omega L s' ≤ Omega L s := by
  cases l with
  | offer p el => simp [Label.internal] at hl
  | cancel p => simp [Label.internal] at hl
  | read c => simp [Label.internal] at hl
  | complete id e => simp [Label.internal] at hl
  | shutdown => simp [Label.internal] at hl
  | getRes p => simp [pfire] at hf
  | resCtx p => simp [pfire] at hf
  | wakeTok p =>
    simp only [pfire] at hf
    split at hf
    · rename_i h; cases hf
      have hni : (s.ps p).ph ≠ .idle := by rw [h.1]; simp
      have b := one_othread (s' := setP s p { s.ps p with ph := .wokenTok })
        (x := ⟨.wokenTok, (s.ps p).el, (s.ps p).sig, (s.ps p).canc⟩) hc hni rfl (c := 3) (by simp [omg, h.1]) (d := 3) (by simp [omg])
      exact ⟨by simp only [setP] at b ⊢; omega, by simp only [Omega, setP] at b ⊢; omega⟩
    · cases hf
  | wakeCtx p =>
    simp only [pfire] at hf
    split at hf
    · rename_i h; cases hf
      have hni : (s.ps p).ph ≠ .idle := by rw [h.1]; simp
      have b := one_othread (s' := setP s p { s.ps p with ph := .wokenCtx })
        (x := ⟨.wokenCtx, (s.ps p).el, (s.ps p).sig, (s.ps p).canc⟩) hc hni rfl (c := 3) (by simp [omg, h.1]) (d := 3) (by simp [omg])
      exact ⟨by simp only [setP] at b ⊢; omega, by simp only [Omega, setP] at b ⊢; omega⟩
    · cases hf
  | relockTok p =>
    simp only [pfire] at hf
    split at hf
    · rename_i h; cases hf; exact ptryAdd_omg hc h
    · cases hf
  | relockCtx p =>
    simp only [pfire] at hf
    split at hf
    · rename_i h; cases hf
      have hni : (s.ps p).ph ≠ .idle := by rw [h]; simp
      unfold ctxCleanup
      split
      · have b := one_othread (L := L) (s := s) (s' := refuse { s with waiters := s.waiters.erase p } p .ctxErr)
          (x := ⟨.done .ctxErr, (s.ps p).el, false, (s.ps p).canc⟩) hc hni rfl (c := 3) (by simp [omg, h]) (d := 0) (by simp [omg])
        exact ⟨by omega, by simp only [Omega, refuse] at b ⊢; omega⟩
      · obtain ⟨_, s2, s3⟩ := condSignal_sums hC hc
        have hc1 : Covers L (condSignal s) := ⟨hc.1, s3⟩
        have hph : ((condSignal s).ps p).ph = .wokenCtx := by rw [condSignal_ph]; exact h
        have hni1 : ((condSignal s).ps p).ph ≠ .idle := by rw [hph]; simp
        have b := one_othread (s' := refuse (condSignal s) p .ctxErr)
          (x := ⟨.done .ctxErr, ((condSignal s).ps p).el, false, ((condSignal s).ps p).canc⟩) hc1 hni1 rfl
          (c := 3) (by simp [omg, hph]) (d := 0) (by simp [omg])
        obtain ⟨f1, f2, _⟩ := condSignal_fields s
        exact ⟨by omega, by simp only [Omega, refuse] at b ⊢; rw [f1, f2]; omega⟩
    · cases hf
  | recheck c =>
    simp only [pfire] at hf
    split at hf
    · split at hf
      · cases hf; exact ⟨Nat.le_refl _, by simp only [Omega]; omega⟩
      · split at hf
        · rename_i s1 hp; cases hf
          obtain ⟨_, a, b, _⟩ := ppop_omega hc hp
          refine ⟨by simp only []; omega, ?_⟩
          rw [omega_eq, omega_eq]
          show sumF omg s1.ps L + backlog s1 ≤ _
          omega
        · cases hf; exact ⟨Nat.le_refl _, by simp only [Omega]; omega⟩
    · cases hf

/-- what one step of a drain of the persistent queue does to the measures -/
theorem pdrain_step_measure {k : Cfg} {L : List Nat} {s s' : St} {l : Label} (hC : InvC k s) (hc : Covers L s)
    (hl : l.drain = true) (hf : pfire k s l = some s') :
    Covers L s' ∧ sumF omg s'.ps L ≤ sumF omg s.ps L ∧ Omega L s' ≤ Omega L s ∧
    (Omega L s' < Omega L s ∨ (PPhi L s' ≤ PPhi L s ∧ backlog s' = backlog s) ∨ l.internal = true) ∧
    (l.internal = true → PPhi L s' < PPhi L s) := by
  by_cases hi : l.internal = true
  · obtain ⟨a, b⟩ := pinternal_step_measure hC hc hi hf
    obtain ⟨c, d⟩ := pinternal_step_omega hC hc hi hf
    exact ⟨a, c, d, Or.inr (Or.inr hi), fun _ => b⟩
  · cases l with
    | offer p el => simp [Label.drain] at hl
    | cancel p => simp [Label.drain] at hl
    | shutdown => simp [Label.drain] at hl
    | wakeTok p => exact absurd rfl hi
    | wakeCtx p => exact absurd rfl hi
    | relockTok p => exact absurd rfl hi
    | relockCtx p => exact absurd rfl hi
    | getRes p => exact absurd rfl hi
    | resCtx p => exact absurd rfl hi
    | recheck c => exact absurd rfl hi
    | read c =>
      simp only [pfire] at hf
      split at hf
      · cases hf
      · split at hf
        · cases hf
          exact ⟨hc, Nat.le_refl _, Nat.le_refl _, Or.inr (Or.inl ⟨Nat.le_refl _, rfl⟩), fun h => absurd h hi⟩
        · split at hf
          · rename_i s1 hp; cases hf
            obtain ⟨a, b, c', _⟩ := ppop_omega hc hp
            have : Omega L s' < Omega L s := by rw [omega_eq, omega_eq]; omega
            exact ⟨a, by omega, by omega, Or.inl this, fun h => absurd h hi⟩
          · cases hf
            exact ⟨hc, Nat.le_refl _, Nat.le_refl _, Or.inr (Or.inl ⟨Nat.le_refl _, rfl⟩), fun h => absurd h hi⟩
    | complete id e =>
      simp only [pfire] at hf
      split at hf
      · rename_i el hl'; cases hf
        have hlen := filter_lookup_length _ _ _ hl'
        have hcov : Covers L (pfinish s id el e) := ⟨hc.1, fun q hq => by
          unfold pfinish at hq; rw [condBroadcast_ph] at hq; exact hc.2 q hq⟩
        have ho : sumF omg (pfinish s id el e).ps L = sumF omg s.ps L := by
          unfold pfinish; exact condBroadcast_omg L _
        have hb : backlog (pfinish s id el e) < backlog s := by
          show 2 * s.items.length + (s.inflight.filter (fun x => x.1 != id)).length < _
          simp only [backlog]; omega
        have : Omega L (pfinish s id el e) < Omega L s := by rw [omega_eq, omega_eq]; omega
        exact ⟨hcov, by omega, by omega, Or.inl this, fun h => absurd h hi⟩
      · cases hf

/-! ## along a run -/

/-- the consumers keep working: whenever a request is queued or in flight, eventually one is taken or completed
(the backlog shrinks) -/
def PConsFair (ρ : Nat → St) : Prop :=
  ∀ n, (ρ n).items ≠ [] ∨ (ρ n).inflight ≠ [] → ∃ m, n ≤ m ∧ backlog (ρ (m+1)) < backlog (ρ m)

/-- from instant `n0` on every label of the run is a goroutine step, a read or a completion -/
def DrainFrom (lab : Nat → Option Label) (n0 : Nat) : Prop :=
  ∀ m, n0 ≤ m → ∀ l, lab m = some l → l.drain = true

variable {k : Cfg} {ρ : Nat → St} {lab : Nat → Option Label}

theorem pstep_measure (hk : 0 ≤ k.cap) (hr : PIsRun k ρ lab) {n0 : Nat} (hq : DrainFrom lab n0) {L : List Nat} (m : Nat)
    (hm : n0 ≤ m) (hc : Covers L (ρ m)) :
    Covers L (ρ (m+1)) ∧ sumF omg (ρ (m+1)).ps L ≤ sumF omg (ρ m).ps L ∧ Omega L (ρ (m+1)) ≤ Omega L (ρ m) ∧
    (Omega L (ρ (m+1)) < Omega L (ρ m) ∨ (PPhi L (ρ (m+1)) ≤ PPhi L (ρ m) ∧ backlog (ρ (m+1)) = backlog (ρ m)) ∨
      ∃ l, lab m = some l ∧ l.internal = true) ∧
    (∀ l, lab m = some l → l.internal = true → PPhi L (ρ (m+1)) < PPhi L (ρ m)) ∧
    ((ρ m).stopped = false → (ρ (m+1)).stopped = false) := by
  rcases hr.2 m with ⟨e1, e2⟩ | ⟨l, e1, hf⟩
  · rw [e2]
    refine ⟨hc, Nat.le_refl _, Nat.le_refl _, Or.inr (Or.inl ⟨Nat.le_refl _, rfl⟩), ?_, fun h => h⟩
    intro l hl; rw [e1] at hl; cases hl
  · have hld := hq m hm l e1
    obtain ⟨a, b, c, d, e⟩ := pdrain_step_measure (Invp.reachable hk (prun_reachable hr m)).C hc hld hf
    refine ⟨a, b, c, ?_, ?_, ?_⟩
    · rcases d with d | d | d
      · exact Or.inl d
      · exact Or.inr (Or.inl d)
      · exact Or.inr (Or.inr ⟨l, e1, d⟩)
    · intro l' hl' hint
      rw [e1] at hl'; cases hl'
      exact e hint
    · intro hs
      have he := A.pfire_eff hf
      cases l with
      | shutdown => simp [Label.drain] at hld
      | read c => rw [he.2.2.1]; exact hs
      | recheck c => rw [he.2.2.1]; exact hs
      | offer p el => rcases he with x | x <;> (rw [x.2.2.1]; exact hs)
      | cancel p => rcases he with x | x <;> (rw [x.2.2.1]; exact hs)
      | wakeTok p => rcases he with x | x <;> (rw [x.2.2.1]; exact hs)
      | wakeCtx p => rcases he with x | x <;> (rw [x.2.2.1]; exact hs)
      | relockTok p => rcases he with x | x <;> (rw [x.2.2.1]; exact hs)
      | relockCtx p => rcases he with x | x <;> (rw [x.2.2.1]; exact hs)
      | getRes p => rcases he with x | x <;> (rw [x.2.2.1]; exact hs)
      | resCtx p => rcases he with x | x <;> (rw [x.2.2.1]; exact hs)
      | complete id e => rcases he with x | x <;> (rw [x.2.2.1]; exact hs)

theorem pcovers_along (hk : 0 ≤ k.cap) (hr : PIsRun k ρ lab) {n0 : Nat} (hq : DrainFrom lab n0) {L : List Nat}
    (h0 : Covers L (ρ n0)) (hs : (ρ n0).stopped = false) (n : Nat) (hn : n0 ≤ n) : Covers L (ρ n) ∧ (ρ n).stopped = false := by
  have key : ∀ d, Covers L (ρ (n0 + d)) ∧ (ρ (n0 + d)).stopped = false := by
    intro d
    induction d with
    | zero => exact ⟨h0, hs⟩
    | succ d ih =>
      obtain ⟨a, _, _, _, _, f⟩ := pstep_measure hk hr hq (n0 + d) (Nat.le_add_right _ _) ih.1
      exact ⟨a, f ih.2⟩
  have := key (n - n0)
  rwa [Nat.add_sub_cancel' hn] at this

/-- over a stretch of a drain: `Omega` dropped strictly somewhere, or neither `Omega` nor `PPhi` grew -/
theorem psegment (hk : 0 ≤ k.cap) (hr : PIsRun k ρ lab) {n0 : Nat} (hq : DrainFrom lab n0) {L : List Nat}
    (h0 : Covers L (ρ n0)) (hs : (ρ n0).stopped = false) (n : Nat) (hn : n0 ≤ n) : ∀ d,
    (∃ j, n ≤ j ∧ j ≤ n + d ∧ Omega L (ρ j) < Omega L (ρ n)) ∨
    (Omega L (ρ (n + d)) ≤ Omega L (ρ n) ∧ PPhi L (ρ (n + d)) ≤ PPhi L (ρ n)) := by
  intro d
  induction d with
  | zero => exact Or.inr ⟨Nat.le_refl _, Nat.le_refl _⟩
  | succ d ih =>
    rcases ih with ⟨j, a, b, c⟩ | ⟨a, b⟩
    · exact Or.inl ⟨j, a, by omega, c⟩
    · have hnd : n0 ≤ n + d := by omega
      obtain ⟨_, _, o1, o2, o3, _⟩ := pstep_measure hk hr hq (n + d) hnd (pcovers_along hk hr hq h0 hs (n + d) hnd).1
      rcases o2 with o2 | ⟨o2, _⟩ | ⟨l, hl, hli⟩
      · exact Or.inl ⟨n + d + 1, by omega, by omega, by show Omega L (ρ (n + d + 1)) < _; omega⟩
      · exact Or.inr ⟨by show Omega L (ρ (n + d + 1)) ≤ _; omega, by show PPhi L (ρ (n + d + 1)) ≤ _; omega⟩
      · have := o3 l hl hli
        exact Or.inr ⟨by show Omega L (ρ (n + d + 1)) ≤ _; omega, by show PPhi L (ρ (n + d + 1)) ≤ _; omega⟩

/-! ## the persistent run that plays a finite schedule and then stutters for ever -/

def pplayStates (k : Cfg) : St → List Label → Nat → St
  | s, _, 0 => s
  | s, [], _+1 => s
  | s, l :: ls, n+1 => match pfire k s l with
    | some s1 => pplayStates k s1 ls n
    | none => s

theorem pplay_step (k : Cfg) (ls : List Label) : ∀ (s : St) (n : Nat), (prunSched k s ls).isSome = true →
    PStep k (pplayStates k s ls n) (playLabs ls n) (pplayStates k s ls (n+1)) := by
  induction ls with
  | nil =>
    intro s n _
    left
    refine ⟨by simp [playLabs], ?_⟩
    cases n <;> simp [pplayStates]
  | cons l ls ih =>
    intro s n h
    simp only [prunSched] at h
    cases hf : pfire k s l with
    | none => simp [hf] at h
    | some s1 =>
      simp only [hf] at h
      cases n with
      | zero =>
        right
        refine ⟨l, by simp [playLabs], ?_⟩
        simp [pplayStates, hf]
      | succ n =>
        have := ih s1 n h
        simpa [pplayStates, hf, playLabs] using this

theorem pplay_isRun {k : Cfg} {s : St} {ls : List Label} (hr : PReachable k s) (h : (prunSched k s ls).isSome = true) :
    PIsRun k (pplayStates k s ls) (playLabs ls) :=
  ⟨by simpa [pplayStates] using hr, fun n => pplay_step k ls s n h⟩

theorem pplay_take (k : Cfg) (ls : List Label) : ∀ (s : St) (n : Nat), (prunSched k s ls).isSome = true →
    prunSched k s (ls.take n) = some (pplayStates k s ls n) := by
  induction ls with
  | nil => intro s n _; cases n <;> simp [pplayStates, prunSched]
  | cons l ls ih =>
    intro s n h
    simp only [prunSched] at h
    cases hf : pfire k s l with
    | none => simp [hf] at h
    | some s1 =>
      simp only [hf] at h
      cases n with
      | zero => simp [pplayStates, prunSched]
      | succ n => simpa [pplayStates, prunSched, hf] using ih s1 n h

theorem pplay_after {k : Cfg} {s s' : St} {ls : List Label} (h : prunSched k s ls = some s') (n : Nat) (hn : ls.length ≤ n) :
    pplayStates k s ls n = s' := by
  have h1 := pplay_take k ls s n (by simp [h])
  rw [List.take_of_length_le hn, h] at h1
  exact (Option.some.inj h1).symm

theorem pidle_run {k : Cfg} (ls : List Label) (s s' : St) (q : Nat) (hr : prunSched k s ls = some s')
    (hq : (s.ps q).ph = .idle) (hl : ∀ l ∈ ls, ∀ el, l ≠ .offer q el) : (s'.ps q).ph = .idle := by
  induction ls generalizing s with
  | nil => simp [prunSched] at hr; exact hr ▸ hq
  | cons l rest ih =>
    simp only [prunSched] at hr
    cases hf : pfire k s l with
    | none => simp [hf] at hr
    | some s1 =>
      simp only [hf] at hr
      exact ih s1 hr (pidle_step hf q hq (hl l (by simp))) (fun l' hl' => hl l' (List.mem_cons_of_mem _ hl'))

/-- sufficient condition for rest of the persistent queue -/
theorem pquiescent_of {k : Cfg} {s : St}
    (h1 : ∀ p, (s.ps p).ph = .idle ∨ (∃ r, (s.ps p).ph = .done r) ∨ ((s.ps p).ph = .sel ∧ (s.ps p).sig = false ∧ (s.ps p).canc = false))
    (h2 : s.cwoken = []) : PQuiescent k s := by
  intro l hl
  cases l with
  | offer p el => simp [Label.internal] at hl
  | cancel p => simp [Label.internal] at hl
  | read c => simp [Label.internal] at hl
  | complete id e => simp [Label.internal] at hl
  | shutdown => simp [Label.internal] at hl
  | wakeTok p => rcases h1 p with a | ⟨r, a⟩ | ⟨a, b, c⟩ <;> simp [pfire, a, *]
  | wakeCtx p => rcases h1 p with a | ⟨r, a⟩ | ⟨a, b, c⟩ <;> simp [pfire, a, *]
  | relockTok p => rcases h1 p with a | ⟨r, a⟩ | ⟨a, b, c⟩ <;> simp [pfire, a]
  | relockCtx p => rcases h1 p with a | ⟨r, a⟩ | ⟨a, b, c⟩ <;> simp [pfire, a]
  | getRes p => simp [pfire]
  | resCtx p => simp [pfire]
  | recheck c => simp [pfire, h2]

end OtelVerif.C02
