import OtelVerif.Lemmas.C02P
import OtelVerif.Lemmas.C02Live
/-!
# C02, persistent queue: the goroutines' own activity terminates (ranking for `pfire`)

In the persistent queue a consumer that reads the LAST stored request resets the size and broadcasts on `hasMoreSpace`
(`ppop`), so a consumer's own step can re-activate every waiting producer: the plain sum of per-thread weights of the memory
queue (`Phi`) may grow under `recheck`.  The ranking here weighs every notified consumer and every producer inside
`cond.Wait` with `C = 2·|L| + 1` (more than one Broadcast can add), so that
* `recheck c`: one notified consumer less (`-C`), at most `+2` per thread from the Broadcast;
* a producer that re-locks and is enqueued leaves `cond.Wait` (`-3C - 5`) and may notify one consumer (`+C`);
* every other step lowers its own thread's weight and adds at most 2 (a forwarded signal).
-/
namespace OtelVerif.C02

/-- per-thread weight: `phi` plus `3·C` while inside `cond.Wait` -/
def wphi (C : Nat) (x : P) : Nat :=
  match x.ph with
  | .idle => 0
  | .done _ => 0
  | .waitRes => 1
  | .sel => (if x.sig then 6 else 4) + 3 * C
  | .wokenTok => 5 + 3 * C
  | .wokenCtx => 3 + 3 * C

def PPhi (L : List Nat) (s : St) : Nat :=
  sumF (wphi (2 * L.length + 1)) s.ps L + (2 * L.length + 1) * s.cwoken.length

theorem sumF_le_add (g : P → Nat) (f f' : Nat → P) (L : List Nat) (h : ∀ p, g (f' p) ≤ g (f p) + 2) :
    sumF g f' L ≤ sumF g f L + 2 * L.length := by
  induction L with
  | nil => simp [sumF]
  | cons q qs ih =>
    have := h q
    simp only [sumF, List.length_cons]
    omega

theorem wphi_sig (C : Nat) (x : P) : wphi C { x with sig := true } ≤ wphi C x + 2 := by
  unfold wphi
  cases x.ph <;> simp <;> split <;> omega

/-- `Broadcast`: phases unchanged, the sum grows by at most 2 per listed thread -/
theorem condBroadcast_wsum (C : Nat) (L : List Nat) (s : St) :
    sumF (wphi C) (condBroadcast s).ps L ≤ sumF (wphi C) s.ps L + 2 * L.length := by
  apply sumF_le_add
  intro p
  unfold condBroadcast
  simp only []
  split
  · exact wphi_sig C (s.ps p)
  · omega

theorem condSignal_wsum {k : Cfg} (C : Nat) {L : List Nat} {s : St} (hC : InvC k s) (hc : Covers L s) :
    sumF (wphi C) (condSignal s).ps L ≤ sumF (wphi C) s.ps L + 2 := by
  unfold condSignal
  cases hw : s.waiters with
  | nil => simp
  | cons w ws =>
    have hww := (hC.wIff w).mp (by rw [hw]; simp)
    have hni : (s.ps w).ph ≠ .idle := by rcases hww.1 with a | a <;> rw [a] <;> simp
    have := upd_sums hc w ⟨(s.ps w).ph, (s.ps w).el, true, (s.ps w).canc⟩ hni (wphi C)
    have h1 : wphi C ⟨(s.ps w).ph, (s.ps w).el, true, (s.ps w).canc⟩ ≤ wphi C (s.ps w) + 2 := wphi_sig C (s.ps w)
    simp only []
    omega

/-- one thread changes: bookkeeping for the weighted sum -/
theorem one_wthread (C : Nat) {L : List Nat} {s s' : St} {p : Nat} {x : P} {a b : Nat} (hc : Covers L s) (hp : (s.ps p).ph ≠ .idle)
    (h1 : s'.ps = upd s.ps p x) (ha : wphi C (s.ps p) = a) (hb : wphi C x = b) :
    Covers L s' ∧ sumF (wphi C) s'.ps L + a = sumF (wphi C) s.ps L + b := by
  refine ⟨covers_upd hc p x hp _ h1, ?_⟩
  rw [h1, ← ha, ← hb]; exact upd_sums hc p x hp (wphi C)

theorem ptryAdd_measure {k : Cfg} {L : List Nat} {s : St} {p : Nat} {el : Int} (hc : Covers L s)
    (hp : (s.ps p).ph = .wokenTok) : Covers L (ptryAdd k s p el) ∧ PPhi L (ptryAdd k s p el) < PPhi L s := by
  have hni : (s.ps p).ph ≠ .idle := by rw [hp]; simp
  have h5 : wphi (2 * L.length + 1) (s.ps p) = 5 + 3 * (2 * L.length + 1) := by simp [wphi, hp]
  unfold ptryAdd
  split
  · split
    · split
      · obtain ⟨a, b⟩ := one_wthread (2 * L.length + 1) (s' := refuse s p .tooLarge)
          (x := ⟨.done .tooLarge, (s.ps p).el, false, (s.ps p).canc⟩) hc hni rfl h5 (b := 0) (by simp [wphi])
        exact ⟨a, by simp only [PPhi, refuse] at b ⊢; omega⟩
      · obtain ⟨a, b⟩ := one_wthread (2 * L.length + 1) (s' := register s p el) (x := ⟨.sel, el, false, (s.ps p).canc⟩) hc hni rfl h5
          (b := 4 + 3 * (2 * L.length + 1)) (by simp [wphi])
        exact ⟨a, by simp only [PPhi, register] at b ⊢; omega⟩
    · obtain ⟨a, b⟩ := one_wthread (2 * L.length + 1) (s' := refuse s p .full)
        (x := ⟨.done .full, (s.ps p).el, false, (s.ps p).canc⟩) hc hni rfl h5 (b := 0) (by simp [wphi])
      exact ⟨a, by simp only [PPhi, refuse] at b ⊢; omega⟩
  · obtain ⟨a, b⟩ := one_wthread (2 * L.length + 1) (s' := paccept s p el) (x := ⟨.done .ok, el, false, (s.ps p).canc⟩) hc hni rfl h5
      (b := 0) (by simp [wphi])
    refine ⟨a, ?_⟩
    have hlen : (s.cwoken ++ s.cwait.take 1).length ≤ s.cwoken.length + 1 := by
      simp only [List.length_append, List.length_take]; omega
    have hmul : (2 * L.length + 1) * (s.cwoken ++ s.cwait.take 1).length ≤ (2 * L.length + 1) * s.cwoken.length + (2 * L.length + 1) := by
      calc (2 * L.length + 1) * (s.cwoken ++ s.cwait.take 1).length
          ≤ (2 * L.length + 1) * (s.cwoken.length + 1) := Nat.mul_le_mul_left _ hlen
        _ = (2 * L.length + 1) * s.cwoken.length + (2 * L.length + 1) := Nat.mul_succ _ _
    simp only [PPhi, paccept] at b ⊢
    omega

/-- every step a goroutine takes on its own strictly decreases `PPhi` -/
theorem pinternal_step_measure {k : Cfg} {L : List Nat} {s s' : St} {l : Label} (hC : InvC k s) (hc : Covers L s)
    (hl : l.internal = true) (hf : pfire k s l = some s') : Covers L s' ∧ PPhi L s' < PPhi L s := by
  cases l with
  | offer p el => simp [Label.internal] at hl
  | cancel p => simp [Label.internal] at hl
  | read c => simp [Label.internal] at hl
  | complete id e => simp [Label.internal] at hl
  | shutdown => simp [Label.internal] at hl
  | getRes p => simp [pfire] at hf
  | resCtx p => simp [pfire] at hf
  | wakeTok p =>
    simp only [pfire] at hf
    split at hf
    · rename_i h; cases hf
      have hni : (s.ps p).ph ≠ .idle := by rw [h.1]; simp
      obtain ⟨a, b⟩ := one_wthread (2 * L.length + 1) (s' := setP s p { s.ps p with ph := .wokenTok })
        (x := ⟨.wokenTok, (s.ps p).el, (s.ps p).sig, (s.ps p).canc⟩) hc hni rfl
        (a := 6 + 3 * (2 * L.length + 1)) (by simp [wphi, h.1, h.2]) (b := 5 + 3 * (2 * L.length + 1)) (by simp [wphi])
      exact ⟨a, by simp only [PPhi, setP] at b ⊢; omega⟩
    · cases hf
  | wakeCtx p =>
    simp only [pfire] at hf
    split at hf
    · rename_i h; cases hf
      have hni : (s.ps p).ph ≠ .idle := by rw [h.1]; simp
      by_cases hs : (s.ps p).sig = true
      · obtain ⟨a, b⟩ := one_wthread (2 * L.length + 1) (s' := setP s p { s.ps p with ph := .wokenCtx })
          (x := ⟨.wokenCtx, (s.ps p).el, (s.ps p).sig, (s.ps p).canc⟩) hc hni rfl
          (a := 6 + 3 * (2 * L.length + 1)) (by simp [wphi, h.1, hs]) (b := 3 + 3 * (2 * L.length + 1)) (by simp [wphi])
        exact ⟨a, by simp only [PPhi, setP] at b ⊢; omega⟩
      · obtain ⟨a, b⟩ := one_wthread (2 * L.length + 1) (s' := setP s p { s.ps p with ph := .wokenCtx })
          (x := ⟨.wokenCtx, (s.ps p).el, (s.ps p).sig, (s.ps p).canc⟩) hc hni rfl
          (a := 4 + 3 * (2 * L.length + 1)) (by simp [wphi, h.1, hs]) (b := 3 + 3 * (2 * L.length + 1)) (by simp [wphi])
        exact ⟨a, by simp only [PPhi, setP] at b ⊢; omega⟩
    · cases hf
  | relockTok p =>
    simp only [pfire] at hf
    split at hf
    · rename_i h; cases hf; exact ptryAdd_measure hc h
    · cases hf
  | relockCtx p =>
    simp only [pfire] at hf
    split at hf
    · rename_i h; cases hf
      have hni : (s.ps p).ph ≠ .idle := by rw [h]; simp
      unfold ctxCleanup
      split
      · obtain ⟨a, b⟩ := one_wthread (2 * L.length + 1) (L := L) (s := s) (s' := refuse { s with waiters := s.waiters.erase p } p .ctxErr)
          (x := ⟨.done .ctxErr, (s.ps p).el, false, (s.ps p).canc⟩) hc hni rfl
          (a := 3 + 3 * (2 * L.length + 1)) (by simp [wphi, h]) (b := 0) (by simp [wphi])
        exact ⟨a, by simp only [PPhi, refuse] at b ⊢; omega⟩
      · have s1 := condSignal_wsum (2 * L.length + 1) hC hc
        have hc1 : Covers L (condSignal s) := ⟨hc.1, fun q hq => by rw [condSignal_ph] at hq; exact hc.2 q hq⟩
        have hph : ((condSignal s).ps p).ph = .wokenCtx := by rw [condSignal_ph]; exact h
        have hni1 : ((condSignal s).ps p).ph ≠ .idle := by rw [hph]; simp
        obtain ⟨a, b⟩ := one_wthread (2 * L.length + 1) (s' := refuse (condSignal s) p .ctxErr)
          (x := ⟨.done .ctxErr, ((condSignal s).ps p).el, false, ((condSignal s).ps p).canc⟩) hc1 hni1 rfl
          (a := 3 + 3 * (2 * L.length + 1)) (by simp [wphi, hph]) (b := 0) (by simp [wphi])
        exact ⟨a, by simp only [PPhi, refuse] at b ⊢; rw [condSignal_cwoken]; omega⟩
    · cases hf
  | recheck c =>
    simp only [pfire] at hf
    split at hf
    · rename_i hcw
      have hlen : (s.cwoken.erase c).length + 1 = s.cwoken.length := by
        rw [List.length_erase_of_mem hcw]
        have := List.length_pos_of_mem hcw
        omega
      have hmul : (2 * L.length + 1) * s.cwoken.length = (2 * L.length + 1) * (s.cwoken.erase c).length + (2 * L.length + 1) := by
        rw [← hlen]; exact Nat.mul_succ _ _
      split at hf
      · cases hf
        exact ⟨hc, by simp only [PPhi]; omega⟩
      · split at hf
        · rename_i s1 hp; cases hf
          obtain ⟨s0, hp0, e⟩ := ppop_some hp
          obtain ⟨id, el, t, hi, rfl⟩ := pop_some hp0
          rcases e with rfl | ⟨_, rfl⟩
          · exact ⟨hc, by simp only [PPhi]; omega⟩
          · have hb := condBroadcast_wsum (2 * L.length + 1) L
              { s with items := t, inflight := s.inflight ++ [(id, el)], handed := s.handed ++ [id], size := 0 }
            refine ⟨⟨hc.1, fun q hq => ?_⟩, ?_⟩
            · have : ((condBroadcast { s with items := t, inflight := s.inflight ++ [(id, el)], handed := s.handed ++ [id], size := 0 }).ps q).ph
                  = (s.ps q).ph := condBroadcast_ph _ q
              simp only [] at hq
              rw [this] at hq
              exact hc.2 q hq
            · simp only [PPhi] at hb ⊢
              have hcw' : (condBroadcast { s with items := t, inflight := s.inflight ++ [(id, el)], handed := s.handed ++ [id], size := 0 }).cwoken
                  = s.cwoken := rfl
              simp only [hcw']
              omega
        · cases hf
          exact ⟨hc, by simp only [PPhi]; omega⟩
    · cases hf

theorem ptryAdd_ps_other (k : Cfg) (s : St) (p q : Nat) (el : Int) (h : q ≠ p) : (ptryAdd k s p el).ps q = s.ps q := by
  unfold ptryAdd register refuse paccept
  split
  · split
    · split <;> simp [upd_other _ _ _ _ h]
    · simp [upd_other _ _ _ _ h]
  · simp [upd_other _ _ _ _ h]

/-- a thread that has not called Offer stays idle under every label except its own `offer` -/
theorem pidle_step {k : Cfg} {s s' : St} {l : Label} (hf : pfire k s l = some s') (q : Nat) (hq : (s.ps q).ph = .idle)
    (hl : ∀ el, l ≠ .offer q el) : (s'.ps q).ph = .idle := by
  cases l with
  | offer p el =>
    have hqp : q ≠ p := fun e => hl el (by rw [e])
    simp only [pfire] at hf
    split at hf
    · cases hf; rw [ptryAdd_ps_other _ _ _ _ _ hqp]; exact hq
    · cases hf
  | cancel p =>
    simp only [pfire] at hf; cases hf
    by_cases hqp : q = p
    · subst hqp; simpa [setP] using hq
    · simp [setP, upd_other _ _ _ _ hqp, hq]
  | wakeTok p =>
    simp only [pfire] at hf
    split at hf
    · rename_i h; cases hf
      have hqp : q ≠ p := by intro e; rw [e, h.1] at hq; cases hq
      simp [setP, upd_other _ _ _ _ hqp, hq]
    · cases hf
  | wakeCtx p =>
    simp only [pfire] at hf
    split at hf
    · rename_i h; cases hf
      have hqp : q ≠ p := by intro e; rw [e, h.1] at hq; cases hq
      simp [setP, upd_other _ _ _ _ hqp, hq]
    · cases hf
  | relockTok p =>
    simp only [pfire] at hf
    split at hf
    · rename_i h; cases hf
      have hqp : q ≠ p := by intro e; rw [e, h] at hq; cases hq
      rw [ptryAdd_ps_other _ _ _ _ _ hqp]; exact hq
    · cases hf
  | relockCtx p =>
    simp only [pfire] at hf
    split at hf
    · rename_i h; cases hf
      have hqp : q ≠ p := by intro e; rw [e, h] at hq; cases hq
      simp only [refuse, upd_other _ _ _ _ hqp]
      unfold ctxCleanup
      split
      · exact hq
      · rw [condSignal_ph]; exact hq
    · cases hf
  | getRes p => simp [pfire] at hf
  | resCtx p => simp [pfire] at hf
  | read c =>
    simp only [pfire] at hf
    split at hf
    · cases hf
    · split at hf
      · cases hf; exact hq
      · split at hf
        · rename_i s1 hp; cases hf
          obtain ⟨s0, hp0, e⟩ := ppop_some hp
          obtain ⟨id, el, t, _, rfl⟩ := pop_some hp0
          rcases e with rfl | ⟨_, rfl⟩
          · exact hq
          · rw [condBroadcast_ph]; exact hq
        · cases hf; exact hq
  | recheck c =>
    simp only [pfire] at hf
    split at hf
    · split at hf
      · cases hf; exact hq
      · split at hf
        · rename_i s1 hp; cases hf
          obtain ⟨s0, hp0, e⟩ := ppop_some hp
          obtain ⟨id, el, t, _, rfl⟩ := pop_some hp0
          rcases e with rfl | ⟨_, rfl⟩
          · exact hq
          · simp only []; rw [condBroadcast_ph]; exact hq
        · cases hf; exact hq
    · cases hf
  | complete id e =>
    simp only [pfire] at hf
    split at hf
    · cases hf
      unfold pfinish
      rw [condBroadcast_ph]; exact hq
    · cases hf
  | shutdown => simp only [pfire] at hf; cases hf; exact hq

/-- in every reachable state of the persistent queue only finitely many threads have called Offer -/
theorem pcovers_exists {k : Cfg} {s : St} (hr : PReachable k s) : ∃ L, Covers L s := by
  refine preachable_induction k (fun s => ∃ L, Covers L s) ⟨[], by simp, by intro p hp; simp at hp⟩ ?_ s hr
  intro s l s' ⟨L, hc⟩ hf
  have key : ∀ (p : Nat), (∀ q, q ≠ p → (s.ps q).ph = .idle → (s'.ps q).ph = .idle) → ∃ L', Covers L' s' := by
    intro p hp
    by_cases hpl : p ∈ L
    · refine ⟨L, hc.1, ?_⟩
      intro q hq
      by_cases hqp : q = p
      · exact hqp ▸ hpl
      · exact hc.2 q (fun hi => hq (hp q hqp hi))
    · refine ⟨p :: L, List.nodup_cons.mpr ⟨hpl, hc.1⟩, ?_⟩
      intro q hq
      by_cases hqp : q = p
      · simp [hqp]
      · exact List.mem_cons_of_mem _ (hc.2 q (fun hi => hq (hp q hqp hi)))
  cases l with
  | offer p el => exact key p (fun q hqp hi => pidle_step hf q hi (by intro el' e; cases e; exact hqp rfl))
  | cancel p => exact key 0 (fun q _ hi => pidle_step hf q hi (by intro el e; cases e))
  | wakeTok p => exact key 0 (fun q _ hi => pidle_step hf q hi (by intro el e; cases e))
  | wakeCtx p => exact key 0 (fun q _ hi => pidle_step hf q hi (by intro el e; cases e))
  | relockTok p => exact key 0 (fun q _ hi => pidle_step hf q hi (by intro el e; cases e))
  | relockCtx p => exact key 0 (fun q _ hi => pidle_step hf q hi (by intro el e; cases e))
  | getRes p => exact key 0 (fun q _ hi => pidle_step hf q hi (by intro el e; cases e))
  | resCtx p => exact key 0 (fun q _ hi => pidle_step hf q hi (by intro el e; cases e))
  | read c => exact key 0 (fun q _ hi => pidle_step hf q hi (by intro el e; cases e))
  | recheck c => exact key 0 (fun q _ hi => pidle_step hf q hi (by intro el e; cases e))
  | complete id e => exact key 0 (fun q _ hi => pidle_step hf q hi (by intro el e'; cases e'))
  | shutdown => exact key 0 (fun q _ hi => pidle_step hf q hi (by intro el e; cases e))

theorem prunSched_append' (k : Cfg) (s : St) (x y : List Label) :
    prunSched k s (x ++ y) = (prunSched k s x).bind (fun s' => prunSched k s' y) := by
  induction x generalizing s with
  | nil => simp [prunSched]
  | cons l ls ih =>
    simp only [List.cons_append, prunSched]
    cases pfire k s l with
    | none => simp
    | some s' => simpa using ih s'

theorem preachable_step' {k : Cfg} {s s' : St} {l : Label} (hr : PReachable k s) (hf : pfire k s l = some s') : PReachable k s' := by
  obtain ⟨ls, h⟩ := hr
  refine ⟨ls ++ [l], ?_⟩
  rw [prunSched_append', h]
  simp [prunSched, hf]

/-- bound on what the goroutines of the persistent queue can do on their own: at most `PPhi L s` internal steps -/
theorem pinternal_run_bounded {k : Cfg} (hk : 0 ≤ k.cap) {L : List Nat} (ls : List Label) (s : St) (hr : PReachable k s)
    (hc : Covers L s) (hi : ∀ l ∈ ls, Label.internal l = true) (hs : (prunSched k s ls).isSome = true) :
    ls.length ≤ PPhi L s := by
  induction ls generalizing s with
  | nil => simp
  | cons l rest ih =>
    simp only [prunSched] at hs
    cases hf : pfire k s l with
    | none => simp [hf] at hs
    | some s1 =>
      simp only [hf] at hs
      obtain ⟨c1, c2⟩ := pinternal_step_measure (Invp.reachable hk hr).C hc (hi l (by simp)) hf
      have := ih s1 (preachable_step' hr hf) c1 (fun l' hl' => hi l' (List.mem_cons_of_mem _ hl')) hs
      simp only [List.length_cons]
      omega

/-- the goroutines' own activity always comes to rest (persistent queue) -/
theorem pexists_quiesce {k : Cfg} (hk : 0 ≤ k.cap) {L : List Nat} (n : Nat) (s : St) (hr : PReachable k s) (hc : Covers L s)
    (hn : PPhi L s ≤ n) :
    ∃ ls s', (∀ l ∈ ls, Label.internal l = true) ∧ prunSched k s ls = some s' ∧ PQuiescent k s' := by
  induction n generalizing s with
  | zero =>
    refine ⟨[], s, by simp, rfl, ?_⟩
    intro l hl
    cases hf : pfire k s l with
    | none => rfl
    | some s1 =>
      obtain ⟨_, c2⟩ := pinternal_step_measure (Invp.reachable hk hr).C hc hl hf
      omega
  | succ n ih =>
    by_cases hq : PQuiescent k s
    · exact ⟨[], s, by simp, rfl, hq⟩
    · unfold PQuiescent at hq
      obtain ⟨l, hl⟩ := Classical.not_forall.mp hq
      obtain ⟨hli, hne⟩ := Classical.not_imp.mp hl
      cases hf : pfire k s l with
      | none => exact absurd hf hne
      | some s1 =>
        obtain ⟨c1, c2⟩ := pinternal_step_measure (Invp.reachable hk hr).C hc hli hf
        obtain ⟨ls, s', h1, h2, h3⟩ := ih s1 (preachable_step' hr hf) c1 (by omega)
        refine ⟨l :: ls, s', ?_, by simp [prunSched, hf, h2], h3⟩
        intro l' hl'
        rcases List.mem_cons.mp hl' with e | e
        · exact e ▸ hli
        · exact h1 l' e

/-! ## infinite runs of the persistent-queue LTS -/

def PStep (k : Cfg) (s : St) (ol : Option Label) (s' : St) : Prop :=
  (ol = none ∧ s' = s) ∨ (∃ l, ol = some l ∧ pfire k s l = some s')

/-- an infinite run of the persistent-queue LTS from a reachable state (stutters allowed) -/
def PIsRun (k : Cfg) (ρ : Nat → St) (lab : Nat → Option Label) : Prop :=
  PReachable k (ρ 0) ∧ ∀ n, PStep k (ρ n) (lab n) (ρ (n+1))

/-- scheduler / mutex fairness, minimal progress: whenever some goroutine can take a step of its own, eventually one does -/
def PSchedFair (k : Cfg) (ρ : Nat → St) (lab : Nat → Option Label) : Prop :=
  ∀ n, ¬ PQuiescent k (ρ n) → ∃ m, n ≤ m ∧ ∃ l, lab m = some l ∧ l.internal = true

/-- from instant `n0` on every label of the run is a goroutine's own step -/
def InternalFrom (lab : Nat → Option Label) (n0 : Nat) : Prop :=
  ∀ m, n0 ≤ m → ∀ l, lab m = some l → l.internal = true

theorem prun_reachable {k : Cfg} {ρ : Nat → St} {lab : Nat → Option Label} (hr : PIsRun k ρ lab) : ∀ n, PReachable k (ρ n) := by
  intro n
  induction n with
  | zero => exact hr.1
  | succ n ih =>
    rcases hr.2 n with ⟨_, e⟩ | ⟨l, _, hf⟩
    · rw [e]; exact ih
    · exact preachable_step' ih hf

theorem pphi_mono_internal {k : Cfg} {ρ : Nat → St} {lab : Nat → Option Label} (hk : 0 ≤ k.cap) (hr : PIsRun k ρ lab) {n0 : Nat}
    (hq : InternalFrom lab n0) {L : List Nat} (n : Nat) (hn : n0 ≤ n) (hc : Covers L (ρ n)) :
    ∀ d, Covers L (ρ (n + d)) ∧ PPhi L (ρ (n + d)) ≤ PPhi L (ρ n) := by
  intro d
  induction d with
  | zero => exact ⟨hc, Nat.le_refl _⟩
  | succ d ih =>
    show Covers L (ρ (n + d + 1)) ∧ PPhi L (ρ (n + d + 1)) ≤ _
    rcases hr.2 (n + d) with ⟨_, e⟩ | ⟨l, e1, hf⟩
    · rw [e]; exact ih
    · obtain ⟨a, b⟩ := pinternal_step_measure (Invp.reachable hk (prun_reachable hr (n + d))).C ih.1 (hq (n + d) (by omega) l e1) hf
      exact ⟨a, by have := ih.2; omega⟩

theorem prest_forever {k : Cfg} {ρ : Nat → St} {lab : Nat → Option Label} (hr : PIsRun k ρ lab) {n0 : Nat}
    (hq : InternalFrom lab n0) (n : Nat) (hn : n0 ≤ n) (hqu : PQuiescent k (ρ n)) : ∀ d, ρ (n + d) = ρ n := by
  intro d
  induction d with
  | zero => rfl
  | succ d ih =>
    show ρ (n + d + 1) = ρ n
    rcases hr.2 (n + d) with ⟨_, e⟩ | ⟨l, e1, hf⟩
    · rw [e]; exact ih
    · have hi := hq (n + d) (by omega) l e1
      rw [ih, hqu l hi] at hf
      cases hf

/-- every fair run of the persistent queue comes to rest once the environment is quiet, and stays there -/
theorem pfair_run_comes_to_rest {k : Cfg} {ρ : Nat → St} {lab : Nat → Option Label} (hk : 0 ≤ k.cap) (hr : PIsRun k ρ lab)
    (hf : PSchedFair k ρ lab) (n0 : Nat) (hq : InternalFrom lab n0) :
    ∃ m, n0 ≤ m ∧ PQuiescent k (ρ m) ∧ ∀ j, m ≤ j → ρ j = ρ m := by
  obtain ⟨L, hcov⟩ := pcovers_exists (prun_reachable hr n0)
  have main : ∀ F n, n0 ≤ n → Covers L (ρ n) → PPhi L (ρ n) ≤ F → ∃ m, n ≤ m ∧ PQuiescent k (ρ m) ∧ ∀ j, m ≤ j → ρ j = ρ m := by
    intro F
    induction F with
    | zero =>
      intro n hn hc hF
      by_cases hqu : PQuiescent k (ρ n)
      · refine ⟨n, Nat.le_refl _, hqu, fun j hj => ?_⟩
        have := prest_forever hr hq n hn hqu (j - n)
        rwa [Nat.add_sub_cancel' hj] at this
      · obtain ⟨m, hm, l, hl, hli⟩ := hf n hqu
        obtain ⟨c1, c2⟩ := pphi_mono_internal hk hr hq n hn hc (m - n)
        rw [Nat.add_sub_cancel' hm] at c1 c2
        rcases hr.2 m with ⟨e, _⟩ | ⟨l', e1, hf'⟩
        · rw [hl] at e; cases e
        · rw [hl] at e1; cases e1
          obtain ⟨_, b⟩ := pinternal_step_measure (Invp.reachable hk (prun_reachable hr m)).C c1 hli hf'
          omega
    | succ F ih =>
      intro n hn hc hF
      by_cases hqu : PQuiescent k (ρ n)
      · refine ⟨n, Nat.le_refl _, hqu, fun j hj => ?_⟩
        have := prest_forever hr hq n hn hqu (j - n)
        rwa [Nat.add_sub_cancel' hj] at this
      · obtain ⟨m, hm, l, hl, hli⟩ := hf n hqu
        obtain ⟨c1, c2⟩ := pphi_mono_internal hk hr hq n hn hc (m - n)
        rw [Nat.add_sub_cancel' hm] at c1 c2
        rcases hr.2 m with ⟨e, _⟩ | ⟨l', e1, hf'⟩
        · rw [hl] at e; cases e
        · rw [hl] at e1; cases e1
          obtain ⟨a, b⟩ := pinternal_step_measure (Invp.reachable hk (prun_reachable hr m)).C c1 hli hf'
          obtain ⟨m', x, y, z⟩ := ih (m+1) (by omega) a (by omega)
          exact ⟨m', by omega, y, z⟩
  exact main (PPhi L (ρ n0)) n0 (Nat.le_refl _) hcov (Nat.le_refl _)

end OtelVerif.C02
