import OtelVerif.Model.C02R
/-!
# C02: lemmas about the persistent queue's size accounting across lives (`Model/C02R.lean`)
-/
namespace OtelVerif.C02.R

theorem sizeOf_nonneg (c : RCfg) (n : Nat) : 0 ≤ sizeOf c n := by
  unfold sizeOf; split <;> omega

theorem sizeOf_req (c : RCfg) (n : Nat) (h : c.reqSized = true) : sizeOf c n = 1 := by simp [sizeOf, h]

/-! ## `backup` and `writeInternal` field by field -/

theorem backup_fields (c : RCfg) (s : RSt) :
    (backup c s).size = s.size ∧ (backup c s).ri = s.ri ∧ (backup c s).wi = s.wi ∧ (backup c s).disp = s.disp ∧
    (backup c s).sRi = s.sRi ∧ (backup c s).sWi = s.sWi ∧ (backup c s).sDi = s.sDi ∧ (backup c s).store = s.store ∧
    (backup c s).next = s.next ∧ (backup c s).stopped = s.stopped ∧ (backup c s).infl = s.infl := by
  unfold backup; split <;> simp

theorem writeInternal_fields (c : RCfg) (s : RSt) (id n : Nat) :
    (writeInternal c s id n).size = s.size + sizeOf c n ∧ (writeInternal c s id n).ri = s.ri ∧
    (writeInternal c s id n).wi = s.wi + 1 ∧ (writeInternal c s id n).disp = s.disp ∧
    (writeInternal c s id n).sRi = s.sRi ∧ (writeInternal c s id n).sWi = some (s.wi + 1) ∧
    (writeInternal c s id n).sDi = s.sDi ∧ (writeInternal c s id n).store = s.store ++ [(s.wi, (id, n))] ∧
    (writeInternal c s id n).next = s.next := by
  unfold writeInternal
  simp only []
  split
  · obtain ⟨a1, a2, a3, a4, a5, a6, a7, a8, a9, _, _⟩ := backup_fields c
      { s with store := s.store ++ [(s.wi, (id, n))], sWi := some (s.wi + 1), wi := s.wi + 1, size := s.size + sizeOf c n }
    exact ⟨a1, a2, a3, a4, a5, a6, a7, a8, a9⟩
  · exact ⟨rfl, rfl, rfl, rfl, rfl, rfl, rfl, rfl, rfl⟩

/-! ## the invariant of every life -/

/-- what holds after every operation of every life: the size is never negative, `ri ≤ wi`, and the stored indexes are the
in-memory ones (so that a new life recovers exactly them) -/
structure RInv (s : RSt) : Prop where
  nonneg : 0 ≤ s.size
  le : s.ri ≤ s.wi
  syncR : s.sRi = some s.ri ∨ (s.sRi = none ∧ s.ri = 0)
  syncW : s.sWi = some s.wi ∨ (s.sWi = none ∧ s.wi = 0)
  syncD : s.sDi = s.disp

theorem RInv.init : RInv {} := ⟨Int.le_refl _, Nat.le_refl _, Or.inr ⟨rfl, rfl⟩, Or.inr ⟨rfl, rfl⟩, rfl⟩

theorem RInv.writeInternal {c : RCfg} {s : RSt} (h : RInv s) (id n : Nat) : RInv (writeInternal c s id n) := by
  obtain ⟨a1, a2, a3, a4, a5, a6, a7, _, _⟩ := writeInternal_fields c s id n
  refine ⟨?_, ?_, ?_, ?_, ?_⟩
  · rw [a1]; have := sizeOf_nonneg c n; have := h.nonneg; omega
  · rw [a2, a3]; have := h.le; omega
  · rw [a5, a2]; exact h.syncR
  · rw [a6, a3]; exact Or.inl rfl
  · rw [a7, a4]; exact h.syncD

theorem RInv.offer {c : RCfg} {s : RSt} (h : RInv s) (n : Nat) : RInv (offer c s n).1 := by
  unfold R.offer
  simp only []
  split
  · exact ⟨h.nonneg, h.le, h.syncR, h.syncW, h.syncD⟩
  · exact RInv.writeInternal (s := { s with next := s.next + 1 }) ⟨h.nonneg, h.le, h.syncR, h.syncW, h.syncD⟩ _ _

theorem RInv.read {c : RCfg} {s s' : RSt} {r : Nat × Nat × Int} (h : RInv s) (hr : read c s = some (s', r)) : RInv s' := by
  unfold R.read at hr
  split at hr
  · cases hr
  · split at hr
    · cases hr
    · rename_i hne
      split at hr
      · cases hr
      · simp only [Option.some.injEq, Prod.mk.injEq] at hr
        obtain ⟨rfl, _⟩ := hr
        have hlt : s.ri < s.wi := by have := h.le; omega
        split
        · exact ⟨Int.le_refl _, by simp only []; omega, Or.inl rfl, h.syncW, rfl⟩
        · exact ⟨h.nonneg, by simp only []; omega, Or.inl rfl, h.syncW, rfl⟩

theorem RInv.backup {c : RCfg} {s : RSt} (h : RInv s) : RInv (backup c s) := by
  obtain ⟨a1, a2, a3, a4, a5, a6, a7, _⟩ := backup_fields c s
  exact ⟨by rw [a1]; exact h.nonneg, by rw [a2, a3]; exact h.le, by rw [a5, a2]; exact h.syncR, by rw [a6, a3]; exact h.syncW,
    by rw [a7, a4]; exact h.syncD⟩

theorem RInv.done {c : RCfg} {s s' : RSt} {idx : Nat} {e : Bool} (h : RInv s) (hd : done c s idx e = some s') : RInv s' := by
  unfold R.done at hd
  split at hd
  · cases hd
  · rename_i el _
    have hsz : 0 ≤ (if s.size - el < 0 then 0 else s.size - el) := by split <;> omega
    simp only [] at hd
    split at hd
    · cases hd
      exact ⟨hsz, h.le, h.syncR, h.syncW, h.syncD⟩
    · cases hd
      split
      · exact RInv.backup ⟨hsz, h.le, h.syncR, h.syncW, rfl⟩
      · exact ⟨hsz, h.le, h.syncR, h.syncW, rfl⟩

theorem RInv.shutdown {c : RCfg} {s : RSt} (h : RInv s) : RInv (shutdown c s) := by
  have hb := RInv.backup (c := c) h
  exact ⟨hb.nonneg, hb.le, hb.syncR, hb.syncW, hb.syncD⟩

/-- a new life recovers exactly the indexes of the previous one -/
theorem restartIdx_eq {s : RSt} (h : RInv s) : restartIdx s = (s.ri, s.wi) := by
  unfold restartIdx
  rcases h.syncR with a | ⟨a, a'⟩ <;> rcases h.syncW with b | ⟨b, b'⟩
  · rw [a, b]
  · rw [a, b]; have := h.le; simp only []; congr 1 <;> omega
  · rw [a, b]; simp only []; rw [a']
  · rw [a, b]; simp only []; rw [a', b']

theorem restoreSize_nonneg (c : RCfg) (ri wi : Nat) (si : Option Nat) : 0 ≤ restoreSize c ri wi si := by
  unfold restoreSize
  simp only []
  split
  · split <;> omega
  · omega

/-- facts about the re-enqueue loop, for every sizer: the read index does not move, the write index and the size only grow,
and when nothing was re-enqueued the size is unchanged; the stored list of dispatched items ends empty -/
theorem reenqueue_facts (c : RCfg) : ∀ (l : List Nat) (s : RSt),
    (reenqueue c s l).ri = s.ri ∧ s.wi ≤ (reenqueue c s l).wi ∧ s.size ≤ (reenqueue c s l).size ∧
    ((reenqueue c s l).wi = s.wi → (reenqueue c s l).size = s.size) ∧ (reenqueue c s l).disp = s.disp ∧
    (s.sDi = l → (reenqueue c s l).sDi = []) ∧ (reenqueue c s l).sRi = s.sRi ∧
    ((reenqueue c s l).sWi = s.sWi ∧ (reenqueue c s l).wi = s.wi ∨ (reenqueue c s l).sWi = some (reenqueue c s l).wi) := by
  intro l
  induction l with
  | nil => intro s; exact ⟨rfl, Nat.le_refl _, Int.le_refl _, fun _ => rfl, rfl, fun h => h, rfl, Or.inl ⟨rfl, rfl⟩⟩
  | cons it rest ih =>
    intro s
    simp only [reenqueue]
    split
    · obtain ⟨a1, a2, a3, a4, a5, a6, a7, a8⟩ := ih { s with sDi := rest }
      exact ⟨a1, a2, a3, a4, a5, fun _ => a6 rfl, a7, a8⟩
    · rename_i id n _
      obtain ⟨w1, w2, w3, w4, w5, w6, w7, _, _⟩ := writeInternal_fields c { s with store := s.store.filter (fun x => x.1 != it), sDi := rest } id n
      obtain ⟨a1, a2, a3, a4, a5, a6, a7, a8⟩ := ih (writeInternal c { s with store := s.store.filter (fun x => x.1 != it), sDi := rest } id n)
      have hs := sizeOf_nonneg c n
      simp only [] at w1 w2 w3 w4 w5 w6 w7
      refine ⟨by rw [a1, w2], by omega, by omega, fun h => by omega, by rw [a5, w4], fun _ => a6 w7, by rw [a7, w5], ?_⟩
      right
      rcases a8 with ⟨b1, b2⟩ | b
      · rw [b1, b2, w6, w3]
      · exact b

/-- with the requests sizer the re-enqueue loop keeps `size - wi` -/
theorem reenqueue_req (c : RCfg) (hc : c.reqSized = true) : ∀ (l : List Nat) (s : RSt),
    (reenqueue c s l).size - (reenqueue c s l).wi = s.size - s.wi := by
  intro l
  induction l with
  | nil => intro s; rfl
  | cons it rest ih =>
    intro s
    simp only [reenqueue]
    split
    · exact ih _
    · rename_i id n _
      obtain ⟨w1, _, w3, _⟩ := writeInternal_fields c { s with store := s.store.filter (fun x => x.1 != it), sDi := rest } id n
      rw [ih, w1, w3, sizeOf_req c n hc]
      simp only []
      omega

theorem RInv.restart {c : RCfg} {s : RSt} (h : RInv s) : RInv (restart c s) := by
  unfold R.restart
  simp only []
  rw [restartIdx_eq h]
  simp only []
  obtain ⟨a1, a2, a3, _, a5, a6, a7, a8⟩ := reenqueue_facts c s.sDi
    { ri := s.ri, wi := s.wi, disp := [], size := restoreSize c s.ri s.wi s.sSi, stopped := false, infl := [],
      sRi := s.sRi, sWi := s.sWi, sDi := s.sDi, sSi := s.sSi, store := s.store, next := s.next, siFails := s.siFails }
  simp only [] at a1 a2 a3 a5 a6 a7 a8
  refine ⟨?_, ?_, ?_, ?_, ?_⟩
  · have := restoreSize_nonneg c s.ri s.wi s.sSi; omega
  · rw [a1]; have := h.le; omega
  · rw [a7, a1]; exact h.syncR
  · rcases a8 with ⟨b1, b2⟩ | b
    · rw [b1, b2]; exact h.syncW
    · exact Or.inl b
  · rw [a5, a6 trivial]

theorem RInv.step {c : RCfg} {s : RSt} (h : RInv s) (o : ROp) : RInv (step c s o).2.1 := by
  cases o with
  | offer n => exact RInv.offer h n
  | read =>
    simp only [R.step]
    cases hr : R.read c s with
    | none => exact h
    | some r => exact RInv.read (r := r.2) h hr
  | done idx e =>
    simp only [R.step]
    cases hd : R.done c s idx e with
    | none => exact h
    | some s' => exact RInv.done h hd
  | shutdown => exact RInv.shutdown h
  | restart c' => exact RInv.restart h

theorem RInv.run {c : RCfg} {s : RSt} (h : RInv s) (ops : List ROp) : RInv (run c s ops).2 := by
  induction ops generalizing c s with
  | nil => exact h
  | cons o os ih => simp only [R.run]; exact ih (RInv.step h o)

/-- requests sizer, ANY previous history: right after a (re)start the size is exactly the number of stored request slots -/
theorem restart_req_exact {c : RCfg} (hc : c.reqSized = true) {s : RSt} (h : RInv s) :
    (restart c s).size = (((restart c s).wi - (restart c s).ri : Nat) : Int) := by
  have hr := RInv.restart (c := c) h
  have hle := hr.le
  unfold R.restart at hle ⊢
  simp only [] at hle ⊢
  rw [restartIdx_eq h] at hle ⊢
  simp only [] at hle ⊢
  have e := reenqueue_req c hc s.sDi
    { ri := s.ri, wi := s.wi, disp := [], size := restoreSize c s.ri s.wi s.sSi, stopped := false, infl := [],
      sRi := s.sRi, sWi := s.sWi, sDi := s.sDi, sSi := s.sSi, store := s.store, next := s.next, siFails := s.siFails }
  obtain ⟨a1, _⟩ := reenqueue_facts c s.sDi
    { ri := s.ri, wi := s.wi, disp := [], size := restoreSize c s.ri s.wi s.sSi, stopped := false, infl := [],
      sRi := s.sRi, sWi := s.sWi, sDi := s.sDi, sSi := s.sSi, store := s.store, next := s.next, siFails := s.siFails }
  simp only [] at e a1
  have hq : restoreSize c s.ri s.wi s.sSi = ((s.wi - s.ri : Nat) : Int) := by simp [restoreSize, hc]
  rw [a1] at hle ⊢
  have := h.le
  omega

/-- every sizer, ANY previous history: when nothing is queued right after a (re)start the size is 0 -/
theorem restart_empty_zero {c : RCfg} {s : RSt} (h : RInv s) (he : (restart c s).wi = (restart c s).ri) :
    (restart c s).size = 0 := by
  unfold R.restart at he ⊢
  simp only [] at he ⊢
  rw [restartIdx_eq h] at he ⊢
  simp only [] at he ⊢
  obtain ⟨a1, a2, _, a4, _⟩ := reenqueue_facts c s.sDi
    { ri := s.ri, wi := s.wi, disp := [], size := restoreSize c s.ri s.wi s.sSi, stopped := false, infl := [],
      sRi := s.sRi, sWi := s.sWi, sDi := s.sDi, sSi := s.sSi, store := s.store, next := s.next, siFails := s.siFails }
  simp only [] at a1 a2 a4
  have hle := h.le
  have hw : s.wi = s.ri := by omega
  rw [a4 (by omega)]
  simp [restoreSize, hw]

end OtelVerif.C02.R
