import OtelVerif.Model.C03
/-! helper lemmas for C03: list bookkeeping and the step-wise preservation of the LTS invariants -/
namespace OtelVerif.C03

/-! ## generic list facts -/

theorem count_flatMap_set {α : Type} (g : α → List Item) (x : Item) :
    ∀ (l : List α) (i : Nat) (old v : α), l[i]? = some old →
      ((l.set i v).flatMap g).count x + (g old).count x = (l.flatMap g).count x + (g v).count x
  | [], i, old, v, h => by simp at h
  | a :: l, 0, old, v, h => by
    simp at h; subst h
    simp [List.flatMap_cons, List.count_append]; omega
  | a :: l, i + 1, old, v, h => by
    simp at h
    have := count_flatMap_set g x l i old v h
    simp [List.flatMap_cons, List.count_append]; omega

theorem flatMap_set_same {α β : Type} (g : α → List β) :
    ∀ (l : List α) (i : Nat) (old v : α), l[i]? = some old → g v = g old → (l.set i v).flatMap g = l.flatMap g
  | [], i, old, v, h, _ => by simp at h
  | a :: l, 0, old, v, h, hg => by simp at h; subst h; simp [List.flatMap_cons, hg]
  | a :: l, i + 1, old, v, h, hg => by
    simp at h
    simp [List.flatMap_cons, flatMap_set_same g l i old v h hg]

theorem mem_of_getElem? {α : Type} {l : List α} {i : Nat} {a : α} (h : l[i]? = some a) : a ∈ l :=
  List.mem_iff_getElem?.mpr ⟨i, h⟩

theorem afterFlush_items (l : List Batch) : (afterFlush l).items = l.flatten := by
  cases l <;> simp [afterFlush, CSt.items]

theorem afterFlush_ne_exited (l : List Batch) : afterFlush l ≠ .exited := by
  cases l <;> simp [afterFlush]

theorem afterFlush_ne_busy (l : List Batch) (f : Nat) : afterFlush l ≠ .busy f := by
  cases l <;> simp [afterFlush]

theorem flightItems_append_new (fs : List Flight) (b : Batch) (o : Option Nat) :
    flightItems (fs ++ [Flight.new b o]) = flightItems fs ++ b := by
  simp [flightItems, Flight.new, List.flatMap_append]

theorem flightItems_set (fs : List Flight) (f : Nat) (fl v : Flight) (h : fs[f]? = some fl) (hb : v.batch = fl.batch) :
    flightItems (fs.set f v) = flightItems fs :=
  flatMap_set_same (fun fl : Flight => fl.batch) fs f fl v h hb

theorem consItems_set_count (cs : List CSt) (i : Nat) (old v : CSt) (x : Item) (h : cs[i]? = some old) :
    (consItems (cs.set i v)).count x + old.items.count x = (consItems cs).count x + v.items.count x :=
  count_flatMap_set CSt.items x cs i old v h

theorem consItems_set_same (cs : List CSt) (i : Nat) (old v : CSt) (h : cs[i]? = some old) (hv : v.items = old.items) :
    consItems (cs.set i v) = consItems cs :=
  flatMap_set_same CSt.items cs i old v h hv

theorem consItems_releaseOwner (cs : List CSt) (f : Nat) (o : Option Nat) : consItems (releaseOwner cs f o) = consItems cs := by
  cases o with
  | none => rfl
  | some i =>
    simp only [releaseOwner]
    split
    · next h => exact consItems_set_same cs i _ _ h rfl
    · rfl

theorem finalise_places (s : State) (f : Nat) (fl : Flight) (kept : Bool) (fail : Nat) (h : s.flights[f]? = some fl) :
    places (finalise s f fl kept fail) = places s := by
  have := flightItems_set s.flights f fl { fl with st := .done, failures := fl.failures + fail, kept := kept } h rfl
  simp only [finalise, places, consItems_releaseOwner, this]

theorem finalise_placesEarly (s : State) (f : Nat) (fl : Flight) (kept : Bool) (fail : Nat) (h : s.flights[f]? = some fl) :
    placesEarly (finalise s f fl kept fail) = placesEarly s := by
  have := flightItems_set s.flights f fl { fl with st := .done, failures := fl.failures + fail, kept := kept } h rfl
  simp only [finalise, placesEarly, consItems_releaseOwner, this]

theorem queueItems_append (q : List (Batch × Bool)) (b : Batch) (l : Bool) : queueItems (q ++ [(b, l)]) = queueItems q ++ b := by
  simp [queueItems, List.flatMap_append]

theorem queueEarly_append (q : List (Batch × Bool)) (b : Batch) (l : Bool) :
    queueEarly (q ++ [(b, l)]) = queueEarly q ++ (if l then [] else b) := by
  simp [queueEarly, List.flatMap_append]

/-! ## `Step`: the transition relation, one constructor per branch of `fire` -/

def failOf : Outcome → Nat
  | .ok => 0
  | _ => 1

inductive Step : State → Label → State → Prop
  | offer (s : State) (b : Batch) (hopen : ¬(s.cfg.persistent = false ∧ 2 ≤ s.phase)) : Step s (.offer b)
      { s with
        queue := s.queue ++ [(b, decide (1 ≤ s.phase))]
        accepted := s.accepted ++ b
        early := if s.phase = 0 then s.early ++ b else s.early
        stored := if s.cfg.persistent then s.stored ++ b else s.stored
        reqs := s.reqs ++ [b]
        qsize := s.qsize + reqSize s.cfg b }
  | read (s : State) (i : Nat) (b : Batch) (late : Bool) (rest : List (Batch × Bool))
      (hc : s.cons[i]? = some .idle) (hq : s.queue = (b, late) :: rest) (hg : ¬(s.cfg.persistent = true ∧ 2 ≤ s.phase)) :
      Step s (.read i) { s with queue := rest, cons := s.cons.set i (.holding b)
                                qsize := if s.cfg.persistent && rest.isEmpty then 0 else s.qsize }
  | exit (s : State) (i : Nat) (hc : s.cons[i]? = some .idle) (hp : 2 ≤ s.phase) (hq : s.cfg.persistent = true ∨ s.queue = []) :
      Step s (.exit i) { s with cons := s.cons.set i .exited }
  | sendSync (s : State) (i : Nat) (b : Batch) (hc : s.cons[i]? = some (.holding b)) (hb : s.cfg.batching = false) :
      Step s (.sendSync i) { s with cons := s.cons.set i (.busy s.flights.length), flights := s.flights ++ [Flight.new b (some i)] }
  | consume (s : State) (i : Nat) (b : Batch) (flush : List Batch) (keep : Option Batch)
      (hc : s.cons[i]? = some (.holding b)) (hb : s.cfg.batching = true)
      (hp : (flush.flatten ++ keep.getD []).Perm (s.cur.getD [] ++ b)) :
      Step s (.consume i flush keep) { s with cur := keep, cons := s.cons.set i (afterFlush flush) }
  | spawn (s : State) (i : Nat) (b : Batch) (rest : List Batch) (hc : s.cons[i]? = some (.flushing (b :: rest))) (hw : 0 < s.workers) :
      Step s (.spawn i)
        { s with workers := s.workers - 1, cons := s.cons.set i (afterFlush rest), flights := s.flights ++ [Flight.new b none] }
  | timerTake (s : State) (b : Batch) (ht : s.timer = .idle) (hc : s.cur = some b) :
      Step s .timerTake { s with timer := .holding b, cur := none }
  | timerSpawn (s : State) (b : Batch) (ht : s.timer = .holding b) (hw : 0 < s.workers) :
      Step s .timerSpawn { s with workers := s.workers - 1, timer := .idle, flights := s.flights ++ [Flight.new b none] }
  | timerExit (s : State) (ht : s.timer = .idle) (hp : 4 ≤ s.phase) : Step s .timerExit { s with timer := .dead }
  | expStart (s : State) (f : Nat) (fl : Flight) (hfl : s.flights[f]? = some fl) (hs : fl.st = .pending ∨ fl.st = .backoff) :
      Step s (.expStart f) { s with flights := s.flights.set f { fl with st := .calling, attempts := fl.attempts + 1 } }
  | expEndDrop (s : State) (f : Nat) (fl : Flight) (o : Outcome) (hfl : s.flights[f]? = some fl) (hs : fl.st = .calling) :
      Step s (.expEnd f o .drop) (finalise s f fl false (failOf o))
  | expEndAgain (s : State) (f : Nat) (fl : Flight) (hfl : s.flights[f]? = some fl) (hs : fl.st = .calling) (hr : s.cfg.retry = true)
      (hp0 : s.phase = 0) :
      Step s (.expEnd f .trans .again) { s with flights := s.flights.set f { fl with st := .backoff, failures := fl.failures + 1 } }
  | expEndKeep (s : State) (f : Nat) (fl : Flight) (hfl : s.flights[f]? = some fl) (hs : fl.st = .calling) (hr : s.cfg.retry = true)
      (hp : 1 ≤ s.phase) : Step s (.expEnd f .trans .keep) (finalise s f fl true 1)
  | giveUp (s : State) (f : Nat) (fl : Flight) (kept : Bool) (hfl : s.flights[f]? = some fl) (hs : fl.st = .backoff)
      (hk : kept = true → 1 ≤ s.phase) : Step s (.giveUp f kept) (finalise s f fl kept 0)
  | shutRetry (s : State) (hp : s.phase = 0) : Step s .shutRetry { s with phase := 1 }
  | shutQueue (s : State) (hp : s.phase = 1) : Step s .shutQueue { s with phase := 2 }
  | join (s : State) (hp : s.phase = 2) (hall : ∀ c ∈ s.cons, c = .exited) : Step s .join { s with phase := 3 }
  | shutBatcher (s : State) (hp : s.phase = 3) (hh : s.shutHand = none) :
      Step s .shutBatcher { s with phase := 4, shutHand := s.cur, cur := none }
  | shutSpawn (s : State) (b : Batch) (hh : s.shutHand = some b) (hp : s.phase = 4) (hw : 0 < s.workers) :
      Step s .shutSpawn { s with shutHand := none, workers := s.workers - 1, flights := s.flights ++ [Flight.new b none] }
  | shutWait (s : State) (hp : s.phase = 4)
      (hb : s.cfg.batching = true → s.shutHand = none ∧ s.timer = .dead ∧ ∀ fl ∈ s.flights, fl.owner.isSome = true ∨ fl.st = .done) :
      Step s .shutWait { s with phase := 5 }

theorem fire_step {s s' : State} {l : Label} (hf : fire s l = some s') : Step s l s' := by
  cases l with
  | offer b =>
    simp only [fire] at hf
    split at hf
    · simp at hf
    · next hopen => simp only [Option.some.injEq] at hf; subst hf; exact .offer s b hopen
  | read i =>
    simp only [fire] at hf
    split at hf
    · next b late rest hc hq =>
      split at hf
      · simp at hf
      · next hg =>
        simp only [Option.some.injEq] at hf; subst hf
        exact .read s i b late rest hc hq (by simpa using hg)
    · simp at hf
  | exit i =>
    simp only [fire] at hf
    split at hf
    · next hc =>
      split at hf
      · next hg => simp only [Option.some.injEq] at hf; subst hf; exact .exit s i hc hg.1 hg.2
      · simp at hf
    · simp at hf
  | sendSync i =>
    simp only [fire] at hf
    split at hf
    · next b hc =>
      split at hf
      · simp at hf
      · next hg => simp only [Option.some.injEq] at hf; subst hf; exact .sendSync s i b hc (by simpa using hg)
    · simp at hf
  | consume i flush keep =>
    simp only [fire] at hf
    split at hf
    · next b hc =>
      split at hf
      · next hg =>
        simp only [Option.some.injEq] at hf; subst hf
        simp only [Bool.and_eq_true, List.isPerm_iff] at hg
        exact .consume s i b flush keep hc hg.1 hg.2
      · simp at hf
    · simp at hf
  | spawn i =>
    simp only [fire] at hf
    split at hf
    · next b rest hc =>
      split at hf
      · next hw => simp only [Option.some.injEq] at hf; subst hf; exact .spawn s i b rest hc hw
      · simp at hf
    · simp at hf
  | timerTake =>
    simp only [fire] at hf
    split at hf
    · next b ht hc => simp only [Option.some.injEq] at hf; subst hf; exact .timerTake s b ht hc
    · simp at hf
  | timerSpawn =>
    simp only [fire] at hf
    split at hf
    · next b ht =>
      split at hf
      · next hw => simp only [Option.some.injEq] at hf; subst hf; exact .timerSpawn s b ht hw
      · simp at hf
    · simp at hf
  | timerExit =>
    simp only [fire] at hf
    split at hf
    · next ht =>
      split at hf
      · next hp => simp only [Option.some.injEq] at hf; subst hf; exact .timerExit s ht hp
      · simp at hf
    · simp at hf
  | expStart f =>
    simp only [fire] at hf
    split at hf
    · next fl hfl =>
      split at hf
      · next hs => simp only [Option.some.injEq] at hf; subst hf; exact .expStart s f fl hfl hs
      · simp at hf
    · simp at hf
  | expEnd f o a =>
    simp only [fire] at hf
    split at hf
    · next fl hfl =>
      split at hf
      · next hs =>
        split at hf
        · simp only [Option.some.injEq] at hf; subst hf; exact .expEndDrop s f fl .ok hfl hs
        · simp only [Option.some.injEq] at hf; subst hf; exact .expEndDrop s f fl .perm hfl hs
        · simp only [Option.some.injEq] at hf; subst hf; exact .expEndDrop s f fl .trans hfl hs
        · split at hf
          · next hr =>
            simp only [Option.some.injEq] at hf; subst hf
            simp only [Bool.and_eq_true, decide_eq_true_eq] at hr
            exact .expEndAgain s f fl hfl hs hr.1 hr.2
          · simp at hf
        · split at hf
          · next hr =>
            simp only [Option.some.injEq] at hf; subst hf
            simp only [Bool.and_eq_true, decide_eq_true_eq] at hr
            exact .expEndKeep s f fl hfl hs hr.1 hr.2
          · simp at hf
        · simp at hf
      · simp at hf
    · simp at hf
  | giveUp f kept =>
    simp only [fire] at hf
    split at hf
    · next fl hfl =>
      split at hf
      · next hg => simp only [Option.some.injEq] at hf; subst hf; exact .giveUp s f fl kept hfl hg.1 hg.2
      · simp at hf
    · simp at hf
  | shutRetry => simp only [fire] at hf; split at hf <;> simp at hf; next hp => subst hf; exact .shutRetry s hp
  | shutQueue => simp only [fire] at hf; split at hf <;> simp at hf; next hp => subst hf; exact .shutQueue s hp
  | join =>
    simp only [fire] at hf
    split at hf
    · next hg =>
      simp only [Option.some.injEq] at hf; subst hf
      refine .join s hg.1 ?_
      intro c hc
      have := List.all_eq_true.mp hg.2 c hc
      simpa using this
    · simp at hf
  | shutBatcher =>
    simp only [fire] at hf
    split at hf
    · next hg => simp only [Option.some.injEq] at hf; subst hf; exact .shutBatcher s hg.1 hg.2
    · simp at hf
  | shutSpawn =>
    simp only [fire] at hf
    split at hf
    · next b hh =>
      split at hf
      · next hg => simp only [Option.some.injEq] at hf; subst hf; exact .shutSpawn s b hh hg.1 hg.2
      · simp at hf
    · simp at hf
  | shutWait =>
    simp only [fire] at hf
    split at hf
    · next hg =>
      simp only [Option.some.injEq] at hf; subst hf
      refine .shutWait s hg.1 ?_
      intro hb
      obtain ⟨h1, h2, h3⟩ := hg.2 hb
      refine ⟨h1, h2, ?_⟩
      intro fl hfl
      have := List.all_eq_true.mp h3 fl hfl
      simpa using this
    · simp at hf


theorem step_fire {s s' : State} {l : Label} (h : Step s l s') : fire s l = some s' := by
  cases h with
  | consume i b flush keep hc hb hp => simp [fire, hc, hb, List.isPerm_iff.mpr hp]
  | expEndDrop f fl o hfl hs => cases o <;> simp [fire, hfl, hs, failOf]
  | join hp hall => simp only [fire, hp, true_and]; rw [if_pos]; exact List.all_eq_true.mpr (fun c hc => by simp [hall c hc])
  | shutWait hp hb =>
    simp only [fire, hp, true_and]; rw [if_pos]
    intro hbt
    obtain ⟨h1, h2, h3⟩ := hb hbt
    refine ⟨h1, h2, List.all_eq_true.mpr (fun fl hfl => ?_)⟩
    cases h3 fl hfl with
    | inl h => simp [h]
    | inr h => simp [h]
  | _ => simp_all [fire]

def Conserved (s : State) : Prop := ∀ x, s.accepted.count x = (places s).count x
def EarlyConserved (s : State) : Prop := ∀ x, s.early.count x ≤ (placesEarly s).count x

theorem conserved_step {s s' : State} {l : Label} (h : Conserved s) (hs : Step s l s') : Conserved s' := by
  intro x
  have hx := h x
  cases hs with
  | offer b => simp only [places, queueItems_append, List.count_append] at hx ⊢; omega
  | read i b late rest hc hq hg =>
    have := consItems_set_count s.cons i .idle (.holding b) x hc
    simp only [places, hq, queueItems, List.flatMap_cons, List.count_append, CSt.items, List.count_nil] at hx this ⊢
    omega
  | exit i hc hp hq =>
    have := consItems_set_same s.cons i .idle .exited hc rfl
    simp only [places, this] at hx ⊢; exact hx
  | sendSync i b hc hb =>
    have := consItems_set_count s.cons i (.holding b) (.busy s.flights.length) x hc
    simp only [places, flightItems_append_new, List.count_append, CSt.items, List.count_nil] at hx this ⊢
    omega
  | consume i b flush keep hc hb hp =>
    have hp := hp.count_eq x
    have := consItems_set_count s.cons i (.holding b) (afterFlush flush) x hc
    simp only [afterFlush_items] at this
    simp only [places, List.count_append, CSt.items] at hx this hp ⊢
    cases hk : keep <;> cases hcur : s.cur <;> simp only [hk, hcur, optItems, Option.getD, List.count_nil] at hx hp ⊢ <;> omega
  | spawn i b rest hc hw =>
    have := consItems_set_count s.cons i (.flushing (b :: rest)) (afterFlush rest) x hc
    simp only [afterFlush_items] at this
    simp only [places, flightItems_append_new, List.count_append, CSt.items, List.flatten_cons] at hx this ⊢
    omega
  | timerTake b ht hc => simp only [places, ht, hc, optItems, TSt.items, List.count_append, List.count_nil] at hx ⊢; omega
  | timerSpawn b ht hw => simp only [places, ht, TSt.items, flightItems_append_new, List.count_append, List.count_nil] at hx ⊢; omega
  | timerExit ht hp => simp only [places, ht, TSt.items] at hx ⊢; exact hx
  | expStart f fl hfl hs =>
    have := flightItems_set s.flights f fl { fl with st := .calling, attempts := fl.attempts + 1 } hfl rfl
    simp only [places, this] at hx ⊢; exact hx
  | expEndDrop f fl o hfl hs => rw [finalise_places _ _ _ _ _ hfl]; exact hx
  | expEndAgain f fl hfl hs hr hp0 =>
    have := flightItems_set s.flights f fl { fl with st := .backoff, failures := fl.failures + 1 } hfl rfl
    simp only [places, this] at hx ⊢; exact hx
  | expEndKeep f fl hfl hs hr hp => rw [finalise_places _ _ _ _ _ hfl]; exact hx
  | giveUp f fl kept hfl hs hk => rw [finalise_places _ _ _ _ _ hfl]; exact hx
  | shutRetry hp => exact hx
  | shutQueue hp => exact hx
  | join hp hall => exact hx
  | shutBatcher hp hh => simp only [places, hh, optItems, List.count_append, List.count_nil] at hx ⊢; omega
  | shutSpawn b hh hp hw => simp only [places, hh, optItems, flightItems_append_new, List.count_append, List.count_nil] at hx ⊢; omega
  | shutWait hp hb => exact hx

theorem earlyConserved_step {s s' : State} {l : Label} (h : EarlyConserved s) (hs : Step s l s') : EarlyConserved s' := by
  intro x
  have hx := h x
  cases hs with
  | offer b =>
    simp only [placesEarly, queueEarly_append, List.count_append] at hx ⊢
    by_cases hp : s.phase = 0
    · have : decide (1 ≤ s.phase) = false := by simp [hp]
      simp only [hp, if_true, List.count_append]; simp; omega
    · have : decide (1 ≤ s.phase) = true := by simp; omega
      simp only [hp, this, if_true, if_false, List.count_nil]; omega
  | read i b late rest hc hq hg =>
    have := consItems_set_count s.cons i .idle (.holding b) x hc
    simp only [placesEarly, hq, queueEarly, List.flatMap_cons, List.count_append, CSt.items, List.count_nil] at hx this ⊢
    cases late <;> simp at hx ⊢ <;> omega
  | exit i hc hp hq =>
    have := consItems_set_same s.cons i .idle .exited hc rfl
    simp only [placesEarly, this] at hx ⊢; exact hx
  | sendSync i b hc hb =>
    have := consItems_set_count s.cons i (.holding b) (.busy s.flights.length) x hc
    simp only [placesEarly, flightItems_append_new, List.count_append, CSt.items, List.count_nil] at hx this ⊢
    omega
  | consume i b flush keep hc hb hp =>
    have hp := hp.count_eq x
    have := consItems_set_count s.cons i (.holding b) (afterFlush flush) x hc
    simp only [afterFlush_items] at this
    simp only [placesEarly, List.count_append, CSt.items] at hx this hp ⊢
    cases hk : keep <;> cases hcur : s.cur <;> simp only [hk, hcur, optItems, Option.getD, List.count_nil] at hx hp ⊢ <;> omega
  | spawn i b rest hc hw =>
    have := consItems_set_count s.cons i (.flushing (b :: rest)) (afterFlush rest) x hc
    simp only [afterFlush_items] at this
    simp only [placesEarly, flightItems_append_new, List.count_append, CSt.items, List.flatten_cons] at hx this ⊢
    omega
  | timerTake b ht hc => simp only [placesEarly, ht, hc, optItems, TSt.items, List.count_append, List.count_nil] at hx ⊢; omega
  | timerSpawn b ht hw => simp only [placesEarly, ht, TSt.items, flightItems_append_new, List.count_append, List.count_nil] at hx ⊢; omega
  | timerExit ht hp => simp only [placesEarly, ht, TSt.items] at hx ⊢; exact hx
  | expStart f fl hfl hs =>
    have := flightItems_set s.flights f fl { fl with st := .calling, attempts := fl.attempts + 1 } hfl rfl
    simp only [placesEarly, this] at hx ⊢; exact hx
  | expEndDrop f fl o hfl hs => rw [finalise_placesEarly _ _ _ _ _ hfl]; exact hx
  | expEndAgain f fl hfl hs hr hp0 =>
    have := flightItems_set s.flights f fl { fl with st := .backoff, failures := fl.failures + 1 } hfl rfl
    simp only [placesEarly, this] at hx ⊢; exact hx
  | expEndKeep f fl hfl hs hr hp => rw [finalise_placesEarly _ _ _ _ _ hfl]; exact hx
  | giveUp f fl kept hfl hs hk => rw [finalise_placesEarly _ _ _ _ _ hfl]; exact hx
  | shutRetry hp => exact hx
  | shutQueue hp => exact hx
  | join hp hall => exact hx
  | shutBatcher hp hh => simp only [placesEarly, hh, optItems, List.count_append, List.count_nil] at hx ⊢; omega
  | shutSpawn b hh hp hw => simp only [placesEarly, hh, optItems, flightItems_append_new, List.count_append, List.count_nil] at hx ⊢; omega
  | shutWait hp hb => exact hx



/-- per-flight counters: what `attempts` and `failures` can be in each state -/
def FlightOK (fl : Flight) : Prop :=
  match fl.st with
  | .pending => fl.attempts = 0 ∧ fl.failures = 0
  | .calling => fl.attempts = fl.failures + 1
  | .backoff => fl.attempts = fl.failures ∧ 1 ≤ fl.attempts
  | .done => 1 ≤ fl.attempts ∧ (fl.attempts = fl.failures ∨ fl.attempts = fl.failures + 1)

def FlightsOK (s : State) : Prop := ∀ fl ∈ s.flights, FlightOK fl

theorem flightsOK_set {fs : List Flight} {f : Nat} {v : Flight} (h : ∀ fl ∈ fs, FlightOK fl) (hv : FlightOK v) :
    ∀ fl ∈ fs.set f v, FlightOK fl := by
  intro fl hfl
  cases List.mem_or_eq_of_mem_set hfl with
  | inl h1 => exact h fl h1
  | inr h1 => exact h1 ▸ hv

theorem flightsOK_new {fs : List Flight} {b : Batch} {o : Option Nat} (h : ∀ fl ∈ fs, FlightOK fl) :
    ∀ fl ∈ fs ++ [Flight.new b o], FlightOK fl := by
  intro fl hfl
  simp only [List.mem_append, List.mem_singleton] at hfl
  cases hfl with
  | inl h1 => exact h fl h1
  | inr h1 => subst h1; simp [FlightOK, Flight.new]

theorem flightsOK_step {s s' : State} {l : Label} (h : FlightsOK s) (hs : Step s l s') : FlightsOK s' := by
  unfold FlightsOK at *
  cases hs with
  | sendSync i b hc hb => exact flightsOK_new h
  | spawn i b rest hc hw => exact flightsOK_new h
  | timerSpawn b ht hw => exact flightsOK_new h
  | shutSpawn b hh hp hw => exact flightsOK_new h
  | expStart f fl hfl hs =>
    have := h fl (mem_of_getElem? hfl)
    apply flightsOK_set h
    cases hs with
    | inl h1 => simp only [FlightOK, h1] at this ⊢; omega
    | inr h1 => simp only [FlightOK, h1] at this ⊢; omega
  | expEndDrop f fl o hfl hs =>
    have := h fl (mem_of_getElem? hfl)
    apply flightsOK_set h
    simp only [FlightOK, hs] at this ⊢
    cases o <;> simp only [failOf] <;> omega
  | expEndAgain f fl hfl hs hr hp0 =>
    have := h fl (mem_of_getElem? hfl)
    apply flightsOK_set h
    simp only [FlightOK, hs] at this ⊢; omega
  | expEndKeep f fl hfl hs hr hp =>
    have := h fl (mem_of_getElem? hfl)
    apply flightsOK_set h
    simp only [FlightOK, hs] at this ⊢; omega
  | giveUp f fl kept hfl hs hk =>
    have := h fl (mem_of_getElem? hfl)
    apply flightsOK_set h
    simp only [FlightOK, hs] at this ⊢; omega
  | _ => exact h



/-- a live flight that runs on a consumer goroutine is recorded in that consumer's state -/
def OwnerInv (fs : List Flight) (cs : List CSt) : Prop :=
  ∀ (f : Nat) (fl : Flight), fs[f]? = some fl → fl.st ≠ .done → ∀ i, fl.owner = some i → cs[i]? = some (.busy f)

theorem ownerInv_cons_set {fs : List Flight} {cs : List CSt} (w : OwnerInv fs cs) {i : Nat} {old v : CSt}
    (hc : cs[i]? = some old) (hold : ∀ f, old ≠ .busy f) : OwnerInv fs (cs.set i v) := by
  intro f fl hfl hnd j hj
  have := w f fl hfl hnd j hj
  by_cases hij : i = j
  · subst hij; rw [hc] at this; simp at this; exact absurd this (hold f)
  · simp [hij, this]

theorem ownerInv_flights_set {fs : List Flight} {cs : List CSt} (w : OwnerInv fs cs) {f : Nat} {fl v : Flight}
    (hfl : fs[f]? = some fl) (ho : v.owner = fl.owner) (hst : fl.st ≠ .done) : OwnerInv (fs.set f v) cs := by
  intro g gl hgl hnd j hj
  by_cases hfg : f = g
  · subst hfg
    have hlt : f < fs.length := (List.getElem?_eq_some_iff.mp hfl).1
    simp [hlt] at hgl; subst hgl
    exact w f fl hfl hst j (ho ▸ hj)
  · simp [hfg] at hgl
    exact w g gl hgl hnd j hj

theorem getElem?_append_singleton {α : Type} {l : List α} {a b : α} {g : Nat} (h : (l ++ [a])[g]? = some b) :
    l[g]? = some b ∨ (g = l.length ∧ b = a) := by
  by_cases hlt : g < l.length
  · rw [List.getElem?_append_left hlt] at h; exact .inl h
  · simp only [List.getElem?_append, hlt, if_false] at h
    cases hk : g - l.length with
    | zero => simp [hk] at h; exact .inr ⟨by omega, h.symm⟩
    | succ n => simp [hk] at h

theorem ownerInv_new_unowned {fs : List Flight} {cs : List CSt} (w : OwnerInv fs cs) {b : Batch} :
    OwnerInv (fs ++ [Flight.new b none]) cs := by
  intro g gl hgl hnd j hj
  cases getElem?_append_singleton hgl with
  | inl h => exact w g gl h hnd j hj
  | inr h => rw [h.2] at hj; simp [Flight.new] at hj

theorem ownerInv_sendSync {fs : List Flight} {cs : List CSt} (w : OwnerInv fs cs) {i : Nat} {b : Batch}
    (hc : cs[i]? = some (.holding b)) : OwnerInv (fs ++ [Flight.new b (some i)]) (cs.set i (.busy fs.length)) := by
  intro g gl hgl hnd j hj
  have hlt : i < cs.length := (List.getElem?_eq_some_iff.mp hc).1
  cases getElem?_append_singleton hgl with
  | inl h =>
    have := w g gl h hnd j hj
    by_cases hij : i = j
    · subst hij; rw [hc] at this; simp at this
    · simp [hij, this]
  | inr h =>
    rw [h.2] at hj; simp [Flight.new] at hj; subst hj
    simp [hlt, h.1]

theorem ownerInv_release {fs : List Flight} {cs : List CSt} (w : OwnerInv fs cs) {f : Nat} {fl v : Flight}
    (hfl : fs[f]? = some fl) (hv : v.st = .done) : OwnerInv (fs.set f v) (releaseOwner cs f fl.owner) := by
  intro g gl hgl hnd j hj
  by_cases hfg : f = g
  · subst hfg
    have hlt : f < fs.length := (List.getElem?_eq_some_iff.mp hfl).1
    simp [hlt] at hgl; subst hgl; exact absurd hv hnd
  · simp [hfg] at hgl
    have hj' := w g gl hgl hnd j hj
    cases ho : fl.owner with
    | none => simpa [releaseOwner] using hj'
    | some i =>
      simp only [releaseOwner]
      split
      · next hb =>
        by_cases hij : i = j
        · subst hij; rw [hb] at hj'; simp at hj'; exact absurd hj' hfg
        · simp [hij, hj']
      · exact hj'

theorem releaseOwner_all_exited {cs : List CSt} {f : Nat} {o : Option Nat} (h : ∀ c ∈ cs, c = .exited) : releaseOwner cs f o = cs := by
  cases o with
  | none => rfl
  | some i =>
    simp only [releaseOwner]
    split
    · next hb => have := h _ (mem_of_getElem? hb); simp at this
    · rfl

theorem mem_releaseOwner {cs : List CSt} {f : Nat} {o : Option Nat} {c : CSt} (h : c ∈ releaseOwner cs f o) : c ∈ cs ∨ c = .idle := by
  cases o with
  | none => exact .inl h
  | some i =>
    simp only [releaseOwner] at h
    split at h
    · exact List.mem_or_eq_of_mem_set h
    · exact .inl h

/-- structural invariant of the shutdown protocol -/
structure WF (s : State) : Prop where
  nb_cur : s.cfg.batching = false → s.cur = none
  nb_hand : s.cfg.batching = false → s.shutHand = none
  nb_timer : s.cfg.batching = false → s.timer = .dead
  nb_flush : s.cfg.batching = false → ∀ c ∈ s.cons, ∀ p, c ≠ .flushing p
  nb_owned : s.cfg.batching = false → ∀ fl ∈ s.flights, fl.owner.isSome = true
  owner : OwnerInv s.flights s.cons
  joined : 3 ≤ s.phase → ∀ c ∈ s.cons, c = .exited
  cur4 : 4 ≤ s.phase → s.cur = none
  hand3 : s.phase ≤ 3 → s.shutHand = none
  ret : s.phase = 5 → s.cfg.batching = true →
    s.shutHand = none ∧ s.timer = .dead ∧ ∀ fl ∈ s.flights, fl.owner.isSome = true ∨ fl.st = .done

theorem WF.not_joined {s : State} (w : WF s) {i : Nat} {c : CSt} (hc : s.cons[i]? = some c) (hne : c ≠ .exited) : ¬ 3 ≤ s.phase :=
  fun h => hne (w.joined h c (mem_of_getElem? hc))

theorem mem_set_cases {α : Type} {l : List α} {i : Nat} {v a : α} (h : a ∈ l.set i v) : a ∈ l ∨ a = v := List.mem_or_eq_of_mem_set h

theorem mem_append_new {fs : List Flight} {v fl : Flight} (h : fl ∈ fs ++ [v]) : fl ∈ fs ∨ fl = v := by
  simpa using h

theorem wf_init (cfg : Cfg) (n w : Nat) (t : Bool) : WF (init cfg n w t) := by
  refine ⟨?_, ?_, ?_, ?_, ?_, ?_, ?_, ?_, ?_, ?_⟩ <;> simp [init, OwnerInv]
  · intro h; simp [h]



theorem wf_finalise {s : State} (w : WF s) {f : Nat} {fl : Flight} {kept : Bool} {fail : Nat}
    (hfl : s.flights[f]? = some fl) (_hst : fl.st ≠ .done) : WF (finalise s f fl kept fail) := by
  refine ⟨w.nb_cur, w.nb_hand, w.nb_timer, ?_, ?_, ?_, ?_, w.cur4, w.hand3, ?_⟩
  · intro hb c hc p
    cases mem_releaseOwner hc with
    | inl h => exact w.nb_flush hb c h p
    | inr h => simp [h]
  · intro hb gl hgl
    cases mem_set_cases hgl with
    | inl h => exact w.nb_owned hb gl h
    | inr h => subst h; exact w.nb_owned hb fl (mem_of_getElem? hfl)
  · exact ownerInv_release w.owner hfl rfl
  · intro hp c hc
    have : releaseOwner s.cons f fl.owner = s.cons := releaseOwner_all_exited (w.joined hp)
    simp only [finalise, this] at hc
    exact w.joined hp c hc
  · intro hp hb
    obtain ⟨h1, h2, h3⟩ := w.ret hp hb
    refine ⟨h1, h2, ?_⟩
    intro gl hgl
    cases mem_set_cases hgl with
    | inl h => exact h3 gl h
    | inr h => subst h; exact .inr rfl

theorem wf_flight_set {s : State} (w : WF s) {f : Nat} {fl v : Flight}
    (hfl : s.flights[f]? = some fl) (hst : fl.st ≠ .done) (ho : v.owner = fl.owner) : WF { s with flights := s.flights.set f v } := by
  refine ⟨w.nb_cur, w.nb_hand, w.nb_timer, w.nb_flush, ?_, ?_, w.joined, w.cur4, w.hand3, ?_⟩
  · intro hb gl hgl
    cases mem_set_cases hgl with
    | inl h => exact w.nb_owned hb gl h
    | inr h => subst h; rw [ho]; exact w.nb_owned hb fl (mem_of_getElem? hfl)
  · exact ownerInv_flights_set w.owner hfl ho hst
  · intro hp hb
    obtain ⟨h1, h2, h3⟩ := w.ret hp hb
    refine ⟨h1, h2, ?_⟩
    intro gl hgl
    cases mem_set_cases hgl with
    | inl h => exact h3 gl h
    | inr h =>
      subst h
      cases h3 fl (mem_of_getElem? hfl) with
      | inl h4 => exact .inl (ho ▸ h4)
      | inr h4 => exact absurd h4 hst

theorem wf_step {s s' : State} {l : Label} (w : WF s) (hs : Step s l s') : WF s' := by
  cases hs with
  | offer b => exact ⟨w.nb_cur, w.nb_hand, w.nb_timer, w.nb_flush, w.nb_owned, w.owner, w.joined, w.cur4, w.hand3, w.ret⟩
  | read i b late rest hc hq hg =>
    have hnj := w.not_joined hc (by simp)
    refine ⟨w.nb_cur, w.nb_hand, w.nb_timer, ?_, w.nb_owned, ?_, ?_, w.cur4, w.hand3, ?_⟩
    · intro hb c hc' p
      cases mem_set_cases hc' with
      | inl h => exact w.nb_flush hb c h p
      | inr h => simp [h]
    · exact ownerInv_cons_set w.owner hc (by simp)
    · intro hp; exact absurd hp hnj
    · intro hp; exact absurd (by show 3 ≤ s.phase; simp only at hp; omega) hnj
  | exit i hc hp hq =>
    have hnj := w.not_joined hc (by simp)
    refine ⟨w.nb_cur, w.nb_hand, w.nb_timer, ?_, w.nb_owned, ?_, ?_, w.cur4, w.hand3, ?_⟩
    · intro hb c hc' p
      cases mem_set_cases hc' with
      | inl h => exact w.nb_flush hb c h p
      | inr h => simp [h]
    · exact ownerInv_cons_set w.owner hc (by simp)
    · intro hp; exact absurd hp hnj
    · intro hp; exact absurd (by show 3 ≤ s.phase; simp only at hp; omega) hnj
  | sendSync i b hc hb =>
    have hnj := w.not_joined hc (by simp)
    refine ⟨w.nb_cur, w.nb_hand, w.nb_timer, ?_, ?_, ?_, ?_, w.cur4, w.hand3, ?_⟩
    · intro hb c hc' p
      cases mem_set_cases hc' with
      | inl h => exact w.nb_flush hb c h p
      | inr h => simp [h]
    · intro hb' gl hgl
      cases mem_append_new hgl with
      | inl h => exact w.nb_owned hb' gl h
      | inr h => simp [h, Flight.new]
    · exact ownerInv_sendSync w.owner hc
    · intro hp; exact absurd hp hnj
    · intro hp; exact absurd (by show 3 ≤ s.phase; simp only at hp; omega) hnj
  | consume i b flush keep hc hb hp =>
    have hnj := w.not_joined hc (by simp)
    refine ⟨?_, w.nb_hand, w.nb_timer, ?_, w.nb_owned, ?_, ?_, ?_, w.hand3, ?_⟩
    · intro hb'; simp [hb] at hb'
    · intro hb'; simp [hb] at hb'
    · exact ownerInv_cons_set w.owner hc (by simp)
    · intro hp; exact absurd hp hnj
    · intro hp; exact absurd (by show 3 ≤ s.phase; simp only at hp; omega) hnj
    · intro hp; exact absurd (by show 3 ≤ s.phase; simp only at hp; omega) hnj
  | spawn i b rest hc hw =>
    have hnj := w.not_joined hc (by simp)
    have hbt : s.cfg.batching = false → False := fun hb => w.nb_flush hb _ (mem_of_getElem? hc) _ rfl
    refine ⟨w.nb_cur, w.nb_hand, w.nb_timer, ?_, ?_, ?_, ?_, w.cur4, w.hand3, ?_⟩
    · intro hb; exact (hbt hb).elim
    · intro hb; exact (hbt hb).elim
    · exact ownerInv_cons_set (ownerInv_new_unowned w.owner) hc (by simp)
    · intro hp; exact absurd hp hnj
    · intro hp; exact absurd (by show 3 ≤ s.phase; simp only at hp; omega) hnj
  | timerTake b ht hc =>
    refine ⟨fun _ => rfl, w.nb_hand, ?_, w.nb_flush, w.nb_owned, w.owner, w.joined, fun _ => rfl, w.hand3, ?_⟩
    · intro hb; have := w.nb_timer hb; simp [ht] at this
    · intro hp hb; have := (w.ret hp hb).2.1; simp [ht] at this
  | timerSpawn b ht hw =>
    have hbt : s.cfg.batching = false → False := fun hb => by have := w.nb_timer hb; simp [ht] at this
    refine ⟨w.nb_cur, w.nb_hand, ?_, w.nb_flush, ?_, ownerInv_new_unowned w.owner, w.joined, w.cur4, w.hand3, ?_⟩
    · intro hb; exact (hbt hb).elim
    · intro hb; exact (hbt hb).elim
    · intro hp hb; have := (w.ret hp hb).2.1; simp [ht] at this
  | timerExit ht hp =>
    refine ⟨w.nb_cur, w.nb_hand, fun _ => rfl, w.nb_flush, w.nb_owned, w.owner, w.joined, w.cur4, w.hand3, ?_⟩
    intro hp hb; obtain ⟨h1, _, h3⟩ := w.ret hp hb; exact ⟨h1, rfl, h3⟩
  | expStart f fl hfl hs =>
    exact wf_flight_set w hfl (by cases hs with | inl h => simp [h] | inr h => simp [h]) rfl
  | expEndDrop f fl o hfl hs => exact wf_finalise w hfl (by simp [hs])
  | expEndAgain f fl hfl hs hr hp0 => exact wf_flight_set w hfl (by simp [hs]) rfl
  | expEndKeep f fl hfl hs hr hp => exact wf_finalise w hfl (by simp [hs])
  | giveUp f fl kept hfl hs hk => exact wf_finalise w hfl (by simp [hs])
  | shutRetry hp =>
    refine ⟨w.nb_cur, w.nb_hand, w.nb_timer, w.nb_flush, w.nb_owned, w.owner, ?_, ?_, ?_, ?_⟩
    · intro h; simp at h
    · intro h; simp at h
    · intro _; exact w.hand3 (by omega)
    · intro h; simp at h
  | shutQueue hp =>
    refine ⟨w.nb_cur, w.nb_hand, w.nb_timer, w.nb_flush, w.nb_owned, w.owner, ?_, ?_, ?_, ?_⟩
    · intro h; simp at h
    · intro h; simp at h
    · intro _; exact w.hand3 (by omega)
    · intro h; simp at h
  | join hp hall =>
    refine ⟨w.nb_cur, w.nb_hand, w.nb_timer, w.nb_flush, w.nb_owned, w.owner, fun _ => hall, ?_, ?_, ?_⟩
    · intro h; simp at h
    · intro _; exact w.hand3 (by omega)
    · intro h; simp at h
  | shutBatcher hp hh =>
    refine ⟨fun _ => rfl, w.nb_cur, w.nb_timer, w.nb_flush, w.nb_owned, w.owner, ?_, fun _ => rfl, ?_, ?_⟩
    · intro _; exact w.joined (by omega)
    · intro h; simp at h
    · intro h; simp at h
  | shutSpawn b hh hp hw =>
    have hbt : s.cfg.batching = false → False := fun hb => by have := w.nb_hand hb; simp [hh] at this
    refine ⟨w.nb_cur, fun _ => rfl, w.nb_timer, w.nb_flush, ?_, ownerInv_new_unowned w.owner, w.joined, w.cur4, fun _ => rfl, ?_⟩
    · intro hb; exact (hbt hb).elim
    · intro h; simp only at h; omega
  | shutWait hp hb =>
    refine ⟨w.nb_cur, w.nb_hand, w.nb_timer, w.nb_flush, w.nb_owned, w.owner, ?_, ?_, ?_, ?_⟩
    · intro _; exact w.joined (by omega)
    · intro _; exact w.cur4 (by omega)
    · intro h; simp at h
    · intro _ hbt; exact hb hbt



/-- memory queue: once some consumer has left its loop, only requests enqueued after the shutdown request can be in the queue -/
def MemLate (s : State) : Prop :=
  s.cfg.persistent = false → (∃ c ∈ s.cons, c = .exited) → 2 ≤ s.phase ∧ ∀ p ∈ s.queue, p.2 = true

theorem exited_of_set {cs : List CSt} {i : Nat} {v : CSt} (hv : v ≠ .exited) (h : ∃ c ∈ cs.set i v, c = .exited) : ∃ c ∈ cs, c = .exited := by
  obtain ⟨c, hc, he⟩ := h
  cases mem_set_cases hc with
  | inl h1 => exact ⟨c, h1, he⟩
  | inr h1 => exact absurd (h1 ▸ he) hv

theorem exited_of_release {cs : List CSt} {f : Nat} {o : Option Nat} (h : ∃ c ∈ releaseOwner cs f o, c = .exited) : ∃ c ∈ cs, c = .exited := by
  obtain ⟨c, hc, he⟩ := h
  cases mem_releaseOwner hc with
  | inl h1 => exact ⟨c, h1, he⟩
  | inr h1 => rw [h1] at he; simp at he

theorem memLate_step {s s' : State} {l : Label} (h : MemLate s) (hs : Step s l s') : MemLate s' := by
  cases hs with
  | offer b =>
    intro hm he
    obtain ⟨h2, hq⟩ := h hm he
    refine ⟨h2, ?_⟩
    intro p hp
    simp only [List.mem_append, List.mem_singleton] at hp
    cases hp with
    | inl h1 => exact hq p h1
    | inr h1 => subst h1; show decide (1 ≤ s.phase) = true; simp; omega
  | read i b late rest hc hq hg =>
    intro hm he
    obtain ⟨h2, hq'⟩ := h hm (exited_of_set (by simp) he)
    exact ⟨h2, fun p hp => hq' p (by rw [hq]; exact List.mem_cons_of_mem _ hp)⟩
  | exit i hc hp hq =>
    intro hm _
    cases hq with
    | inl h1 => have hm' : s.cfg.persistent = false := hm; rw [hm'] at h1; simp at h1
    | inr h1 => exact ⟨hp, by simp [h1]⟩
  | sendSync i b hc hb => intro hm he; exact h hm (exited_of_set (by simp) he)
  | consume i b flush keep hc hb hp => intro hm he; exact h hm (exited_of_set (afterFlush_ne_exited _) he)
  | spawn i b rest hc hw => intro hm he; exact h hm (exited_of_set (afterFlush_ne_exited _) he)
  | timerTake b ht hc => exact h
  | timerSpawn b ht hw => exact h
  | timerExit ht hp => exact h
  | expStart f fl hfl hs => exact h
  | expEndDrop f fl o hfl hs => intro hm he; exact h hm (exited_of_release he)
  | expEndAgain f fl hfl hs hr hp0 => exact h
  | expEndKeep f fl hfl hs hr hp => intro hm he; exact h hm (exited_of_release he)
  | giveUp f fl kept hfl hs hk => intro hm he; exact h hm (exited_of_release he)
  | shutRetry hp => intro hm he; have := h hm he; exact ⟨by omega, this.2⟩
  | shutQueue hp => intro hm he; have := h hm he; exact ⟨by simp, this.2⟩
  | join hp hall => intro hm he; have := h hm he; exact ⟨by simp, this.2⟩
  | shutBatcher hp hh => intro hm he; have := h hm he; exact ⟨by simp, this.2⟩
  | shutSpawn b hh hp hw => exact h
  | shutWait hp hb => intro hm he; have := h hm he; exact ⟨by simp, this.2⟩

/-- persistent queue: an accepted item is in storage until a flight containing it has ended without a shutdown error -/
def PersistKept (s : State) : Prop :=
  s.cfg.persistent = true → ∀ x ∈ s.accepted, x ∈ s.stored ∨ ∃ fl ∈ s.flights, fl.st = .done ∧ fl.kept = false ∧ x ∈ fl.batch

theorem mem_set_of_ne {fs : List Flight} {f : Nat} {fl v gl : Flight} (hfl : fs[f]? = some fl) (hg : gl ∈ fs) (hne : gl ≠ fl) : gl ∈ fs.set f v := by
  obtain ⟨g, hg⟩ := List.mem_iff_getElem?.mp hg
  have hfg : f ≠ g := by
    intro h; subst h; rw [hfl] at hg; simp at hg; exact hne hg.symm
  exact List.mem_iff_getElem?.mpr ⟨g, by simp [hfg, hg]⟩

theorem persistKept_flight_set {s : State} (h : PersistKept s) {f : Nat} {fl v : Flight} (hfl : s.flights[f]? = some fl) (hst : fl.st ≠ .done) :
    PersistKept { s with flights := s.flights.set f v } := by
  intro hp x hx
  cases h hp x hx with
  | inl h1 => exact .inl h1
  | inr h1 =>
    obtain ⟨gl, hgl, hd, hk, hb⟩ := h1
    exact .inr ⟨gl, mem_set_of_ne hfl hgl (by intro he; rw [he] at hd; exact hst hd), hd, hk, hb⟩

theorem persistKept_new {s : State} (h : PersistKept s) (v : Flight) : PersistKept { s with flights := s.flights ++ [v] } := by
  intro hp x hx
  cases h hp x hx with
  | inl h1 => exact .inl h1
  | inr h1 =>
    obtain ⟨gl, hgl, hd, hk, hb⟩ := h1
    exact .inr ⟨gl, List.mem_append_left _ hgl, hd, hk, hb⟩

theorem persistKept_finalise {s : State} (h : PersistKept s) {f : Nat} {fl : Flight} {kept : Bool} {fail : Nat}
    (hfl : s.flights[f]? = some fl) (hst : fl.st ≠ .done) : PersistKept (finalise s f fl kept fail) := by
  intro hp x hx
  have hlt : f < s.flights.length := (List.getElem?_eq_some_iff.mp hfl).1
  cases h hp x hx with
  | inl h1 =>
    by_cases hk : kept = true
    · left; simp [finalise, hk, h1]
    · by_cases hxb : x ∈ fl.batch
      · right
        refine ⟨{ fl with st := .done, failures := fl.failures + fail, kept := kept }, ?_, rfl, by simpa using hk, hxb⟩
        exact List.mem_iff_getElem?.mpr ⟨f, by simp [finalise, hlt]⟩
      · left; simp [finalise, hk, h1, hxb]
  | inr h1 =>
    obtain ⟨gl, hgl, hd, hk, hb⟩ := h1
    exact .inr ⟨gl, mem_set_of_ne hfl hgl (by intro he; rw [he] at hd; exact hst hd), hd, hk, hb⟩

theorem persistKept_step {s s' : State} {l : Label} (h : PersistKept s) (hs : Step s l s') : PersistKept s' := by
  cases hs with
  | offer b =>
    intro hp x hx
    have hp' : s.cfg.persistent = true := hp
    simp only [List.mem_append] at hx
    cases hx with
    | inl h1 =>
      cases h hp x h1 with
      | inl h2 => left; simp only [hp', if_true, List.mem_append]; exact .inl h2
      | inr h2 => exact .inr h2
    | inr h1 => left; simp only [hp', if_true, List.mem_append]; exact .inr h1
  | read i b late rest hc hq hg => exact h
  | exit i hc hp hq => exact h
  | sendSync i b hc hb => exact persistKept_new h _
  | consume i b flush keep hc hb hp => exact h
  | spawn i b rest hc hw => exact persistKept_new h _
  | timerTake b ht hc => exact h
  | timerSpawn b ht hw => exact persistKept_new h _
  | timerExit ht hp => exact h
  | expStart f fl hfl hs => exact persistKept_flight_set h hfl (by cases hs with | inl h => simp [h] | inr h => simp [h])
  | expEndDrop f fl o hfl hs => exact persistKept_finalise h hfl (by simp [hs])
  | expEndAgain f fl hfl hs hr hp0 => exact persistKept_flight_set h hfl (by simp [hs])
  | expEndKeep f fl hfl hs hr hp => exact persistKept_finalise h hfl (by simp [hs])
  | giveUp f fl kept hfl hs hk => exact persistKept_finalise h hfl (by simp [hs])
  | shutRetry hp => exact h
  | shutQueue hp => exact h
  | join hp hall => exact h
  | shutBatcher hp hh => exact h
  | shutSpawn b hh hp hw => exact persistKept_new h _
  | shutWait hp hb => exact h


/-- `early ⊆ accepted` -/
def EarlySub (s : State) : Prop := ∀ x ∈ s.early, x ∈ s.accepted

theorem earlySub_step {s s' : State} {l : Label} (h : EarlySub s) (hs : Step s l s') : EarlySub s' := by
  cases hs with
  | offer b =>
    intro x hx
    show x ∈ s.accepted ++ b
    have hx' : x ∈ (if s.phase = 0 then s.early ++ b else s.early) := hx
    split at hx'
    · simp only [List.mem_append] at hx' ⊢
      cases hx' with
      | inl h1 => exact .inl (h x h1)
      | inr h1 => exact .inr h1
    · exact List.mem_append_left _ (h x hx')
  | expEndDrop f fl o hfl hs => exact h
  | expEndKeep f fl hfl hs hr hp => exact h
  | giveUp f fl kept hfl hs hk => exact h
  | _ => exact h

/-! ## the invariant, all together -/

structure Inv (s : State) : Prop where
  wf : WF s
  flights : FlightsOK s
  conserved : Conserved s
  early : EarlyConserved s
  late : MemLate s
  kept : PersistKept s
  sub : EarlySub s

theorem inv_init (cfg : Cfg) (n w : Nat) (t : Bool) : Inv (init cfg n w t) := by
  refine ⟨wf_init cfg n w t, ?_, ?_, ?_, ?_, ?_, ?_⟩
  · intro fl hfl; simp [init] at hfl
  · intro x; simp [init, places, queueItems, consItems, optItems, flightItems, List.count_flatMap]
    by_cases hbt : cfg.batching = true ∧ t = true <;> simp [hbt, TSt.items, CSt.items]
  · intro x; simp [init]
  · intro _ he; simp [init, List.mem_replicate] at he
  · intro _ x hx; simp [init] at hx
  · intro x hx; simp [init] at hx

theorem inv_step {s s' : State} {l : Label} (h : Inv s) (hf : fire s l = some s') : Inv s' :=
  have hs := fire_step hf
  ⟨wf_step h.wf hs, flightsOK_step h.flights hs, conserved_step h.conserved hs, earlyConserved_step h.early hs,
   memLate_step h.late hs, persistKept_step h.kept hs, earlySub_step h.sub hs⟩

theorem inv_reachable {s : State} (h : Reachable s) : Inv s := by
  induction h with
  | init cfg n w t => exact inv_init cfg n w t
  | step l _ hf ih => exact inv_step ih hf

/-! ## memory queue: empty once a consumer has left (offers are refused after the stop) -/

def MemEmpty (s : State) : Prop :=
  s.cfg.persistent = false → (∃ c ∈ s.cons, c = .exited) → s.queue = []

theorem memEmpty_step {s s' : State} {l : Label} (h : MemEmpty s) (hl : MemLate s) (hs : Step s l s') : MemEmpty s' := by
  cases hs with
  | offer b hopen =>
    intro hm he
    exact absurd ⟨hm, (hl hm he).1⟩ hopen
  | read i b late rest hc hq hg =>
    intro hm he
    have := h hm (exited_of_set (by simp) he)
    rw [hq] at this; simp at this
  | exit i hc hp hq =>
    intro hm _
    cases hq with
    | inl h1 => have hm' : s.cfg.persistent = false := hm; rw [hm'] at h1; simp at h1
    | inr h1 => exact h1
  | sendSync i b hc hb => intro hm he; exact h hm (exited_of_set (by simp) he)
  | consume i b flush keep hc hb hp => intro hm he; exact h hm (exited_of_set (afterFlush_ne_exited _) he)
  | spawn i b rest hc hw => intro hm he; exact h hm (exited_of_set (afterFlush_ne_exited _) he)
  | timerTake b ht hc => exact h
  | timerSpawn b ht hw => exact h
  | timerExit ht hp => exact h
  | expStart f fl hfl hs => exact h
  | expEndDrop f fl o hfl hs => intro hm he; exact h hm (exited_of_release he)
  | expEndAgain f fl hfl hs hr hp0 => exact h
  | expEndKeep f fl hfl hs hr hp => intro hm he; exact h hm (exited_of_release he)
  | giveUp f fl kept hfl hs hk => intro hm he; exact h hm (exited_of_release he)
  | shutRetry hp => exact h
  | shutQueue hp => exact h
  | join hp hall => exact h
  | shutBatcher hp hh => exact h
  | shutSpawn b hh hp hw => exact h
  | shutWait hp hb => exact h

theorem memEmpty_reachable {s : State} (h : Reachable s) : MemEmpty s := by
  induction h with
  | init cfg n w t => intro _ _; simp [init]
  | step l hr hf ih => exact memEmpty_step ih (inv_reachable hr).late (fire_step hf)

end OtelVerif.C03
