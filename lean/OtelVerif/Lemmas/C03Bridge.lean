import OtelVerif.Model.C03Trace
import OtelVerif.Props.C03
/-!
# C03 bridge: the trace of every run of the LTS that reaches "returned" is accepted by the trace monitors

`Rec.run` records the observable events of a schedule.  A joint invariant over the reachable records (`RInv`) ties the recorded
trace to the ghost fields of the state (`early`, the per-flight counters `attempts` / `failures`, the flights that are inside the
export function); together with the state theorems of `Props/C03.lean` it yields `checkMemory` / `checkPersistent` for the trace of
every run that ends with `phase = 5`.
-/
namespace OtelVerif.C03

/-! ## generic list facts -/

theorem evsBefore_append (p : Ev → Bool) (l l' : List Ev) :
    evsBefore p (l ++ l') = if l.any p then evsBefore p l else l ++ evsBefore p l' := by
  induction l with
  | nil => simp
  | cons e l ih =>
    cases hp : p e with
    | true => simp [evsBefore, hp]
    | false => simp [evsBefore, hp, ih]; split <;> rfl

theorem evsAfter_append (p : Ev → Bool) (l l' : List Ev) :
    evsAfter p (l ++ l') = if l.any p then evsAfter p l ++ l' else evsAfter p l' := by
  induction l with
  | nil => simp
  | cons e l ih =>
    cases hp : p e with
    | true => simp [evsAfter, hp]
    | false => simp [evsAfter, hp, ih]

theorem evsBefore_none (p : Ev → Bool) (l : List Ev) (h : l.any p = false) : evsBefore p l = l := by
  induction l with
  | nil => rfl
  | cons e l ih =>
    simp only [List.any_cons, Bool.or_eq_false_iff] at h
    simp [evsBefore, h.1, ih h.2]

theorem evsAfter_none (p : Ev → Bool) (l : List Ev) (h : l.any p = false) : evsAfter p l = [] := by
  induction l with
  | nil => rfl
  | cons e l ih =>
    simp only [List.any_cons, Bool.or_eq_false_iff] at h
    simp [evsAfter, h.1, ih h.2]

/-- an event that is neither `es` nor `ee` -/
def isCall : Ev → Bool
  | .es _ _ => true
  | .ee _ _ => true
  | _ => false

theorem startsOf_append (t t' : List Ev) : startsOf (t ++ t') = startsOf t ++ startsOf t' := by
  simp [startsOf, List.filterMap_append]

theorem endsOf_append (t t' : List Ev) : endsOf (t ++ t') = endsOf t ++ endsOf t' := by
  simp [endsOf, List.filterMap_append]

theorem startsOf_quiet (e : Ev) (h : isCall e = false) : startsOf [e] = [] := by
  cases e <;> simp_all [startsOf, isCall]

theorem endsOf_quiet (e : Ev) (h : isCall e = false) : endsOf [e] = [] := by
  cases e <;> simp_all [endsOf, isCall]

theorem mem_startsOf {t : List Ev} {c : Nat} {b : List Item} : (c, b) ∈ startsOf t ↔ Ev.es c b ∈ t := by
  simp only [startsOf, List.mem_filterMap]
  constructor
  · rintro ⟨e, he, h⟩
    cases e <;> simp at h
    obtain ⟨h1, h2⟩ := h; subst h1; subst h2; exact he
  · intro h; exact ⟨_, h, rfl⟩

theorem mem_endsOf {t : List Ev} {c : Nat} {b : Bool} : (c, b) ∈ endsOf t ↔ Ev.ee c b ∈ t := by
  simp only [endsOf, List.mem_filterMap]
  constructor
  · rintro ⟨e, he, h⟩
    cases e <;> simp at h
    obtain ⟨h1, h2⟩ := h; subst h1; subst h2; exact he
  · intro h; exact ⟨_, h, rfl⟩

theorem sum_map_set {α : Type} (g : α → Nat) :
    ∀ (l : List α) (i : Nat) (old v : α), l[i]? = some old →
      ((l.set i v).map g).sum + g old = (l.map g).sum + g v
  | [], i, old, v, h => by simp at h
  | a :: l, 0, old, v, h => by
    simp at h; subst h
    simp; omega
  | a :: l, i + 1, old, v, h => by
    simp at h
    have := sum_map_set g l i old v h
    simp only [List.set_cons_succ, List.map_cons, List.sum_cons]; omega

theorem le_sum_map {α : Type} (g : α → Nat) : ∀ (l : List α) (a : α), a ∈ l → g a ≤ (l.map g).sum
  | [], a, h => by simp at h
  | b :: l, a, h => by
    simp only [List.mem_cons] at h
    simp only [List.map_cons, List.sum_cons]
    cases h with
    | inl h => subst h; omega
    | inr h => have := le_sum_map g l a h; omega

theorem mem_of_lookup {f c : Nat} : ∀ {pd : List (Nat × Nat)}, pd.lookup f = some c → (f, c) ∈ pd
  | [], h => by simp at h
  | (g, d) :: pd, h => by
    simp only [List.lookup_cons] at h
    cases hfg : f == g with
    | true =>
      simp [hfg] at h
      have : f = g := by simpa using hfg
      subst this; subst h; simp
    | false =>
      simp [hfg] at h
      exact List.mem_cons_of_mem _ (mem_of_lookup h)

theorem lookup_none {f : Nat} {pd : List (Nat × Nat)} (h : pd.lookup f = none) (c : Nat) : (f, c) ∉ pd := by
  intro hc
  have := List.lookup_eq_none_iff.mp h (f, c) hc
  simp at this

theorem getElem?_set_cases {α : Type} {l : List α} {f g : Nat} {v a : α} (h : (l.set f v)[g]? = some a) :
    (g = f ∧ a = v) ∨ (g ≠ f ∧ l[g]? = some a) := by
  rw [List.getElem?_set] at h
  by_cases hfg : f = g
  · subst hfg
    by_cases hlt : f < l.length
    · simp [hlt] at h; exact .inl ⟨rfl, h.symm⟩
    · simp [hlt] at h
  · simp [hfg] at h; exact .inr ⟨fun e => hfg e.symm, h⟩

/-! ## what a step records -/

/-- the events a step appends to the trace -/
def Rec.evs (r : Rec) : Label → List Ev
  | .offer b => [.acc b]
  | .shutRetry => [.shutReq]
  | .shutWait => [.shutRet]
  | .expStart f => [.es r.calls ((r.s.flights[f]?.map (·.batch)).getD [])]
  | .expEnd f o _ =>
    match r.pending.lookup f with
    | some c => [.ee c (o != .ok)]
    | none => []
  | _ => []

/-- the open calls after a step -/
def Rec.pendAfter (r : Rec) : Label → List (Nat × Nat)
  | .expStart f => (f, r.calls) :: r.pending
  | .expEnd f _ _ =>
    match r.pending.lookup f with
    | some _ => r.pending.filter (fun p => p.1 != f)
    | none => r.pending
  | _ => r.pending

theorem step_spec {r r' : Rec} {l : Label} (h : r.step l = some r') :
    fire r.s l = some r'.s ∧ r'.tr = r.tr ++ r.evs l ∧ r'.pending = r.pendAfter l := by
  unfold Rec.step at h
  cases hf : fire r.s l with
  | none => simp [hf] at h
  | some s' =>
    simp only [hf] at h
    cases l with
    | expEnd f o a =>
      simp only [Rec.evs, Rec.pendAfter]
      dsimp only at h
      split at h
      · next c hc => simp only [Option.some.injEq] at h; subst h; simp [hc]
      · next hc => simp only [Option.some.injEq] at h; subst h; simp [hc]
    | _ => simp only [Option.some.injEq] at h; subst h; simp [Rec.evs, Rec.pendAfter]

/-! ## calls: the trace against the flights and the open calls -/

/-- contribution of a flight to the number of export calls that contained `x` -/
def attW (x : Item) (fl : Flight) : Nat := if fl.batch.contains x then fl.attempts else 0

theorem attemptsOf_append_nostart (tr : List Ev) (e : Ev) (x : Item) (h : startsOf [e] = []) :
    attemptsOf (tr ++ [e]) x = attemptsOf tr x := by
  simp [attemptsOf, startsOf_append, h]

theorem attemptsOf_append_es (tr : List Ev) (c : Nat) (b : List Item) (x : Item) :
    attemptsOf (tr ++ [.es c b]) x = attemptsOf tr x + (if b.contains x then 1 else 0) := by
  simp only [attemptsOf, startsOf_append, List.filter_append, List.length_append]
  simp only [startsOf, List.filterMap_cons, List.filterMap_nil, List.filter_cons, List.filter_nil]
  split <;> simp

structure CInv (fs : List Flight) (tr : List Ev) (pd : List (Nat × Nat)) : Prop where
  /-- an open call belongs to a flight that is inside the export function, and its start is in the trace -/
  pend : ∀ f c, (f, c) ∈ pd → ∃ fl, fs[f]? = some fl ∧ fl.st = .calling ∧ Ev.es c fl.batch ∈ tr
  uniq : ∀ f c c', (f, c) ∈ pd → (f, c') ∈ pd → c = c'
  look : ∀ (f : Nat) (fl : Flight), fs[f]? = some fl → fl.st = .calling → ∃ c, (f, c) ∈ pd
  /-- every started call has ended or is open -/
  opn : ∀ c b, Ev.es c b ∈ tr → (∃ fd, Ev.ee c fd ∈ tr) ∨ ∃ f, (f, c) ∈ pd
  /-- a counted failure is in the trace, under the id of a call that carried the flight's batch -/
  fail : ∀ (f : Nat) (fl : Flight), fs[f]? = some fl → 1 ≤ fl.failures → ∃ c, Ev.es c fl.batch ∈ tr ∧ Ev.ee c true ∈ tr
  /-- the calls that contained `x` are the attempts of the flights whose batch contains `x` -/
  att : ∀ x, attemptsOf tr x = (fs.map (attW x)).sum

theorem cinv_init : CInv [] [] [] := by
  refine ⟨?_, ?_, ?_, ?_, ?_, ?_⟩ <;> simp [attemptsOf, startsOf]

theorem cinv_quiet {fs : List Flight} {tr : List Ev} {pd : List (Nat × Nat)} (h : CInv fs tr pd) (e : Ev) (he : isCall e = false) :
    CInv fs (tr ++ [e]) pd := by
  refine ⟨?_, h.uniq, h.look, ?_, ?_, ?_⟩
  · intro f c hc
    obtain ⟨fl, h1, h2, h3⟩ := h.pend f c hc
    exact ⟨fl, h1, h2, List.mem_append_left _ h3⟩
  · intro c b hb
    have hb' : Ev.es c b ∈ tr := by
      simp only [List.mem_append, List.mem_singleton] at hb
      cases hb with
      | inl h1 => exact h1
      | inr h1 => subst h1; simp [isCall] at he
    cases h.opn c b hb' with
    | inl h1 => obtain ⟨fd, h1⟩ := h1; exact .inl ⟨fd, List.mem_append_left _ h1⟩
    | inr h1 => exact .inr h1
  · intro f fl hfl hf
    obtain ⟨c, h1, h2⟩ := h.fail f fl hfl hf
    exact ⟨c, List.mem_append_left _ h1, List.mem_append_left _ h2⟩
  · intro x; rw [attemptsOf_append_nostart _ _ _ (startsOf_quiet e he)]; exact h.att x

theorem cinv_new {fs : List Flight} {tr : List Ev} {pd : List (Nat × Nat)} (h : CInv fs tr pd) (b : Batch) (o : Option Nat) :
    CInv (fs ++ [Flight.new b o]) tr pd := by
  refine ⟨?_, h.uniq, ?_, h.opn, ?_, ?_⟩
  · intro f c hc
    obtain ⟨fl, h1, h2, h3⟩ := h.pend f c hc
    have hlt : f < fs.length := (List.getElem?_eq_some_iff.mp h1).1
    exact ⟨fl, by rw [List.getElem?_append_left hlt]; exact h1, h2, h3⟩
  · intro f fl hfl hst
    cases getElem?_append_singleton hfl with
    | inl h1 => exact h.look f fl h1 hst
    | inr h1 => rw [h1.2] at hst; simp [Flight.new] at hst
  · intro f fl hfl hfa
    cases getElem?_append_singleton hfl with
    | inl h1 => exact h.fail f fl h1 hfa
    | inr h1 => rw [h1.2] at hfa; simp [Flight.new] at hfa
  · intro x; rw [h.att x]; simp [attW, Flight.new]

theorem cinv_start {fs : List Flight} {tr : List Ev} {pd : List (Nat × Nat)} (h : CInv fs tr pd) {f : Nat} {fl : Flight} (c : Nat)
    (hfl : fs[f]? = some fl) (hs : fl.st ≠ .calling) :
    CInv (fs.set f { fl with st := .calling, attempts := fl.attempts + 1 }) (tr ++ [.es c fl.batch]) ((f, c) :: pd) := by
  have hlt : f < fs.length := (List.getElem?_eq_some_iff.mp hfl).1
  have hno : ∀ c', (f, c') ∉ pd := by
    intro c' hc'
    obtain ⟨gl, h1, h2, _⟩ := h.pend f c' hc'
    rw [hfl] at h1; cases h1; exact hs h2
  refine ⟨?_, ?_, ?_, ?_, ?_, ?_⟩
  · intro g c' hc
    simp only [List.mem_cons, Prod.mk.injEq] at hc
    cases hc with
    | inl h1 =>
      obtain ⟨h1, h2⟩ := h1; subst h1; subst h2
      exact ⟨{ fl with st := .calling, attempts := fl.attempts + 1 }, by simp [hlt], rfl, by simp⟩
    | inr h1 =>
      have hne : g ≠ f := by intro e; subst e; exact hno c' h1
      obtain ⟨gl, h2, h3, h4⟩ := h.pend g c' h1
      exact ⟨gl, by rw [List.getElem?_set_ne (Ne.symm hne)]; exact h2, h3, List.mem_append_left _ h4⟩
  · intro g c1 c2 h1 h2
    simp only [List.mem_cons, Prod.mk.injEq] at h1 h2
    cases h1 with
    | inl h1 =>
      cases h2 with
      | inl h2 => rw [h1.2, h2.2]
      | inr h2 => exact absurd (h1.1 ▸ h2) (hno c2)
    | inr h1 =>
      cases h2 with
      | inl h2 => exact absurd (h2.1 ▸ h1) (hno c1)
      | inr h2 => exact h.uniq g c1 c2 h1 h2
  · intro g gl hgl hst
    cases getElem?_set_cases hgl with
    | inl h1 => exact ⟨c, by simp [h1.1]⟩
    | inr h1 => obtain ⟨c', hc'⟩ := h.look g gl h1.2 hst; exact ⟨c', List.mem_cons_of_mem _ hc'⟩
  · intro c' b hb
    simp only [List.mem_append, List.mem_singleton, Ev.es.injEq] at hb
    cases hb with
    | inl h1 =>
      cases h.opn c' b h1 with
      | inl h2 => obtain ⟨fd, h2⟩ := h2; exact .inl ⟨fd, List.mem_append_left _ h2⟩
      | inr h2 => obtain ⟨g, h2⟩ := h2; exact .inr ⟨g, List.mem_cons_of_mem _ h2⟩
    | inr h1 => exact .inr ⟨f, by simp [h1.1]⟩
  · intro g gl hgl hfa
    cases getElem?_set_cases hgl with
    | inl h1 =>
      rw [h1.2] at hfa ⊢
      obtain ⟨c', h2, h3⟩ := h.fail f fl hfl hfa
      exact ⟨c', List.mem_append_left _ h2, List.mem_append_left _ h3⟩
    | inr h1 =>
      obtain ⟨c', h2, h3⟩ := h.fail g gl h1.2 hfa
      exact ⟨c', List.mem_append_left _ h2, List.mem_append_left _ h3⟩
  · intro x
    have := sum_map_set (attW x) fs f fl { fl with st := .calling, attempts := fl.attempts + 1 } hfl
    rw [attemptsOf_append_es, h.att x]
    simp only [attW] at this ⊢
    split <;> simp_all <;> omega

theorem cinv_stop {fs : List Flight} {tr : List Ev} {pd : List (Nat × Nat)} (h : CInv fs tr pd) {f : Nat} {fl v : Flight} {c : Nat}
    {fd : Bool} (hfl : fs[f]? = some fl) (hv : v.st ≠ .calling) (hb : v.batch = fl.batch) (ha : v.attempts = fl.attempts)
    (hf : v.failures = fl.failures ∨ (v.failures = fl.failures + 1 ∧ fd = true)) (hc : (f, c) ∈ pd) :
    CInv (fs.set f v) (tr ++ [.ee c fd]) (pd.filter (fun p => p.1 != f)) := by
  have hmem : ∀ g c', (g, c') ∈ pd.filter (fun p => p.1 != f) ↔ (g, c') ∈ pd ∧ g ≠ f := by
    intro g c'; simp [List.mem_filter]
  refine ⟨?_, ?_, ?_, ?_, ?_, ?_⟩
  · intro g c' hgc
    obtain ⟨h1, hne⟩ := (hmem g c').mp hgc
    obtain ⟨gl, h2, h3, h4⟩ := h.pend g c' h1
    exact ⟨gl, by rw [List.getElem?_set_ne (Ne.symm hne)]; exact h2, h3, List.mem_append_left _ h4⟩
  · intro g c1 c2 h1 h2
    exact h.uniq g c1 c2 ((hmem g c1).mp h1).1 ((hmem g c2).mp h2).1
  · intro g gl hgl hst
    cases getElem?_set_cases hgl with
    | inl h1 => rw [h1.2] at hst; exact absurd hst hv
    | inr h1 => obtain ⟨c', hc'⟩ := h.look g gl h1.2 hst; exact ⟨c', (hmem g c').mpr ⟨hc', h1.1⟩⟩
  · intro c' b hb'
    have hb'' : Ev.es c' b ∈ tr := by simpa using hb'
    cases h.opn c' b hb'' with
    | inl h2 => obtain ⟨fd', h2⟩ := h2; exact .inl ⟨fd', List.mem_append_left _ h2⟩
    | inr h2 =>
      obtain ⟨g, h2⟩ := h2
      by_cases hgf : g = f
      · subst hgf
        have := h.uniq g c' c h2 hc; subst this
        exact .inl ⟨fd, by simp⟩
      · exact .inr ⟨g, (hmem g c').mpr ⟨h2, hgf⟩⟩
  · intro g gl hgl hfa
    cases getElem?_set_cases hgl with
    | inl h1 =>
      rw [h1.2] at hfa ⊢
      rw [hb]
      cases hf with
      | inl h2 =>
        obtain ⟨c', h3, h4⟩ := h.fail f fl hfl (by omega)
        exact ⟨c', List.mem_append_left _ h3, List.mem_append_left _ h4⟩
      | inr h2 =>
        obtain ⟨gl', h3, _, h5⟩ := h.pend f c hc
        rw [hfl] at h3; cases h3
        exact ⟨c, List.mem_append_left _ h5, by simp [h2.2]⟩
    | inr h1 =>
      obtain ⟨c', h2, h3⟩ := h.fail g gl h1.2 hfa
      exact ⟨c', List.mem_append_left _ h2, List.mem_append_left _ h3⟩
  · intro x
    have := sum_map_set (attW x) fs f fl v hfl
    have hw : attW x v = attW x fl := by simp [attW, hb, ha]
    rw [attemptsOf_append_nostart _ _ _ (by simp [startsOf]), h.att x]
    omega

/-- a flight that is not inside the export function ends (`giveUp`) -/
theorem cinv_idle {fs : List Flight} {tr : List Ev} {pd : List (Nat × Nat)} (h : CInv fs tr pd) {f : Nat} {fl v : Flight}
    (hfl : fs[f]? = some fl) (hs : fl.st ≠ .calling) (hv : v.st ≠ .calling) (hb : v.batch = fl.batch) (ha : v.attempts = fl.attempts)
    (hf : v.failures = fl.failures) : CInv (fs.set f v) tr pd := by
  have hno : ∀ c', (f, c') ∉ pd := by
    intro c' hc'
    obtain ⟨gl, h1, h2, _⟩ := h.pend f c' hc'
    rw [hfl] at h1; cases h1; exact hs h2
  refine ⟨?_, h.uniq, ?_, h.opn, ?_, ?_⟩
  · intro g c' h1
    have hne : g ≠ f := by intro e; subst e; exact hno c' h1
    obtain ⟨gl, h2, h3, h4⟩ := h.pend g c' h1
    exact ⟨gl, by rw [List.getElem?_set_ne (Ne.symm hne)]; exact h2, h3, h4⟩
  · intro g gl hgl hst
    cases getElem?_set_cases hgl with
    | inl h1 => rw [h1.2] at hst; exact absurd hst hv
    | inr h1 => exact h.look g gl h1.2 hst
  · intro g gl hgl hfa
    cases getElem?_set_cases hgl with
    | inl h1 =>
      rw [h1.2] at hfa ⊢
      rw [hb]
      exact h.fail f fl hfl (by omega)
    | inr h1 => exact h.fail g gl h1.2 hfa
  · intro x
    have := sum_map_set (attW x) fs f fl v hfl
    have hw : attW x v = attW x fl := by simp [attW, hb, ha]
    rw [h.att x]
    omega

/-! ## shape of the trace against the phase -/

theorem earlyItems_append_single (tr : List Ev) (e : Ev) :
    earlyItems (tr ++ [e]) =
      if tr.any isShutReq then earlyItems tr
      else earlyItems tr ++ (match e with | .acc is => is | _ => []) := by
  simp only [earlyItems, evsBefore_append]
  cases h : tr.any isShutReq with
  | true => simp
  | false =>
    simp only [Bool.false_eq_true, if_false, List.flatMap_append, evsBefore_none _ _ h]
    cases e <;> simp [evsBefore, isShutReq]

structure PInv (ph : Nat) (ea : List Item) (tr : List Ev) : Prop where
  req0 : ph = 0 → tr.any isShutReq = false
  req1 : 1 ≤ ph → tr.any isShutReq = true
  ret4 : ph < 5 → tr.any isShutRet = false
  ret5 : ph = 5 → tr.any isShutRet = true ∧ startsOf (evsBefore isShutRet tr) = startsOf tr ∧
    endsOf (evsBefore isShutRet tr) = endsOf tr ∧ startsOf (evsAfter isShutRet tr) = []
  early : earlyItems tr = ea

theorem pinv_init : PInv 0 [] [] := by
  refine ⟨?_, ?_, ?_, ?_, ?_⟩ <;> simp [earlyItems, evsBefore]

/-- the phase moves between 1 and 4, nothing is recorded -/
theorem pinv_silent {ph ph' : Nat} {ea : List Item} {tr : List Ev} (h : PInv ph ea tr)
    (hp : ph' = ph ∨ (1 ≤ ph ∧ ph < 5 ∧ 1 ≤ ph' ∧ ph' < 5)) : PInv ph' ea tr := by
  cases hp with
  | inl hp => subst hp; exact h
  | inr hp =>
    refine ⟨?_, ?_, ?_, ?_, h.early⟩
    · intro h0; omega
    · intro _; exact h.req1 hp.1
    · intro _; exact h.ret4 hp.2.1
    · intro h5; omega

/-- an `es`/`ee` event before the return -/
theorem pinv_call {ph : Nat} {ea : List Item} {tr : List Ev} (h : PInv ph ea tr) (e : Ev) (he : isCall e = true) (hp : ph ≠ 5) :
    PInv ph ea (tr ++ [e]) := by
  have h1 : isShutReq e = false := by cases e <;> simp_all [isCall, isShutReq]
  have h2 : isShutRet e = false := by cases e <;> simp_all [isCall, isShutRet]
  refine ⟨?_, ?_, ?_, ?_, ?_⟩
  · intro h0; simp [h.req0 h0, h1]
  · intro h0; simp [h.req1 h0]
  · intro h0; simp [h.ret4 h0, h2]
  · intro h5; exact absurd h5 hp
  · rw [earlyItems_append_single, h.early]
    cases e <;> simp_all [isCall]

theorem pinv_offer {ph : Nat} {ea : List Item} {tr : List Ev} (h : PInv ph ea tr) (b : Batch) :
    PInv ph (if ph = 0 then ea ++ b else ea) (tr ++ [.acc b]) := by
  refine ⟨?_, ?_, ?_, ?_, ?_⟩
  · intro h0; simp [h.req0 h0, isShutReq]
  · intro h0; simp [h.req1 h0]
  · intro h0; simp [h.ret4 h0, isShutRet]
  · intro h5
    obtain ⟨h1, h2, h3, h4⟩ := h.ret5 h5
    refine ⟨by simp [h1], ?_, ?_, ?_⟩
    · rw [evsBefore_append, h1, if_pos rfl, startsOf_append, startsOf_quiet _ rfl, List.append_nil]; exact h2
    · rw [evsBefore_append, h1, if_pos rfl, endsOf_append, endsOf_quiet _ rfl, List.append_nil]; exact h3
    · rw [evsAfter_append, h1, if_pos rfl, startsOf_append, startsOf_quiet _ rfl, List.append_nil]; exact h4
  · rw [earlyItems_append_single, h.early]
    by_cases h0 : ph = 0
    · simp [h0, h.req0 h0]
    · simp [h0, h.req1 (by omega)]

theorem pinv_req {ea : List Item} {tr : List Ev} (h : PInv 0 ea tr) : PInv 1 ea (tr ++ [.shutReq]) := by
  refine ⟨?_, ?_, ?_, ?_, ?_⟩
  · intro h0; omega
  · intro _; simp [isShutReq]
  · intro _; simp [h.ret4 (by omega), isShutRet]
  · intro h5; omega
  · rw [earlyItems_append_single, h.early]; simp [h.req0 rfl]

theorem pinv_ret {ea : List Item} {tr : List Ev} (h : PInv 4 ea tr) : PInv 5 ea (tr ++ [.shutRet]) := by
  have h4 := h.ret4 (by omega)
  refine ⟨?_, ?_, ?_, ?_, ?_⟩
  · intro h0; omega
  · intro _; simp [h.req1 (by omega)]
  · intro h0; omega
  · intro _
    refine ⟨by simp [isShutRet], ?_, ?_, ?_⟩
    · simp [evsBefore_append, h4, evsBefore, isShutRet, startsOf]
    · simp [evsBefore_append, h4, evsBefore, isShutRet, endsOf]
    · simp [evsAfter_append, h4, evsAfter, isShutRet, startsOf]
  · rw [earlyItems_append_single, h.early]; simp [h.req1 (by omega)]

/-! ## the invariants along a step -/

theorem releaseOwner_length (cs : List CSt) (f : Nat) (o : Option Nat) : (releaseOwner cs f o).length = cs.length := by
  cases o with
  | none => rfl
  | some i => simp only [releaseOwner]; split <;> simp

/-- the configuration and the number of consumers never change -/
theorem step_static {s s' : State} {l : Label} (hs : Step s l s') : s'.cfg = s.cfg ∧ s'.cons.length = s.cons.length := by
  cases hs <;> simp [finalise, releaseOwner_length]

/-- a flight that has not ended: `Shutdown` has not returned -/
theorem not_returned_of_live {s : State} (hr : Reachable s) {f : Nat} {fl : Flight} (hfl : s.flights[f]? = some fl)
    (hs : fl.st ≠ .done) : s.phase ≠ 5 := by
  intro hp
  exact hs ((C03_quiet hr hp).2.2.2.2.1 fl (mem_of_getElem? hfl))

theorem pinv_step {s s' : State} {l : Label} {tr : List Ev} {calls : Nat} {pd : List (Nat × Nat)}
    (hr : Reachable s) (h : PInv s.phase s.early tr) (hs : Step s l s') :
    PInv s'.phase s'.early (tr ++ Rec.evs ⟨s, tr, calls, pd⟩ l) := by
  cases hs with
  | offer b => exact pinv_offer h b
  | read i b late rest hc hq hg => simp only [Rec.evs, List.append_nil]; exact h
  | exit i hc hp hq => simp only [Rec.evs, List.append_nil]; exact h
  | sendSync i b hc hb => simp only [Rec.evs, List.append_nil]; exact h
  | consume i b flush keep hc hb hp => simp only [Rec.evs, List.append_nil]; exact h
  | spawn i b rest hc hw => simp only [Rec.evs, List.append_nil]; exact h
  | timerTake b ht hc => simp only [Rec.evs, List.append_nil]; exact h
  | timerSpawn b ht hw => simp only [Rec.evs, List.append_nil]; exact h
  | timerExit ht hp => simp only [Rec.evs, List.append_nil]; exact h
  | expStart f fl hfl hs =>
    exact pinv_call h _ rfl (not_returned_of_live hr hfl (by cases hs with | inl h1 => simp [h1] | inr h1 => simp [h1]))
  | expEndDrop f fl o hfl hs =>
    have hp := not_returned_of_live hr hfl (by simp [hs])
    simp only [Rec.evs]
    split
    · exact pinv_call h _ rfl hp
    · simp only [List.append_nil]; exact h
  | expEndAgain f fl hfl hs hr' hp0 =>
    have hp := not_returned_of_live hr hfl (by simp [hs])
    simp only [Rec.evs]
    split
    · exact pinv_call h _ rfl hp
    · simp only [List.append_nil]; exact h
  | expEndKeep f fl hfl hs hr' hp1 =>
    have hp := not_returned_of_live hr hfl (by simp [hs])
    simp only [Rec.evs]
    split
    · exact pinv_call h _ rfl hp
    · simp only [List.append_nil]; exact h
  | giveUp f fl kept hfl hs hk => simp only [Rec.evs, List.append_nil]; exact h
  | shutRetry hp => rw [hp] at h; exact pinv_req h
  | shutQueue hp =>
    simp only [Rec.evs, List.append_nil]
    show PInv 2 s.early tr
    exact pinv_silent h (.inr ⟨by omega, by omega, by omega, by omega⟩)
  | join hp hall =>
    simp only [Rec.evs, List.append_nil]
    show PInv 3 s.early tr
    exact pinv_silent h (.inr ⟨by omega, by omega, by omega, by omega⟩)
  | shutBatcher hp hh =>
    simp only [Rec.evs, List.append_nil]
    show PInv 4 s.early tr
    exact pinv_silent h (.inr ⟨by omega, by omega, by omega, by omega⟩)
  | shutSpawn b hh hp hw => simp only [Rec.evs, List.append_nil]; exact h
  | shutWait hp hb => rw [hp] at h; exact pinv_ret h

theorem cinv_step {s s' : State} {l : Label} {tr : List Ev} {calls : Nat} {pd : List (Nat × Nat)}
    (h : CInv s.flights tr pd) (hs : Step s l s') :
    CInv s'.flights (tr ++ Rec.evs ⟨s, tr, calls, pd⟩ l) (Rec.pendAfter ⟨s, tr, calls, pd⟩ l) := by
  cases hs with
  | offer b => exact cinv_quiet h _ rfl
  | read i b late rest hc hq hg => simp only [Rec.evs, Rec.pendAfter, List.append_nil]; exact h
  | exit i hc hp hq => simp only [Rec.evs, Rec.pendAfter, List.append_nil]; exact h
  | sendSync i b hc hb => simp only [Rec.evs, Rec.pendAfter, List.append_nil]; exact cinv_new h b (some i)
  | consume i b flush keep hc hb hp => simp only [Rec.evs, Rec.pendAfter, List.append_nil]; exact h
  | spawn i b rest hc hw => simp only [Rec.evs, Rec.pendAfter, List.append_nil]; exact cinv_new h b none
  | timerTake b ht hc => simp only [Rec.evs, Rec.pendAfter, List.append_nil]; exact h
  | timerSpawn b ht hw => simp only [Rec.evs, Rec.pendAfter, List.append_nil]; exact cinv_new h b none
  | timerExit ht hp => simp only [Rec.evs, Rec.pendAfter, List.append_nil]; exact h
  | expStart f fl hfl hs =>
    simp only [Rec.evs, Rec.pendAfter, hfl, Option.map_some, Option.getD_some]
    exact cinv_start h calls hfl (by cases hs with | inl h1 => simp [h1] | inr h1 => simp [h1])
  | expEndDrop f fl o hfl hs =>
    obtain ⟨c, hc⟩ := h.look f fl hfl hs
    cases hl : pd.lookup f with
    | none => exact absurd hc (lookup_none hl c)
    | some c' =>
      simp only [Rec.evs, Rec.pendAfter, hl]
      exact cinv_stop h hfl (by simp) rfl rfl (by cases o <;> simp [failOf]) (mem_of_lookup hl)
  | expEndAgain f fl hfl hs hr hp0 =>
    obtain ⟨c, hc⟩ := h.look f fl hfl hs
    cases hl : pd.lookup f with
    | none => exact absurd hc (lookup_none hl c)
    | some c' =>
      simp only [Rec.evs, Rec.pendAfter, hl]
      exact cinv_stop h hfl (by simp) rfl rfl (.inr ⟨rfl, rfl⟩) (mem_of_lookup hl)
  | expEndKeep f fl hfl hs hr hp =>
    obtain ⟨c, hc⟩ := h.look f fl hfl hs
    cases hl : pd.lookup f with
    | none => exact absurd hc (lookup_none hl c)
    | some c' =>
      simp only [Rec.evs, Rec.pendAfter, hl]
      exact cinv_stop h hfl (by simp) rfl rfl (.inr ⟨rfl, rfl⟩) (mem_of_lookup hl)
  | giveUp f fl kept hfl hs hk =>
    simp only [Rec.evs, Rec.pendAfter, List.append_nil]
    exact cinv_idle h hfl (by simp [hs]) (by simp) rfl rfl rfl
  | shutRetry hp => exact cinv_quiet h _ rfl
  | shutQueue hp => simp only [Rec.evs, Rec.pendAfter, List.append_nil]; exact h
  | join hp hall => simp only [Rec.evs, Rec.pendAfter, List.append_nil]; exact h
  | shutBatcher hp hh => simp only [Rec.evs, Rec.pendAfter, List.append_nil]; exact h
  | shutSpawn b hh hp hw => simp only [Rec.evs, Rec.pendAfter, List.append_nil]; exact cinv_new h b none
  | shutWait hp hb => exact cinv_quiet h _ rfl

/-! ## the joint invariant over the records of a run -/

structure RInv (cfg : Cfg) (n : Nat) (r : Rec) : Prop where
  reach : Reachable r.s
  cfg : r.s.cfg = cfg
  cons : r.s.cons.length = n
  shape : PInv r.s.phase r.s.early r.tr
  calls : CInv r.s.flights r.tr r.pending

theorem rinv_start (cfg : Cfg) (n w : Nat) (t : Bool) : RInv cfg n (Rec.start cfg n w t) :=
  ⟨Reachable.init cfg n w t, rfl, by simp [Rec.start, init], pinv_init, cinv_init⟩

theorem rinv_step {cfg : Cfg} {n : Nat} {r r' : Rec} {l : Label} (h : RInv cfg n r) (hs : r.step l = some r') : RInv cfg n r' := by
  obtain ⟨hf, htr, hpd⟩ := step_spec hs
  have hst := fire_step hf
  obtain ⟨h1, h2⟩ := step_static hst
  refine ⟨Reachable.step l h.reach hf, h1.trans h.cfg, h2.trans h.cons, ?_, ?_⟩
  · rw [htr]; exact pinv_step h.reach h.shape hst
  · rw [htr, hpd]; exact cinv_step h.calls hst

theorem rinv_run {cfg : Cfg} {n : Nat} : ∀ (ls : List Label) {r r' : Rec}, RInv cfg n r → r.run ls = some r' → RInv cfg n r'
  | [], r, r', h, hr => by simp only [Rec.run, Option.some.injEq] at hr; exact hr ▸ h
  | l :: ls, r, r', h, hr => by
    simp only [Rec.run] at hr
    cases hs : r.step l with
    | none => simp [hs] at hr
    | some r1 => simp only [hs] at hr; exact rinv_run ls (rinv_step h hs) hr

/-- the state of a recorded run is a reachable state of the LTS -/
theorem rec_reachable (cfg : Cfg) (n w : Nat) (t : Bool) (ls : List Label) (r : Rec)
    (hr : (Rec.start cfg n w t).run ls = some r) : Reachable r.s :=
  (rinv_run ls (rinv_start cfg n w t) hr).reach

/-! ## the clauses of the monitors -/

theorem attemptsOf_pre {tr : List Ev} (h : startsOf (evsBefore isShutRet tr) = startsOf tr) (x : Item) :
    attemptsOf (evsBefore isShutRet tr) x = attemptsOf tr x := by
  simp only [attemptsOf, h]

theorem failedFor_pre {tr : List Ev} (h1 : startsOf (evsBefore isShutRet tr) = startsOf tr)
    (h2 : endsOf (evsBefore isShutRet tr) = endsOf tr) (x : Item) :
    failedFor (evsBefore isShutRet tr) x = failedFor tr x := by
  simp only [failedFor, h1, h2]

/-- every call of a flight whose batch contains `x` is a recorded call that contained `x` -/
theorem attempts_le_attemptsOf {cfg : Cfg} {n : Nat} {r : Rec} (h : RInv cfg n r) {fl : Flight} (hfl : fl ∈ r.s.flights) {x : Item}
    (hx : x ∈ fl.batch) : fl.attempts ≤ attemptsOf r.tr x := by
  rw [h.calls.att x]
  have := le_sum_map (attW x) _ fl hfl
  simpa [attW, hx] using this

/-- "returned", no call open at the return, no call after the return -/
theorem bridge_common {cfg : Cfg} {n : Nat} {r : Rec} (h : RInv cfg n r) (hp : r.s.phase = 5) :
    (verdict r.tr).returned = true ∧ (verdict r.tr).openCalls = [] ∧ (verdict r.tr).lateCalls = [] := by
  obtain ⟨h1, h2, h3, h4⟩ := h.shape.ret5 hp
  have hdone := (C03_quiet h.reach hp).2.2.2.2.1
  refine ⟨h1, ?_, ?_⟩
  · simp only [verdict, h2, h3]
    rw [List.filter_eq_nil_iff]
    intro c hc
    obtain ⟨p, hp1, hp2⟩ := List.mem_map.mp hc
    obtain ⟨c0, b⟩ := p
    simp only at hp2; subst hp2
    have hes := mem_startsOf.mp hp1
    cases h.calls.opn c0 b hes with
    | inl h5 =>
      obtain ⟨fd, h5⟩ := h5
      have : c0 ∈ (endsOf r.tr).map (·.1) := List.mem_map.mpr ⟨(c0, fd), mem_endsOf.mpr h5, rfl⟩
      simp [this]
    | inr h5 =>
      obtain ⟨f, h5⟩ := h5
      obtain ⟨fl, h6, h7, _⟩ := h.calls.pend f c0 h5
      have := hdone fl (mem_of_getElem? h6)
      rw [h7] at this; simp at this
  · simp only [verdict, h4, List.map_nil]

/-- the four clauses of the memory monitor that do not count the calls exactly -/
theorem bridge_memory_core (cfg : Cfg) (n w : Nat) (t : Bool) (ls : List Label) (r : Rec)
    (hm : cfg.persistent = false) (hn : 0 < n)
    (hr : (Rec.start cfg n w t).run ls = some r) (hp : r.s.phase = 5) :
    (verdict r.tr).returned = true ∧ (verdict r.tr).undrained = [] ∧ (verdict r.tr).openCalls = [] ∧
      (verdict r.tr).lateCalls = [] := by
  have h := rinv_run ls (rinv_start cfg n w t) hr
  obtain ⟨h1, h4, h5⟩ := bridge_common h hp
  refine ⟨h1, ?_, h4, h5⟩
  obtain ⟨_, h2, _, _⟩ := h.shape.ret5 hp
  have hcons : r.s.cons ≠ [] := by
    intro he
    have := h.cons; rw [he] at this; simp at this; omega
  simp only [verdict]
  rw [List.filter_eq_nil_iff]
  intro x hx
  rw [h.shape.early] at hx
  obtain ⟨fl, hfl, hxb, _, hat, _⟩ := C03_memory_drained h.reach hp (by rw [h.cfg]; exact hm) hcons x hx
  have := attempts_le_attemptsOf h hfl hxb
  rw [attemptsOf_pre h2]
  simp; omega

/-! ## exact counting: the `duplicated` clause -/

theorem sum_attW_zero (x : Item) : ∀ (fs : List Flight), (∀ gl ∈ fs, x ∉ gl.batch) → (fs.map (attW x)).sum = 0
  | [], _ => rfl
  | a :: fs, h => by
    have h1 : attW x a = 0 := by simp [attW, h a List.mem_cons_self]
    have h2 := sum_attW_zero x fs (fun gl hgl => h gl (List.mem_cons_of_mem _ hgl))
    simp only [List.map_cons, List.sum_cons, h1, h2]

/-- `x` lies in exactly one flight, once: the calls that contained `x` are that flight's calls -/
theorem sum_attW_unique (x : Item) :
    ∀ (fs : List Flight) (fl : Flight), fl ∈ fs → x ∈ fl.batch → (flightItems fs).count x = 1 → (fs.map (attW x)).sum = fl.attempts
  | [], fl, h, _, _ => by simp at h
  | a :: fs, fl, h, hx, hc => by
    simp only [flightItems, List.flatMap_cons, List.count_append] at hc
    simp only [List.map_cons, List.sum_cons]
    by_cases ha : x ∈ a.batch
    · have h1 : 0 < a.batch.count x := List.count_pos_iff.mpr ha
      have hnot : ∀ gl ∈ fs, x ∉ gl.batch := by
        intro gl hgl hxg
        have : 0 < (fs.flatMap (·.batch)).count x := List.count_pos_iff.mpr (List.mem_flatMap.mpr ⟨gl, hgl, hxg⟩)
        omega
      have hz := sum_attW_zero x fs hnot
      have hfa : fl = a := by
        cases List.mem_cons.mp h with
        | inl h2 => exact h2
        | inr h2 => exact absurd hx (hnot fl h2)
      subst hfa
      simp [attW, ha, hz]
    · have h1 : a.batch.count x = 0 := List.count_eq_zero.mpr ha
      have hfl : fl ∈ fs := by
        cases List.mem_cons.mp h with
        | inl h2 => subst h2; exact absurd hx ha
        | inr h2 => exact h2
      have ih := sum_attW_unique x fs fl hfl hx (by simp only [flightItems]; omega)
      simp [attW, ha, ih]

theorem failedFor_of_mem {tr : List Ev} {c : Nat} {b : List Item} {x : Item} (h1 : Ev.es c b ∈ tr) (h2 : Ev.ee c true ∈ tr)
    (hx : x ∈ b) : failedFor tr x = true := by
  simp only [failedFor, List.any_eq_true]
  exact ⟨(c, b), mem_startsOf.mpr h1, by simp [hx, mem_endsOf.mpr h2]⟩

/-- memory queue: the trace of a run that reached "returned" passes the memory monitor -/
theorem bridge_memory (cfg : Cfg) (n w : Nat) (t : Bool) (ls : List Label) (r : Rec)
    (hm : cfg.persistent = false) (hn : 0 < n)
    (hr : (Rec.start cfg n w t).run ls = some r) (hp : r.s.phase = 5) (hu : r.s.accepted.Nodup) :
    checkMemory r.tr = true := by
  have h := rinv_run ls (rinv_start cfg n w t) hr
  obtain ⟨h1, h2, h4, h5⟩ := bridge_memory_core cfg n w t ls r hm hn hr hp
  have h3 : (verdict r.tr).duplicated = [] := by
    obtain ⟨_, hS, hE, _⟩ := h.shape.ret5 hp
    have hmem : r.s.cfg.persistent = false := by rw [h.cfg]; exact hm
    have hcons : r.s.cons ≠ [] := by
      intro he
      have := h.cons; rw [he] at this; simp at this; omega
    simp only [verdict]
    rw [List.filter_eq_nil_iff]
    intro x hx
    rw [h.shape.early] at hx
    rw [attemptsOf_pre hS, failedFor_pre hS hE]
    cases hfail : failedFor r.tr x with
    | true => simp
    | false =>
      obtain ⟨fl, hfl, hxb, _, _, hone⟩ := C03_memory_drained h.reach hp hmem hcons x hx
      have hf0 : fl.failures = 0 := by
        cases hfa : fl.failures with
        | zero => rfl
        | succ k =>
          obtain ⟨f, hf⟩ := List.mem_iff_getElem?.mp hfl
          obtain ⟨c, hc1, hc2⟩ := h.calls.fail f fl hf (by omega)
          rw [failedFor_of_mem hc1 hc2 hxb] at hfail; simp at hfail
      have hacc : r.s.accepted.count x = 1 := by
        rw [hu.count, if_pos ((inv_reachable h.reach).sub x hx)]
      have hcnt := C03_memory_no_duplication h.reach hp hmem hcons x hx hacc
      have hatt : attemptsOf r.tr x = 1 := by
        rw [h.calls.att x, sum_attW_unique x _ fl hfl hxb hcnt]; exact hone hf0
      simp [hatt]
  simp [checkMemory, h1, h2, h3, h4, h5]

/-- persistent queue: the trace of a run that reached "returned" passes the persistent monitor, "recovered" being what is
still in storage -/
theorem bridge_persistent (cfg : Cfg) (n w : Nat) (t : Bool) (ls : List Label) (r : Rec)
    (hpq : cfg.persistent = true)
    (hr : (Rec.start cfg n w t).run ls = some r) (hp : r.s.phase = 5) :
    checkPersistent r.tr r.s.stored = true := by
  have h := rinv_run ls (rinv_start cfg n w t) hr
  obtain ⟨h1, h4, h5⟩ := bridge_common h hp
  have h2 : lostPersistent r.tr r.s.stored = [] := by
    obtain ⟨_, hS, _, _⟩ := h.shape.ret5 hp
    simp only [lostPersistent]
    rw [List.filter_eq_nil_iff]
    intro x hx
    rw [h.shape.early] at hx
    rw [attemptsOf_pre hS]
    cases C03_persistent_kept h.reach (by rw [h.cfg]; exact hpq) x hx with
    | inl hst => simp [hst]
    | inr hfl =>
      obtain ⟨fl, hfl, hxb, _, _, hat⟩ := hfl
      have := attempts_le_attemptsOf h hfl hxb
      have hne : attemptsOf r.tr x ≠ 0 := by omega
      simp [hne]
  simp [checkPersistent, h1, h2, h4, h5]

/-! ## non-vacuity: the hypotheses are met by concrete runs (the demo schedules of `Props/C03.lean`) -/

/-- memory queue, default batcher, retry on: a failed call, a retry interrupted by the shutdown, a late offer -/
def demoRec : Option Rec := (Rec.start { persistent := false, batching := true, retry := true } 1 1 true).run demoSchedule

example : (demoRec.map (fun r => (r.s.phase, decide r.s.accepted.Nodup, r.pending))) = some (5, true, []) := by decide
example : (demoRec.map (·.tr)) =
    some [.acc [1, 2], .acc [3, 4, 5], .es 0 [1, 2, 3], .ee 0 true, .shutReq, .acc [9], .es 1 [4, 5, 9], .ee 1 false, .shutRet] := by
  decide
example : (demoRec.map (fun r => checkMemory r.tr)) = some true := by decide

/-- persistent queue, disabled batcher, two consumers: one request kept by an interrupted retry, one never read -/
def demoPRec : Option Rec := (Rec.start { persistent := true, batching := false, retry := true } 2 0 false).run demoPersistent

example : (demoPRec.map (fun r => (r.s.phase, r.s.stored))) = some (5, [1, 3]) := by decide
example : (demoPRec.map (·.tr)) =
    some [.acc [1], .acc [2], .acc [3], .es 0 [1], .ee 0 true, .es 1 [2], .shutReq, .ee 1 false, .shutRet] := by decide
example : (demoPRec.map (fun r => checkPersistent r.tr r.s.stored)) = some true := by decide

/-! ## the property-level statements (counted obligations; they live here because this module imports `Props/C03.lean`) -/

/-- **Bridge, memory queue.** The observable trace of EVERY run of the LTS that reaches "Shutdown returned" (any schedule,
configuration, re-partition, backend behaviour; unique item ids) is accepted by the monitor that judges the traces of the real
exporter. -/
theorem C03_bridge_memory (cfg : Cfg) (n w : Nat) (t : Bool) (ls : List Label) (r : Rec)
    (hm : cfg.persistent = false) (hn : 0 < n)
    (hr : (Rec.start cfg n w t).run ls = some r) (hp : r.s.phase = 5) (hu : r.s.accepted.Nodup) :
    checkMemory r.tr = true := bridge_memory cfg n w t ls r hm hn hr hp hu

/-- **Bridge, persistent queue** ("recovered" = what is still in storage). -/
theorem C03_bridge_persistent (cfg : Cfg) (n w : Nat) (t : Bool) (ls : List Label) (r : Rec)
    (hpq : cfg.persistent = true)
    (hr : (Rec.start cfg n w t).run ls = some r) (hp : r.s.phase = 5) :
    checkPersistent r.tr r.s.stored = true := bridge_persistent cfg n w t ls r hpq hr hp

end OtelVerif.C03
