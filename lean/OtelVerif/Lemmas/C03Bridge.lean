import OtelVerif.Model.C03Trace
import OtelVerif.Props.C03
/-!
# C03 bridge: the trace of every run of the LTS that reaches "returned" is accepted by the trace monitors

`Rec.run` records the observable events of a schedule.  A joint invariant over the reachable records (`RInv`) ties the recorded
trace to the ghost fields of the state (`early`, the per-flight counters `attempts` / `failures`, the flights that are inside the
export function); together with the state theorems of `Props/C03.lean` it yields `checkMemory` / `checkPersistent` for the trace of
every run that ends with `phase = 5`.
-/
namespace OtelVerif.C03

/-! ## generic list facts -/

theorem evsBefore_append (p : Ev → Bool) (l l' : List Ev) :
    evsBefore p (l ++ l') = if l.any p then evsBefore p l else l ++ evsBefore p l' := by
  induction l with
  | nil => simp
  | cons e l ih =>
    cases hp : p e with
    | true => simp [evsBefore, hp]
    | false => simp [evsBefore, hp, ih]; split <;> rfl

theorem evsAfter_append (p : Ev → Bool) (l l' : List Ev) :
    evsAfter p (l ++ l') = if l.any p then evsAfter p l ++ l' else evsAfter p l' := by
  induction l with
  | nil => simp
  | cons e l ih =>
    cases hp : p e with
    | true => simp [evsAfter, hp]
    | false => simp [evsAfter, hp, ih]

theorem evsBefore_none (p : Ev → Bool) (l : List Ev) (h : l.any p = false) : evsBefore p l = l := by
  induction l with
  | nil => rfl
  | cons e l ih =>
    simp only [List.any_cons, Bool.or_eq_false_iff] at h
    simp [evsBefore, h.1, ih h.2]

theorem evsAfter_none (p : Ev → Bool) (l : List Ev) (h : l.any p = false) : evsAfter p l = [] := by
  induction l with
  | nil => rfl
  | cons e l ih =>
    simp only [List.any_cons, Bool.or_eq_false_iff] at h
    simp [evsAfter, h.1, ih h.2]

/-- an event that is neither `es` nor `ee` -/
def isCall : Ev → Bool
  | .es _ _ => true
  | .ee _ _ => true
  | _ => false

theorem startsOf_append (t t' : List Ev) : startsOf (t ++ t') = startsOf t ++ startsOf t' := by
  simp [startsOf, List.filterMap_append]

theorem endsOf_append (t t' : List Ev) : endsOf (t ++ t') = endsOf t ++ endsOf t' := by
  simp [endsOf, List.filterMap_append]

theorem startsOf_quiet (e : Ev) (h : isCall e = false) : startsOf [e] = [] := by
  cases e <;> simp_all [startsOf, isCall]

theorem endsOf_quiet (e : Ev) (h : isCall e = false) : endsOf [e] = [] := by
  cases e <;> simp_all [endsOf, isCall]

theorem mem_startsOf {t : List Ev} {c : Nat} {b : List Item} : (c, b) ∈ startsOf t ↔ Ev.es c b ∈ t := by
  simp only [startsOf, List.mem_filterMap]
  constructor
  · rintro ⟨e, he, h⟩
    cases e <;> simp at h
    obtain ⟨h1, h2⟩ := h; subst h1; subst h2; exact he
  · intro h; exact ⟨_, h, rfl⟩

theorem mem_endsOf {t : List Ev} {c : Nat} {b : Bool} : (c, b) ∈ endsOf t ↔ Ev.ee c b ∈ t := by
  simp only [endsOf, List.mem_filterMap]
  constructor
  · rintro ⟨e, he, h⟩
    cases e <;> simp at h
    obtain ⟨h1, h2⟩ := h; subst h1; subst h2; exact he
  · intro h; exact ⟨_, h, rfl⟩

theorem sum_map_set {α : Type} (g : α → Nat) :
    ∀ (l : List α) (i : Nat) (old v : α), l[i]? = some old →
      ((l.set i v).map g).sum + g old = (l.map g).sum + g v
  | [], i, old, v, h => by simp at h
  | a :: l, 0, old, v, h => by
    simp at h; subst h
    simp; omega
  | a :: l, i + 1, old, v, h => by
    simp at h
    have := sum_map_set g l i old v h
    simp only [List.set_cons_succ, List.map_cons, List.sum_cons]; omega

theorem le_sum_map {α : Type} (g : α → Nat) : ∀ (l : List α) (a : α), a ∈ l → g a ≤ (l.map g).sum
  | [], a, h => by simp at h
  | b :: l, a, h => by
    simp only [List.mem_cons] at h
    simp only [List.map_cons, List.sum_cons]
    cases h with
    | inl h => subst h; omega
    | inr h => have := le_sum_map g l a h; omega

theorem mem_of_lookup {f c : Nat} : ∀ {pd : List (Nat × Nat)}, pd.lookup f = some c → (f, c) ∈ pd
  | [], h => by simp at h
  | (g, d) :: pd, h => by
    simp only [List.lookup_cons] at h
    cases hfg : f == g with
    | true =>
      simp [hfg] at h
      have : f = g := by simpa using hfg
      subst this; subst h; simp
    | false =>
      simp [hfg] at h
      exact List.mem_cons_of_mem _ (mem_of_lookup h)

theorem lookup_none {f : Nat} {pd : List (Nat × Nat)} (h : pd.lookup f = none) (c : Nat) : (f, c) ∉ pd := by
  intro hc
  have := List.lookup_eq_none_iff.mp h (f, c) hc
  simp at this

theorem getElem?_set_cases {α : Type} {l : List α} {f g : Nat} {v a : α} (h : (l.set f v)[g]? = some a) :
    (g = f ∧ a = v) ∨ (g ≠ f ∧ l[g]? = some a) := by
  rw [List.getElem?_set] at h
  by_cases hfg : f = g
  · subst hfg
    by_cases hlt : f < l.length
    · simp [hlt] at h; exact .inl ⟨rfl, h.symm⟩
    · simp [hlt] at h
  · simp [hfg] at h; exact .inr ⟨fun e => hfg e.symm, h⟩

/-! ## what a step records -/

/-- the events a step appends to the trace -/
def Rec.evs (r : Rec) : Label → List Ev
  | .offer b => [.acc b]
  | .shutRetry => [.shutReq]
  | .shutWait => [.shutRet]
  | .expStart f => [.es r.calls ((r.s.flights[f]?.map (·.batch)).getD [])]
  | .expEnd f o _ =>
    match r.pending.lookup f with
    | some c => [.ee c (o != .ok)]
    | none => []
  | _ => []

/-- the open calls after a step -/
def Rec.pendAfter (r : Rec) : Label → List (Nat × Nat)
  | .expStart f => (f, r.calls) :: r.pending
  | .expEnd f _ _ =>
    match r.pending.lookup f with
    | some _ => r.pending.filter (fun p => p.1 != f)
    | none => r.pending
  | _ => r.pending

theorem step_spec {r r' : Rec} {l : Label} (h : r.step l = some r') :
    fire r.s l = some r'.s ∧ r'.tr = r.tr ++ r.evs l ∧ r'.pending = r.pendAfter l := by
  unfold Rec.step at h
  cases hf : fire r.s l with
  | none => simp [hf] at h
  | some s' =>
    simp only [hf] at h
    cases l with
    | expEnd f o a =>
      simp only [Rec.evs, Rec.pendAfter]
      dsimp only at h
      split at h
      · next c hc => simp only [Option.some.injEq] at h; subst h; simp [hc]
      · next hc => simp only [Option.some.injEq] at h; subst h; simp [hc]
    | _ => simp only [Option.some.injEq] at h; subst h; simp [Rec.evs, Rec.pendAfter]

/-! ## calls: the trace against the flights and the open calls -/

/-- contribution of a flight to the number of export calls that contained `x` -/
def attW (x : Item) (fl : Flight) : Nat := if fl.batch.contains x then fl.attempts else 0

theorem attemptsOf_append_nostart (tr : List Ev) (e : Ev) (x : Item) (h : startsOf [e] = []) :
    attemptsOf (tr ++ [e]) x = attemptsOf tr x := by
  simp [attemptsOf, startsOf_append, h]

theorem attemptsOf_append_es (tr : List Ev) (c : Nat) (b : List Item) (x : Item) :
    attemptsOf (tr ++ [.es c b]) x = attemptsOf tr x + (if b.contains x then 1 else 0) := by
  simp only [attemptsOf, startsOf_append, List.filter_append, List.length_append]
  simp only [startsOf, List.filterMap_cons, List.filterMap_nil, List.filter_cons, List.filter_nil]
  split <;> simp

structure CInv (fs : List Flight) (tr : List Ev) (pd : List (Nat × Nat)) : Prop where
  /-- an open call belongs to a flight that is inside the export function, and its start is in the trace -/
  pend : ∀ f c, (f, c) ∈ pd → ∃ fl, fs[f]? = some fl ∧ fl.st = .calling ∧ Ev.es c fl.batch ∈ tr
  uniq : ∀ f c c', (f, c) ∈ pd → (f, c') ∈ pd → c = c'
  look : ∀ (f : Nat) (fl : Flight), fs[f]? = some fl → fl.st = .calling → ∃ c, (f, c) ∈ pd
  /-- every started call has ended or is open -/
  opn : ∀ c b, Ev.es c b ∈ tr → (∃ fd, Ev.ee c fd ∈ tr) ∨ ∃ f, (f, c) ∈ pd
  /-- a counted failure is in the trace, under the id of a call that carried the flight's batch -/
  fail : ∀ (f : Nat) (fl : Flight), fs[f]? = some fl → 1 ≤ fl.failures → ∃ c, Ev.es c fl.batch ∈ tr ∧ Ev.ee c true ∈ tr
  /-- the calls that contained `x` are the attempts of the flights whose batch contains `x` -/
  att : ∀ x, attemptsOf tr x = (fs.map (attW x)).sum

theorem cinv_init : CInv [] [] [] := by
  refine ⟨?_, ?_, ?_, ?_, ?_, ?_⟩ <;> simp [attemptsOf, startsOf]

theorem cinv_quiet {fs : List Flight} {tr : List Ev} {pd : List (Nat × Nat)} (h : CInv fs tr pd) (e : Ev) (he : isCall e = false) :
    CInv fs (tr ++ [e]) pd := by
  refine ⟨?_, h.uniq, h.look, ?_, ?_, ?_⟩
  · intro f c hc
    obtain ⟨fl, h1, h2, h3⟩ := h.pend f c hc
    exact ⟨fl, h1, h2, List.mem_append_left _ h3⟩
  · intro c b hb
    have hb' : Ev.es c b ∈ tr := by
      simp only [List.mem_append, List.mem_singleton] at hb
      cases hb with
      | inl h1 => exact h1
      | inr h1 => subst h1; simp [isCall] at he
    cases h.opn c b hb' with
    | inl h1 => obtain ⟨fd, h1⟩ := h1; exact .inl ⟨fd, List.mem_append_left _ h1⟩
    | inr h1 => exact .inr h1
  · intro f fl hfl hf
    obtain ⟨c, h1, h2⟩ := h.fail f fl hfl hf
    exact ⟨c, List.mem_append_left _ h1, List.mem_append_left _ h2⟩
  · intro x; rw [attemptsOf_append_nostart _ _ _ (startsOf_quiet e he)]; exact h.att x

theorem cinv_new {fs : List Flight} {tr : List Ev} {pd : List (Nat × Nat)} (h : CInv fs tr pd) (b : Batch) (o : Option Nat) :
    CInv (fs ++ [Flight.new b o]) tr pd := by
  refine ⟨?_, h.uniq, ?_, h.opn, ?_, ?_⟩
  · intro f c hc
    obtain ⟨fl, h1, h2, h3⟩ := h.pend f c hc
    have hlt : f < fs.length := (List.getElem?_eq_some_iff.mp h1).1
    exact ⟨fl, by rw [List.getElem?_append_left hlt]; exact h1, h2, h3⟩
  · intro f fl hfl hst
    cases getElem?_append_singleton hfl with
    | inl h1 => exact h.look f fl h1 hst
    | inr h1 => rw [h1.2] at hst; simp [Flight.new] at hst
  · intro f fl hfl hfa
    cases getElem?_append_singleton hfl with
    | inl h1 => exact h.fail f fl h1 hfa
    | inr h1 => rw [h1.2] at hfa; simp [Flight.new] at hfa
  · intro x; rw [h.att x]; simp [attW, Flight.new]

theorem cinv_start {fs : List Flight} {tr : List Ev} {pd : List (Nat × Nat)} (h : CInv fs tr pd) {f : Nat} {fl : Flight} (c : Nat)
    (hfl : fs[f]? = some fl) (hs : fl.st ≠ .calling) :
    CInv (fs.set f { fl with st := .calling, attempts := fl.attempts + 1 }) (tr ++ [.es c fl.batch]) ((f, c) :: pd) := by
  have hlt : f < fs.length := (List.getElem?_eq_some_iff.mp hfl).1
  have hno : ∀ c', (f, c') ∉ pd := by
    intro c' hc'
    obtain ⟨gl, h1, h2, _⟩ := h.pend f c' hc'
    rw [hfl] at h1; cases h1; exact hs h2
  refine ⟨?_, ?_, ?_, ?_, ?_, ?_⟩
  · intro g c' hc
    simp only [List.mem_cons, Prod.mk.injEq] at hc
    cases hc with
    | inl h1 =>
      obtain ⟨h1, h2⟩ := h1; subst h1; subst h2
      exact ⟨{ fl with st := .calling, attempts := fl.attempts + 1 }, by simp [hlt], rfl, by simp⟩
    | inr h1 =>
      have hne : g ≠ f := by intro e; subst e; exact hno c' h1
      obtain ⟨gl, h2, h3, h4⟩ := h.pend g c' h1
      exact ⟨gl, by rw [List.getElem?_set_ne (Ne.symm hne)]; exact h2, h3, List.mem_append_left _ h4⟩
  · intro g c1 c2 h1 h2
    simp only [List.mem_cons, Prod.mk.injEq] at h1 h2
    cases h1 with
    | inl h1 =>
      cases h2 with
      | inl h2 => rw [h1.2, h2.2]
      | inr h2 => exact absurd (h1.1 ▸ h2) (hno c2)
    | inr h1 =>
      cases h2 with
      | inl h2 => exact absurd (h2.1 ▸ h1) (hno c1)
      | inr h2 => exact h.uniq g c1 c2 h1 h2
  · intro g gl hgl hst
    cases getElem?_set_cases hgl with
    | inl h1 => exact ⟨c, by simp [h1.1]⟩
    | inr h1 => obtain ⟨c', hc'⟩ := h.look g gl h1.2 hst; exact ⟨c', List.mem_cons_of_mem _ hc'⟩
  · intro c' b hb
    simp only [List.mem_append, List.mem_singleton, Ev.es.injEq] at hb
    cases hb with
    | inl h1 =>
      cases h.opn c' b h1 with
      | inl h2 => obtain ⟨fd, h2⟩ := h2; exact .inl ⟨fd, List.mem_append_left _ h2⟩
      | inr h2 => obtain ⟨g, h2⟩ := h2; exact .inr ⟨g, List.mem_cons_of_mem _ h2⟩
    | inr h1 => exact .inr ⟨f, by simp [h1.1]⟩
  · intro g gl hgl hfa
    cases getElem?_set_cases hgl with
    | inl h1 =>
      rw [h1.2] at hfa ⊢
      obtain ⟨c', h2, h3⟩ := h.fail f fl hfl hfa
      exact ⟨c', List.mem_append_left _ h2, List.mem_append_left _ h3⟩
    | inr h1 =>
      obtain ⟨c', h2, h3⟩ := h.fail g gl h1.2 hfa
      exact ⟨c', List.mem_append_left _ h2, List.mem_append_left _ h3⟩
  · intro x
    have := sum_map_set (attW x) fs f fl { fl with st := .calling, attempts := fl.attempts + 1 } hfl
    rw [attemptsOf_append_es, h.att x]
    simp only [attW] at this ⊢
    split <;> simp_all <;> omega

theorem cinv_stop {fs : List Flight} {tr : List Ev} {pd : List (Nat × Nat)} (h : CInv fs tr pd) {f : Nat} {fl v : Flight} {c : Nat}
    {fd : Bool} (hfl : fs[f]? = some fl) (hv : v.st ≠ .calling) (hb : v.batch = fl.batch) (ha : v.attempts = fl.attempts)
    (hf : v.failures = fl.failures ∨ (v.failures = fl.failures + 1 ∧ fd = true)) (hc : (f, c) ∈ pd) :
    CInv (fs.set f v) (tr ++ [.ee c fd]) (pd.filter (fun p => p.1 != f)) := by
  have hmem : ∀ g c', (g, c') ∈ pd.filter (fun p => p.1 != f) ↔ (g, c') ∈ pd ∧ g ≠ f := by
    intro g c'; simp [List.mem_filter]
  refine ⟨?_, ?_, ?_, ?_, ?_, ?_⟩
  · intro g c' hgc
    obtain ⟨h1, hne⟩ := (hmem g c').mp hgc
    obtain ⟨gl, h2, h3, h4⟩ := h.pend g c' h1
    exact ⟨gl, by rw [List.getElem?_set_ne (Ne.symm hne)]; exact h2, h3, List.mem_append_left _ h4⟩
  · intro g c1 c2 h1 h2
    exact h.uniq g c1 c2 ((hmem g c1).mp h1).1 ((hmem g c2).mp h2).1
  · intro g gl hgl hst
    cases getElem?_set_cases hgl with
    | inl h1 => rw [h1.2] at hst; exact absurd hst hv
    | inr h1 => obtain ⟨c', hc'⟩ := h.look g gl h1.2 hst; exact ⟨c', (hmem g c').mpr ⟨hc', h1.1⟩⟩
  · intro c' b hb'
    have hb'' : Ev.es c' b ∈ tr := by simpa using hb'
    cases h.opn c' b hb'' with
    | inl h2 => obtain ⟨fd', h2⟩ := h2; exact .inl ⟨fd', List.mem_append_left _ h2⟩
    | inr h2 =>
      obtain ⟨g, h2⟩ := h2
      by_cases hgf : g = f
      · subst hgf
        have := h.uniq g c' c h2 hc; subst this
        exact .inl ⟨fd, by simp⟩
      · exact .inr ⟨g, (hmem g c').mpr ⟨h2, hgf⟩⟩
  · intro g gl hgl hfa
    cases getElem?_set_cases hgl with
    | inl h1 =>
      rw [h1.2] at hfa ⊢
      rw [hb]
      cases hf with
      | inl h2 =>
        obtain ⟨c', h3, h4⟩ := h.fail f fl hfl (by omega)
        exact ⟨c', List.mem_append_left _ h3, List.mem_append_left _ h4⟩
      | inr h2 =>
        obtain ⟨gl', h3, _, h5⟩ := h.pend f c hc
        rw [hfl] at h3; cases h3
        exact ⟨c, List.mem_append_left _ h5, by simp [h2.2]⟩
    | inr h1 =>
      obtain ⟨c', h2, h3⟩ := h.fail g gl h1.2 hfa
      exact ⟨c', List.mem_append_left _ h2, List.mem_append_left _ h3⟩
  · intro x
    have := sum_map_set (attW x) fs f fl v hfl
    have hw : attW x v = attW x fl := by simp [attW, hb, ha]
    rw [attemptsOf_append_nostart _ _ _ (by simp [startsOf]), h.att x]
    omega

/-- a flight that is not inside the export function ends (`giveUp`) -/
theorem cinv_idle {fs : List Flight} {tr : List Ev} {pd : List (Nat × Nat)} (h : CInv fs tr pd) {f : Nat} {fl v : Flight}
    (hfl : fs[f]? = some fl) (hs : fl.st ≠ .calling) (hv : v.st ≠ .calling) (hb : v.batch = fl.batch) (ha : v.attempts = fl.attempts)
    (hf : v.failures = fl.failures) : CInv (fs.set f v) tr pd := by
  have hno : ∀ c', (f, c') ∉ pd := by
    intro c' hc'
    obtain ⟨gl, h1, h2, _⟩ := h.pend f c' hc'
    rw [hfl] at h1; cases h1; exact hs h2
  refine ⟨?_, h.uniq, ?_, h.opn, ?_, ?_⟩
  · intro g c' h1
    have hne : g ≠ f := by intro e; subst e; exact hno c' h1
    obtain ⟨gl, h2, h3, h4⟩ := h.pend g c' h1
    exact ⟨gl, by rw [List.getElem?_set_ne (Ne.symm hne)]; exact h2, h3, h4⟩
  · intro g gl hgl hst
    cases getElem?_set_cases hgl with
    | inl h1 => rw [h1.2] at hst; exact absurd hst hv
    | inr h1 => exact h.look g gl h1.2 hst
  · intro g gl hgl hfa
    cases getElem?_set_cases hgl with
    | inl h1 =>
      rw [h1.2] at hfa ⊢
      rw [hb]
      exact h.fail f fl hfl (by omega)
    | inr h1 => exact h.fail g gl h1.2 hfa
  · intro x
    have := sum_map_set (attW x) fs f fl v hfl
    have hw : attW x v = attW x fl := by simp [attW, hb, ha]
    rw [h.att x]
    omega

/-! ## shape of the trace against the phase -/

theorem earlyItems_append_single (tr : List Ev) (e : Ev) :
    earlyItems (tr ++ [e]) =
      if tr.any isShutReq then earlyItems tr
      else earlyItems tr ++ (match e with | .acc is => is | _ => []) := by
  simp only [earlyItems, evsBefore_append]
  cases h : tr.any isShutReq with
  | true => simp
  | false =>
    simp only [Bool.false_eq_true, if_false, List.flatMap_append, evsBefore_none _ _ h]
    cases e <;> simp [evsBefore, isShutReq]

structure PInv (ph : Nat) (ea : List Item) (tr : List Ev) : Prop where
  req0 : ph = 0 → tr.any isShutReq = false
  req1 : 1 ≤ ph → tr.any isShutReq = true
  ret4 : ph < 5 → tr.any isShutRet = false
  ret5 : ph = 5 → tr.any isShutRet = true ∧ startsOf (evsBefore isShutRet tr) = startsOf tr ∧
    endsOf (evsBefore isShutRet tr) = endsOf tr ∧ startsOf (evsAfter isShutRet tr) = []
  early : earlyItems tr = ea

theorem pinv_init : PInv 0 [] [] := by
  refine ⟨?_, ?_, ?_, ?_, ?_⟩ <;> simp [earlyItems, evsBefore]

/-- the phase moves between 1 and 4, nothing is recorded -/
theorem pinv_silent {ph ph' : Nat} {ea : List Item} {tr : List Ev} (h : PInv ph ea tr)
    (hp : ph' = ph ∨ (1 ≤ ph ∧ ph < 5 ∧ 1 ≤ ph' ∧ ph' < 5)) : PInv ph' ea tr := by
  cases hp with
  | inl hp => subst hp; exact h
  | inr hp =>
    refine ⟨?_, ?_, ?_, ?_, h.early⟩
    · intro h0; omega
    · intro _; exact h.req1 hp.1
    · intro _; exact h.ret4 hp.2.1
    · intro h5; omega

/-- an `es`/`ee` event before the return -/
theorem pinv_call {ph : Nat} {ea : List Item} {tr : List Ev} (h : PInv ph ea tr) (e : Ev) (he : isCall e = true) (hp : ph ≠ 5) :
    PInv ph ea (tr ++ [e]) := by
  have h1 : isShutReq e = false := by cases e <;> simp_all [isCall, isShutReq]
  have h2 : isShutRet e = false := by cases e <;> simp_all [isCall, isShutRet]
  refine ⟨?_, ?_, ?_, ?_, ?_⟩
  · intro h0; simp [h.req0 h0, h1]
  · intro h0; simp [h.req1 h0]
  · intro h0; simp [h.ret4 h0, h2]
  · intro h5; exact absurd h5 hp
  · rw [earlyItems_append_single, h.early]
    cases e <;> simp_all [isCall]

theorem pinv_offer {ph : Nat} {ea : List Item} {tr : List Ev} (h : PInv ph ea tr) (b : Batch) :
    PInv ph (if ph = 0 then ea ++ b else ea) (tr ++ [.acc b]) := by
  refine ⟨?_, ?_, ?_, ?_, ?_⟩
  · intro h0; simp [h.req0 h0, isShutReq]
  · intro h0; simp [h.req1 h0]
  · intro h0; simp [h.ret4 h0, isShutRet]
  · intro h5
    obtain ⟨h1, h2, h3, h4⟩ := h.ret5 h5
    refine ⟨by simp [h1], ?_, ?_, ?_⟩
    · rw [evsBefore_append, h1, if_pos rfl, startsOf_append, startsOf_quiet _ rfl, List.append_nil]; exact h2
    · rw [evsBefore_append, h1, if_pos rfl, endsOf_append, endsOf_quiet _ rfl, List.append_nil]; exact h3
    · rw [evsAfter_append, h1, if_pos rfl, startsOf_append, startsOf_quiet _ rfl, List.append_nil]; exact h4
  · rw [earlyItems_append_single, h.early]
    by_cases h0 : ph = 0
    · simp [h0, h.req0 h0]
    · simp [h0, h.req1 (by omega)]

theorem pinv_req {ea : List Item} {tr : List Ev} (h : PInv 0 ea tr) : PInv 1 ea (tr ++ [.shutReq]) := by
  refine ⟨?_, ?_, ?_, ?_, ?_⟩
  · intro h0; omega
  · intro _; simp [isShutReq]
  · intro _; simp [h.ret4 (by omega), isShutRet]
  · intro h5; omega
  · rw [earlyItems_append_single, h.early]; simp [h.req0 rfl]

theorem pinv_ret {ea : List Item} {tr : List Ev} (h : PInv 4 ea tr) : PInv 5 ea (tr ++ [.shutRet]) := by
  have h4 := h.ret4 (by omega)
  refine ⟨?_, ?_, ?_, ?_, ?_⟩
  · intro h0; omega
  · intro _; simp [h.req1 (by omega)]
  · intro h0; omega
  · intro _
    refine ⟨by simp [isShutRet], ?_, ?_, ?_⟩
    · simp [evsBefore_append, h4, evsBefore, isShutRet, startsOf_append, startsOf]
    · simp [evsBefore_append, h4, evsBefore, isShutRet, endsOf_append, endsOf]
    · simp [evsAfter_append, h4, evsAfter, isShutRet, startsOf]
  · rw [earlyItems_append_single, h.early]; simp [h.req1 (by omega)]

end OtelVerif.C03
